(* C09 proofs: the imported bridge exits a certificate carries verify against the L1 info root it names. *)
From Coq Require Import NArith ZArith List Bool Lia Arith PeanoNat.
From Verif Require Import Base.Bytes Base.FastBytes Base.Hash Model.Merkle Model.MerkleSpec Model.TreeStore Model.Contracts
  Model.GlobalIndex Model.Commitment Model.ClaimProofs Model.C09Cases
  Proofs.HashFacts Proofs.BitFacts Proofs.Frontier Proofs.Rht Proofs.Sparse Proofs.CommitmentProofs Proofs.GlobalIndexProofs.
Import ListNotations.
Open Scope N_scope.

(* ------------------------------------------------------------------------------------------------ *)
(* small generic facts                                                                               *)
(* ------------------------------------------------------------------------------------------------ *)
Lemma forall2_combine_in {A B} (P : A -> B -> Prop) : forall a b x y,
  Forall2 P a b -> In (x, y) (combine a b) -> P x y /\ In x a.
Proof.
  induction a as [|a0 a IH]; intros b x y HF Hin; inversion HF; subst; cbn [combine] in Hin; [contradiction|].
  destruct Hin as [E|Hin].
  - inversion E; subst. split; [assumption|left; reflexivity].
  - destruct (IH _ _ _ H3 Hin) as [Hp Hi]. split; [exact Hp|right; exact Hi].
Qed.

Section CalcFacts.
Context {hash : Type}.
Lemma calc_ext2 (n1 n2 : hash -> hash -> hash) : (forall a b, n1 a b = n2 a b) ->
  forall s lvl x b1 b2, (forall k : nat, b1 k = b2 k) -> calc n1 lvl s x b1 = calc n2 lvl s x b2.
Proof.
  intros Hn. induction s as [|y s IH]; intros lvl x b1 b2 Hb; cbn [calc]; [reflexivity|].
  rewrite (Hb lvl), !Hn. apply IH, Hb.
Qed.
Lemma swalk_ext (zh : nat -> hash) (m : rht) : forall h x b1 b2, (forall k : nat, b1 k = b2 k) ->
  swalk zh m h x b1 = swalk zh m h x b2.
Proof.
  induction h as [|h IH]; intros x b1 b2 Hb; cbn [swalk]; [reflexivity|].
  destruct (m x) as [[l r]|]; [|reflexivity]. rewrite (Hb h). destruct (b2 h); f_equal; apply IH, Hb.
Qed.
Lemma calc_inj_leaf (node : hash -> hash -> hash) : (forall a b c d, node a b = node c d -> a = c /\ b = d) ->
  forall s lvl x y bit, calc node lvl s x bit = calc node lvl s y bit -> x = y.
Proof.
  intros inj. induction s as [|t s IH]; intros lvl x y bit E; cbn [calc] in E; [exact E|].
  apply IH in E. destruct (bit lvl); apply inj in E; tauto.
Qed.
End CalcFacts.

Lemma bitN_to_nat i h : bitN i h = Nat.testbit (N.to_nat i) h.
Proof. rewrite <- (N2Nat.id i) at 1. apply bitN_of_nat. Qed.

Lemma fbe_cons_32 v : exists b t, fbe 32 v = b :: t.
Proof.
  pose proof (fbe_length 32 v) as Hl. destruct (fbe 32 v) as [|b t]; [discriminate|]. eauto.
Qed.

Lemma node_keccak_is_nodeN l r : node keccakN l r = nodeN l r.
Proof. unfold node, nodeN. rewrite !fbe_be, !be_fast_eq. reflexivity. Qed.

(* ------------------------------------------------------------------------------------------------ *)
(* byte-level layouts: what the certificate hashes = what the contracts hash = what the node stores    *)
(* ------------------------------------------------------------------------------------------------ *)

(* agglayer L1InfoTreeLeaf(Inner).Hash = the global exit root contract's L1 info tree leaf value *)
Theorem l1leaf_hash_is_contract_leaf_lemma l :
  l1leaf_hash_n keccakN l = l1info_leaf_value (l1_ger l) (l1_block_hash l) (l1_timestamp l).
Proof. unfold l1leaf_hash_n, l1leaf_preimage, l1info_leaf_value. rewrite !fbe_be, !be_fast_eq. reflexivity. Qed.

(* ... and it is the leaf l1infotreesync appended to its tree for that row (info_of mirrors GetGlobalExitRoot / GetHash) *)
Theorem stored_leaf_is_contract_leaf_lemma blk idx e :
  let i := info_of blk idx e in
  li_ger i = ger_of (u_mer e) (u_rer e) /\ li_hash i = l1info_leaf_value (li_ger i) (li_parent i) (li_ts i).
Proof. cbv zeta. unfold info_of. cbn [li_ger li_hash li_parent li_ts]. split; reflexivity. Qed.

Lemma info_of_row_ok blk idx e : row_ok_b (info_of blk idx e) = true.
Proof.
  unfold row_ok_b. apply andb_true_iff. split; apply N.eqb_eq.
  - unfold info_of. cbn [li_ger li_mer li_rer]. unfold ger_of. symmetry. apply node_keccak_is_nodeN.
  - unfold info_of. cbn [li_ger li_hash li_parent li_ts]. unfold l1info_leaf_value.
    rewrite !fbe_be, !be_fast_eq. reflexivity.
Qed.

(* ProcessBlock only ever adds rows of the shape `info_of` *)
Lemma process_events_rows blk init : forall es ls t mem added mem' added' ls' t',
  Forall (fun l => row_ok_b l = true) ls ->
  process_events blk init ls t mem added es = (mem', added', Some (ls', t')) ->
  Forall (fun l => row_ok_b l = true) ls'.
Proof.
  induction es as [|e es IH]; intros ls t mem added mem' added' ls' t' Hok Hp; cbn [process_events] in Hp.
  - inversion Hp; subst. exact Hok.
  - destruct (existsb _ ls); [discriminate|].
    destruct (add_leaf_exec _ _ _ _ _ _) as [m1 [e1|t1]]; [discriminate|].
    eapply IH; [|exact Hp]. apply Forall_app. split; [exact Hok|]. constructor; [apply info_of_row_ok|constructor].
Qed.
Theorem process_block_rows_ok_lemma st b :
  Forall (fun l => row_ok_b l = true) (s_leaves st) ->
  Forall (fun l => row_ok_b l = true) (s_leaves (snd (process_block st b))).
Proof.
  intros Hok. unfold process_block. destruct (existsb _ (s_blocks st)); [exact Hok|].
  destruct (process_events _ _ _ _ _ _ _) as [[m a] [[ls t]|]] eqn:E; cbn [snd s_leaves]; [|exact Hok].
  eapply process_events_rows; [exact Hok|exact E].
Qed.

(* ------------------------------------------------------------------------------------------------ *)
(* the main theorem, generic in the hash and in the L1 side                                          *)
(* ------------------------------------------------------------------------------------------------ *)
Section Abstract.
Variable hash : bytes -> N.
Variable cl : l1client.
Variable q : l1side.
Notation node := (node hash).

Lemma build_forall2 root : forall cs l, build_imported_exits hash q root cs = inr l ->
  Forall2 (fun c i => build_one hash q root c = inr i) cs l.
Proof.
  induction cs as [|c cs IH]; intros l Hb; cbn [build_imported_exits] in Hb.
  - inversion Hb. constructor.
  - destruct (build_one hash q root c) as [e|i] eqn:E1; [discriminate|].
    destruct (build_imported_exits hash q root cs) as [e|l'] eqn:E2; [discriminate|].
    inversion Hb; subst. constructor; [exact E1|apply IH; reflexivity].
Qed.

Lemma verify_claim_gers_in : forall cs, verify_claim_gers hash cs = true ->
  forall c, In c cs -> node (k_mer c) (k_rer c) = k_ger c.
Proof.
  induction cs as [|c0 cs IH]; intros Hv c Hin; [contradiction|]. cbn [verify_claim_gers] in Hv.
  destruct (N.eqb_spec (node (k_mer c0) (k_rer c0)) (k_ger c0)) as [E|]; [|discriminate].
  destruct Hin as [<-|Hin]; [exact E|apply IH; assumption].
Qed.

(* the root the flow names is the one recorded for the index of the leaf it read *)
Lemma choose_recorded root info : choose_l1_root cl q = inr (root, info) ->
  q_root_by_index q (li_index info) = Some root.
Proof.
  unfold choose_l1_root. destruct (latest_processed_finalized_block cl q) as [e|blk]; [discriminate|].
  destruct (q_latest_info_until q blk) as [e|i]; [discriminate|].
  destruct (q_root_by_index q (li_index i)) as [r|] eqn:E; [|discriminate].
  intros H; inversion H; subst. exact E.
Qed.

(* ... and the leaf it read is the latest one up to a block that is at most the L1 node's finalized block: the block the
   syncer reports for the finalized number when it is behind, else the finalized block itself *)
Lemma choose_at_or_below_finalized_lemma root info : choose_l1_root cl q = inr (root, info) ->
  exists fnum fhash pnum phash, cl_finalized cl = Some (fnum, fhash) /\
     q_processed_until q fnum = Some (pnum, phash) /\ pnum <> 0 /\
     (let blk := if pnum <? fnum then pnum else fnum in
      blk <= fnum /\ q_latest_info_until q blk = inr info).
Proof.
  unfold choose_l1_root, latest_processed_finalized_block.
  destruct (cl_finalized cl) as [[fnum fhash]|]; [|discriminate].
  destruct (q_processed_until q fnum) as [[pnum phash]|] eqn:Ep; [|discriminate].
  destruct (N.eqb_spec pnum 0) as [|Hp0]; [discriminate|].
  intros Hc. exists fnum, fhash, pnum, phash. repeat split; try assumption.
  - destruct (N.ltb_spec pnum fnum); lia.
  - destruct (N.ltb_spec pnum fnum) as [Hlt|Hge].
    + destruct (cl_header cl pnum) as [h|]; [|discriminate].
      destruct ((phash =? 0) || (phash =? h)); [|discriminate].
      destruct (q_latest_info_until q pnum) as [e|i] eqn:Ei; [discriminate|].
      destruct (q_root_by_index q (li_index i)); [|discriminate]. inversion Hc; subst. reflexivity.
    + destruct ((phash =? 0) || (phash =? fhash)); [|discriminate].
      destruct (q_latest_info_until q fnum) as [e|i] eqn:Ei; [discriminate|].
      destruct (q_root_by_index q (li_index i)); [|discriminate]. inversion Hc; subst. reflexivity.
Qed.

(* BridgeExit.Hash of the converted claim = the contract's getLeafValue of the claim's fields *)
Lemma exit_hash_is_contract_leaf c : exit_hash_n hash (convert_exit hash c) = contract_leaf_value hash c.
Proof.
  unfold exit_hash_n, contract_leaf_value, exit_preimage, convert_exit.
  cbn [x_leaf_type x_orig_net x_orig_addr x_dest_net x_dest_addr x_amount x_metadata amount_val].
  f_equal. f_equal; [destruct (k_is_msg c); reflexivity|]. do 5 f_equal.
  unfold convert_metadata, meta_eff, empty_bytes_hash, H. destruct (k_meta c) as [|b t]; [reflexivity|].
  destruct (fbe_cons_32 (hash (b :: t))) as [b' [t' E]]. rewrite E. reflexivity.
Qed.

Lemma flag_canonical v : GlobalIndex.canonical v -> (2^64 <=? v) && (v <? 2^72) = contract_mainnet_flag v.
Proof.
  unfold contract_mainnet_flag. intros [Hlt|[Hge Hlt]].
  - assert (E : (2^64 <=? v) = false) by (apply N.leb_gt; exact Hlt). rewrite E. cbn [andb].
    symmetry. apply N.testbit_false. rewrite N.div_small by exact Hlt. reflexivity.
  - assert (E1 : (2^64 <=? v) = true) by (apply N.leb_le; exact Hge).
    assert (E2 : (v <? 2^72) = true) by (apply N.ltb_lt; change (2^72) with (2^64 * 256); lia).
    rewrite E1, E2. cbn [andb]. symmetry. apply N.testbit_true.
    replace (v / 2^64) with 1; [reflexivity|]. apply N.div_unique with (v - 2^64); lia.
Qed.
Lemma decode_contract v : GlobalIndex.canonical v ->
  decode v = (contract_mainnet_flag v, contract_rollup_index v, contract_leaf_index v).
Proof.
  intros Hc. rewrite (decode_closed v (canonical_lt v Hc)), (flag_canonical v Hc). reflexivity.
Qed.

Lemma u32_small x : x < 2^32 -> u32 x = x.
Proof.
  intros Hx. unfold u32. change mask32 with (N.ones 32). rewrite N.land_ones. apply N.mod_small, Hx.
Qed.

(* C09 *)
Theorem imported_exit_verifies_lemma cs cc c ibe :
  l1_sound hash q ->
  pp_build hash cl q cs = inr (Some cc) ->
  In (c, ibe) (combine cs (cc_imported cc)) ->
  claims_ger_finalized q (cc_root cc) cs ->
  GlobalIndex.canonical (k_gidx c) -> contract_accepted hash c ->
  r_pos (cc_root cc) + 1 < 2^32 ->
  let L := claim_leaf (ie_claim ibe) in
  let root := r_hash (cc_root cc) in
  let pg := claim_ger_proof (ie_claim ibe) in
  (* (1) the enclosed leaf hashes with its proof to the named root at the stated index *)
  (mp_root pg = root /\ calc node 0 (mp_siblings pg) (l1leaf_hash_n hash L) (bitN (l1_index L)) = root) /\
  (* (2) the leaf count belongs to that root and covers the leaf *)
  (l1_index L < cc_leaf_count cc /\ cc_leaf_count cc = r_pos (cc_root cc) + 1 /\
   q_root_by_index q (r_pos (cc_root cc)) = Some (cc_root cc)) /\
  (* (3) the leaf's GER is the hash of its exit roots and is the claim's *)
  (l1_ger L = node (l1_mer L) (l1_rer L) /\ l1_ger L = k_ger c) /\
  (* (4) the exit's own proofs lead from the claimed leaf to those exit roots *)
  match ie_claim ibe with
  | ClaimMainnet pl _ _ =>
      gi_mainnet (ie_gi ibe) = true /\ mp_root pl = l1_mer L /\
      calc node 0 (mp_siblings pl) (exit_hash_n hash (ie_exit ibe)) (bitN (gi_leaf (ie_gi ibe))) = l1_mer L
  | ClaimRollup pl pr _ _ =>
      gi_mainnet (ie_gi ibe) = false /\ mp_root pr = l1_rer L /\
      mp_root pl = calc node 0 (mp_siblings pl) (exit_hash_n hash (ie_exit ibe)) (bitN (gi_leaf (ie_gi ibe))) /\
      calc node 0 (mp_siblings pr) (mp_root pl) (bitN (gi_rollup (ie_gi ibe))) = l1_rer L
  end.
Proof.
  intros Hs Hb Hin Hfin Hcan Hacc Hcnt.
  unfold pp_build in Hb. destruct cs as [|c0 cs0]; [discriminate|]. set (cs := c0 :: cs0) in *.
  destruct (verify_claim_gers hash cs) eqn:Hv; cbn [negb] in Hb; [|discriminate].
  destruct (choose_l1_root cl q) as [e|[root info]] eqn:Hch; [discriminate|].
  destruct (build_imported_exits hash q (r_hash root) cs) as [e|l] eqn:Hbl; [discriminate|].
  inversion Hb; subst cc; clear Hb. cbn [cc_root cc_leaf_count cc_imported] in *.
  destruct (forall2_combine_in _ _ _ _ _ (build_forall2 _ _ _ Hbl) Hin) as [Hone Hc].
  destruct (Hfin c Hc) as [L0 [HL0 Hidx]].
  pose proof (choose_recorded _ _ Hch) as Hrec.
  pose proof (snd_root_idx hash q Hs _ _ Hrec) as Hpos. rewrite <- Hpos in Hrec.
  pose proof (snd_by_ger hash q Hs _ _ HL0) as Hger.
  destruct (snd_row hash q Hs _ _ HL0) as [_ Hhash].
  pose proof (snd_proof hash q Hs _ _ _ _ Hrec HL0 Hidx) as Hproof.
  pose proof (verify_claim_gers_in _ Hv c Hc) as Hcg.
  unfold build_one in Hone. rewrite HL0 in Hone.
  unfold convert_gi in Hone. rewrite (decode_contract _ Hcan) in Hone.
  unfold contract_accepted in Hacc.
  destruct (contract_mainnet_flag (k_gidx c)) eqn:Hflag; cbn [gi_mainnet] in Hone; inversion Hone; subst ibe; clear Hone;
    cbn [ie_claim ie_gi ie_exit claim_leaf claim_ger_proof mp_root mp_siblings l1_index l1_ger l1_mer l1_rer gi_mainnet gi_leaf gi_rollup].
  - repeat split; try reflexivity; try assumption.
    + unfold l1leaf_hash_n, l1leaf_preimage. cbn [l1_ger l1_block_hash l1_timestamp]. rewrite <- Hhash. exact Hproof.
    + unfold leaf_count_of. rewrite (u32_small _ Hcnt). lia.
    + unfold leaf_count_of. apply u32_small, Hcnt.
    + rewrite Hger. symmetry. exact Hcg.
    + rewrite exit_hash_is_contract_leaf. exact Hacc.
  - repeat split; try reflexivity; try assumption.
    + unfold l1leaf_hash_n, l1leaf_preimage. cbn [l1_ger l1_block_hash l1_timestamp]. rewrite <- Hhash. exact Hproof.
    + unfold leaf_count_of. rewrite (u32_small _ Hcnt). lia.
    + unfold leaf_count_of. apply u32_small, Hcnt.
    + rewrite Hger. symmetry. exact Hcg.
    + rewrite exit_hash_is_contract_leaf. exact Hacc.
Qed.

(* ---- outside the quantifier: what the PP flow sends for a claim whose GER is NOT at or below the named root ---- *)

(* GER unknown to the syncer: the whole build fails with "error getting info by global exit root" *)
Lemma unknown_ger_is_error_lemma root c : q_info_by_ger q (k_ger c) = None -> build_one hash q root c = inl EGerNotFound.
Proof. intros E. unfold build_one. rewrite E. reflexivity. Qed.
Lemma unknown_ger_aborts_build root : forall cs, (exists c, In c cs /\ q_info_by_ger q (k_ger c) = None) ->
  build_imported_exits hash q root cs = inl EGerNotFound.
Proof.
  induction cs as [|c0 cs IH]; intros [c [Hin Hn]]; [contradiction|]. cbn [build_imported_exits].
  destruct (build_one hash q root c0) as [e|i] eqn:E1.
  - unfold build_one in E1. destruct (q_info_by_ger q (k_ger c0)); [discriminate|]. inversion E1. reflexivity.
  - destruct Hin as [->|Hin]; [rewrite (unknown_ger_is_error_lemma _ _ Hn) in E1; discriminate|].
    rewrite IH; [reflexivity|eauto].
Qed.
(* GER known to the syncer, whatever its index (in particular ABOVE the named root's index): no error; the proof placed in the
   certificate is whatever GetProof returns for that index under the named root *)
Lemma known_ger_never_checked_lemma root c L : q_info_by_ger q (k_ger c) = Some L ->
  exists ibe, build_one hash q root c = inr ibe /\
    mp_siblings (claim_ger_proof (ie_claim ibe)) = q_proof q (li_index L) root /\
    mp_root (claim_ger_proof (ie_claim ibe)) = root /\ l1_index (claim_leaf (ie_claim ibe)) = li_index L.
Proof.
  intros E. unfold build_one. rewrite E. eexists. split; [reflexivity|].
  cbn [ie_claim]. destruct (gi_mainnet (convert_gi c)); cbn; repeat split; reflexivity.
Qed.
End Abstract.

(* ------------------------------------------------------------------------------------------------ *)
(* the closed-store facts hold of the executable L1 side                                             *)
(* ------------------------------------------------------------------------------------------------ *)

(* (a) by a finite computation on a concrete store (used by the non-vacuity examples) *)
Theorem l1_sound_b_ok_lemma st : l1_sound_b st = true -> l1_sound keccakN (exec_l1side st).
Proof.
  unfold l1_sound_b. intros Hb. apply andb_true_iff in Hb as [Hrows Hproofs].
  rewrite forallb_forall in Hrows. rewrite forallb_forall in Hproofs.
  constructor; cbn [exec_l1side q_info_by_ger q_root_by_index q_proof]; unfold info_by_ger, root_by_index.
  - intros g L Hf. apply find_some in Hf as [_ E]. apply N.eqb_eq, E.
  - intros g L Hf. apply find_some in Hf as [Hin _]. specialize (Hrows _ Hin). unfold row_ok_b in Hrows.
    apply andb_true_iff in Hrows as [E1 E2]. split; apply N.eqb_eq; assumption.
  - intros i r Hf. apply find_some in Hf as [_ E]. apply N.eqb_eq, E.
  - intros i r g L Hr HL Hle. apply find_some in Hr as [Hrin Hri]. apply N.eqb_eq in Hri.
    apply find_some in HL as [HLin _]. specialize (Hproofs _ Hrin). rewrite forallb_forall in Hproofs.
    specialize (Hproofs _ HLin). apply orb_true_iff in Hproofs as [Hlt|Heq].
    + apply N.ltb_lt in Hlt. lia.
    + apply N.eqb_eq, Heq.
Qed.

(* (b) for every store, from the closed reverse-hash-table invariant of C08 (maintained by appends: C08_append_keeps_closed):
   f = the sequence of leaf hashes appended so far *)
Definition l1_store_closed (st : l1state) (f : nat -> N) : Prop :=
  WF nodeN (TreeStore.lookup (s_tree st)) /\
  (forall r, In r (t_roots (s_tree st)) ->
     (N.to_nat (r_pos r) < 2 ^ 32)%nat /\
     r_hash r = mroot nodeN 0 f 32 (S (N.to_nat (r_pos r))) /\
     Closed nodeN 0 f 32 (TreeStore.lookup (s_tree st)) (S (N.to_nat (r_pos r)))) /\
  (forall L, In L (s_leaves st) -> li_hash L = f (N.to_nat (li_index L)) /\ row_ok_b L = true).

Theorem exec_sound_from_closed_lemma st f : l1_store_closed st f -> l1_sound keccakN (exec_l1side st).
Proof.
  intros [Hwf [Hroots Hleaves]].
  constructor; cbn [exec_l1side q_info_by_ger q_root_by_index q_proof]; unfold info_by_ger, root_by_index.
  - intros g L Hf. apply find_some in Hf as [_ E]. apply N.eqb_eq, E.
  - intros g L Hf. apply find_some in Hf as [Hin _]. destruct (Hleaves _ Hin) as [_ Hrow]. unfold row_ok_b in Hrow.
    apply andb_true_iff in Hrow as [E1 E2]. split; apply N.eqb_eq; assumption.
  - intros i r Hf. apply find_some in Hf as [_ E]. apply N.eqb_eq, E.
  - intros i r g L Hr HL Hle. apply find_some in Hr as [Hrin Hri]. apply N.eqb_eq in Hri. subst i.
    apply find_some in HL as [HLin _].
    destruct (Hroots _ Hrin) as [Hbound [Hroot Hclosed]]. destruct (Hleaves _ HLin) as [Hlh _].
    set (j := N.to_nat (li_index L)). set (n := S (N.to_nat (r_pos r))) in *.
    assert (Hjn : (j < n)%nat) by (unfold j, n; lia).
    assert (Hj32 : (j < 2 ^ 32)%nat) by (unfold j; lia).
    destruct (proof_verifies nodeN 0 f (TreeStore.lookup (s_tree st)) n 32 j Hwf Hclosed Hjn Hj32) as [s [Hwalk Hcalc]].
    destruct (swalk_eq_walk zh _ _ _ _ _ _ Hwalk) as [Hsw _].
    unfold get_proof, Gen.get_proof, HEIGHT. rewrite Hroot. unfold mroot.
    rewrite (swalk_ext zh (TreeStore.lookup (s_tree st)) 32 _ (bitN (li_index L)) (Nat.testbit j)) by (intros k; apply bitN_to_nat).
    rewrite Hsw, Hlh. fold j.
    rewrite (calc_ext2 (node keccakN) nodeN node_keccak_is_nodeN s 0%nat (f j) (bitN (li_index L)) (Nat.testbit j))
      by (intros k; apply bitN_to_nat).
    exact Hcalc.
Qed.

(* ------------------------------------------------------------------------------------------------ *)
(* outside the quantifier, tree level: the proof GetProof serves for an index BEYOND the named root     *)
(* ------------------------------------------------------------------------------------------------ *)
Section Beyond.
Local Close Scope N_scope.
Context {hash : Type}.
Variable node : hash -> hash -> hash.
Variable z0 : hash.
Variable f : nat -> hash.
Hypothesis node_inj : forall a b c d, node a b = node c d -> a = c /\ b = d.
Notation zero := (zero node z0).
Notation sub := (sub node z0 f).

(* version n of the append-only tree read at ANY position: leaves 0..n-1, the zero leaf elsewhere *)
Definition pad (n : nat) : nat -> hash := fun j => if j <? n then f j else z0.

Lemma b_calc_app lvl a b cur bit :
  calc node lvl (a ++ b) cur bit = calc node (lvl + length a) b (calc node lvl a cur bit) bit.
Proof.
  revert lvl cur. induction a as [|s t IH]; intros lvl cur; cbn [app calc length].
  - rewrite Nat.add_0_r. reflexivity.
  - rewrite IH. f_equal. lia.
Qed.
Lemma b_zeros_length h : length (zeros zero h) = h.
Proof. induction h; cbn [zeros]; [reflexivity|]. rewrite app_length, IHh. cbn. lia. Qed.
Lemma b_swalk_length (m : rht) h : forall x bit, length (swalk zero m h x bit) = h.
Proof.
  induction h as [|h IH]; intros x bit; cbn [swalk]; [reflexivity|].
  destruct (m x) as [[l r]|]; [|apply b_zeros_length].
  destruct (bit h); rewrite app_length, IH; cbn; lia.
Qed.
Lemma b_calc_zeros h bit : calc node 0 (zeros zero h) z0 bit = zero h.
Proof.
  induction h as [|h IH]; [reflexivity|]. cbn [zeros]. rewrite b_calc_app, IH, b_zeros_length.
  cbn [calc Nat.add Merkle.zero]. destruct (bit h); reflexivity.
Qed.
Lemma sub_zero_inv n h : forall k, sub h k n = zero h -> forall j, k * 2 ^ h <= j < (k + 1) * 2 ^ h -> pad n j = z0.
Proof.
  induction h as [|h IH]; intros k E j Hj; cbn [MerkleSpec.sub Merkle.zero] in E.
  - cbn in Hj. replace j with k by lia. exact E.
  - apply node_inj in E as [E1 E2].
    assert (Hp : 0 < 2 ^ h) by (apply Nat.neq_0_lt_0, Nat.pow_nonzero; lia).
    destruct (Nat.lt_ge_cases j ((2 * k + 1) * 2 ^ h)).
    + apply (IH _ E1). cbn [Nat.pow] in Hj. nia.
    + apply (IH _ E2). cbn [Nat.pow] in Hj. nia.
Qed.

(* every subtree on a path is stored with its true children, or is an (absent) all-zero subtree *)
Lemma closed_or_zero (m : rht) n H : WF node m -> Closed node z0 f H m n -> forall h k, h < H ->
  m (sub (S h) k n) = Some (sub h (2 * k) n, sub h (2 * k + 1) n) \/
  (m (sub (S h) k n) = None /\ sub (S h) k n = zero (S h)).
Proof.
  intros Hwf Hc h k Hh.
  destruct (Nat.lt_ge_cases (k * 2 ^ S h) n) as [Hlt|Hge].
  - left. apply Hc; assumption.
  - assert (Ez : sub (S h) k n = zero (S h)) by (apply sub_zero; exact Hge).
    destruct (m (sub (S h) k n)) as [[l r]|] eqn:Em.
    + left. pose proof (Hwf _ _ _ Em) as E. rewrite Ez in E. cbn [Merkle.zero] in E. apply node_inj in E as [<- <-].
      rewrite (sub_zero node z0 f h (2 * k) n) by (cbn [Nat.pow] in Hge; lia).
      rewrite (sub_zero node z0 f h (2 * k + 1) n) by (cbn [Nat.pow] in Hge; lia). reflexivity.
    + right. split; [reflexivity|exact Ez].
Qed.

(* GetProof (zero-hash fallback included) for ANY position j under a closed version n verifies the padded leaf at j *)
Theorem padded_proof_verifies (m : rht) n H : WF node m -> Closed node z0 f H m n -> forall h j, h <= H ->
  calc node 0 (swalk zero m h (sub h (j / 2 ^ h) n) (Nat.testbit j)) (pad n j) (Nat.testbit j) = sub h (j / 2 ^ h) n.
Proof.
  intros Hwf Hc. induction h as [|h IH]; intros j Hh; cbn [swalk].
  - cbn [calc MerkleSpec.sub]. rewrite Nat.pow_0_r, Nat.div_1_r. reflexivity.
  - pose proof (div_pow_bounds j (S h)) as Hb.
    assert (Hchild : (if Nat.testbit j h then sub h (2 * (j / 2 ^ S h) + 1) n else sub h (2 * (j / 2 ^ S h)) n) = sub h (j / 2 ^ h) n).
    { rewrite testbit_div, div_succ_pow. destruct (Nat.odd (j / 2 ^ h)) eqn:Ho.
      - rewrite <- (odd_div2 _ Ho). reflexivity.
      - rewrite <- (even_div2 _ Ho). reflexivity. }
    destruct (closed_or_zero m n H Hwf Hc h (j / 2 ^ S h) ltac:(lia)) as [Hs|[Hn Hz]].
    + rewrite Hs. destruct (Nat.testbit j h) eqn:Hbit; rewrite Hchild.
      * rewrite b_calc_app, IH, b_swalk_length by lia. cbn [calc Nat.add]. rewrite Hbit, <- Hchild. reflexivity.
      * rewrite b_calc_app, IH, b_swalk_length by lia. cbn [calc Nat.add]. rewrite Hbit, <- Hchild. reflexivity.
    + rewrite Hn, Hz. rewrite (sub_zero_inv n (S h) _ Hz j) by lia. apply b_calc_zeros.
Qed.

(* For an index j at or beyond the n leaves of the named root: no lookup error; the siblings returned verify the ZERO leaf
   at position j against the root, and therefore verify no other leaf value *)
Theorem beyond_root_proof_is_zero_leaf_proof_lemma (m : rht) n H j :
  WF node m -> Closed node z0 f H m n -> n <= j -> j < 2 ^ H ->
  let root := sub H 0 n in
  let proof := swalk zero m H root (Nat.testbit j) in
  calc node 0 proof z0 (Nat.testbit j) = root /\
  forall x, calc node 0 proof x (Nat.testbit j) = root -> x = z0.
Proof.
  intros Hwf Hc Hnj Hj root proof.
  pose proof (padded_proof_verifies m n H Hwf Hc H j (le_n _)) as Hv.
  rewrite (Nat.div_small j (2 ^ H) Hj) in Hv.
  assert (Ep : pad n j = z0) by (unfold pad; destruct (Nat.ltb_spec j n); [lia|reflexivity]).
  rewrite Ep in Hv. split; [exact Hv|].
  intros x Hx. fold root proof in Hv. rewrite <- Hv in Hx. eapply calc_inj_leaf; [exact node_inj|exact Hx].
Qed.
End Beyond.

(* ------------------------------------------------------------------------------------------------ *)
(* boolean forms of the hypotheses (for the non-vacuity examples and the case files)                 *)
(* ------------------------------------------------------------------------------------------------ *)
Lemma contract_accepted_b_ok hash c : contract_accepted_b hash c = true -> contract_accepted hash c.
Proof.
  unfold contract_accepted_b, contract_accepted. destruct (contract_mainnet_flag (k_gidx c)); intros H; apply N.eqb_eq, H.
Qed.
Lemma canonicalb_ok v : GlobalIndex.canonicalb v = true -> GlobalIndex.canonical v.
Proof.
  unfold GlobalIndex.canonicalb, GlobalIndex.canonical. intros H. apply orb_true_iff in H as [H|H].
  - left. apply N.ltb_lt, H.
  - right. apply andb_true_iff in H as [H1 H2]. split; [apply N.leb_le, H1|apply N.ltb_lt, H2].
Qed.
Lemma nth_combine_in {A B} (da : A) (db : B) : forall (a : list A) (b : list B) n,
  (n < length a)%nat -> (n < length b)%nat -> In (nth n a da, nth n b db) (combine a b).
Proof.
  induction a as [|x a IH]; intros b n Ha Hb; [cbn in Ha; lia|].
  destruct b as [|y b]; [cbn in Hb; lia|]. destruct n as [|n]; cbn [nth combine]; [left; reflexivity|].
  right. apply IH; cbn [length] in *; lia.
Qed.
Lemma claims_ger_finalized_b_ok st root cs :
  forallb (fun c => match info_by_ger st (k_ger c) with Some L => li_index L <=? r_pos root | None => false end) cs = true ->
  claims_ger_finalized (exec_l1side st) root cs.
Proof.
  intros Hb. rewrite forallb_forall in Hb. intros c Hin. specialize (Hb c Hin).
  cbn [exec_l1side q_info_by_ger]. destruct (info_by_ger st (k_ger c)) as [L|]; [|discriminate].
  exists L. split; [reflexivity|apply N.leb_le, Hb].
Qed.
Lemma accepted_all_b_ok hash cs :
  forallb (fun c => GlobalIndex.canonicalb (k_gidx c) && contract_accepted_b hash c) cs = true ->
  Forall (fun c => GlobalIndex.canonical (k_gidx c) /\ contract_accepted hash c) cs.
Proof.
  intros Hb. rewrite forallb_forall in Hb. apply Forall_forall. intros c Hin. specialize (Hb c Hin).
  apply andb_true_iff in Hb as [H1 H2]. split; [apply canonicalb_ok, H1|apply contract_accepted_b_ok, H2].
Qed.
Lemma cert_of_is_cert (r : ferr + option cert_claims) :
  is_cert r = true -> r = inr (Some (cc_or_dummy r)).
Proof. destruct r as [e|[cc|]]; try discriminate. reflexivity. Qed.
