(* C14 — lemmas about the fail-stop state machine of Model/Halt.v. *)
From Coq Require Import NArith PeanoNat List Bool String Lia.
From Verif Require Import Model.Halt Model.C14Cases.
Import ListNotations.
Open Scope N_scope.

Lemma eval_cmp_model : forall d, eval_cmp model_unhalt_op d model_unhalt_const = negb (d =? 0).
Proof.
  intro d. unfold model_unhalt_op, model_unhalt_const, eval_cmp.
  destruct (N.eqb_spec d 0) as [->|H]; simpl.
  - reflexivity.
  - apply N.ltb_lt. lia.
Qed.

Section MachineProofs.
  Variable row : Type.
  Variable row_num : row -> N.
  Variable input : Type.
  Variable mem : Type.
  Variable row_has_leaves : row -> bool.
  Variable apply : mem -> list row -> N -> input -> apply_result row * mem.
  Variable on_reorg : mem -> mem.

  Notation st_t := (state row mem).
  Notation pb := (process_block row row_num input mem apply).
  Notation pall := (process_all row row_num input mem apply).
  Notation drv := (drive row row_num input mem apply).
  Notation rg := (reorg row row_num mem on_reorg).
  Notation del := (deleted_rows row row_num mem).
  Notation hasb := (has_block row row_num mem).
  Notation lastb := (last_block row row_num mem).
  Notation runm := (run_method row mem).
  Notation stp := (step row row_num input mem row_has_leaves apply on_reorg).
  Notation rn := (run row row_num input mem row_has_leaves apply on_reorg).
  Notation rgf := (reorg_faulted row row_num mem row_has_leaves on_reorg).
  Notation fires := (fault_fires row row_num mem row_has_leaves).

  (* ---- facade ---- *)
  Lemma halted_queries_fail : forall (m : fmethod) (st : st_t) (body : outcome),
    halted st = true -> fm_guarded m = true -> runm m st body = OInconsistent.
  Proof. intros m st body H G. unfold run_method. rewrite H, G. reflexivity. Qed.

  Lemma healthy_queries_pass : forall (m : fmethod) (st : st_t) (body : outcome),
    halted st = false -> runm m st body = body.
  Proof. intros m st body H. unfold run_method. rewrite H, andb_false_r. reflexivity. Qed.

  Lemma unguarded_queries_pass : forall (m : fmethod) (st : st_t) (body : outcome),
    fm_guarded m = false -> runm m st body = body.
  Proof. intros m st body G. unfold run_method. rewrite G. reflexivity. Qed.

  (* the facade returns the inconsistency error out of its own guard exactly when guarded and halted *)
  Lemma run_method_inconsistent_iff : forall (m : fmethod) (st : st_t) (body : outcome),
    body <> OInconsistent ->
    (runm m st body = OInconsistent <-> fm_guarded m && halted st = true).
  Proof.
    intros m st body Hb. unfold run_method. destruct (fm_guarded m && halted st); split; intro H; try reflexivity; try congruence.
  Qed.

  (* ---- ProcessBlock while halted ---- *)
  Lemma halted_is_sticky : forall (st : st_t) n e, halted st = true -> pb n e st = (OInconsistent, st).
  Proof. intros st n e H. unfold process_block. rewrite H. reflexivity. Qed.

  Lemma halted_is_sticky_all : forall bs (st : st_t), halted st = true ->
    pall bs st = (map (fun _ => OInconsistent) bs, st).
  Proof.
    induction bs as [|[n e] t IH]; intros st H; simpl.
    - reflexivity.
    - rewrite (halted_is_sticky st n e H). rewrite (IH st H). reflexivity.
  Qed.

  Lemma halted_drive_stops : forall bs (st : st_t), halted st = true -> drv bs st = st.
  Proof. intros [|[n e] t] st H; simpl; [reflexivity|]. rewrite (halted_is_sticky st n e H). reflexivity. Qed.

  Lemma halted_last_block_frozen : forall bs (st : st_t), halted st = true ->
    lastb (snd (pall bs st)) = lastb st /\ rows (snd (pall bs st)) = rows st /\ halted (snd (pall bs st)) = true.
  Proof. intros bs st H. rewrite (halted_is_sticky_all bs st H). simpl. auto. Qed.

  (* ---- how a healthy processor becomes halted ---- *)
  Lemma halt_reached_generic : forall (st : st_t) n e m',
    halted st = false -> hasb n st = false -> apply (memory st) (rows st) n e = (AHalt, m') ->
    pb n e st = (OInconsistent, {| halted := true; rows := rows st; memory := m' |}).
  Proof. intros st n e m' H D A. unfold process_block. rewrite H, D, A. reflexivity. Qed.

  Lemma halt_only_by_apply : forall (st : st_t) n e,
    halted st = false -> halted (snd (pb n e st)) = true ->
    hasb n st = false /\ fst (apply (memory st) (rows st) n e) = AHalt.
  Proof.
    intros st n e H. unfold process_block. rewrite H.
    destruct (hasb n st); simpl; [congruence|].
    destruct (apply (memory st) (rows st) n e) as [[r| |] m']; simpl; intros; try congruence; auto.
  Qed.

  (* the inconsistency error is returned exactly when the processor is halted afterwards *)
  Lemma inconsistent_iff_halted_after : forall (st : st_t) n e,
    fst (pb n e st) = OInconsistent <-> halted (snd (pb n e st)) = true.
  Proof.
    intros st n e. unfold process_block.
    destruct (halted st) eqn:H; simpl; [rewrite H; tauto|].
    destruct (hasb n st); simpl; [rewrite H; split; congruence|].
    destruct (apply (memory st) (rows st) n e) as [[r| |] m']; simpl; split; congruence.
  Qed.

  (* the stored rows only change on success; a failed block never advances the syncer *)
  Lemma failed_block_keeps_rows : forall (st : st_t) n e,
    fst (pb n e st) <> OOk -> rows (snd (pb n e st)) = rows st.
  Proof.
    intros st n e. unfold process_block.
    destruct (halted st); simpl; [reflexivity|].
    destruct (hasb n st); simpl; [reflexivity|].
    destruct (apply (memory st) (rows st) n e) as [[r| |] m']; simpl; try reflexivity. congruence.
  Qed.

  (* ---- Reorg ---- *)
  Lemma unhalt_iff_rows_deleted : forall b (st : st_t),
    halted (rg b st) = halted st && (del b st =? 0).
  Proof.
    intros b st. unfold reorg, reorg_with. cbn [halted]. rewrite eval_cmp_model.
    destruct (del b st =? 0); simpl.
    - rewrite andb_true_r. reflexivity.
    - rewrite andb_false_r. reflexivity.
  Qed.

  Lemma reorg_rows : forall b (st : st_t), rows (rg b st) = filter (fun r => row_num r <? b) (rows st).
  Proof. reflexivity. Qed.

  Lemma filter_none_deleted : forall b (l : list row),
    List.length (filter (fun r => b <=? row_num r) l) = 0%nat ->
    filter (fun r => row_num r <? b) l = l.
  Proof.
    induction l as [|r t IH]; simpl; intro H; [reflexivity|].
    destruct (N.leb_spec b (row_num r)) as [L|L]; simpl in H; [discriminate|].
    assert (E : (row_num r <? b) = true) by (apply N.ltb_lt; exact L).
    rewrite E, (IH H). reflexivity.
  Qed.

  (* a reorg that removes no block row changes neither the flag nor the rows (only the in-memory caches are reset) *)
  Lemma reorg_nothing_deleted : forall b (st : st_t), del b st = 0 ->
    rg b st = {| halted := halted st; rows := rows st; memory := on_reorg (memory st) |}.
  Proof.
    intros b [h l mm] H. unfold deleted_rows in H. simpl in H.
    assert (L : List.length (filter (fun r => b <=? row_num r) l) = 0%nat) by lia.
    unfold reorg, reorg_with. simpl. rewrite (filter_none_deleted b l L).
    unfold deleted_rows. simpl. rewrite L. simpl. reflexivity.
  Qed.

  Lemma deleted_pos_iff : forall b (st : st_t),
    0 < del b st <-> exists r, In r (rows st) /\ b <= row_num r.
  Proof.
    intros b st. unfold deleted_rows. split.
    - intro H. destruct (filter (fun r => b <=? row_num r) (rows st)) as [|r t] eqn:E; [simpl in H; lia|].
      assert (I : In r (filter (fun r => b <=? row_num r) (rows st))) by (rewrite E; left; reflexivity).
      apply filter_In in I. destruct I as [I1 I2]. exists r. split; [exact I1|]. apply N.leb_le. exact I2.
    - intros [r [I L]].
      assert (I' : In r (filter (fun r => b <=? row_num r) (rows st))).
      { apply filter_In. split; [exact I|]. apply N.leb_le. exact L. }
      destruct (filter (fun r => b <=? row_num r) (rows st)); [destruct I'|]. simpl. lia.
  Qed.

  Lemma last_block_ge : forall (l : list row) r, In r l ->
    row_num r <= fold_right (fun r a => N.max (row_num r) a) 0 l.
  Proof.
    induction l as [|x t IH]; simpl; intros r I; [destruct I|].
    destruct I as [->|I]; [lia|]. specialize (IH r I). lia.
  Qed.

  Lemma last_block_in : forall (l : list row), l <> [] ->
    exists r, In r l /\ row_num r = fold_right (fun r a => N.max (row_num r) a) 0 l.
  Proof.
    induction l as [|x t IH]; intro H; [congruence|]. simpl.
    destruct t as [|y t'].
    - exists x. split; [left; reflexivity|]. simpl. lia.
    - destruct IH as [r [I E]]; [congruence|].
      destruct (N.leb_spec (fold_right (fun r a => N.max (row_num r) a) 0 (y :: t')) (row_num x)).
      + exists x. split; [left; reflexivity|]. lia.
      + exists r. split; [right; exact I|]. lia.
  Qed.

  (* "a reorg removes processed blocks" = its first block is at or below the last processed block *)
  Lemma deleted_pos_iff_le_last : forall b (st : st_t), rows st <> [] ->
    (0 < del b st <-> b <= lastb st).
  Proof.
    intros b st NE. rewrite deleted_pos_iff. unfold last_block. split.
    - intros [r [I L]]. pose proof (last_block_ge (rows st) r I). lia.
    - intro L. destruct (last_block_in (rows st) NE) as [r [I E]]. exists r. split; [exact I|]. lia.
  Qed.

  Lemma unhalt_iff_reorg_reaches_tip : forall b (st : st_t), halted st = true -> rows st <> [] ->
    (halted (rg b st) = false <-> b <= lastb st).
  Proof.
    intros b st H NE. rewrite unhalt_iff_rows_deleted, H. simpl.
    rewrite <- (deleted_pos_iff_le_last b st NE).
    destruct (N.eqb_spec (del b st) 0); split; intro; try lia; try congruence; try reflexivity.
  Qed.

  Lemma halted_empty_store_never_unhalts : forall b (st : st_t), halted st = true -> rows st = [] ->
    halted (rg b st) = true /\ rows (rg b st) = [].
  Proof.
    intros b st H E. rewrite reorg_nothing_deleted; [simpl; auto|]. unfold deleted_rows. rewrite E. reflexivity.
  Qed.

  (* ---- whole histories: once halted, nothing changes until a reorg deletes a row ---- *)
  Definition deleted_in (rws : list row) (b : N) : N :=
    N.of_nat (List.length (filter (fun r => b <=? row_num r) rws)).
  Definition fires_in (rws : list row) (f : rfault) (b : N) : bool :=
    let doomed := filter (fun r => b <=? row_num r) rws in
    match f with
    | FCommit => negb (Nat.eqb (List.length doomed) 0)
    | FTree => existsb row_has_leaves doomed
    end.
  Definition harmless (rws : list row) (o : op input) : Prop :=
    match o with
    | OpReorg b => deleted_in rws b = 0
    | OpReorgFault f b => fires_in rws f b = true \/ deleted_in rws b = 0
    | _ => True
    end.

  (* ---- a Reorg whose transaction fails: error, rows and flag untouched ---- *)
  Lemma failed_reorg_changes_nothing : forall f b (st : st_t), fires f b st = true ->
    fst (rgf f b st) = OOther /\ halted (snd (rgf f b st)) = halted st /\ rows (snd (rgf f b st)) = rows st.
  Proof.
    intros f b st F. unfold reorg_faulted, reorg_faulted_with. rewrite F. simpl. auto.
  Qed.

  Lemma unfired_fault_is_plain_reorg : forall f b (st : st_t), fires f b st = false ->
    rgf f b st = (OOk, rg b st).
  Proof. intros f b st F. unfold reorg_faulted, reorg_faulted_with. rewrite F. reflexivity. Qed.

  (* whatever the fault does: afterwards halted iff halted before and (the Reorg failed or deleted nothing) *)
  Lemma faulted_reorg_flag : forall f b (st : st_t),
    halted (snd (rgf f b st)) = halted st && (fires f b st || (del b st =? 0)).
  Proof.
    intros f b st. unfold reorg_faulted, reorg_faulted_with. destruct (fires f b st); simpl.
    - rewrite andb_true_r. reflexivity.
    - apply unhalt_iff_rows_deleted.
  Qed.

  (* the variant with UnhaltIfAffectedRows BEFORE the commit clears the flag although the Reorg failed and removed nothing *)
  Lemma early_unhalt_clears_on_failed_reorg : forall f b (st : st_t), fires f b st = true -> del b st <> 0 ->
    halted (snd (reorg_faulted_with row row_num mem row_has_leaves on_reorg true f b st)) = false /\
    rows (snd (reorg_faulted_with row row_num mem row_has_leaves on_reorg true f b st)) = rows st.
  Proof.
    intros f b st F D. unfold reorg_faulted_with. rewrite F. cbn [snd halted rows andb]. rewrite eval_cmp_model.
    destruct (N.eqb_spec (del b st) 0); [congruence|]. simpl. auto.
  Qed.

  Lemma halted_history : forall ops (st : st_t), halted st = true -> Forall (harmless (rows st)) ops ->
    halted (rn ops st) = true /\ rows (rn ops st) = rows st.
  Proof.
    induction ops as [|o t IH]; intros st H F; simpl; [auto|].
    inversion F as [|o' t' Ho Ft]; subst.
    assert (E : halted (snd (stp o st)) = true /\ rows (snd (stp o st)) = rows st).
    { destruct o as [n e|b| |f b]; cbn [step snd].
      - rewrite (halted_is_sticky st n e H). simpl. auto.
      - rewrite (reorg_nothing_deleted b st Ho). simpl. auto.
      - auto.
      - destruct (fires f b st) eqn:Fi.
        + destruct (failed_reorg_changes_nothing f b st Fi) as [_ [A B]]. rewrite A, B. auto.
        + rewrite (unfired_fault_is_plain_reorg f b st Fi). cbn [snd].
          destruct Ho as [Ho|Ho]; [unfold fires_in in Ho; unfold fault_fires in Fi; congruence|].
          rewrite (reorg_nothing_deleted b st Ho). simpl. auto. }
    destruct E as [E1 E2]. destruct (IH (snd (stp o st)) E1) as [I1 I2]; [rewrite E2; exact Ft|].
    split; [exact I1|congruence].
  Qed.

  (* variant of Reorg with the condition `rowsAffected >= 0`: un-halts even when nothing was removed *)
  Lemma ge_variant_always_unhalts : forall b (st : st_t), halted (reorg_with row row_num mem on_reorg CGe 0 b st) = false.
  Proof. intros b st. unfold reorg_with. cbn [halted eval_cmp]. destruct (deleted_rows row row_num mem b st); reflexivity. Qed.

  Lemma reorg_memory : forall b (st : st_t), memory (rg b st) = on_reorg (memory st).
  Proof. reflexivity. Qed.
End MachineProofs.

(* ------------------------------------------------------------------------------------------------ *)
(* bridge route: deposit-count gap                                                                   *)
(* ------------------------------------------------------------------------------------------------ *)

(* the plain event loop: what AddLeaf does when its in-memory index agrees with the database
   (expected index = number of leaves; reject the first DepositCount that is not the expected one) *)
Fixpoint b_scan_simple (evs : list bevent) (expected : N) : option N :=
  match evs with
  | [] => Some expected
  | BOther :: t => b_scan_simple t expected
  | BBridge dc :: t => if dc =? expected then b_scan_simple t (expected + 1) else None
  end.

Lemma b_scan_app : forall pre rest c c', b_scan_simple pre c = Some c' ->
  b_scan_simple (pre ++ rest) c = b_scan_simple rest c'.
Proof.
  induction pre as [|[dc|] t IH]; simpl; intros rest c c' H.
  - injection H as <-. reflexivity.
  - destruct (dc =? c); [|discriminate]. apply IH. exact H.
  - apply IH. exact H.
Qed.

Lemma b_scan_none_iff : forall evs c,
  b_scan_simple evs c = None <->
  exists pre dc post c', evs = pre ++ BBridge dc :: post /\ b_scan_simple pre c = Some c' /\ dc <> c'.
Proof.
  induction evs as [|[dc|] t IH]; intro c; simpl.
  - split; [discriminate|]. intros [pre [dc [post [c' [E _]]]]]. destruct pre; discriminate.
  - destruct (N.eqb_spec dc c) as [->|NE].
    + rewrite IH. split.
      * intros [pre [dc [post [c' [E [S D]]]]]]. exists (BBridge c :: pre), dc, post, c'.
        split; [rewrite E; reflexivity|]. split; [simpl; rewrite N.eqb_refl; exact S|exact D].
      * intros [pre [dc [post [c' [E [S D]]]]]]. destruct pre as [|x pre'].
        -- simpl in E, S. injection E as <- _. injection S as <-. congruence.
        -- simpl in E. injection E as <- E. simpl in S. rewrite N.eqb_refl in S.
           exists pre', dc, post, c'. auto.
    + split; [intros _|reflexivity]. exists [], dc, t, c. simpl. auto.
  - rewrite IH. split.
    + intros [pre [dc [post [c' [E [S D]]]]]]. exists (BOther :: pre), dc, post, c'. split; [rewrite E; reflexivity|]. auto.
    + intros [pre [dc [post [c' [E [S D]]]]]]. destruct pre as [|x pre'].
      * simpl in E. discriminate.
      * simpl in E. injection E as <- E. simpl in S. exists pre', dc, post, c'. auto.
Qed.

Lemma b_scan_simple_ge : forall evs c c', b_scan_simple evs c = Some c' -> c <= c'.
Proof.
  induction evs as [|[dc|] t IH]; simpl; intros c c' H.
  - injection H as <-. lia.
  - destruct (dc =? c); [|discriminate]. apply IH in H. lia.
  - apply IH. exact H.
Qed.

Lemma b_scan_some_count : forall evs c c', b_scan_simple evs c = Some c' -> c' = c + N.of_nat (List.length (b_counts evs)).
Proof.
  induction evs as [|[dc|] t IH]; simpl; intros c c' H.
  - injection H as <-. lia.
  - destruct (dc =? c); [|discriminate]. apply IH in H. lia.
  - apply IH. exact H.
Qed.

(* with an in-memory index that agrees with the database (or is invalidated) the real loop IS the plain loop:
   same verdict; on success the cache ends at the new next index (or is untouched when the block has no leaf) and `last`
   is the index of the last leaf; on failure the cache is what initCache read (no leaf added before) or invalidated *)
Lemma b_scan_synced : forall evs dbn cache j last,
  (cache = None \/ cache = Some dbn) ->
  match b_scan_simple evs dbn with
  | None => exists c, b_scan evs dbn cache j last = (None, c) /\ (c = None \/ (j = 0 /\ c = Some dbn))
  | Some c' => (c' = dbn /\ b_scan evs dbn cache j last = (Some last, cache)) \/
               (dbn < c' /\ b_scan evs dbn cache j last = (Some (Some (c' - 1)), Some c'))
  end.
Proof.
  induction evs as [|[dc|] t IH]; intros dbn cache j last C.
  - simpl. left. split; reflexivity.
  - simpl. destruct (N.eqb_spec dc dbn) as [->|NE].
    + (* the expected index: added, by a cache hit or after initCache *)
      assert (A : b_add_leaf dbn dbn cache = (Some (Some (dbn + 1)), Some (dbn + 1))).
      { destruct C as [->| ->]; unfold b_add_leaf; rewrite N.eqb_refl; reflexivity. }
      rewrite A.
      specialize (IH (dbn + 1) (Some (dbn + 1)) (j + 1) (Some dbn) (or_intror eq_refl)).
      destruct (b_scan_simple t (dbn + 1)) as [c'|] eqn:S.
      * right. destruct IH as [[E R]|[L R]].
        -- subst c'. split; [lia|]. rewrite R. replace (dbn + 1 - 1) with dbn by lia. reflexivity.
        -- split; [lia|exact R].
      * destruct IH as [c [R [->|[J _]]]]; [|lia]. exists None. split; [exact R|left; reflexivity].
    + assert (A : b_add_leaf dc dbn cache = (None, Some dbn)).
      { destruct C as [->| ->]; unfold b_add_leaf.
        - destruct (N.eqb_spec dc dbn); [congruence|reflexivity].
        - destruct (N.eqb_spec dc dbn); [congruence|reflexivity]. }
      rewrite A. unfold b_rollback. destruct (N.eqb_spec j 0) as [->|NZ].
      * exists (Some dbn). split; [reflexivity|right; auto].
      * exists None. split; [reflexivity|left; reflexivity].
  - simpl. apply IH; assumption.
Qed.

Lemma b_synced_init : b_synced b_init.
Proof. left. reflexivity. Qed.

(* verdict of the transaction body on a synced state = verdict of the plain loop against the database *)
Lemma b_apply_synced : forall (st : bstate) num evs, b_synced st ->
  (fst (b_apply (memory st) (rows st) num evs) = AHalt <-> b_scan_simple evs (b_db_next (rows st)) = None).
Proof.
  intros st num evs Sy. unfold b_apply.
  pose proof (b_scan_synced evs (b_db_next (rows st)) (memory st) 0 None Sy) as K.
  destruct (b_scan_simple evs (b_db_next (rows st))) as [c'|].
  - destruct K as [[_ R]|[_ R]]; rewrite R; simpl; split; discriminate.
  - destruct K as [c [R _]]. rewrite R. simpl. split; reflexivity.
Qed.

(* ProcessBlock keeps the in-memory index in agreement with the database (or invalidated), whatever the outcome ... *)
Lemma b_process_preserves_synced : forall (st : bstate) num evs,
  b_synced st -> b_synced (snd (b_process num evs st)).
Proof.
  intros st num evs Sy. unfold b_process, process_block.
  destruct (halted st); [exact Sy|].
  destruct (has_block brow br_num bmem num st); [exact Sy|].
  unfold b_apply.
  pose proof (b_scan_synced evs (b_db_next (rows st)) (memory st) 0 None Sy) as K.
  destruct (b_scan_simple evs (b_db_next (rows st))) as [c'|].
  - destruct K as [[E R]|[L R]]; rewrite R; unfold b_synced; simpl.
    + exact Sy.
    + right. f_equal. lia.
  - destruct K as [c [R [->|[_ ->]]]]; rewrite R; unfold b_synced; simpl; auto.
Qed.

(* ... and every Reorg re-establishes it (AppendOnlyTree.Reorg sets lastIndex = -2) *)
Lemma b_reorg_synced : forall (st : bstate) b, b_synced (b_reorg b st).
Proof. intros st b. left. reflexivity. Qed.

(* hence every state reached from the initial one by any history of blocks / reorgs / queries *)
Notation b_run := (run brow br_num (list bevent) bmem b_has_leaves b_apply b_on_reorg).
Lemma b_step_preserves_synced : forall o (st : bstate), b_synced st ->
  b_synced (snd (step brow br_num (list bevent) bmem b_has_leaves b_apply b_on_reorg o st)).
Proof.
  intros [n e|b| |f b] st Sy; simpl.
  - apply b_process_preserves_synced. exact Sy.
  - apply b_reorg_synced.
  - exact Sy.
  - unfold reorg_faulted, reorg_faulted_with.
    destruct (fault_fires brow br_num bmem b_has_leaves f b st); [|apply b_reorg_synced].
    destruct f; unfold b_synced; simpl; [exact Sy|left; reflexivity].
Qed.

Lemma b_run_preserves_synced : forall ops (st : bstate), b_synced st -> b_synced (b_run ops st).
Proof.
  induction ops as [|o t IH]; intros st Sy; simpl; [exact Sy|].
  apply IH. apply b_step_preserves_synced. exact Sy.
Qed.

Lemma b_reachable_synced : forall ops, b_synced (b_run ops b_init).
Proof. intro ops. apply b_run_preserves_synced. exact b_synced_init. Qed.

Lemma b_halt_reached_gap_synced : forall (st : bstate) num pre dc post c',
  b_synced st -> halted st = false -> has_block brow br_num bmem num st = false ->
  b_scan_simple pre (b_db_next (rows st)) = Some c' -> dc <> c' ->
  fst (b_process num (pre ++ BBridge dc :: post) st) = OInconsistent /\
  halted (snd (b_process num (pre ++ BBridge dc :: post) st)) = true /\
  rows (snd (b_process num (pre ++ BBridge dc :: post) st)) = rows st.
Proof.
  intros st num pre dc post c' Sy H D S NE.
  assert (A : fst (b_apply (memory st) (rows st) num (pre ++ BBridge dc :: post)) = AHalt).
  { apply (b_apply_synced st num _ Sy). rewrite (b_scan_app pre _ _ c' S). simpl.
    destruct (N.eqb_spec dc c'); [congruence|reflexivity]. }
  unfold b_process, process_block. rewrite H, D.
  destruct (b_apply (memory st) (rows st) num (pre ++ BBridge dc :: post)) as [res m']. simpl in A. subst res.
  simpl. auto.
Qed.

(* FULL statement: in every state reachable by any history, a block whose deposit counts do not continue the stored
   ones halts the processor and stores nothing *)
Lemma b_halt_reached_gap : forall ops num pre dc post c',
  let st := b_run ops b_init in
  halted st = false -> has_block brow br_num bmem num st = false ->
  b_scan_simple pre (b_db_next (rows st)) = Some c' -> dc <> c' ->
  fst (b_process num (pre ++ BBridge dc :: post) st) = OInconsistent /\
  halted (snd (b_process num (pre ++ BBridge dc :: post) st)) = true /\
  rows (snd (b_process num (pre ++ BBridge dc :: post) st)) = rows st.
Proof.
  intros ops num pre dc post c' st. apply b_halt_reached_gap_synced. apply b_reachable_synced.
Qed.

Lemma b_halt_only_by_gap_synced : forall (st : bstate) num evs,
  b_synced st -> halted st = false -> halted (snd (b_process num evs st)) = true ->
  exists pre dc post c', evs = pre ++ BBridge dc :: post /\
    b_scan_simple pre (b_db_next (rows st)) = Some c' /\ dc <> c'.
Proof.
  intros st num evs Sy H H'. unfold b_process in H'.
  destruct (halt_only_by_apply brow br_num (list bevent) bmem b_apply st num evs H H') as [_ A].
  apply b_scan_none_iff. apply (b_apply_synced st num evs Sy). exact A.
Qed.

Lemma b_halt_only_by_gap : forall ops num evs,
  let st := b_run ops b_init in
  halted st = false -> halted (snd (b_process num evs st)) = true ->
  exists pre dc post c', evs = pre ++ BBridge dc :: post /\
    b_scan_simple pre (b_db_next (rows st)) = Some c' /\ dc <> c'.
Proof. intros ops num evs st. apply b_halt_only_by_gap_synced. apply b_reachable_synced. Qed.

(* AddLeaf only rejects an index that differs from the database's *)
Lemma b_add_leaf_reject : forall dc dbn cache c, b_add_leaf dc dbn cache = (None, c) -> dc <> dbn /\ c = Some dbn.
Proof.
  intros dc dbn cache c. unfold b_add_leaf.
  destruct cache as [k|]; [destruct (dc =? k); [discriminate|]|];
    (destruct (N.eqb_spec dc dbn); [discriminate|]); intro H; injection H as <-; auto.
Qed.

(* the two regression histories (before the fix 246bc10 the last block of each was accepted): leaf 0 in block 13,
   Reorg(13), then DepositCount 1 on the now empty store; and leaves 0,1,2, Reorg of the block of leaf 2, DepositCount 3 *)
Definition b_witness_ops : list (op (list bevent)) :=
  [OpBlock 13 [BBridge 0]; OpReorg 13; OpBlock 15 [BBridge 1]].
Definition b_witness_ops2 : list (op (list bevent)) :=
  [OpBlock 18 [BBridge 0; BBridge 1]; OpBlock 21 [BOther; BBridge 2]; OpReorg 21; OpBlock 24 [BBridge 3]].
Lemma b_gap_after_reorg_detected :
  map fst (b_trace b_witness_ops b_init) = [OOk; OOk; OInconsistent] /\
  halted (b_run b_witness_ops b_init) = true /\
  map fst (b_trace b_witness_ops2 b_init) = [OOk; OOk; OOk; OInconsistent] /\
  halted (b_run b_witness_ops2 b_init) = true.
Proof. vm_compute. repeat split; reflexivity. Qed.

(* reference form of "the block has a deposit-count gap": the deposit counts of its bridge events are not
   expected, expected+1, ... *)
Lemma b_scan_ok_iff_consecutive : forall evs c,
  b_scan_simple evs c <> None <-> b_counts evs = n_seq c (List.length (b_counts evs)).
Proof.
  induction evs as [|[dc|] t IH]; intro c; simpl.
  - split; [reflexivity|discriminate].
  - destruct (N.eqb_spec dc c) as [->|NE].
    + rewrite IH. split; intro H; [rewrite <- H; reflexivity|]. injection H as H. exact H.
    + split; [congruence|]. intro H. injection H as H _. congruence.
  - apply IH.
Qed.

(* ------------------------------------------------------------------------------------------------ *)
(* L1 info tree route: announced root / leaf count mismatch                                          *)
(* ------------------------------------------------------------------------------------------------ *)

Lemma l_scan_app : forall num pre rest stored added r,
  l_scan num pre stored added = AOk r ->
  l_scan num (pre ++ rest) stored added = l_scan num rest stored (lr_roots r).
Proof.
  induction pre as [|[ra|root cnt|] t IH]; simpl; intros rest stored added r H.
  - injection H as <-. reflexivity.
  - apply IH. exact H.
  - destruct (l_mismatch (added ++ stored) root cnt) as [[|]|]; try discriminate. apply IH. exact H.
  - apply IH. exact H.
Qed.

Lemma l_halt_reached : forall (st : lstate) num pre root cnt post r,
  halted st = false -> has_block lrow lr_num unit num st = false ->
  l_scan num pre (l_stored_roots (rows st)) [] = AOk r ->
  l_mismatch (lr_roots r ++ l_stored_roots (rows st)) root cnt = Some true ->
  l_process num (pre ++ LAnnounce root cnt :: post) st =
  (OInconsistent, {| halted := true; rows := rows st; memory := tt |}).
Proof.
  intros st num pre root cnt post r H D S M. unfold l_process. apply halt_reached_generic; try assumption.
  unfold l_apply. rewrite (l_scan_app num pre _ _ _ r S). simpl. rewrite M. reflexivity.
Qed.

(* the two ways an announcement mismatches *)
Lemma l_mismatch_root : forall h rest root cnt, h <> root -> l_mismatch (h :: rest) root cnt = Some true.
Proof.
  intros h rest root cnt NE. unfold l_mismatch.
  destruct (N.eqb_spec h root); [congruence|]. reflexivity.
Qed.

Lemma l_mismatch_count : forall h rest root cnt,
  N.of_nat (List.length (h :: rest)) mod uint32_mod <> cnt -> l_mismatch (h :: rest) root cnt = Some true.
Proof.
  intros h rest root cnt NE. unfold l_mismatch.
  replace (N.of_nat (List.length (h :: rest)) - 1 + 1) with (N.of_nat (List.length (h :: rest))) by (simpl List.length; lia).
  destruct (N.eqb_spec (N.of_nat (List.length (h :: rest)) mod uint32_mod) cnt); [congruence|].
  rewrite orb_true_r. reflexivity.
Qed.

Lemma l_mismatch_false_iff : forall h rest root cnt,
  l_mismatch (h :: rest) root cnt = Some false <->
  h = root /\ N.of_nat (List.length (h :: rest)) mod uint32_mod = cnt.
Proof.
  intros h rest root cnt. unfold l_mismatch.
  replace (N.of_nat (List.length (h :: rest)) - 1 + 1) with (N.of_nat (List.length (h :: rest))) by (simpl List.length; lia).
  destruct (N.eqb_spec h root); destruct (N.eqb_spec (N.of_nat (List.length (h :: rest)) mod uint32_mod) cnt);
    simpl; split; intro X; try discriminate; try tauto; try reflexivity; destruct X; congruence.
Qed.

Lemma l_scan_halt_iff : forall num evs stored added,
  l_scan num evs stored added = AHalt <->
  exists pre root cnt post r, evs = pre ++ LAnnounce root cnt :: post /\
    l_scan num pre stored added = AOk r /\ l_mismatch (lr_roots r ++ stored) root cnt = Some true.
Proof.
  intros num evs stored. induction evs as [|[ra|root cnt|] t IH]; intro added; simpl.
  - split; [discriminate|]. intros [pre [root [cnt [post [r [E _]]]]]]. destruct pre; discriminate.
  - rewrite IH. split.
    + intros [pre [root [cnt [post [r [E [S M]]]]]]]. exists (LLeaf ra :: pre), root, cnt, post, r.
      split; [rewrite E; reflexivity|]. auto.
    + intros [pre [root [cnt [post [r [E [S M]]]]]]]. destruct pre as [|x pre']; simpl in E; [discriminate|].
      injection E as <- E. simpl in S. exists pre', root, cnt, post, r. auto.
  - destruct (l_mismatch (added ++ stored) root cnt) as [[|]|] eqn:M.
    + split; [intros _|reflexivity]. exists [], root, cnt, t, {| lr_num := num; lr_roots := added |}. simpl. auto.
    + rewrite IH. split.
      * intros [pre [root' [cnt' [post [r [E [S M']]]]]]]. exists (LAnnounce root cnt :: pre), root', cnt', post, r.
        split; [rewrite E; reflexivity|]. simpl. rewrite M. auto.
      * intros [pre [root' [cnt' [post [r [E [S M']]]]]]]. destruct pre as [|x pre']; simpl in E.
        -- injection E as <- <- <-. simpl in S. injection S as <-. simpl in M'. congruence.
        -- injection E as <- E. simpl in S. rewrite M in S. exists pre', root', cnt', post, r. auto.
    + split; [discriminate|]. intros [pre [root' [cnt' [post [r [E [S M']]]]]]]. destruct pre as [|x pre']; simpl in E.
      * injection E as <- <- <-. simpl in S. injection S as <-. simpl in M'. congruence.
      * injection E as <- E. simpl in S. rewrite M in S. discriminate.
  - rewrite IH. split.
    + intros [pre [root [cnt [post [r [E [S M]]]]]]]. exists (LOther :: pre), root, cnt, post, r.
      split; [rewrite E; reflexivity|]. auto.
    + intros [pre [root [cnt [post [r [E [S M]]]]]]]. destruct pre as [|x pre']; simpl in E; [discriminate|].
      injection E as <- E. simpl in S. exists pre', root, cnt, post, r. auto.
Qed.

Lemma l_halt_only_by_mismatch : forall (st : lstate) num evs,
  halted st = false -> halted (snd (l_process num evs st)) = true ->
  exists pre root cnt post r, evs = pre ++ LAnnounce root cnt :: post /\
    l_scan num pre (l_stored_roots (rows st)) [] = AOk r /\
    l_mismatch (lr_roots r ++ l_stored_roots (rows st)) root cnt = Some true.
Proof.
  intros st num evs H H'. unfold l_process in H'.
  destruct (halt_only_by_apply lrow lr_num (list levent) unit l_apply st num evs H H') as [_ A].
  unfold l_apply in A. simpl in A. apply l_scan_halt_iff. exact A.
Qed.

(* ------------------------------------------------------------------------------------------------ *)
(* the reference predicates used by `spec` (Model/C14Cases.v) coincide with the model's scans          *)
(* ------------------------------------------------------------------------------------------------ *)

Lemma list_eqb_N_eq : forall a b : list N, list_eqb N.eqb a b = true <-> a = b.
Proof.
  induction a as [|x s IH]; destruct b as [|y t]; simpl; split; intro H; try reflexivity; try discriminate.
  - apply andb_true_iff in H. destruct H as [H1 H2]. apply N.eqb_eq in H1. apply IH in H2. congruence.
  - injection H as -> ->. rewrite N.eqb_refl. simpl. apply IH. reflexivity.
Qed.

Lemma ref_b_gap_iff_scan : forall evs c, ref_b_gap c evs = true <-> b_scan_simple evs c = None.
Proof.
  intros evs c. unfold ref_b_gap. rewrite negb_true_iff.
  pose proof (b_scan_ok_iff_consecutive evs c) as K.
  pose proof (list_eqb_N_eq (b_counts evs) (n_seq c (List.length (b_counts evs)))) as L.
  destruct (list_eqb N.eqb (b_counts evs) (n_seq c (List.length (b_counts evs)))).
  - split; [discriminate|]. intro S. exfalso. apply (proj2 K); [apply L; reflexivity|exact S].
  - split; [intros _|reflexivity]. destruct (b_scan_simple evs c) eqn:E; [|reflexivity].
    exfalso. assert (X : true = false); [|discriminate]. symmetry. apply L. apply K. congruence.
Qed.

Lemma ref_mismatch_eq : forall all root cnt, ref_mismatch all root cnt = l_mismatch all root cnt.
Proof.
  intros [|h rest] root cnt; [reflexivity|].
  unfold ref_mismatch, l_mismatch. cbn [hd_error].
  replace (N.of_nat (List.length (h :: rest)) - 1 + 1) with (N.of_nat (List.length (h :: rest))) by (simpl List.length; lia).
  rewrite negb_andb. reflexivity.
Qed.

Lemma verdict_shift : forall x t all i,
  verdict_at (x :: t) all (S i) =
  verdict_at t (match x with LLeaf r => r :: all | _ => all end) i.
Proof.
  intros x t all i. unfold verdict_at. cbn [nth_error firstn].
  destruct (nth_error t i) as [[ra|root cnt|]|]; try reflexivity.
  f_equal. f_equal. unfold l_roots_in. cbn [flat_map].
  destruct x as [r| |]; cbn [app].
  - change (r :: flat_map (fun e => match e with LLeaf r0 => [r0] | _ => [] end) (firstn i t))
      with ([r] ++ flat_map (fun e => match e with LLeaf r0 => [r0] | _ => [] end) (firstn i t)).
    rewrite rev_app_distr. rewrite <- app_assoc. reflexivity.
  - reflexivity.
  - reflexivity.
Qed.

Lemma verdicts_cons : forall x t all,
  map (verdict_at (x :: t) all) (seq 0 (List.length (x :: t))) =
  verdict_at (x :: t) all 0 ::
  map (verdict_at t (match x with LLeaf r => r :: all | _ => all end)) (seq 0 (List.length t)).
Proof.
  intros x t all. cbn [List.length seq map]. f_equal.
  rewrite <- seq_shift. rewrite map_map. apply map_ext. intro i. apply verdict_shift.
Qed.

Lemma ref_l_iff_scan : forall evs num stored added,
  ref_l_mismatch_block (added ++ stored) evs = true <-> l_scan num evs stored added = AHalt.
Proof.
  induction evs as [|x t IH]; intros num stored added.
  - unfold ref_l_mismatch_block. simpl. split; discriminate.
  - unfold ref_l_mismatch_block. rewrite verdicts_cons. cbn [find].
    destruct x as [r|root cnt|].
    + (* leaf *)
      assert (V : verdict_at (LLeaf r :: t) (added ++ stored) 0 = None) by reflexivity.
      rewrite V. cbn [not_passing l_scan].
      specialize (IH num stored (r :: added)). unfold ref_l_mismatch_block in IH. exact IH.
    + (* announcement *)
      assert (V : verdict_at (LAnnounce root cnt :: t) (added ++ stored) 0 =
                  Some (ref_mismatch (added ++ stored) root cnt)) by reflexivity.
      rewrite V. rewrite ref_mismatch_eq. cbn [l_scan].
      destruct (l_mismatch (added ++ stored) root cnt) as [[|]|]; cbn [not_passing].
      * split; reflexivity.
      * specialize (IH num stored added). unfold ref_l_mismatch_block in IH. exact IH.
      * split; discriminate.
    + assert (V : verdict_at (LOther :: t) (added ++ stored) 0 = None) by reflexivity.
      rewrite V. cbn [not_passing l_scan].
      specialize (IH num stored added). unfold ref_l_mismatch_block in IH. exact IH.
Qed.

(* ------------------------------------------------------------------------------------------------ *)
(* from the regenerated method list to the statement about every data query                           *)
(* ------------------------------------------------------------------------------------------------ *)
Lemma guarded_list_queries_fail : forall (l : list fmethod),
  forallb (fun m => implb (fm_touches m) (fm_guarded m)) l = true ->
  forall (row mem : Type) (m : fmethod) (st : state row mem) (body : outcome),
    In m l -> fm_touches m = true -> halted st = true -> run_method row mem m st body = OInconsistent.
Proof.
  intros l A row mem m st body I T H. rewrite forallb_forall in A. specialize (A m I). rewrite T in A. simpl in A.
  apply halted_queries_fail; assumption.
Qed.

(* ------------------------------------------------------------------------------------------------ *)
(* the model meets the property predicate `spec` (Model/C14Cases.v) on EVERY history                 *)
(* ------------------------------------------------------------------------------------------------ *)
(* `spec_steps` keeps its own reference bookkeeping (accepted blocks, "should be halted"); the proof is a simulation:
   the accepted blocks `acc` stay pointwise related (P) to the model's rows, the reference flag equals `halted`. *)
Section ModelMeetsSpec.
  Variable row : Type.
  Variable row_num : row -> N.
  Variable input : Type.
  Variable mem : Type.
  Variable row_has_leaves : row -> bool.
  Variable apply : mem -> list row -> N -> input -> apply_result row * mem.
  Variable on_reorg : mem -> mem.
  Variable incons : list (N * input) -> input -> bool.
  Variable detect : bool.
  Variable P : (N * input) -> row -> Prop.
  Hypothesis P_num : forall x r, P x r -> fst x = row_num r.
  Hypothesis apply_ok : forall mm acc rws n e r m',
    Forall2 P acc rws -> apply mm rws n e = (AOk r, m') -> P (n, e) r.
  Hypothesis apply_halt : detect = true -> forall mm acc rws n e,
    Forall2 P acc rws -> (fst (apply mm rws n e) = AHalt <-> incons acc e = true).

  Lemma F2_exists : forall acc rws n, Forall2 P acc rws ->
    existsb (fun x => fst x =? n) acc = existsb (fun r => row_num r =? n) rws.
  Proof.
    intros acc rws n F. induction F as [|x r acc' rws' Pxr F IH]; simpl; [reflexivity|].
    rewrite (P_num x r Pxr), IH. reflexivity.
  Qed.

  Lemma F2_filter : forall acc rws b, Forall2 P acc rws ->
    Forall2 P (filter (fun x => fst x <? b) acc) (filter (fun r => row_num r <? b) rws).
  Proof.
    intros acc rws b F. induction F as [|x r acc' rws' Pxr F IH]; simpl; [constructor|].
    rewrite (P_num x r Pxr). destruct (row_num r <? b); [constructor; assumption|assumption].
  Qed.

  Lemma F2_len : forall acc rws, Forall2 P acc rws -> List.length acc = List.length rws.
  Proof. intros acc rws F. induction F; simpl; congruence. Qed.

  Lemma filter_split_len : forall b (l : list row),
    Nat.add (List.length (filter (fun r => row_num r <? b) l)) (List.length (filter (fun r => b <=? row_num r) l)) = List.length l.
  Proof.
    induction l as [|r t IH]; simpl; [reflexivity|].
    destruct (N.ltb_spec (row_num r) b); destruct (N.leb_spec b (row_num r)); simpl; lia.
  Qed.

  Lemma F2_deleted : forall acc (st : state row mem) b, Forall2 P acc (rows st) ->
    (deleted_rows row row_num mem b st =? 0) =
    Nat.eqb (List.length (filter (fun x => fst x <? b) acc)) (List.length acc).
  Proof.
    intros acc st b F. unfold deleted_rows.
    pose proof (F2_len _ _ F) as L1.
    pose proof (F2_len _ _ (F2_filter acc (rows st) b F)) as L2.
    pose proof (filter_split_len b (rows st)) as S.
    destruct (Nat.eqb_spec (List.length (filter (fun x => fst x <? b) acc)) (List.length acc)) as [E|NE].
    - apply N.eqb_eq. lia.
    - apply N.eqb_neq. lia.
  Qed.

  Notation mobs := (model_obs row row_num input mem row_has_leaves apply on_reorg).
  Notation sspec := (spec_steps input incons detect).
  Notation lastb := (last_block row row_num mem).
  Notation cnt := (block_count row mem).

  Lemma model_meets_spec : forall touches m, (touches = true -> fm_guarded m = true) ->
    forall ops (st : state row mem) acc, Forall2 P acc (rows st) ->
      sspec touches ops acc (halted st) (lastb st) (cnt st) (mobs m ops st) = true.
  Proof.
    intros touches m TG. induction ops as [|o t IH]; intros st acc F; [reflexivity|].
    destruct o as [n e|b| |f b].
    - (* ProcessBlock *)
      cbn [model_obs spec_steps step so_out so_last so_rows].
      unfold process_block.
      destruct (halted st) eqn:H.
      + cbn [fst snd]. rewrite !N.eqb_refl. cbn [is_inconsistent outcome_eqb andb].
        specialize (IH st acc F). rewrite H in IH. exact IH.
      + unfold has_block. rewrite <- (F2_exists acc (rows st) n F).
        destruct (existsb (fun x => fst x =? n) acc) eqn:D; cbn [negb andb].
        * cbn [fst snd is_inconsistent outcome_eqb negb andb Bool.eqb].
          assert (X : (if detect then true else true) = true) by (destruct detect; reflexivity).
          rewrite X. cbn [andb].
          specialize (IH st acc F). rewrite H in IH. exact IH.
        * destruct (apply (memory st) (rows st) n e) as [[r| |] m'] eqn:A.
          -- assert (X : (if detect then Bool.eqb false (incons acc e) else true) = true).
             { destruct detect eqn:Dt; [|reflexivity].
               destruct (incons acc e) eqn:I; [|reflexivity].
               apply (apply_halt eq_refl (memory st) acc (rows st) n e F) in I. rewrite A in I. discriminate. }
             cbn [fst snd is_inconsistent outcome_eqb]. rewrite X. cbn [andb].
             apply (IH {| halted := false; rows := r :: rows st; memory := m' |} ((n, e) :: acc)).
             cbn [rows]. constructor; [apply (apply_ok (memory st) acc (rows st) n e r m' F A)|exact F].
          -- assert (X : (if detect then Bool.eqb true (incons acc e) else true) = true).
             { destruct detect eqn:Dt; [|reflexivity].
               assert (I : incons acc e = true).
               { apply (apply_halt eq_refl (memory st) acc (rows st) n e F). rewrite A. reflexivity. }
               rewrite I. reflexivity. }
             cbn [fst snd is_inconsistent outcome_eqb]. rewrite X. cbn [andb].
             change (lastb {| halted := true; rows := rows st; memory := m' |}) with (lastb st).
             change (cnt {| halted := true; rows := rows st; memory := m' |}) with (cnt st).
             rewrite !N.eqb_refl. cbn [andb].
             apply (IH {| halted := true; rows := rows st; memory := m' |} acc). exact F.
          -- assert (X : (if detect then Bool.eqb false (incons acc e) else true) = true).
             { destruct detect eqn:Dt; [|reflexivity].
               destruct (incons acc e) eqn:I; [|reflexivity].
               apply (apply_halt eq_refl (memory st) acc (rows st) n e F) in I. rewrite A in I. discriminate. }
             cbn [fst snd is_inconsistent outcome_eqb]. rewrite X. cbn [andb].
             apply (IH {| halted := false; rows := rows st; memory := m' |} acc). exact F.
    - (* Reorg *)
      cbn [model_obs spec_steps step so_out so_last so_rows snd].
      pose proof (IH (reorg row row_num mem on_reorg b st) (filter (fun x => fst x <? b) acc)) as IH'.
      rewrite reorg_rows in IH'. specialize (IH' (F2_filter acc (rows st) b F)).
      rewrite unhalt_iff_rows_deleted in IH'. rewrite (F2_deleted acc st b F) in IH'.
      rewrite negb_involutive. exact IH'.
    - (* query *)
      cbn [model_obs spec_steps step so_out so_last so_rows snd].
      rewrite (IH st acc F), andb_true_r.
      unfold run_method. destruct (halted st) eqn:H.
      + destruct touches; [|reflexivity]. rewrite (TG eq_refl). reflexivity.
      + rewrite andb_false_r. reflexivity.
    - (* Reorg under an armed fault *)
      cbn [model_obs spec_steps step so_out so_last so_rows].
      unfold reorg_faulted, reorg_faulted_with.
      destruct (fault_fires row row_num mem row_has_leaves f b st) eqn:Fi; cbn [fst snd outcome_eqb andb].
      + (* the transaction fails: error, nothing changes *)
        set (st' := {| halted := halted st; rows := rows st;
                       memory := match f with FCommit => on_reorg (memory st) | FTree => memory st end |}).
        change (lastb st') with (lastb st). change (cnt st') with (cnt st).
        rewrite !N.eqb_refl. cbn [andb].
        exact (IH st' acc F).
      + pose proof (IH (reorg row row_num mem on_reorg b st) (filter (fun x => fst x <? b) acc)) as IH'.
        rewrite reorg_rows in IH'. specialize (IH' (F2_filter acc (rows st) b F)).
        rewrite unhalt_iff_rows_deleted in IH'. rewrite (F2_deleted acc st b F) in IH'.
        rewrite negb_involutive. exact IH'.
  Qed.
End ModelMeetsSpec.

(* ---- bridge instance: the fail-stop part on every history, no side condition ---- *)
Definition Pb (x : N * list bevent) (r : brow) : Prop := fst x = br_num r.

Lemma b_apply_ok : forall mm acc rws n e r m',
  Forall2 Pb acc rws -> b_apply mm rws n e = (AOk r, m') -> Pb (n, e) r.
Proof.
  intros mm acc rws n e r m' _. unfold b_apply.
  destruct (b_scan e (b_db_next rws) mm 0 None) as [[last|] c]; intro H; [|discriminate].
  injection H as <- _. reflexivity.
Qed.

Lemma b_model_meets_failstop : forall touches m, (touches = true -> fm_guarded m = true) ->
  forall ops, spec_steps (list bevent) ref_b_inconsistent false touches ops [] false 0 0
                (model_obs brow br_num (list bevent) bmem b_has_leaves b_apply b_on_reorg m ops b_init) = true.
Proof.
  intros touches m TG ops.
  apply (model_meets_spec brow br_num (list bevent) bmem b_has_leaves b_apply b_on_reorg ref_b_inconsistent false Pb
           (fun x r H => H) b_apply_ok (fun D => False_ind _ (Bool.diff_false_true D)) touches m TG ops b_init []).
  constructor.
Qed.

(* ---- bridge instance, detection included: every history that feeds increasing block numbers (what EVMDriver does;
   the reference counts stored deposits, the database answers with the index of its last root, and the two agree as long
   as a reorg removes a suffix of the processed blocks) ---- *)
Fixpoint binv (acc : list (N * list bevent)) (rws : list brow) : Prop :=
  match acc, rws with
  | [], [] => True
  | (n, e) :: a, r :: rs => br_num r = n /\ Forall (fun r' => br_num r' < n) rs /\
                            b_db_next (r :: rs) = b_stored ((n, e) :: a) /\ binv a rs
  | _, _ => False
  end.

Notation b_step := (step brow br_num (list bevent) bmem b_has_leaves b_apply b_on_reorg).

Fixpoint b_increasing (ops : list (op (list bevent))) (st : bstate) : Prop :=
  match ops with
  | [] => True
  | o :: t => match o with OpBlock n _ => Forall (fun r => br_num r < n) (rows st) | _ => True end /\
              b_increasing t (snd (b_step o st))
  end.

Lemma binv_F2 : forall acc rws, binv acc rws -> Forall2 Pb acc rws.
Proof.
  induction acc as [|[n e] a IH]; destruct rws as [|r rs]; simpl; intro H; try contradiction; [constructor|].
  destruct H as [E [_ [_ I]]]. constructor; [unfold Pb; simpl; congruence|apply IH; exact I].
Qed.

Lemma binv_next : forall acc rws, binv acc rws -> b_db_next rws = b_stored acc.
Proof.
  destruct acc as [|[n e] a]; destruct rws as [|r rs]; simpl; intro H; try contradiction; [reflexivity|].
  destruct H as [_ [_ [E _]]]. exact E.
Qed.

Lemma binv_all_below : forall b a rs, binv a rs -> Forall (fun r => br_num r < b) rs ->
  filter (fun x : N * list bevent => fst x <? b) a = a /\ filter (fun r => br_num r <? b) rs = rs.
Proof.
  induction a as [|[n e] a IH]; destruct rs as [|r rs]; simpl; intros H F; try contradiction; [auto|].
  destruct H as [E [_ [_ I]]]. inversion F as [|r' rs' Hr Frs]; subst.
  assert (L : (br_num r <? b) = true) by (apply N.ltb_lt; exact Hr).
  rewrite L. destruct (IH rs I Frs) as [A B]. rewrite A, B. auto.
Qed.

Lemma Forall_lt_trans : forall (rs : list brow) n b, Forall (fun r => br_num r < n) rs -> n < b ->
  Forall (fun r => br_num r < b) rs.
Proof. intros rs n b F L. eapply Forall_impl; [|exact F]. simpl. intros. lia. Qed.

Lemma binv_filter : forall b acc rws, binv acc rws ->
  binv (filter (fun x : N * list bevent => fst x <? b) acc) (filter (fun r => br_num r <? b) rws).
Proof.
  induction acc as [|[n e] a IH]; destruct rws as [|r rs]; simpl; intro H; try contradiction; [exact I|].
  destruct H as [E [F [X I]]]. rewrite E.
  destruct (N.ltb_spec n b) as [L|L].
  - destruct (binv_all_below b a rs I (Forall_lt_trans rs n b F L)) as [A B]. rewrite A, B.
    simpl. auto.
  - apply IH. exact I.
Qed.

Lemma b_model_meets_spec_increasing : forall touches m, (touches = true -> fm_guarded m = true) ->
  forall ops (st : bstate) acc, binv acc (rows st) -> b_synced st -> b_increasing ops st ->
    spec_steps (list bevent) ref_b_inconsistent true touches ops acc (halted st)
      (last_block brow br_num bmem st) (block_count brow bmem st)
      (model_obs brow br_num (list bevent) bmem b_has_leaves b_apply b_on_reorg m ops st) = true.
Proof.
  intros touches m TG. induction ops as [|o t IH]; intros st acc Iv Sy Inc; [reflexivity|].
  destruct Inc as [Io Inc].
  pose proof (binv_F2 acc (rows st) Iv) as F.
  destruct o as [n e|b| |f b].
  - (* ProcessBlock *)
    cbn [model_obs spec_steps step so_out so_last so_rows].
    pose proof (b_process_preserves_synced st n e Sy) as Sy'.
    cbn [step] in Inc. unfold b_process in Sy'. revert Sy' Inc.
    unfold process_block.
    destruct (halted st) eqn:H.
    + intros Sy' Inc. cbn [fst snd] in *. rewrite !N.eqb_refl. cbn [is_inconsistent outcome_eqb andb].
      specialize (IH st acc Iv Sy Inc). rewrite H in IH. exact IH.
    + unfold has_block. rewrite <- (F2_exists brow br_num (list bevent) Pb (fun x r H => H) acc (rows st) n F).
      assert (D : existsb (fun x : N * list bevent => fst x =? n) acc = false).
      { rewrite (F2_exists brow br_num (list bevent) Pb (fun x r H => H) acc (rows st) n F).
        apply not_true_is_false. intro X. apply existsb_exists in X. destruct X as [r [In E]].
        rewrite Forall_forall in Io. specialize (Io r In). apply N.eqb_eq in E. lia. }
      rewrite D. cbn [negb andb].
      pose proof (b_apply_synced st n e Sy) as AS.
      pose proof (ref_b_gap_iff_scan e (b_stored acc)) as RG. rewrite <- (binv_next acc (rows st) Iv) in RG at 2.
      unfold ref_b_inconsistent.
      destruct (b_apply (memory st) (rows st) n e) as [[r| |] m'] eqn:A; intros Sy' Inc; cbn [fst snd] in *.
      * assert (G : ref_b_gap (b_stored acc) e = false).
        { apply not_true_is_false. intro G. apply RG in G. apply AS in G. discriminate. }
        rewrite G. cbn [is_inconsistent outcome_eqb Bool.eqb andb].
        apply (IH {| halted := false; rows := r :: rows st; memory := m' |} ((n, e) :: acc)); [|exact Sy'|exact Inc].
        (* the invariant for the new row *)
        cbn [rows binv]. unfold b_apply in A.
        pose proof (b_scan_synced e (b_db_next (rows st)) (memory st) 0 None Sy) as K.
        destruct (b_scan_simple e (b_db_next (rows st))) as [c'|] eqn:S.
        -- pose proof (b_scan_some_count e _ c' S) as C.
           destruct K as [[E R]|[L R]]; rewrite R in A; injection A as <- <-; cbn [br_num br_last b_db_next].
           ++ split; [reflexivity|]. split; [exact Io|]. split; [|exact Iv].
              unfold b_stored. cbn [fold_right snd]. fold (b_stored acc). rewrite <- (binv_next acc (rows st) Iv). lia.
           ++ split; [reflexivity|]. split; [exact Io|]. split; [|exact Iv].
              unfold b_stored. cbn [fold_right snd]. fold (b_stored acc). rewrite <- (binv_next acc (rows st) Iv). lia.
        -- destruct K as [c [R _]]. rewrite R in A. discriminate.
      * assert (G : ref_b_gap (b_stored acc) e = true) by (apply RG; apply AS; reflexivity).
        rewrite G. cbn [is_inconsistent outcome_eqb Bool.eqb andb].
        change (last_block brow br_num bmem {| halted := true; rows := rows st; memory := m' |})
          with (last_block brow br_num bmem st).
        change (block_count brow bmem {| halted := true; rows := rows st; memory := m' |}) with (block_count brow bmem st).
        rewrite !N.eqb_refl. cbn [andb].
        apply (IH {| halted := true; rows := rows st; memory := m' |} acc); [exact Iv|exact Sy'|exact Inc].
      * assert (G : ref_b_gap (b_stored acc) e = false).
        { apply not_true_is_false. intro G. apply RG in G. apply AS in G. discriminate. }
        rewrite G. cbn [is_inconsistent outcome_eqb Bool.eqb andb].
        apply (IH {| halted := false; rows := rows st; memory := m' |} acc); [exact Iv|exact Sy'|exact Inc].
  - (* Reorg *)
    cbn [model_obs spec_steps step so_out so_last so_rows snd]. cbn [step snd] in Inc.
    pose proof (IH (b_reorg b st) (filter (fun x => fst x <? b) acc)) as IH'.
    unfold b_reorg in IH'. rewrite reorg_rows in IH'.
    specialize (IH' (binv_filter b acc (rows st) Iv) (b_reorg_synced st b) Inc).
    rewrite unhalt_iff_rows_deleted in IH'.
    rewrite (F2_deleted brow br_num (list bevent) bmem Pb (fun x r H => H) acc st b F) in IH'.
    rewrite negb_involutive. exact IH'.
  - (* query *)
    cbn [model_obs spec_steps step so_out so_last so_rows snd]. cbn [step snd] in Inc.
    rewrite (IH st acc Iv Sy Inc), andb_true_r.
    unfold run_method. destruct (halted st) eqn:H.
    + destruct touches; [|reflexivity]. rewrite (TG eq_refl). reflexivity.
    + rewrite andb_false_r. reflexivity.
  - (* Reorg under an armed fault *)
    cbn [model_obs spec_steps step so_out so_last so_rows].
    pose proof (b_step_preserves_synced (OpReorgFault f b) st Sy) as Sy'.
    cbn [step] in Inc, Sy'. revert Inc Sy'.
    unfold reorg_faulted, reorg_faulted_with.
    destruct (fault_fires brow br_num bmem b_has_leaves f b st) eqn:Fi; cbn [fst snd outcome_eqb andb]; intros Inc Sy'.
    + set (st' := {| halted := halted st; rows := rows st;
                     memory := match f with FCommit => b_on_reorg (memory st) | FTree => memory st end |}) in *.
      change (last_block brow br_num bmem st') with (last_block brow br_num bmem st).
      change (block_count brow bmem st') with (block_count brow bmem st).
      rewrite !N.eqb_refl. cbn [andb].
      exact (IH st' acc Iv Sy' Inc).
    + pose proof (IH (b_reorg b st) (filter (fun x => fst x <? b) acc)) as IH'.
      unfold b_reorg in IH'. rewrite reorg_rows in IH'.
      specialize (IH' (binv_filter b acc (rows st) Iv) (b_reorg_synced st b) Inc).
      rewrite unhalt_iff_rows_deleted in IH'.
      rewrite (F2_deleted brow br_num (list bevent) bmem Pb (fun x r H => H) acc st b F) in IH'.
      rewrite negb_involutive. exact IH'.
Qed.

Lemma b_model_meets_spec : forall touches m, (touches = true -> fm_guarded m = true) ->
  forall ops, b_increasing ops b_init ->
    spec_steps (list bevent) ref_b_inconsistent true touches ops [] false 0 0
      (model_obs brow br_num (list bevent) bmem b_has_leaves b_apply b_on_reorg m ops b_init) = true.
Proof.
  intros touches m TG ops Inc.
  apply (b_model_meets_spec_increasing touches m TG ops b_init [] I b_synced_init Inc).
Qed.

(* ---- L1 info tree instance: fail-stop AND detection on every history ---- *)
Definition Pl (x : N * list levent) (r : lrow) : Prop :=
  fst x = lr_num r /\ rev (l_roots_in (snd x)) = lr_roots r.

Lemma Pl_stored : forall acc rws, Forall2 Pl acc rws -> l_stored acc = l_stored_roots rws.
Proof.
  intros acc rws F. induction F as [|x r acc' rws' [_ E] F IH]; [reflexivity|].
  unfold l_stored, l_stored_roots in *. cbn [flat_map map List.concat]. rewrite IH, E. reflexivity.
Qed.

Lemma l_roots_in_cons_leaf : forall x t, l_roots_in (LLeaf x :: t) = x :: l_roots_in t.
Proof. reflexivity. Qed.

Lemma l_scan_ok_shape : forall n e stored added r,
  l_scan n e stored added = AOk r -> lr_num r = n /\ lr_roots r = rev (l_roots_in e) ++ added.
Proof.
  induction e as [|[x|root cnt|] t IH]; intros stored added r H.
  - simpl in H. injection H as <-. split; reflexivity.
  - simpl in H. apply IH in H. destruct H as [H1 H2]. split; [exact H1|].
    rewrite H2, l_roots_in_cons_leaf. simpl. rewrite <- app_assoc. reflexivity.
  - simpl in H. destruct (l_mismatch (added ++ stored) root cnt) as [[|]|]; try discriminate.
    apply IH in H. exact H.
  - simpl in H. apply IH in H. exact H.
Qed.

Lemma l_apply_halt : forall (D : true = true) (mm : unit) acc rws n e, Forall2 Pl acc rws ->
  (fst (l_apply mm rws n e) = AHalt <-> ref_l_inconsistent acc e = true).
Proof.
  intros _ mm acc rws n e F. unfold ref_l_inconsistent, l_apply. cbn [fst]. rewrite (Pl_stored acc rws F).
  symmetry. apply (ref_l_iff_scan e n (l_stored_roots rws) []).
Qed.

Lemma l_apply_ok : forall (mm : unit) acc rws n e r m',
  Forall2 Pl acc rws -> l_apply mm rws n e = (AOk r, m') -> Pl (n, e) r.
Proof.
  intros mm acc rws n e r m' _ H. unfold l_apply in H. injection H as H _.
  apply l_scan_ok_shape in H. destruct H as [H1 H2].
  split; simpl; [congruence|]. rewrite H2, app_nil_r. reflexivity.
Qed.

Lemma l_model_meets_spec : forall touches m, (touches = true -> fm_guarded m = true) ->
  forall ops, spec_steps (list levent) ref_l_inconsistent true touches ops [] false 0 0
                (model_obs lrow lr_num (list levent) unit l_has_leaves l_apply l_on_reorg m ops l_init) = true.
Proof.
  intros touches m TG ops.
  apply (model_meets_spec lrow lr_num (list levent) unit l_has_leaves l_apply l_on_reorg ref_l_inconsistent true Pl
           (fun x r H => proj1 H) l_apply_ok l_apply_halt touches m TG ops l_init []).
  constructor.
Qed.

Lemma guarded_list_touches_guarded : forall (l : list fmethod),
  forallb (fun m => implb (fm_touches m) (fm_guarded m)) l = true ->
  forall m, In m l -> fm_touches m = true -> fm_guarded m = true.
Proof.
  intros l A m I T. rewrite forallb_forall in A. specialize (A m I). rewrite T in A. exact A.
Qed.
