(* C13 proofs over Model/Reconcile.v *)
From Coq Require Import NArith PeanoNat List Bool Lia.
From Verif Require Import Base.Bytes Model.Reconcile.
Import ListNotations.
Open Scope N_scope.

Ltac nb :=
  repeat match goal with
         | |- context [N.eqb ?a ?b] => destruct (N.eqb_spec a b)
         | |- context [N.ltb ?a ?b] => destruct (N.ltb_spec a b)
         | |- context [N.leb ?a ?b] => destruct (N.leb_spec a b)
         end.

(* ------------------------------------------------------------------------------------------ *)
(* status helpers                                                                               *)
(* ------------------------------------------------------------------------------------------ *)
Lemma status_eqb_eq a b : status_eqb a b = true <-> a = b.
Proof. destruct a, b; cbn; split; congruence. Qed.
Lemma status_eqb_refl a : status_eqb a a = true.
Proof. destruct a; reflexivity. Qed.

(* ------------------------------------------------------------------------------------------ *)
(* the save transaction: a failed save leaves the store as it was, whatever failed               *)
(* ------------------------------------------------------------------------------------------ *)
Lemma run_tx_failed fault stmts : forall i st0 cur st',
  run_tx fault i stmts st0 cur = (st', false) -> st' = st0.
Proof.
  induction stmts as [|s tl IH]; cbn; intros i st0 cur st' H.
  - discriminate.
  - destruct (match fault with Some k => Nat.eqb k i | None => false end).
    + inversion H; reflexivity.
    + destruct (exec_stmt cur s); [eauto | inversion H; reflexivity].
Qed.

Lemma failed_save_keeps_old_l fault keep r st :
  snd (save_last_sent fault keep r st) = false -> fst (save_last_sent fault keep r st) = st.
Proof.
  unfold save_last_sent. destruct (run_tx fault 0 (save_stmts keep r st) st st) as [st' ok] eqn:E; cbn.
  intros ->. eapply run_tx_failed; eauto.
Qed.

Lemma run_tx_fault_fires k stmts : forall i st0 cur,
  (i <= k)%nat -> (k < i + length stmts)%nat -> run_tx (Some k) i stmts st0 cur = (st0, false).
Proof.
  induction stmts as [|s tl IH]; cbn [length run_tx]; intros i st0 cur H1 H2.
  - lia.
  - destruct (Nat.eqb_spec k i); [reflexivity|].
    destruct (exec_stmt cur s); [|reflexivity]. apply IH; lia.
Qed.

(* every fault position inside the transaction makes the save fail and keeps the old store *)
Lemma every_fault_keeps_old_l k keep r st :
  (k < length (save_stmts keep r st))%nat -> save_last_sent (Some k) keep r st = (st, false).
Proof. intros H. unfold save_last_sent. apply run_tx_fault_fires; lia. Qed.

(* a fault position beyond the last statement never fires *)
Lemma run_tx_fault_beyond k stmts : forall i st0 cur,
  (i + length stmts <= k)%nat -> run_tx (Some k) i stmts st0 cur = run_tx None i stmts st0 cur.
Proof.
  induction stmts as [|s tl IH]; cbn [length run_tx]; intros i st0 cur H; [reflexivity|].
  destruct (Nat.eqb_spec k i); [lia|]. destruct (exec_stmt cur s); [|reflexivity]. apply IH; lia.
Qed.

Lemma save_stmts_length keep r st : (3 <= length (save_stmts keep r st) <= 5)%nat.
Proof.
  unfold save_stmts. cbn [length]. rewrite app_length. cbn [length].
  destruct (find_height (s_info st) (r_height r)); [destruct keep|]; cbn; lia.
Qed.

(* ------------------------------------------------------------------------------------------ *)
(* one row per height                                                                            *)
(* ------------------------------------------------------------------------------------------ *)
Definition uniq (st : store) : Prop := NoDup (map r_height (s_info st)).

Lemma NoDup_map_filter {A B} (f : A -> B) p l : NoDup (map f l) -> NoDup (map f (filter p l)).
Proof.
  induction l as [|x l IH]; cbn; intros H; [constructor|].
  inversion H; subst. destruct (p x); cbn; auto. constructor; auto.
  intros Hin. apply H2. apply in_map_iff in Hin as [y [<- Hy]]. apply filter_In in Hy as [Hy _].
  apply in_map; assumption.
Qed.

Lemma find_height_none l h : find_height l h = None -> ~ In h (map r_height l).
Proof.
  unfold find_height. intros H Hin. apply in_map_iff in Hin as [x [<- Hx]].
  pose proof (find_none _ _ H x Hx) as E. cbn in E. rewrite N.eqb_refl in E. discriminate.
Qed.

Lemma exec_stmt_uniq st s st' : uniq st -> exec_stmt st s = Some st' -> uniq st'.
Proof.
  unfold uniq. destruct s; cbn; intros U E.
  - inversion E; subst; assumption.
  - destruct (hist_insert_rows _ _); inversion E; subst; cbn; assumption.
  - inversion E; subst; cbn. apply NoDup_map_filter; assumption.
  - destruct (negb (sql_u64_ok r)); [discriminate|].
    destruct (find_height (s_info st) (r_height r)) eqn:F; inversion E; subst; cbn.
    constructor; [apply find_height_none; assumption | assumption].
  - inversion E; subst; assumption.
Qed.

Lemma run_tx_uniq fault stmts : forall i st0 cur, uniq st0 -> uniq cur -> uniq (fst (run_tx fault i stmts st0 cur)).
Proof.
  induction stmts as [|s tl IH]; cbn; intros i st0 cur U0 U; [assumption|].
  destruct (match fault with Some k => Nat.eqb k i | None => false end); [assumption|].
  destruct (exec_stmt cur s) eqn:E; [|assumption]. apply IH; [assumption|]. eapply exec_stmt_uniq; eauto.
Qed.

Lemma save_uniq fault keep r st : uniq st -> uniq (fst (save_last_sent fault keep r st)).
Proof. intros U. apply run_tx_uniq; assumption. Qed.

Lemma map_height_update l id s :
  map r_height (map (fun x => if r_id x =? id then set_status x s else x) l) = map r_height l.
Proof. induction l as [|x l IH]; cbn; [reflexivity|]. rewrite IH. destruct (r_id x =? id); reflexivity. Qed.

Lemma update_status_uniq st id s : uniq st -> uniq (update_status st id s).
Proof. unfold uniq, update_status; cbn. rewrite map_height_update. auto. Qed.

Lemma cp_loop_uniq a l : forall st, uniq st -> uniq (cp_loop a l st).
Proof.
  induction l as [|r tl IH]; cbn; intros st U; [assumption|].
  destruct (lookup a (r_id r)); [|assumption]. apply IH.
  destruct (status_eqb _ _); [assumption | apply update_status_uniq; assumption].
Qed.

Lemma check_pending_uniq a st : uniq st -> uniq (check_pending a st).
Proof. apply cp_loop_uniq. Qed.

Lemma apply_action_uniq keep act l st st' : uniq st -> apply_action keep act l st = Ok st' -> uniq st'.
Proof.
  destruct act; intros U E; cbn [apply_action] in E.
  - inversion E; subst; assumption.
  - destruct l; inversion E; subst; [|assumption].
    destruct (status_eqb _ _); [assumption | apply update_status_uniq; assumption].
  - destruct (row_of_header h) as [r|]; [|discriminate].
    pose proof (save_uniq None keep r st U) as U'.
    destruct (save_last_sent None keep r st) as [s ok]. destruct ok; inversion E; subst. exact U'.
Qed.

Lemma recover_uniq keep a st : uniq st -> uniq (fst (recover keep a st)).
Proof.
  intros U. unfold recover. pose proof (check_pending_uniq a st U) as U1.
  destruct (reconcile _ _ _); [|exact U1].
  destruct (apply_action _ _ _ _) eqn:E; [|exact U1]. cbn. eapply apply_action_uniq; eauto.
Qed.

(* with one row per height the PRIMARY KEY check of the final insert never fires: the row found at that
   height is the only one, and the DELETE (by its certificate id) removes it *)
Lemma find_height_filter_id l h old :
  NoDup (map r_height l) -> find_height l h = Some old ->
  find_height (filter (fun x => negb (r_id x =? r_id old)) l) h = None.
Proof.
  unfold find_height. intros U F.
  destruct (find (fun x => r_height x =? h) (filter _ l)) eqn:G; [|reflexivity]. exfalso.
  apply find_some in G as [Hin Hh]. apply filter_In in Hin as [Hin Hid].
  apply find_some in F as [Hin' Hh']. cbn beta in Hh, Hh'. apply N.eqb_eq in Hh. apply N.eqb_eq in Hh'.
  assert (r = old).
  { clear - U Hin Hin' Hh Hh'. rewrite <- Hh' in Hh. clear Hh'. induction l as [|x l IH]; [contradiction|].
    cbn in U. inversion U as [|? ? Hn Hd].
    destruct Hin as [E1|Hin], Hin' as [E2|Hin'].
    - congruence.
    - exfalso. apply Hn. subst x. rewrite Hh. apply in_map; assumption.
    - exfalso. apply Hn. subst x. rewrite <- Hh. apply in_map; assumption.
    - auto. }
  subst. rewrite N.eqb_refl in Hid. discriminate.
Qed.

Local Arguments sql_u64_ok : simpl never.
Local Arguments N.pow : simpl never.

(* ------------------------------------------------------------------------------------------ *)
(* the certificate_info table through a committed transaction (the history table only decides   *)
(* whether the transaction commits)                                                              *)
(* ------------------------------------------------------------------------------------------ *)
Definition exec_info (info : list row) (s : stmt) : option (list row) :=
  match s with
  | SSelect _ | SHistInsert _ | SCommit => Some info
  | SDelete id => Some (filter (fun x => negb (r_id x =? id)) info)
  | SInsert r =>
      if negb (sql_u64_ok r) then None
      else match find_height info (r_height r) with Some _ => None | None => Some (norm_row r :: info) end
  end.
Fixpoint run_info (stmts : list stmt) (info : list row) : option (list row) :=
  match stmts with
  | [] => Some info
  | s :: tl => match exec_info info s with None => None | Some i' => run_info tl i' end
  end.

Lemma exec_stmt_info st s st' : exec_stmt st s = Some st' -> exec_info (s_info st) s = Some (s_info st').
Proof.
  destruct s; cbn; intros E.
  - inversion E; reflexivity.
  - destruct (hist_insert_rows _ _); inversion E; reflexivity.
  - inversion E; reflexivity.
  - destruct (negb (sql_u64_ok r)); [discriminate|].
    destruct (find_height (s_info st) (r_height r)); inversion E; reflexivity.
  - inversion E; reflexivity.
Qed.

Lemma run_tx_info stmts : forall i st0 cur st',
  run_tx None i stmts st0 cur = (st', true) -> run_info stmts (s_info cur) = Some (s_info st').
Proof.
  induction stmts as [|s tl IH]; cbn; intros i st0 cur st' H.
  - inversion H; reflexivity.
  - destruct (exec_stmt cur s) eqn:E; [|discriminate].
    rewrite (exec_stmt_info _ _ _ E). eapply IH; eauto.
Qed.

Lemma save_info keep r st :
  snd (save_last_sent None keep r st) = true ->
  run_info (save_stmts keep r st) (s_info st) = Some (s_info (fst (save_last_sent None keep r st))).
Proof.
  unfold save_last_sent. destruct (run_tx None 0 (save_stmts keep r st) st st) as [st' ok] eqn:E; cbn.
  intros ->. exact (run_tx_info _ _ _ _ _ E).
Qed.

(* saving at a height that holds no row: select, insert, commit *)
Lemma save_fresh keep r st :
  find_height (s_info st) (r_height r) = None -> sql_u64_ok r = true ->
  save_last_sent None keep r st = ({| s_info := norm_row r :: s_info st; s_hist := s_hist st |}, true).
Proof.
  intros F Q. unfold save_last_sent, save_stmts. rewrite F. cbn. rewrite Q, F. reflexivity.
Qed.

(* ------------------------------------------------------------------------------------------ *)
(* stores of the shape  top :: settled rows below                                                *)
(* ------------------------------------------------------------------------------------------ *)
Lemma last_sent_fold c rest :
  Forall (fun x => r_height x < r_height c) rest ->
  fold_left (fun acc x => match acc with
                          | None => Some x
                          | Some a => if r_height a <? r_height x then Some x else Some a
                          end) rest (Some c) = Some c.
Proof.
  induction rest as [|x rest IH]; cbn; intros H; [reflexivity|].
  inversion H; subst. destruct (N.ltb_spec (r_height c) (r_height x)); [lia|]. apply IH; assumption.
Qed.

Lemma below_lower c rest : Forall (below c) rest -> Forall (fun x => r_height x < r_height c) rest.
Proof. intros H. eapply Forall_impl; [|exact H]. intros x [_ [Hx _]]; exact Hx. Qed.

Lemma last_sent_top c rest hs : Forall (below c) rest -> last_sent {| s_info := c :: rest; s_hist := hs |} = Some c.
Proof. intros H. unfold last_sent, last_sent_l. cbn. apply last_sent_fold, below_lower, H. Qed.

Lemma filter_open_below c rest : Forall (below c) rest -> filter (fun x => is_open (r_status x)) rest = [].
Proof.
  induction rest as [|x rest IH]; cbn; intros H; [reflexivity|].
  inversion H as [|? ? [Hs _] Hr]; subst. rewrite Hs. cbn. apply IH; assumption.
Qed.

Lemma update_below c rest s : Forall (below c) rest ->
  map (fun x => if r_id x =? r_id c then set_status x s else x) rest = rest.
Proof.
  induction rest as [|x rest IH]; cbn; intros H; [reflexivity|].
  inversion H as [|? ? [_ [_ Hid]] Hr]; subst. destruct (N.eqb_spec (r_id x) (r_id c)); [contradiction|].
  rewrite IH; auto.
Qed.

Lemma check_pending_shape a c rest hs : Forall (below c) rest ->
  check_pending a {| s_info := c :: rest; s_hist := hs |} = {| s_info := sync_row a c :: rest; s_hist := hs |}.
Proof.
  intros H. unfold check_pending, sync_row. cbn [s_info filter].
  rewrite (filter_open_below c rest H).
  destruct (is_open (r_status c)); cbn; [|reflexivity].
  destruct (lookup a (r_id c)); [|reflexivity].
  destruct (status_eqb (r_status c) (h_status h)); [reflexivity|].
  unfold update_status. cbn. rewrite N.eqb_refl, (update_below c rest _ H). reflexivity.
Qed.

Lemma check_pending_empty a hs : check_pending a {| s_info := []; s_hist := hs |} = {| s_info := []; s_hist := hs |}.
Proof. reflexivity. Qed.

Lemma find_height_lower l h : Forall (fun x => r_height x < h) l -> find_height l h = None.
Proof.
  unfold find_height. induction l as [|x l IH]; cbn; intros H; [reflexivity|].
  inversion H; subst. destruct (N.eqb_spec (r_height x) h); [lia|]. apply IH; assumption.
Qed.

(* next_params reads only the top row when that row carries its previous LER *)
Lemma next_params_top cfg c rest hs x :
  Forall (below c) rest -> r_prev_ler c = Some x ->
  next_params cfg {| s_info := c :: rest; s_hist := hs |} = next_of_row cfg c.
Proof.
  intros H P. unfold next_params. rewrite (last_sent_top c rest hs H).
  unfold next_height_ler, next_of_row, last_sent_block, is_closed, retry_from_mismatch. rewrite P.
  destruct (r_status c) eqn:S; cbn [is_in_error is_open is_settled negb andb]; reflexivity.
Qed.

Lemma next_of_row_agree cfg a b : row_agree a b -> next_of_row cfg a = next_of_row cfg b.
Proof.
  intros (H1 & H2 & H3 & H4 & H5 & H6). unfold next_of_row. rewrite H1, H2, H3, H4, H5, H6. reflexivity.
Qed.

Lemma below_agree c c' rest : r_height c = r_height c' -> r_id c = r_id c' -> Forall (below c) rest -> Forall (below c') rest.
Proof. intros Hh Hi H. eapply Forall_impl; [|exact H]. intros x (A & B & C). unfold below. rewrite <- Hh, <- Hi. auto. Qed.

(* ------------------------------------------------------------------------------------------ *)
(* process() on a consistent Agglayer view                                                       *)
(* ------------------------------------------------------------------------------------------ *)
Lemma consistency_ok a : agg_ok a -> check_agg_consistency (a_settled a) (a_pending a) = true.
Proof.
  intros [Hs Hp]. unfold check_agg_consistency. destruct (a_pending a) as [p|]; [|reflexivity].
  destruct (Hp p eq_refl) as [_ Hh]. destruct (a_settled a) as [s|].
  - rewrite (Hs s eq_refl), Hh.
    destruct (N.eqb_spec (h_height s + 1) (h_height s)); [lia|].
    destruct (N.ltb_spec (h_height s + 1) (h_height s)); [lia|]. reflexivity.
  - rewrite Hh. cbn. rewrite andb_false_r. reflexivity.
Qed.

Lemma reconcile_local_none a : agg_ok a ->
  reconcile (a_settled a) (a_pending a) None = match latest a with None => Ok ANone | Some l => Ok (AInsert l) end.
Proof.
  intros H. unfold reconcile. rewrite (consistency_ok a H). cbn [negb]. unfold latest, latest_of.
  destruct H as [Hs Hp]. destruct (a_settled a) as [s|], (a_pending a) as [p|]; cbn; try reflexivity.
  destruct (Hp p eq_refl) as [_ Hh]. cbn in Hh. rewrite Hh. reflexivity.
Qed.

Lemma reconcile_local_some a t l : agg_ok a -> latest a = Some l ->
  reconcile (a_settled a) (a_pending a) (Some t) =
    if h_height l <? r_height t then Err EAggLower
    else if h_height l =? r_height t + 1 then Ok (AInsert l)
    else if negb (r_id t =? h_id l) then Err EDifferentId
    else Ok (AUpdate l).
Proof.
  intros H L. unfold reconcile. rewrite (consistency_ok a H). cbn [negb]. unfold latest in L. rewrite L. reflexivity.
Qed.

Lemma reconcile_local_only a t : latest a = None -> reconcile (a_settled a) (a_pending a) (Some t) = Err ELocalOnly.
Proof.
  unfold latest, latest_of. destruct (a_pending a); [discriminate|]. intros ->. reflexivity.
Qed.

(* ------------------------------------------------------------------------------------------ *)
(* rows rebuilt from a header, rows synchronised with the Agglayer                               *)
(* ------------------------------------------------------------------------------------------ *)
Lemma row_of_header_fields l r' : row_of_header l = Ok r' ->
  r_height r' = h_height l /\ r_id r' = h_id l /\ r_status r' = h_status l /\
  r_prev_ler r' = h_prev_ler l /\ r_new_ler r' = h_new_ler l /\ r_from_agg r' = true.
Proof.
  unfold row_of_header. destruct (meta_decode (h_meta l)) as [m|]; [|discriminate].
  destruct (m_version m =? 0); [intros E; inversion E; cbn; auto 10|].
  destruct (m_version m =? 1); [intros E; inversion E; cbn; auto 10|].
  destruct (m_version m =? 2); [intros E; inversion E; cbn; auto 10|discriminate].
Qed.

Lemma sync_row_fields a c :
  r_height (sync_row a c) = r_height c /\ r_id (sync_row a c) = r_id c /\ r_prev_ler (sync_row a c) = r_prev_ler c /\
  r_new_ler (sync_row a c) = r_new_ler c /\ r_from (sync_row a c) = r_from c /\ r_to (sync_row a c) = r_to c.
Proof.
  unfold sync_row. destruct (is_open (r_status c)); [|auto 10].
  destruct (lookup a (r_id c)); [|auto 10]. destruct (status_eqb _ _); cbn; auto 10.
Qed.

Lemma sync_row_status a c l : matches a c l -> r_status (sync_row a c) = h_status l.
Proof.
  intros (_ & _ & _ & _ & _ & Hcl & Hlk & _). unfold sync_row.
  destruct (is_open (r_status c)) eqn:O.
  - rewrite Hlk. destruct (status_eqb (r_status c) (h_status l)) eqn:E; [apply status_eqb_eq in E; exact E | reflexivity].
  - apply Hcl. unfold is_closed. rewrite O. reflexivity.
Qed.

Lemma below_sync a c rest : Forall (below c) rest -> Forall (below (sync_row a c)) rest.
Proof.
  destruct (sync_row_fields a c) as (Hh & Hi & _). apply below_agree; symmetry; assumption.
Qed.

Lemma agree_from_matches a c l r' : matches a c l -> row_of_header l = Ok r' -> row_agree (norm_row r') (sync_row a c).
Proof.
  intros M R. pose proof (sync_row_status a c l M) as Hst.
  destruct (sync_row_fields a c) as (Sh & Si & Sp & Sn & Sf & St).
  destruct M as (Mh & Mi & Mn & (x & Px & Plx) & (r0 & R0 & F0 & T0) & _).
  rewrite R in R0. inversion R0; subst r0.
  destruct (row_of_header_fields l r' R) as (Fh & Fi & Fs & Fp & Fn & _).
  unfold row_agree. cbn. rewrite Sh, Hst, Sp, Sn, Sf, St, Fh, Fs, Fp, Fn, Plx, Px. auto 10.
Qed.

Lemma sql_ok_from_matches a c l r' : matches a c l -> row_of_header l = Ok r' -> sql_u64_ok r' = true.
Proof.
  intros M R. destruct M as (Mh & _ & _ & _ & (r0 & R0 & F0 & T0) & _ & _ & Q).
  rewrite R in R0. inversion R0; subst r0.
  destruct (row_of_header_fields l r' R) as (Fh & _). unfold sql_u64_ok in *. rewrite Fh, Mh, F0, T0. exact Q.
Qed.

Lemma matches_norm a r l : matches a r l -> matches a (norm_row r) l.
Proof. unfold matches. cbn. auto. Qed.

(* ------------------------------------------------------------------------------------------ *)
(* the recovery on the store shapes that occur                                                   *)
(* ------------------------------------------------------------------------------------------ *)
Lemma recover_consistent keep a c rest hs l :
  agg_ok a -> Forall (below c) rest -> latest a = Some l -> matches a c l ->
  recover keep a {| s_info := c :: rest; s_hist := hs |} = (check_pending a {| s_info := c :: rest; s_hist := hs |}, OUpdate).
Proof.
  intros A B L M. unfold recover. rewrite (check_pending_shape a c rest hs B).
  rewrite (last_sent_top _ rest hs (below_sync a c rest B)).
  rewrite (reconcile_local_some a _ l A L).
  destruct (sync_row_fields a c) as (Sh & Si & _). pose proof (sync_row_status a c l M) as Hst.
  destruct M as (Mh & Mi & _). rewrite Sh, Si, Mh, Mi.
  destruct (N.ltb_spec (r_height c) (r_height c)); [lia|].
  destruct (N.eqb_spec (r_height c) (r_height c + 1)); [lia|].
  rewrite N.eqb_refl. cbn [negb apply_action]. rewrite Hst, status_eqb_refl. reflexivity.
Qed.

Lemma recover_nothing keep a hs :
  agg_ok a -> latest a = None ->
  recover keep a {| s_info := []; s_hist := hs |} = ({| s_info := []; s_hist := hs |}, ONone).
Proof.
  intros A L. unfold recover. rewrite check_pending_empty. cbn [last_sent last_sent_l s_info fold_left].
  rewrite (reconcile_local_none a A), L. reflexivity.
Qed.

Lemma recover_insert_empty keep a hs l r' :
  agg_ok a -> latest a = Some l -> row_of_header l = Ok r' -> sql_u64_ok r' = true ->
  recover keep a {| s_info := []; s_hist := hs |} = ({| s_info := [norm_row r']; s_hist := hs |}, OInsert).
Proof.
  intros A L R Q. unfold recover. rewrite check_pending_empty. cbn [last_sent last_sent_l s_info fold_left].
  rewrite (reconcile_local_none a A), L. cbn [apply_action]. rewrite R.
  rewrite (save_fresh keep r' {| s_info := []; s_hist := hs |} eq_refl Q). reflexivity.
Qed.

(* the Agglayer is exactly one certificate ahead of a closed local top row *)
Lemma recover_insert_next keep a t rest hs l r' :
  agg_ok a -> Forall (below t) rest -> is_open (r_status t) = false ->
  latest a = Some l -> h_height l = r_height t + 1 -> row_of_header l = Ok r' -> sql_u64_ok r' = true ->
  recover keep a {| s_info := t :: rest; s_hist := hs |} =
    ({| s_info := norm_row r' :: t :: rest; s_hist := hs |}, OInsert).
Proof.
  intros A B O L H R Q. unfold recover. rewrite (check_pending_shape a t rest hs B).
  assert (S : sync_row a t = t) by (unfold sync_row; rewrite O; reflexivity). rewrite S.
  rewrite (last_sent_top t rest hs B), (reconcile_local_some a t l A L), H.
  destruct (N.ltb_spec (r_height t + 1) (r_height t)); [lia|]. rewrite N.eqb_refl.
  cbn [apply_action]. rewrite R.
  destruct (row_of_header_fields l r' R) as (Fh & _).
  rewrite (save_fresh keep r'); [reflexivity | | exact Q].
  cbn [s_info]. rewrite Fh, H. unfold find_height. cbn [find].
  destruct (N.eqb_spec (r_height t) (r_height t + 1)); [lia|].
  apply (find_height_lower rest). eapply Forall_impl; [|exact (below_lower t rest B)]. cbn. intros; lia.
Qed.

(* same height, different certificate: CASE 4 *)
Lemma recover_different_id keep a t rest hs l :
  agg_ok a -> Forall (below t) rest -> is_open (r_status t) = false ->
  latest a = Some l -> h_height l = r_height t -> h_id l <> r_id t ->
  recover keep a {| s_info := t :: rest; s_hist := hs |} = ({| s_info := t :: rest; s_hist := hs |}, ORefused EDifferentId).
Proof.
  intros A B O L H I. unfold recover. rewrite (check_pending_shape a t rest hs B).
  assert (S : sync_row a t = t) by (unfold sync_row; rewrite O; reflexivity). rewrite S.
  rewrite (last_sent_top t rest hs B), (reconcile_local_some a t l A L), H.
  destruct (N.ltb_spec (r_height t) (r_height t)); [lia|].
  destruct (N.eqb_spec (r_height t) (r_height t + 1)); [lia|].
  destruct (N.eqb_spec (r_id t) (h_id l)); [congruence|]. reflexivity.
Qed.

(* ------------------------------------------------------------------------------------------ *)
(* the store of the node that did not crash                                                      *)
(* ------------------------------------------------------------------------------------------ *)
(* what the flow makes of a closed top row: next height after a settled one, same height after one in error *)
Lemma sent_height cfg t rest hs h x f :
  Forall (below t) rest ->
  next_params cfg {| s_info := t :: rest; s_hist := hs |} = Ok (h, x, f) ->
  (r_status t = Settled /\ h = r_height t + 1) \/ (r_status t = InError /\ h = r_height t).
Proof.
  intros B. unfold next_params. rewrite (last_sent_top t rest hs B). unfold next_height_ler, is_closed, retry_from_mismatch.
  destruct (r_status t) eqn:S; cbn [is_open negb is_settled is_in_error andb]; try discriminate.
  - intros H. right. split; [reflexivity|].
    match type of H with (if ?b then _ else _) = _ => destruct b end; [discriminate|].
    destruct (r_prev_ler t); [inversion H; reflexivity|].
    destruct (r_height t =? 0) eqn:Z; [apply N.eqb_eq in Z; inversion H; congruence|].
    match type of H with context [find_height ?a ?b] => destruct (find_height a b) as [q|] end; [|discriminate].
    destruct (negb (is_settled (r_status q))); [discriminate|]. inversion H; reflexivity.
  - intros H. left. split; [reflexivity|]. inversion H; reflexivity.
Qed.

Lemma filter_id_below t rest : Forall (below t) rest -> filter (fun x => negb (r_id x =? r_id t)) rest = rest.
Proof.
  induction rest as [|x rest IH]; cbn; intros H; [reflexivity|].
  inversion H as [|? ? (_ & _ & Hid) Hr]; subst. destruct (N.eqb_spec (r_id x) (r_id t)); [contradiction|].
  cbn. rewrite IH; auto.
Qed.

Lemma nocrash_shape st r :
  Inv st -> ps_sent st = Some r ->
  exists rest', s_info (nocrash_store st) = norm_row r :: rest' /\ Forall (below (norm_row r)) rest'.
Proof.
  intros (A & Hshape & Hs) E. rewrite E in Hs.
  destruct Hs as ((x & Hnext & Hprev) & Hpend & Hbelow & Hids & Hok & _).
  unfold nocrash_store. rewrite E.
  pose proof (save_info _ r (prev_store st) Hok) as RI.
  set (st' := fst (save_last_sent None (c_keep_history (ps_cfg st)) r (prev_store st))) in *.
  clearbody st'. revert RI Hnext. unfold prev_store, save_stmts. cbn [s_info].
  destruct (ps_top st) as [t|] eqn:T; cbn [opt_cons].
  - (* a top row existed *)
    intros RI Hnext.
    destruct (sent_height _ _ _ _ _ _ _ Hshape Hnext) as [[S Hh]|[S Hh]].
    + (* settled: the new row goes on top *)
      assert (F : find_height (t :: ps_hist st) (r_height r) = None).
      { unfold find_height. cbn [find]. rewrite Hh.
        destruct (N.eqb_spec (r_height t) (r_height t + 1)); [lia|].
        apply (find_height_lower (ps_hist st)). eapply Forall_impl; [|exact (below_lower t _ Hshape)]. cbn; intros; lia. }
      rewrite F in RI. cbn -[find_height] in RI. rewrite F in RI.
      destruct (sql_u64_ok r); cbn in RI; [|discriminate]. inversion RI as [RI'].
      exists (t :: ps_hist st). split; [reflexivity|]. constructor.
      * unfold below. cbn. rewrite S, Hh. repeat split; [lia | exact (Hids t eq_refl)].
      * exact Hbelow.
    + (* in error: the old row is moved/deleted, the new one takes its height *)
      assert (F : find_height (t :: ps_hist st) (r_height r) = Some t).
      { unfold find_height. cbn [find]. rewrite Hh, N.eqb_refl. reflexivity. }
      rewrite F in RI.
      assert (F2 : find_height (ps_hist st) (r_height r) = None).
      { rewrite Hh. apply find_height_lower, below_lower, Hshape. }
      assert (RI2 : run_info [SDelete (r_id t); SInsert r; SCommit] (t :: ps_hist st) = Some (s_info st')).
      { destruct (c_keep_history (ps_cfg st)); exact RI. }
      cbn -[find_height] in RI2. rewrite N.eqb_refl in RI2. cbn -[find_height] in RI2. rewrite (filter_id_below t _ Hshape), F2 in RI2.
      destruct (sql_u64_ok r); cbn in RI2; [|discriminate]. inversion RI2 as [RI'].
      exists (ps_hist st). split; [reflexivity | exact Hbelow].
  - (* nothing stored before *)
    intros RI _. rewrite Hshape in RI. cbn in RI.
    destruct (sql_u64_ok r); cbn in RI; [|discriminate]. inversion RI as [RI'].
    exists []. split; [reflexivity | constructor].
Qed.

(* the no-crash store has the record of the Agglayer's latest certificate on top *)
Lemma nocrash_top st l :
  Inv st -> latest (ps_agg st) = Some l ->
  exists c rest', s_info (nocrash_store st) = c :: rest' /\ Forall (below c) rest' /\ matches (ps_agg st) c l.
Proof.
  intros I L. destruct (ps_sent st) as [r|] eqn:E.
  - destruct (nocrash_shape st r I E) as (rest' & Hinfo & Hb).
    destruct I as (_ & _ & Hs). rewrite E, L in Hs. destruct Hs as (_ & _ & _ & _ & _ & M).
    exists (norm_row r), rest'. auto using matches_norm.
  - destruct I as (_ & Hshape & Hs). rewrite E, L in Hs. unfold nocrash_store, prev_store. rewrite E. cbn [s_info].
    destruct (ps_top st) as [t|]; [|contradiction]. exists t, (ps_hist st). auto.
Qed.

Lemma nocrash_nothing st :
  Inv st -> latest (ps_agg st) = None -> ps_sent st = None /\ s_info (nocrash_store st) = [].
Proof.
  intros (_ & Hshape & Hs) L. rewrite L in Hs. destruct (ps_sent st) as [r|] eqn:E.
  - destruct Hs as (_ & _ & _ & _ & _ & F). contradiction.
  - split; [reflexivity|]. unfold nocrash_store, prev_store. rewrite E. cbn.
    destruct (ps_top st); [contradiction|]. cbn. exact Hshape.
Qed.

Lemma store_eta st : st = {| s_info := s_info st; s_hist := s_hist st |}.
Proof. destruct st; reflexivity. Qed.

Lemma nocrash_next st l :
  Inv st -> latest (ps_agg st) = Some l ->
  exists c, matches (ps_agg st) c l /\ next_params (ps_cfg st) (nocrash_synced st) = next_of_row (ps_cfg st) (sync_row (ps_agg st) c).
Proof.
  intros I L. destruct (nocrash_top st l I L) as (c & rest' & Hinfo & Hb & M).
  exists c. split; [exact M|]. unfold nocrash_synced. rewrite (store_eta (nocrash_store st)), Hinfo.
  rewrite (check_pending_shape _ c rest' _ Hb).
  destruct M as (_ & _ & _ & (x & Px & _) & _).
  destruct (sync_row_fields (ps_agg st) c) as (_ & _ & Sp & _).
  apply (next_params_top _ _ _ _ x (below_sync _ c rest' Hb)). rewrite Sp. exact Px.
Qed.

(* a store whose only relevant row was rebuilt from the latest header gives the same next parameters *)
Lemma rebuilt_next st l r' rest hs :
  Inv st -> latest (ps_agg st) = Some l -> row_of_header l = Ok r' -> Forall (below (norm_row r')) rest ->
  next_params (ps_cfg st) {| s_info := norm_row r' :: rest; s_hist := hs |} = next_params (ps_cfg st) (nocrash_synced st).
Proof.
  intros I L R B. destruct (nocrash_next st l I L) as (c & M & ->).
  pose proof (agree_from_matches _ c l r' M R) as Ag.
  destruct M as (_ & _ & _ & (x & Px & Plx) & _).
  destruct (row_of_header_fields l r' R) as (_ & _ & _ & Fp & _).
  rewrite (next_params_top _ (norm_row r') rest hs x B); [apply next_of_row_agree, Ag|].
  cbn. rewrite Fp. exact Plx.
Qed.

(* ------------------------------------------------------------------------------------------ *)
(* main theorems                                                                                 *)
(* ------------------------------------------------------------------------------------------ *)
Lemma next_params_info cfg a b : s_info a = s_info b -> next_params cfg a = next_params cfg b.
Proof. intros E. unfold next_params, last_sent, next_height_ler. rewrite E. reflexivity. Qed.

(* restart on the database of the node that did not crash (crash before submit while idle, or after the store) *)
Lemma recover_on_nocrash st :
  Inv st ->
  recover (c_keep_history (ps_cfg st)) (ps_agg st) (nocrash_store st) =
    (nocrash_synced st, match latest (ps_agg st) with Some _ => OUpdate | None => ONone end).
Proof.
  intros I. destruct (latest (ps_agg st)) as [l|] eqn:L.
  - destruct (nocrash_top st l I L) as (c & rest' & Hinfo & Hb & M).
    unfold nocrash_synced. rewrite (store_eta (nocrash_store st)), Hinfo.
    apply (recover_consistent _ _ c rest' _ l); auto. apply I.
  - destruct (nocrash_nothing st I L) as (_ & Hinfo).
    unfold nocrash_synced. rewrite (store_eta (nocrash_store st)), Hinfo.
    rewrite check_pending_empty. apply recover_nothing; auto. apply I.
Qed.

Lemma recover_db_lost st :
  Inv st ->
  exists st', recover (c_keep_history (ps_cfg st)) (ps_agg st) empty_store =
                (st', match latest (ps_agg st) with Some _ => OInsert | None => ONone end) /\
              next_params (ps_cfg st) st' = next_params (ps_cfg st) (nocrash_synced st).
Proof.
  intros I. destruct (latest (ps_agg st)) as [l|] eqn:L.
  - destruct (nocrash_top st l I L) as (c & _ & _ & _ & M).
    pose proof M as (_ & _ & _ & _ & (r' & R & _) & _).
    eexists. split.
    + apply (recover_insert_empty _ _ [] l r'); auto; [apply I | eapply sql_ok_from_matches; eauto].
    + apply (rebuilt_next st l r' [] []); auto.
  - exists empty_store. split; [apply recover_nothing; auto; apply I|].
    destruct (nocrash_nothing st I L) as (_ & Hinfo). apply next_params_info.
    unfold nocrash_synced. rewrite (store_eta (nocrash_store st)), Hinfo. reflexivity.
Qed.

Lemma recover_after_submit_before_store st r :
  Inv st -> ps_sent st = Some r ->
  match ps_top st with
  | Some t =>
      if is_in_error (r_status t)
      then recover (c_keep_history (ps_cfg st)) (ps_agg st) (prev_store st) = (prev_store st, ORefused EDifferentId)
      else exists st', recover (c_keep_history (ps_cfg st)) (ps_agg st) (prev_store st) = (st', OInsert) /\
                       next_params (ps_cfg st) st' = next_params (ps_cfg st) (nocrash_synced st)
  | None => exists st', recover (c_keep_history (ps_cfg st)) (ps_agg st) (prev_store st) = (st', OInsert) /\
                        next_params (ps_cfg st) st' = next_params (ps_cfg st) (nocrash_synced st)
  end.
Proof.
  intros I E. pose proof I as (A & Hshape & Hs). rewrite E in Hs.
  destruct Hs as ((x & Hnext & Hprev) & Hpend & Hbelow & Hids & Hok & Hl).
  destruct (latest (ps_agg st)) as [l|] eqn:L; [|contradiction]. rename Hl into M.
  pose proof M as (Mh & Mi & _ & _ & (r' & R & _) & _).
  pose proof (sql_ok_from_matches _ _ _ _ M R) as Q.
  destruct (row_of_header_fields l r' R) as (Fh & Fi & _).
  unfold prev_store in *. destruct (ps_top st) as [t|] eqn:T; cbn [opt_cons] in *.
  - destruct (sent_height _ _ _ _ _ _ _ Hshape Hnext) as [[S Hh]|[S Hh]]; rewrite S; cbn [is_in_error].
    + eexists. split.
      * apply (recover_insert_next _ _ t (ps_hist st) _ l r'); auto; [rewrite S; reflexivity | lia].
      * apply (rebuilt_next st l r'); auto. constructor.
        -- unfold below. cbn. rewrite S, Fh, Fi, Mh, Mi, Hh. repeat split; [lia | exact (Hids t eq_refl)].
        -- apply (below_agree r); [cbn; lia | cbn; congruence | exact Hbelow].
    + apply (recover_different_id _ _ t (ps_hist st) _ l); auto; [rewrite S; reflexivity | lia |].
      rewrite Mi. intros C. apply (Hids t eq_refl). symmetry; exact C.
  - rewrite Hshape. eexists. split.
    + apply (recover_insert_empty _ _ _ l r'); auto.
    + apply (rebuilt_next st l r' [] _); auto.
Qed.

Definition recovered (cp : crash_point) (st : pstate) : store * outcome :=
  recover (c_keep_history (ps_cfg st)) (ps_agg st) (local_after_crash cp st).

Lemma local_is_nocrash cp st : applicable cp st -> (cp = BeforeSubmit \/ cp = AfterStore) ->
  local_after_crash cp st = nocrash_store st.
Proof.
  intros Ap [->| ->]; cbn in *; [|reflexivity]. unfold nocrash_store. rewrite Ap. reflexivity.
Qed.

(* exact table of the outcome of the restart reconciliation, per crash point and state *)
Theorem reconcile_ok_cases_l st cp :
  Inv st -> applicable cp st ->
  snd (recovered cp st) =
    match cp with
    | BeforeSubmit | AfterStore => match latest (ps_agg st) with Some _ => OUpdate | None => ONone end
    | AfterSubmitBeforeStore =>
        match ps_top st with
        | Some t => if is_in_error (r_status t) then ORefused EDifferentId else OInsert
        | None => OInsert
        end
    | DbLost => match latest (ps_agg st) with Some _ => OInsert | None => ONone end
    end.
Proof.
  intros I Ap. unfold recovered. destruct cp.
  - rewrite (local_is_nocrash BeforeSubmit st Ap (or_introl eq_refl)), (recover_on_nocrash st I). reflexivity.
  - cbn in Ap. destruct (ps_sent st) as [r|] eqn:E; [|congruence].
    pose proof (recover_after_submit_before_store st r I E) as H. cbn [local_after_crash].
    destruct (ps_top st) as [t|]; [destruct (is_in_error (r_status t))|].
    + rewrite H. reflexivity.
    + destruct H as (st' & -> & _). reflexivity.
    + destruct H as (st' & -> & _). reflexivity.
  - rewrite (local_is_nocrash AfterStore st Ap (or_intror eq_refl)), (recover_on_nocrash st I). reflexivity.
  - cbn [local_after_crash]. destruct (recover_db_lost st I) as (st' & -> & _). reflexivity.
Qed.

(* whenever the reconciliation is not refused, the next certificate's (height, previous LER, first block)
   are those of the node that did not crash *)
Theorem recovery_refines_nocrash_l st cp :
  Inv st -> applicable cp st -> refused (snd (recovered cp st)) = false ->
  next_params (ps_cfg st) (fst (recovered cp st)) = next_params (ps_cfg st) (nocrash_synced st).
Proof.
  intros I Ap. unfold recovered. destruct cp.
  - rewrite (local_is_nocrash BeforeSubmit st Ap (or_introl eq_refl)), (recover_on_nocrash st I). reflexivity.
  - cbn in Ap. destruct (ps_sent st) as [r|] eqn:E; [|congruence].
    pose proof (recover_after_submit_before_store st r I E) as H. cbn [local_after_crash].
    destruct (ps_top st) as [t|]; [destruct (is_in_error (r_status t))|].
    + rewrite H. cbn. discriminate.
    + destruct H as (st' & -> & Hn). intros _. exact Hn.
    + destruct H as (st' & -> & Hn). intros _. exact Hn.
  - rewrite (local_is_nocrash AfterStore st Ap (or_intror eq_refl)), (recover_on_nocrash st I). reflexivity.
  - cbn [local_after_crash]. destruct (recover_db_lost st I) as (st' & -> & Hn). intros _. exact Hn.
Qed.

(* the refused pair: the crash between submitting a replacement of an InError certificate and storing it.
   The local database is left untouched and the error is the "different certificate" one. *)
Theorem inerror_replacement_crash_refused_l st r t :
  Inv st -> ps_sent st = Some r -> ps_top st = Some t -> r_status t = InError ->
  recovered AfterSubmitBeforeStore st = (prev_store st, ORefused EDifferentId).
Proof.
  intros I E T S. pose proof (recover_after_submit_before_store st r I E) as H.
  rewrite T, S in H. exact H.
Qed.

(* ------------------------------------------------------------------------------------------ *)
(* contradictory records are refused, for every Agglayer view (consistent or not)                *)
(* ------------------------------------------------------------------------------------------ *)
Definition contradicts (s p : option hdr) (t : row) : Prop :=
  match latest_of s p with
  | None => True                                                           (* local-only certificate *)
  | Some a => h_height a < r_height t \/                                   (* Agglayer lower than local *)
              (h_height a = r_height t /\ h_id a <> r_id t)                (* different id at the same height *)
  end.

Theorem contradiction_refused_l s p t : contradicts s p t -> exists e, reconcile s p (Some t) = Err e.
Proof.
  unfold contradicts, reconcile. intros C.
  destruct (check_agg_consistency s p); cbn [negb]; [|eexists; reflexivity].
  destruct (latest_of s p) as [a|]; [|eexists; reflexivity].
  destruct C as [C|[C1 C2]].
  - destruct (N.ltb_spec (h_height a) (r_height t)); [eexists; reflexivity | lia].
  - rewrite C1. destruct (N.ltb_spec (r_height t) (r_height t)); [lia|].
    destruct (N.eqb_spec (r_height t) (r_height t + 1)); [lia|].
    destruct (N.eqb_spec (r_id t) (h_id a)); [congruence|]. eexists; reflexivity.
Qed.

(* ... with the exact error when the Agglayer view itself is consistent *)
Theorem contradiction_kinds_l s p t : check_agg_consistency s p = true ->
  (latest_of s p = None -> reconcile s p (Some t) = Err ELocalOnly) /\
  (forall a, latest_of s p = Some a -> h_height a < r_height t -> reconcile s p (Some t) = Err EAggLower) /\
  (forall a, latest_of s p = Some a -> h_height a = r_height t -> h_id a <> r_id t -> reconcile s p (Some t) = Err EDifferentId).
Proof.
  intros K. unfold reconcile. rewrite K. cbn [negb]. repeat split.
  - intros ->. reflexivity.
  - intros a -> H. destruct (N.ltb_spec (h_height a) (r_height t)); [reflexivity | lia].
  - intros a -> H1 H2. rewrite H1. destruct (N.ltb_spec (r_height t) (r_height t)); [lia|].
    destruct (N.eqb_spec (r_height t) (r_height t + 1)); [lia|].
    destruct (N.eqb_spec (r_id t) (h_id a)); [congruence | reflexivity].
Qed.

(* every refusal of process(), exhaustively *)
Theorem reconcile_err_cases_l s p l e : reconcile s p l = Err e ->
  (e = EAggInconsistent /\ check_agg_consistency s p = false) \/
  (exists t, l = Some t /\
     ((e = ELocalOnly /\ latest_of s p = None) \/
      (exists a, latest_of s p = Some a /\
         ((e = EAggLower /\ h_height a < r_height t) \/
          (e = EDifferentId /\ r_height t <= h_height a /\ h_height a <> r_height t + 1 /\ r_id t <> h_id a))))).
Proof.
  unfold reconcile. destruct (check_agg_consistency s p) eqn:K; cbn [negb]; [|intros E; inversion E; auto].
  intros E. right.
  destruct l as [t|].
  - exists t. split; [reflexivity|].
    destruct (latest_of s p) as [a|]; [|inversion E; auto].
    right. exists a. split; [reflexivity|].
    destruct (N.ltb_spec (h_height a) (r_height t)); [inversion E; auto|].
    destruct (N.eqb_spec (h_height a) (r_height t + 1)); [discriminate|].
    destruct (N.eqb_spec (r_id t) (h_id a)); [discriminate|]. inversion E. right. auto.
  - exfalso. unfold check_agg_consistency in K.
    destruct s as [s|], p as [p|]; cbn in E; try discriminate.
    destruct (h_height p =? 0) eqn:Z; [discriminate|]. cbn in K.
    destruct (is_in_error (h_status p)); cbn in *; [destruct (0 <? h_height p); discriminate | discriminate].
Qed.

(* the "suspicious height" branch of process() is dead code: checkAgglayerConsistenceCerts rejects those views first *)
Corollary suspicious_unreachable_l s p l : reconcile s p l <> Err ESuspiciousHeight.
Proof.
  intros E. apply reconcile_err_cases_l in E as [[E _]|(t & _ & [[E _]|(a & _ & [[E _]|[E _]])])]; discriminate.
Qed.

(* a refusal changes nothing but the statuses already polled *)
Lemma refused_keeps_store keep a st : refused (snd (recover keep a st)) = true -> fst (recover keep a st) = check_pending a st.
Proof.
  unfold recover. destruct (reconcile _ _ _); [|reflexivity].
  destruct (apply_action _ _ _ _); [|reflexivity]. destruct a0; cbn; discriminate.
Qed.

(* ------------------------------------------------------------------------------------------ *)
(* certificate metadata                                                                          *)
(* ------------------------------------------------------------------------------------------ *)
Lemma slice_mid (a b c : bytes) lo hi : length a = lo -> length b = (hi - lo)%nat -> slice (a ++ b ++ c) lo hi = b.
Proof.
  intros <- Hb. unfold slice. rewrite skipn_app, skipn_all, Nat.sub_diag. cbn [skipn app].
  rewrite <- Hb, firstn_app, firstn_all, Nat.sub_diag. cbn [firstn]. apply app_nil_r.
Qed.

Lemma pow_8 : 256 ^ N.of_nat 8 = 2 ^ 64. Proof. reflexivity. Qed.
Lemma pow_4 : 256 ^ N.of_nat 4 = 2 ^ 32. Proof. reflexivity. Qed.

(* V1 / V2: decode (encode m) = m for field values in range *)
Lemma meta_roundtrip_l v from off created ty :
  v = 1 \/ v = 2 -> from < 2^64 -> off < 2^32 -> created < 2^32 -> ty < 256 ->
  meta_decode (meta_encode {| m_version := v; m_to_v0 := 0; m_from := from; m_offset := off;
                              m_created := created; m_ctype := ty |}) =
  Some {| m_version := v; m_to_v0 := 0; m_from := from; m_offset := off; m_created := created;
          m_ctype := if v =? 2 then ty else 0 |}.
Proof.
  intros Hv Hf Ho Hc Ht.
  assert (Ef : of_be (be 8 from) = from) by (apply of_be_be; rewrite pow_8; exact Hf).
  assert (Eo : of_be (be 4 off) = off) by (apply of_be_be; rewrite pow_4; exact Ho).
  assert (Ec : of_be (be 4 created) = created) by (apply of_be_be; rewrite pow_4; exact Hc).
  unfold meta_encode, meta_decode. cbn [m_version m_to_v0 m_from m_offset m_created m_ctype].
  set (tyb := if v =? 2 then ty else 0).
  set (tail := [tyb] ++ repeat 0 14%nat).
  assert (S1 : slice ([v] ++ be 8 from ++ be 4 off ++ be 4 created ++ tail) 1 9 = be 8 from).
  { apply slice_mid; [reflexivity | apply be_length]. }
  assert (S2 : slice ([v] ++ be 8 from ++ be 4 off ++ be 4 created ++ tail) 9 13 = be 4 off).
  { rewrite (app_assoc [v]). apply slice_mid; [rewrite app_length, be_length; reflexivity | apply be_length]. }
  assert (S3 : slice ([v] ++ be 8 from ++ be 4 off ++ be 4 created ++ tail) 13 17 = be 4 created).
  { rewrite (app_assoc [v]), (app_assoc ([v] ++ be 8 from)).
    apply slice_mid; [rewrite !app_length, !be_length; reflexivity | apply be_length]. }
  assert (S4 : byte_at ([v] ++ be 8 from ++ be 4 off ++ be 4 created ++ tail) 17 = tyb).
  { unfold byte_at, tail. rewrite (app_assoc [v]), (app_assoc ([v] ++ be 8 from)), (app_assoc (([v] ++ be 8 from) ++ be 4 off)).
    set (A := (([v] ++ be 8 from) ++ be 4 off) ++ be 4 created).
    change ([tyb] ++ repeat 0 14%nat) with (tyb :: repeat 0 14%nat).
    replace 17%nat with (length A) by (unfold A; rewrite !app_length, !be_length; reflexivity).
    apply nth_middle. }
  assert (S0 : byte_at ([v] ++ be 8 from ++ be 4 off ++ be 4 created ++ tail) 0 = v) by reflexivity.
  destruct Hv as [-> | ->]; cbn [N.eqb Pos.eqb]; rewrite S0; cbn [N.eqb Pos.eqb]; rewrite S1, S2, S3, Ef, Eo, Ec; [reflexivity|].
  rewrite S4. reflexivity.
Qed.

Lemma u64_sub_small from to : from <= to -> to < 2^64 -> u64_sub to from = to - from.
Proof.
  intros H1 H2. unfold u64_sub. set (p := 2^64) in *. assert (0 < p) by (subst p; reflexivity).
  replace (to + p - from) with ((to - from) + 1 * p) by lia.
  rewrite N.mod_add by lia. apply N.mod_small. lia.
Qed.

(* a header whose metadata was produced by BuildCertificate for the range [from, to] is rebuilt with that range,
   provided to - from < 2^32 (the offset is a uint32) *)
Lemma row_of_header_range_l l from to created ty :
  h_meta l = meta_encode (new_metadata from to created ty) ->
  from <= to -> to < 2^64 -> to - from < 2^32 -> created < 2^32 -> ty < 256 ->
  exists r', row_of_header l = Ok r' /\ r_from r' = from /\ r_to r' = to /\ r_created r' = Some created /\ r_ctype r' = ty.
Proof.
  intros Hm H1 H2 H3 H4 H5. unfold row_of_header, new_metadata in *. rewrite Hm.
  rewrite (u64_sub_small from to H1 H2), (N.mod_small _ _ H3).
  rewrite meta_roundtrip_l; auto; [|lia].
  cbn [m_version m_from m_offset m_created m_ctype N.eqb Pos.eqb].
  eexists. split; [reflexivity|]. cbn. repeat split.
  replace (from + (to - from)) with to by lia. apply N.mod_small; exact H2.
Qed.

(* ------------------------------------------------------------------------------------------ *)
(* the fault-free save commits (one row per height, no clashing history key) and puts the row    *)
(* ------------------------------------------------------------------------------------------ *)
Lemma filter_height_none l h : ~ In h (map r_height l) -> filter (fun x => r_height x =? h) l = [].
Proof.
  induction l as [|x l IH]; cbn; intros H; [reflexivity|].
  destruct (N.eqb_spec (r_height x) h); [exfalso; apply H; left; assumption|]. apply IH. intros C; apply H; right; exact C.
Qed.

Lemma filter_height_uniq l h old :
  NoDup (map r_height l) -> find_height l h = Some old -> filter (fun x => r_height x =? r_height old) l = [old].
Proof.
  unfold find_height. induction l as [|x l IH]; cbn; intros U F; [discriminate|].
  inversion U as [|? ? Hn Hd]; subst.
  destruct (N.eqb_spec (r_height x) h) as [E|E].
  - inversion F; subst x. rewrite N.eqb_refl. rewrite (filter_height_none l (r_height old) Hn). reflexivity.
  - pose proof (find_some _ _ F) as [Hin Hh]. apply N.eqb_eq in Hh.
    destruct (N.eqb_spec (r_height x) (r_height old)); [congruence|]. apply IH; assumption.
Qed.

Lemma save_commits_l keep r st :
  uniq st -> sql_u64_ok r = true ->
  match find_height (s_info st) (r_height r) with
  | Some old => keep = false \/ has_hist_key (s_hist st) (r_height old) (r_retry old) = false
  | None => True
  end ->
  snd (save_last_sent None keep r st) = true /\
  find_height (s_info (fst (save_last_sent None keep r st))) (r_height r) = Some (norm_row r).
Proof.
  intros U Q H. destruct (find_height (s_info st) (r_height r)) as [old|] eqn:F.
  - pose proof (find_height_filter_id _ _ _ U F) as F2.
    unfold save_last_sent, save_stmts. rewrite F.
    destruct keep.
    + destruct H as [H|H]; [discriminate|].
      cbn -[find_height hist_insert_rows]. rewrite (filter_height_uniq _ _ _ U F).
      cbn [hist_insert_rows fold_left]. rewrite H. cbn -[find_height]. rewrite Q. cbn -[find_height]. rewrite F2.
      cbn. unfold find_height. cbn. rewrite N.eqb_refl. auto.
    + cbn -[find_height]. rewrite Q. cbn -[find_height]. rewrite F2.
      cbn. unfold find_height. cbn. rewrite N.eqb_refl. auto.
  - rewrite (save_fresh keep r st F Q). cbn. unfold find_height. cbn. rewrite N.eqb_refl. auto.
Qed.

(* ------------------------------------------------------------------------------------------ *)
(* boundary: a header without previous LER                                                       *)
(* ------------------------------------------------------------------------------------------ *)
(* After a lost database, an InError certificate at height > 0 whose header does not report prev_local_exit_root is
   rebuilt without it; the flow then looks for the row at height-1, finds none and builds nothing: safe, not live. *)
Lemma lost_db_inerror_without_prev_ler_l cfg l r' hs :
  row_of_header l = Ok r' -> h_status l = InError -> h_prev_ler l = None -> 0 < h_height l -> 0 < r_from r' ->
  next_params cfg {| s_info := [norm_row r']; s_hist := hs |} = Err ENoPrevSettled.
Proof.
  intros R S P H Hf. destruct (row_of_header_fields l r' R) as (Fh & _ & Fs & Fp & _).
  unfold next_params, last_sent, last_sent_l, next_height_ler, is_closed, retry_from_mismatch, last_sent_block.
  cbn [s_info fold_left norm_row r_status r_prev_ler r_height r_from r_to].
  rewrite Fs, S, Fp, P, Fh. cbn [is_open negb is_settled is_in_error andb].
  destruct (N.ltb_spec 0 (r_from r')); [|lia].
  replace (r_from r' - 1 + 1) with (r_from r') by lia. rewrite N.eqb_refl. cbn [negb].
  destruct (N.eqb_spec (h_height l) 0); [lia|].
  unfold find_height. cbn [find r_height norm_row]. rewrite Fh. destruct (N.eqb_spec (h_height l) (h_height l - 1)); [lia | reflexivity].
Qed.

(* version-0 metadata: the rebuilt row has from_block 0; when such a row is InError the retry check of VerifyBuildParams
   refuses to build (the retry would start after the failed certificate's last block): safe, not live *)
Lemma inerror_from_zero_nothing_built_l cfg c rest hs :
  Forall (below c) rest -> r_status c = InError -> r_from c = 0 ->
  next_params cfg {| s_info := c :: rest; s_hist := hs |} = Err ERetryFromMismatch.
Proof.
  intros B S F. unfold next_params. rewrite (last_sent_top c rest hs B).
  unfold retry_from_mismatch, last_sent_block. rewrite S, F. cbn [is_in_error andb].
  destruct (N.ltb_spec 0 0); [lia|]. destruct (N.eqb_spec (r_to c + 1) 0); [lia|]. reflexivity.
Qed.

(* ------------------------------------------------------------------------------------------ *)
(* concrete protocol states (non-vacuity of Inv at every crash point)                            *)
(* ------------------------------------------------------------------------------------------ *)
Definition ex_cfg : config := {| c_start_block := 0; c_start_ler := 100; c_keep_history := true |}.
Definition ex_row (h retry id : N) (s : status) (prev new from to : N) : row :=
  {| r_height := h; r_retry := retry; r_id := id; r_status := s; r_prev_ler := Some prev; r_new_ler := new;
     r_from := from; r_to := to; r_created := Some 1700000000; r_ctype := 1; r_from_agg := false |}.
Definition ex_hdr (h id : N) (s : status) (prev new from to : N) : hdr :=
  {| h_height := h; h_id := id; h_status := s; h_new_ler := new; h_prev_ler := Some prev;
     h_meta := meta_encode (new_metadata from to 1700000000 1) |}.

(* certificate 0 = blocks 1..5, certificate 1 = blocks 6..9, its replacement = blocks 6..10 *)
(* "next": certificate 0 settled and stored, certificate 1 submitted; the Agglayer already has it InError *)
Definition ex_next : pstate :=
  {| ps_cfg := ex_cfg; ps_histtab := [];
     ps_agg := {| a_settled := Some (ex_hdr 0 11 Settled 100 101 1 5); a_pending := Some (ex_hdr 1 12 InError 101 102 6 9);
                  a_known := [ex_hdr 0 11 Settled 100 101 1 5; ex_hdr 1 12 InError 101 102 6 9] |};
     ps_hist := []; ps_top := Some (ex_row 0 0 11 Settled 100 101 1 5);
     ps_sent := Some (ex_row 1 0 12 Pending 101 102 6 9) |}.
(* "replacement": certificate 1 ended InError (stored so), its replacement (id 13, retry 1) was submitted *)
Definition ex_repl : pstate :=
  {| ps_cfg := ex_cfg; ps_histtab := [];
     ps_agg := {| a_settled := Some (ex_hdr 0 11 Settled 100 101 1 5); a_pending := Some (ex_hdr 1 13 Pending 101 103 6 10);
                  a_known := [ex_hdr 0 11 Settled 100 101 1 5; ex_hdr 1 12 InError 101 102 6 9; ex_hdr 1 13 Pending 101 103 6 10] |};
     ps_hist := [ex_row 0 0 11 Settled 100 101 1 5]; ps_top := Some (ex_row 1 0 12 InError 101 102 6 9);
     ps_sent := Some (ex_row 1 1 13 Pending 101 103 6 10) |}.
(* "idle": nothing being sent; the local row of certificate 1 still says Pending, the Agglayer has settled it *)
Definition ex_idle : pstate :=
  {| ps_cfg := ex_cfg; ps_histtab := [];
     ps_agg := {| a_settled := Some (ex_hdr 1 12 Settled 101 102 6 9); a_pending := None;
                  a_known := [ex_hdr 0 11 Settled 100 101 1 5; ex_hdr 1 12 Settled 101 102 6 9] |};
     ps_hist := [ex_row 0 0 11 Settled 100 101 1 5]; ps_top := Some (ex_row 1 0 12 Pending 101 102 6 9);
     ps_sent := None |}.
(* nothing was ever sent *)
Definition ex_fresh : pstate :=
  {| ps_cfg := ex_cfg; ps_histtab := []; ps_agg := {| a_settled := None; a_pending := None; a_known := [] |};
     ps_hist := []; ps_top := None; ps_sent := None |}.

Ltac ex_matches :=
  unfold matches; repeat split;
  try (eexists; split; [vm_compute; reflexivity | split; reflexivity]);
  try (eexists; split; reflexivity);
  try (vm_compute; reflexivity); try (vm_compute; discriminate).
Ltac ex_agg_ok :=
  split; [intros s E; inversion E; reflexivity | intros p E; inversion E; split; [discriminate | reflexivity]].

Lemma ex_next_inv : Inv ex_next.
Proof.
  unfold Inv. split; [ex_agg_ok|]. split; [constructor|]. cbn [ps_sent ex_next].
  split. { exists 101. split; vm_compute; reflexivity. }
  split. { reflexivity. }
  split. { constructor. }
  split. { intros t E; inversion E; vm_compute; discriminate. }
  split. { vm_compute; reflexivity. }
  change (matches (ps_agg ex_next) (ex_row 1 0 12 Pending 101 102 6 9) (ex_hdr 1 12 InError 101 102 6 9)). ex_matches.
  all: try (intros C; vm_compute in C; discriminate).
Qed.

Lemma ex_repl_inv : Inv ex_repl.
Proof.
  unfold Inv. split; [ex_agg_ok|].
  split; [constructor; [unfold below; cbn; repeat split; try lia; try discriminate | constructor]|]. cbn [ps_sent ex_repl].
  split. { exists 101. split; vm_compute; reflexivity. }
  split. { reflexivity. }
  split. { constructor; [unfold below; cbn; repeat split; try lia; try discriminate | constructor]. }
  split. { intros t E; inversion E; vm_compute; discriminate. }
  split. { vm_compute; reflexivity. }
  change (matches (ps_agg ex_repl) (ex_row 1 1 13 Pending 101 103 6 10) (ex_hdr 1 13 Pending 101 103 6 10)). ex_matches.
  all: try (intros C; vm_compute in C; discriminate).
Qed.

Lemma ex_idle_inv : Inv ex_idle.
Proof.
  unfold Inv. split; [split; [intros s E; inversion E; reflexivity | intros p E; discriminate]|].
  split; [constructor; [unfold below; cbn; repeat split; try lia; try discriminate | constructor]|]. cbn [ps_sent ex_idle ps_top].
  change (matches (ps_agg ex_idle) (ex_row 1 0 12 Pending 101 102 6 9) (ex_hdr 1 12 Settled 101 102 6 9)). ex_matches.
  all: try (intros C; vm_compute in C; discriminate).
Qed.

Lemma ex_fresh_inv : Inv ex_fresh.
Proof. unfold Inv. split; [split; intros x E; discriminate|]. split; [reflexivity | exact I]. Qed.
