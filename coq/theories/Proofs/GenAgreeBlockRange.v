(* The definitions GENERATED from aggsender/types/block_range.go by tools/go2coq (Gen/GenBlockRange.v, regenerated on
   every run) compute exactly what the hand-written model of Model/CertCut.v computes, for all uint64 field values.
   Through these equalities the C17 theorems about `gap` / `count_blocks` are theorems about the translated Go code. *)
From Coq Require Import NArith Bool Lia.
From Verif Require Import Base.GoNum Gen.GenBlockRange Model.CertCut Proofs.CertCutProofs.
Open Scope N_scope.

Definition to_br (b : BlockRange) : brange := R (BlockRange_FromBlock b) (BlockRange_ToBlock b).
Definition wf_gen (b : BlockRange) : Prop := BlockRange_FromBlock b < GoNum.U64 /\ BlockRange_ToBlock b < GoNum.U64.

Lemma U64_same : GoNum.U64 = CertCut.U64.
Proof. reflexivity. Qed.

Lemma u64_add_is_add64 a b : u64_add a b = add64 a b.
Proof. reflexivity. Qed.
Lemma u64_sub_is_sub64 a b : u64_sub a b = sub64 a b.
Proof. reflexivity. Qed.

Lemma getBlockMinusOne_agree x : x < GoNum.U64 -> getBlockMinusOne x = minus_one x.
Proof.
  intros Hx. unfold getBlockMinusOne, minus_one. destruct (N.ltb_spec 0 x) as [H|H]; [|reflexivity].
  unfold u64_sub. replace (x + GoNum.U64 - 1) with ((x - 1) + 1 * GoNum.U64) by lia.
  rewrite N.mod_add by (vm_compute; discriminate). apply N.mod_small. lia.
Qed.

Theorem CountBlocks_agree b : BlockRange_CountBlocks b = count_blocks (to_br b).
Proof. reflexivity. Qed.

Theorem IsEmpty_agree b : BlockRange_IsEmpty b = is_empty_range (to_br b).
Proof. reflexivity. Qed.

Theorem Gap_agree b o : wf_gen b -> wf_gen o -> to_br (BlockRange_Gap b o) = gap (to_br b) (to_br o).
Proof.
  intros [Hbf Hbt] [Hof Hot]. unfold BlockRange_Gap, gap, to_br. cbn [rf rt].
  rewrite (getBlockMinusOne_agree _ Hof), (getBlockMinusOne_agree _ Hbf).
  destruct (_ && _); [reflexivity|].
  destruct (N.ltb _ _); reflexivity.
Qed.

(* a well-formed range of the model (from <= to < 2^64) is a pair of uint64 fields *)
Lemma wf_range_wf_gen b : wf_range (to_br b) -> wf_gen b.
Proof. unfold wf_gen, wf_range, to_br. cbn [rf rt]. rewrite U64_same. lia. Qed.

(* the C17 gap theorem, read on the translated Go code *)
Theorem Gen_gap_empty_iff_touching b o : wf_range (to_br b) -> wf_range (to_br o) ->
  (BlockRange_IsEmpty (BlockRange_Gap b o) = true <-> touching (to_br b) (to_br o)).
Proof.
  intros Hb Ho. rewrite IsEmpty_agree, (Gap_agree b o (wf_range_wf_gen b Hb) (wf_range_wf_gen o Ho)).
  apply Proofs.CertCutProofs.gap_is_empty_iff_touching; assumption.
Qed.
