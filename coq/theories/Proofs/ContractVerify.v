(* The contract's calculateRoot / verifyMerkleProof (Model/Contracts.v) on the proofs the node serves:
   (1) calculateRoot over a list of exactly H siblings is the Go side's `calc` (tree.calculateRoot);
   (2) in every reachable state of the tree store, the proof served for leaf j under the root of version k is ACCEPTED by a
       deposit contract that received the same first k leaves (verifyMerkleProof returns true), whatever reorgs, restarts,
       aborted appends the store went through. *)
From Coq Require Import Arith Lia List Bool PeanoNat NArith.
From Verif Require Import Model.Merkle Model.MerkleSpec Model.Contracts Model.TreeStore Proofs.Frontier Proofs.ContractProofs
  Proofs.BitFacts Proofs.TreeStoreProofs Proofs.TreeStoreCorollaries.
Import ListNotations.
Local Close Scope N_scope.

Section CalcLoop.
Context {hash : Type}.
Variable node : hash -> hash -> hash.
Variable z0 : hash.

Lemma dc_calc_loop_is_calc (s : list hash) : forall h cur bit (proof : nat -> hash),
  (forall i, i < length s -> proof (h + i) = nth i s z0) ->
  dc_calc_loop node (length s) h bit cur proof = calc node h s cur bit.
Proof.
  induction s as [|x t IH]; intros h cur bit proof Hp; cbn [length dc_calc_loop calc]; [reflexivity|].
  pose proof (Hp 0 ltac:(cbn [length]; lia)) as H0. rewrite Nat.add_0_r in H0. cbn [nth] in H0. rewrite H0.
  apply IH. intros i Hi. specialize (Hp (S i) ltac:(cbn [length]; lia)).
  rewrite Nat.add_succ_r in Hp. cbn [nth] in Hp. exact Hp.
Qed.

Theorem dc_calculate_root_is_calc (s : list hash) bit leaf :
  dc_calculate_root node (length s) bit leaf (cache_of_list z0 s) = calc node 0 s leaf bit.
Proof.
  unfold dc_calculate_root. apply dc_calc_loop_is_calc. intros i _. unfold cache_of_list. reflexivity.
Qed.
End CalcLoop.

Section StoreVsContract.
Variable HT : nat.
Variable node : N -> N -> N.
Hypothesis node_inj : forall a b c d, node a b = node c d -> a = c /\ b = d.
Variable zhf : nat -> N.
Hypothesis Hzh : forall h, h <= HT -> zhf h = zero node 0%N h.

Lemma bitN_testbit j : forall h, bitN (N.of_nat j) h = Nat.testbit j h.
Proof. intros h. apply bitN_of_nat. Qed.

Lemma calc_ext (s : list N) : forall h cur (b1 b2 : nat -> bool), (forall i, b1 i = b2 i) -> calc node h s cur b1 = calc node h s cur b2.
Proof. induction s as [|x t IH]; intros h cur b1 b2 E; cbn [calc]; [reflexivity|]. rewrite (E h). apply IH. exact E. Qed.

Lemma dc_calc_loop_ext fuel : forall h cur (b1 b2 : nat -> bool) (p : nat -> N), (forall i, b1 i = b2 i) ->
  dc_calc_loop node fuel h b1 cur p = dc_calc_loop node fuel h b2 cur p.
Proof. induction fuel as [|n IH]; intros h cur b1 b2 p E; cbn [dc_calc_loop]; [reflexivity|]. rewrite (E h). apply IH. exact E. Qed.

(* the contract that received the first k surviving leaves, asked to verify the store's proof of leaf j against ITS OWN
   current root, computes exactly that root: verifyMerkleProof(leaf_j, proof, j, getRoot()) = true *)
Theorem contract_accepts_served_proof db mem L k j branch0 :
  Reach HT node zhf db mem L -> j < k -> k <= length L -> k < 2 ^ HT ->
  let store_root := mroot node 0%N (lf L) HT k in
  let proof := Gen.get_proof HT zhf db (N.of_nat j) store_root in
  let contract_root := dc_root node 0%N HT (Nat.testbit k) (dc_after node (lf L) HT k branch0) in
  contract_root = store_root /\
  dc_calculate_root node HT (Nat.testbit j) (lf L j) (cache_of_list 0%N proof) = contract_root.
Proof.
  intros HR Hjk Hk Hlt store_root proof contract_root.
  assert (Hroot : contract_root = store_root).
  { unfold contract_root, store_root. apply contract_root_is_merkle. exact Hlt. }
  split; [exact Hroot|]. rewrite Hroot.
  destruct (store_proof_verifies HT node node_inj zhf Hzh db mem L k j HR Hjk Hk) as (_ & Hlen & Hcalc & _).
  fold store_root in Hlen, Hcalc. fold proof in Hlen, Hcalc.
  unfold Gen.calculate_root in Hcalc. rewrite <- Hcalc.
  rewrite <- Hlen at 1. rewrite dc_calculate_root_is_calc.
  apply calc_ext. intros i. symmetry. apply bitN_testbit.
Qed.
End StoreVsContract.
