(* What AddLeaf stores: the nodes produced by the climb are exactly the path nodes of the new version
   (the spec-form `ins_path` of Proofs/Rht.v). nat-indexed theory, abstract hash. *)
From Coq Require Import Arith Lia List Bool PeanoNat.
From Verif Require Import Model.Merkle Model.MerkleSpec Proofs.Frontier Proofs.Rht.
Import ListNotations.

Section ClimbNodes.
Context {hash : Type}.
Variable node : hash -> hash -> hash.
Variable z0 : hash.
Variable f : nat -> hash.
Variable heq_dec : forall a b : hash, {a = b} + {a <> b}.
Notation zero := (zero node z0).
Notation sub := (sub node z0 f).

Definition path_node (i l : nat) : hash * (hash * hash) :=
  let k := i / 2 ^ (S l) in (sub (S l) k (S i), (sub l (2 * k) (S i), sub l (2 * k + 1) (S i))).

Lemma climb_nodes_spec fuel : forall h i cur c,
  cur = sub h (i / 2 ^ h) (S i) ->
  (forall h', h <= h' -> Nat.testbit i h' = true -> c h' = sub h' (i / 2 ^ h' - 1) i) ->
  climb_nodes node zero fuel h (Nat.testbit i) cur c = map (path_node i) (seq h fuel).
Proof.
  induction fuel as [|fuel IH]; intros h i cur c Hcur Hc; cbn [climb_nodes seq map]; [reflexivity|].
  pose proof (climb_next node z0 f h i cur c Hcur Hc) as Hn.
  pose proof (div_pow_bounds i h) as Hb.
  destruct (Nat.testbit i h) eqn:Hbit; cbv zeta.
  - f_equal.
    + unfold path_node. cbv zeta. rewrite <- Hn. f_equal. f_equal.
      * (* left child: complete subtree, same in versions i and S i *)
        rewrite (Hc h (le_n _) Hbit).
        rewrite testbit_div in Hbit. pose proof (odd_div2 _ Hbit) as E. rewrite <- div_succ_pow in E.
        replace (2 * (i / 2 ^ S h)) with (i / 2 ^ h - 1) by lia.
        apply sub_full; replace (i / 2 ^ h - 1 + 1) with (i / 2 ^ h) by lia; lia.
      * rewrite testbit_div in Hbit. pose proof (odd_div2 _ Hbit) as E. rewrite <- div_succ_pow in E.
        rewrite <- E. exact Hcur.
    + apply IH; [exact Hn|]. intros h' Hle Hb'. apply Hc; [lia|exact Hb'].
  - f_equal.
    + unfold path_node. cbv zeta. rewrite <- Hn. f_equal. f_equal.
      * rewrite testbit_div in Hbit. pose proof (even_div2 _ Hbit) as E. rewrite <- div_succ_pow in E.
        rewrite <- E. exact Hcur.
      * rewrite testbit_div in Hbit. pose proof (even_div2 _ Hbit) as E. rewrite <- div_succ_pow in E.
        symmetry. apply sub_zero. lia.
    + apply IH; [exact Hn|]. intros h' Hle Hb'. unfold upd.
      destruct (Nat.eqb_spec h' h) as [->|Hne]; [congruence|]. apply Hc; [lia|exact Hb'].
Qed.

(* inserting those nodes one after another is the spec-form path insertion *)
Lemma ins_all_app (m : @rht hash) a b : ins_all heq_dec m (a ++ b) = ins_all heq_dec (ins_all heq_dec m a) b.
Proof. unfold ins_all. apply fold_left_app. Qed.

Lemma ins_all_path m i H : ins_all heq_dec m (map (path_node i) (seq 0 H)) = ins_path node z0 f heq_dec m i H.
Proof.
  induction H as [|H IH]; [reflexivity|].
  rewrite seq_S, map_app, ins_all_app, IH. cbn [map ins_all fold_left Nat.add ins_path].
  unfold path_node. cbv zeta. cbn [fst snd MerkleSpec.sub]. reflexivity.
Qed.

Theorem add_leaf_nodes_are_path H i c :
  CacheInv node z0 f H i c -> (forall h, H <= h -> Nat.testbit i h = false) ->
  forall m, ins_all heq_dec m (climb_nodes node zero H 0 (Nat.testbit i) (f i) c) = ins_path node z0 f heq_dec m i H.
Proof.
  intros Hinv Hhi m. rewrite climb_nodes_spec.
  - apply ins_all_path.
  - cbn [MerkleSpec.sub]. rewrite Nat.pow_0_r, Nat.div_1_r.
    assert (E : i <? S i = true) by (apply Nat.ltb_lt; lia). rewrite E. reflexivity.
  - intros h' _ Hb. destruct (Nat.lt_ge_cases h' H) as [Hlt|Hge]; [apply Hinv; assumption|].
    rewrite Hhi in Hb by assumption. discriminate.
Qed.
End ClimbNodes.
