(* C05 proofs: the Download loop delivers every event block exactly once, in order. *)
From Coq Require Import NArith Arith List Lia Bool Sorted.
From Coq Require Import ZifyN ZifyNat ZifyBool.
From Verif Require Import Model.Downloader.
Import ListNotations.
Open Scope N_scope.

(* ------------------------------------------------------------------------------------------ *)
(* generic list facts *)

Lemma sorted_app (l1 l2 : list N) : StronglySorted N.lt l1 -> StronglySorted N.lt l2 ->
  (forall a b, In a l1 -> In b l2 -> a < b) -> StronglySorted N.lt (l1 ++ l2).
Proof.
  induction 1 as [|x l Hs IH Hall]; intros H2 Hlt; cbn [app]; [exact H2|].
  constructor.
  - apply IH; [exact H2|]. intros a b Ha Hb. apply Hlt; [right; exact Ha|exact Hb].
  - rewrite Forall_forall in *. intros y Hy. apply in_app_or in Hy as [Hy|Hy]; [auto|].
    apply Hlt; [left; reflexivity|exact Hy].
Qed.

Lemma sorted_app_inv (l1 l2 : list N) : StronglySorted N.lt (l1 ++ l2) ->
  StronglySorted N.lt l1 /\ StronglySorted N.lt l2 /\ (forall a b, In a l1 -> In b l2 -> a < b).
Proof.
  induction l1 as [|x l IH]; cbn [app]; intros H.
  - repeat split; [constructor|exact H|intros a b []].
  - inversion H as [|? ? Hs Hall]; subst. destruct (IH Hs) as (H1 & H2 & H3).
    rewrite Forall_forall in Hall. repeat split.
    + constructor; [exact H1|]. rewrite Forall_forall. intros y Hy. apply Hall, in_or_app. left. exact Hy.
    + exact H2.
    + intros a b [<-|Ha] Hb; [apply Hall, in_or_app; right; exact Hb|auto].
Qed.

Lemma sorted_last_max (l : list N) d : StronglySorted N.lt l -> forall k, In k l -> k <= last l d.
Proof.
  induction 1 as [|x l Hs IH Hall]; intros k Hk; [destruct Hk|].
  destruct l as [|y l']; cbn [last].
  - destruct Hk as [->|[]]. lia.
  - destruct Hk as [->|Hk].
    + rewrite Forall_forall in Hall. specialize (IH y (or_introl eq_refl)).
      specialize (Hall y (or_introl eq_refl)). cbn [last] in IH. lia.
    + apply IH. exact Hk.
Qed.

Lemma last_in {A} (l : list A) d : l <> [] -> In (last l d) l.
Proof.
  induction l as [|x l IH]; intros Hne; [congruence|].
  destruct l as [|y l']; [left; reflexivity|]. right. apply IH. discriminate.
Qed.

Lemma last_default {A} (l : list A) d d' : l <> [] -> last l d = last l d'.
Proof.
  induction l as [|y l IH]; [congruence|]. intros _. destruct l as [|z l']; [reflexivity|].
  change (last (z :: l') d = last (z :: l') d'). apply IH. discriminate.
Qed.
Lemma last_cons {A} (x : A) l d : last (x :: l) d = last l x.
Proof.
  destruct l as [|a l]; [reflexivity|]. change (last (a :: l) d = last (a :: l) x).
  apply last_default. discriminate.
Qed.

Lemma last_map {A B} (f : A -> B) (l : list A) d : last (map f l) (f d) = f (last l d).
Proof. induction l as [|x l IH]; [reflexivity|]. destruct l; [reflexivity|]. exact IH. Qed.

Lemma filter_flat_map {A B} (p : B -> bool) (f : A -> list B) (l : list A) :
  filter p (flat_map f l) = flat_map (fun x => filter p (f x)) l.
Proof. induction l as [|x l IH]; [reflexivity|]. cbn [flat_map]. rewrite filter_app, IH. reflexivity. Qed.

(* ------------------------------------------------------------------------------------------ *)
(* uint64 *)

Lemma u64_small x : x < M64 -> u64 x = x.
Proof. intros H. unfold u64. apply N.mod_small. exact H. Qed.
Lemma u64_le x : u64 x <= x.
Proof. unfold u64. apply N.mod_le. unfold M64. lia. Qed.

(* ------------------------------------------------------------------------------------------ *)
(* ranges *)

Lemma nrange_in a n k : In k (nrange a n) <-> a <= k < a + N.of_nat n.
Proof.
  revert a. induction n as [|n IH]; intros a; cbn [nrange In].
  - lia.
  - rewrite IH. lia.
Qed.
Lemma nrange_sorted a n : StronglySorted N.lt (nrange a n).
Proof.
  revert a. induction n as [|n IH]; intros a; cbn [nrange]; constructor; [apply IH|].
  rewrite Forall_forall. intros y Hy. apply nrange_in in Hy. lia.
Qed.
Lemma range_in a b k : In k (range a b) <-> a <= k <= b.
Proof. unfold range. rewrite nrange_in. lia. Qed.
Lemma range_sorted a b : StronglySorted N.lt (range a b).
Proof. apply nrange_sorted. Qed.

(* ------------------------------------------------------------------------------------------ *)
(* GetEventsByBlockRange = the event blocks of the range, each with exactly its watched events *)

Section Events.
Variable cfg : config.
Variable ch : chain.
Notation wev := (watched_events cfg ch).

(* kept logs of one block *)
Definition wl (k : N) : list (N * rawlog) :=
  filter (keep_log (c_topics cfg)) (map (pair k) (filter (addr_match (c_addrs cfg)) (ch k))).
Definition ref_block (k : N) : list (N * list ev) := match wev k with [] => [] | e => [(k, e)] end.
Definition ref_blocks (ks : list N) : list (N * list ev) := flat_map ref_block ks.

Lemma wl_fst k kl : In kl (wl k) -> fst kl = k.
Proof.
  unfold wl. intros H. apply filter_In in H as [H _]. apply in_map_iff in H as (l & <- & _). reflexivity.
Qed.
Lemma wl_events k : map ev_of (wl k) = wev k.
Proof.
  unfold wl, watched_events. induction (ch k) as [|l t IH]; [reflexivity|].
  cbn [filter]. unfold watched at 1. destruct (addr_match (c_addrs cfg) l); cbn [andb map filter].
  - unfold keep_log at 1. cbn [snd]. destruct (l_removed l); cbn [negb andb]; [exact IH|].
    destruct (memN (l_topic l) (c_topics cfg)); cbn [map]; [|exact IH].
    unfold ev_of at 1. cbn [fst snd]. f_equal. exact IH.
  - exact IH.
Qed.
Lemma get_logs_flat a b : get_logs cfg ch a b = flat_map wl (range a b).
Proof. unfold get_logs, node_filter_logs. rewrite filter_flat_map. reflexivity. Qed.

Lemma group_from_same k evs L rest : (forall kl, In kl L -> fst kl = k) ->
  group_from (k, evs) (L ++ rest) = group_from (k, evs ++ map ev_of L) rest.
Proof.
  revert evs. induction L as [|kl L IH]; intros evs HL; cbn [app map].
  - rewrite app_nil_r. reflexivity.
  - pose proof (HL kl (or_introl eq_refl)) as Hk. destruct kl as [k' l]. cbn [fst] in Hk. subst k'.
    cbn [group_from fst snd]. rewrite N.ltb_irrefl.
    rewrite IH by (intros x Hx; apply HL; right; exact Hx).
    rewrite <- app_assoc. reflexivity.
Qed.

Lemma group_from_blocks ks : StronglySorted N.lt ks -> forall n evs, (forall k, In k ks -> n < k) ->
  group_from (n, evs) (flat_map wl ks) = (n, evs) :: ref_blocks ks.
Proof.
  induction 1 as [|k ks Hs IH Hall]; intros n evs Hn; [reflexivity|].
  rewrite Forall_forall in Hall. cbn [flat_map]. unfold ref_blocks. cbn [flat_map]. fold (ref_blocks ks).
  unfold ref_block. rewrite <- (wl_events k).
  pose proof (wl_fst k) as Hfst. destruct (wl k) as [|kl L].
  - cbn [app map]. apply IH. intros k' Hk'. apply Hn. right. exact Hk'.
  - cbn [app map group_from fst snd].
    assert (Hk : fst kl = k) by (apply Hfst; left; reflexivity).
    rewrite Hk. assert (Hlt : n <? k = true) by (apply N.ltb_lt, Hn; left; reflexivity).
    rewrite Hlt. f_equal.
    rewrite group_from_same by (intros x Hx; apply Hfst; right; exact Hx).
    rewrite IH by (intros k' Hk'; apply Hall; exact Hk'). cbn [app]. reflexivity.
Qed.

Lemma group_blocks ks : StronglySorted N.lt ks -> group (flat_map wl ks) = ref_blocks ks.
Proof.
  induction 1 as [|k ks Hs IH Hall]; [reflexivity|].
  rewrite Forall_forall in Hall. cbn [flat_map]. unfold ref_blocks. cbn [flat_map]. fold (ref_blocks ks).
  unfold ref_block. rewrite <- (wl_events k).
  pose proof (wl_fst k) as Hfst. destruct (wl k) as [|kl L].
  - cbn [app map]. exact IH.
  - cbn [app map]. unfold group.
    assert (Hk : fst kl = k) by (apply Hfst; left; reflexivity). rewrite Hk.
    rewrite group_from_same by (intros x Hx; apply Hfst; right; exact Hx).
    rewrite group_from_blocks by (try exact Hs; intros k' Hk'; apply Hall; exact Hk'). reflexivity.
Qed.

Theorem get_events_ref a b : get_events_by_block_range cfg ch a b = ref_blocks (range a b).
Proof. unfold get_events_by_block_range. rewrite get_logs_flat. apply group_blocks, range_sorted. Qed.

Lemma ref_blocks_in ks k e : In (k, e) (ref_blocks ks) <-> In k ks /\ e = wev k /\ e <> [].
Proof.
  unfold ref_blocks. rewrite in_flat_map. split.
  - intros (k' & Hk' & Hin). unfold ref_block in Hin. destruct (wev k') as [|e0 et] eqn:E; [destruct Hin|].
    destruct Hin as [Heq|[]]. inversion Heq; subst. rewrite E. repeat split; [exact Hk'|discriminate].
  - intros (Hk & -> & Hne). exists k. split; [exact Hk|]. unfold ref_block.
    destruct (wev k) as [|e0 et]; [congruence|left; reflexivity].
Qed.
Lemma ref_blocks_fst ks : forall k, In k (map fst (ref_blocks ks)) -> In k ks.
Proof.
  intros k Hk. apply in_map_iff in Hk as ([k' e] & <- & Hin). apply ref_blocks_in in Hin. tauto.
Qed.
Lemma ref_blocks_sorted ks : StronglySorted N.lt ks -> StronglySorted N.lt (map fst (ref_blocks ks)).
Proof.
  induction 1 as [|k ks Hs IH Hall]; [constructor|].
  unfold ref_blocks. cbn [flat_map]. fold (ref_blocks ks). unfold ref_block.
  destruct (wev k) as [|e0 et]; [exact IH|]. cbn [app map fst]. constructor; [exact IH|].
  rewrite Forall_forall in *. intros y Hy. apply Hall, ref_blocks_fst, Hy.
Qed.
End Events.

(* ------------------------------------------------------------------------------------------ *)
(* numbered RPC calls: retried errors are invisible; without context.Canceled and with at most
   MaxRetryCountBlockHashMismatch hash mismatches, getEventsByBlockRangeWithRetry returns what the pure grouping returns *)

Definition le_calls (c' c : list cres) : Prop :=
  (forall r, In r c' -> In r c) /\ (mismatches c' <= mismatches c)%nat.
Lemma le_calls_refl c : le_calls c c.
Proof. split; [auto|lia]. Qed.
Lemma le_calls_trans c1 c2 c3 : le_calls c1 c2 -> le_calls c2 c3 -> le_calls c1 c3.
Proof. intros [H1 H2] [H3 H4]. split; [auto|lia]. Qed.
Lemma le_calls_cons r t : le_calls t (r :: t).
Proof. split; [intros x Hx; right; exact Hx|]. destruct r; cbn [mismatches]; lia. Qed.
Lemma calls_ok_le c c' : calls_ok c -> le_calls c' c -> calls_ok c'.
Proof. intros [H1 H2] [H3 H4]. split; [intros H; apply H1, H3, H|lia]. Qed.

Lemma filter_logs_call_ok c : ~ In RCanceled c -> exists c', filter_logs_call c = (true, c') /\ le_calls c' c.
Proof.
  induction c as [|r t IH]; intros Hnc; cbn [filter_logs_call].
  - exists []. split; [reflexivity|apply le_calls_refl].
  - assert (Hnt : ~ In RCanceled t) by (intros H; apply Hnc; right; exact H).
    destruct r; cbn [retried];
      try (destruct (IH Hnt) as (c' & -> & Hle); exists c'; split; [reflexivity|];
           eapply le_calls_trans; [exact Hle|apply le_calls_cons]);
      try (exists t; split; [reflexivity|apply le_calls_cons]).
    exfalso. apply Hnc. left. reflexivity.
Qed.

Lemma header_call_ok c : ~ In RCanceled c ->
  exists h c', header_call c = (h, c') /\ (forall r, In r c' -> In r c) /\
    ((h = HOk /\ (mismatches c' <= mismatches c)%nat) \/ (h = HMismatch /\ (S (mismatches c') <= mismatches c)%nat)).
Proof.
  induction c as [|r t IH]; intros Hnc; cbn [header_call].
  - exists HOk, []. split; [reflexivity|]. split; [auto|]. left. split; [reflexivity|lia].
  - assert (Hnt : ~ In RCanceled t) by (intros H; apply Hnc; right; exact H).
    destruct r; cbn [retried].
    + exists HOk, t. split; [reflexivity|]. split; [intros x Hx; right; exact Hx|]. left. cbn [mismatches]. split; [reflexivity|lia].
    + destruct (IH Hnt) as (h & c' & -> & Hs & Hm). exists h, c'. split; [reflexivity|].
      split; [intros x Hx; right; auto|]. cbn [mismatches]. exact Hm.
    + destruct (IH Hnt) as (h & c' & -> & Hs & Hm). exists h, c'. split; [reflexivity|].
      split; [intros x Hx; right; auto|]. cbn [mismatches]. exact Hm.
    + destruct (IH Hnt) as (h & c' & -> & Hs & Hm). exists h, c'. split; [reflexivity|].
      split; [intros x Hx; right; auto|]. cbn [mismatches]. exact Hm.
    + exfalso. apply Hnc. left. reflexivity.
    + exists HMismatch, t. split; [reflexivity|]. split; [intros x Hx; right; exact Hx|]. right. cbn [mismatches]. split; [reflexivity|lia].
Qed.

Definition retry_ok (c' c : list cres) : Prop :=
  (forall r, In r c' -> In r c) /\ (S (mismatches c') <= mismatches c)%nat.

Lemma group_rpc_from_ok logs : forall cur c, ~ In RCanceled c ->
  (exists c', group_rpc_from cur logs c = GDone (group_from cur logs) c' /\ le_calls c' c) \/
  (exists c', group_rpc_from cur logs c = GRetry c' /\ retry_ok c' c).
Proof.
  induction logs as [|kl t IH]; intros cur c Hnc; cbn [group_rpc_from group_from].
  - left. exists c. split; [reflexivity|apply le_calls_refl].
  - destruct (fst cur <? fst kl).
    + destruct (header_call_ok c Hnc) as (h & c1 & -> & Hs & [[-> Hm]|[-> Hm]]).
      * assert (Hnc1 : ~ In RCanceled c1) by (intros H; apply Hnc, Hs, H).
        destruct (IH (fst kl, [ev_of kl]) c1 Hnc1) as [(c' & -> & [Hs' Hm'])|(c' & -> & [Hs' Hm'])].
        -- left. exists c'. split; [reflexivity|]. split; [auto|lia].
        -- right. exists c'. split; [reflexivity|]. split; [auto|lia].
      * right. exists c1. split; [reflexivity|]. split; assumption.
    + apply IH. exact Hnc.
Qed.

Lemma group_rpc_ok logs c : ~ In RCanceled c ->
  (exists c', group_rpc logs c = GDone (group logs) c' /\ le_calls c' c) \/
  (exists c', group_rpc logs c = GRetry c' /\ retry_ok c' c).
Proof.
  intros Hnc. destruct logs as [|kl t]; cbn [group_rpc group].
  - left. exists c. split; [reflexivity|apply le_calls_refl].
  - destruct (header_call_ok c Hnc) as (h & c1 & -> & Hs & [[-> Hm]|[-> Hm]]).
    + assert (Hnc1 : ~ In RCanceled c1) by (intros H; apply Hnc, Hs, H).
      destruct (group_rpc_from_ok t (fst kl, [ev_of kl]) c1 Hnc1) as [(c' & -> & [Hs' Hm'])|(c' & -> & [Hs' Hm'])].
      * left. exists c'. split; [reflexivity|]. split; [auto|lia].
      * right. exists c'. split; [reflexivity|]. split; [auto|lia].
    + right. exists c1. split; [reflexivity|]. split; assumption.
Qed.

(* a retry restarts the range from scratch: whatever the (retried) failures and however many (<= budget) hash
   mismatches, the result is the result of the pure function, once *)
Theorem events_rpc_ok cfg ch a b : forall budget c, ~ In RCanceled c -> (mismatches c <= budget)%nat ->
  exists c' n, events_rpc budget cfg ch a b c = (get_events_by_block_range cfg ch a b, c', n) /\ le_calls c' c.
Proof.
  induction budget as [|bd IH]; intros c Hnc Hm; cbn [events_rpc];
    destruct (filter_logs_call_ok c Hnc) as (c1 & -> & [Hs1 Hm1]);
    assert (Hnc1 : ~ In RCanceled c1) by (intros H; apply Hnc, Hs1, H);
    destruct (group_rpc_ok (get_logs cfg ch a b) c1 Hnc1) as [(c2 & -> & [Hs2 Hm2])|(c2 & -> & [Hs2 Hm2])].
  - exists c2, 1%nat. split; [reflexivity|]. split; [auto|lia].
  - exfalso. lia.
  - exists c2, 1%nat. split; [reflexivity|]. split; [auto|lia].
  - assert (Hnc2 : ~ In RCanceled c2) by (intros H; apply Hnc1, Hs2, H).
    destruct (IH c2 Hnc2 ltac:(lia)) as (c3 & n & -> & [Hs3 Hm3]).
    exists c3, (1 + n)%nat. split; [reflexivity|]. split; [auto|lia].
Qed.

Lemma report_empty_ok cfg lf n c : ~ In RCanceled c ->
  exists c', report_empty cfg lf n c = ([empty_block cfg lf n], c') /\ le_calls c' c.
Proof.
  intros Hnc. unfold report_empty.
  destruct (header_call_ok c Hnc) as (h & c1 & -> & Hs & [[-> Hm]|[-> Hm]]); exists c1; (split; [reflexivity|]); split; auto; lia.
Qed.

(* ------------------------------------------------------------------------------------------ *)
(* the loop invariant *)

Section Invariant.
Variable cfg : config.
Variable ch : chain.
Notation chunk := (c_chunk cfg).
Notation wev := (watched_events cfg ch).
Hypothesis Hchunk : 1 <= chunk.
Variable from0 : N.       (* block the download starts from *)
Variable B : N.           (* upper bound of the block numbers the node reports *)
Variable LIM : N.         (* cursor arithmetic stays below LIM < 2^64 *)
Hypothesis HLIM : LIM < M64.

Definition tick_ok (t : tick) : Prop :=
  t_err t = false -> t_tip t <= B /\ (0 < t_tip t -> from0 <= t_tip t + 1).

(* r = number of ticks still to come (each may extend toBlock by one chunk) *)
Record Core (r : nat) (from to last : N) (acc : list dblock) : Prop := {
  i_from_last : from <= last + 1;
  i_from_to : from + chunk <= to;
  i_last_B : last <= B;
  i_to_lim : to + N.of_nat r * chunk <= LIM;
  i_from0 : from0 <= from;
  i_below : forall b, In b acc -> b_num b < from;
  i_sorted : StronglySorted N.lt (map b_num acc);
  i_complete : forall k, from0 <= k < from -> wev k <> [] -> In (k, wev k) (map blk acc);
  i_genuine : forall b, In b acc -> b_events b = wev (b_num b) /\ from0 <= b_num b
}.

Definition Inv (r : nat) (s : dl_state) (acc : list dblock) : Prop :=
  calls_ok (s_calls s) /\
  match s_phase s with
  | PInit => s_from s = from0 /\ acc = []
  | PWait => Core r (s_from s) (s_to s) (s_last s) acc
  | PFin => Core r (s_from s) (s_to s) (s_last s) acc /\ s_from s <= s_last s
  end.

Lemma Core_mono r from to last acc : Core (S r) from to last acc -> Core r from to last acc.
Proof. intros [H1 H2 H3 H4 H5 H6 H7 H8 H9]. constructor; try assumption. lia. Qed.

Lemma loop_top_calls f t l rc c : s_calls (loop_top f t l rc c) = c.
Proof. unfold loop_top. destruct ((l <? f) || (rc && (l <=? t))); reflexivity. Qed.

Lemma loop_top_inv r from to last reach c acc :
  Core r from to last acc -> calls_ok c -> Inv r (loop_top from to last reach c) acc.
Proof.
  intros HC Hc. unfold Inv. rewrite loop_top_calls. split; [exact Hc|]. unfold loop_top.
  destruct (N.ltb_spec last from) as [Hlt|Hge]; cbn [orb].
  - cbn [s_phase s_from s_to s_last]. exact HC.
  - destruct (reach && (last <=? to)); cbn [s_phase s_from s_to s_last]; [exact HC|].
    split; [exact HC|lia].
Qed.

Lemma map_num_mk lf blocks : map b_num (map (mk_block cfg lf) blocks) = map fst blocks.
Proof. rewrite map_map. reflexivity. Qed.
Lemma map_blk_mk lf blocks : map blk (map (mk_block cfg lf) blocks) = blocks.
Proof. rewrite map_map. rewrite <- (map_id blocks) at 2. apply map_ext. intros [k e]. reflexivity. Qed.

(* the loop body after a successful GetLastFinalizedBlock *)
(* the loop body when every numbered RPC call eventually succeeds: new (fromBlock, toBlock, reachTop) and deliveries *)
Definition dl_body0 (from to last fin : N) : (N * N * bool) * list dblock :=
  let lf := N.min last fin in
  let reach := last <=? to in
  let req := if reach then last else to in
  let blocks := get_events_by_block_range cfg ch from req in
  if req <=? lf then
    let extra := match blocks with
                 | [] => [empty_block cfg lf req]
                 | _ => if last_num blocks <? req then [empty_block cfg lf req] else []
                 end in
    let from' := u64 (req + 1) in
    ((from', u64 (from' + chunk), reach), map (mk_block cfg lf) blocks ++ extra)
  else match blocks with
       | [] => if from <=? lf then
                 let from' := u64 (lf + 1) in
                 ((from', u64 (from' + chunk), reach), [empty_block cfg lf lf])
               else ((from, u64 (to + chunk), reach), [])
       | _ => let from' := u64 (last_num blocks + 1) in
              ((from', u64 (from' + chunk), reach), map (mk_block cfg lf) blocks)
       end.

Lemma dl_body_pure from to last fin c : calls_ok c ->
  exists c', le_calls c' c /\
    dl_body cfg ch from to last fin c =
    (loop_top (fst (fst (fst (dl_body0 from to last fin)))) (snd (fst (fst (dl_body0 from to last fin)))) last
              (snd (fst (dl_body0 from to last fin))) c',
     snd (dl_body0 from to last fin)).
Proof.
  intros [Hnc Hm]. unfold dl_body, dl_body0.
  destruct (events_rpc_ok cfg ch from (if last <=? to then last else to) max_retry_hash_mismatch c Hnc Hm)
    as (c1 & n & -> & Hle1).
  assert (Hnc1 : ~ In RCanceled c1) by (intros H; apply Hnc, (proj1 Hle1), H).
  set (blocks := get_events_by_block_range cfg ch from (if last <=? to then last else to)).
  set (req := if last <=? to then last else to).
  set (lf := N.min last fin).
  destruct (req <=? lf).
  - destruct blocks as [|b0 bl] eqn:Eb.
    + destruct (report_empty_ok cfg lf req c1 Hnc1) as (c2 & -> & Hle2).
      exists c2. split; [eapply le_calls_trans; eassumption|reflexivity].
    + destruct (last_num (b0 :: bl) <? req).
      * destruct (report_empty_ok cfg lf req c1 Hnc1) as (c2 & -> & Hle2).
        exists c2. split; [eapply le_calls_trans; eassumption|reflexivity].
      * exists c1. split; [exact Hle1|reflexivity].
  - destruct blocks as [|b0 bl] eqn:Eb.
    + destruct (from <=? lf).
      * destruct (report_empty_ok cfg lf lf c1 Hnc1) as (c2 & -> & Hle2).
        exists c2. split; [eapply le_calls_trans; eassumption|reflexivity].
      * exists c1. split; [exact Hle1|reflexivity].
    + exists c1. split; [exact Hle1|reflexivity].
Qed.

Lemma body_shape r from to last fin acc :
  Core (S r) from to last acc -> from <= last ->
  B + 1 + (N.of_nat r + 1) * chunk <= LIM ->
  exists from' to' reach',
    fst (dl_body0 from to last fin) = (from', to', reach') /\
    Core r from' to' last (acc ++ snd (dl_body0 from to last fin)) /\
    from <= from' /\ (from <= fin -> from < from').
Proof.
  intros [H1 H2 H3 H4 H5 H6 H7 H8 H9] Hfl Hbud. unfold dl_body0.
  set (lf := N.min last fin).
  set (reach := last <=? to).
  set (req := if reach then last else to).
  assert (Hreq : from <= req <= last).
  { unfold req, reach. destruct (N.leb_spec last to); lia. }
  rewrite get_events_ref.
  pose proof (ref_blocks_in cfg ch (range from req)) as Hspec.
  pose proof (ref_blocks_sorted cfg ch (range from req) (range_sorted from req)) as Hsort.
  set (blocks := ref_blocks cfg ch (range from req)) in *.
  assert (HinR : forall k e, In (k, e) blocks -> from <= k <= req /\ e = wev k /\ e <> []).
  { intros k e Hin. apply Hspec in Hin as (Hk & He & Hne). apply range_in in Hk. tauto. }
  assert (Hall_in : forall k, from <= k <= req -> wev k <> [] -> In (k, wev k) blocks).
  { intros k Hk Hne. apply Hspec. rewrite range_in. tauto. }
  assert (Hfst : forall k, In k (map fst blocks) -> from <= k <= req).
  { intros k Hk. apply in_map_iff in Hk as ([k' e] & <- & Hin). apply HinR in Hin. cbn [fst]. tauto. }
  assert (Hlastmax : forall k, In k (map fst blocks) -> k <= last_num blocks).
  { intros k Hk. unfold last_num. rewrite <- (last_map fst blocks (0, [])).
    apply sorted_last_max; assumption. }
  assert (Hlastin : blocks <> [] -> from <= last_num blocks <= req).
  { intros Hne. apply Hfst. unfold last_num. apply in_map. apply last_in. exact Hne. }
  (* sortedness of acc ++ new when new is sorted and starts at or above from *)
  assert (Happ : forall new, StronglySorted N.lt (map b_num new) -> (forall d, In d new -> from <= b_num d) ->
                 StronglySorted N.lt (map b_num (acc ++ new))).
  { intros new Hn Hge. rewrite map_app. apply sorted_app; [exact H7|exact Hn|].
    intros a b Ha Hb. apply in_map_iff in Ha as (da & <- & Hda). apply in_map_iff in Hb as (db & <- & Hdb).
    specialize (H6 _ Hda). specialize (Hge _ Hdb). lia. }
  assert (Hmkin : forall d, In d (map (mk_block cfg lf) blocks) ->
                  from <= b_num d <= req /\ b_events d = wev (b_num d) /\ In (b_num d) (map fst blocks)).
  { intros d Hd. apply in_map_iff in Hd as ([k e] & <- & Hin). cbn [mk_block b_num b_events fst snd].
    pose proof (HinR _ _ Hin) as (Hk & He & _). repeat split; try tauto.
    apply in_map_iff. exists (k, e). split; [reflexivity|exact Hin]. }
  assert (Hbig : B + 1 + chunk <= LIM) by lia.
  assert (Hto1 : to + chunk <= LIM) by lia.
  destruct (N.leb_spec req lf) as [Hsafe|Hunsafe].
  - (* safe zone *)
    set (extra := match blocks with
                  | [] => [empty_block cfg lf req]
                  | _ :: _ => if last_num blocks <? req then [empty_block cfg lf req] else []
                  end).
    assert (Hextra : forall d, In d extra ->
              d = empty_block cfg lf req /\ (forall k, In k (map fst blocks) -> k < req)).
    { intros d Hd. unfold extra in Hd. destruct blocks as [|b0 bl] eqn:Eb.
      - destruct Hd as [<-|[]]. split; [reflexivity|]. intros k [].
      - destruct (N.ltb_spec (last_num (b0 :: bl)) req) as [Hlt|Hge]; [|destruct Hd].
        destruct Hd as [<-|[]]. split; [reflexivity|]. intros k Hk. specialize (Hlastmax k Hk). lia. }
    assert (Hextra_sorted : StronglySorted N.lt (map b_num extra)).
    { unfold extra. destruct blocks; [repeat constructor|].
      match goal with |- context [if ?c then _ else _] => destruct c end; repeat constructor. }
    cbn [fst snd].
    rewrite (u64_small (req + 1)) by lia. rewrite (u64_small (req + 1 + chunk)) by lia.
    eexists _, _, _. split; [reflexivity|]. split; [|lia]. constructor.
    + lia.
    + lia.
    + exact H3.
    + lia.
    + lia.
    + intros d Hd. apply in_app_or in Hd as [Hd|Hd]; [specialize (H6 _ Hd); lia|].
      apply in_app_or in Hd as [Hd|Hd].
      * apply Hmkin in Hd. lia.
      * destruct (Hextra _ Hd) as [-> _]. cbn [empty_block b_num]. lia.
    + apply Happ.
      * rewrite map_app, map_num_mk. apply sorted_app; [exact Hsort|exact Hextra_sorted|].
        intros a b Ha Hb. apply in_map_iff in Hb as (d & <- & Hd). destruct (Hextra _ Hd) as [-> Hlt].
        cbn [empty_block b_num]. auto.
      * intros d Hd. apply in_app_or in Hd as [Hd|Hd].
        -- apply Hmkin in Hd. lia.
        -- destruct (Hextra _ Hd) as [-> _]. cbn [empty_block b_num]. lia.
    + intros k Hk Hne. rewrite !map_app. apply in_or_app. destruct (N.lt_ge_cases k from) as [Hlt|Hge].
      * left. apply H8; [lia|exact Hne].
      * right. apply in_or_app. left. rewrite map_blk_mk. apply Hall_in; [lia|exact Hne].
    + intros d Hd. apply in_app_or in Hd as [Hd|Hd]; [auto|].
      apply in_app_or in Hd as [Hd|Hd].
      * apply Hmkin in Hd. split; [tauto|lia].
      * destruct (Hextra _ Hd) as [-> Hlt]. cbn [empty_block b_num b_events]. split; [|lia].
        destruct (wev req) as [|e0 et] eqn:E; [reflexivity|]. exfalso.
        assert (Hin : In (req, wev req) blocks) by (apply Hall_in; [lia|rewrite E; discriminate]).
        assert (Hlt' : req < req) by (apply Hlt; apply in_map_iff; exists (req, wev req); split; [reflexivity|exact Hin]).
        lia.
  - (* not in the safe zone *)
    destruct blocks as [|b0 bl] eqn:Eb.
    + destruct (N.leb_spec from lf) as [Hge|Hlt]; cbn [fst snd].
      * (* empty block at the last finalized block *)
        assert (Hlf : lf <= last) by (unfold lf; lia).
        rewrite (u64_small (lf + 1)) by lia. rewrite (u64_small (lf + 1 + chunk)) by lia.
        eexists _, _, _. split; [reflexivity|]. split; [|lia]. constructor.
        -- lia.
        -- lia.
        -- exact H3.
        -- lia.
        -- lia.
        -- intros d Hd. apply in_app_or in Hd as [Hd|[<-|[]]]; [specialize (H6 _ Hd); lia|cbn [empty_block b_num]; lia].
        -- apply Happ; [repeat constructor|]. intros d [<-|[]]. cbn [empty_block b_num]. lia.
        -- intros k Hk Hne. rewrite map_app. apply in_or_app. left. apply H8; [|exact Hne].
           destruct (N.lt_ge_cases k from); [lia|]. exfalso.
           destruct (Hall_in k ltac:(lia) Hne).
        -- intros d Hd. apply in_app_or in Hd as [Hd|[<-|[]]]; [auto|]. cbn [empty_block b_num b_events].
           split; [|lia]. destruct (wev lf) as [|e0 et] eqn:E; [reflexivity|]. exfalso.
           assert (Hne : wev lf <> []) by (rewrite E; discriminate).
           destruct (Hall_in lf ltac:(lia) Hne).
      * (* extend toBlock, deliver nothing *)
        rewrite app_nil_r. rewrite (u64_small (to + chunk)) by lia.
        eexists _, _, _. split; [reflexivity|]. split; [|unfold lf in Hlt; lia]. constructor; try assumption; lia.
    + (* events in the unsafe zone *)
      clear Eb. set (bs := b0 :: bl) in *.
      assert (Hne : bs <> []) by discriminate.
      cbn [fst snd]. specialize (Hlastin Hne).
      rewrite (u64_small (last_num bs + 1)) by lia. rewrite (u64_small (last_num bs + 1 + chunk)) by lia.
      eexists _, _, _. split; [reflexivity|]. split; [|lia]. constructor.
      * lia.
      * lia.
      * exact H3.
      * lia.
      * lia.
      * intros d Hd. apply in_app_or in Hd as [Hd|Hd]; [specialize (H6 _ Hd); lia|].
        apply Hmkin in Hd as (_ & _ & Hd). specialize (Hlastmax _ Hd). lia.
      * apply Happ; [rewrite map_num_mk; exact Hsort|].
        intros d Hd. apply Hmkin in Hd. lia.
      * intros k Hk Hnek. rewrite map_app. apply in_or_app. destruct (N.lt_ge_cases k from) as [Hlt|Hge].
        -- left. apply H8; [lia|exact Hnek].
        -- right. rewrite map_blk_mk. apply Hall_in; [lia|exact Hnek].
      * intros d Hd. apply in_app_or in Hd as [Hd|Hd]; [auto|].
        apply Hmkin in Hd. split; [tauto|lia].
Qed.

Lemma body_preserves r from to last fin c acc :
  Core (S r) from to last acc -> from <= last -> calls_ok c ->
  B + 1 + (N.of_nat r + 1) * chunk <= LIM ->
  Inv r (fst (dl_body cfg ch from to last fin c)) (acc ++ snd (dl_body cfg ch from to last fin c)).
Proof.
  intros HC Hfl Hc Hbud. destruct (dl_body_pure from to last fin c Hc) as (c' & Hle & ->). cbn [fst snd].
  destruct (body_shape r from to last fin acc HC Hfl Hbud) as (f' & t' & rc & -> & HC' & _). cbn [fst snd].
  apply loop_top_inv; [exact HC'|eapply calls_ok_le; eassumption].
Qed.

Theorem step_preserves r s t acc :
  Inv (S r) s acc -> tick_ok t -> B + 1 + (N.of_nat r + 1) * chunk <= LIM ->
  Inv r (fst (dl_step cfg ch s t)) (acc ++ snd (dl_step cfg ch s t)).
Proof.
  intros [Hc HI] Hok Hbud. unfold dl_step.
  assert (Hbig : B + 1 + chunk <= LIM) by lia.
  destruct (s_phase s) eqn:Eph.
  - (* PInit: the first WaitForNewBlocks *)
    destruct HI as [Hf ->].
    destruct (t_err t) eqn:Eerr; cbn [orb fst snd].
    { unfold Inv. rewrite Eph. split; [exact Hc|]. split; [exact Hf|reflexivity]. }
    destruct (N.ltb_spec 0 (t_tip t)) as [Hpos|Hz]; cbn [negb fst snd app].
    2:{ unfold Inv. rewrite Eph. split; [exact Hc|]. split; [exact Hf|reflexivity]. }
    destruct (Hok Eerr) as [HB Hf0]. specialize (Hf0 Hpos). rewrite Hf.
    rewrite (u64_small (from0 + chunk)) by lia.
    apply loop_top_inv; [|exact Hc].
    constructor; try lia; try (intros b []); try (intros k Hk; lia); constructor.
  - (* PWait: polling until the tip is above lastBlock *)
    destruct (t_err t) eqn:Eerr; cbn [orb fst snd].
    { rewrite app_nil_r. unfold Inv. rewrite Eph. split; [exact Hc|]. apply Core_mono. exact HI. }
    destruct (N.ltb_spec (s_last s) (t_tip t)) as [Hgt|Hle]; cbn [negb fst snd].
    2:{ rewrite app_nil_r. unfold Inv. rewrite Eph. split; [exact Hc|]. apply Core_mono. exact HI. }
    destruct (Hok Eerr) as [HB _].
    destruct HI as [H1 H2 H3 H4 H5 H6 H7 H8 H9].
    (* the branch `fromBlock-toBlock < chunk` is dead: the uint64 difference is 2^64 - (to-from) >= chunk *)
    assert (Hdead : u64_sub (s_from s) (s_to s) <? chunk = false).
    { apply N.ltb_ge. unfold u64_sub. rewrite N.mod_small by lia. lia. }
    rewrite Hdead, app_nil_r. unfold Inv. cbn [s_phase s_from s_to s_last s_calls].
    split; [exact Hc|]. split; [|lia]. constructor; try assumption; lia.
  - (* PFin *)
    destruct HI as [HC Hfl].
    destruct (t_err t) eqn:Eerr; cbn [fst snd].
    { rewrite app_nil_r. apply loop_top_inv; [apply Core_mono, HC|exact Hc]. }
    apply body_preserves; assumption.
Qed.

Theorem run_preserves_gen ticks : forall r s acc,
  Inv (length ticks + r) s acc -> Forall tick_ok ticks ->
  B + 1 + (N.of_nat (length ticks + r) + 1) * chunk <= LIM ->
  Inv r (fst (dl_run cfg ch s ticks)) (acc ++ snd (dl_run cfg ch s ticks)).
Proof.
  induction ticks as [|t rest IH]; intros r s acc HI Hok Hbud; cbn [dl_run].
  - cbn [fst snd]. rewrite app_nil_r. exact HI.
  - inversion Hok as [|? ? Ht Hrest]; subst. cbn [length Nat.add] in HI, Hbud.
    pose proof (step_preserves (length rest + r) s t acc HI Ht ltac:(lia)) as Hstep.
    destruct (dl_step cfg ch s t) as [s1 out1]. cbn [fst snd] in Hstep.
    specialize (IH r s1 (acc ++ out1) Hstep Hrest ltac:(lia)).
    destruct (dl_run cfg ch s1 rest) as [s2 out2]. cbn [fst snd] in *.
    rewrite app_assoc. exact IH.
Qed.

Theorem run_preserves ticks : forall s acc,
  Inv (length ticks) s acc -> Forall tick_ok ticks ->
  B + 1 + (N.of_nat (length ticks) + 1) * chunk <= LIM ->
  Inv 0 (fst (dl_run cfg ch s ticks)) (acc ++ snd (dl_run cfg ch s ticks)).
Proof.
  intros s acc HI Hok Hbud. apply run_preserves_gen; rewrite ?Nat.add_0_r; assumption.
Qed.

(* ---- progress ---- *)
Lemma loop_top_from f t l rc c : s_from (loop_top f t l rc c) = f.
Proof. unfold loop_top. destruct ((l <? f) || (rc && (l <=? t))); reflexivity. Qed.
Lemma loop_top_last f t l rc c : s_last (loop_top f t l rc c) = l.
Proof. unfold loop_top. destruct ((l <? f) || (rc && (l <=? t))); reflexivity. Qed.

Definition cost (p : phase) : N := match p with PInit => 3 | PWait => 2 | PFin => 1 end.
Definition mu (k : N) (s : dl_state) : N := 2 * (k + 1 - s_from s) + cost (s_phase s).

Lemma loop_top_cost f t l rc c : cost (s_phase (loop_top f t l rc c)) <= 2.
Proof. unfold loop_top. destruct ((l <? f) || (rc && (l <=? t))); cbn [s_phase cost]; lia. Qed.

(* the cursor never moves backwards; a successful poll that shows a higher tip and a finalized block >= k
   strictly decreases the measure while the cursor is not above k *)
Lemma step_progress r s t acc k :
  Inv (S r) s acc -> tick_ok t -> B + 1 + (N.of_nat r + 1) * chunk <= LIM ->
  s_from s <= s_from (fst (dl_step cfg ch s t)) /\
  (t_err t = false -> s_last s < t_tip t -> k <= t_fin t ->
     s_last (fst (dl_step cfg ch s t)) <= t_tip t /\
     (s_from s <= k -> mu k (fst (dl_step cfg ch s t)) < mu k s)).
Proof.
  intros [Hc HI] Hok Hbud. unfold dl_step, mu.
  destruct (s_phase s) eqn:Eph.
  - destruct HI as [Hf ->].
    destruct (t_err t) eqn:Eerr; cbn [orb fst snd].
    { split; [lia|discriminate]. }
    destruct (N.ltb_spec 0 (t_tip t)) as [Hpos|Hz]; cbn [negb fst snd].
    2:{ split; [lia|]. intros _ Hl. lia. }
    rewrite loop_top_from, loop_top_last. split; [lia|]. intros _ _ _. split; [lia|]. intros _.
    pose proof (loop_top_cost (s_from s) (u64 (s_from s + chunk)) (t_tip t) false (s_calls s)). cbn [cost]. lia.
  - destruct (t_err t) eqn:Eerr; cbn [orb fst snd].
    { split; [lia|discriminate]. }
    destruct (N.ltb_spec (s_last s) (t_tip t)) as [Hgt|Hle]; cbn [negb fst snd s_from s_last s_phase].
    2:{ split; [lia|]. intros _ Hl. lia. }
    split; [lia|]. intros _ _ _. split; [lia|]. intros _. cbn [cost]. lia.
  - destruct HI as [HC Hfl].
    destruct (t_err t) eqn:Eerr; cbn [fst snd].
    { rewrite loop_top_from. split; [lia|discriminate]. }
    destruct (dl_body_pure (s_from s) (s_to s) (s_last s) (t_fin t) (s_calls s) Hc) as (c' & _ & ->). cbn [fst snd].
    destruct (body_shape r (s_from s) (s_to s) (s_last s) (t_fin t) acc HC Hfl Hbud)
      as (f' & t' & rc & -> & _ & Hmono & Hstrict). cbn [fst snd].
    rewrite loop_top_from, loop_top_last. split; [exact Hmono|]. intros _ Hl Hk. split; [lia|]. intros Hfk.
    pose proof (loop_top_cost f' t' (s_last s) rc c'). specialize (Hstrict ltac:(lia)). cbn [cost]. lia.
Qed.

Lemma rising_weaken k ticks : forall L L', L' <= L -> rising k L ticks -> rising k L' ticks.
Proof. destruct ticks as [|t rest]; cbn [rising]; [tauto|]. intros L L' HL (H1 & H2 & H3 & H4). repeat split; try assumption. lia. Qed.

Theorem run_progress k ticks : forall s acc,
  Inv (length ticks) s acc -> Forall tick_ok ticks ->
  B + 1 + (N.of_nat (length ticks) + 1) * chunk <= LIM ->
  rising k (s_last s) ticks ->
  (s_from s <= k -> mu k s <= N.of_nat (length ticks)) ->
  k < s_from (fst (dl_run cfg ch s ticks)).
Proof.
  induction ticks as [|t rest IH]; intros s acc HI Hok Hbud Hr Hmu; cbn [dl_run].
  - cbn [fst length] in *. destruct (N.lt_ge_cases k (s_from s)) as [Hlt|Hge]; [exact Hlt|].
    specialize (Hmu Hge). unfold mu in Hmu. destruct (s_phase s); cbn [cost] in Hmu; lia.
  - inversion Hok as [|? ? Ht Hrest]; subst. cbn [length] in HI, Hbud, Hmu. cbn [rising] in Hr.
    destruct Hr as (Herr & Htip & Hfin & Hr).
    pose proof (step_preserves (length rest) s t acc HI Ht ltac:(lia)) as Hstep.
    pose proof (step_progress (length rest) s t acc k HI Ht ltac:(lia)) as (Hmono & Hprog).
    specialize (Hprog Herr Htip Hfin) as (Hlast & Hdec).
    destruct (dl_step cfg ch s t) as [s1 out1]. cbn [fst snd] in *.
    specialize (IH s1 (acc ++ out1) Hstep Hrest ltac:(lia)).
    destruct (dl_run cfg ch s1 rest) as [s2 out2]. cbn [fst snd] in *.
    apply IH.
    + eapply rising_weaken; [exact Hlast|exact Hr].
    + intros Hle. assert (Hle0 : s_from s <= k) by lia. specialize (Hmu Hle0). specialize (Hdec Hle0). lia.
Qed.

(* what the invariant says about any state, whatever the phase *)
Lemma Inv_facts r s acc : Inv r s acc ->
  StronglySorted N.lt (map b_num acc) /\
  (forall b, In b acc -> b_events b = wev (b_num b) /\ from0 <= b_num b < s_from s) /\
  (forall k, from0 <= k < s_from s -> wev k <> [] -> In (k, wev k) (map blk acc)) /\
  from0 <= s_from s /\ (s_phase s <> PInit -> s_from s <= s_last s + 1 /\ s_last s <= B).
Proof.
  unfold Inv. intros [_ H]. revert H. destruct (s_phase s) eqn:E.
  - intros [-> ->]. cbn [map]. split; [constructor|]. split; [intros b []|].
    split; [intros k Hk; lia|]. split; [lia|congruence].
  - intros [H1 H2 H3 H4 H5 H6 H7 H8 H9]. repeat split; try assumption; try (apply H9; assumption);
      try (apply H6; assumption).
  - intros [[H1 H2 H3 H4 H5 H6 H7 H8 H9] _]. repeat split; try assumption; try (apply H9; assumption);
      try (apply H6; assumption).
Qed.
End Invariant.

(* ------------------------------------------------------------------------------------------ *)
(* the property theorems *)

Theorem download_invariant_proof : forall (cfg : config) (ch : chain) (from0 B : N) (calls : list cres) (ticks : list tick),
  1 <= c_chunk cfg -> calls_ok calls ->
  B + 1 + (N.of_nat (length ticks) + 1) * c_chunk cfg < M64 ->
  tips_ok B from0 ticks ->
  let s := fst (dl_run cfg ch (dl_init from0 calls) ticks) in
  let out := snd (dl_run cfg ch (dl_init from0 calls) ticks) in
  StronglySorted N.lt (map b_num out) /\
  (forall b, In b out -> b_events b = watched_events cfg ch (b_num b) /\ from0 <= b_num b < s_from s) /\
  (forall k, from0 <= k < s_from s -> watched_events cfg ch k <> [] ->
             In (k, watched_events cfg ch k) (map blk out)) /\
  from0 <= s_from s /\ (s_phase s <> PInit -> s_from s <= s_last s + 1 /\ s_last s <= B).
Proof.
  intros cfg ch from0 B calls ticks Hchunk Hcalls Hlim Hok s out.
  set (LIM := B + 1 + (N.of_nat (length ticks) + 1) * c_chunk cfg) in *.
  assert (HF : Forall (tick_ok from0 B) ticks).
  { rewrite Forall_forall. intros t Ht Herr. apply Hok; assumption. }
  pose proof (run_preserves cfg ch Hchunk from0 B LIM Hlim ticks (dl_init from0 calls) []) as H.
  cbn [app] in H. apply (Inv_facts cfg ch Hchunk from0 B LIM Hlim 0). apply H.
  - unfold Inv. cbn [dl_init s_phase s_calls s_from]. split; [exact Hcalls|split; reflexivity].
  - exact HF.
  - unfold LIM. lia.
Qed.

(* driver bookkeeping *)
Lemma drv_run_app d bs1 bs2 : drv_run d (bs1 ++ bs2) = drv_run (drv_run d bs1) bs2.
Proof. unfold drv_run. apply fold_left_app. Qed.
Lemma drv_run_stored bs : forall d, d_stored (drv_run d bs) = d_stored d ++ map blk bs.
Proof.
  induction bs as [|b bs IH]; intros d; cbn [drv_run fold_left map]; [rewrite app_nil_r; reflexivity|].
  fold (drv_run (handle_new_block d b) bs). rewrite IH. cbn [handle_new_block d_stored].
  rewrite <- app_assoc. reflexivity.
Qed.
Lemma drv_run_last bs : forall d, d_last (drv_run d bs) = last (map b_num bs) (d_last d).
Proof.
  induction bs as [|b bs IH]; intros d; cbn [drv_run fold_left map]; [reflexivity|].
  fold (drv_run (handle_new_block d b) bs). rewrite IH. cbn [handle_new_block d_last].
  rewrite last_cons. reflexivity.
Qed.

Theorem marker_never_passes_unstored_proof :
  forall (cfg : config) (ch : chain) (lp0 B : N) (calls : list cres) (ticks : list tick),
  1 <= c_chunk cfg -> calls_ok calls ->
  B + 1 + (N.of_nat (length ticks) + 1) * c_chunk cfg < M64 ->
  tips_ok B (sync_from lp0) ticks ->
  let out := snd (dl_run cfg ch (dl_init (sync_from lp0) calls) ticks) in
  forall handled pending, out = handled ++ pending ->
  let d := drv_run (drv_init lp0) handled in
  d_stored d = map blk handled /\
  StronglySorted N.lt (map fst (d_stored d)) /\
  (forall k e, In (k, e) (d_stored d) -> e = watched_events cfg ch k /\ k <= d_last d) /\
  (forall k, lp0 < k <= d_last d -> watched_events cfg ch k <> [] ->
             In (k, watched_events cfg ch k) (d_stored d)).
Proof.
  intros cfg ch lp0 B calls ticks Hchunk Hcalls Hlim Hok out handled pending Hsplit d.
  pose proof (download_invariant_proof cfg ch (sync_from lp0) B calls ticks Hchunk Hcalls Hlim Hok) as H.
  cbn zeta in H. fold out in H. destruct H as (Hsorted & Hgen & Hcomp & Hf0 & _).
  set (s := fst (dl_run cfg ch (dl_init (sync_from lp0) calls) ticks)) in *.
  rewrite Hsplit in Hsorted, Hgen, Hcomp.
  rewrite map_app in Hsorted. apply sorted_app_inv in Hsorted as (Hs1 & Hs2 & Hcross).
  assert (Hst : d_stored d = map blk handled).
  { unfold d. rewrite drv_run_stored. reflexivity. }
  assert (Hlast : d_last d = last (map b_num handled) lp0).
  { unfold d. rewrite drv_run_last. reflexivity. }
  assert (Hfst : map fst (map blk handled) = map b_num handled).
  { rewrite map_map. reflexivity. }
  split; [exact Hst|]. rewrite Hst, Hfst. split; [exact Hs1|]. split.
  - intros k e Hin. apply in_map_iff in Hin as (b & Hb & Hbin). unfold blk in Hb. inversion Hb; subst.
    split.
    + apply Hgen, in_or_app. left. exact Hbin.
    + rewrite Hlast. apply sorted_last_max; [exact Hs1|]. apply in_map. exact Hbin.
  - intros k Hk Hne.
    assert (Hne' : handled <> []).
    { intros ->. cbn [map last] in Hlast. lia. }
    assert (Hlin : In (d_last d) (map b_num handled)).
    { rewrite Hlast. apply last_in. destruct handled; [congruence|discriminate]. }
    apply in_map_iff in Hlin as (bl & Hbl & Hblin).
    assert (Hblt : b_num bl < s_from s) by (apply Hgen, in_or_app; left; exact Hblin).
    assert (Hk0 : sync_from lp0 <= k) by (unfold sync_from; pose proof (u64_le (lp0 + 1)); lia).
    specialize (Hcomp k ltac:(lia) Hne). rewrite map_app in Hcomp.
    apply in_app_or in Hcomp as [Hc|Hc]; [exact Hc|]. exfalso.
    apply in_map_iff in Hc as (b & Hb & Hbin). unfold blk in Hb. inversion Hb as [[Hnum Hev]].
    assert (Hlt : d_last d < b_num b).
    { apply Hcross; [rewrite <- Hbl; apply in_map; exact Hblin|apply in_map; exact Hbin]. }
    lia.
Qed.

(* progress *)
Lemma dl_run_app cfg ch a : forall s b,
  dl_run cfg ch s (a ++ b) =
  (fst (dl_run cfg ch (fst (dl_run cfg ch s a)) b),
   snd (dl_run cfg ch s a) ++ snd (dl_run cfg ch (fst (dl_run cfg ch s a)) b)).
Proof.
  induction a as [|t a IH]; intros s b; cbn [app dl_run].
  - cbn [fst snd app]. destruct (dl_run cfg ch s b); reflexivity.
  - destruct (dl_step cfg ch s t) as [s1 o1]. rewrite IH.
    destruct (dl_run cfg ch s1 a) as [s2 o2]. cbn [fst snd].
    destruct (dl_run cfg ch s2 b) as [s3 o3]. cbn [fst snd]. rewrite app_assoc. reflexivity.
Qed.

Theorem download_progress_proof : forall (cfg : config) (ch : chain) (from0 B : N) (calls : list cres) (pre post : list tick) (k : N),
  1 <= c_chunk cfg -> calls_ok calls ->
  B + 1 + (N.of_nat (length (pre ++ post)) + 1) * c_chunk cfg < M64 ->
  tips_ok B from0 (pre ++ post) ->
  let s := fst (dl_run cfg ch (dl_init from0 calls) pre) in
  rising k (s_last s) post ->
  2 * (k + 1 - s_from s) + 3 <= N.of_nat (length post) ->
  k < s_from (fst (dl_run cfg ch (dl_init from0 calls) (pre ++ post))).
Proof.
  intros cfg ch from0 B calls pre post k Hchunk Hcalls Hlim Hok s Hr Hlen.
  set (LIM := B + 1 + (N.of_nat (length (pre ++ post)) + 1) * c_chunk cfg) in *.
  assert (HF : Forall (tick_ok from0 B) (pre ++ post)).
  { rewrite Forall_forall. intros t Ht Herr. apply Hok; assumption. }
  apply Forall_app in HF as [HF1 HF2].
  assert (Hbud : B + 1 + (N.of_nat (length pre + length post) + 1) * c_chunk cfg <= LIM).
  { unfold LIM. rewrite app_length. lia. }
  pose proof (run_preserves_gen cfg ch Hchunk from0 B LIM Hlim pre (length post) (dl_init from0 calls) []) as H.
  cbn [app] in H. specialize (H ltac:(unfold Inv; cbn [dl_init s_phase s_calls s_from]; split; [exact Hcalls|split; reflexivity]) HF1 Hbud).
  fold s in H.
  rewrite dl_run_app. cbn [fst]. fold s.
  apply (run_progress cfg ch Hchunk from0 B LIM Hlim k post s _ H HF2).
  - lia.
  - exact Hr.
  - intros _. unfold mu. destruct (s_phase s); cbn [cost]; lia.
Qed.
