(* C10 lemmas: injectivity of every preimage builder of Model/Commitment.v in its covered fields, the commitments
   depend on nothing but the covered fields, wire / JSON projections preserve the covered fields, the sign step. *)
From Coq Require Import NArith List Lia Bool ZArith.
From Coq Require Decimal DecimalN DecimalPos.
From Coq Require Import ZifyN ZifyNat ZifyBool.
From Verif Require Import Base.Bytes Model.GlobalIndex Proofs.GlobalIndexProofs Model.Commitment.
Import ListNotations.
Open Scope N_scope.

(* ------------------------------------------------------------------------------------------------ *)
(* 0. the shift-based encoders are Base.Bytes.le / be                                                *)
(* ------------------------------------------------------------------------------------------------ *)
Lemma fle_le w v : fle w v = le w v.
Proof.
  revert v; induction w as [|w IH]; intros v; cbn [fle le]; [reflexivity|].
  change 255 with (N.ones 8). rewrite N.land_ones, N.shiftr_div_pow2. change (2^8) with 256.
  rewrite IH. reflexivity.
Qed.
Lemma fbe_be w v : fbe w v = be w v.
Proof. unfold fbe, rev'. rewrite <- rev_alt, fle_le. apply rev_le. Qed.
Lemma fbe_length w v : length (fbe w v) = w.
Proof. rewrite fbe_be. apply be_length. Qed.
Lemma fle_length w v : length (fle w v) = w.
Proof. rewrite fle_le. apply le_length. Qed.
Lemma fbe_ok w v : bytes_ok (fbe w v).
Proof. rewrite fbe_be. apply be_ok. Qed.
Lemma of_be_fbe w v : v < 256 ^ N.of_nat w -> of_be (fbe w v) = v.
Proof. rewrite fbe_be. apply of_be_be. Qed.
Lemma fbe_inj w a b : a < 256 ^ N.of_nat w -> b < 256 ^ N.of_nat w -> fbe w a = fbe w b -> a = b.
Proof. rewrite !fbe_be. apply be_inj. Qed.
Lemma fle_inj w a b : a < 256 ^ N.of_nat w -> b < 256 ^ N.of_nat w -> fle w a = fle w b -> a = b.
Proof.
  intros Ha Hb E. rewrite !fle_le in E. apply (f_equal (@rev _)) in E. rewrite !rev_le in E.
  eapply be_inj; eauto.
Qed.

Lemma p4 : 256 ^ N.of_nat 4 = 2^32. Proof. reflexivity. Qed.
Lemma p8 : 256 ^ N.of_nat 8 = 2^64. Proof. reflexivity. Qed.
Lemma p20 : 256 ^ N.of_nat 20 = 2^160. Proof. reflexivity. Qed.
Lemma p32 : 256 ^ N.of_nat 32 = 2^256. Proof. reflexivity. Qed.

(* ------------------------------------------------------------------------------------------------ *)
(* 1. list lemmas                                                                                    *)
(* ------------------------------------------------------------------------------------------------ *)
Lemma app_inj_len {A} (a a' b b' : list A) : length a = length a' -> a ++ b = a' ++ b' -> a = a' /\ b = b'.
Proof.
  revert a'; induction a as [|x a IH]; intros [|y a'] Hl E; cbn in *; try discriminate.
  - split; [reflexivity|exact E].
  - injection E as -> E. injection Hl as Hl. destruct (IH _ Hl E) as [-> ->]. split; reflexivity.
Qed.

Lemma cons_inj {A} (x y : A) a b : x :: a = y :: b -> x = y /\ a = b.
Proof. intros E. inversion E. split; reflexivity. Qed.

Lemma concat_inj_fixed (k : nat) (l l' : list bytes) :
  k <> 0%nat -> Forall (fun x => length x = k) l -> Forall (fun x => length x = k) l' -> concat l = concat l' -> l = l'.
Proof.
  intros Hk. revert l'. induction l as [|x l IH]; intros [|y l'] Hl Hl' E; cbn [concat] in E.
  - reflexivity.
  - pose proof (Forall_inv Hl') as Hy. cbv beta in Hy. destruct y; [cbn in Hy; congruence|discriminate].
  - pose proof (Forall_inv Hl) as Hx. cbv beta in Hx. destruct x; [cbn in Hx; congruence|discriminate].
  - pose proof (Forall_inv Hl) as Hx. pose proof (Forall_inv Hl') as Hy. cbv beta in Hx, Hy.
    apply app_inj_len in E; [|congruence]. destruct E as [-> E]. f_equal.
    apply IH; [eapply Forall_inv_tail; eauto..|exact E].
Qed.

(* two lists whose images under h agree agree under cov, when h-equality forces cov-equality on good elements *)
Lemma map_inj_on {A B C} (h : A -> B) (cov : A -> C) (ok : A -> Prop) :
  (forall a1 a2, ok a1 -> ok a2 -> h a1 = h a2 -> cov a1 = cov a2) ->
  forall l1 l2, Forall ok l1 -> Forall ok l2 -> map h l1 = map h l2 -> map cov l1 = map cov l2.
Proof.
  intros Hinj. induction l1 as [|x l1 IH]; intros [|y l2] H1 H2 E; cbn in *; try discriminate; [reflexivity|].
  injection E as E0 E. inversion H1; inversion H2; subst. f_equal; [apply Hinj; assumption|apply IH; assumption].
Qed.

Lemma map_fbe32_inj l l' : Forall (fun s => s < 2^256) l -> Forall (fun s => s < 2^256) l' ->
  map (fbe 32) l = map (fbe 32) l' -> l = l'.
Proof.
  intros H1 H2 E. rewrite <- (map_id l), <- (map_id l').
  eapply (map_inj_on (fbe 32) (fun x => x) (fun s => s < 2^256)); eauto.
  intros a b Ha Hb. apply fbe_inj; rewrite p32; assumption.
Qed.

Lemma Forall_map_len {A} (f : A -> bytes) k l : (forall a, length (f a) = k) -> Forall (fun x => length x = k) (map f l).
Proof. intros Hf. apply Forall_forall. intros x Hx. apply in_map_iff in Hx as [a [<- _]]. apply Hf. Qed.

(* ------------------------------------------------------------------------------------------------ *)
(* 2. injectivity of the preimage builders                                                           *)
(* ------------------------------------------------------------------------------------------------ *)
Ltac peel E :=
  let E1 := fresh "E" in
  apply app_inj_len in E; [destruct E as [E1 E]|try (rewrite ?fbe_length, ?fle_length; reflexivity)].

Ltac inn0 := cbn [claim_preimages imported_preimages cert_preimages pp_preimages fep_preimages In app].
Ltac inn := inn0; auto 12.

Section Injectivity.


Variable hash : bytes -> N.
Notation H := (H hash).

Lemma H_length p : length (H p) = 32%nat.
Proof. apply fbe_length. Qed.

(* the set of preimages on which the hash is assumed collision-free *)
Variable P : bytes -> Prop.
Hypothesis collision_free : forall a b, P a -> P b -> H a = H b -> a = b.

(* ---- bridge exit ---- *)
Lemma exit_preimage_inj b1 b2 : wf_exit b1 -> wf_exit b2 ->
  exit_preimage hash b1 = exit_preimage hash b2 -> covered_exit hash b1 = covered_exit hash b2.
Proof.
  intros (L1 & ON1 & OA1 & DN1 & DA1 & AM1 & _) (L2 & ON2 & OA2 & DN2 & DA2 & AM2 & _) E.
  unfold exit_preimage in E. cbn [app] in E. apply cons_inj in E. destruct E as [EL E].
  peel E. peel E. peel E. peel E. peel E.
  unfold covered_exit. rewrite EL.
  apply fbe_inj in E0; [|rewrite p4; assumption..].
  apply fbe_inj in E1; [|rewrite p20; assumption..].
  apply fbe_inj in E2; [|rewrite p4; assumption..].
  apply fbe_inj in E3; [|rewrite p20; assumption..].
  apply fbe_inj in E4; [|rewrite p32; assumption..].
  congruence.
Qed.
Lemma exit_hash_inj b1 b2 : wf_exit b1 -> wf_exit b2 -> P (exit_preimage hash b1) -> P (exit_preimage hash b2) ->
  exit_hash hash b1 = exit_hash hash b2 -> covered_exit hash b1 = covered_exit hash b2.
Proof. intros W1 W2 P1 P2 E. apply exit_preimage_inj; auto. Qed.

(* ---- merkle proof ---- *)
Lemma mproof_preimage_inj m1 m2 : wf_mproof m1 -> wf_mproof m2 ->
  mproof_preimage m1 = mproof_preimage m2 -> covered_mproof m1 = covered_mproof m2.
Proof.
  intros (R1 & Ln1 & S1) (R2 & Ln2 & S2) E. unfold mproof_preimage in E. peel E.
  apply fbe_inj in E0; [|rewrite p32; assumption..].
  apply concat_inj_fixed with (k := 32%nat) in E; [|lia|apply Forall_map_len; intros; apply fbe_length..].
  apply map_fbe32_inj in E; [|assumption..]. unfold covered_mproof. congruence.
Qed.
Lemma mproof_hash_inj m1 m2 : wf_mproof m1 -> wf_mproof m2 -> P (mproof_preimage m1) -> P (mproof_preimage m2) ->
  mproof_hash hash m1 = mproof_hash hash m2 -> covered_mproof m1 = covered_mproof m2.
Proof. intros W1 W2 P1 P2 E. apply mproof_preimage_inj; auto. Qed.

(* ---- L1 info tree leaf ---- *)
Lemma l1leaf_preimage_inj l1 l2 : wf_l1leaf l1 -> wf_l1leaf l2 ->
  l1leaf_preimage l1 = l1leaf_preimage l2 -> covered_l1leaf l1 = covered_l1leaf l2.
Proof.
  intros (_ & _ & _ & G1 & B1 & T1) (_ & _ & _ & G2 & B2 & T2) E. unfold l1leaf_preimage in E. peel E. peel E.
  apply fbe_inj in E0; [|rewrite p32; assumption..].
  apply fbe_inj in E1; [|rewrite p32; assumption..].
  apply fbe_inj in E; [|rewrite p8; assumption..].
  unfold covered_l1leaf. congruence.
Qed.
Lemma l1leaf_hash_inj l1 l2 : wf_l1leaf l1 -> wf_l1leaf l2 -> P (l1leaf_preimage l1) -> P (l1leaf_preimage l2) ->
  l1leaf_hash hash l1 = l1leaf_hash hash l2 -> covered_l1leaf l1 = covered_l1leaf l2.
Proof. intros W1 W2 P1 P2 E. apply l1leaf_preimage_inj; auto. Qed.

(* ---- claim data: the two kinds have preimages of different lengths (96 / 128 bytes) ---- *)
Lemma claim_preimage_length cl :
  length (claim_preimage hash cl) = match cl with ClaimMainnet _ _ _ => 96%nat | ClaimRollup _ _ _ _ => 128%nat end.
Proof. destruct cl; cbn [claim_preimage]; rewrite !app_length; unfold mproof_hash, l1leaf_hash; rewrite !H_length; reflexivity. Qed.

Lemma claim_hash_inj c1 c2 : wf_claim c1 -> wf_claim c2 ->
  (forall p, In p (claim_preimages hash c1) -> P p) -> (forall p, In p (claim_preimages hash c2) -> P p) ->
  claim_hash hash c1 = claim_hash hash c2 -> covered_claim c1 = covered_claim c2.
Proof.
  intros W1 W2 P1 P2 E.
  assert (Epre : claim_preimage hash c1 = claim_preimage hash c2).
  { apply collision_free; [apply P1|apply P2|exact E]; destruct c1, c2; inn. }
  pose proof (f_equal (@length _) Epre) as Hlen. rewrite !claim_preimage_length in Hlen.
  destruct c1 as [a1 b1 l1|a1 b1 d1 l1], c2 as [a2 b2 l2|a2 b2 d2 l2]; try discriminate; cbn [claim_preimage] in Epre.
  - destruct W1 as (Wa1 & Wb1 & Wl1), W2 as (Wa2 & Wb2 & Wl2).
    peel Epre.
    peel Epre.
    apply mproof_hash_inj in E0; [|auto|auto|apply P1; inn|apply P2; inn].
    apply mproof_hash_inj in E1; [|auto|auto|apply P1; inn|apply P2; inn].
    apply l1leaf_hash_inj in Epre; [|auto|auto|apply P1; inn|apply P2; inn].
    cbn [covered_claim]. congruence.
  - destruct W1 as (Wa1 & Wb1 & Wd1 & Wl1), W2 as (Wa2 & Wb2 & Wd2 & Wl2).
    peel Epre.
    peel Epre.
    peel Epre.
    apply mproof_hash_inj in E0; [|auto|auto|apply P1; inn|apply P2; inn].
    apply mproof_hash_inj in E1; [|auto|auto|apply P1; inn|apply P2; inn].
    apply mproof_hash_inj in E2; [|auto|auto|apply P1; inn|apply P2; inn].
    apply l1leaf_hash_inj in Epre; [|auto|auto|apply P1; inn|apply P2; inn].
    cbn [covered_claim]. congruence.
Qed.

(* ---- global index ---- *)
Lemma gi_value_lt g : wf_gi g -> gi_value g < 2^256.
Proof.
  intros [Hr Hl]. unfold gi_value, two64, two32.
  change (2^256) with (18446744073709551616 * 4294967296 * 2^160). change (2^32) with 4294967296 in *.
  destruct (gi_mainnet g); nia.
Qed.
Lemma gi_preimage_inj g1 g2 : wf_gi g1 -> wf_gi g2 -> gi_preimage g1 = gi_preimage g2 -> gi_value g1 = gi_value g2.
Proof. intros W1 W2 E. unfold gi_preimage in E. apply fle_inj in E; [exact E|rewrite p32; apply gi_value_lt; assumption..]. Qed.
Lemma gi_hash_inj g1 g2 : wf_gi g1 -> wf_gi g2 -> P (gi_preimage g1) -> P (gi_preimage g2) ->
  gi_hash hash g1 = gi_hash hash g2 -> gi_value g1 = gi_value g2.
Proof. intros W1 W2 P1 P2 E. apply gi_preimage_inj; auto. Qed.

(* ---- imported bridge exit ---- *)
Lemma imported_hash_inj i1 i2 : wf_imported i1 -> wf_imported i2 ->
  (forall p, In p (imported_preimages hash i1) -> P p) -> (forall p, In p (imported_preimages hash i2) -> P p) ->
  imported_hash hash i1 = imported_hash hash i2 -> covered_imported hash i1 = covered_imported hash i2.
Proof.
  intros (We1 & Wc1 & Wg1) (We2 & Wc2 & Wg2) P1 P2 E.
  assert (Epre : imported_preimage hash i1 = imported_preimage hash i2).
  { apply collision_free; [apply P1|apply P2|exact E]; inn. }
  unfold imported_preimage in Epre.
  peel Epre.
  peel Epre.
  apply exit_hash_inj in E0; [|auto|auto|apply P1; inn|apply P2; inn].
  apply claim_hash_inj in E1; [|auto|auto|intros p Hp; apply P1; inn|intros p Hp; apply P2; inn].
  apply gi_hash_inj in Epre; [|auto|auto|apply P1; inn|apply P2; inn].
  unfold covered_imported. congruence.
Qed.

(* ---- Certificate.Hash ---- *)
Lemma cert_id_inj c1 c2 : wf_cert c1 -> wf_cert c2 ->
  (forall p, In p (cert_preimages hash c1) -> P p) -> (forall p, In p (cert_preimages hash c2) -> P p) ->
  cert_hash hash c1 = cert_hash hash c2 -> covered_id hash c1 = covered_id hash c2.
Proof.
  intros (N1 & H1 & PL1 & NL1 & WE1 & WI1 & _) (N2 & H2 & PL2 & NL2 & WE2 & WI2 & _) P1 P2 E.
  assert (Epre : cert_preimage hash c1 = cert_preimage hash c2).
  { apply collision_free; [apply P1|apply P2|exact E]; inn. }
  unfold cert_preimage in Epre. peel Epre. peel Epre. peel Epre. peel Epre.
  peel Epre.
  apply fbe_inj in E0; [|rewrite p4; assumption..].
  apply fbe_inj in E1; [|rewrite p8; assumption..].
  apply fbe_inj in E2; [|rewrite p32; assumption..].
  apply fbe_inj in E3; [|rewrite p32; assumption..].
  (* exits part *)
  apply collision_free in E4; [|apply P1; inn|apply P2; inn].
  unfold exits_part_preimage in E4.
  apply concat_inj_fixed with (k := 32%nat) in E4; [|lia|apply Forall_map_len; intros; apply H_length..].
  apply (map_inj_on (exit_hash hash) (covered_exit hash) (fun b => wf_exit b /\ P (exit_preimage hash b))) in E4.
  2:{ intros a1 a2 [Wa1 Pa1] [Wa2 Pa2]. apply exit_hash_inj; assumption. }
  2:{ apply Forall_forall. intros b Hb. split; [eapply Forall_forall in WE1; eauto|].
      apply P1. inn0. right. right. right. apply in_or_app. left. apply in_map. exact Hb. }
  2:{ apply Forall_forall. intros b Hb. split; [eapply Forall_forall in WE2; eauto|].
      apply P2. inn0. right. right. right. apply in_or_app. left. apply in_map. exact Hb. }
  (* imported part *)
  apply collision_free in Epre; [|apply P1; inn|apply P2; inn].
  unfold imported_part_preimage in Epre.
  apply concat_inj_fixed with (k := 32%nat) in Epre; [|lia|apply Forall_map_len; intros; apply H_length..].
  apply (map_inj_on (imported_hash hash) (covered_imported hash)
           (fun i => wf_imported i /\ forall p, In p (imported_preimages hash i) -> P p)) in Epre.
  2:{ intros a1 a2 [Wa1 Pa1] [Wa2 Pa2]. apply imported_hash_inj; assumption. }
  2:{ apply Forall_forall. intros i Hi. split; [eapply Forall_forall in WI1; eauto|].
      intros p Hp. apply P1. inn0. right. right. right. apply in_or_app. right. apply in_flat_map. exists i. split; assumption. }
  2:{ apply Forall_forall. intros i Hi. split; [eapply Forall_forall in WI2; eauto|].
      intros p Hp. apply P2. inn0. right. right. right. apply in_or_app. right. apply in_flat_map. exists i. split; assumption. }
  unfold covered_id. congruence.
Qed.

(* ---- PPHashToSign ---- *)
Lemma pp_commitment_inj c1 c2 : wf_cert c1 -> wf_cert c2 ->
  (forall p, In p (pp_preimages hash c1) -> P p) -> (forall p, In p (pp_preimages hash c2) -> P p) ->
  pp_hash_to_sign hash c1 = pp_hash_to_sign hash c2 -> covered_pp c1 = covered_pp c2.
Proof.
  intros (_ & _ & _ & NL1 & _ & WI1 & _) (_ & _ & _ & NL2 & _ & WI2 & _) P1 P2 E.
  assert (Epre : pp_preimage hash c1 = pp_preimage hash c2).
  { apply collision_free; [apply P1|apply P2|exact E]; inn. }
  unfold pp_preimage in Epre. peel Epre.
  apply fbe_inj in E0; [|rewrite p32; assumption..].
  apply collision_free in Epre; [|apply P1; inn|apply P2; inn].
  unfold pp_gi_part_preimage in Epre.
  apply concat_inj_fixed with (k := 32%nat) in Epre; [|lia|apply Forall_map_len; intros; apply H_length..].
  apply (map_inj_on (fun i => gi_hash hash (ie_gi i)) (fun i => gi_value (ie_gi i))
           (fun i => wf_gi (ie_gi i) /\ P (gi_preimage (ie_gi i)))) in Epre.
  2:{ intros a1 a2 [Wa1 Pa1] [Wa2 Pa2]. apply gi_hash_inj; assumption. }
  2:{ apply Forall_forall. intros i Hi. split; [eapply Forall_forall in WI1; eauto; apply WI1|].
      apply P1. inn0. right. right. apply (in_map (fun i => gi_preimage (ie_gi i))). exact Hi. }
  2:{ apply Forall_forall. intros i Hi. split; [eapply Forall_forall in WI2; eauto; apply WI2|].
      apply P2. inn0. right. right. apply (in_map (fun i => gi_preimage (ie_gi i))). exact Hi. }
  unfold covered_pp. congruence.
Qed.

(* ---- FEPHashToSign ---- *)
Lemma fep_params_length a : length (fep_params hash a) = 32%nat.
Proof. destruct a; cbn [fep_params]; unfold empty_bytes_hash, Commitment.H; apply fbe_length. Qed.
Lemma fep_chunk_length i : length (fep_chunk hash i) = 64%nat.
Proof. unfold fep_chunk, gi_preimage, exit_hash. rewrite app_length, fle_length, H_length. reflexivity. Qed.

Lemma fep_commitment_inj c1 c2 : wf_cert c1 -> wf_cert c2 ->
  (forall p, In p (fep_preimages hash c1) -> P p) -> (forall p, In p (fep_preimages hash c2) -> P p) ->
  fep_hash_to_sign hash c1 = fep_hash_to_sign hash c2 -> covered_fep hash c1 = covered_fep hash c2.
Proof.
  intros (_ & H1 & _ & NL1 & _ & WI1 & _) (_ & H2 & _ & NL2 & _ & WI2 & _) P1 P2 E.
  assert (Epre : fep_preimage hash c1 = fep_preimage hash c2).
  { apply collision_free; [apply P1|apply P2|exact E]; inn. }
  unfold fep_preimage in Epre. peel Epre.
  peel Epre.
  peel Epre.
  apply fbe_inj in E0; [|rewrite p32; assumption..].
  apply fle_inj in E2; [|rewrite p8; assumption..].
  apply collision_free in E1; [|apply P1; inn|apply P2; inn].
  unfold fep_imported_part_preimage in E1.
  apply concat_inj_fixed with (k := 64%nat) in E1; [|lia|apply Forall_map_len; intros; apply fep_chunk_length..].
  apply (map_inj_on (fep_chunk hash) (fun i => (gi_value (ie_gi i), covered_exit hash (ie_exit i)))
           (fun i => wf_imported i /\ P (exit_preimage hash (ie_exit i)))) in E1.
  2:{ intros a1 a2 [(We1 & _ & Wg1) Pa1] [(We2 & _ & Wg2) Pa2] Ec. unfold fep_chunk in Ec.
      peel Ec.
      apply gi_preimage_inj in E3; [|assumption..].
      apply exit_hash_inj in Ec; [|assumption..]. congruence. }
  2:{ apply Forall_forall. intros i Hi. split; [eapply Forall_forall in WI1; eauto|].
      apply P1. inn0. right. right. apply (in_map (fun i => exit_preimage hash (ie_exit i))). exact Hi. }
  2:{ apply Forall_forall. intros i Hi. split; [eapply Forall_forall in WI2; eauto|].
      apply P2. inn0. right. right. apply (in_map (fun i => exit_preimage hash (ie_exit i))). exact Hi. }
  unfold covered_fep. congruence.
Qed.

End Injectivity.

(* the same statements with the hypothesis as a finite, checkable condition on the hash:
   no two distinct preimages among those hashed for the two certificates have the same digest *)
Definition collision_free_on (hash : bytes -> N) (S : list bytes) : Prop :=
  forall a b, In a S -> In b S -> H hash a = H hash b -> a = b.

Theorem cert_id_injective hash c1 c2 :
  collision_free_on hash (cert_preimages hash c1 ++ cert_preimages hash c2) -> wf_cert c1 -> wf_cert c2 ->
  cert_hash hash c1 = cert_hash hash c2 -> covered_id hash c1 = covered_id hash c2.
Proof.
  intros CF W1 W2. apply (cert_id_inj hash (fun p => In p (cert_preimages hash c1 ++ cert_preimages hash c2))); auto.
  - intros p Hp. apply in_or_app. left. exact Hp.
  - intros p Hp. apply in_or_app. right. exact Hp.
Qed.
Theorem pp_commitment_injective hash c1 c2 :
  collision_free_on hash (pp_preimages hash c1 ++ pp_preimages hash c2) -> wf_cert c1 -> wf_cert c2 ->
  pp_hash_to_sign hash c1 = pp_hash_to_sign hash c2 -> covered_pp c1 = covered_pp c2.
Proof.
  intros CF W1 W2. apply (pp_commitment_inj hash (fun p => In p (pp_preimages hash c1 ++ pp_preimages hash c2))); auto.
  - intros p Hp. apply in_or_app. left. exact Hp.
  - intros p Hp. apply in_or_app. right. exact Hp.
Qed.
Theorem fep_commitment_injective hash c1 c2 :
  collision_free_on hash (fep_preimages hash c1 ++ fep_preimages hash c2) -> wf_cert c1 -> wf_cert c2 ->
  fep_hash_to_sign hash c1 = fep_hash_to_sign hash c2 -> covered_fep hash c1 = covered_fep hash c2.
Proof.
  intros CF W1 W2. apply (fep_commitment_inj hash (fun p => In p (fep_preimages hash c1 ++ fep_preimages hash c2))); auto.
  - intros p Hp. apply in_or_app. left. exact Hp.
  - intros p Hp. apply in_or_app. right. exact Hp.
Qed.

(* executable check of collision_free_on, for the non-vacuity examples (digests computed once per preimage) *)
Definition cf_pair_b (a b : bytes * bytes) : bool := bytes_eqb (fst a) (fst b) || negb (bytes_eqb (snd a) (snd b)).
Definition cf_list_b (hash : bytes -> N) (S : list bytes) : bool :=
  let ds := map (fun p => (p, H hash p)) S in forallb (fun a => forallb (cf_pair_b a) ds) ds.
Lemma cf_list_b_sound hash S : cf_list_b hash S = true -> collision_free_on hash S.
Proof.
  intros Hb a b Ha Hb' E. unfold cf_list_b in Hb. rewrite forallb_forall in Hb.
  specialize (Hb (a, H hash a) (in_map (fun p => (p, H hash p)) S a Ha)).
  rewrite forallb_forall in Hb. specialize (Hb (b, H hash b) (in_map (fun p => (p, H hash p)) S b Hb')).
  unfold cf_pair_b in Hb. cbn [fst snd] in Hb.
  apply orb_true_iff in Hb as [Hab|Hn]; [apply bytes_eqb_eq; exact Hab|].
  rewrite E in Hn. assert (Hr : bytes_eqb (H hash b) (H hash b) = true) by (apply bytes_eqb_eq; reflexivity).
  rewrite Hr in Hn. discriminate.
Qed.

(* ------------------------------------------------------------------------------------------------ *)
(* 3. the commitments depend on NOTHING BUT the covered fields (no hypothesis on the hash)            *)
(* ------------------------------------------------------------------------------------------------ *)
Lemma map_factor {A B C} (h : A -> B) (cov : A -> C) :
  (forall a b, cov a = cov b -> h a = h b) -> forall l1 l2, map cov l1 = map cov l2 -> map h l1 = map h l2.
Proof.
  intros Hf. induction l1 as [|x l1 IH]; intros [|y l2] E; cbn in *; try discriminate; [reflexivity|].
  apply cons_inj in E as [E0 E]. f_equal; [apply Hf; exact E0|apply IH; exact E].
Qed.
Lemma pair_inj {A B} (a a' : A) (b b' : B) : (a, b) = (a', b') -> a = a' /\ b = b'.
Proof. intros E. inversion E. split; reflexivity. Qed.

Section OnlyCovered.
Variable hash : bytes -> N.

Definition exit_pre_of (t : covered_exit_t) : bytes :=
  let '(lt, onet, oa, dn, da, am, md) := t in [lt] ++ fbe 4 onet ++ fbe 20 oa ++ fbe 4 dn ++ fbe 20 da ++ fbe 32 am ++ md.
Lemma exit_preimage_cov b : exit_preimage hash b = exit_pre_of (covered_exit hash b).
Proof. reflexivity. Qed.
Lemma exit_hash_only_covered b1 b2 : covered_exit hash b1 = covered_exit hash b2 -> exit_hash hash b1 = exit_hash hash b2.
Proof. intros E. unfold exit_hash. rewrite !exit_preimage_cov, E. reflexivity. Qed.

Lemma mproof_only_covered m1 m2 : covered_mproof m1 = covered_mproof m2 -> m1 = m2.
Proof. destruct m1, m2. unfold covered_mproof. simpl. intros E. apply pair_inj in E as [-> ->]. reflexivity. Qed.

Definition l1leaf_pre_of (t : N * N * N) : bytes := let '(g, b, ts) := t in fbe 32 g ++ fbe 32 b ++ fbe 8 ts.
Lemma l1leaf_hash_only_covered l1 l2 : covered_l1leaf l1 = covered_l1leaf l2 -> l1leaf_hash hash l1 = l1leaf_hash hash l2.
Proof.
  intros E. unfold l1leaf_hash. change (l1leaf_preimage l1) with (l1leaf_pre_of (covered_l1leaf l1)).
  change (l1leaf_preimage l2) with (l1leaf_pre_of (covered_l1leaf l2)). rewrite E. reflexivity.
Qed.

Lemma claim_hash_only_covered c1 c2 : covered_claim c1 = covered_claim c2 -> claim_hash hash c1 = claim_hash hash c2.
Proof.
  destruct c1 as [a1 b1 l1|a1 b1 d1 l1], c2 as [a2 b2 l2|a2 b2 d2 l2]; cbn [covered_claim]; intros E;
    apply pair_inj in E as [E El]; apply pair_inj in E as [Ek E]; try discriminate.
  - apply cons_inj in E as [Ea E]. apply cons_inj in E as [Eb _].
    apply mproof_only_covered in Ea, Eb. subst. unfold claim_hash. cbn [claim_preimage].
    rewrite (l1leaf_hash_only_covered _ _ El). reflexivity.
  - apply cons_inj in E as [Ea E]. apply cons_inj in E as [Eb E]. apply cons_inj in E as [Ed _].
    apply mproof_only_covered in Ea, Eb, Ed. subst. unfold claim_hash. cbn [claim_preimage].
    rewrite (l1leaf_hash_only_covered _ _ El). reflexivity.
Qed.

Lemma gi_hash_only_covered g1 g2 : gi_value g1 = gi_value g2 -> gi_hash hash g1 = gi_hash hash g2.
Proof. intros E. unfold gi_hash, gi_preimage. rewrite E. reflexivity. Qed.

Lemma imported_hash_only_covered i1 i2 :
  covered_imported hash i1 = covered_imported hash i2 -> imported_hash hash i1 = imported_hash hash i2.
Proof.
  unfold covered_imported. intros E. apply pair_inj in E as [E Eg]. apply pair_inj in E as [Ee Ec].
  unfold imported_hash, imported_preimage.
  rewrite (exit_hash_only_covered _ _ Ee), (claim_hash_only_covered _ _ Ec), (gi_hash_only_covered _ _ Eg). reflexivity.
Qed.

Theorem cert_hash_only_covered c1 c2 : covered_id hash c1 = covered_id hash c2 -> cert_hash hash c1 = cert_hash hash c2.
Proof.
  unfold covered_id. intros E.
  apply pair_inj in E as [E Ei]. apply pair_inj in E as [E Ee]. apply pair_inj in E as [E En].
  apply pair_inj in E as [E Ep]. apply pair_inj in E as [Enet Eh].
  unfold cert_hash, cert_preimage, exits_part_preimage, imported_part_preimage.
  rewrite Enet, Eh, Ep, En.
  rewrite (map_factor (exit_hash hash) (covered_exit hash) exit_hash_only_covered _ _ Ee).
  rewrite (map_factor (imported_hash hash) (covered_imported hash) imported_hash_only_covered _ _ Ei).
  reflexivity.
Qed.
Theorem pp_hash_only_covered c1 c2 : covered_pp c1 = covered_pp c2 -> pp_hash_to_sign hash c1 = pp_hash_to_sign hash c2.
Proof.
  unfold covered_pp. intros E. apply pair_inj in E as [En Eg].
  unfold pp_hash_to_sign, pp_preimage, pp_gi_part_preimage. rewrite En.
  rewrite (map_factor (fun i => gi_hash hash (ie_gi i)) (fun i => gi_value (ie_gi i))
             (fun a b => gi_hash_only_covered (ie_gi a) (ie_gi b)) _ _ Eg).
  reflexivity.
Qed.
Theorem fep_hash_only_covered c1 c2 : covered_fep hash c1 = covered_fep hash c2 -> fep_hash_to_sign hash c1 = fep_hash_to_sign hash c2.
Proof.
  unfold covered_fep. intros E. apply pair_inj in E as [E Epar]. apply pair_inj in E as [E Eh]. apply pair_inj in E as [En El].
  unfold fep_hash_to_sign, fep_preimage, fep_imported_part_preimage. rewrite En, Eh, Epar.
  rewrite (map_factor (fep_chunk hash) (fun i => (gi_value (ie_gi i), covered_exit hash (ie_exit i)))) with (l2 := c_imported c2);
    [reflexivity| |exact El].
  intros a b Eab. apply pair_inj in Eab as [Eg Ee]. unfold fep_chunk, gi_preimage.
  rewrite Eg, (exit_hash_only_covered _ _ Ee). reflexivity.
Qed.

(* ---- the collapses of the builders, stated with their witnesses ---- *)
(* nil, empty and the literal keccak("") metadata are one and the same commitment *)
Lemma metadata_collapse lt onet oa dn da am :
  let x md := {| x_leaf_type := lt; x_orig_net := onet; x_orig_addr := oa; x_dest_net := dn; x_dest_addr := da;
                 x_amount := am; x_metadata := md |} in
  exit_hash hash (x None) = exit_hash hash (x (Some [])) /\
  (empty_bytes_hash hash <> [] -> exit_hash hash (x None) = exit_hash hash (x (Some (empty_bytes_hash hash)))).
Proof.
  cbv zeta. split; [reflexivity|]. intros Hne. apply exit_hash_only_covered. unfold covered_exit. cbn [x_metadata meta_eff].
  destruct (empty_bytes_hash hash) eqn:E; [congruence|reflexivity].
Qed.
(* a nil amount and a zero amount are the same commitment *)
Lemma amount_nil_zero_collapse lt onet oa dn da md :
  let x am := {| x_leaf_type := lt; x_orig_net := onet; x_orig_addr := oa; x_dest_net := dn; x_dest_addr := da;
                 x_amount := am; x_metadata := md |} in
  exit_hash hash (x None) = exit_hash hash (x (Some 0)).
Proof. reflexivity. Qed.
(* the rollup index of a global index is not committed to when the mainnet flag is set *)
Lemma gi_rollup_ignored_when_mainnet r r' l :
  gi_hash hash {| gi_mainnet := true; gi_rollup := r; gi_leaf := l |} = gi_hash hash {| gi_mainnet := true; gi_rollup := r'; gi_leaf := l |}.
Proof. reflexivity. Qed.
(* FEPHashToSign: an absent / signature-only AggchainData counts as aggchain params = keccak("") *)
Lemma fep_params_collapse c s :
  fep_hash_to_sign hash (set_aggchain c AdNone) = fep_hash_to_sign hash (set_aggchain c (AdSignature s)).
Proof. reflexivity. Qed.

(* ---- fields that are NOT covered, as theorems ---- *)
Definition set_uncovered (c : certificate) (md : N) (custom : bytes) (lc : N) (sig : bytes) : certificate :=
  {| c_network := c_network c; c_height := c_height c; c_prev_ler := c_prev_ler c; c_new_ler := c_new_ler c;
     c_exits := c_exits c; c_imported := c_imported c; c_metadata := md; c_custom := custom;
     c_aggchain := match c_aggchain c with
                   | AdNone => AdNone | AdSignature _ => AdSignature sig
                   | AdProof p v k a cx _ => AdProof p v k a cx sig end;
     c_leaf_count := lc |}.
(* Certificate.Metadata, CustomChainData, L1InfoTreeLeafCount and the signature itself are covered by NO commitment *)
Theorem not_covered_by_any c md custom lc sig :
  let c' := set_uncovered c md custom lc sig in
  cert_hash hash c' = cert_hash hash c /\ pp_hash_to_sign hash c' = pp_hash_to_sign hash c /\
  fep_hash_to_sign hash c' = fep_hash_to_sign hash c.
Proof.
  cbv zeta. split; [reflexivity|split; [reflexivity|]].
  destruct c as [n h p nw ex im m cu ag lc0]. destruct ag; reflexivity.
Qed.
(* inside a claim, L1Leaf.L1InfoTreeIndex / RollupExitRoot / MainnetExitRoot are covered by NO commitment *)
Lemma l1leaf_context_not_covered l idx rer mer :
  l1leaf_hash hash {| l1_index := idx; l1_rer := rer; l1_mer := mer; l1_ger := l1_ger l; l1_block_hash := l1_block_hash l;
                      l1_timestamp := l1_timestamp l |} = l1leaf_hash hash l.
Proof. reflexivity. Qed.

End OnlyCovered.

(* ------------------------------------------------------------------------------------------------ *)
(* 4. the wire message preserves every covered field of a canonical certificate                      *)
(* ------------------------------------------------------------------------------------------------ *)
Lemma map_of_be_fbe32 l : Forall (fun s => s < 2^256) l -> map of_be (map (fbe 32) l) = l.
Proof.
  intros Hl. rewrite map_map. rewrite <- (map_id l) at 2. apply map_ext_in. intros a Ha.
  apply of_be_fbe. rewrite p32. eapply Forall_forall in Hl; eauto.
Qed.
Lemma of_wire_mproof_id m : wf_mproof m -> of_wire_mproof (to_wire_mproof m) = m.
Proof.
  destruct m as [r s]. intros (Hr & _ & Hs). unfold of_wire_mproof, to_wire_mproof. cbn [w_root w_siblings mp_root mp_siblings] in *.
  rewrite of_be_fbe by (rewrite p32; exact Hr). rewrite map_of_be_fbe32 by exact Hs. reflexivity.
Qed.
Lemma of_wire_l1leaf_id l : wf_l1leaf l -> of_wire_l1leaf (to_wire_l1leaf l) = l.
Proof.
  destruct l as [i r m g b t]. intros (Hi & Hr & Hm & Hg & Hb & Ht). unfold of_wire_l1leaf, to_wire_l1leaf.
  cbn [w_l1_index w_rer w_mer w_ger w_block_hash w_timestamp l1_index l1_rer l1_mer l1_ger l1_block_hash l1_timestamp] in *.
  rewrite !of_be_fbe by (rewrite p32; assumption). reflexivity.
Qed.
Lemma of_wire_claim_id cl : wf_claim cl -> of_wire_claim (to_wire_claim cl) = cl.
Proof.
  destruct cl as [a b l|a b d l]; cbn [wf_claim to_wire_claim of_wire_claim].
  - intros (Wa & Wb & Wl). rewrite !of_wire_mproof_id, of_wire_l1leaf_id by assumption. reflexivity.
  - intros (Wa & Wb & Wd & Wl). rewrite !of_wire_mproof_id, of_wire_l1leaf_id by assumption. reflexivity.
Qed.

Lemma two64_sq : two64 = two32 * two32. Proof. reflexivity. Qed.
(* DecodeGlobalIndex (closed form) of the number on the wire gives back the same number *)
Lemma gi_value_round g : wf_gi g -> gi_value (gi_of_value (gi_value g)) = gi_value g.
Proof.
  intros [Hr Hl]. change (2^32) with two32 in *. unfold gi_value at 1 3. unfold gi_of_value. cbn [gi_mainnet gi_rollup gi_leaf].
  unfold gi_value. rewrite two64_sq. assert (H32 : two32 = 4294967296) by reflexivity.
  destruct (gi_mainnet g).
  - assert (E1 : (two32 * two32 <=? two32 * two32 + gi_leaf g) = true) by (apply N.leb_le; lia).
    assert (E2 : (two32 * two32 + gi_leaf g <? two32 * two32 * 256) = true) by (apply N.ltb_lt; nia).
    rewrite E1, E2. cbn [andb]. f_equal. symmetry. apply N.mod_unique with two32; lia.
  - assert (E1 : (two32 * two32 <=? gi_rollup g * two32 + gi_leaf g) = false) by (apply N.leb_gt; nia).
    rewrite E1. cbn [andb]. f_equal.
    + f_equal. replace ((gi_rollup g * two32 + gi_leaf g) / two32) with (gi_rollup g) by (apply N.div_unique with (gi_leaf g); lia).
      apply N.mod_small. exact Hr.
    + symmetry. apply N.mod_unique with (gi_rollup g); lia.
Qed.

Section Wire.
Variable hash : bytes -> N.

Lemma leaf_type_round t : t < 2 -> leaf_type_of_proto (leaf_type_to_proto t) = t.
Proof.
  intros Ht. unfold leaf_type_to_proto, leaf_type_of_proto.
  destruct (N.eqb_spec t 0) as [->|N0]; [reflexivity|]. destruct (N.eqb_spec t 1) as [->|N1]; [reflexivity|]. lia.
Qed.
Lemma bytes_to_hash_32 m : length m = 32%nat -> bytes_to_hash m = m.
Proof. intros Hl. unfold bytes_to_hash. rewrite Hl. reflexivity. Qed.

Lemma wire_exit_covered b : canonical_exit b ->
  covered_exit hash (of_wire_exit (to_wire_exit b)) = covered_exit hash b.
Proof.
  intros ((L & ON & OA & DN & DA & AM & MO) & LT & MD). destruct b as [lt onet oa dn da am md].
  unfold covered_exit, of_wire_exit, to_wire_exit.
  cbn [x_leaf_type x_orig_net x_orig_addr x_dest_net x_dest_addr x_amount x_metadata
       w_leaf_type w_orig_net w_orig_addr w_dest_net w_dest_addr w_amount w_metadata] in *.
  rewrite leaf_type_round by exact LT. rewrite !of_be_fbe by (rewrite p20; assumption).
  assert (EA : amount_val (option_map of_be match am with Some v => Some (fbe 32 v) | None => None end) = amount_val am).
  { destruct am as [v|]; [|reflexivity]. cbn [option_map amount_val] in *. apply of_be_fbe. rewrite p32. exact AM. }
  rewrite EA.
  assert (EM : meta_eff hash match md with Some m => if is_empty m then None else Some (bytes_to_hash m) | None => None end = meta_eff hash md).
  { destruct md as [m|]; [|reflexivity]. destruct m as [|x m]; [reflexivity|]. cbn [is_empty].
    destruct MD as [Hl|Hn]; [|discriminate]. rewrite bytes_to_hash_32 by exact Hl. reflexivity. }
  rewrite EM. reflexivity.
Qed.

Lemma wire_gi_value g : wf_gi g -> gi_value (gi_of_value (of_be (fbe 32 (gi_value g)))) = gi_value g.
Proof. intros W. rewrite of_be_fbe by (rewrite p32; apply gi_value_lt; exact W). apply gi_value_round, W. Qed.

Lemma wire_imported_covered i : canonical_imported i ->
  covered_imported hash (of_wire_imported (to_wire_imported i)) = covered_imported hash i.
Proof.
  intros (Ce & Wc & Wg). unfold covered_imported, of_wire_imported, to_wire_imported.
  cbn [ie_exit ie_claim ie_gi w_ie_exit w_gi w_ie_claim].
  rewrite wire_exit_covered by exact Ce. rewrite of_wire_claim_id by exact Wc. rewrite wire_gi_value by exact Wg. reflexivity.
Qed.

Lemma map_covered_round {A B C} (f : A -> B) (g : B -> A) (cov : A -> C) (ok : A -> Prop) l :
  (forall a, ok a -> cov (g (f a)) = cov a) -> Forall ok l -> map cov (map g (map f l)) = map cov l.
Proof.
  intros Hr Hl. rewrite !map_map. apply map_ext_in. intros a Ha. apply Hr. eapply Forall_forall in Hl; eauto.
Qed.

Theorem wire_preserves_covered_lemma c w : canonical c -> to_wire c = Some w ->
  covered hash (of_wire w) = covered hash c /\ cert_signature (of_wire w) = cert_signature c /\
  c_metadata (of_wire w) = c_metadata c /\ c_custom (of_wire w) = c_custom c /\ c_leaf_count (of_wire w) = c_leaf_count c.
Proof.
  intros ((N1 & H1 & PL & NL & WE & WI & MD & WA & LC) & CE & CI) Hw. unfold to_wire in Hw.
  destruct (to_wire_aggchain (c_aggchain c)) as [a|] eqn:Ea; [|discriminate]. injection Hw as <-.
  unfold covered, covered_id, covered_pp, covered_fep, of_wire.
  cbn [c_network c_height c_prev_ler c_new_ler c_exits c_imported c_aggchain c_metadata c_custom c_leaf_count
       wc_network wc_height wc_prev_ler wc_new_ler wc_exits wc_imported wc_agg wc_meta wc_custom wc_leaf_count].
  rewrite !of_be_fbe by (rewrite p32; assumption).
  rewrite (map_covered_round to_wire_exit of_wire_exit (covered_exit hash) canonical_exit) by (auto using wire_exit_covered).
  rewrite (map_covered_round to_wire_imported of_wire_imported (covered_imported hash) canonical_imported) by (auto using wire_imported_covered).
  rewrite (map_covered_round to_wire_imported of_wire_imported (fun i => gi_value (ie_gi i)) canonical_imported).
  2:{ intros i (_ & _ & Wg). unfold of_wire_imported, to_wire_imported. cbn [ie_gi w_gi]. apply wire_gi_value, Wg. }
  2:{ exact CI. }
  rewrite (map_covered_round to_wire_imported of_wire_imported (fun i => (gi_value (ie_gi i), covered_exit hash (ie_exit i))) canonical_imported).
  2:{ intros i (Ce & _ & Wg). unfold of_wire_imported, to_wire_imported. cbn [ie_gi ie_exit w_gi w_ie_exit].
      rewrite wire_gi_value by exact Wg. rewrite wire_exit_covered by exact Ce. reflexivity. }
  2:{ exact CI. }
  assert (EP : fep_params hash (of_wire_aggchain a) = fep_params hash (c_aggchain c) /\
               cert_signature (of_wire {| wc_network := c_network c; wc_height := c_height c; wc_leaf_count := c_leaf_count c;
                  wc_prev_ler := fbe 32 (c_prev_ler c); wc_new_ler := fbe 32 (c_new_ler c); wc_meta := fbe 32 (c_metadata c);
                  wc_custom := c_custom c; wc_agg := a; wc_exits := map to_wire_exit (c_exits c);
                  wc_imported := map to_wire_imported (c_imported c) |}) = cert_signature c).
  { unfold cert_signature, of_wire. cbn [c_aggchain wc_agg].
    destruct (c_aggchain c) as [|s|pr ve vk pa cx s]; cbn [to_wire_aggchain] in Ea; try discriminate; injection Ea as <-;
      cbn [of_wire_aggchain fep_params]; [split; reflexivity|].
    destruct WA as (_ & _ & Hpa & _). rewrite of_be_fbe by (rewrite p32; exact Hpa). split; reflexivity. }
  destruct EP as [EP ES]. rewrite EP. repeat split; try reflexivity. exact ES.
Qed.

End Wire.

(* ------------------------------------------------------------------------------------------------ *)
(* 5. the signing step                                                                               *)
(* ------------------------------------------------------------------------------------------------ *)
Section Sign.
Variable hash : bytes -> N.
Variable signer : bytes -> bytes.

(* PP flow: the signature attached is the signer's output on PPHashToSign of the FINAL certificate; the hash handed to
   the signer is that commitment; no covered field of the certificate identity or of the PP commitment changes *)
Theorem sign_step_pp_final c :
  let c' := sign_step_pp hash signer c in
  cert_signature c' = signer (pp_hash_to_sign hash c') /\
  signer_input_pp hash c = pp_hash_to_sign hash c' /\
  covered_id hash c' = covered_id hash c /\ covered_pp c' = covered_pp c /\
  (match c_aggchain c with AdProof _ _ _ _ _ _ => False | _ => True end -> covered hash c' = covered hash c).
Proof.
  cbv zeta. repeat split. intros Hag. unfold covered, covered_fep, sign_step_pp, set_aggchain.
  cbn [c_new_ler c_imported c_height c_aggchain fep_params].
  destruct (c_aggchain c); [reflexivity|reflexivity|contradiction].
Qed.

Lemma touch_exit_preimage b : exit_preimage hash (touch_exit b) = exit_preimage hash b.
Proof. destruct b as [lt onet oa dn da am md]. destruct am; reflexivity. Qed.
Lemma touch_exit_covered b : covered_exit hash (touch_exit b) = covered_exit hash b.
Proof. destruct b as [lt onet oa dn da am md]. destruct am; reflexivity. Qed.
Lemma touch_imported_covered i : covered_imported hash (touch_imported i) = covered_imported hash i.
Proof. unfold covered_imported, touch_imported. cbn [ie_exit ie_claim ie_gi]. rewrite touch_exit_covered. reflexivity. Qed.
Lemma touch_fep_chunk i : fep_chunk hash (touch_imported i) = fep_chunk hash i.
Proof. unfold fep_chunk, touch_imported, exit_hash. cbn [ie_exit ie_gi]. rewrite touch_exit_preimage. reflexivity. Qed.

(* aggchain-prover flow: the proof data (incl. aggchain params) and the custom chain data are attached BEFORE the hash is
   computed; the signature attached is the signer's output on FEPHashToSign of the FINAL certificate (the nil -> 0 amount
   side effect of BridgeExit.Hash included); the identity / PP covered fields of the base certificate are untouched and
   the FEP covered fields are those of the base certificate with the prover's aggchain params *)
Theorem sign_step_fep_final c proof version vkey params ctx custom :
  let c' := sign_step_fep hash signer c proof version vkey params ctx custom in
  cert_signature c' = signer (fep_hash_to_sign hash c') /\
  signer_input_fep hash c proof version vkey params ctx custom = fep_hash_to_sign hash c' /\
  covered_id hash c' = covered_id hash c /\ covered_pp c' = covered_pp c /\
  covered_fep hash c' = (c_new_ler c, map (fun i => (gi_value (ie_gi i), covered_exit hash (ie_exit i))) (c_imported c),
                         c_height c, fbe 32 params) /\
  c_custom c' = custom.
Proof.
  cbv zeta.
  assert (EH : fep_hash_to_sign hash (sign_step_fep hash signer c proof version vkey params ctx custom) =
               fep_hash_to_sign hash (fep_prepare c proof version vkey params ctx custom)).
  { unfold fep_hash_to_sign, fep_preimage, fep_imported_part_preimage, sign_step_fep, fep_prepare, set_imported, set_aggchain, set_custom.
    cbn [c_new_ler c_imported c_height c_aggchain fep_params]. rewrite map_map.
    rewrite (map_ext _ _ touch_fep_chunk). reflexivity. }
  split; [|split; [|split; [|split; [|split]]]].
  - rewrite EH. reflexivity.
  - rewrite EH. reflexivity.
  - unfold covered_id, sign_step_fep, fep_prepare, set_imported, set_aggchain, set_custom.
    cbn [c_network c_height c_prev_ler c_new_ler c_exits c_imported]. rewrite map_map.
    rewrite (map_ext _ _ touch_imported_covered). reflexivity.
  - unfold covered_pp, sign_step_fep, fep_prepare, set_imported, set_aggchain, set_custom.
    cbn [c_new_ler c_imported]. rewrite map_map. reflexivity.
  - unfold covered_fep, sign_step_fep, fep_prepare, set_imported, set_aggchain, set_custom.
    cbn [c_new_ler c_imported c_height c_aggchain fep_params]. rewrite map_map.
    rewrite (map_ext (fun x => (gi_value (ie_gi (touch_imported x)), covered_exit hash (ie_exit (touch_imported x))))
                     (fun i => (gi_value (ie_gi i), covered_exit hash (ie_exit i)))).
    + reflexivity.
    + intros i. unfold touch_imported. cbn [ie_gi ie_exit]. rewrite touch_exit_covered. reflexivity.
  - reflexivity.
Qed.
End Sign.

(* ------------------------------------------------------------------------------------------------ *)
(* 6. the JSON codecs give back a canonical certificate (up to nil-vs-empty metadata)                *)
(* ------------------------------------------------------------------------------------------------ *)
Lemma ascii_uint_round u : ascii_uint (uint_ascii u) = Some u.
Proof. induction u; cbn [uint_ascii ascii_uint]; [reflexivity|rewrite IHu; reflexivity..]. Qed.
Lemma uint_ascii_digits u : Forall (fun c => c <> 110) (uint_ascii u).
Proof. induction u; cbn [uint_ascii]; constructor; try assumption; lia. Qed.
Lemma has_nil_no_n s : Forall (fun c => c <> 110) s -> has_nil s = false.
Proof.
  induction s as [|a t IH]; intros Hs; [reflexivity|]. inversion Hs as [|? ? Ha Ht]; subst.
  cbn [has_nil]. destruct t as [|b [|c t']]; try reflexivity.
  assert (E : (a =? 110) = false) by (apply N.eqb_neq; exact Ha). rewrite E. cbn [andb orb]. apply IH, Ht.
Qed.
Lemma uint_ascii_nil u : uint_ascii u = [] -> u = Decimal.Nil.
Proof. destruct u; cbn [uint_ascii]; intros E; [reflexivity|discriminate..]. Qed.
Lemma dec_string_nonempty v : dec_string v <> [].
Proof.
  unfold dec_string. intros E. apply uint_ascii_nil in E. destruct v as [|p]; [discriminate|].
  cbn in E. apply (DecimalPos.Unsigned.to_uint_nonnil p). exact E.
Qed.
Lemma parse_dec_round v : parse_dec (dec_string v) = Some v.
Proof.
  unfold parse_dec. pose proof (dec_string_nonempty v) as Hn. destruct (dec_string v) eqn:E; [congruence|].
  rewrite <- E. unfold dec_string. rewrite ascii_uint_round. cbn [option_map]. f_equal. apply DecimalN.Unsigned.of_to.
Qed.
Lemma has_nil_dec_string v : has_nil (dec_string v) = false.
Proof. apply has_nil_no_n, uint_ascii_digits. Qed.

Lemma nibble_round n : n < 16 -> unhexc (hexc n) = Some n.
Proof.
  intros Hn.
  assert (Hc : n = 0 \/ n = 1 \/ n = 2 \/ n = 3 \/ n = 4 \/ n = 5 \/ n = 6 \/ n = 7 \/ n = 8 \/ n = 9 \/ n = 10 \/ n = 11 \/
               n = 12 \/ n = 13 \/ n = 14 \/ n = 15) by lia.
  repeat (destruct Hc as [->|Hc]; [reflexivity|]). subst. reflexivity.
Qed.
Lemma hex_ascii_cons b bs : hex_ascii (b :: bs) = hexc (b / 16) :: hexc (b mod 16) :: hex_ascii bs.
Proof. reflexivity. Qed.
Lemma unhex_hex bs : bytes_ok bs -> unhex_ascii (hex_ascii bs) = bs.
Proof.
  induction bs as [|b bs IH]; intros Hok; [reflexivity|]. inversion Hok as [|? ? Hb Hbs]; subst.
  rewrite hex_ascii_cons. cbn [unhex_ascii].
  rewrite !nibble_round; [|apply N.mod_lt; lia|apply N.div_lt_upper_bound; lia].
  rewrite IH by exact Hbs. f_equal. pose proof (N.div_mod b 16 ltac:(lia)). lia.
Qed.
Lemma hex_ascii_length bs : length (hex_ascii bs) = (2 * length bs)%nat.
Proof. induction bs as [|b bs IH]; [reflexivity|]. rewrite hex_ascii_cons. cbn [length]. rewrite IH. lia. Qed.

Lemma hex_to_hash_round v : v < 2^256 -> hex_to_hash (hash_string v) = v.
Proof.
  intros Hv. unfold hex_to_hash, hash_string. change s_0x with [48; 120]. cbn [app strip_0x].
  assert (Hodd : Nat.odd (length (hex_ascii (fbe 32 v))) = false).
  { rewrite hex_ascii_length, fbe_length. reflexivity. }
  rewrite Hodd. rewrite unhex_hex by apply fbe_ok.
  unfold bytes_to_hash. rewrite fbe_length. cbn [Nat.ltb Nat.leb Nat.sub repeat app].
  apply of_be_fbe. rewrite p32. exact Hv.
Qed.

(* nil-vs-empty: an empty non-nil metadata slice comes back as nil *)
Definition norm_md (md : option bytes) : option bytes := match md with Some [] => None | _ => md end.
Definition norm_exit (b : bridge_exit) : bridge_exit :=
  {| x_leaf_type := x_leaf_type b; x_orig_net := x_orig_net b; x_orig_addr := x_orig_addr b; x_dest_net := x_dest_net b;
     x_dest_addr := x_dest_addr b; x_amount := x_amount b; x_metadata := norm_md (x_metadata b) |}.
Definition norm_imported (i : imported_exit) : imported_exit :=
  {| ie_exit := norm_exit (ie_exit i); ie_claim := ie_claim i; ie_gi := ie_gi i |}.
Definition norm_cert (c : certificate) : certificate :=
  {| c_network := c_network c; c_height := c_height c; c_prev_ler := c_prev_ler c; c_new_ler := c_new_ler c;
     c_exits := map norm_exit (c_exits c); c_imported := map norm_imported (c_imported c); c_metadata := c_metadata c;
     c_custom := c_custom c; c_aggchain := c_aggchain c; c_leaf_count := c_leaf_count c |}.

Ltac keycmp :=
  repeat match goal with
         | |- context [bytes_eqb ?a ?b] =>
           let r := eval vm_compute in (bytes_eqb a b) in
           change (bytes_eqb a b) with r; cbv iota
         end.

Lemma json_exit_round b : wf_exit b -> x_leaf_type b < 2 ->
  exists j, to_json_exit b = Some j /\ of_json_exit j = Some (norm_exit b).
Proof.
  intros (_ & _ & _ & _ & _ & _ & MO) LT. destruct b as [lt onet oa dn da am md]. cbn [x_leaf_type x_metadata] in *.
  unfold to_json_exit. cbn [x_leaf_type x_orig_net x_orig_addr x_dest_net x_dest_addr x_amount x_metadata].
  assert (E2 : (2 <=? lt) = false) by (apply N.leb_gt; exact LT). rewrite E2.
  eexists. split; [reflexivity|]. unfold of_json_exit.
  cbn [j_leaf_type j_orig_net j_orig_addr j_dest_net j_dest_addr j_amount j_metadata].
  assert (ELT : of_json_leaf_type (if lt =? 0 then s_transfer else s_message) = Some lt).
  { destruct (N.eqb_spec lt 0) as [->|N0]; [reflexivity|]. assert (lt = 1) by lia. subst. reflexivity. }
  rewrite ELT.
  assert (EMD : option_map unhex_ascii match md with Some m => if is_empty m then None else Some (hex_ascii m) | None => None end = norm_md md).
  { destruct md as [m|]; [|reflexivity]. destruct m as [|x m]; [reflexivity|]. cbn [is_empty option_map norm_md].
    rewrite unhex_hex by exact MO. reflexivity. }
  rewrite EMD. unfold norm_exit. cbn [x_leaf_type x_orig_net x_orig_addr x_dest_net x_dest_addr x_amount x_metadata].
  destruct am as [v|].
  - rewrite has_nil_dec_string, parse_dec_round. reflexivity.
  - change (has_nil s_nil) with true. reflexivity.
Qed.

Lemma json_mproof_round m : of_json_mproof (to_json_mproof m) = m.
Proof. destruct m as [r s]. unfold of_json_mproof, to_json_mproof. cbn [j_root j_proof lookup mp_root mp_siblings]. keycmp. reflexivity. Qed.

Lemma json_claim_round cl : of_json_claim (to_json_claim cl) = Some cl.
Proof.
  destruct cl as [a b l|a b d l]; unfold of_json_claim, to_json_claim; cbn [j_tag j_proofs j_leafs lookup option_map]; keycmp;
    cbn [option_map]; rewrite !json_mproof_round; reflexivity.
Qed.

Lemma json_aggchain_round a : wf_aggchain a -> of_json_aggchain (to_json_aggchain a) = Some a.
Proof.
  destruct a as [|s|pr ve vk pa cx s]; cbn [wf_aggchain to_json_aggchain of_json_aggchain].
  - reflexivity.
  - intros Hs. cbn [ja_fields ja_context lookup]. keycmp. rewrite unhex_hex by exact Hs. reflexivity.
  - intros (Hpr & Hvk & Hpa & Hs). cbn [ja_fields ja_context lookup]. keycmp.
    rewrite !unhex_hex by assumption. rewrite hex_to_hash_round by exact Hpa. reflexivity.
Qed.

Lemma json_imported_round i : wf_exit (ie_exit i) -> x_leaf_type (ie_exit i) < 2 ->
  exists j, to_json_imported i = Some j /\ of_json_imported j = Some (norm_imported i).
Proof.
  intros W LT. destruct (json_exit_round _ W LT) as (je & E1 & E2). unfold to_json_imported. rewrite E1.
  eexists. split; [reflexivity|]. unfold of_json_imported. cbn [j_ie_exit j_ie_claim j_ie_gi]. rewrite E2, json_claim_round. reflexivity.
Qed.

Lemma map_opt_round {A B} (f : A -> option B) (g : B -> option A) (n : A -> A) (ok : A -> Prop) l :
  (forall a, ok a -> exists j, f a = Some j /\ g j = Some (n a)) -> Forall ok l ->
  exists js, map_opt f l = Some js /\ map_opt g js = Some (map n l).
Proof.
  intros Hr. induction l as [|x l IH]; intros Hl; [exists []; split; reflexivity|].
  inversion Hl as [|? ? Hx Hl']; subst. destruct (Hr x Hx) as (j & E1 & E2). destruct (IH Hl') as (js & E3 & E4).
  exists (j :: js). cbn [map_opt map]. rewrite E1, E3, E2, E4. split; reflexivity.
Qed.

Theorem json_round_trip_canonical c : canonical c -> json_round_trip c = Some (norm_cert c).
Proof.
  intros ((_ & _ & _ & _ & _ & _ & _ & WA & _) & CE & CI).
  destruct (map_opt_round to_json_exit of_json_exit norm_exit canonical_exit (c_exits c)) as (es & E1 & E2).
  { intros b (W & LT & _). apply json_exit_round; assumption. } { exact CE. }
  destruct (map_opt_round to_json_imported of_json_imported norm_imported canonical_imported (c_imported c)) as (is_ & E3 & E4).
  { intros i ((W & LT & _) & _). apply json_imported_round; assumption. } { exact CI. }
  unfold json_round_trip, to_json. rewrite E1, E3. unfold of_json.
  cbn [jc_exits jc_imported jc_aggchain jc_network jc_height jc_prev_ler jc_new_ler jc_meta jc_custom jc_leaf_count].
  rewrite E2, E4, json_aggchain_round by exact WA. reflexivity.
Qed.

Section JsonCovered.
Variable hash : bytes -> N.
Lemma norm_exit_covered b : covered_exit hash (norm_exit b) = covered_exit hash b.
Proof. destruct b as [lt onet oa dn da am md]. unfold covered_exit, norm_exit. cbn [x_leaf_type x_orig_net x_orig_addr x_dest_net x_dest_addr x_amount x_metadata]. destruct md as [[|x m]|]; reflexivity. Qed.
Lemma norm_imported_covered i : covered_imported hash (norm_imported i) = covered_imported hash i.
Proof. unfold covered_imported, norm_imported. cbn [ie_exit ie_claim ie_gi]. rewrite norm_exit_covered. reflexivity. Qed.
Lemma norm_cert_covered c : covered hash (norm_cert c) = covered hash c.
Proof.
  unfold covered, covered_id, covered_pp, covered_fep, norm_cert.
  cbn [c_network c_height c_prev_ler c_new_ler c_exits c_imported c_aggchain]. rewrite !map_map.
  rewrite (map_ext _ _ norm_exit_covered), (map_ext _ _ norm_imported_covered).
  rewrite (map_ext (fun x => (gi_value (ie_gi (norm_imported x)), covered_exit hash (ie_exit (norm_imported x))))
                   (fun i => (gi_value (ie_gi i), covered_exit hash (ie_exit i)))).
  - reflexivity.
  - intros i. unfold norm_imported. cbn [ie_gi ie_exit]. rewrite norm_exit_covered. reflexivity.
Qed.

(* the stored copy of a canonical certificate: same covered fields, hence same commitments, and the same
   signature / aggchain data, metadata, custom chain data and leaf count *)
Theorem json_preserves_covered_lemma c : canonical c ->
  exists c', json_round_trip c = Some c' /\ covered hash c' = covered hash c /\
             cert_hash hash c' = cert_hash hash c /\ pp_hash_to_sign hash c' = pp_hash_to_sign hash c /\
             fep_hash_to_sign hash c' = fep_hash_to_sign hash c /\
             c_aggchain c' = c_aggchain c /\ c_metadata c' = c_metadata c /\ c_custom c' = c_custom c /\
             c_leaf_count c' = c_leaf_count c.
Proof.
  intros Hc. exists (norm_cert c). split; [apply json_round_trip_canonical, Hc|].
  pose proof (norm_cert_covered c) as E. split; [exact E|].
  unfold covered in E. apply pair_inj in E as [E Ef]. apply pair_inj in E as [Ei Ep].
  split; [apply cert_hash_only_covered, Ei|]. split; [apply pp_hash_only_covered, Ep|].
  split; [apply fep_hash_only_covered, Ef|]. repeat split.
Qed.

(* what is sent: same, through the wire projection *)
Theorem wire_preserves_commitments c w : canonical c -> to_wire c = Some w ->
  cert_hash hash (of_wire w) = cert_hash hash c /\ pp_hash_to_sign hash (of_wire w) = pp_hash_to_sign hash c /\
  fep_hash_to_sign hash (of_wire w) = fep_hash_to_sign hash c.
Proof.
  intros Hc Hw. destruct (wire_preserves_covered_lemma hash c w Hc Hw) as (E & _).
  unfold covered in E. apply pair_inj in E as [E Ef]. apply pair_inj in E as [Ei Ep].
  split; [apply cert_hash_only_covered, Ei|]. split; [apply pp_hash_only_covered, Ep|apply fep_hash_only_covered, Ef].
Qed.
End JsonCovered.

(* ---- bridges to the C19 model of the global index (Model/GlobalIndex.v) ---- *)
Lemma gi_value_is_encode g : wf_gi g -> gi_value g = enc3 (gi_triple g).
Proof.
  intros [Hr Hl]. unfold gi_value, gi_triple, enc3. rewrite encode_layout by assumption. reflexivity.
Qed.
Lemma gi_preimage_is_commit_gi g : wf_gi g -> gi_preimage g = commit_gi (gi_triple g).
Proof. intros W. unfold gi_preimage, commit_gi. rewrite big_le32_is_le, fle_le, gi_value_is_encode by exact W. reflexivity. Qed.
Lemma wire_gi_is_model g : wf_gi g -> fbe 32 (gi_value g) = wire_gi (gi_triple g).
Proof. intros W. unfold wire_gi, big_to_hash. rewrite fbe_be, gi_value_is_encode by exact W. reflexivity. Qed.
Lemma gi_of_value_is_decode v : v < 2^256 -> gi_triple (gi_of_value v) = decode v.
Proof. intros Hv. rewrite decode_closed by exact Hv. reflexivity. Qed.

(* ---- the executable canonical test implies the predicate (used by the non-vacuity examples) ---- *)
Lemma forallb_ok_sound bs : forallb_ok bs = true -> bytes_ok bs.
Proof. unfold forallb_ok, bytes_ok. rewrite forallb_forall, Forall_forall. intros Hf x Hx. apply N.ltb_lt, Hf, Hx. Qed.
Ltac split_andb :=
  repeat match goal with
         | H : _ && _ = true |- _ => apply andb_true_iff in H; destruct H
         | H : (_ <? _) = true |- _ => apply N.ltb_lt in H
         end.
Lemma wf_exitb_sound b : wf_exitb b = true -> wf_exit b.
Proof.
  unfold wf_exitb, wf_exit. intros Hb. split_andb. repeat split; try assumption.
  destruct (x_metadata b); [apply forallb_ok_sound; assumption|exact I].
Qed.
Lemma canonical_exitb_sound b : canonical_exitb b = true -> canonical_exit b.
Proof.
  unfold canonical_exitb, canonical_exit. intros Hb. apply andb_true_iff in Hb as [Hb Hm]. apply andb_true_iff in Hb as [Hw Hl].
  split; [apply wf_exitb_sound, Hw|]. split; [apply N.ltb_lt, Hl|].
  destruct (x_metadata b) as [m|]; [|exact I]. apply orb_true_iff in Hm as [Hm|Hm].
  - left. apply Nat.eqb_eq, Hm.
  - right. destruct m; [reflexivity|discriminate].
Qed.
Lemma wf_mproofb_sound m : wf_mproofb m = true -> wf_mproof m.
Proof.
  unfold wf_mproofb, wf_mproof. intros Hb. apply andb_true_iff in Hb as [Hb Hs]. apply andb_true_iff in Hb as [Hr Hl].
  split; [apply N.ltb_lt, Hr|]. split; [apply Nat.eqb_eq, Hl|].
  apply Forall_forall. intros x Hx. rewrite forallb_forall in Hs. apply N.ltb_lt, Hs, Hx.
Qed.
Lemma wf_l1leafb_sound l : wf_l1leafb l = true -> wf_l1leaf l.
Proof. unfold wf_l1leafb, wf_l1leaf. intros Hb. split_andb. repeat split; assumption. Qed.
Lemma wf_claimb_sound cl : wf_claimb cl = true -> wf_claim cl.
Proof.
  destruct cl as [a b l|a b d l]; cbn [wf_claimb wf_claim]; intros Hb.
  - apply andb_true_iff in Hb as [Hb Hl]. apply andb_true_iff in Hb as [Ha Hb].
    split; [apply wf_mproofb_sound, Ha|split; [apply wf_mproofb_sound, Hb|apply wf_l1leafb_sound, Hl]].
  - apply andb_true_iff in Hb as [Hb Hl]. apply andb_true_iff in Hb as [Hb Hd]. apply andb_true_iff in Hb as [Ha Hb].
    split; [apply wf_mproofb_sound, Ha|split; [apply wf_mproofb_sound, Hb|split; [apply wf_mproofb_sound, Hd|apply wf_l1leafb_sound, Hl]]].
Qed.
Lemma wf_gib_sound g : wf_gib g = true -> wf_gi g.
Proof. unfold wf_gib, wf_gi. intros Hb. split_andb. split; assumption. Qed.
Lemma canonical_importedb_sound i : canonical_importedb i = true -> canonical_imported i.
Proof.
  unfold canonical_importedb, canonical_imported. intros Hb. apply andb_true_iff in Hb as [Hb Hg]. apply andb_true_iff in Hb as [He Hc].
  auto using canonical_exitb_sound, wf_claimb_sound, wf_gib_sound.
Qed.
Lemma wf_aggchainb_sound a : wf_aggchainb a = true -> wf_aggchain a.
Proof.
  destruct a; cbn [wf_aggchainb wf_aggchain]; intros Hb; [exact I|apply forallb_ok_sound, Hb|].
  repeat (apply andb_true_iff in Hb as [Hb ?]). repeat split; auto using forallb_ok_sound. apply N.ltb_lt. assumption.
Qed.
Lemma canonicalb_sound c : canonicalb c = true -> canonical c.
Proof.
  unfold canonicalb. intros Hb.
  apply andb_true_iff in Hb as [Hb HI]. apply andb_true_iff in Hb as [Hb HE]. apply andb_true_iff in Hb as [Hb HLC].
  apply andb_true_iff in Hb as [Hb HA]. apply andb_true_iff in Hb as [Hb HM]. apply andb_true_iff in Hb as [Hb HNL].
  apply andb_true_iff in Hb as [Hb HPL]. apply andb_true_iff in Hb as [HN HH].
  apply N.ltb_lt in HN, HH, HPL, HNL, HM, HLC.
  assert (CE : Forall canonical_exit (c_exits c)).
  { apply Forall_forall. intros b Hx. rewrite forallb_forall in HE. apply canonical_exitb_sound, HE, Hx. }
  assert (CI : Forall canonical_imported (c_imported c)).
  { apply Forall_forall. intros i Hx. rewrite forallb_forall in HI. apply canonical_importedb_sound, HI, Hx. }
  split; [|split; assumption]. unfold wf_cert. repeat split; try assumption.
  - eapply Forall_impl; [|exact CE]. intros b Hc. apply Hc.
  - eapply Forall_impl; [|exact CI]. intros i (Ce & Wc & Wg). split; [apply Ce|split; assumption].
  - apply wf_aggchainb_sound, HA.
Qed.
Lemma canonical_wf c : canonical c -> wf_cert c.
Proof. intros [W _]. exact W. Qed.
