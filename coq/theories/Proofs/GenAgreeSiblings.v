(* The definitions GENERATED from tree/tree.go by tools/go2coq for the two top-down walks of the reverse hash table,
     Tree.getSiblings   (the proof served by GetProof)           and
     Tree.GetLeaf,
   compute what the hand-written walks of Model/Merkle.v compute (swalk, swalk_used_zero, walk), for every hash type, every
   table, every index and every root. The database read `t.getRHTNode(tx, hash)` is an oracle `rht : hash -> lookup TreeNode`
   with the three outcomes the Go code distinguishes (a row, db.ErrNotFound, any other error); the model's table is its
   projection. Through these equalities the served-proof theorems of C08 are theorems about the translated Go loops
   (downward loop, `continue` after a missing node without advancing currentNodeHash, early return on other errors). *)
From Coq Require Import Arith NArith List Bool Lia.
From Verif Require Import Base.GoNum Model.Merkle Gen.GenTree Proofs.GenAgreeTree.
Import ListNotations.

Lemma go_range_down_rev (n : nat) : go_range_down (N.of_nat n) = map N.of_nat (rev (seq 0 (S n))).
Proof.
  unfold go_range_down, go_range. rewrite <- map_rev. f_equal. f_equal. f_equal.
  change (N.to_nat 0) with 0%nat. rewrite Nat.sub_0_r. lia.
Qed.

Lemma list_set_nat_app {A} (a : list A) x b v : list_set_nat (a ++ x :: b) (length a) v = a ++ v :: b.
Proof. induction a as [|y a IH]; cbn [app length list_set_nat]; [reflexivity|]. rewrite IH. reflexivity. Qed.

Lemma list_set_split {A} (d : A) (l : list A) (h : nat) v : (h < length l)%nat ->
  list_set l (N.of_nat h) v = firstn h l ++ v :: skipn (S h) l.
Proof.
  intros Hh. unfold list_set. rewrite Nat2N.id.
  assert (Hl : l = firstn h l ++ nth h l d :: skipn (S h) l).
  { clear v. revert h Hh. induction l as [|x l IH]; intros h Hh; [cbn in Hh; lia|].
    destruct h as [|h]; [reflexivity|]. cbn [firstn nth skipn app]. f_equal. apply IH. cbn in Hh. lia. }
  assert (Hlen : length (firstn h l) = h) by (rewrite firstn_length; lia).
  rewrite Hl at 1. pose proof (list_set_nat_app (firstn h l) (nth h l d) (skipn (S h) l) v) as E.
  rewrite Hlen in E. exact E.
Qed.

Section Agree.
Variable hash : Type.
Variable hash0 : hash.
Variable rht : hash -> lookup (TreeNode hash).
Variable zhs : list hash.

(* the model's table: the children of a found row; a lookup that fails for another reason is no row of the table either,
   the theorems below say where that difference shows *)
Definition table : Merkle.rht := fun x =>
  match rht x with LFound n => Some (TreeNode_Left hash n, TreeNode_Right hash n) | LNotFound => None | LFail => None end.
Definition zh_of : nat -> hash := fun h => nth h zhs hash0.
Definition no_fail := forall x, rht x <> LFail.

(* ================= getSiblings ================= *)
Lemma swalk_none h x bit : table x = None -> swalk zh_of table h x bit = zeros zh_of h.
Proof. intros Hx. destruct h as [|h]; cbn [swalk]; [reflexivity|]. rewrite Hx. reflexivity. Qed.
Lemma swalk_used_none h x bit : table x = None -> swalk_used_zero table (S h) x bit = true.
Proof. intros Hx. cbn [swalk_used_zero]. rewrite Hx. reflexivity. Qed.
Lemma swalk_length h : forall x bit, length (swalk zh_of table h x bit) = h.
Proof.
  induction h as [|h IH]; intros x bit; cbn [swalk]; [reflexivity|].
  destruct (table x) as [[l r]|].
  - destruct (bit h); rewrite app_length, IH; cbn; lia.
  - clear. induction (S h) as [|k IHk]; cbn [zeros]; [reflexivity|]. rewrite app_length, IHk. cbn. lia.
Qed.

Theorem getSiblings_agree (Hnf : no_fail) (index : N) (root : hash) :
  getSiblings hash hash0 rht zhs index root =
  (swalk zh_of table 32 root (fun h => N.testbit index (N.of_nat h)),
   swalk_used_zero table 32 root (fun h => N.testbit index (N.of_nat h)), EOK).
Proof.
  unfold getSiblings. change (u64_sub 32 1) with (N.of_nat 31). rewrite go_range_down_rev.
  set (bit := fun h => N.testbit index (N.of_nat h)).
  match goal with |- context [fold_left ?f _ _] => set (step := f) end.
  assert (Hstep : forall cur used sibs h, (h < 32)%nat -> length sibs = 32%nat ->
    step ((cur, EOK, used, sibs), None) (N.of_nat h) =
    match table cur with
    | None => ((cur, EOK, true, firstn h sibs ++ zh_of h :: skipn (S h) sibs), None)
    | Some (l, r) => if bit h then ((r, EOK, used, firstn h sibs ++ l :: skipn (S h) sibs), None)
                     else ((l, EOK, used, firstn h sibs ++ r :: skipn (S h) sibs), None)
    end).
  { intros cur used sibs h Hh Hl. unfold step, table. specialize (Hnf cur).
    destruct (rht cur) as [n| |]; [| |congruence]; cbn [err_eqb negb].
    - rewrite shl1_small by lia. rewrite land_pow2_pos. fold (bit h).
      destruct (bit h); rewrite (list_set_split hash0) by lia; reflexivity.
    - rewrite (list_set_split hash0) by lia. unfold zh_of, list_get. rewrite Nat2N.id. reflexivity. }
  assert (Hfold : forall h cur used sibs, (h <= 32)%nat -> length sibs = 32%nat ->
    exists cur', fold_left step (map N.of_nat (rev (seq 0 h))) ((cur, EOK, used, sibs), None) =
      ((cur', EOK, used || swalk_used_zero table h cur bit, swalk zh_of table h cur bit ++ skipn h sibs), None)).
  { induction h as [|h IH]; intros cur used sibs Hh Hl.
    - exists cur. cbn. rewrite orb_false_r. reflexivity.
    - rewrite seq_S, rev_app_distr. cbn [rev app map fold_left plus]. rewrite Hstep by lia.
      assert (Hlen : forall v, length (firstn h sibs ++ v :: skipn (S h) sibs) = 32%nat).
      { intros v. rewrite app_length, firstn_length. cbn [length]. rewrite skipn_length. lia. }
      assert (Hskip : forall v, skipn h (firstn h sibs ++ v :: skipn (S h) sibs) = v :: skipn (S h) sibs).
      { intros v. assert (Hf : length (firstn h sibs) = h) by (rewrite firstn_length; lia).
        rewrite <- Hf at 1. rewrite skipn_app, Hf, Nat.sub_diag, skipn_all2 by lia. reflexivity. }
      destruct (table cur) as [[l r]|] eqn:Ht.
      + destruct (bit h) eqn:Hb.
        * destruct (IH r used _ ltac:(lia) (Hlen l)) as [c' Hc]. exists c'. rewrite Hc, Hskip.
          cbn [swalk swalk_used_zero]. rewrite Ht, Hb, <- app_assoc. reflexivity.
        * destruct (IH l used _ ltac:(lia) (Hlen r)) as [c' Hc]. exists c'. rewrite Hc, Hskip.
          cbn [swalk swalk_used_zero]. rewrite Ht, Hb, <- app_assoc. reflexivity.
      + destruct (IH cur true _ ltac:(lia) (Hlen (zh_of h))) as [c' Hc]. exists c'. rewrite Hc, Hskip.
        rewrite swalk_used_none by exact Ht. rewrite orb_true_r. cbn [orb].
        rewrite !swalk_none by exact Ht. cbn [zeros]. rewrite <- app_assoc. reflexivity. }
  destruct (Hfold 32%nat root false (repeat hash0 32) (le_n _) (repeat_length _ _)) as [c' Hc].
  change (S 31) with 32%nat. rewrite Hc. cbn [orb].
  rewrite skipn_all2 by (rewrite repeat_length; lia). rewrite app_nil_r. reflexivity.
Qed.

(* a lookup that fails for another reason than a missing row: the call reports an error instead of a proof *)
Theorem getSiblings_fail_is_error (index : N) (root : hash) : rht root = LFail ->
  snd (getSiblings hash hash0 rht zhs index root) = EFail.
Proof.
  intros Hr. unfold getSiblings. change (u64_sub 32 1) with (N.of_nat 31). rewrite go_range_down_rev.
  rewrite seq_S, rev_app_distr. cbn [rev app map fold_left plus]. rewrite Hr. cbn [err_eqb negb].
  match goal with |- context [fold_left ?f ?l (?a, Some ?r)] =>
    assert (Hs : forall l0 a0, fold_left f l0 (a0, Some r) = (a0, Some r)) end.
  { induction l0 as [|x l0 IH]; intros a0; [reflexivity|]. cbn [fold_left]. destruct a0 as [[[c e] u] s]. apply IH. }
  rewrite Hs. reflexivity.
Qed.

(* ================= GetLeaf ================= *)
Theorem GetLeaf_agree (index : N) (root : hash) :
  match walk table 32 root (fun h => N.testbit index (N.of_nat h)) with
  | Some (_, y) => GetLeaf hash hash0 rht index root = (y, EOK)
  | None => fst (GetLeaf hash hash0 rht index root) = hash0 /\ snd (GetLeaf hash hash0 rht index root) <> EOK
  end.
Proof.
  unfold GetLeaf. change (u64_sub 32 1) with (N.of_nat 31). rewrite go_range_down_rev.
  set (bit := fun h => N.testbit index (N.of_nat h)).
  match goal with |- context [fold_left ?f _ _] => set (step := f) end.
  assert (Hdone : forall l c r, fold_left step l (c, Some r) = (c, Some r)).
  { induction l as [|x l IH]; intros c r; [reflexivity|]. cbn [fold_left]. apply IH. }
  assert (Hstep : forall cur h, (h < 32)%nat ->
    step (cur, None) (N.of_nat h) =
    match rht cur with
    | LFound n => (if bit h then TreeNode_Right hash n else TreeNode_Left hash n, None)
    | LNotFound => (cur, Some (hash0, ENotFound))
    | LFail => (cur, Some (hash0, EFail))
    end).
  { intros cur h Hh. unfold step. destruct (rht cur) as [n| |]; cbn [err_eqb negb]; [|reflexivity|reflexivity].
    rewrite shl1_small by lia. rewrite land_pow2_pos. fold (bit h). destruct (bit h); reflexivity. }
  assert (Hfold : forall h cur, (h <= 32)%nat ->
    match walk table h cur bit with
    | Some (_, y) => fold_left step (map N.of_nat (rev (seq 0 h))) (cur, None) = (y, None)
    | None => exists c e, e <> EOK /\ fold_left step (map N.of_nat (rev (seq 0 h))) (cur, None) = (c, Some (hash0, e))
    end).
  { induction h as [|h IH]; intros cur Hh; [reflexivity|].
    rewrite seq_S, rev_app_distr. cbn [rev app map fold_left plus walk]. rewrite Hstep by lia. unfold table at 1.
    destruct (rht cur) as [n| |].
    - destruct (bit h).
      + specialize (IH (TreeNode_Right hash n) ltac:(lia)).
        destruct (walk table h (TreeNode_Right hash n) bit) as [[s y]|]; exact IH.
      + specialize (IH (TreeNode_Left hash n) ltac:(lia)).
        destruct (walk table h (TreeNode_Left hash n) bit) as [[s y]|]; exact IH.
    - exists cur, ENotFound. split; [discriminate|]. apply Hdone.
    - exists cur, EFail. split; [discriminate|]. apply Hdone. }
  specialize (Hfold 32%nat root (le_n _)). change (S 31) with 32%nat.
  destruct (walk table 32 root bit) as [[s y]|].
  - rewrite Hfold. reflexivity.
  - destruct Hfold as [c [e [He Hf]]]. rewrite Hf. cbn [fst snd]. split; [reflexivity|exact He].
Qed.

End Agree.

(* ---- the same equalities for the executable store of Model/TreeStore.v (hash = N, the rht table of a tdb): the proof the
   model's store serves (get_proof, what the correspondence harness compares with the real GetProof) IS the result of the
   translated loop, for every database, index and root ---- *)
From Verif Require Import Model.TreeStore.

Definition rht_of (db : tdb) : N -> GoNum.lookup (TreeNode N) := fun x =>
  match TreeStore.lookup db x with Some (l, r) => LFound (mkTreeNode N x l r) | None => LNotFound end.

Lemma table_rht_of (db : tdb) : forall x, table N (rht_of db) x = TreeStore.lookup db x.
Proof. intros x. unfold table, rht_of. destruct (TreeStore.lookup db x) as [[l r]|]; reflexivity. Qed.

Lemma swalk_table_ext {hash} (zhf : nat -> hash) (m m' : Merkle.rht) : (forall x, m x = m' x) ->
  forall h x bit, swalk zhf m h x bit = swalk zhf m' h x bit.
Proof. intros E. induction h as [|h IH]; intros x bit; cbn [swalk]; [reflexivity|]. rewrite E. destruct (m' x) as [[l r]|]; [|reflexivity]. rewrite !IH. reflexivity. Qed.
Lemma swalk_used_table_ext {hash} (m m' : @Merkle.rht hash) : (forall x, m x = m' x) ->
  forall h x bit, swalk_used_zero m h x bit = swalk_used_zero m' h x bit.
Proof. intros E. induction h as [|h IH]; intros x bit; cbn [swalk_used_zero]; [reflexivity|]. rewrite E. destruct (m' x) as [[l r]|]; [|reflexivity]. rewrite !IH. reflexivity. Qed.
Lemma walk_table_ext {hash} (m m' : @Merkle.rht hash) : (forall x, m x = m' x) ->
  forall h x bit, walk m h x bit = walk m' h x bit.
Proof. intros E. induction h as [|h IH]; intros x bit; cbn [walk]; [reflexivity|]. rewrite E. destruct (m' x) as [[l r]|]; [|reflexivity]. rewrite !IH. reflexivity. Qed.

Theorem getSiblings_is_store_get_proof (db : tdb) (idx root : N) :
  getSiblings N 0%N (rht_of db) zero_table idx root =
  (TreeStore.get_proof db idx root, TreeStore.get_proof_used_zero db idx root, EOK).
Proof.
  rewrite getSiblings_agree by (intros x; unfold rht_of; destruct (TreeStore.lookup db x) as [[l r]|]; discriminate).
  unfold TreeStore.get_proof, TreeStore.get_proof_used_zero, Gen.get_proof, Gen.get_proof_used_zero, HEIGHT, bitN.
  rewrite (swalk_table_ext _ _ _ (table_rht_of db)), (swalk_used_table_ext _ _ (table_rht_of db)). reflexivity.
Qed.

Theorem GetLeaf_is_store_get_leaf (db : tdb) (idx root : N) :
  match TreeStore.get_leaf db idx root with
  | Some y => GetLeaf N 0%N (rht_of db) idx root = (y, EOK)
  | None => snd (GetLeaf N 0%N (rht_of db) idx root) <> EOK
  end.
Proof.
  pose proof (GetLeaf_agree N 0%N (rht_of db) idx root) as H.
  rewrite (walk_table_ext _ _ (table_rht_of db)) in H.
  unfold TreeStore.get_leaf, Gen.get_leaf, HEIGHT, bitN.
  destruct (walk (TreeStore.lookup db) 32 root _) as [[s y]|]; [exact H|exact (proj2 H)].
Qed.

(* ---- the translated serving path end to end, in every reachable state of the (generic) store: the TRANSLATED getSiblings
   finds every sibling (no zero-hash fallback, no error), the TRANSLATED CalculateRoot over them and the true j-th leaf
   returns exactly the root asked for, and the TRANSLATED GetLeaf returns that leaf ---- *)
From Verif Require Import Model.MerkleSpec Proofs.TreeStoreProofs Proofs.TreeStoreCorollaries.

Lemma get_proof_unfold HT zhf db idx root : Gen.get_proof HT zhf db idx root = swalk zhf (TreeStore.lookup db) HT root (fun h => N.testbit idx (N.of_nat h)).
Proof. reflexivity. Qed.
Lemma get_proof_used_unfold HT db idx root : Gen.get_proof_used_zero HT db idx root = swalk_used_zero (TreeStore.lookup db) HT root (fun h => N.testbit idx (N.of_nat h)).
Proof. reflexivity. Qed.
Lemma get_leaf_unfold HT db idx root : Gen.get_leaf HT db idx root =
  match walk (TreeStore.lookup db) HT root (fun h => N.testbit idx (N.of_nat h)) with Some (_, y) => Some y | None => None end.
Proof. reflexivity. Qed.
Lemma calculate_root_unfold node leaf s idx : Gen.calculate_root node leaf s idx = calc node 0 s leaf (fun h => N.testbit idx (N.of_nat h)).
Proof. reflexivity. Qed.

Lemma gen_sib_store (zhs : list N) (db : tdb) (idx root : N) :
  Gen.get_proof_used_zero 32 db idx root = false ->
  getSiblings N 0%N (rht_of db) zhs idx root = (Gen.get_proof 32 (zh_of N 0%N zhs) db idx root, false, EOK).
Proof.
  intros Hused. rewrite get_proof_used_unfold in Hused. rewrite get_proof_unfold.
  rewrite getSiblings_agree by (intros x; unfold rht_of; destruct (TreeStore.lookup db x) as [[l r]|]; discriminate).
  rewrite (swalk_table_ext _ _ _ (table_rht_of db)), (swalk_used_table_ext _ _ (table_rht_of db)).
  rewrite Hused. reflexivity.
Qed.
Lemma gen_calc_store (node : N -> N -> N) leaf s idx : length s = 32%nat ->
  CalculateRoot N node 0%N leaf s idx = Gen.calculate_root node leaf s idx.
Proof. intros Hlen. rewrite calculate_root_unfold. apply CalculateRoot_agree. exact Hlen. Qed.
Lemma gen_leaf_store (db : tdb) (idx root y : N) : Gen.get_leaf 32 db idx root = Some y ->
  GetLeaf N 0%N (rht_of db) idx root = (y, EOK).
Proof.
  intros Hleaf. pose proof (GetLeaf_agree N 0%N (rht_of db) idx root) as H.
  rewrite (walk_table_ext _ _ (table_rht_of db)) in H.
  rewrite get_leaf_unfold in Hleaf.
  destruct (walk (TreeStore.lookup db) 32 root _) as [[s y']|]; [|discriminate].
  injection Hleaf as ->. exact H.
Qed.

Theorem generated_serving_path_verifies (node : N -> N -> N) (zhs : list N) :
  (forall a b c d, node a b = node c d -> a = c /\ b = d) ->
  (forall h, (h <= 32)%nat -> zh_of N 0%N zhs h = zero node 0%N h) ->
  forall db mem L k j, Reach 32 node (zh_of N 0%N zhs) db mem L -> (j < k)%nat -> (k <= length L)%nat ->
  let root := mroot node 0%N (lf L) 32 k in
  exists s, getSiblings N 0%N (rht_of db) zhs (N.of_nat j) root = (s, false, EOK) /\
            CalculateRoot N node 0%N (lf L j) s (N.of_nat j) = root /\
            GetLeaf N 0%N (rht_of db) (N.of_nat j) root = (lf L j, EOK).
Proof.
  intros inj Hz db mem L k j HR Hj Hk root.
  pose proof (store_proof_verifies 32 node inj (zh_of N 0%N zhs) Hz db mem L k j HR Hj Hk) as HH.
  cbv zeta in HH. destruct HH as [_ [Hlen [Hcalc [Hleaf Hused]]]].
  eexists. split; [apply gen_sib_store; exact Hused|]. split; [|apply gen_leaf_store; exact Hleaf].
  rewrite gen_calc_store by exact Hlen. exact Hcalc.
Qed.
