(* The definitions GENERATED from aggsender/epoch_notifier_per_block.go by tools/go2coq (Gen/GenEpoch.v, regenerated on
   every run; uint64 arithmetic that wraps, float64 quotients) compute exactly what the hand-written float model
   Model/EpochFloat.v computes, for block numbers, starting blocks and epoch lengths below 2^63 (no uint64 operation of
   `step` wraps there). Composed with Proofs/EpochFloatProofs.v (float test = exact rational test for epoch lengths
   below 2^45) and Proofs/EpochProofs.v this makes the C18 theorem a theorem about the translated Go code. *)
From Coq Require Import ZArith NArith Bool Lia.
From Verif Require Import Base.GoNum Gen.GenEpoch Model.Epoch Model.EpochFloat.
Open Scope N_scope.

Lemma U64_val : U64 = 2 * I63.
Proof. reflexivity. Qed.
Lemma I63_pos : 0 < I63.
Proof. reflexivity. Qed.

Lemma u64_add_small a b : a + b < U64 -> u64_add a b = a + b.
Proof. intros H. unfold u64_add. now apply N.mod_small. Qed.
Lemma u64_sub_small a b : b <= a -> a < U64 -> u64_sub a b = a - b.
Proof.
  intros H1 H2. unfold u64_sub. replace (a + U64 - b) with ((a - b) + 1 * U64) by lia.
  rewrite N.mod_add by (vm_compute; discriminate). apply N.mod_small. lia.
Qed.
Lemma u64_mul_small a b : a * b < U64 -> u64_mul a b = a * b.
Proof. intros H. unfold u64_mul. now apply N.mod_small. Qed.

Definition of_st (s : status) : internalStatus := mkinternalStatus (last_block_seen s) (waiting_for_epoch s).
Definition conv_ev (e : event) : N * option ExtraInfoEventEpoch :=
  (ev_epoch e, Some (mkExtraInfoEventEpoch (Z.of_N (ev_pending e)))).

Section Agree.
Variable S0 n P : N.
Hypothesis Hn1 : 1 <= n.
Hypothesis Hn : n < I63.

(* q = (b - S0) / n with its two defining inequalities, as linear facts about the atom q * n *)
Lemma div_facts b : S0 <= b -> let q := (b - S0) / n in q * n <= b - S0 /\ b - S0 < q * n + n.
Proof.
  intros Hb q. unfold q. split.
  - rewrite N.mul_comm. apply N.mul_div_le. lia.
  - pose proof (N.mul_succ_div_gt (b - S0) n ltac:(lia)) as H. rewrite N.mul_succ_r in H. rewrite (N.mul_comm n) in H. exact H.
Qed.

Lemma epochNumber_agree b : b < I63 -> epochNumber S0 n b = epoch_number S0 n b.
Proof.
  intros Hb. unfold epochNumber, epoch_number. destruct (N.ltb_spec b S0) as [H|H]; [reflexivity|].
  pose proof U64_val. unfold u64_div. rewrite (u64_sub_small b S0) by lia.
  destruct (div_facts b H) as [H1 _]. apply u64_add_small.
  assert ((b - S0) / n <= b - S0) by (apply N.div_le_upper_bound; [lia|]; rewrite <- (N.mul_1_l (b - S0)) at 1; apply N.mul_le_mono_r; lia).
  lia.
Qed.

Lemma startingBlockEpoch_agree e : 1 <= e -> e < U64 -> S0 + (e - 1) * n < U64 ->
  startingBlockEpoch S0 n e = starting_block_epoch S0 n e.
Proof.
  intros He1 He2 Hb. unfold startingBlockEpoch, starting_block_epoch.
  destruct (N.eqb_spec e 0) as [E|E]; [lia|].
  rewrite (u64_sub_small e 1) by lia. rewrite u64_mul_small by lia. apply u64_add_small. exact Hb.
Qed.

(* the epoch of a block at or after S0, and where it starts / ends, without wrap *)
Lemma epoch_bounds b : S0 <= b -> b < I63 ->
  let e := epoch_number S0 n b in
  1 <= e /\ e < I63 + 1 /\ S0 + (e - 1) * n <= b /\ b < S0 + e * n /\ S0 + e * n < U64.
Proof.
  intros Hb Hb63 e. unfold e, epoch_number. destruct (N.ltb_spec b S0) as [H|H]; [lia|].
  destruct (div_facts b Hb) as [H1 H2]. set (q := (b - S0) / n) in *.
  assert (Hq : q <= b - S0).
  { unfold q. apply N.div_le_upper_bound; [lia|]. rewrite <- (N.mul_1_l (b - S0)) at 1. apply N.mul_le_mono_r. lia. }
  pose proof U64_val. replace (1 + q - 1) with q by lia. replace ((1 + q) * n) with (q * n + n) by lia.
  repeat split; lia.
Qed.

Lemma percentEpoch_agree b : S0 <= b -> b < I63 -> percentEpoch S0 n b = percent_epoch_f S0 n b.
Proof.
  intros Hb Hb63. unfold percentEpoch, percent_epoch_f. cbv zeta. rewrite (epochNumber_agree b Hb63).
  destruct (epoch_bounds b Hb Hb63) as (E1 & E2 & E3 & E4 & E5). pose proof U64_val.
  rewrite startingBlockEpoch_agree by lia.
  assert (Hs : starting_block_epoch S0 n (epoch_number S0 n b) = S0 + (epoch_number S0 n b - 1) * n).
  { unfold starting_block_epoch. destruct (N.eqb_spec (epoch_number S0 n b) 0); [lia | reflexivity]. }
  rewrite (u64_sub_small b _) by (try rewrite Hs; lia). reflexivity.
Qed.

Lemma isNotificationRequired_agree b last : S0 <= b -> b < I63 ->
  isNotificationRequired S0 n P b last = is_notification_required_f S0 n P b last.
Proof.
  intros Hb Hb63. unfold isNotificationRequired, is_notification_required_f. cbv zeta.
  rewrite (percentEpoch_agree b Hb Hb63), (epochNumber_agree b Hb63).
  destruct (epoch_bounds b Hb Hb63) as (E1 & E2 & _). pose proof U64_val.
  rewrite (u64_sub_small n 1) by lia. rewrite (u64_add_small (epoch_number S0 n b) 1) by lia.
  reflexivity.
Qed.

Lemma infoEpoch_agree b : S0 <= b -> b < I63 ->
  infoEpoch S0 n b (epoch_number S0 n b) =
  Some (mkExtraInfoEventEpoch (Z.of_N (pending_blocks S0 n b (epoch_number S0 n b)))).
Proof.
  intros Hb Hb63. unfold infoEpoch, endBlockEpoch, pending_blocks, end_block_epoch. cbv zeta.
  destruct (epoch_bounds b Hb Hb63) as (E1 & E2 & E3 & E4 & E5). pose proof U64_val.
  set (e := epoch_number S0 n b) in *.
  rewrite (u64_add_small e 1) by lia.
  rewrite startingBlockEpoch_agree by (try lia; replace (e + 1 - 1) with e by lia; exact E5).
  assert (Hs : starting_block_epoch S0 n (e + 1) = S0 + e * n).
  { unfold starting_block_epoch. destruct (N.eqb_spec (e + 1) 0); [lia|]. now replace (e + 1 - 1) with e by lia. }
  rewrite Hs. rewrite (u64_sub_small (S0 + e * n) b) by lia.
  f_equal. f_equal. unfold go_int.
  assert (Hp : S0 + e * n - b < I63).
  { assert (e * n = (e - 1) * n + n) by (replace e with ((e - 1) + 1) at 1 by lia; lia). lia. }
  apply N.ltb_lt in Hp. now rewrite Hp.
Qed.

(* THE AGREEMENT: one step of the generated code = one step of the float model *)
Theorem step_agree : forall s b, S0 < I63 -> b < I63 ->
  GenEpoch.step S0 n P (of_st s) b =
  (let '(s', o) := step_f S0 n P s b in (of_st s', option_map conv_ev o)).
Proof.
  intros s b HS Hb63. unfold GenEpoch.step, step_f. cbv zeta. cbn [of_st internalStatus_lastBlockSeen internalStatus_waitingForEpoch].
  destruct (N.ltb_spec b S0) as [H|H]; [reflexivity|].
  destruct (N.leb_spec b (last_block_seen s)) as [H2|H2]; [reflexivity|].
  unfold set_internalStatus_lastBlockSeen. cbn [internalStatus_lastBlockSeen internalStatus_waitingForEpoch waiting_for_epoch].
  cbn [of_st internalStatus_lastBlockSeen internalStatus_waitingForEpoch].
  rewrite (isNotificationRequired_agree b (waiting_for_epoch s) H Hb63).
  assert (Hcl : snd (is_notification_required_f S0 n P b (waiting_for_epoch s)) = epoch_number S0 n b).
  { unfold is_notification_required_f. now destruct (f64_lt _ _). }
  destruct (is_notification_required_f S0 n P b (waiting_for_epoch s)) as [need closing] eqn:E. cbn [snd] in Hcl. subst closing.
  destruct need; [|reflexivity].
  rewrite (infoEpoch_agree b H Hb63). unfold set_internalStatus_waitingForEpoch. cbn [internalStatus_lastBlockSeen].
  destruct (epoch_bounds b H Hb63) as (E1 & E2 & _). pose proof U64_val.
  rewrite (u64_add_small (epoch_number S0 n b) 1) by lia. reflexivity.
Qed.
End Agree.

(* ---- the loop of startInternal over the generated step, and the C18 property on it ---- *)
From Coq Require Import List.
From Verif Require Import Proofs.EpochProofs Proofs.EpochFloatProofs.
Import ListNotations.

Fixpoint gen_run (S0 n P : N) (s : internalStatus) (bs : list N) : list (N * N) :=
  match bs with
  | [] => []
  | b :: t =>
      match GenEpoch.step S0 n P s b with
      | (s', Some (ep, _)) => (b, ep) :: gen_run S0 n P s' t
      | (s', None) => gen_run S0 n P s' t
      end
  end.

Lemma gen_run_is_model_run S0 n P : 1 <= n -> n < 2 ^ 45 -> P < 100 -> S0 < I63 ->
  forall bs s, Forall (fun b => b < I63) bs -> gen_run S0 n P (of_st s) bs = run S0 n P s bs.
Proof.
  intros Hn1 Hn45 HP HS. assert (Hn : n < I63) by (eapply N.lt_trans; [exact Hn45 | vm_compute; reflexivity]).
  induction bs as [|b t IH]; intros s Hall; [reflexivity|].
  inversion Hall as [|? ? Hb Ht]; subst. cbn [gen_run run].
  rewrite (step_agree S0 n P Hn1 Hn s b HS Hb), (step_f_agrees S0 n P s b Hn1 Hn45 HP).
  destruct (Epoch.step S0 n P s b) as [s' [e|]]; cbn [option_map conv_ev]; rewrite (IH s' Ht); reflexivity.
Qed.

(* THE C18 PROPERTY ON THE TRANSLATED GO CODE: the loop over the generated `step`, started from the generated form of the
   initial status, publishes exactly (first qualifying block, epoch) for every epoch that has one *)
Theorem gen_run_is_expected S0 n P : 1 <= n -> n < 2 ^ 45 -> P < 100 -> S0 < I63 ->
  forall bs, Forall (fun b => b < I63) bs ->
  gen_run S0 n P (of_st (init S0 n)) bs = expected S0 n P bs.
Proof.
  intros Hn1 Hn45 HP HS bs Hall. rewrite (gen_run_is_model_run S0 n P Hn1 Hn45 HP HS bs (init S0 n) Hall).
  now apply outputs_characterised.
Qed.
