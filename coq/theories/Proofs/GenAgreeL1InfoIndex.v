(* The two binary searches behind the bridge service's l1-info-tree-index endpoint, GENERATED from bridgeservice/bridge.go by
   tools/go2coq on every run (getFirstL1InfoTreeIndexForL1Bridge, getFirstL1InfoTreeIndexForL2Bridge: `for lower <= upper { .. break .. }`
   as a fixpoint on explicit fuel, the syncer calls as oracles, every pointer the code dereferences without a test as a panic
   parameter), compute what the model's first_index_l1 / first_index_l2 (Model/ClaimFlow.v, the subject of the C12 lookup theorems)
   compute: the same index, an error in the same cases, out of fuel for the same fuel - for every value of the panic and out-of-fuel
   parameters. The oracles are the model's stores; a syncer call that reports no error returns a non-nil result (how the real syncers
   behave; this is what makes the dereferences safe). Bound: block numbers are uint64 values. *)
From Coq Require Import NArith List Bool Lia.
From Verif Require Import Base.GoNum Model.ClaimFlow Gen.GenL1InfoIndex.
Import ListNotations.
Open Scope N_scope.

Section Agree.
Context {hash : Type}.
Variable St : @stores hash.
Variables panicv nofuel : N * gerr.
Variable dc : N.

Definition leaf_of (x : @info hash) : L1InfoTreeLeaf hash := mkL1InfoTreeLeaf hash (i_block x) (i_index x) (i_mer x).
Definition ver_of (v : @verified hash) : VerifyBatches hash := mkVerifyBatches hash (v_block v) (v_exit v) (v_rer v).
Definition ores {A B} (f : A -> B) (o : option A) : option B * gerr :=
  match o with Some a => (Some (f a), EOK) | None => (None, GoNum.ENotFound) end.

Definition o_lastInfo := ores leaf_of (li_last_info (s_li St)).
Definition o_firstInfo := ores leaf_of (li_first_info (s_li St)).
Definition o_infoAfter (b : N) := ores leaf_of (li_first_info_after (s_li St) b).
Definition o_rootL1 (h : hash) := ores mkRoot (br_root_index (s_l1 St) h).
Definition o_rootL2 (h : hash) := ores mkRoot (br_root_index (s_l2 St) h).
Definition o_lastVer (net : N) := ores ver_of (li_last_verified (s_li St) net).
Definition o_firstVer (net : N) := ores ver_of (li_first_verified (s_li St) net).
Definition o_verAfter (net b : N) := ores ver_of (li_first_verified_after (s_li St) net b).
Definition o_infoWithRer (h : hash) := ores leaf_of (li_first_info_with_rer (s_li St) h).

(* ---- uint64 arithmetic of the loops ---- *)
Lemma add1_64_is x : add1_64 x = u64_add x 1.
Proof. unfold add1_64, mask64, u64_add. rewrite N.land_ones. reflexivity. Qed.
Lemma sub1_64_is x : x < U64 -> sub1_64 x = u64_sub x 1.
Proof.
  intros Hx. unfold sub1_64, u64_sub. destruct (N.eqb_spec x 0) as [->|Hne]; [reflexivity|].
  replace (x + U64 - 1) with ((x - 1) + 1 * U64) by lia. rewrite N.mod_add by discriminate. symmetry. apply N.mod_small. lia.
Qed.
Lemma mid_is lo hi : lo <= hi -> hi < U64 -> u64_add lo (u64_div (u64_sub hi lo) 2) = lo + (hi - lo) / 2.
Proof.
  intros H1 H2. unfold u64_add, u64_div, u64_sub.
  replace (hi + U64 - lo) with ((hi - lo) + 1 * U64) by lia. rewrite N.mod_add by discriminate.
  rewrite (N.mod_small (hi - lo)) by lia. apply N.mod_small.
  assert ((hi - lo) / 2 <= hi - lo) by (apply N.div_le_upper_bound; lia). lia.
Qed.
Lemma add1_lt x : add1_64 x < U64.
Proof. rewrite add1_64_is. unfold u64_add. apply N.mod_lt. discriminate. Qed.
Lemma sub1_lt x : x < U64 -> sub1_64 x < U64.
Proof. intros H. unfold sub1_64, mask64. destruct (x =? 0); [vm_compute; reflexivity|lia]. Qed.

Definition err_res (r : N * gerr) : Prop := snd r <> EOK.
Lemma mer_leaf x : L1InfoTreeLeaf_MainnetExitRoot hash (leaf_of x) = i_mer x. Proof. reflexivity. Qed.
Lemma idx_leaf x : L1InfoTreeLeaf_L1InfoTreeIndex hash (leaf_of x) = i_index x. Proof. reflexivity. Qed.
Lemma blk_leaf x : L1InfoTreeLeaf_BlockNumber hash (leaf_of x) = i_block x. Proof. reflexivity. Qed.

(* ================= L1 bridges ================= *)
Fixpoint loop1 (fuel : nat) (bestResult : option (L1InfoTreeLeaf hash)) (lowerLimit upperLimit : N) : N * gerr :=
  if negb (N.leb lowerLimit upperLimit) then
    match bestResult with None => panicv | Some bestResult => (L1InfoTreeLeaf_L1InfoTreeIndex hash bestResult, EOK) end
  else
  match fuel with
  | O => nofuel
  | S fuel =>
    let targetBlock := u64_add lowerLimit (u64_div (u64_sub upperLimit lowerLimit) 2) in
    let '(targetInfo, err) := o_infoAfter targetBlock in
    if negb (err_eqb err EOK) then (0, err)
    else match targetInfo with
         | None => panicv
         | Some targetInfo =>
           let '(root, err) := o_rootL1 (L1InfoTreeLeaf_MainnetExitRoot hash targetInfo) in
           if negb (err_eqb err EOK) then (0, err)
           else match root with
                | None => panicv
                | Some root =>
                  if N.ltb (Root_Index root) dc then loop1 fuel bestResult (u64_add targetBlock 1) upperLimit
                  else if N.eqb (Root_Index root) dc then (L1InfoTreeLeaf_L1InfoTreeIndex hash targetInfo, EOK)
                  else loop1 fuel (Some targetInfo) lowerLimit (u64_sub targetBlock 1)
                end
         end
  end.

Lemma loop1_agree : forall fuel best lower upper, lower < U64 -> upper < U64 ->
  match bsearch (probe_l1 St) fuel dc lower upper best with
  | Ok x => loop1 fuel (Some (leaf_of best)) lower upper = (i_index x, EOK)
  | Err EFuel => loop1 fuel (Some (leaf_of best)) lower upper = nofuel
  | Err _ => err_res (loop1 fuel (Some (leaf_of best)) lower upper)
  end.
Proof.
  induction fuel as [|k IH]; intros best lower upper Hl Hu.
  - cbn [bsearch loop1]. destruct (N.ltb_spec upper lower) as [H|H].
    + replace (lower <=? upper) with false by (symmetry; apply N.leb_gt; exact H). reflexivity.
    + replace (lower <=? upper) with true by (symmetry; apply N.leb_le; exact H). reflexivity.
  - cbn [bsearch loop1]. destruct (N.ltb_spec upper lower) as [H|H].
    + replace (lower <=? upper) with false by (symmetry; apply N.leb_gt; exact H). reflexivity.
    + replace (lower <=? upper) with true by (symmetry; apply N.leb_le; exact H). cbn [negb].
      rewrite (mid_is lower upper H Hu). set (target := lower + (upper - lower) / 2).
      assert (Ht : target < U64).
      { unfold target. assert ((upper - lower) / 2 <= upper - lower) by (apply N.div_le_upper_bound; lia). lia. }
      unfold probe_l1, o_infoAfter, ores.
      destruct (li_first_info_after (s_li St) target) as [x|]; cbn [err_eqb negb]; [|unfold err_res; cbn; intro Hc; inversion Hc].
      unfold o_rootL1, ores. rewrite !mer_leaf.
      destruct (br_root_index (s_l1 St) (i_mer x)) as [r|]; cbn [err_eqb negb Root_Index]; [|unfold err_res; cbn; intro Hc; inversion Hc].
      destruct (r <? dc).
      * rewrite <- add1_64_is. apply IH; [apply add1_lt|exact Hu].
      * destruct (r =? dc); [reflexivity|].
        rewrite <- (sub1_64_is target Ht). apply IH; [exact Hl|apply sub1_lt; exact Ht].
Qed.

Lemma gen_l1_unfold fuel :
  getFirstL1InfoTreeIndexForL1Bridge hash o_lastInfo o_rootL1 o_firstInfo o_infoAfter panicv nofuel fuel dc =
  let '(lastInfo, err) := o_lastInfo in
  if negb (err_eqb err EOK) then (0, err) else
  match lastInfo with
  | None => panicv
  | Some lastInfo =>
    let '(root, err) := o_rootL1 (L1InfoTreeLeaf_MainnetExitRoot hash lastInfo) in
    if negb (err_eqb err EOK) then (0, err) else
    match root with
    | None => panicv
    | Some root =>
      if N.ltb (Root_Index root) dc then (0, EFail) else
      let '(firstInfo, err) := o_firstInfo in
      if negb (err_eqb err EOK) then (0, err) else
      match firstInfo with
      | None => panicv
      | Some firstInfo => loop1 fuel (Some lastInfo) (L1InfoTreeLeaf_BlockNumber hash firstInfo) (L1InfoTreeLeaf_BlockNumber hash lastInfo)
      end
    end
  end.
Proof. reflexivity. Qed.

Theorem getFirstL1InfoTreeIndexForL1Bridge_agree :
  (forall x, li_last_info (s_li St) = Some x -> i_block x < U64) ->
  (forall x, li_first_info (s_li St) = Some x -> i_block x < U64) ->
  match first_index_l1 St dc with
  | Ok i => getFirstL1InfoTreeIndexForL1Bridge hash o_lastInfo o_rootL1 o_firstInfo o_infoAfter panicv nofuel FUEL dc = (i, EOK)
  | Err EFuel => getFirstL1InfoTreeIndexForL1Bridge hash o_lastInfo o_rootL1 o_firstInfo o_infoAfter panicv nofuel FUEL dc = nofuel
  | Err _ => err_res (getFirstL1InfoTreeIndexForL1Bridge hash o_lastInfo o_rootL1 o_firstInfo o_infoAfter panicv nofuel FUEL dc)
  end.
Proof.
  intros HbL HbF. rewrite gen_l1_unfold. unfold first_index_l1, o_lastInfo, o_firstInfo, o_rootL1, ores. generalize FUEL; intros fuel.
  destruct (li_last_info (s_li St)) as [last|] eqn:EL; cbn [err_eqb negb]; [|intro Hc; discriminate Hc].
  rewrite !mer_leaf.
  destruct (br_root_index (s_l1 St) (i_mer last)) as [r|]; cbn [err_eqb negb Root_Index]; [|intro Hc; discriminate Hc].
  destruct (r <? dc); [intro Hc; discriminate Hc|].
  destruct (li_first_info (s_li St)) as [first|] eqn:EF; cbn [err_eqb negb]; [|intro Hc; discriminate Hc].
  rewrite !blk_leaf.
  pose proof (loop1_agree fuel last (i_block first) (i_block last) (HbF first eq_refl) (HbL last eq_refl)) as HA.
  destruct (bsearch (probe_l1 St) fuel dc (i_block first) (i_block last) last) as [best|e]; [exact HA|].
  destruct e; exact HA.
Qed.


(* ================= L2 bridges ================= *)
Lemma exit_ver x : VerifyBatches_ExitRoot hash (ver_of x) = v_exit x. Proof. reflexivity. Qed.
Lemma rer_ver x : VerifyBatches_RollupExitRoot hash (ver_of x) = v_rer x. Proof. reflexivity. Qed.
Lemma blk_ver x : VerifyBatches_BlockNumber hash (ver_of x) = v_block x. Proof. reflexivity. Qed.

Definition exit2 (bestResult : option (VerifyBatches hash)) : N * gerr :=
  match bestResult with
  | None => panicv
  | Some bestResult =>
    let '(info, err) := o_infoWithRer (VerifyBatches_RollupExitRoot hash bestResult) in
    if negb (err_eqb err EOK) then (0, err)
    else match info with None => panicv | Some info => (L1InfoTreeLeaf_L1InfoTreeIndex hash info, EOK) end
  end.

Fixpoint loop2 (fuel : nat) (bestResult : option (VerifyBatches hash)) (lowerLimit : N) (root : option Root) (upperLimit : N) : N * gerr :=
  if negb (N.leb lowerLimit upperLimit) then exit2 bestResult
  else
  match fuel with
  | O => nofuel
  | S fuel =>
    let targetBlock := u64_add lowerLimit (u64_div (u64_sub upperLimit lowerLimit) 2) in
    let '(targetVerified, err) := o_verAfter (s_net St) targetBlock in
    if negb (err_eqb err EOK) then (0, err)
    else match targetVerified with
         | None => panicv
         | Some targetVerified =>
           let '(root, err) := o_rootL2 (VerifyBatches_ExitRoot hash targetVerified) in
           if negb (err_eqb err EOK) then (0, err)
           else match root with
                | None => panicv
                | Some root =>
                  if N.ltb (Root_Index root) dc then loop2 fuel bestResult (u64_add targetBlock 1) (Some root) upperLimit
                  else if N.eqb (Root_Index root) dc then exit2 (Some targetVerified)
                  else loop2 fuel (Some targetVerified) lowerLimit (Some root) (u64_sub targetBlock 1)
                end
         end
  end.

Definition finish2 (r : cres (@verified hash)) : cres N :=
  match r with
  | Err e => Err e
  | Ok best => match li_first_info_with_rer (s_li St) (v_rer best) with None => Err ClaimFlow.ENotFound | Some inf => Ok (i_index inf) end
  end.

Lemma exit2_agree best :
  match finish2 (Ok best) with
  | Ok i => exit2 (Some (ver_of best)) = (i, EOK)
  | Err EFuel => exit2 (Some (ver_of best)) = nofuel
  | Err _ => err_res (exit2 (Some (ver_of best)))
  end.
Proof.
  unfold finish2, exit2, o_infoWithRer, ores. rewrite rer_ver.
  destruct (li_first_info_with_rer (s_li St) (v_rer best)) as [inf|]; cbn [err_eqb negb]; [reflexivity|intro Hc; discriminate Hc].
Qed.

Lemma loop2_agree : forall fuel best lower root upper, lower < U64 -> upper < U64 ->
  match finish2 (bsearch (probe_l2 St) fuel dc lower upper best) with
  | Ok i => loop2 fuel (Some (ver_of best)) lower root upper = (i, EOK)
  | Err EFuel => loop2 fuel (Some (ver_of best)) lower root upper = nofuel
  | Err _ => err_res (loop2 fuel (Some (ver_of best)) lower root upper)
  end.
Proof.
  induction fuel as [|k IH]; intros best lower root upper Hl Hu.
  - cbn [bsearch loop2]. destruct (N.ltb_spec upper lower) as [H|H].
    + replace (lower <=? upper) with false by (symmetry; apply N.leb_gt; exact H). cbn [negb]. apply exit2_agree.
    + replace (lower <=? upper) with true by (symmetry; apply N.leb_le; exact H). reflexivity.
  - cbn [bsearch loop2]. destruct (N.ltb_spec upper lower) as [H|H].
    + replace (lower <=? upper) with false by (symmetry; apply N.leb_gt; exact H). cbn [negb]. apply exit2_agree.
    + replace (lower <=? upper) with true by (symmetry; apply N.leb_le; exact H). cbn [negb].
      rewrite (mid_is lower upper H Hu). set (target := lower + (upper - lower) / 2).
      assert (Ht : target < U64).
      { unfold target. assert ((upper - lower) / 2 <= upper - lower) by (apply N.div_le_upper_bound; lia). lia. }
      unfold probe_l2, o_verAfter, ores.
      destruct (li_first_verified_after (s_li St) (s_net St) target) as [x|]; cbn [err_eqb negb finish2]; [|intro Hc; discriminate Hc].
      unfold o_rootL2, ores. rewrite !exit_ver.
      destruct (br_root_index (s_l2 St) (v_exit x)) as [r|]; cbn [err_eqb negb Root_Index finish2]; [|intro Hc; discriminate Hc].
      destruct (r <? dc).
      * rewrite <- add1_64_is. apply IH; [apply add1_lt|exact Hu].
      * destruct (r =? dc); [apply exit2_agree|].
        rewrite <- (sub1_64_is target Ht). apply IH; [exact Hl|apply sub1_lt; exact Ht].
Qed.

Lemma gen_l2_unfold fuel :
  getFirstL1InfoTreeIndexForL2Bridge hash (s_net St) o_lastVer o_rootL2 o_firstVer o_infoWithRer o_verAfter panicv nofuel fuel dc =
  let '(lastVerified, err) := o_lastVer (s_net St) in
  if negb (err_eqb err EOK) then (0, err) else
  match lastVerified with
  | None => panicv
  | Some lastVerified =>
    let '(root, err) := o_rootL2 (VerifyBatches_ExitRoot hash lastVerified) in
    if negb (err_eqb err EOK) then (0, err) else
    match root with
    | None => panicv
    | Some root =>
      if N.ltb (Root_Index root) dc then (0, EFail) else
      let '(firstVerified, err) := o_firstVer (s_net St) in
      if negb (err_eqb err EOK) then (0, err) else
      match firstVerified with
      | None => panicv
      | Some firstVerified =>
        loop2 fuel (Some lastVerified) (VerifyBatches_BlockNumber hash firstVerified) (Some root) (VerifyBatches_BlockNumber hash lastVerified)
      end
    end
  end.
Proof. reflexivity. Qed.

Theorem getFirstL1InfoTreeIndexForL2Bridge_agree :
  (forall x, li_last_verified (s_li St) (s_net St) = Some x -> v_block x < U64) ->
  (forall x, li_first_verified (s_li St) (s_net St) = Some x -> v_block x < U64) ->
  match first_index_l2 St dc with
  | Ok i => getFirstL1InfoTreeIndexForL2Bridge hash (s_net St) o_lastVer o_rootL2 o_firstVer o_infoWithRer o_verAfter panicv nofuel FUEL dc = (i, EOK)
  | Err EFuel => getFirstL1InfoTreeIndexForL2Bridge hash (s_net St) o_lastVer o_rootL2 o_firstVer o_infoWithRer o_verAfter panicv nofuel FUEL dc = nofuel
  | Err _ => err_res (getFirstL1InfoTreeIndexForL2Bridge hash (s_net St) o_lastVer o_rootL2 o_firstVer o_infoWithRer o_verAfter panicv nofuel FUEL dc)
  end.
Proof.
  intros HbL HbF. rewrite gen_l2_unfold. unfold first_index_l2, o_lastVer, o_firstVer, o_rootL2, ores. generalize FUEL; intros fuel.
  destruct (li_last_verified (s_li St) (s_net St)) as [last|] eqn:EL; cbn [err_eqb negb]; [|intro Hc; discriminate Hc].
  rewrite !exit_ver.
  destruct (br_root_index (s_l2 St) (v_exit last)) as [r|]; cbn [err_eqb negb Root_Index]; [|intro Hc; discriminate Hc].
  destruct (r <? dc); [intro Hc; discriminate Hc|].
  destruct (li_first_verified (s_li St) (s_net St)) as [first|] eqn:EF; cbn [err_eqb negb]; [|intro Hc; discriminate Hc].
  rewrite !blk_ver.
  pose proof (loop2_agree fuel last (v_block first) (Some (mkRoot r)) (v_block last) (HbF first eq_refl) (HbL last eq_refl)) as HA.
  unfold finish2 in HA.
  destruct (bsearch (probe_l2 St) fuel dc (v_block first) (v_block last) last) as [best|e]; [exact HA|].
  destruct e; exact HA.
Qed.

End Agree.
