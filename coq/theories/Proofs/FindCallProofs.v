(* C20 proofs: findCall (explicit LIFO stack, reverted frames skipped) = scan of the live frames in visit order;
   soundness, completeness, error => claim untouched, recorded fields = fields of the found call; fuel bound. *)
From Coq Require Import NArith List Bool Lia Arith.
From Verif Require Import Model.FindCall.
Import ListNotations.
Open Scope N_scope.

Section FindCallProofs.
  Variable input : Type.
  Variable selector : input -> option N.
  Variable unpack : gen -> input -> option (N * details).
  Variable hash2 : N -> N -> N.

  Local Notation call := (call input).
  Local Notation size := (size input).
  Local Notation sizes := (sizes input).
  Local Notation callback := (callback input selector unpack hash2).
  Local Notation try_decode := (try_decode input selector unpack hash2).
  Local Notation push_children := (push_children input).
  Local Notation dfs := (dfs input selector unpack hash2).
  Local Notation find_call := (find_call input selector unpack hash2).
  Local Notation set_claim_calldata := (set_claim_calldata input selector unpack hash2).
  Local Notation decode_claim := (decode_claim input selector unpack).
  Local Notation gindex_of := (gindex_of input selector unpack).
  Local Notation live := (live input).
  Local Notation subcall := (subcall input).
  Local Notation visit_order := (visit_order input).
  Local Notation scan := (scan input selector unpack hash2).
  Local Notation live_calls := (live_calls input).
  Local Notation all_calls := (all_calls input).
  Local Notation set_details := (set_details hash2).
  Local Notation records := (records hash2).
  Local Notation all_bridge_calls_are_claims := (all_bridge_calls_are_claims input selector unpack).
  Local Notation live_bridge_calls_are_claims := (live_bridge_calls_are_claims input selector unpack).
  Local Notation matching := (matching input selector unpack).

  (* ---------- nested induction principle for call trees ---------- *)
  Fixpoint call_ind' (P : call -> Prop)
      (H : forall t f e i l, Forall P l -> P (Call t f e i l)) (c : call) : P c :=
    match c with
    | Call t f e i l =>
      H t f e i l ((fix go (l : list call) : Forall P l :=
                      match l with [] => Forall_nil P | x :: r => Forall_cons x (call_ind' P H x) (go r) end) l)
    end.

  (* ---------- sizes (fuel bound) ---------- *)
  Lemma size_unfold t f e i l : size (Call t f e i l) = S (sizes l).
  Proof.
    change (size (Call t f e i l))
      with (S ((fix sl (l : list call) : nat := match l with [] => 0 | x :: t => size x + sl t end%nat) l)).
    apply f_equal. induction l as [|x l IH]; [reflexivity|].
    cbn [FindCall.sizes fold_right]. fold (sizes l). rewrite <- IH. reflexivity.
  Qed.
  Lemma sizes_cons x a : sizes (x :: a) = (size x + sizes a)%nat.
  Proof. reflexivity. Qed.
  Lemma sizes_app a b : sizes (a ++ b) = (sizes a + sizes b)%nat.
  Proof. induction a as [|x a IH]; [reflexivity|]. cbn [app]. rewrite !sizes_cons, IH. lia. Qed.
  Lemma sizes_rev a : sizes (rev a) = sizes a.
  Proof.
    induction a as [|x a IH]; [reflexivity|]. cbn [rev]. rewrite sizes_app, IH, !sizes_cons.
    cbn [FindCall.sizes fold_right]. lia.
  Qed.
  Lemma sizes_filter p a : (sizes (filter p a) <= sizes a)%nat.
  Proof. induction a as [|x a IH]; [reflexivity|]. cbn [filter]. destruct (p x); rewrite !sizes_cons; lia. Qed.
  Lemma size_pos c : (1 <= size c)%nat.
  Proof. destruct c. rewrite size_unfold. lia. Qed.
  Lemma push_size c rest : (sizes (push_children c rest) < size c + sizes rest)%nat.
  Proof.
    unfold FindCall.push_children. rewrite sizes_app, sizes_rev. destruct c as [t f e i l].
    rewrite size_unfold. cbn [c_calls].
    pose proof (sizes_filter (fun x => negb (c_err x)) l). lia.
  Qed.

  (* ---------- the callback ---------- *)
  Lemma dispatch_msg s g m : dispatch s = Some (g, m) ->
    m = ((s =? sel_msg_etrog) || (s =? sel_msg_pre)) /\
    (g = Etrog <-> (s = sel_asset_etrog \/ s = sel_msg_etrog)) /\
    (g = PreEtrog <-> (s = sel_asset_pre \/ s = sel_msg_pre)).
  Proof.
    unfold dispatch.
    destruct (s =? sel_asset_etrog) eqn:E1; [apply N.eqb_eq in E1; subst s; cbn; intros H; inversion H; subst;
      repeat split; intros; auto; try discriminate; destruct H0; discriminate|].
    destruct (s =? sel_msg_etrog) eqn:E2; [apply N.eqb_eq in E2; subst s; cbn; intros H; inversion H; subst;
      repeat split; intros; auto; try discriminate; destruct H0; discriminate|].
    cbn [orb].
    destruct (s =? sel_asset_pre) eqn:E3; [apply N.eqb_eq in E3; subst s; cbn; intros H; inversion H; subst;
      repeat split; intros; auto; try discriminate; destruct H0; discriminate|].
    destruct (s =? sel_msg_pre) eqn:E4; [apply N.eqb_eq in E4; subst s; cbn; intros H; inversion H; subst;
      repeat split; intros; auto; try discriminate; destruct H0; discriminate|].
    cbn. discriminate.
  Qed.

  (* try_decode in terms of decode_claim *)
  Lemma try_decode_spec cl sender inp :
    match decode_claim inp with
    | Some (g, m, gi, d) =>
        try_decode cl sender inp =
        if gi =? cl_gi cl then (DFound, set_is_message (set_details g cl d sender) m) else (DNot, cl)
    | None => exists e, try_decode cl sender inp = (DErr e, cl) /\ e <> EOutOfFuel /\ e <> ENotFound /\ e <> ERootReverted /\ e <> ERpc
    end.
  Proof.
    unfold FindCall.decode_claim, FindCall.try_decode.
    destruct (selector inp) as [s|]; [|exists EShort; repeat split; discriminate].
    destruct (dispatch s) as [[g m]|]; [|exists ESelector; repeat split; discriminate].
    destruct (unpack g inp) as [[gi d]|]; [|exists EUnpack; repeat split; discriminate].
    unfold decode_calldata. destruct (gi =? cl_gi cl); reflexivity.
  Qed.

  Lemma callback_found cl c cl' : callback cl c = (DFound, cl') ->
    c_err c = false /\ exists g m d, decode_claim (c_inp c) = Some (g, m, cl_gi cl, d) /\
      cl' = set_is_message (set_details g cl d (c_from c)) m.
  Proof.
    unfold FindCall.callback. destruct (c_err c); [discriminate|]. intros H. split; [reflexivity|].
    pose proof (try_decode_spec cl (c_from c) (c_inp c)) as S.
    destruct (decode_claim (c_inp c)) as [[[[g m] gi] d]|].
    - rewrite S in H. destruct (gi =? cl_gi cl) eqn:E; [|discriminate].
      apply N.eqb_eq in E. subst gi. inversion H. exists g, m, d. split; reflexivity.
    - destruct S as (e & S & _). rewrite S in H. discriminate.
  Qed.

  Lemma callback_not cl c cl' : callback cl c = (DNot, cl') ->
    cl' = cl /\ (c_err c = true \/ exists g m gi d, decode_claim (c_inp c) = Some (g, m, gi, d) /\ gi <> cl_gi cl).
  Proof.
    unfold FindCall.callback. destruct (c_err c); [intros H; inversion H; split; [reflexivity|left; reflexivity]|].
    intros H. pose proof (try_decode_spec cl (c_from c) (c_inp c)) as S.
    destruct (decode_claim (c_inp c)) as [[[[g m] gi] d]|].
    - rewrite S in H. destruct (gi =? cl_gi cl) eqn:E; [discriminate|]. inversion H; subst cl'. split; [reflexivity|].
      right. exists g, m, gi, d. split; [reflexivity|]. apply N.eqb_neq. exact E.
    - destruct S as (e & S & _). rewrite S in H. discriminate.
  Qed.

  Lemma callback_err cl c e cl' : callback cl c = (DErr e, cl') ->
    cl' = cl /\ c_err c = false /\ decode_claim (c_inp c) = None /\
    e <> EOutOfFuel /\ e <> ENotFound /\ e <> ERootReverted /\ e <> ERpc.
  Proof.
    unfold FindCall.callback. destruct (c_err c); [discriminate|].
    intros H. pose proof (try_decode_spec cl (c_from c) (c_inp c)) as S.
    destruct (decode_claim (c_inp c)) as [[[[g m] gi] d]|].
    - rewrite S in H. destruct (gi =? cl_gi cl); discriminate.
    - destruct S as (e' & S & Hne). rewrite S in H. inversion H; subst. repeat split; apply Hne.
  Qed.

  Lemma callback_of_decode cl c g m gi d : c_err c = false -> decode_claim (c_inp c) = Some (g, m, gi, d) ->
    callback cl c = if gi =? cl_gi cl then (DFound, set_is_message (set_details g cl d (c_from c)) m) else (DNot, cl).
  Proof.
    intros He Hd. unfold FindCall.callback. rewrite He.
    pose proof (try_decode_spec cl (c_from c) (c_inp c)) as S. rewrite Hd in S. exact S.
  Qed.

  (* ---------- visit order ---------- *)
  Lemma visit_order_unfold t f e i l :
    visit_order (Call t f e i l) = if e then [] else Call t f e i l :: flat_map visit_order (rev l).
  Proof.
    change (visit_order (Call t f e i l)) with
      (if e then [] else Call t f e i l ::
         (fix go (l : list call) : list call := match l with [] => [] | x :: t => go t ++ visit_order x end) l).
    destruct e; [reflexivity|]. apply f_equal.
    induction l as [|x l IH]; [reflexivity|]. cbn [rev]. rewrite flat_map_app, IH. cbn [flat_map]. rewrite app_nil_r. reflexivity.
  Qed.

  Lemma visit_order_reverted c : c_err c = true -> visit_order c = [].
  Proof. destruct c as [t f e i l]. cbn [c_err]. intros ->. rewrite visit_order_unfold. reflexivity. Qed.

  Lemma visit_order_live c : c_err c = false -> visit_order c = c :: flat_map visit_order (rev (c_calls c)).
  Proof. destruct c as [t f e i l]. cbn [c_err c_calls]. intros ->. rewrite visit_order_unfold. reflexivity. Qed.

  Lemma flat_map_visit_filter l :
    flat_map visit_order (rev (filter (fun x => negb (c_err x)) l)) = flat_map visit_order (rev l).
  Proof.
    induction l as [|x l IH]; [reflexivity|]. cbn [filter rev].
    destruct (c_err x) eqn:E; cbn [negb].
    - rewrite flat_map_app, IH. cbn [flat_map]. rewrite (visit_order_reverted x E). rewrite !app_nil_r. reflexivity.
    - cbn [rev]. rewrite !flat_map_app, IH. reflexivity.
  Qed.

  Lemma visit_order_push c rest : c_err c = false ->
    flat_map visit_order (c :: rest) = c :: flat_map visit_order (push_children c rest).
  Proof.
    intros E. cbn [flat_map]. rewrite (visit_order_live c E). unfold FindCall.push_children.
    rewrite flat_map_app, flat_map_visit_filter. reflexivity.
  Qed.

  (* ---------- the stack loop is the scan of the visit order (given fuel above the number of frames) ---------- *)
  Lemma dfs_scan target fuel : forall stack cl, (sizes stack < fuel)%nat ->
    dfs fuel target stack cl = scan target (flat_map visit_order stack) cl.
  Proof.
    induction fuel as [|fuel IH]; intros stack cl Hf; [lia|].
    destruct stack as [|c rest]; [reflexivity|].
    rewrite sizes_cons in Hf. pose proof (size_pos c) as Hp. pose proof (push_size c rest) as Hps.
    cbn [FindCall.dfs]. destruct (c_err c) eqn:E.
    - cbn [flat_map]. rewrite (visit_order_reverted c E). cbn [app]. apply IH. lia.
    - rewrite (visit_order_push c rest E). cbn [FindCall.scan].
      destruct (c_to c =? target).
      + destruct (callback cl c) as [[| |e] cl']; try reflexivity. apply IH. lia.
      + apply IH. lia.
  Qed.

  Theorem find_call_scan root target cl : find_call root target cl = scan target (visit_order root) cl.
  Proof.
    unfold FindCall.find_call. rewrite dfs_scan.
    - cbn [flat_map]. rewrite app_nil_r. reflexivity.
    - rewrite sizes_cons. cbn [FindCall.sizes fold_right]. lia.
  Qed.

  (* ---------- visit order / reference enumerations = the inductive notions ---------- *)
  Lemma live_root_ok c d : live c d -> c_err c = false.
  Proof. intros H. inversion H; assumption. Qed.
  Lemma live_end_ok c d : live c d -> c_err d = false.
  Proof. induction 1; assumption. Qed.

  Lemma in_visit_order_live : forall c d, In d (visit_order c) -> live c d.
  Proof.
    intros c. induction c as [t f e i l IH] using call_ind'. intros d H.
    rewrite visit_order_unfold in H. destruct e eqn:E; [destruct H|].
    destruct H as [H|H].
    - subst d. apply live_here. reflexivity.
    - apply in_flat_map in H as (x & Hx & Hd). apply in_rev in Hx.
      rewrite Forall_forall in IH. eapply live_child; [reflexivity|exact Hx|apply IH; assumption].
  Qed.

  Lemma live_in_visit_order c d : live c d -> In d (visit_order c).
  Proof.
    induction 1 as [c E|c x d E Hx Hl IH].
    - rewrite (visit_order_live c E). left. reflexivity.
    - rewrite (visit_order_live c E). right. apply in_flat_map. exists x. split; [apply -> in_rev; exact Hx|exact IH].
  Qed.

  Lemma live_calls_unfold t f e i l :
    live_calls (Call t f e i l) = if e then [] else Call t f e i l :: flat_map live_calls l.
  Proof.
    change (live_calls (Call t f e i l)) with
      (if e then [] else Call t f e i l ::
         (fix go (l : list call) : list call := match l with [] => [] | x :: t => live_calls x ++ go t end) l).
    destruct e; [reflexivity|]. apply f_equal. induction l as [|x l IH]; [reflexivity|]. cbn [flat_map]. rewrite IH. reflexivity.
  Qed.

  Lemma in_live_calls_iff : forall c d, In d (live_calls c) <-> live c d.
  Proof.
    intros c d. split.
    - revert d. induction c as [t f e i l IH] using call_ind'. intros d H.
      rewrite live_calls_unfold in H. destruct e eqn:E; [destruct H|].
      destruct H as [H|H].
      + subst d. apply live_here. reflexivity.
      + apply in_flat_map in H as (x & Hx & Hd). rewrite Forall_forall in IH.
        eapply live_child; [reflexivity|exact Hx|apply IH; assumption].
    - induction 1 as [c E|c x d E Hx Hl IH]; destruct c as [t f e i l]; cbn [c_err c_calls] in *; subst e;
        rewrite live_calls_unfold.
      + left. reflexivity.
      + right. apply in_flat_map. exists x. split; assumption.
  Qed.

  Lemma all_calls_unfold t f e i l : all_calls (Call t f e i l) = Call t f e i l :: flat_map all_calls l.
  Proof.
    change (all_calls (Call t f e i l)) with
      (Call t f e i l ::
         (fix go (l : list call) : list call := match l with [] => [] | x :: t => all_calls x ++ go t end) l).
    apply f_equal. induction l as [|x l IH]; [reflexivity|]. cbn [flat_map]. rewrite IH. reflexivity.
  Qed.

  Lemma in_all_calls_iff : forall c d, In d (all_calls c) <-> subcall c d.
  Proof.
    intros c d. split.
    - revert d. induction c as [t f e i l IH] using call_ind'. intros d H.
      rewrite all_calls_unfold in H. destruct H as [H|H].
      + subst d. apply sub_here.
      + apply in_flat_map in H as (x & Hx & Hd). rewrite Forall_forall in IH.
        eapply sub_child; [exact Hx|apply IH; assumption].
    - induction 1 as [c|c x d Hx Hl IH]; destruct c as [t f e i l]; cbn [c_calls] in *; rewrite all_calls_unfold.
      + left. reflexivity.
      + right. apply in_flat_map. exists x. split; assumption.
  Qed.

  Lemma live_subcall c d : live c d -> subcall c d.
  Proof. induction 1; [apply sub_here|eapply sub_child; eassumption]. Qed.

  (* ---------- properties of the scan, for any list of frames ---------- *)
  Lemma scan_ok target : forall L cl c cl', scan target L cl = (ROk c, cl') ->
    In c L /\ c_to c = target /\ callback cl c = (DFound, cl').
  Proof.
    induction L as [|x L IH]; intros cl c cl' H; [discriminate|]. cbn [FindCall.scan] in H.
    destruct (c_to x =? target) eqn:T.
    - destruct (callback cl x) as [[| |e] cl1] eqn:CB.
      + inversion H; subst. repeat split; [left; reflexivity|apply N.eqb_eq; exact T|exact CB].
      + apply callback_not in CB as [-> _]. destruct (IH _ _ _ H) as (Hi & Ht & Hc). repeat split; [right|..]; assumption.
      + discriminate.
    - destruct (IH _ _ _ H) as (Hi & Ht & Hc). repeat split; [right|..]; assumption.
  Qed.

  Lemma scan_err target : forall L cl e cl', scan target L cl = (RErr e, cl') ->
    cl' = cl /\ e <> EOutOfFuel /\ e <> ERootReverted /\ e <> ERpc /\
    (e = ENotFound \/ exists x, In x L /\ c_to x = target /\ c_err x = false /\ decode_claim (c_inp x) = None).
  Proof.
    induction L as [|x L IH]; intros cl e cl' H; cbn [FindCall.scan] in H.
    - inversion H; subst. repeat split; try discriminate. left. reflexivity.
    - destruct (c_to x =? target) eqn:T.
      + destruct (callback cl x) as [[| |e1] cl1] eqn:CB.
        * discriminate.
        * apply callback_not in CB as [-> _]. destruct (IH _ _ _ H) as (A & B & C & D & [E|(y & Hy)]).
          -- repeat split; try assumption. left. exact E.
          -- repeat split; try assumption. right. exists y. destruct Hy as (Hy & Hy'). split; [right; exact Hy|exact Hy'].
        * inversion H; subst. apply callback_err in CB as (-> & He & Hd & N1 & N2 & N3 & N4).
          repeat split; try assumption. right. exists x. repeat split; [left; reflexivity|apply N.eqb_eq; exact T|exact He|exact Hd].
      + destruct (IH _ _ _ H) as (A & B & C & D & [E|(y & Hy)]).
        * repeat split; try assumption. left. exact E.
        * repeat split; try assumption. right. exists y. destruct Hy as (Hy & Hy'). split; [right; exact Hy|exact Hy'].
  Qed.

  Lemma scan_complete target : forall L cl,
    (forall d, In d L -> c_err d = false) ->
    (forall d, In d L -> c_to d = target -> decode_claim (c_inp d) <> None) ->
    (exists d, In d L /\ c_to d = target /\ gindex_of (c_inp d) = Some (cl_gi cl)) ->
    exists c cl', scan target L cl = (ROk c, cl').
  Proof.
    induction L as [|x L IH]; intros cl Hlive Hdec (d & Hd & Ht & Hg); [destruct Hd|].
    cbn [FindCall.scan].
    assert (Hx : c_err x = false) by (apply Hlive; left; reflexivity).
    assert (Hrest : x <> d \/ c_to x =? target = false ->
              exists d0, In d0 L /\ c_to d0 = target /\ gindex_of (c_inp d0) = Some (cl_gi cl)).
    { intros Hne. destruct Hd as [Heq|Hd].
      - subst d. destruct Hne as [Hne|Hne]; [congruence|]. apply N.eqb_neq in Hne. congruence.
      - exists d. repeat split; assumption. }
    destruct (c_to x =? target) eqn:T.
    - apply N.eqb_eq in T.
      destruct (decode_claim (c_inp x)) as [[[[g m] gi] dd]|] eqn:D;
        [|exfalso; apply (Hdec x (or_introl eq_refl) T D)].
      rewrite (callback_of_decode cl x g m gi dd Hx D).
      destruct (gi =? cl_gi cl) eqn:G.
      + eexists; eexists; reflexivity.
      + apply IH; [intros; apply Hlive; right; assumption|intros; apply Hdec; [right|]; assumption|].
        apply Hrest. left. intros ->. unfold FindCall.gindex_of in Hg. rewrite D in Hg. inversion Hg; subst.
        rewrite N.eqb_refl in G. discriminate.
    - apply IH; [intros; apply Hlive; right; assumption|intros; apply Hdec; [right|]; assumption|].
      apply Hrest. right. reflexivity.
  Qed.

  Lemma scan_none target : forall L cl,
    (forall d, In d L -> c_to d = target -> gindex_of (c_inp d) <> Some (cl_gi cl)) ->
    exists e, scan target L cl = (RErr e, cl) /\ e <> EOutOfFuel.
  Proof.
    induction L as [|x L IH]; intros cl Hno; cbn [FindCall.scan].
    - exists ENotFound. split; [reflexivity|discriminate].
    - destruct (c_to x =? target) eqn:T.
      + destruct (callback cl x) as [[| |e1] cl1] eqn:CB.
        * exfalso. apply callback_found in CB as (_ & g & m & d & Hd & _).
          apply (Hno x (or_introl eq_refl)); [apply N.eqb_eq; exact T|].
          unfold FindCall.gindex_of. rewrite Hd. reflexivity.
        * apply callback_not in CB as [-> _]. apply IH. intros d Hd. apply Hno. right. exact Hd.
        * apply callback_err in CB as (-> & _ & _ & N1 & _). exists e1. split; [reflexivity|exact N1].
      + apply IH. intros d Hd. apply Hno. right. exact Hd.
  Qed.

  (* ---------- the theorems about setClaimCalldata ---------- *)
  Lemma scc_live root bridge cl :
    set_claim_calldata (Some root) bridge cl =
    if c_err root then (RErr ERootReverted, cl) else scan bridge (visit_order root) cl.
  Proof. unfold FindCall.set_claim_calldata. destruct (c_err root); [reflexivity|apply find_call_scan]. Qed.

  Theorem find_call_sound root bridge cl c cl' :
    set_claim_calldata (Some root) bridge cl = (ROk c, cl') -> matching bridge (cl_gi cl) root c.
  Proof.
    rewrite scc_live. destruct (c_err root); [discriminate|]. intros H.
    apply scan_ok in H as (Hi & Ht & Hc). apply callback_found in Hc as (_ & g & m & d & Hd & _).
    split; [apply in_visit_order_live; exact Hi|]. split; [exact Ht|].
    unfold FindCall.gindex_of. rewrite Hd. reflexivity.
  Qed.

  Theorem find_call_complete_live root bridge cl :
    live_bridge_calls_are_claims bridge root ->
    (exists d, matching bridge (cl_gi cl) root d) ->
    exists c cl', set_claim_calldata (Some root) bridge cl = (ROk c, cl').
  Proof.
    intros Hall (d & Hl & Ht & Hg). rewrite scc_live. rewrite (live_root_ok _ _ Hl).
    apply scan_complete.
    - intros x Hx. apply in_visit_order_live in Hx. eapply live_end_ok; exact Hx.
    - intros x Hx. apply Hall. apply in_visit_order_live. exact Hx.
    - exists d. split; [apply live_in_visit_order; exact Hl|split; assumption].
  Qed.

  Theorem find_call_complete root bridge cl :
    all_bridge_calls_are_claims bridge root ->
    (exists d, matching bridge (cl_gi cl) root d) ->
    exists c cl', set_claim_calldata (Some root) bridge cl = (ROk c, cl').
  Proof.
    intros Hall. apply find_call_complete_live. intros d Hl. apply Hall. apply live_subcall. exact Hl.
  Qed.

  Theorem none_means_error_and_untouched root bridge cl :
    (forall d, ~ matching bridge (cl_gi cl) root d) ->
    exists e, set_claim_calldata (Some root) bridge cl = (RErr e, cl) /\ e <> EOutOfFuel.
  Proof.
    intros Hno. rewrite scc_live. destruct (c_err root); [exists ERootReverted; split; [reflexivity|discriminate]|].
    apply scan_none. intros d Hd Ht Hg. apply (Hno d). split; [apply in_visit_order_live; exact Hd|split; assumption].
  Qed.

  (* inside the property's quantifier the error is "not found" or "root call reverted" *)
  Theorem none_error_kind root bridge cl e cl' :
    live_bridge_calls_are_claims bridge root ->
    set_claim_calldata (Some root) bridge cl = (RErr e, cl') -> e = ENotFound \/ e = ERootReverted.
  Proof.
    intros Hall. rewrite scc_live. destruct (c_err root); [intros H; inversion H; right; reflexivity|].
    intros H. apply scan_err in H as (_ & _ & _ & _ & [E|(x & Hx & Ht & _ & Hd)]); [left; exact E|].
    exfalso. apply (Hall x); [apply in_visit_order_live; exact Hx|exact Ht|exact Hd].
  Qed.

  Theorem error_leaves_claim_untouched trace bridge cl e cl' :
    set_claim_calldata trace bridge cl = (RErr e, cl') -> cl' = cl.
  Proof.
    destruct trace as [root|]; [|intros H; inversion H; reflexivity].
    rewrite scc_live. destruct (c_err root); [intros H; inversion H; reflexivity|].
    intros H. apply scan_err in H as (-> & _). reflexivity.
  Qed.

  Theorem never_out_of_fuel trace bridge cl cl' :
    set_claim_calldata trace bridge cl <> (RErr EOutOfFuel, cl').
  Proof.
    destruct trace as [root|]; [|discriminate].
    rewrite scc_live. destruct (c_err root); [discriminate|].
    intros H. apply scan_err in H as (_ & N & _). apply N. reflexivity.
  Qed.

  Lemma set_details_records g m cl d sender :
    records cl (set_is_message (set_details g cl d sender) m) sender g m d.
  Proof. unfold FindCall.records. cbn. repeat split; reflexivity. Qed.

  Theorem details_are_of_found_call root bridge cl c cl' :
    set_claim_calldata (Some root) bridge cl = (ROk c, cl') ->
    exists g m d s,
      decode_claim (c_inp c) = Some (g, m, cl_gi cl, d) /\
      records cl cl' (c_from c) g m d /\
      selector (c_inp c) = Some s /\ m = ((s =? sel_msg_etrog) || (s =? sel_msg_pre)).
  Proof.
    rewrite scc_live. destruct (c_err root); [discriminate|]. intros H.
    apply scan_ok in H as (_ & _ & Hc). apply callback_found in Hc as (_ & g & m & d & Hd & ->).
    assert (exists s, selector (c_inp c) = Some s /\ dispatch s = Some (g, m)) as (s & Hs & Hdi).
    { unfold FindCall.decode_claim in Hd. destruct (selector (c_inp c)) as [s|]; [|discriminate].
      exists s. split; [reflexivity|]. destruct (dispatch s) as [[g0 m0]|]; [|discriminate].
      destruct (unpack g0 (c_inp c)) as [[gi0 d0]|]; [|discriminate]. inversion Hd; subst. reflexivity. }
    exists g, m, d, s. split; [exact Hd|]. split; [apply set_details_records|]. split; [exact Hs|].
    apply (dispatch_msg s g m Hdi).
  Qed.

  (* which of several matching calls is taken: the first one in visit order (frame before its children, children
     last-to-first); everything before it in that order is not addressed to the bridge or carries another index *)
  Lemma scan_first target : forall L cl c cl',
    (forall d, In d L -> c_err d = false) ->
    scan target L cl = (ROk c, cl') ->
    exists before after, L = before ++ c :: after /\
      forall x, In x before -> c_to x = target -> gindex_of (c_inp x) <> Some (cl_gi cl).
  Proof.
    induction L as [|x L IH]; intros cl c cl' Hlive H; [discriminate|].
    assert (Hx : c_err x = false) by (apply Hlive; left; reflexivity).
    assert (HL : forall d, In d L -> c_err d = false) by (intros; apply Hlive; right; assumption).
    cbn [FindCall.scan] in H. destruct (c_to x =? target) eqn:T.
    - destruct (callback cl x) as [[| |e] cl1] eqn:CB.
      + inversion H; subst. exists [], L. split; [reflexivity|]. intros y [].
      + apply callback_not in CB as [-> Hn]. destruct (IH _ _ _ HL H) as (b & a & -> & Hb).
        exists (x :: b), a. split; [reflexivity|]. intros y [<-|Hy]; [|apply Hb; exact Hy].
        intros _ Hg. destruct Hn as [He|(g & m & gi & d & Hd & Hne)]; [congruence|].
        unfold FindCall.gindex_of in Hg. rewrite Hd in Hg. inversion Hg. congruence.
      + discriminate.
    - destruct (IH _ _ _ HL H) as (b & a & -> & Hb). exists (x :: b), a. split; [reflexivity|].
      intros y [<-|Hy]; [|apply Hb; exact Hy]. intros Ht. apply N.eqb_neq in T. congruence.
  Qed.

  Theorem found_is_first_in_visit_order root bridge cl c cl' :
    set_claim_calldata (Some root) bridge cl = (ROk c, cl') ->
    exists before after, visit_order root = before ++ c :: after /\
      forall x, In x before -> c_to x = bridge -> gindex_of (c_inp x) <> Some (cl_gi cl).
  Proof.
    rewrite scc_live. destruct (c_err root); [discriminate|]. apply scan_first.
    intros d Hd. apply in_visit_order_live in Hd. eapply live_end_ok; exact Hd.
  Qed.
End FindCallProofs.
