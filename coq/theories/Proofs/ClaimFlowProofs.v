(* C12 - proofs about the bridge API's claim flow (Model/ClaimFlow.v).
   Generic in the digest type and in the stores behind the service: the syncers are records of query functions; what is
   assumed about them is stated as explicit well-formedness predicates (wf_blocks, verified_coherent, rer_lookup_sound,
   bridge_closed ...), each shown to hold of the executable instance or derived from C08's closed-store invariant. *)
From Coq Require Import NArith ZArith List Bool Lia Arith PeanoNat.
From Verif Require Import Model.Merkle Model.MerkleSpec Model.TreeStore Model.ClaimFlow
                          Proofs.Frontier Proofs.Rht Proofs.Sparse Proofs.BitFacts.
Import ListNotations.

(* ------------------------------------------------------------------------------------------------ *)
(* the tree algorithms look at the index bits pointwise: N-indexed (model) = nat-indexed (theory)    *)
(* ------------------------------------------------------------------------------------------------ *)
Section Ext.
Context {hash : Type}.
Variable node : hash -> hash -> hash.
Variable zh : nat -> hash.
Lemma walk_ext (m : @rht hash) : forall h x b1 b2, (forall k, b1 k = b2 k) -> walk m h x b1 = walk m h x b2.
Proof.
  induction h as [|h IH]; intros x b1 b2 E; cbn [walk]; [reflexivity|].
  destruct (m x) as [[l r]|]; [|reflexivity]. rewrite (E h).
  destruct (b2 h); rewrite (IH _ b1 b2 E); reflexivity.
Qed.
Lemma swalk_ext (m : @rht hash) : forall h x b1 b2, (forall k, b1 k = b2 k) -> swalk zh m h x b1 = swalk zh m h x b2.
Proof.
  induction h as [|h IH]; intros x b1 b2 E; cbn [swalk]; [reflexivity|].
  destruct (m x) as [[l r]|]; [|reflexivity]. rewrite (E h).
  destruct (b2 h); rewrite (IH _ b1 b2 E); reflexivity.
Qed.
Lemma calc_ext : forall sibs lvl cur b1 b2, (forall k, b1 k = b2 k) -> calc node lvl sibs cur b1 = calc node lvl sibs cur b2.
Proof.
  induction sibs as [|s t IH]; intros lvl cur b1 b2 E; cbn [calc]; [reflexivity|].
  rewrite (E lvl). apply IH, E.
Qed.
End Ext.

Lemma bitN_to_nat i k : bitN i k = Nat.testbit (N.to_nat i) k.
Proof. rewrite <- (N2Nat.id i) at 1. apply bitN_of_nat. Qed.

(* ------------------------------------------------------------------------------------------------ *)
(* uint64 helpers                                                                                    *)
(* ------------------------------------------------------------------------------------------------ *)
Open Scope N_scope.
Definition two63m1 : N := 9223372036854775807.      (* 2^63 - 1 : the largest block number a SQLite INTEGER holds *)
Definition two64 : N := 18446744073709551616.

Lemma mask64_val : mask64 = 18446744073709551615.
Proof. vm_compute. reflexivity. Qed.
Lemma add1_64_small x : x + 1 < two64 -> add1_64 x = x + 1.
Proof.
  intros Hx. unfold add1_64, mask64. rewrite N.land_ones.
  change (2 ^ 64) with two64. apply N.mod_small, Hx.
Qed.
Lemma half_bounds s : exists q, s / 2 = q /\ 2 * q <= s /\ s < 2 * q + 2.
Proof.
  exists (s / 2). pose proof (N.div_mod s 2 ltac:(discriminate)) as E.
  pose proof (N.mod_lt s 2 ltac:(discriminate)) as L. split; [reflexivity|]. lia.
Qed.
Lemma pow2_succ f : 2 ^ N.of_nat (S f) = 2 * 2 ^ N.of_nat f.
Proof. rewrite Nat2N.inj_succ, N.pow_succ_r'. reflexivity. Qed.
Lemma pow2_pos f : 0 < 2 ^ N.of_nat f.
Proof. apply N.neq_0_lt_0, N.pow_nonzero. discriminate. Qed.
Lemma fuel_val : 2 ^ N.of_nat FUEL = two64.
Proof. vm_compute. reflexivity. Qed.

(* ------------------------------------------------------------------------------------------------ *)
(* the search loop                                                                                   *)
(* ------------------------------------------------------------------------------------------------ *)
Section Search.
Context {A : Type}.
Variable probe : N -> cres (A * N).
Variable dc : N.

(* soundness: every assignment to bestResult is guarded by `root.Index >= depositCount`; no assumption on the
   probe (no monotonicity of the history, no bound on the block numbers) *)
Lemma bsearch_sound (P : A -> Prop) :
  (forall t x r, probe t = Ok (x, r) -> dc <= r -> P x) ->
  forall fuel lower upper best y, P best -> bsearch probe fuel dc lower upper best = Ok y -> P y.
Proof.
  intros Hp. induction fuel as [|fuel IH]; intros lower upper best y Hb Hs; cbn [bsearch] in Hs.
  - destruct (upper <? lower); [inversion Hs; subst; exact Hb|discriminate].
  - destruct (upper <? lower); [inversion Hs; subst; exact Hb|].
    destruct (probe (lower + (upper - lower) / 2)) as [[x r]|e] eqn:Ep; [|discriminate].
    destruct (r <? dc) eqn:Elt; [exact (IH _ _ _ _ Hb Hs)|].
    apply N.ltb_ge in Elt.
    destruct (r =? dc) eqn:Eeq.
    + inversion Hs; subst. exact (Hp _ _ _ Ep Elt).
    + exact (IH _ _ _ _ (Hp _ _ _ Ep Elt) Hs).
Qed.

(* termination within the fuel. The interval [lower, upper] at least halves per iteration; when the probe at block 0
   sends the search left, `targetBlock - 1` wraps to MaxUint64 and the next probe is at block 2^63-1, where nothing is
   recorded: that costs one more iteration, whence the `+ 2` when lower = 0. *)
Hypothesis probe_no_fuel : forall t e, probe t = Err e -> e <> EFuel.
Hypothesis probe_high : forall t, two63m1 <= t -> exists e, probe t = Err e.

Lemma bsearch_terminates : forall fuel lower upper best,
  upper < two63m1 ->
  (lower = 0 -> upper + 2 < 2 ^ N.of_nat fuel) ->
  (0 < lower -> upper < lower \/ upper - lower + 1 < 2 ^ N.of_nat fuel) ->
  bsearch probe fuel dc lower upper best <> Err EFuel.
Proof.
  induction fuel as [|fuel IH]; intros lower upper best Hu H0 H1; cbn [bsearch].
  - destruct (upper <? lower) eqn:E; [discriminate|]. apply N.ltb_ge in E. exfalso.
    change (2 ^ N.of_nat 0) with 1 in *.
    destruct (N.eq_dec lower 0) as [Hz|Hz]; [specialize (H0 Hz); lia|].
    destruct (H1 ltac:(lia)); lia.
  - destruct (upper <? lower) eqn:E; [discriminate|]. apply N.ltb_ge in E.
    rewrite pow2_succ in H0, H1. pose proof (pow2_pos fuel) as Hp.
    remember (2 ^ N.of_nat fuel) as p eqn:Hpdef.
    destruct (half_bounds (upper - lower)) as [q [Eq [Hq1 Hq2]]]. rewrite Eq.
    destruct (probe (lower + q)) as [[x r]|e] eqn:Ep; [|intros Hc; inversion Hc; subst; exact (probe_no_fuel _ _ Ep eq_refl)].
    destruct (r <? dc).
    { (* lowerLimit = targetBlock + 1 *)
      rewrite add1_64_small by (unfold two64, two63m1 in *; lia).
      apply IH; [exact Hu|lia|]. intros _.
      destruct (N.eq_dec lower 0) as [Hz|Hz]; [specialize (H0 Hz)|destruct (H1 ltac:(lia)) as [?|H1']]; lia. }
    destruct (r =? dc); [discriminate|].
    (* upperLimit = targetBlock - 1 *)
    unfold sub1_64. destruct (lower + q =? 0) eqn:Et.
    + (* underflow at block 0 *)
      apply N.eqb_eq in Et. assert (Hl : lower = 0) by lia. assert (Hq : q = 0) by lia. subst lower q.
      specialize (H0 eq_refl). destruct fuel as [|fuel'].
      { exfalso. change (2 ^ N.of_nat 0) with 1 in Hpdef. lia. }
      cbn [bsearch]. rewrite mask64_val. change (18446744073709551615 <? 0) with false. cbv iota.
      change (0 + (18446744073709551615 - 0) / 2) with two63m1.
      destruct (probe_high two63m1 (N.le_refl _)) as [e Ee]. rewrite Ee.
      intros Hc; inversion Hc; subst; exact (probe_no_fuel _ _ Ee eq_refl).
    + apply N.eqb_neq in Et. apply IH; [unfold two63m1 in *; lia| |].
      * intros Hz. specialize (H0 Hz). lia.
      * intros Hl. destruct (H1 Hl) as [?|H1']; [lia|].
        destruct (N.eq_dec q 0); [left; lia|right; lia].
Qed.
End Search.

(* ------------------------------------------------------------------------------------------------ *)
(* index lookups                                                                                     *)
(* ------------------------------------------------------------------------------------------------ *)
Section Index.
Context {hash : Type}.
Variable H : nat.
Notation stores := (@stores hash).
Notation info := (@info hash).
Notation verified := (@verified hash).
Notation covers_l1 := (@covers_l1 hash).
Notation covers_l2 := (@covers_l2 hash H).
Notation covers := (@covers hash H).
Notation get_local_exit_root := (@get_local_exit_root hash H).

(* the info leaves / verify_batches rows the searches can settle on *)
Definition info_answer (S : stores) (x : info) : Prop :=
  li_last_info (s_li S) = Some x \/ (exists t, li_first_info_after (s_li S) t = Some x) \/
  (exists r, li_first_info_with_rer (s_li S) r = Some x).
Definition verified_answer (S : stores) (v : verified) : Prop :=
  li_last_verified (s_li S) (s_net S) = Some v \/ exists t, li_first_verified_after (s_li S) (s_net S) t = Some v.

(* --- L1: no hypothesis at all --- *)
Theorem index_search_sound_l1_strong (S : stores) dc i :
  first_index_l1 S dc = Ok i -> exists x : info, i_index x = i /\ info_answer S x /\ covers_l1 S x dc.
Proof.
  unfold first_index_l1. intros Hs.
  destruct (li_last_info (s_li S)) as [last|] eqn:El; [|discriminate].
  destruct (br_root_index (s_l1 S) (i_mer last)) as [ridx|] eqn:Er; [|discriminate].
  destruct (ridx <? dc) eqn:Elt; [discriminate|]. apply N.ltb_ge in Elt.
  destruct (li_first_info (s_li S)) as [first|]; [|discriminate].
  destruct (bsearch (probe_l1 S) FUEL dc (i_block first) (i_block last) last) as [best|e] eqn:Eb; [|discriminate].
  inversion Hs; subst. exists best. split; [reflexivity|].
  refine (bsearch_sound (probe_l1 S) dc (fun x => info_answer S x /\ covers_l1 S x dc) _ _ _ _ _ _ _ Eb).
  - intros t x r Hp Hr. unfold probe_l1 in Hp.
    destruct (li_first_info_after (s_li S) t) as [x'|] eqn:Ex; [|discriminate].
    destruct (br_root_index (s_l1 S) (i_mer x')) as [r'|] eqn:Er'; [|discriminate].
    inversion Hp; subst. split; [right; left; exists t; exact Ex|]. exists r. split; assumption.
  - split; [left; exact El|]. exists ridx. split; assumption.
Qed.
Theorem index_search_sound_l1 (S : stores) dc i :
  first_index_l1 S dc = Ok i -> exists x : info, i_index x = i /\ covers_l1 S x dc.
Proof. intros Hs. destruct (index_search_sound_l1_strong S dc i Hs) as [x [E [_ Hc]]]. exists x. split; assumption. Qed.

(* --- L2: two facts about the L1 info tree syncer are needed (and nothing about the order of the history) --- *)
(* each verify_batches row records the rollup exit root under which its own exit root is the leaf of this rollup
   (processVerifyBatches stores RollupExitRoot := the root returned by UpsertLeaf(RollupID-1, ExitRoot)) *)
Definition verified_coherent (S : stores) : Prop :=
  forall v, verified_answer S v -> get_local_exit_root (s_li S) (s_net S) (v_rer v) = Ok (v_exit v).
(* SELECT ... WHERE rollup_exit_root = $1 *)
Definition rer_lookup_sound (S : stores) : Prop :=
  forall r x, li_first_info_with_rer (s_li S) r = Some x -> i_rer x = r.

Theorem index_search_sound_l2_strong (S : stores) dc i :
  verified_coherent S -> rer_lookup_sound S ->
  first_index_l2 S dc = Ok i -> exists x : info, i_index x = i /\ info_answer S x /\ covers_l2 S x dc.
Proof.
  intros Hcoh Hrer. unfold first_index_l2. intros Hs.
  destruct (li_last_verified (s_li S) (s_net S)) as [last|] eqn:El; [|discriminate].
  destruct (br_root_index (s_l2 S) (v_exit last)) as [ridx|] eqn:Er; [|discriminate].
  destruct (ridx <? dc) eqn:Elt; [discriminate|]. apply N.ltb_ge in Elt.
  destruct (li_first_verified (s_li S) (s_net S)) as [first|]; [|discriminate].
  destruct (bsearch (probe_l2 S) FUEL dc (v_block first) (v_block last) last) as [best|e] eqn:Eb; [|discriminate].
  destruct (li_first_info_with_rer (s_li S) (v_rer best)) as [inf|] eqn:Ei; [|discriminate].
  inversion Hs; subst. exists inf. split; [reflexivity|]. split; [right; right; exists (v_rer best); exact Ei|].
  assert (Hbest : verified_answer S best /\ exists r, br_root_index (s_l2 S) (v_exit best) = Some r /\ dc <= r).
  { refine (bsearch_sound (probe_l2 S) dc
              (fun v => verified_answer S v /\ exists r, br_root_index (s_l2 S) (v_exit v) = Some r /\ dc <= r) _ _ _ _ _ _ _ Eb).
    - intros t v r Hp Hr. unfold probe_l2 in Hp.
      destruct (li_first_verified_after (s_li S) (s_net S) t) as [v'|] eqn:Ev; [|discriminate].
      destruct (br_root_index (s_l2 S) (v_exit v')) as [r'|] eqn:Er'; [|discriminate].
      inversion Hp; subst. split; [right; exists t; exact Ev|]. exists r. split; assumption.
    - split; [left; exact El|]. exists ridx. split; assumption. }
  destruct Hbest as [Hans [r [Hr Hle]]].
  exists (v_exit best), r. rewrite (Hrer _ _ Ei). split; [exact (Hcoh _ Hans)|]. split; assumption.
Qed.
Theorem index_search_sound_l2 (S : stores) dc i :
  verified_coherent S -> rer_lookup_sound S ->
  first_index_l2 S dc = Ok i -> exists x : info, i_index x = i /\ covers_l2 S x dc.
Proof.
  intros Hc Hr Hs. destruct (index_search_sound_l2_strong S dc i Hc Hr Hs) as [x [E [_ Hx]]]. exists x. split; assumption.
Qed.

(* the handler: whatever network is asked for, an index that is returned covers the bridge *)
Theorem index_search_sound_strong (S : stores) net dc i :
  verified_coherent S -> rer_lookup_sound S ->
  l1_info_tree_index S net dc = Ok i -> exists x : info, i_index x = i /\ info_answer S x /\ covers S net x dc.
Proof.
  intros Hcoh Hrer. unfold l1_info_tree_index, ClaimFlow.covers.
  destruct (net =? 0); [apply index_search_sound_l1_strong|].
  destruct (s_net S =? net); [apply index_search_sound_l2_strong; assumption|discriminate].
Qed.
Theorem index_search_sound (S : stores) net dc i :
  verified_coherent S -> rer_lookup_sound S ->
  l1_info_tree_index S net dc = Ok i -> exists x : info, i_index x = i /\ covers S net x dc.
Proof.
  intros Hc Hr Hs. destruct (index_search_sound_strong S net dc i Hc Hr Hs) as [x [E [_ Hx]]]. exists x. split; assumption.
Qed.

(* with index-coherent answers (position is the key GetInfoByIndex looks up) the returned index names that very leaf *)
Definition index_coherent (S : stores) : Prop :=
  forall x, info_answer S x -> li_info_by_index (s_li S) (i_index x) = Some x.
Theorem index_search_names_covering_leaf (S : stores) net dc i :
  verified_coherent S -> rer_lookup_sound S -> index_coherent S ->
  l1_info_tree_index S net dc = Ok i ->
  exists x : info, li_info_by_index (s_li S) i = Some x /\ covers S net x dc.
Proof.
  intros Hc Hr Hidx Hs. destruct (index_search_sound_strong S net dc i Hc Hr Hs) as [x [E [Ha Hx]]].
  exists x. split; [rewrite <- E; exact (Hidx _ Ha)|exact Hx].
Qed.
End Index.

(* ------------------------------------------------------------------------------------------------ *)
(* termination of the lookups within the fuel, and the combined statement                            *)
(* ------------------------------------------------------------------------------------------------ *)
Section Termination.
Context {hash : Type}.
Variable H : nat.
Notation stores := (@stores hash).
Notation info := (@info hash).
Notation covers := (@covers hash H).
Notation verified_coherent := (@verified_coherent hash H).

(* block numbers are what SQLite stores (signed 64-bit, and block 2^63-1 is never reached), and
   Get...AfterBlock(b) (WHERE block_num >= b) only answers rows of blocks >= b *)
Definition wf_blocks (S : stores) : Prop :=
  (forall x, li_last_info (s_li S) = Some x -> i_block x < two63m1) /\
  (forall t x, li_first_info_after (s_li S) t = Some x -> t <= i_block x /\ i_block x < two63m1) /\
  (forall x, li_last_verified (s_li S) (s_net S) = Some x -> v_block x < two63m1) /\
  (forall t x, li_first_verified_after (s_li S) (s_net S) t = Some x -> t <= v_block x /\ v_block x < two63m1).

Lemma start_ok lower upper : upper < two63m1 ->
  (lower = 0 -> upper + 2 < 2 ^ N.of_nat FUEL) /\ (0 < lower -> upper < lower \/ upper - lower + 1 < 2 ^ N.of_nat FUEL).
Proof. rewrite fuel_val. unfold two64, two63m1. lia. Qed.

Lemma probe_l1_no_fuel (S : stores) t e : probe_l1 S t = Err e -> e <> EFuel.
Proof.
  unfold probe_l1. destruct (li_first_info_after (s_li S) t) as [x|]; [|intros E; inversion E; discriminate].
  destruct (br_root_index (s_l1 S) (i_mer x)); intros E; inversion E; discriminate.
Qed.
Lemma probe_l2_no_fuel (S : stores) t e : probe_l2 S t = Err e -> e <> EFuel.
Proof.
  unfold probe_l2. destruct (li_first_verified_after (s_li S) (s_net S) t) as [x|]; [|intros E; inversion E; discriminate].
  destruct (br_root_index (s_l2 S) (v_exit x)); intros E; inversion E; discriminate.
Qed.

Theorem search_terminates_l1 (S : stores) dc : wf_blocks S -> first_index_l1 S dc <> Err EFuel.
Proof.
  intros [Hl [Ha _]]. unfold first_index_l1.
  destruct (li_last_info (s_li S)) as [last|] eqn:El; [|discriminate].
  destruct (br_root_index (s_l1 S) (i_mer last)); [|discriminate].
  destruct (_ <? dc); [discriminate|].
  destruct (li_first_info (s_li S)) as [first|]; [|discriminate].
  destruct (bsearch (probe_l1 S) FUEL dc (i_block first) (i_block last) last) as [best|e] eqn:Eb; [discriminate|].
  intros Hc. inversion Hc; subst. revert Eb.
  destruct (start_ok (i_block first) (i_block last) (Hl _ eq_refl)) as [S0 S1].
  apply bsearch_terminates; [apply probe_l1_no_fuel| |exact (Hl _ eq_refl)|exact S0|exact S1].
  intros t Ht. unfold probe_l1. destruct (li_first_info_after (s_li S) t) as [x|] eqn:Ex; [|eexists; reflexivity].
  destruct (Ha _ _ Ex). lia.
Qed.
Theorem search_terminates_l2 (S : stores) dc : wf_blocks S -> first_index_l2 S dc <> Err EFuel.
Proof.
  intros [_ [_ [Hl Ha]]]. unfold first_index_l2.
  destruct (li_last_verified (s_li S) (s_net S)) as [last|] eqn:El; [|discriminate].
  destruct (br_root_index (s_l2 S) (v_exit last)); [|discriminate].
  destruct (_ <? dc); [discriminate|].
  destruct (li_first_verified (s_li S) (s_net S)) as [first|]; [|discriminate].
  destruct (bsearch (probe_l2 S) FUEL dc (v_block first) (v_block last) last) as [best|e] eqn:Eb.
  { destruct (li_first_info_with_rer (s_li S) (v_rer best)); discriminate. }
  intros Hc. inversion Hc; subst. revert Eb.
  destruct (start_ok (v_block first) (v_block last) (Hl _ eq_refl)) as [S0 S1].
  apply bsearch_terminates; [apply probe_l2_no_fuel| |exact (Hl _ eq_refl)|exact S0|exact S1].
  intros t Ht. unfold probe_l2. destruct (li_first_verified_after (s_li S) (s_net S) t) as [x|] eqn:Ex; [|eexists; reflexivity].
  destruct (Ha _ _ Ex). lia.
Qed.
Theorem search_terminates (S : stores) net dc : wf_blocks S -> l1_info_tree_index S net dc <> Err EFuel.
Proof.
  intros Hw. unfold l1_info_tree_index. destruct (net =? 0); [apply search_terminates_l1, Hw|].
  destruct (s_net S =? net); [apply search_terminates_l2, Hw|discriminate].
Qed.

(* the lookup ends, within the fuel, in a covering index or in an error *)
Theorem index_search_error_or_cover (S : stores) net dc :
  wf_blocks S -> verified_coherent S -> rer_lookup_sound S ->
  match l1_info_tree_index S net dc with
  | Ok i => exists x : info, i_index x = i /\ covers S net x dc
  | Err e => e <> EFuel
  end.
Proof.
  intros Hw Hc Hr. destruct (l1_info_tree_index S net dc) as [i|e] eqn:E.
  - exact (index_search_sound H S net dc i Hc Hr E).
  - intros ->. exact (search_terminates S net dc Hw E).
Qed.
End Termination.

(* ------------------------------------------------------------------------------------------------ *)
(* claim proofs                                                                                      *)
(* ------------------------------------------------------------------------------------------------ *)
Close Scope N_scope.
Section ClaimProof.
Context {hash : Type}.
Variable node : hash -> hash -> hash.
Variable z0 : hash.
Variable zh : nat -> hash.
Variable H : nat.
Notation stores := (@stores hash).
Notation info := (@info hash).
Notation bridger := (@bridger hash).
Notation claim_proof := (@claim_proof hash z0 zh H).
Notation br_get_proof := (@br_get_proof hash zh H).
Notation get_local_exit_root := (@get_local_exit_root hash H).
Notation covers_l1 := (@covers_l1 hash).
Notation covers_l2 := (@covers_l2 hash H).
Notation calcN := (fun sibs leaf idx => calc node 0 sibs leaf (bitN idx)).

(* C08's closed-store invariant for an exit tree whose k-th leaf is f k: rows are well formed, and every recorded root
   with Index i is the root of the version with i+1 leaves, all of whose non-empty subtrees are stored.
   (Maintained by appends for every history: C08_append_keeps_closed / C08_older_versions_stay_closed.) *)
Definition bridge_closed (b : bridger) (f : nat -> hash) : Prop :=
  WF node (br_node b) /\
  forall r ridx, br_root_index b r = Some ridx ->
    N.to_nat ridx < 2 ^ H /\ r = mroot node z0 f H (S (N.to_nat ridx)) /\ Closed node z0 f H (br_node b) (S (N.to_nat ridx)).

Lemma local_proof_verifies (b : bridger) f r ridx dc :
  bridge_closed b f -> br_root_index b r = Some ridx -> (dc <= ridx)%N ->
  calcN (br_get_proof b dc r) (f (N.to_nat dc)) dc = r.
Proof.
  intros [Hwf Hroots] Hr Hle. destruct (Hroots _ _ Hr) as [Hlt [Er Hc]].
  assert (Hj : N.to_nat dc < S (N.to_nat ridx)) by lia.
  destruct (proof_verifies node z0 f (br_node b) _ H (N.to_nat dc) Hwf Hc Hj ltac:(lia)) as [s [Hw Hcalc]].
  unfold ClaimFlow.br_get_proof.
  rewrite (swalk_ext zh (br_node b) H r (bitN dc) (Nat.testbit (N.to_nat dc)) (bitN_to_nat dc)).
  rewrite (calc_ext node _ 0 _ (bitN dc) (Nat.testbit (N.to_nat dc)) (bitN_to_nat dc)).
  unfold mroot in Er. rewrite Er.
  rewrite (proj1 (swalk_eq_walk zh (br_node b) _ _ _ _ _ Hw)). exact Hcalc.
Qed.

(* the rollup proof needs well-formed rows only: whatever GetLocalExitRoot returned hashes, with the proof served for
   the same root and position, to the rollup exit root it was read from *)
Lemma rollup_proof_verifies (li : @l1infotreer hash) net rer ler :
  WF node (li_node li) -> net <> 0%N -> get_local_exit_root li net rer = Ok ler ->
  calcN (@get_rollup_exit_tree_merkle_proof hash z0 zh H li net rer) ler (net - 1)%N = rer.
Proof.
  intros Hwf Hn. unfold ClaimFlow.get_local_exit_root, ClaimFlow.get_rollup_exit_tree_merkle_proof.
  apply N.eqb_neq in Hn. rewrite Hn.
  set (j := (net - 1)%N).
  rewrite (walk_ext (li_node li) H rer (bitN j) (Nat.testbit (N.to_nat j)) (bitN_to_nat j)).
  destruct (walk (li_node li) H rer (Nat.testbit (N.to_nat j))) as [[s y]|] eqn:Ew; [|discriminate].
  intros E; inversion E; subst y.
  rewrite (swalk_ext zh (li_node li) H rer (bitN j) (Nat.testbit (N.to_nat j)) (bitN_to_nat j)).
  rewrite (calc_ext node _ 0 _ (bitN j) (Nat.testbit (N.to_nat j)) (bitN_to_nat j)).
  rewrite (proj1 (swalk_eq_walk zh (li_node li) _ _ _ _ _ Ew)).
  exact (proj2 (walk_calc node (li_node li) Hwf _ _ _ _ _ Ew)).
Qed.

(* network 0: the leaf returned is the one asked for, the rollup proof is the empty proof, and when that leaf covers the
   bridge the local proof hashes the bridge's leaf, at its deposit count, to the leaf's mainnet exit root *)
Theorem claim_proof_verifies_l1 (S : stores) f1 idx dc pl pr (x : info) :
  bridge_closed (s_l1 S) f1 ->
  claim_proof S 0 idx dc = Ok (pl, pr, x) ->
  li_info_by_index (s_li S) idx = Some x /\ pr = repeat z0 H /\
  (covers_l1 S x dc -> calcN pl (f1 (N.to_nat dc)) dc = i_mer x).
Proof.
  intros Hb. unfold ClaimFlow.claim_proof.
  destruct (li_info_by_index (s_li S) idx) as [inf|]; [|discriminate].
  change (0 =? 0)%N with true. cbv iota. unfold ClaimFlow.get_rollup_exit_tree_merkle_proof. change (0 =? 0)%N with true. cbv iota.
  intros E; inversion E; subst. split; [reflexivity|]. split; [reflexivity|].
  intros [ridx [Hr Hle]]. exact (local_proof_verifies _ _ _ _ _ Hb Hr Hle).
Qed.

(* own rollup: the rollup proof hashes the rollup's local exit root to the leaf's rollup exit root (always), and when
   the leaf covers the bridge the local proof hashes the bridge's leaf to that local exit root *)
Theorem claim_proof_verifies_rollup (S : stores) f2 net idx dc pl pr (x : info) :
  net <> 0%N -> WF node (li_node (s_li S)) -> bridge_closed (s_l2 S) f2 ->
  claim_proof S net idx dc = Ok (pl, pr, x) ->
  net = s_net S /\ li_info_by_index (s_li S) idx = Some x /\
  exists ler, get_local_exit_root (s_li S) net (i_rer x) = Ok ler /\
              calcN pr ler (net - 1)%N = i_rer x /\
              (covers_l2 S x dc -> calcN pl (f2 (N.to_nat dc)) dc = ler).
Proof.
  intros Hn Hwf Hb. unfold ClaimFlow.claim_proof.
  destruct (li_info_by_index (s_li S) idx) as [inf|]; [|discriminate].
  pose proof Hn as Hn'. apply N.eqb_neq in Hn'. rewrite Hn'.
  destruct (net =? s_net S)%N eqn:En; [|discriminate]. apply N.eqb_eq in En.
  destruct (get_local_exit_root (s_li S) net (i_rer inf)) as [ler|e] eqn:El; [|discriminate].
  intros E; inversion E; subst pl pr x. split; [exact En|]. split; [reflexivity|].
  exists ler. split; [exact El|]. split; [exact (rollup_proof_verifies _ _ _ _ Hwf Hn El)|].
  intros [ler' [ridx [Hl' [Hr Hle]]]]. rewrite <- En in Hl'. rewrite El in Hl'. inversion Hl'; subst ler'.
  exact (local_proof_verifies _ _ _ _ _ Hb Hr Hle).
Qed.

(* an error or an unsupported network never yields proofs: claim_proof answers only for network 0 and the own network *)
Theorem claim_proof_networks (S : stores) net idx dc r :
  claim_proof S net idx dc = Ok r -> net = 0%N \/ net = s_net S.
Proof.
  unfold ClaimFlow.claim_proof. destruct (li_info_by_index (s_li S) idx); [|discriminate].
  destruct (net =? 0)%N eqn:E0; [left; apply N.eqb_eq, E0|].
  destruct (net =? s_net S)%N eqn:E1; [right; apply N.eqb_eq, E1|discriminate].
Qed.

(* ---- verified_coherent follows from the closed-store invariant of the rollup exit tree (C08 / C11) ---- *)
Hypothesis node_inj : forall a b c d, node a b = node c d -> a = c /\ b = d.

Lemma walk_sclosed (m : @rht hash) g : SClosed node z0 m g -> forall h j, g j <> z0 ->
  exists s, walk m h (ssub node g h (j / 2 ^ h)) (Nat.testbit j) = Some (s, g j).
Proof.
  intros Hc. induction h as [|h IH]; intros j Hg; cbn [walk].
  - rewrite Nat.pow_0_r, Nat.div_1_r. cbn [ssub]. eexists; reflexivity.
  - pose proof (div_pow_bounds j (S h)) as Hb.
    assert (Hchild : (if Nat.testbit j h then ssub node g h (2 * (j / 2 ^ S h) + 1) else ssub node g h (2 * (j / 2 ^ S h)))
                     = ssub node g h (j / 2 ^ h)).
    { rewrite testbit_div, div_succ_pow. destruct (Nat.odd (j / 2 ^ h)) eqn:Ho.
      - rewrite <- (odd_div2 _ Ho). reflexivity.
      - rewrite <- (even_div2 _ Ho). reflexivity. }
    destruct (Hc h (j / 2 ^ S h)) as [Hs|[_ Hz]].
    + rewrite Hs. destruct (IH j Hg) as [s Hs']. destruct (Nat.testbit j h); rewrite Hchild, Hs'; eexists; reflexivity.
    + exfalso. apply Hg. exact (ssub_zero_inv node z0 node_inj _ _ _ Hz j ltac:(lia)).
Qed.

(* a verify_batches row (exit root e <> 0 for rollup `net`, rollup exit root r) written when the tree was the closed
   version g with g (net-1) = e and r = root of g: GetLocalExitRoot(net, r) = e *)
Lemma local_exit_root_of_closed_version (li : @l1infotreer hash) net g :
  net <> 0%N -> N.to_nat (net - 1) < 2 ^ H -> SClosed node z0 (li_node li) g -> g (N.to_nat (net - 1)) <> z0 ->
  get_local_exit_root li net (sroot node g H) = Ok (g (N.to_nat (net - 1))).
Proof.
  intros Hn Hlt Hc Hg. unfold ClaimFlow.get_local_exit_root. apply N.eqb_neq in Hn. rewrite Hn.
  set (j := (net - 1)%N) in *.
  rewrite (walk_ext (li_node li) H _ (bitN j) (Nat.testbit (N.to_nat j)) (bitN_to_nat j)).
  destruct (walk_sclosed _ _ Hc H (N.to_nat j) Hg) as [s Hs].
  rewrite Nat.div_small in Hs by exact Hlt. unfold sroot. rewrite Hs. reflexivity.
Qed.

Theorem verified_coherent_from_closed (S : stores) :
  s_net S <> 0%N -> N.to_nat (s_net S - 1) < 2 ^ H ->
  (forall v, verified_answer S v ->
     exists g, SClosed node z0 (li_node (s_li S)) g /\ v_rer v = sroot node g H /\
               g (N.to_nat (s_net S - 1)) = v_exit v /\ v_exit v <> z0) ->
  @verified_coherent hash H S.
Proof.
  intros Hn Hlt Hv v Ha. destruct (Hv v Ha) as [g [Hc [Er [Eg Hnz]]]].
  rewrite Er, <- Eg. apply local_exit_root_of_closed_version; [exact Hn|exact Hlt|exact Hc|rewrite Eg; exact Hnz].
Qed.
End ClaimProof.

(* ------------------------------------------------------------------------------------------------ *)
(* the executable instance meets the well-formedness facts                                           *)
(* ------------------------------------------------------------------------------------------------ *)
Open Scope N_scope.
Section Exec.
Lemma fold_pick_In {A} (F : option A -> A -> option A) :
  (forall acc x, F acc x = Some x \/ F acc x = acc) ->
  forall l acc r, fold_left F l acc = Some r -> acc = Some r \/ In r l.
Proof.
  intros HF. induction l as [|a l IH]; intros acc r Hf; cbn [fold_left] in Hf; [left; exact Hf|].
  destruct (IH _ _ Hf) as [E|Hin]; [|right; right; exact Hin].
  destruct (HF acc a) as [E'|E']; rewrite E' in E; [inversion E; subst; right; left; reflexivity|left; exact E].
Qed.
Lemma min_by_In {A} (kb kp : A -> N) l r : min_by kb kp l = Some r -> In r l.
Proof.
  intros Hm. unfold min_by in Hm. apply fold_pick_In in Hm; [destruct Hm as [E|Hin]; [discriminate|exact Hin]|].
  intros [a|] x; [|left; reflexivity]. destruct (kle _ _ _ _); [right|left]; reflexivity.
Qed.
Lemma max_by_In {A} (kb kp : A -> N) l r : max_by kb kp l = Some r -> In r l.
Proof.
  intros Hm. unfold max_by in Hm. apply fold_pick_In in Hm; [destruct Hm as [E|Hin]; [discriminate|exact Hin]|].
  intros [a|] x; [|left; reflexivity]. destruct (kle _ _ _ _); [right|left]; reflexivity.
Qed.

(* any service whose L1 info tree syncer is the executable one over the store d (exec_stores net l1 l2 d in particular) *)
Variable S : @stores N.
Variable d : l1idb.
Hypothesis HS : s_li S = l1i_iface d.
Notation net := (s_net S).

(* block numbers below 2^63-1 in the two tables (what SQLite can hold): a finite check on a concrete store *)
Definition blocks_bounded_b : bool :=
  forallb (fun x => i_block x <? two63m1) (l_infos d) && forallb (fun v => v_block v <? two63m1) (l_verified d).
Theorem exec_wf_blocks : blocks_bounded_b = true -> wf_blocks S.
Proof.
  unfold blocks_bounded_b. rewrite andb_true_iff, !forallb_forall. intros [Hi Hv].
  assert (Hi' : forall x, In x (l_infos d) -> i_block x < two63m1) by (intros x Hx; apply N.ltb_lt, Hi, Hx).
  assert (Hv' : forall v, In v (l_verified d) -> v_block v < two63m1) by (intros v Hx; apply N.ltb_lt, Hv, Hx).
  clear Hi Hv. unfold wf_blocks. rewrite HS. unfold l1i_iface.
  cbn [li_last_info li_first_info_after li_last_verified li_first_verified_after].
  repeat split.
  - intros x Hx. apply Hi'. exact (max_by_In _ _ _ _ Hx).
  - apply min_by_In, filter_In in H. destruct H as [_ Hb]. apply N.leb_le, Hb.
  - apply min_by_In, filter_In in H. apply Hi', H.
  - intros x Hx. apply max_by_In, filter_In in Hx. apply Hv', Hx.
  - apply min_by_In, filter_In in H. destruct H as [_ Hb]. apply N.leb_le, Hb.
  - apply min_by_In, filter_In in H. destruct H as [Hin _]. apply filter_In in Hin. apply Hv', Hin.
Qed.

Theorem exec_rer_lookup_sound : rer_lookup_sound S.
Proof.
  intros r x Hx. rewrite HS in Hx. unfold l1i_iface in Hx. cbn [li_first_info_with_rer] in Hx.
  apply min_by_In, filter_In in Hx. apply N.eqb_eq, Hx.
Qed.

(* verified_coherent is a finite check on a concrete store (and follows from closed versions in general:
   verified_coherent_from_closed) *)
Definition coherent_b : bool :=
  forallb (fun v => negb (v_rollup v =? net) ||
                    match get_local_exit_root HEIGHT (l1i_iface d) net (v_rer v) with Ok y => y =? v_exit v | Err _ => false end)
          (l_verified d).
Theorem exec_verified_coherent : coherent_b = true -> @verified_coherent N HEIGHT S.
Proof.
  intros Hb v Ha. unfold coherent_b in Hb. rewrite forallb_forall in Hb.
  assert (Hin : In v (filter (fun v => v_rollup v =? net) (l_verified d))).
  { destruct Ha as [Hl|[t Ht]]; rewrite HS in *; unfold l1i_iface in *; cbn [li_last_verified li_first_verified_after] in *.
    - exact (max_by_In _ _ _ _ Hl).
    - apply min_by_In, filter_In in Ht. exact (proj1 Ht). }
  apply filter_In in Hin. destruct Hin as [Hin Hr]. specialize (Hb _ Hin). rewrite Hr in Hb. cbn [negb orb] in Hb.
  rewrite HS.
  destruct (get_local_exit_root HEIGHT (l1i_iface d) net (v_rer v)) as [y|e]; [|discriminate].
  apply N.eqb_eq in Hb. rewrite Hb. reflexivity.
Qed.

Definition info_eqb (a b : @info N) : bool :=
  (i_block a =? i_block b) && (i_pos a =? i_pos b) && (i_index a =? i_index b) && (i_mer a =? i_mer b) && (i_rer a =? i_rer b).
Lemma info_eqb_eq a b : info_eqb a b = true -> a = b.
Proof.
  destruct a, b. unfold info_eqb. simpl. rewrite !andb_true_iff, !N.eqb_eq.
  intros [[[[-> ->] ->] ->] ->]. reflexivity.
Qed.
Definition index_coherent_b : bool :=
  forallb (fun x => match find (fun y => i_index y =? i_index x) (l_infos d) with Some y => info_eqb y x | None => false end) (l_infos d).
Theorem exec_index_coherent : index_coherent_b = true -> index_coherent S.
Proof.
  intros Hb x Ha. unfold index_coherent_b in Hb. rewrite forallb_forall in Hb.
  assert (Hin : In x (l_infos d)).
  { unfold info_answer in Ha. rewrite HS in Ha. unfold l1i_iface in Ha. cbn [li_last_info li_first_info_after li_first_info_with_rer] in Ha.
    destruct Ha as [Hl|[[t Ht]|[r Hr]]].
    - exact (max_by_In _ _ _ _ Hl).
    - apply min_by_In, filter_In in Ht. exact (proj1 Ht).
    - apply min_by_In, filter_In in Hr. exact (proj1 Hr). }
  specialize (Hb _ Hin). rewrite HS. unfold l1i_iface. cbn [li_info_by_index].
  destruct (find (fun y => i_index y =? i_index x) (l_infos d)) as [y|]; [|discriminate].
  rewrite (info_eqb_eq _ _ Hb). reflexivity.
Qed.
End Exec.

(* ------------------------------------------------------------------------------------------------ *)
(* what is NOT claimed, with witnesses (toy stores: a root "hash" h < 100 is the root of index h)     *)
(* ------------------------------------------------------------------------------------------------ *)
Section Witnesses.
Definition toy_bridger : @bridger N := mkBridger (fun _ => None) (fun h => if h <? 100 then Some h else None).
Definition toy_stores (infos : list (@info N)) : @stores N :=
  mkStores 1 toy_bridger toy_bridger (l1i_iface (mkL1idb [] infos [] [] tdb_empty)) (fun i => Some i).

(* several updates per block: block 5 holds leaf 0 (root index 1) and leaf 1 (root index 5), block 7 leaf 2 (root index 6).
   For deposit count 3 the search returns leaf 2 although leaf 1 already covers. *)
Definition w_min := toy_stores [mkInfo 5 0 0 1 0; mkInfo 5 1 1 5 0; mkInfo 7 0 2 6 0].
Theorem index_search_not_minimal :
  exists (S : @stores N) dc i j x, wf_blocks S /\ first_index_l1 S dc = Ok i /\
    li_info_by_index (s_li S) j = Some x /\ covers_l1 S x dc /\ j < i.
Proof.
  exists w_min, 3, 2, 1, (mkInfo 5 1 1 5 0). split; [|split; [|split; [|split]]].
  - apply (exec_wf_blocks w_min (mkL1idb [] [mkInfo 5 0 0 1 0; mkInfo 5 1 1 5 0; mkInfo 7 0 2 6 0] [] [] tdb_empty) eq_refl); vm_compute; reflexivity.
  - vm_compute. reflexivity.
  - vm_compute. reflexivity.
  - exists 5. split; [vm_compute; reflexivity|lia].
  - lia.
Qed.

(* first info block = block 0: leaf 0 (block 0, root index 5) and leaf 1 (block 2, root index 6) both cover deposit
   count 3, but the search walks left to block 0, `targetBlock - 1` wraps to MaxUint64, the next probe (block 2^63-1)
   finds nothing and the lookup fails. The property allows an error; it is recorded as an observation. *)
Definition w_blk0 := toy_stores [mkInfo 0 0 0 5 0; mkInfo 2 0 1 6 0].
Theorem index_search_block0_incomplete :
  exists (S : @stores N) dc x, wf_blocks S /\ li_info_by_index (s_li S) 0 = Some x /\ covers_l1 S x dc /\
    first_index_l1 S dc = Err ENotFound.
Proof.
  exists w_blk0, 3, (mkInfo 0 0 0 5 0). split; [|split; [|split]].
  - apply (exec_wf_blocks w_blk0 (mkL1idb [] [mkInfo 0 0 0 5 0; mkInfo 2 0 1 6 0] [] [] tdb_empty) eq_refl); vm_compute; reflexivity.
  - vm_compute. reflexivity.
  - exists 5. split; [vm_compute; reflexivity|lia].
  - vm_compute. reflexivity.
Qed.
End Witnesses.

(* ------------------------------------------------------------------------------------------------ *)
(* a concrete state meeting the hypotheses of the claim-proof theorems (free "hash": every node is its own preimage, *)
(* so the tables are trivially well formed and closed; height 2, three bridges, own network 1)       *)
(* ------------------------------------------------------------------------------------------------ *)
Module ToyTree.
Inductive fh := FZ | FL (n : nat) | FN (l r : fh).
Fixpoint fh_eqb (a b : fh) : bool :=
  match a, b with
  | FZ, FZ => true
  | FL n, FL m => Nat.eqb n m
  | FN l r, FN l' r' => fh_eqb l l' && fh_eqb r r'
  | _, _ => false
  end.
Lemma fh_eqb_eq a : forall b, fh_eqb a b = true -> a = b.
Proof.
  induction a as [|n|l IHl r IHr]; intros [|m|l' r'] E; cbn [fh_eqb] in E; try discriminate; try reflexivity.
  - apply Nat.eqb_eq in E. subst. reflexivity.
  - apply andb_true_iff in E. destruct E as [E1 E2]. rewrite (IHl _ E1), (IHr _ E2). reflexivity.
Qed.
Definition tm : @rht fh := fun x => match x with FN l r => Some (l, r) | _ => None end.
Lemma tm_WF : WF FN tm.
Proof. intros [|n|l r] l' r' E; cbn [tm] in E; try discriminate. inversion E; subst. reflexivity. Qed.
Lemma tm_Closed f H n : Closed FN FZ f H tm n.
Proof. intros h k _ _. reflexivity. Qed.

Definition TH : nat := 2.
Definition tf (k : nat) : fh := FL k.                                  (* leaf of deposit count k *)
Definition troot (i : nat) : fh := mroot FN FZ tf TH (S i).            (* exit root of index i *)
Definition troot_index (r : fh) : option N :=
  if fh_eqb r (troot 0) then Some 0 else if fh_eqb r (troot 1) then Some 1 else if fh_eqb r (troot 2) then Some 2 else None.
Definition tbridger : @bridger fh := mkBridger tm troot_index.
Lemma tbridge_closed : bridge_closed FN FZ TH tbridger tf.
Proof.
  split; [exact tm_WF|]. intros r ridx Hr. cbn [br_root_index tbridger] in Hr. unfold troot_index in Hr.
  destruct (fh_eqb r (troot 0)) eqn:E0; [apply fh_eqb_eq in E0; inversion Hr; subst; split; [cbn; lia|split; [reflexivity|apply tm_Closed]]|].
  destruct (fh_eqb r (troot 1)) eqn:E1; [apply fh_eqb_eq in E1; inversion Hr; subst; split; [cbn; lia|split; [reflexivity|apply tm_Closed]]|].
  destruct (fh_eqb r (troot 2)) eqn:E2; [apply fh_eqb_eq in E2; inversion Hr; subst; split; [cbn; lia|split; [reflexivity|apply tm_Closed]]|].
  discriminate.
Qed.

(* rollup exit tree version in which rollup 1 (position 0) has local exit root troot 1 *)
Definition trer : fh := FN (FN (troot 1) FZ) (FN FZ FZ).
Definition tinfo : @info fh := mkInfo 10 0 0 (troot 2) trer.
Definition tli : @l1infotreer fh :=
  mkL1I tm (fun i => if (i =? 0)%N then Some tinfo else None) (Some tinfo) (Some tinfo) (fun _ => Some tinfo)
        (fun _ => None) (fun _ => None) (fun _ _ => None) (fun _ => Some tinfo).
Definition tS : @stores fh := mkStores 1 tbridger tbridger tli (fun i => Some i).
Definition tzh := zero FN FZ.

Lemma toy_l1 : exists pl pr, claim_proof FZ tzh TH tS 0 0 1 = Ok (pl, pr, tinfo) /\ covers_l1 tS tinfo 1.
Proof. eexists. eexists. split; [reflexivity|]. exists 2%N. split; [reflexivity|lia]. Qed.
Lemma toy_l2 : exists pl pr, claim_proof FZ tzh TH tS 1 0 1 = Ok (pl, pr, tinfo) /\ covers_l2 TH tS tinfo 1.
Proof. eexists. eexists. split; [reflexivity|]. exists (troot 1), 1%N. split; [reflexivity|]. split; [reflexivity|lia]. Qed.
End ToyTree.
