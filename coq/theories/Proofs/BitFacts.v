(* The executable model tests index bits with N.testbit; the theory with Nat.testbit. Same function. *)
From Coq Require Import Arith NArith Lia Bool.
From Verif Require Import Model.Merkle Model.TreeStore.

Lemma of_nat_even_odd x : N.even (N.of_nat x) = Nat.even x /\ N.odd (N.of_nat x) = Nat.odd x.
Proof.
  induction x as [|x [IHe IHo]]; [split; reflexivity|].
  rewrite Nat2N.inj_succ, N.even_succ, N.odd_succ, Nat.even_succ, Nat.odd_succ. split; assumption.
Qed.

Lemma bitN_of_nat i h : bitN (N.of_nat i) h = Nat.testbit i h.
Proof.
  unfold bitN. rewrite N.testbit_odd, N.shiftr_div_pow2, Nat.testbit_odd, Nat.shiftr_div_pow2.
  rewrite <- (proj2 (of_nat_even_odd (i / 2 ^ h))). f_equal.
  rewrite Nat2N.inj_div, Nat2N.inj_pow. reflexivity.
Qed.

(* the algorithms only look at the bit function pointwise *)
Section Ext.
Context {hash : Type}.
Variable node : hash -> hash -> hash.
Variable zh : nat -> hash.
Lemma climb_ext fuel : forall h b1 b2 cur c, (forall k, b1 k = b2 k) ->
  climb node zh fuel h b1 cur c = climb node zh fuel h b2 cur c.
Proof.
  induction fuel as [|fuel IH]; intros h b1 b2 cur c E; cbn [climb]; [reflexivity|].
  rewrite (E h). destruct (b2 h); apply IH; exact E.
Qed.
Lemma climb3_climb fuel : forall h b cur c,
  let '(r, c', ns) := climb3 node zh fuel h b cur c in
  (r, c') = climb node zh fuel h b cur c /\ ns = climb_nodes node zh fuel h b cur c.
Proof.
  induction fuel as [|fuel IH]; intros h b cur c; cbn [climb3 climb climb_nodes]; [split; reflexivity|].
  destruct (b h).
  - specialize (IH (S h) b (node (c h) cur) c). destruct (climb3 _ _ _ _ _ _ _) as [[r c'] ns].
    destruct IH as [E1 E2]. split; [exact E1|]. cbv zeta. rewrite E2. reflexivity.
  - specialize (IH (S h) b (node cur (zh h)) (upd c h cur)). destruct (climb3 _ _ _ _ _ _ _) as [[r c'] ns].
    destruct IH as [E1 E2]. split; [exact E1|]. cbv zeta. rewrite E2. reflexivity.
Qed.
End Ext.

(* the precomputed zero-hash table of the executable model is Tree.generateZeroHashes / the recursive `zero` *)
From Coq Require Import List.
From Verif Require Import Base.Hash.
Local Close Scope N_scope.
Lemma zero_table_step_ok :
  N.eqb (zh 0) 0%N && forallb (fun h => N.eqb (zh (S h)) (nodeN (zh h) (zh h))) (seq 0 32) = true.
Proof. vm_compute. reflexivity. Qed.
Lemma zh_is_zero h : h <= 32 -> zh h = zero nodeN 0%N h.
Proof.
  pose proof zero_table_step_ok as T. apply andb_true_iff in T as [T0 Ts].
  rewrite forallb_forall in Ts.
  induction h as [|h IH]; intros Hh.
  - apply N.eqb_eq in T0. exact T0.
  - cbn [zero]. rewrite <- IH by lia.
    apply N.eqb_eq. apply Ts. apply in_seq. lia.
Qed.
