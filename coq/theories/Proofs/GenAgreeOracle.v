(* One tick of the GER oracle, GENERATED from aggoracle/oracle.go by tools/go2coq on every run (getLastFinalizedGER and
   processLatestGER: the pointer parameter blockNumToFetch as a value that is returned next to the error, the calls on the L1 client,
   the L1 info tree syncer and the chain sender as oracles, the two pointers dereferenced after an error test as a panic parameter),
   computes what the model's tick (Model/Oracle.v tick_fixed = tick_with true, the subject of the C15 theorems) computes:
   the same value of blockNumToFetch after the tick and an error of the same class, for every state of the loop variable, all
   dependencies and every value of the panic parameter.

   The oracles are the model's dependencies (deps). In this file the translator renders l1infotreesync.ErrBlockNotProcessed - the
   one error oracle.go tells apart with errors.Is - as the gerr class ENotFound, every other error as EFail.
   A dependency that reports no error returns a non-nil result (how the real L1 client and syncer behave; this is what makes the
   two dereferences safe).

   A call with an effect is rendered as its result, so ANone and AInject both return nil. WHETHER InjectGER is called, and with which
   root, is recovered from the fact that the generated function is a function OF its InjectGER oracle: run against a sender that
   refuses exactly one root g0 (and whose other dependencies are the model's), it fails iff the model's tick injects g0
   (tick_consults_inject) - InjectGER is consulted with the model's root and with no other. *)
From Coq Require Import NArith List Bool.
From Verif Require Import Base.GoNum Model.Oracle Gen.GenOracle.
Import ListNotations.
Open Scope N_scope.

Section Agree.
Variable d : deps.
Variable panicv : N * N * gerr.

Definition o_header : option Header * gerr :=
  match d_l1 d with Some n => (Some (mkHeader n), EOK) | None => (None, EFail) end.

Definition o_info (b : N) : option (L1InfoTreeLeaf N) * gerr :=
  match get_latest_info_until d b with
  | inl g => (Some (mkL1InfoTreeLeaf N g), EOK)
  | inr ENotProcessed => (None, GoNum.ENotFound)
  | inr _ => (None, EFail)
  end.

Definition o_isinj (g : N) : bool * gerr := if d_isinj_err d then (false, EFail) else (mem g (d_l2 d), EOK).
Definition o_inject (_ : N) : gerr := if d_inject_err d then EFail else EOK.

Definition gen_fetch := getLastFinalizedGER N 0 o_header o_info panicv.
Definition gen_tick := processLatestGER N 0 o_header o_info o_isinj o_inject panicv.

(* the class of error a tick of the model ends with *)
Definition class_of (a : action) : gerr :=
  match a with
  | ANone | AInject _ => EOK
  | AErr ENotProcessed => GoNum.ENotFound
  | AErr _ | AInjectFail _ => EFail
  end.

Definition fetch_class (r : N + errkind) : N * gerr :=
  match r with
  | inl g => (g, EOK)
  | inr ENotProcessed => (0, GoNum.ENotFound)
  | inr _ => (0, EFail)
  end.

Lemma o_info_spec b :
  o_info b = match get_latest_info_until d b with
             | inl g => (Some (mkL1InfoTreeLeaf N g), EOK)
             | inr e => (None, snd (fetch_class (inr e)))
             end.
Proof. unfold o_info. destruct (get_latest_info_until d b) as [g|e]; [reflexivity|]. destruct e; reflexivity. Qed.

Lemma fetch_class_err e : err_eqb (snd (fetch_class (inr e))) EOK = false.
Proof. destruct e; reflexivity. Qed.

Lemma fetch_class_fst_err e : fst (fetch_class (inr e)) = 0.
Proof. destruct e; reflexivity. Qed.

(* getLastFinalizedGER: the block number to remember, the root (the zero hash on failure) and the error class *)
Lemma fetch_agree target :
  gen_fetch target =
  (fst (get_last_finalized_ger d target), fst (fetch_class (snd (get_last_finalized_ger d target))),
   snd (fetch_class (snd (get_last_finalized_ger d target)))).
Proof.
  unfold gen_fetch, getLastFinalizedGER, get_last_finalized_ger, o_header.
  destruct (target =? 0) eqn:Et.
  - destruct (d_l1 d) as [n|]; [|reflexivity].
    cbn [err_eqb negb Header_Number]. rewrite o_info_spec.
    destruct (get_latest_info_until d n) as [g|e]; [reflexivity|].
    cbn [snd fst]. rewrite fetch_class_err, fetch_class_fst_err. reflexivity.
  - rewrite o_info_spec.
    destruct (get_latest_info_until d target) as [g|e]; [reflexivity|].
    cbn [snd fst]. rewrite fetch_class_err, fetch_class_fst_err. reflexivity.
Qed.

(* processLatestGER: blockNumToFetch after the tick and the class of the error returned, for every panic value *)
Theorem tick_agree target :
  gen_tick target = (class_of (snd (tick_fixed target d)), fst (tick_fixed target d)).
Proof.
  unfold gen_tick, processLatestGER. fold (gen_fetch target). rewrite fetch_agree.
  unfold tick_fixed, tick_with.
  destruct (get_last_finalized_ger d target) as [bn [g|e]]; cbn [fst snd fetch_class].
  - cbn [err_eqb negb]. unfold after_fetch, o_isinj, o_inject.
    destruct (d_isinj_err d); [reflexivity|]. cbn [err_eqb negb].
    destruct (mem g (d_l2 d)); [reflexivity|].
    destruct (d_inject_err d); reflexivity.
  - destruct e; reflexivity.
Qed.

(* corollaries in the words of the property: the generated tick remembers the sampled block exactly while the syncer has not
   processed it yet, forgets it on every other failure, and returns nil exactly when the model's tick injects or finds the root
   on L2 already *)
Corollary generated_tick_target target : snd (gen_tick target) = fst (tick_fixed target d).
Proof. now rewrite tick_agree. Qed.

Corollary generated_tick_nil_iff target :
  fst (gen_tick target) = EOK <-> (snd (tick_fixed target d) = ANone \/ exists g, snd (tick_fixed target d) = AInject g).
Proof.
  rewrite tick_agree. cbn [fst]. destruct (snd (tick_fixed target d)) as [|g|e|g]; cbn [class_of].
  - split; [now left|reflexivity].
  - split; [intros _; right; now exists g|reflexivity].
  - split; [destruct e; discriminate|intros [H|[g H]]; discriminate].
  - split; [discriminate|intros [H|[g' H]]; discriminate].
Qed.

(* the generated tick against a sender that refuses exactly the root g0: it fails with that sender iff the model's tick injects
   g0; in every other case the outcome is the one of tick_agree. Hence processLatestGER calls InjectGER exactly when the model's
   action is AInject, and with the model's root. *)
Definition refuse (g0 g : N) : gerr := if g =? g0 then EFail else EOK.
Definition gen_tick_refusing (g0 : N) := processLatestGER N 0 o_header o_info o_isinj (refuse g0) panicv.

Theorem tick_consults_inject target g0 : d_inject_err d = false ->
  gen_tick_refusing g0 target =
  (match snd (tick_fixed target d) with
   | AInject g => if g =? g0 then EFail else EOK
   | a => class_of a
   end, fst (tick_fixed target d)).
Proof.
  intros Hinj.
  unfold gen_tick_refusing, processLatestGER. fold (gen_fetch target). rewrite fetch_agree.
  unfold tick_fixed, tick_with.
  destruct (get_last_finalized_ger d target) as [bn [g|e]]; cbn [fst snd fetch_class].
  - cbn [err_eqb negb]. unfold after_fetch, o_isinj, refuse. rewrite Hinj.
    destruct (d_isinj_err d); [reflexivity|]. cbn [err_eqb negb].
    destruct (mem g (d_l2 d)); [reflexivity|].
    cbn [snd fst]. destruct (g =? g0); reflexivity.
  - destruct e; reflexivity.
Qed.

End Agree.
