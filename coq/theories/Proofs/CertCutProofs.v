(* C17 proofs: Range / limitCertSize / AdaptCertificate / Gap (model: Model/CertCut.v). *)
From Coq Require Import NArith ZArith List Bool Lia.
From Coq Require Import ZifyN ZifyBool.
From Verif Require Import Model.CertCut.
Import ListNotations.
Open Scope N_scope.

(* ------------------------------------------------------------------------------------------ *)
(* lists *)

Lemma filter_all {A} (p : A -> bool) (l : list A) : Forall (fun x => p x = true) l -> filter p l = l.
Proof. induction 1 as [|x l H _ IH]; cbn; [reflexivity|]. now rewrite H, IH. Qed.

Lemma filter_filter_imp {A} (p q : A -> bool) (l : list A) :
  (forall x, q x = true -> p x = true) -> filter q (filter p l) = filter q l.
Proof.
  intros Himp. induction l as [|x l IH]; cbn; [reflexivity|].
  destruct (p x) eqn:Hp; cbn.
  - destruct (q x); now rewrite IH.
  - destruct (q x) eqn:Hq; [apply Himp in Hq; congruence|exact IH].
Qed.

Lemma in_range_spec f t e : in_range f t e = true <-> f <= ev_block e /\ ev_block e <= t.
Proof. unfold in_range. lia. Qed.

Lemma in_range_narrow f t t' e : t' <= t -> in_range f t' e = true -> in_range f t e = true.
Proof. rewrite !in_range_spec. lia. Qed.

(* ------------------------------------------------------------------------------------------ *)
(* Range *)

Lemma params_eta c : P (p_from c) (p_to c) (p_bridges c) (p_claims c) (p_retry c) (p_has_last c) (p_type c) = c.
Proof. now destruct c. Qed.

Lemma restrict_self c : events_in_range c -> restrict c (p_from c) (p_to c) = c.
Proof. intros [Hb Hc]. unfold restrict. rewrite (filter_all _ _ Hb), (filter_all _ _ Hc). apply params_eta. Qed.

(* when the requested range differs from the certificate's own, the result is the restriction, whatever c contains *)
Lemma range_cut_strict c f t c' :
  ~ (f = p_from c /\ t = p_to c) -> range_cut c f t = Ok c' -> c' = restrict c f t.
Proof.
  unfold range_cut. intros Hne.
  destruct ((p_from c =? f) && (p_to c =? t)) eqn:E1; [exfalso; apply Hne; lia|].
  destruct ((f <? p_from c) || (p_to c <? t)); [discriminate|].
  destruct (t <? f); [discriminate|]. intros H; injection H as <-. reflexivity.
Qed.

Lemma range_cut_same c : range_cut c (p_from c) (p_to c) = Ok c.
Proof. unfold range_cut. now rewrite !N.eqb_refl. Qed.

Theorem range_is_filter c f t c' :
  events_in_range c -> range_cut c f t = Ok c' ->
  c' = restrict c f t /\ p_from c' = f /\ p_to c' = t /\
  p_bridges c' = filter (in_range f t) (p_bridges c) /\ p_claims c' = filter (in_range f t) (p_claims c).
Proof.
  intros Hin H.
  assert (E : c' = restrict c f t).
  { destruct (N.eq_dec f (p_from c)) as [-> | Hf].
    - destruct (N.eq_dec t (p_to c)) as [-> | Ht].
      + rewrite range_cut_same in H. injection H as <-. symmetry. now apply restrict_self.
      + apply range_cut_strict in H; [exact H|]. intros [_ ?]; contradiction.
    - apply range_cut_strict in H; [exact H|]. intros [? _]; contradiction. }
  subst c'. repeat split.
Qed.

Lemma range_cut_ok_inv c f t c' : range_cut c f t = Ok c' ->
  (f = p_from c /\ t = p_to c /\ c' = c) \/
  (~ (f = p_from c /\ t = p_to c) /\ p_from c <= f /\ t <= p_to c /\ f <= t /\ c' = restrict c f t).
Proof.
  unfold range_cut.
  destruct ((p_from c =? f) && (p_to c =? t)) eqn:E1.
  - intros H; injection H as <-. left. repeat split; try lia.
  - destruct ((f <? p_from c) || (p_to c <? t)) eqn:E2; [discriminate|].
    destruct (t <? f) eqn:E3; [discriminate|].
    intros H; injection H as <-. right. repeat split; lia || reflexivity.
Qed.

Lemma restrict_restrict2 c f1 t1 f2 t2 : f1 <= f2 -> t2 <= t1 ->
  restrict (restrict c f1 t1) f2 t2 = restrict c f2 t2.
Proof.
  intros Hf Ht. unfold restrict; cbn.
  rewrite !filter_filter_imp; [reflexivity| |]; intros e; rewrite !in_range_spec; lia.
Qed.

(* cutting twice is cutting once: a cut of a cut of c is the cut of c itself, so repeated cuts (limitCertSize walks the
   end block down one by one, AdaptCertificate then cuts again) never lose more than the final range says *)
Theorem range_cut_compose c f1 t1 c1 f2 t2 c2 :
  events_in_range c -> range_cut c f1 t1 = Ok c1 -> range_cut c1 f2 t2 = Ok c2 -> range_cut c f2 t2 = Ok c2.
Proof.
  intros Hin H1 H2.
  destruct (range_cut_ok_inv _ _ _ _ H1) as [(-> & -> & ->)|(N1 & A1 & B1 & C1 & ->)]; [exact H2|].
  destruct (range_cut_ok_inv _ _ _ _ H2) as [(E1 & E2 & ->)|(N2 & A2 & B2 & C2 & ->)]; cbn in *.
  - subst. exact H1.
  - rewrite restrict_restrict2 by assumption.
    destruct (N.eq_dec f2 (p_from c)) as [Ef|Ef]; [destruct (N.eq_dec t2 (p_to c)) as [Et|Et]|].
    + subst. rewrite range_cut_same. f_equal. symmetry. now apply restrict_self.
    + unfold range_cut.
      replace ((p_from c =? f2) && (p_to c =? t2)) with false by lia.
      replace ((f2 <? p_from c) || (p_to c <? t2)) with false by lia.
      replace (t2 <? f2) with false by lia. reflexivity.
    + unfold range_cut.
      replace ((p_from c =? f2) && (p_to c =? t2)) with false by lia.
      replace ((f2 <? p_from c) || (p_to c <? t2)) with false by lia.
      replace (t2 <? f2) with false by lia. reflexivity.
Qed.

(* when Range succeeds and when it fails *)
Theorem range_cut_cases c f t :
  (range_cut c f t = Err ENotWithin <-> ~ (f = p_from c /\ t = p_to c) /\ (f < p_from c \/ p_to c < t)) /\
  (range_cut c f t = Err EFromGtTo <-> ~ (f = p_from c /\ t = p_to c) /\ p_from c <= f /\ t <= p_to c /\ t < f) /\
  ((exists c', range_cut c f t = Ok c') <-> (f = p_from c /\ t = p_to c) \/ (p_from c <= f /\ f <= t /\ t <= p_to c)).
Proof.
  unfold range_cut.
  destruct ((p_from c =? f) && (p_to c =? t)) eqn:E1.
  { repeat split; try discriminate; try lia; eauto. }
  destruct ((f <? p_from c) || (p_to c <? t)) eqn:E2.
  { repeat split; try discriminate; try lia. intros [? ?]; discriminate. }
  destruct (t <? f) eqn:E3.
  { repeat split; try discriminate; try lia. intros [? ?]; discriminate. }
  repeat split; try discriminate; try lia; eauto.
Qed.

Lemma range_cut_ok c f t :
  ~ (f = p_from c /\ t = p_to c) -> p_from c <= f -> f <= t -> t <= p_to c -> range_cut c f t = Ok (restrict c f t).
Proof.
  intros Hne H1 H2 H3. unfold range_cut.
  destruct ((p_from c =? f) && (p_to c =? t)) eqn:E1; [exfalso; apply Hne; lia|].
  destruct ((f <? p_from c) || (p_to c <? t)) eqn:E2; [lia|].
  destruct (t <? f) eqn:E3; [lia|]. reflexivity.
Qed.

(* ------------------------------------------------------------------------------------------ *)
(* limitCertSize *)

(* the certificate the loop holds when its last block is t: the input itself at t = to, its restriction below *)
Definition cutto (c : params) (t : N) : params := if t =? p_to c then c else restrict c (p_from c) t.

Lemma cutto_from c t : p_from (cutto c t) = p_from c.
Proof. unfold cutto. now destruct (t =? p_to c). Qed.
Lemma cutto_to c t : p_to (cutto c t) = t.
Proof. unfold cutto. destruct (N.eqb_spec t (p_to c)); [congruence|reflexivity]. Qed.

Lemma range_cut_cutto c t : p_from c <= t -> t <= p_to c -> range_cut c (p_from c) t = Ok (cutto c t).
Proof.
  intros H1 H2. unfold cutto. destruct (N.eqb_spec t (p_to c)) as [-> | Hne].
  - apply range_cut_same.
  - apply range_cut_ok; lia.
Qed.

Lemma restrict_restrict c f t t' : t' <= t -> restrict (restrict c f t) f t' = restrict c f t'.
Proof.
  intros Hle. unfold restrict; cbn [p_bridges p_claims p_retry p_has_last p_type].
  rewrite !filter_filter_imp; [reflexivity| |]; intros x; now apply in_range_narrow.
Qed.

(* one shrink step of the loop *)
Lemma range_cut_step c t : p_from c <= t - 1 -> 0 < t -> t <= p_to c ->
  range_cut (cutto c t) (p_from c) (t - 1) = Ok (cutto c (t - 1)).
Proof.
  intros H1 H0 H2.
  assert (E' : cutto c (t - 1) = restrict c (p_from c) (t - 1)).
  { unfold cutto. destruct (N.eqb_spec (t - 1) (p_to c)); [lia|reflexivity]. }
  rewrite E'. unfold cutto. destruct (N.eqb_spec t (p_to c)) as [-> | Hne].
  - apply range_cut_ok; lia.
  - rewrite <- (restrict_restrict c (p_from c) t (t - 1)) by lia.
    apply range_cut_ok; cbn [restrict p_from p_to]; lia.
Qed.

Lemma sub64_small a b : b <= a -> a < U64 -> sub64 a b = a - b.
Proof. intros. unfold sub64. replace (a + U64 - b) with (a - b + 1 * U64) by lia. rewrite N.mod_add by (unfold U64; lia). apply N.mod_small. lia. Qed.

Lemma add64_small a b : a + b < U64 -> add64 a b = a + b.
Proof. intros. unfold add64. now apply N.mod_small. Qed.

Lemma number_of_blocks_small c : wf_span c -> forall t, p_from c <= t -> t <= p_to c ->
  number_of_blocks (cutto c t) = Z.of_N (t - p_from c + 1).
Proof.
  intros (H1 & H2 & H3) t Ht1 Ht2. unfold number_of_blocks. rewrite cutto_from, cutto_to.
  rewrite sub64_small by lia. unfold I63, U64 in *. rewrite add64_small by (unfold U64; lia).
  unfold int_of_u64, I63. destruct (N.ltb_spec (t - p_from c + 1) 9223372036854775808); [reflexivity|lia].
Qed.

Section Limit.
  Variable size : params -> N.     (* ANY size estimate: no monotonicity is assumed anywhere below *)
  Variable max : N.

  Lemma fits_dec c : fits size max c \/ ~ fits size max c.
  Proof.
    unfold fits. destruct (N.eq_dec max 0); [left; now left|].
    destruct (N.le_gt_cases (size c) max); [left; now right|right; lia].
  Qed.

  Lemma fits_test c : (max =? 0) || (size c <=? max) = true <-> fits size max c.
  Proof. unfold fits. lia. Qed.

  (* loop invariant: entering an iteration with last block t, every larger end block already known not to fit *)
  Lemma limit_loop_inv c : wf_span c -> forall fuel t,
    p_from c <= t -> t <= p_to c -> (N.to_nat (t - p_from c) < fuel)%nat ->
    (forall t', t < t' -> t' <= p_to c -> ~ fits size max (cutto c t')) ->
    exists t0, p_from c <= t0 /\ t0 <= t /\
      limit_loop size max fuel (cutto c t) = LDone (cutto c t0) /\
      (fits size max (cutto c t0) \/ t0 = p_from c) /\
      (forall t', t0 < t' -> t' <= p_to c -> ~ fits size max (cutto c t')).
  Proof.
    intros Hwf. induction fuel as [|k IH]; intros t Ht1 Ht2 Hfuel Hbig; [lia|].
    cbn [limit_loop].
    destruct ((max =? 0) || (size (cutto c t) <=? max)) eqn:Efit.
    { exists t. repeat split; try lia; auto. left. now apply fits_test. }
    assert (Hnofit : ~ fits size max (cutto c t)) by (rewrite <- fits_test; congruence).
    rewrite (number_of_blocks_small c Hwf t Ht1 Ht2).
    destruct (Z.leb_spec (Z.of_N (t - p_from c + 1)) 1) as [Hone | Hmany].
    { exists t. assert (t = p_from c) by lia. repeat split; try lia; auto. }
    rewrite cutto_from, cutto_to.
    destruct Hwf as (Hw1 & Hw2 & Hw3).
    rewrite sub64_small by lia.
    rewrite range_cut_step by lia.
    destruct (IH (t - 1)) as (t0 & A1 & A2 & A3 & A4 & A5); try lia.
    { intros t' Hlt Hle. destruct (N.eq_dec t' t) as [-> | Hne]; [exact Hnofit|]. apply Hbig; lia. }
    exists t0. repeat split; try lia; auto.
  Qed.

  (* totality + characterisation; limit_fuel is sufficient *)
  Theorem limit_spec c : wf_span c ->
    exists c', limit_cert_size size max c = LDone c' /\
      p_from c' = p_from c /\ p_from c <= p_to c' /\ p_to c' <= p_to c /\
      range_cut c (p_from c) (p_to c') = Ok c' /\
      (fits size max c' \/ p_to c' = p_from c') /\
      (forall t ct, p_to c' < t -> t <= p_to c -> range_cut c (p_from c) t = Ok ct -> ~ fits size max ct).
  Proof.
    intros Hwf. pose proof Hwf as (Hw1 & Hw2 & Hw3).
    destruct (limit_loop_inv c Hwf (limit_fuel c) (p_to c)) as (t0 & A1 & A2 & A3 & A4 & A5); try lia.
    { unfold limit_fuel. lia. }
    assert (Ec : cutto c (p_to c) = c) by (unfold cutto; now rewrite N.eqb_refl).
    rewrite Ec in A3. exists (cutto c t0). unfold limit_cert_size.
    rewrite cutto_from, cutto_to. repeat split; auto.
    - now apply range_cut_cutto.
    - intros t ct Hlt Hle Hr. rewrite range_cut_cutto in Hr by lia. injection Hr as <-. now apply A5.
  Qed.

  Theorem limit_keeps_first_and_is_maximal c c' : wf_span c ->
    limit_cert_size size max c = LDone c' ->
    p_from c' = p_from c /\ p_from c <= p_to c' /\ p_to c' <= p_to c /\
    range_cut c (p_from c) (p_to c') = Ok c' /\
    (fits size max c' \/ p_to c' = p_from c') /\
    (forall t ct, p_to c' < t -> t <= p_to c -> range_cut c (p_from c) t = Ok ct -> ~ fits size max ct).
  Proof.
    intros Hwf H. destruct (limit_spec c Hwf) as (c'' & E & R). rewrite E in H. injection H as <-. exact R.
  Qed.

  Theorem limit_never_fails c : wf_span c -> exists c', limit_cert_size size max c = LDone c'.
  Proof. intros Hwf. destruct (limit_spec c Hwf) as (c' & E & _). eauto. Qed.

  (* contents: exactly the events of the kept blocks, in the original order *)
  Theorem limit_result_is_filter c c' : wf_span c -> events_in_range c ->
    limit_cert_size size max c = LDone c' -> c' = restrict c (p_from c) (p_to c').
  Proof.
    intros Hwf Hin H. destruct (limit_keeps_first_and_is_maximal c c' Hwf H) as (_ & _ & _ & Hr & _).
    now apply (range_is_filter c _ _ c' Hin) in Hr.
  Qed.

  Theorem exceeds_limit_only_if_single_block c c' : wf_span c ->
    limit_cert_size size max c = LDone c' -> ~ fits size max c' -> p_to c' = p_from c'.
  Proof.
    intros Hwf H Hn. destruct (limit_keeps_first_and_is_maximal c c' Hwf H) as (_ & _ & _ & _ & [Hf | Hs] & _); [contradiction|exact Hs].
  Qed.

  (* limit 0 means no limit: nothing is cut *)
  Theorem limit_zero_is_identity c : max = 0 -> limit_cert_size size max c = LDone c.
  Proof. intros ->. unfold limit_cert_size, limit_fuel. cbn [limit_loop]. reflexivity. Qed.

  (* a certificate that already fits is returned unchanged *)
  Theorem limit_fitting_is_identity c : fits size max c -> limit_cert_size size max c = LDone c.
  Proof. intros Hf. unfold limit_cert_size, limit_fuel. cbn [limit_loop]. apply fits_test in Hf. now rewrite Hf. Qed.

  (* fuel: more fuel never changes an answer that did not run out *)
  Lemma limit_loop_fuel_mono k c r : limit_loop size max k c = r -> r <> LOutOfFuel ->
    forall k', (k <= k')%nat -> limit_loop size max k' c = r.
  Proof.
    revert c r. induction k as [|k IH]; intros c r H Hne k' Hle; cbn [limit_loop] in H; [congruence|].
    destruct k' as [|k']; [lia|]. cbn [limit_loop].
    destruct ((max =? 0) || (size c <=? max)); [exact H|].
    destruct (number_of_blocks c <=? 1)%Z; [exact H|].
    destruct (range_cut c (p_from c) (sub64 (p_to c) 1)); [|exact H].
    apply (IH _ _ H Hne). lia.
  Qed.

  (* the capped-fuel variant used for evaluation in case files agrees with the definition whenever it answers *)
  Theorem limit_exec_agrees c r : limit_cert_size_exec size max c = r -> r <> LOutOfFuel -> limit_cert_size size max c = r.
  Proof.
    unfold limit_cert_size_exec, limit_cert_size, limit_fuel. intros H Hne.
    apply (limit_loop_fuel_mono _ _ _ H Hne). lia.
  Qed.
End Limit.

(* the loop stops at once, whatever the size, when NumberOfBlocks() <= 1 as a Go int *)
Lemma limit_stops_when_blocks_le_1 size max c :
  max <> 0 -> max < size c -> (number_of_blocks c <= 1)%Z -> limit_cert_size size max c = LDone c.
Proof.
  intros H0 H1 H2. unfold limit_cert_size, limit_fuel. cbn [limit_loop].
  replace ((max =? 0) || (size c <=? max)) with false by lia.
  replace (number_of_blocks c <=? 1)%Z with true by lia. reflexivity.
Qed.

(* beyond 2^63 blocks NumberOfBlocks() is negative as an int, the loop stops at once and hands back a
   multi-block certificate that exceeds the limit: the span hypothesis of the theorems above is necessary *)
Theorem exceeds_limit_unbounded_refuted :
  exists (size : params -> N) (max : N) (c c' : params),
    p_from c <= p_to c /\ p_to c < U64 /\ events_in_range c /\
    limit_cert_size size max c = LDone c' /\ ~ fits size max c' /\ p_from c' < p_to c'.
Proof.
  exists (fun c => 100 * (number_of_bridges c + number_of_claims c)), 1.
  exists (P 0 I63 [Ev 0 0 1; Ev 1 0 2] [] 0%Z false TPP), (P 0 I63 [Ev 0 0 1; Ev 1 0 2] [] 0%Z false TPP).
  split; [vm_compute; congruence|]. split; [vm_compute; reflexivity|].
  split. { split; [|constructor]. repeat constructor. }
  split.
  - apply limit_stops_when_blocks_le_1; [discriminate|vm_compute; reflexivity|vm_compute; congruence].
  - split; [|vm_compute; reflexivity]. unfold fits. intros [H | H]; [discriminate|]. vm_compute in H. apply H. reflexivity.
Qed.

(* ------------------------------------------------------------------------------------------ *)
(* AdaptCertificate *)

Lemma nb_zero c : (number_of_bridges c =? 0) = true <-> p_bridges c = [].
Proof. unfold number_of_bridges. destruct (p_bridges c); cbn [length]; split; intros; try reflexivity; try discriminate; lia. Qed.
Lemma nc_zero c : (number_of_claims c =? 0) = true <-> p_claims c = [].
Proof. unfold number_of_claims. destruct (p_claims c); cbn [length]; split; intros; try reflexivity; try discriminate; lia. Qed.
Lemma nc_pos c : (0 <? number_of_claims c) = true <-> p_claims c <> [].
Proof. unfold number_of_claims. destruct (p_claims c); cbn [length]; split; intros; try congruence; try lia. Qed.

(* retry certificates may not be resized unless the limiter allows it *)
Definition retry_blocked (l : limiter) (c : params) : Prop := is_retry c = true /\ l_allow_resize_retry l = false.

Theorem adapt_disabled l oc : l_max l = 0 -> adapt_certificate l oc = Ok oc.
Proof. intros H. unfold adapt_certificate, is_enabled. now rewrite H. Qed.

Theorem adapt_nil l : l_max l <> 0 -> adapt_certificate l None = Err ANil.
Proof. intros H. unfold adapt_certificate, is_enabled. destruct (N.ltb_spec 0 (l_max l)); [reflexivity|lia]. Qed.

(* normal form of AdaptCertificate on an enabled limiter: a decision table over the restriction to [from, max] *)
Lemma adapt_table l c : l_max l <> 0 -> p_to c < U64 ->
  adapt_certificate l (Some c) =
    if p_to c <=? l_max l then Ok (Some c)
    else if is_retry c && negb (l_allow_resize_retry l) then Err ARetryExceeded
    else if p_from c =? l_max l + 1 then Err ACompleteUpcoming
    else if l_max l <? p_from c then Err ACompleteFar
    else let n := restrict c (p_from c) (l_max l) in
      if l_require_bridge l then
        match p_bridges n, p_claims n with
        | [], [] => Err ACompleteNothing
        | [], _ :: _ => Err ANoBridgesButClaims
        | _ :: _, _ => Ok (Some n)
        end
      else Ok (Some n).
Proof.
  intros Hen Hto. unfold adapt_certificate, is_allowed_block, is_upcoming_next_range, is_enabled.
  destruct (N.ltb_spec 0 (l_max l)) as [_|]; [|lia]. cbn [negb].
  destruct (N.leb_spec (p_to c) (l_max l)) as [|Hover]; [reflexivity|].
  destruct (is_retry c && negb (l_allow_resize_retry l)); [reflexivity|].
  rewrite add64_small by lia.
  replace (l_max l <? p_to c) with true by lia. rewrite andb_true_r.
  destruct (N.eqb_spec (p_from c) (l_max l + 1)); [reflexivity|].
  destruct (N.ltb_spec (l_max l) (p_from c)); [reflexivity|].
  rewrite range_cut_ok by lia. cbn zeta.
  set (cut := restrict c (p_from c) (l_max l)).
  unfold is_empty_cert.
  pose proof (nb_zero cut) as Hb. pose proof (nc_zero cut) as Hc. pose proof (nc_pos cut) as Hp.
  destruct (l_require_bridge l); cbn [negb andb].
  - destruct (p_bridges cut) eqn:Eb.
    + replace (number_of_bridges cut =? 0) with true by (symmetry; now apply Hb).
      destruct (p_claims cut) eqn:Ec.
      * replace (0 <? number_of_claims cut) with false; [reflexivity|].
        destruct (0 <? number_of_claims cut) eqn:E; [|reflexivity]. exfalso. exact (proj1 Hp eq_refl eq_refl).
      * replace (0 <? number_of_claims cut) with true; [reflexivity|]. symmetry. apply Hp. discriminate.
    + replace (number_of_bridges cut =? 0) with false; [reflexivity|].
      destruct (number_of_bridges cut =? 0) eqn:E; [|reflexivity]. discriminate (proj1 Hb eq_refl).
  - destruct ((number_of_bridges cut =? 0) && (number_of_claims cut =? 0)); reflexivity.
Qed.

(* success: same first block, ends at min(to, max), contents = restriction *)
Theorem adapt_clamps l c r : l_max l <> 0 -> p_to c < U64 ->
  adapt_certificate l (Some c) = Ok r ->
  exists c', r = Some c' /\ p_from c' = p_from c /\ p_to c' = N.min (p_to c) (l_max l) /\
    (p_to c <= l_max l -> c' = c) /\
    (l_max l < p_to c -> c' = restrict c (p_from c) (l_max l) /\ p_from c <= l_max l /\ ~ retry_blocked l c /\
                          (l_require_bridge l = true -> p_bridges c' <> [])).
Proof.
  intros Hen Hto. rewrite adapt_table by assumption.
  destruct (N.leb_spec (p_to c) (l_max l)) as [Hle|Hover].
  { intros Hres; injection Hres as <-. exists c. repeat split; try lia; auto. }
  destruct (is_retry c && negb (l_allow_resize_retry l)) eqn:Eretry; [discriminate|].
  destruct (N.eqb_spec (p_from c) (l_max l + 1)); [discriminate|].
  destruct (N.ltb_spec (l_max l) (p_from c)); [discriminate|]. cbn zeta.
  assert (Hnb : ~ retry_blocked l c).
  { unfold retry_blocked. intros [H1 H2]. rewrite H1, H2 in Eretry. discriminate. }
  destruct (l_require_bridge l) eqn:Ereq.
  - destruct (p_bridges (restrict c (p_from c) (l_max l))) eqn:Eb.
    + destruct (p_claims (restrict c (p_from c) (l_max l))); discriminate.
    + intros Hres; injection Hres as <-. eexists; repeat split; try reflexivity; cbn [restrict p_from p_to]; try lia; auto.
      intros _. rewrite Eb. discriminate.
  - intros Hres; injection Hres as <-. eexists; repeat split; try reflexivity; cbn [restrict p_from p_to]; try lia; auto; try (intros; discriminate).
Qed.

(* every outcome characterised: which inputs give which error, and when the call succeeds *)
Theorem adapt_errors_characterised l c : l_max l <> 0 -> p_to c < U64 ->
  let M := l_max l in
  let n := restrict c (p_from c) M in
  let a := adapt_certificate l (Some c) in
  (a = Err ARetryExceeded <-> M < p_to c /\ retry_blocked l c) /\
  (a = Err ACompleteUpcoming <-> M < p_to c /\ ~ retry_blocked l c /\ p_from c = M + 1) /\
  (a = Err ACompleteFar <-> M < p_to c /\ ~ retry_blocked l c /\ M + 1 < p_from c) /\
  (a = Err ANoBridgesButClaims <->
     M < p_to c /\ ~ retry_blocked l c /\ p_from c <= M /\ l_require_bridge l = true /\ p_bridges n = [] /\ p_claims n <> []) /\
  (a = Err ACompleteNothing <->
     M < p_to c /\ ~ retry_blocked l c /\ p_from c <= M /\ l_require_bridge l = true /\ p_bridges n = [] /\ p_claims n = []) /\
  a <> Err ANil /\ (forall e, a <> Err (ARange e)) /\
  ((exists r, a = Ok r) <->
     p_to c <= M \/ (~ retry_blocked l c /\ p_from c <= M /\ (l_require_bridge l = true -> p_bridges n <> []))).
Proof.
  intros Hen Hto. cbn zeta. rewrite adapt_table by assumption. unfold retry_blocked.
  destruct (N.leb_spec (p_to c) (l_max l)) as [Hle|Hover].
  { repeat split; try discriminate; try lia; eauto. }
  destruct (is_retry c) eqn:Er; destruct (l_allow_resize_retry l) eqn:Ea; cbn [andb negb].
  2: { repeat split; try discriminate; try tauto; try lia. intros [r Hr]; discriminate. }
  all: destruct (N.eqb_spec (p_from c) (l_max l + 1)) as [Hup|Hnup];
    [repeat split; try discriminate; try tauto; try lia; try (intros [r Hr]; discriminate);
     try (intros (_ & H & _); discriminate H)|].
  all: destruct (N.ltb_spec (l_max l) (p_from c)) as [Hfar|Hin];
    [repeat split; try discriminate; try tauto; try lia; try (intros [r Hr]; discriminate);
     try (intros (_ & H & _); discriminate H)|].
  all: cbn zeta; destruct (l_require_bridge l) eqn:Ereq;
    [destruct (p_bridges (restrict c (p_from c) (l_max l))) eqn:Eb;
      [destruct (p_claims (restrict c (p_from c) (l_max l))) eqn:Ec|]|].
  all: repeat split; try discriminate; try lia; eauto;
    try (intros (_ & [? ?] & _); discriminate);
    try (intros (_ & _ & _ & _ & _ & H); (discriminate H || (exfalso; apply H; reflexivity)));
    try (intros (_ & _ & _ & _ & H & _); discriminate H);
    try (intros (_ & _ & _ & H & _); discriminate H);
    try (intros [? ?]; discriminate);
    try (intros [? | (_ & _ & H)]; [lia | exfalso; apply H; reflexivity]);
    try (intros _; right; repeat split; try lia; try (intros [? ?]; discriminate); intros; discriminate).
Qed.

(* ------------------------------------------------------------------------------------------ *)
(* BlockRange.Gap over uint64, with the saturating getBlockMinusOne exactly as the Go code *)

Theorem gap_none_when_touching b o : wf_range b -> wf_range o -> touching b o -> gap b o = R 0 0.
Proof.
  intros [Hb1 Hb2] [Ho1 Ho2] [H1 H2]. unfold gap, minus_one.
  destruct (N.ltb_spec 0 (rf o)), (N.ltb_spec 0 (rf b));
  repeat match goal with |- context [?a <=? ?c] => destruct (N.leb_spec a c) end; cbn [andb]; try reflexivity; lia.
Qed.

Theorem gap_exact b o : wf_range b -> wf_range o -> ~ touching b o ->
  let g := gap b o in
  rf g <= rt g /\ rt g < U64 /\ (forall k, (rf g <= k /\ k <= rt g) <-> strictly_between b o k) /\
  ((rt b < rf o /\ g = R (rt b + 1) (rf o - 1)) \/ (rt o < rf b /\ g = R (rt o + 1) (rf b - 1))).
Proof.
  intros [Hb1 Hb2] [Ho1 Ho2] Hnt. unfold touching in Hnt. cbn zeta.
  unfold gap, minus_one, strictly_between.
  destruct (N.ltb_spec 0 (rf o)), (N.ltb_spec 0 (rf b));
  repeat match goal with |- context [?a <=? ?c] => destruct (N.leb_spec a c) end; cbn [andb]; try lia;
  destruct (N.ltb_spec (rt b) (rf o)); cbn [rf rt];
  rewrite ?add64_small by lia; rewrite ?sub64_small by lia;
  (split; [lia|split; [lia|split; [intros k; lia|]]]);
  try (left; split; [lia|f_equal; lia]); try (right; split; [lia|f_equal; lia]).
Qed.

(* "no gap" is reported exactly for touching or overlapping ranges (the empty answer [0,0] is never a real gap) *)
Theorem gap_empty_iff_touching b o : wf_range b -> wf_range o -> (gap b o = R 0 0 <-> touching b o).
Proof.
  intros Hb Ho. split; [|now apply gap_none_when_touching].
  intros Hg. destruct (N.le_gt_cases (rf o) (rt b + 1)) as [H1|H1], (N.le_gt_cases (rf b) (rt o + 1)) as [H2|H2];
    try (split; assumption); exfalso.
  all: assert (Hnt : ~ touching b o) by (unfold touching; lia);
    destruct (gap_exact b o Hb Ho Hnt) as (_ & _ & Hk & _); rewrite Hg in Hk; cbn [rf rt] in Hk;
    specialize (Hk 0); unfold strictly_between in Hk; lia.
Qed.

(* number of blocks reported for a real gap = number of blocks strictly between *)
Theorem gap_count b o : wf_range b -> wf_range o -> ~ touching b o ->
  count_blocks (gap b o) = rt (gap b o) - rf (gap b o) + 1 /\ 0 < count_blocks (gap b o).
Proof.
  intros Hb Ho Hnt. destruct (gap_exact b o Hb Ho Hnt) as (G1 & G2 & Hk & _).
  unfold count_blocks.
  destruct ((rf (gap b o) =? 0) && (rt (gap b o) =? 0)) eqn:E0;
    [specialize (Hk 0); unfold strictly_between in Hk; lia|].
  destruct (N.ltb_spec (rt (gap b o)) (rf (gap b o))); [lia|].
  rewrite sub64_small by lia. destruct Hb, Ho.
  assert (rf (gap b o) > 0 \/ rt (gap b o) < U64 - 1).
  { destruct (N.eq_dec (rf (gap b o)) 0) as [E|]; [|lia]. specialize (Hk 0). unfold strictly_between in Hk. lia. }
  rewrite add64_small by (unfold U64 in *; lia). lia.
Qed.

Theorem gap_is_empty_iff_touching b o : wf_range b -> wf_range o -> (is_empty_range (gap b o) = true <-> touching b o).
Proof.
  intros Hb Ho. split.
  - intros He. destruct (N.le_gt_cases (rf o) (rt b + 1)) as [H1|H1], (N.le_gt_cases (rf b) (rt o + 1)) as [H2|H2];
      try (split; assumption); exfalso.
    all: assert (Hnt : ~ touching b o) by (unfold touching; lia);
      destruct (gap_count b o Hb Ho Hnt) as (_ & Hpos); unfold is_empty_range in He; lia.
  - intros Ht. rewrite (gap_none_when_touching b o Hb Ho Ht). reflexivity.
Qed.

(* the two cuts of the build pipeline in a row (size limit, then the configured last L2 block): what comes out is the
   ORIGINAL certificate restricted to first block .. min(end kept by the size cut, configured maximum) *)
Theorem limit_then_adapt (size : params -> N) (max : N) l c c1 r :
  wf_span c -> events_in_range c -> limit_cert_size size max c = LDone c1 ->
  l_max l <> 0 -> p_to c1 < U64 -> adapt_certificate l (Some c1) = Ok r ->
  exists c2, r = Some c2 /\ c2 = restrict c (p_from c) (N.min (p_to c1) (l_max l)).
Proof.
  intros Hwf Hin HL Hm Hu HA.
  pose proof (limit_result_is_filter size max c c1 Hwf Hin HL) as E1.
  destruct (adapt_clamps l c1 r Hm Hu HA) as (c2 & -> & Hf & Ht & Hle & Hgt).
  exists c2. split; [reflexivity|].
  destruct (N.le_gt_cases (p_to c1) (l_max l)) as [Hc|Hc].
  - rewrite (Hle Hc). rewrite N.min_l by exact Hc. exact E1.
  - destruct (Hgt Hc) as (E2 & _). rewrite N.min_r by lia.
    rewrite E2. rewrite E1 at 1 2. cbn [p_from restrict].
    apply restrict_restrict. lia.
Qed.
