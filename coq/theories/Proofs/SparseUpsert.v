(* Updatable (sparse) Merkle tree, UpdatableTree.UpsertLeaf: the climb over the siblings returned by getSiblings
   (Merkle.swalk, zero-hash fallback included) yields the root of the UPDATED leaf function, the nodes it stores are
   exactly the path nodes of the new version, the node store stays closed for the new version and for every older one,
   and GetLeaf / GetProof on a closed version return the true leaf / a verifying proof.
   Generic in the hash; the only hypothesis is injectivity of the node function (used where an insert-ignore meets an
   existing key, and to see that the children of a zero subtree are zero subtrees). Used by C08, C11, C12.

   The closure invariant is tree-shaped (`CL`): a subtree is either stored with both children closed, or absent and
   genuinely all-zero. Positions are followed top-down (`path_index`), so no division arithmetic is needed;
   `path_index_testbit` connects to the index whose bits drive the Go loops. *)
From Coq Require Import Arith Lia List Bool PeanoNat.
From Verif Require Import Model.Merkle Model.MerkleSpec Proofs.Frontier Proofs.Rht.
Import ListNotations.

Section SparseUpsert.
Context {hash : Type}.
Variable node : hash -> hash -> hash.
Variable z0 : hash.
Hypothesis node_inj : forall a b c d, node a b = node c d -> a = c /\ b = d.
Variable heq_dec : forall a b : hash, {a = b} + {a <> b}.
Notation zero := (zero node z0).
Notation zeros := (zeros zero).
Notation SS := (fun g h k => ssub node g h k).
Notation rht := (@rht hash).
Notation WF := (WF node).
Notation ins := (ins heq_dec).
Notation ins_all := (ins_all heq_dec).

(* the leaf function after writing v at position j *)
Definition supd (g : nat -> hash) (j : nat) (v : hash) : nat -> hash := fun k => if Nat.eqb k j then v else g k.

(* position reached from node k of height h following the bits top-down *)
Fixpoint path_index (h k : nat) (bit : nat -> bool) : nat :=
  match h with 0 => k | S h' => path_index h' (if bit h' then 2 * k + 1 else 2 * k) bit end.
(* siblings along that path, level 0 first (reference form of what getSiblings returns) *)
Fixpoint sibs_of (g : nat -> hash) (h k : nat) (bit : nat -> bool) : list hash :=
  match h with
  | 0 => []
  | S h' => if bit h' then sibs_of g h' (2 * k + 1) bit ++ [SS g h' (2 * k)]
            else sibs_of g h' (2 * k) bit ++ [SS g h' (2 * k + 1)]
  end.
(* nodes of the path, level 1 first (reference form of what UpsertLeaf stores) *)
Fixpoint path_nodes (g : nat -> hash) (h k : nat) (bit : nat -> bool) : list (hash * (hash * hash)) :=
  match h with
  | 0 => []
  | S h' => path_nodes g h' (if bit h' then 2 * k + 1 else 2 * k) bit
            ++ [(SS g (S h') k, (SS g h' (2 * k), SS g h' (2 * k + 1)))]
  end.

(* closure of the store for the subtree (h, k) of version g *)
Fixpoint CL (m : rht) (g : nat -> hash) (h k : nat) : Prop :=
  match h with
  | 0 => True
  | S h' => (m (SS g (S h') k) = Some (SS g h' (2 * k), SS g h' (2 * k + 1)) /\ CL m g h' (2 * k) /\ CL m g h' (2 * k + 1))
            \/ (m (SS g (S h') k) = None /\ SS g (S h') k = zero (S h'))
  end.

(* ---------- basic facts ---------- *)
Lemma pow2_pos h : 0 < 2 ^ h.
Proof. apply Nat.neq_0_lt_0, Nat.pow_nonzero. lia. Qed.

Lemma path_index_range h : forall k bit, k * 2 ^ h <= path_index h k bit < (k + 1) * 2 ^ h.
Proof.
  induction h as [|h IH]; intros k bit; cbn [path_index].
  - rewrite Nat.pow_0_r. lia.
  - pose proof (pow2_pos h). destruct (bit h).
    + specialize (IH (2 * k + 1) bit). cbn [Nat.pow]. nia.
    + specialize (IH (2 * k) bit). cbn [Nat.pow]. nia.
Qed.

Lemma ssub_ext h : forall k g g', (forall j, k * 2 ^ h <= j < (k + 1) * 2 ^ h -> g j = g' j) -> SS g h k = SS g' h k.
Proof.
  induction h as [|h IH]; intros k g g' H; cbn [ssub].
  - apply H. rewrite Nat.pow_0_r. lia.
  - pose proof (pow2_pos h). f_equal; apply IH; intros j Hj; apply H; cbn [Nat.pow]; nia.
Qed.
Lemma supd_other g j v h k : ~ (k * 2 ^ h <= j < (k + 1) * 2 ^ h) -> SS (supd g j v) h k = SS g h k.
Proof.
  intros Hn. apply ssub_ext. intros i Hi. unfold supd. destruct (Nat.eqb_spec i j); [subst; exfalso; auto|reflexivity].
Qed.

Lemma zero_children h a b : node a b = zero (S h) -> a = zero h /\ b = zero h.
Proof. cbn [Merkle.zero]. intros H. apply node_inj in H. exact H. Qed.
Lemma ssub_zero_children g h k : SS g (S h) k = zero (S h) -> SS g h (2 * k) = zero h /\ SS g h (2 * k + 1) = zero h.
Proof. cbn [ssub]. apply zero_children. Qed.

Lemma zeros_length h : length (zeros h) = h.
Proof. induction h; cbn [Merkle.zeros]; [reflexivity|]. rewrite app_length, IHh. cbn. lia. Qed.
Lemma sibs_of_length g h : forall k bit, length (sibs_of g h k bit) = h.
Proof.
  induction h as [|h IH]; intros k bit; cbn [sibs_of]; [reflexivity|].
  destruct (bit h); rewrite app_length, IH; cbn; lia.
Qed.
(* all siblings inside an all-zero subtree are zero hashes *)
Lemma sibs_of_zero g h : forall k bit, SS g h k = zero h -> sibs_of g h k bit = zeros h.
Proof.
  induction h as [|h IH]; intros k bit Hz; cbn [sibs_of Merkle.zeros]; [reflexivity|].
  destruct (ssub_zero_children _ _ _ Hz) as [Hl Hr].
  destruct (bit h); [rewrite (IH _ _ Hr), Hl|rewrite (IH _ _ Hl), Hr]; reflexivity.
Qed.

(* ---------- the store: inserts keep closure ---------- *)
Lemma ins_keeps m k v x w : m x = Some w -> ins m k v x = Some w.
Proof. intros H. unfold Merkle.ins. destruct (heq_dec x k) as [->|]; [rewrite H; reflexivity|exact H]. Qed.
Lemma ins_other m k v x : x <> k -> ins m k v x = m x.
Proof. intros H. unfold Merkle.ins. destruct (heq_dec x k); [contradiction|reflexivity]. Qed.
Lemma ins_gets m l r : WF m -> ins m (node l r) (l, r) (node l r) = Some (l, r).
Proof.
  intros Hw. unfold Merkle.ins. destruct (heq_dec (node l r) (node l r)) as [_|]; [|congruence].
  destruct (m (node l r)) as [[l' r']|] eqn:E; [|reflexivity].
  apply Hw in E. apply node_inj in E as [-> ->]. reflexivity.
Qed.

(* a zero subtree is closed in any well-formed store *)
Lemma CL_zero m g : WF m -> forall h k, SS g h k = zero h -> CL m g h k.
Proof.
  intros Hw. induction h as [|h IH]; intros k Hz; cbn [CL]; [exact I|].
  destruct (m (SS g (S h) k)) as [[l r]|] eqn:E; [|right; split; [reflexivity|exact Hz]].
  left. destruct (ssub_zero_children _ _ _ Hz) as [Hl Hr].
  pose proof (Hw _ _ _ E) as Hk. cbn [ssub] in Hk. apply node_inj in Hk as [<- <-].
  split; [reflexivity|]. split; apply IH; assumption.
Qed.

(* inserting a well-formed row never breaks the closure of ANY version (older versions stay served) *)
Lemma CL_ins m g l r : WF m -> forall h k, CL m g h k -> CL (ins m (node l r) (l, r)) g h k.
Proof.
  intros Hw. induction h as [|h IH]; intros k Hc; cbn [CL] in *; [exact I|].
  destruct Hc as [(Hs & Hc1 & Hc2)|(Hn & Hz)].
  - left. split; [apply ins_keeps; exact Hs|]. split; apply IH; assumption.
  - destruct (heq_dec (SS g (S h) k) (node l r)) as [E|Hne].
    + left. destruct (ssub_zero_children _ _ _ Hz) as [Hl Hr].
      assert (Hlr : l = SS g h (2 * k) /\ r = SS g h (2 * k + 1)).
      { cbn [ssub] in E. symmetry in E. apply node_inj in E. exact E. }
      destruct Hlr as [-> ->]. split.
      * rewrite E. unfold Merkle.ins. destruct (heq_dec _ _) as [_|]; [|congruence].
        rewrite <- E, Hn. reflexivity.
      * assert (Hw' : WF (ins m (node (SS g h (2 * k)) (SS g h (2 * k + 1))) (SS g h (2 * k), SS g h (2 * k + 1))))
          by (apply ins_WF; exact Hw).
        split; apply CL_zero; assumption.
    + right. split; [rewrite ins_other by exact Hne; exact Hn|exact Hz].
Qed.

Definition WFrows (ns : list (hash * (hash * hash))) := Forall (fun n => fst n = node (fst (snd n)) (snd (snd n))) ns.
Lemma ins_all_WF ns : forall m, WFrows ns -> WF m -> WF (ins_all m ns).
Proof.
  induction ns as [|[k [l r]] ns IH]; intros m Hr Hw; cbn [Merkle.ins_all fold_left]; [exact Hw|].
  inversion Hr as [|? ? Hk Hr']; subst. cbn in Hk. subst k. apply IH; [exact Hr'|]. cbn [fst snd]. apply ins_WF. exact Hw.
Qed.
Lemma CL_ins_all g ns : forall m, WFrows ns -> WF m -> forall h k, CL m g h k -> CL (ins_all m ns) g h k.
Proof.
  induction ns as [|[x [l r]] ns IH]; intros m Hr Hw h k Hc; cbn [Merkle.ins_all fold_left]; [exact Hc|].
  inversion Hr as [|? ? Hk Hr']; subst. cbn in Hk. subst x. cbn [fst snd].
  apply IH; [exact Hr'|apply ins_WF; exact Hw|]. apply CL_ins; assumption.
Qed.
Lemma ins_all_app m a b : ins_all m (a ++ b) = ins_all (ins_all m a) b.
Proof. unfold Merkle.ins_all. apply fold_left_app. Qed.
Lemma path_nodes_WF g h : forall k bit, WFrows (path_nodes g h k bit).
Proof.
  induction h as [|h IH]; intros k bit; cbn [path_nodes]; [constructor|].
  apply Forall_app. split; [apply IH|]. constructor; [reflexivity|constructor].
Qed.

(* closure depends only on the leaves under the subtree *)
Lemma CL_ext m h : forall k g g', (forall j, k * 2 ^ h <= j < (k + 1) * 2 ^ h -> g j = g' j) -> CL m g h k -> CL m g' h k.
Proof.
  induction h as [|h IH]; intros k g g' H Hc; cbn [CL] in *; [exact I|].
  pose proof (pow2_pos h) as Hp.
  assert (E0 : SS g (S h) k = SS g' (S h) k) by (apply ssub_ext; exact H).
  assert (E1 : SS g h (2 * k) = SS g' h (2 * k)) by (apply ssub_ext; intros j Hj; apply H; cbn [Nat.pow]; nia).
  assert (E2 : SS g h (2 * k + 1) = SS g' h (2 * k + 1)) by (apply ssub_ext; intros j Hj; apply H; cbn [Nat.pow]; nia).
  rewrite <- E0, <- E1, <- E2.
  destruct Hc as [(Hs & Hc1 & Hc2)|Hz]; [left|right; exact Hz].
  split; [exact Hs|]. split; [apply (IH _ g)|apply (IH _ g)]; try assumption; intros j Hj; apply H; cbn [Nat.pow]; nia.
Qed.

(* ---------- getSiblings on a closed version returns the reference siblings ---------- *)
Theorem swalk_closed m g : forall h k bit, CL m g h k -> swalk zero m h (SS g h k) bit = sibs_of g h k bit.
Proof.
  induction h as [|h IH]; intros k bit Hc; cbn [Merkle.swalk sibs_of]; [reflexivity|].
  cbn [CL] in Hc. destruct Hc as [(Hs & Hc1 & Hc2)|(Hn & Hz)].
  - rewrite Hs. destruct (bit h); rewrite IH by assumption; reflexivity.
  - rewrite Hn. change (zeros (S h)) with (zeros h ++ [zero h]).
    destruct (ssub_zero_children _ _ _ Hz) as [Hl Hr].
    destruct (bit h); [rewrite (sibs_of_zero _ _ _ _ Hr), Hl|rewrite (sibs_of_zero _ _ _ _ Hl), Hr]; reflexivity.
Qed.

(* GetLeaf on a closed version: the leaf reached is the true leaf; a missing node means the leaf is zero *)
Theorem walk_closed m g : forall h k bit, CL m g h k ->
  match walk m h (SS g h k) bit with
  | Some (_, y) => y = g (path_index h k bit)
  | None => g (path_index h k bit) = z0
  end.
Proof.
  induction h as [|h IH]; intros k bit Hc; cbn [Merkle.walk path_index]; [reflexivity|].
  cbn [CL] in Hc. destruct Hc as [(Hs & Hc1 & Hc2)|(Hn & Hz)].
  - rewrite Hs. destruct (bit h).
    + specialize (IH (2 * k + 1) bit Hc2). destruct (walk m h _ bit) as [[s y]|]; exact IH.
    + specialize (IH (2 * k) bit Hc1). destruct (walk m h _ bit) as [[s y]|]; exact IH.
  - rewrite Hn.
    (* every leaf under a zero subtree is zero *)
    clear Hn IH. revert k Hz. change (path_index h (if bit h then 2 * ?k + 1 else 2 * ?k) bit) with (path_index (S h) k bit).
    generalize (S h) as h'. clear h. induction h' as [|h IH]; intros k Hz; cbn [path_index]; [exact Hz|].
    destruct (ssub_zero_children _ _ _ Hz) as [Hl Hr]. destruct (bit h); apply IH; assumption.
Qed.

(* ---------- UpsertLeaf ---------- *)
Lemma upsert_climb_app lvl a : forall b cur bit lvl',
  lvl' = lvl ->
  upsert_climb node lvl' (a ++ b) cur bit =
  (fst (upsert_climb node (lvl + length a) b (fst (upsert_climb node lvl a cur bit)) bit),
   snd (upsert_climb node lvl a cur bit) ++ snd (upsert_climb node (lvl + length a) b (fst (upsert_climb node lvl a cur bit)) bit)).
Proof.
  revert lvl. induction a as [|s t IH]; intros lvl b cur bit lvl' ->; cbn [app length Merkle.upsert_climb].
  - rewrite Nat.add_0_r. cbn [fst snd app]. destruct (upsert_climb node lvl b cur bit); reflexivity.
  - destruct (bit lvl).
    + rewrite (IH (S lvl) b (node s cur) bit (S lvl) eq_refl).
      destruct (upsert_climb node (S lvl) t (node s cur) bit) as [r1 n1] eqn:E1. cbn [fst snd].
      replace (lvl + S (length t)) with (S lvl + length t) by lia. reflexivity.
    + rewrite (IH (S lvl) b (node cur s) bit (S lvl) eq_refl).
      destruct (upsert_climb node (S lvl) t (node cur s) bit) as [r1 n1] eqn:E1. cbn [fst snd].
      replace (lvl + S (length t)) with (S lvl + length t) by lia. reflexivity.
Qed.

(* the climb over the reference siblings: root and stored nodes of the version with v written at the path's position *)
Theorem upsert_climb_spec g v : forall h k bit,
  let g' := supd g (path_index h k bit) v in
  upsert_climb node 0 (sibs_of g h k bit) v bit = (SS g' h k, path_nodes g' h k bit).
Proof.
  induction h as [|h IH]; intros k bit; cbn [sibs_of path_nodes path_index].
  - cbn [Merkle.upsert_climb ssub]. unfold supd. rewrite Nat.eqb_refl. reflexivity.
  - cbn zeta. set (c := if bit h then 2 * k + 1 else 2 * k).
    set (j := path_index h c bit). set (g' := supd g j v).
    pose proof (path_index_range h c bit) as Hr. fold j in Hr. pose proof (pow2_pos h) as Hp.
    specialize (IH c bit). cbn zeta in IH. fold j g' in IH.
    destruct (bit h) eqn:Hb; subst c.
    + rewrite (upsert_climb_app 0 _ _ _ _ 0 eq_refl), IH. cbn [fst snd]. rewrite sibs_of_length. cbn [Nat.add Merkle.upsert_climb].
      rewrite Hb. cbn [fst snd].
      assert (E : SS g h (2 * k) = SS g' h (2 * k)) by (symmetry; apply supd_other; nia).
      rewrite E. reflexivity.
    + rewrite (upsert_climb_app 0 _ _ _ _ 0 eq_refl), IH. cbn [fst snd]. rewrite sibs_of_length. cbn [Nat.add Merkle.upsert_climb].
      rewrite Hb. cbn [fst snd].
      assert (E : SS g h (2 * k + 1) = SS g' h (2 * k + 1)) by (symmetry; apply supd_other; nia).
      rewrite E. reflexivity.
Qed.

(* storing the path nodes closes the store for the new version *)
Theorem path_nodes_close g v : forall h k bit m, WF m -> CL m g h k ->
  let g' := supd g (path_index h k bit) v in
  CL (ins_all m (path_nodes g' h k bit)) g' h k.
Proof.
  induction h as [|h IH]; intros k bit m Hw Hc; cbn [path_nodes path_index CL]; [exact I|].
  cbn zeta. set (c := if bit h then 2 * k + 1 else 2 * k).
  set (j := path_index h c bit). set (g' := supd g j v).
  pose proof (path_index_range h c bit) as Hr. fold j in Hr. pose proof (pow2_pos h) as Hp.
  (* both children of (S h, k) are closed for g in m *)
  assert (Hch : CL m g h (2 * k) /\ CL m g h (2 * k + 1)).
  { cbn [CL] in Hc. destruct Hc as [(_ & H1 & H2)|(_ & Hz)]; [split; assumption|].
    destruct (ssub_zero_children _ _ _ Hz). split; apply CL_zero; assumption. }
  destruct Hch as [Hc1 Hc2].
  rewrite ins_all_app. cbn [Merkle.ins_all fold_left fst snd].
  set (m1 := ins_all m (path_nodes g' h c bit)).
  assert (Hw1 : WF m1) by (apply ins_all_WF; [apply path_nodes_WF|exact Hw]).
  left. split; [cbn [ssub]; apply ins_gets; exact Hw1|].
  assert (Hon : CL m1 g' h c) by (apply (IH c bit m Hw); subst c; destruct (bit h); assumption).
  assert (Hoff : forall c', c' <> c -> (c' = 2 * k \/ c' = 2 * k + 1) -> CL m g h c' -> CL m1 g' h c').
  { intros c' Hne Hc' Hcl. apply CL_ins_all; [apply path_nodes_WF|exact Hw|].
    apply (CL_ext m h c' g); [|exact Hcl]. intros i Hi. unfold g', supd.
    destruct (Nat.eqb_spec i j); [|reflexivity]. subst i. exfalso. subst c. destruct (bit h); destruct Hc'; subst c'; try congruence; nia. }
  subst c. destruct (bit h).
  - split; apply CL_ins; try exact Hw1; [apply Hoff; [lia|left; reflexivity|exact Hc1]|exact Hon].
  - split; apply CL_ins; try exact Hw1; [exact Hon|apply Hoff; [lia|right; reflexivity|exact Hc2]].
Qed.

(* ---------- the statement about the Go algorithm: getSiblings (swalk) then the climb ---------- *)
Theorem upsert_correct m g h k bit v : WF m -> CL m g h k ->
  let g' := supd g (path_index h k bit) v in
  let res := upsert_climb node 0 (swalk zero m h (SS g h k) bit) v bit in
  fst res = SS g' h k /\                                           (* new root = root of the updated leaf function *)
  WF (ins_all m (snd res)) /\ CL (ins_all m (snd res)) g' h k /\    (* store closed for the new version ... *)
  (forall g0 h0 k0, CL m g0 h0 k0 -> CL (ins_all m (snd res)) g0 h0 k0).   (* ... and still for every older one *)
Proof.
  intros Hw Hc. cbv beta zeta. pose proof (swalk_closed m g h k bit Hc) as Es. cbv beta in Es. rewrite Es.
  pose proof (upsert_climb_spec g v h k bit) as Eu. cbv beta zeta in Eu. rewrite Eu. cbn [fst snd].
  split; [reflexivity|]. split; [apply ins_all_WF; [apply path_nodes_WF|exact Hw]|].
  split; [apply path_nodes_close; assumption|].
  intros g0 h0 k0 H0. apply CL_ins_all; [apply path_nodes_WF|exact Hw|exact H0].
Qed.

(* the first component of the climb is tree.CalculateRoot *)
Lemma upsert_climb_calc sibs : forall lvl cur bit, fst (upsert_climb node lvl sibs cur bit) = calc node lvl sibs cur bit.
Proof.
  induction sibs as [|s t IH]; intros lvl cur bit; cbn [Merkle.upsert_climb Merkle.calc]; [reflexivity|].
  destruct (bit lvl).
  - specialize (IH (S lvl) (node s cur) bit). destruct (upsert_climb node (S lvl) t (node s cur) bit). exact IH.
  - specialize (IH (S lvl) (node cur s) bit). destruct (upsert_climb node (S lvl) t (node cur s) bit). exact IH.
Qed.
(* C08 for the updatable tree in this formulation: the proof served for any position of a closed version verifies *)
Theorem proof_verifies_closed m g h k bit : CL m g h k ->
  calc node 0 (swalk zero m h (SS g h k) bit) (g (path_index h k bit)) bit = SS g h k.
Proof.
  intros Hc. cbv beta. pose proof (swalk_closed m g h k bit Hc) as Es. cbv beta in Es. rewrite Es.
  rewrite <- upsert_climb_calc. pose proof (upsert_climb_spec g (g (path_index h k bit)) h k bit) as Eu. cbv beta zeta in Eu. rewrite Eu. cbn [fst].
  apply ssub_ext. intros i _. unfold supd. destruct (Nat.eqb_spec i (path_index h k bit)); [subst; reflexivity|reflexivity].
Qed.

(* following the bits of j from the root reaches position j *)
Lemma path_index_testbit h : forall j, path_index h (j / 2 ^ h) (Nat.testbit j) = j.
Proof.
  induction h as [|h IH]; intros j; cbn [path_index]; [rewrite Nat.pow_0_r, Nat.div_1_r; reflexivity|].
  rewrite testbit_div, div_succ_pow. destruct (Nat.odd (j / 2 ^ h)) eqn:Ho.
  - rewrite <- (odd_div2 _ Ho). apply IH.
  - rewrite <- (even_div2 _ Ho). apply IH.
Qed.
Corollary path_index_root H j : j < 2 ^ H -> path_index H 0 (Nat.testbit j) = j.
Proof. intros Hj. rewrite <- (Nat.div_small j (2 ^ H)) at 1 by exact Hj. apply path_index_testbit. Qed.

(* the empty store is closed for the empty tree *)
Lemma ssub_empty h : forall k, SS (fun _ => z0) h k = zero h.
Proof. induction h as [|h IH]; intros k; cbn [ssub Merkle.zero]; [reflexivity|]. rewrite !IH. reflexivity. Qed.
Lemma CL_empty m h k : WF m -> CL m (fun _ => z0) h k.
Proof. intros Hw. apply CL_zero; [exact Hw|apply ssub_empty]. Qed.
End SparseUpsert.
