(* The bridge processor model (Model/BridgeStore.v, generic part) only ever drives its exit tree through the
   operations of `Reach` (Proofs/TreeStoreProofs.v): every state reachable by ProcessBlock (with any storage fault),
   Reorg and restart satisfies BInv, whose tree component is `Reach` for the history read off the bridge table.
   Hence the store-level theorems (C01/C04/C07/C08) hold for the processor model that is compared with the Go code. *)
From Coq Require Import Arith NArith ZArith List Bool Lia Sorted.
From Verif Require Import Base.Bytes Model.Merkle Model.MerkleSpec Model.TreeStore Model.BridgeStore
  Proofs.Frontier Proofs.Rht Proofs.TreeStoreProofs Proofs.TreeStoreCorollaries.
Import ListNotations.
Local Close Scope N_scope.

Section BR.
Variable HT : nat.
Variable node : N -> N -> N.
Hypothesis node_inj : forall a b c d, node a b = node c d -> a = c /\ b = d.
Variable zhf : nat -> N.
Hypothesis Hzh : forall h, h <= HT -> zhf h = zero node 0%N h.
Variable leafh : bridge_ev -> N.
Hypothesis Hleaf : forall b, leafh b <> 0%N.      (* a leaf hash is never the zero leaf *)
Notation Reach := (Reach HT node zhf).
Notation addl := (TreeStore.Gen.add_leaf_exec HT node zhf).
Notation pevent := (BridgeStore.Gen.process_event HT node zhf leafh).
Notation pevents := (BridgeStore.Gen.process_events HT node zhf leafh).
Notation pblock := (BridgeStore.Gen.process_block HT node zhf leafh).
Notation afail := (BridgeStore.Gen.after_failed_event HT node zhf leafh).

(* the surviving history as recorded in the bridge table: (leaf, (block, position)) in insertion order *)
Definition hist_of (d : bdb) : hist := map (fun r => (leafh (snd r), (fst r, b_pos (snd r)))) (d_bridges d).
Definition dcs_ok (d : bdb) : Prop :=
  map (fun r => b_dc (snd r)) (d_bridges d) = map N.of_nat (seq 0 (length (d_bridges d))).

Record BInv (st : bstate) : Prop := {
  bi_reach : Reach (d_tree (st_db st)) (st_mem st) (hist_of (st_db st));
  bi_dcs : dcs_ok (st_db st);
  bi_blocks : forall r, In r (d_bridges (st_db st)) -> In (fst r) (d_blocks (st_db st)) }.

Lemma hist_len d : length (hist_of d) = length (d_bridges d).
Proof. unfold hist_of. apply map_length. Qed.

(* input well-formedness (what the chain and the driver guarantee): a new block number is above every recorded one,
   bridge events inside a block come with increasing positions, and the deposit count stays below 2^HT *)
Definition bridges_of_events (es : list event) : list bridge_ev :=
  flat_map (fun e => match e with EBridge b => [b] | _ => [] end) es.
Definition wf_block (d : bdb) (k : block) : Prop :=
  (forall n, In n (d_blocks d) -> (n < k_num k)%N) /\
  StronglySorted N.lt (map b_pos (bridges_of_events (k_events k))) /\
  length (d_bridges d) + length (k_events k) < 2 ^ HT.

(* ---------- transaction invariant ---------- *)
Record TxInv (d0 : bdb) (mem0 : tmem) (blk : N) (x : txc) (rest : list event) : Prop := {
  tx_reach : Reach (d_tree (x_db x)) (x_mem x) (hist_of (x_db x));
  tx_dcs : dcs_ok (x_db x);
  tx_lab : forall r, In r (d_bridges (x_db x)) ->
             In r (d_bridges d0) \/ (fst r = blk /\ forall b, In b (bridges_of_events rest) -> (b_pos (snd r) < b_pos b)%N);
  tx_zero : x_added x = 0 -> d_tree (x_db x) = d_tree d0 /\ d_bridges (x_db x) = d_bridges d0 /\ x_mem x = mem0;
  tx_len : length (d_bridges (x_db x)) + length rest < 2 ^ HT;
  tx_blocks : d_blocks (x_db x) = d_blocks d0 ++ [blk] }.

(* every recorded root sits below the (block, position) of a bridge event that is about to be appended *)
Lemma fresh_from_tx d0 mem0 blk x b rest :
  TxInv d0 mem0 blk x (EBridge b :: rest) ->
  (forall r, In r (d_bridges d0) -> (fst r < blk)%N) ->
  fresh_pos (d_tree (x_db x)) blk (b_pos b).
Proof.
  intros HT' Hold. unfold fresh_pos. apply Forall_forall. intros r Hr.
  destruct (Reach_inv HT node node_inj zhf Hzh _ _ _ (tx_reach _ _ _ _ _ HT')) as (_ & _ & _ & Hlab).
  unfold labels_ok in Hlab.
  apply (in_map (fun r => (r_block r, r_bpos r))) in Hr. rewrite Hlab in Hr.
  unfold hist_of in Hr. rewrite map_map in Hr. cbn [snd] in Hr.
  apply in_map_iff in Hr as (br & Ebr & Hbr). inversion Ebr as [[E1 E2]].
  unfold row_lt. cbn [r_block r_bpos].
  destruct (tx_lab _ _ _ _ _ HT' br Hbr) as [Hin|[Eb Hlt]].
  - left. rewrite <- E1. apply Hold. exact Hin.
  - right. split; [rewrite <- E1; exact Eb|]. rewrite <- E2. apply Hlt. cbn. left. reflexivity.
Qed.

Lemma dcs_next d : dcs_ok d -> forall r, In r (d_bridges d) -> True.
Proof. trivial. Qed.

Lemma hist_app d blk b t' :
  hist_of (mkBdb (d_blocks d) (d_bridges d ++ [(blk, b)]) (d_claims d) (d_tm d) (d_legacy d) t')
  = hist_of d ++ [(leafh b, (blk, b_pos b))].
Proof. unfold hist_of. cbn [d_bridges]. rewrite map_app. reflexivity. Qed.

(* one event keeps the transaction invariant, or fails *)
Lemma event_step d0 mem0 blk f x e rest :
  TxInv d0 mem0 blk x (e :: rest) ->
  (forall r, In r (d_bridges d0) -> (fst r < blk)%N) ->
  StronglySorted N.lt (map b_pos (bridges_of_events (e :: rest))) ->
  forall x', pevent f blk x e = inr x' -> TxInv d0 mem0 blk x' rest.
Proof.
  intros HI Hold Hsorted x' E.
  destruct e as [b|pos tag|pos tag|pos addr tag|addr]; cbn [BridgeStore.Gen.process_event] in E.
  - (* bridge *)
    destruct (addl (d_tree (x_db x)) (x_mem x) blk (b_pos b) (b_dc b) (leafh b)) as [mem' [e|t']] eqn:Eadd; [discriminate|].
    destruct (hits f (x_cnt x) TRoot); [discriminate|].
    destruct (hits_rht f (x_cnt x) _); [discriminate|].
    destruct (hits f _ TBridge); [discriminate|].
    destruct (existsb _ _); [discriminate|]. inversion E; subst x'. clear E.
    pose proof (tx_reach _ _ _ _ _ HI) as HR.
    (* the deposit count must have been the next one, otherwise AddLeaf refuses *)
    assert (Edc : b_dc b = N.of_nat (length (hist_of (x_db x)))).
    { destruct (N.eq_dec (b_dc b) (N.of_nat (length (hist_of (x_db x))))) as [Eq|Ne]; [exact Eq|].
      destruct (store_wrong_index_refused HT node node_inj zhf Hzh _ _ _ blk (b_pos b) (b_dc b) (leafh b) HR Ne) as (m2 & E2).
      rewrite Eadd in E2. discriminate. }
    assert (Hlen : length (hist_of (x_db x)) < 2 ^ HT).
    { rewrite hist_len. pose proof (tx_len _ _ _ _ _ HI). cbn [length] in *. lia. }
    rewrite Edc in Eadd.
    pose proof (R_add HT node zhf _ _ _ blk (b_pos b) (leafh b) mem' t' HR (fresh_from_tx _ _ _ _ _ _ HI Hold) (Hleaf b) Hlen Eadd) as HR'.
    constructor; cbn [x_db x_mem x_added d_tree d_bridges d_blocks].
    + rewrite hist_app. exact HR'.
    + unfold dcs_ok. cbn [d_bridges]. rewrite map_app, app_length. cbn [map length snd]. rewrite Nat.add_1_r, seq_S, map_app.
      cbn [map Nat.add]. rewrite (tx_dcs _ _ _ _ _ HI). rewrite Edc, hist_len. reflexivity.
    + intros r Hr. apply in_app_or in Hr as [Hr|[<-|[]]].
      * destruct (tx_lab _ _ _ _ _ HI r Hr) as [Hin|[Eb Hlt]]; [left; exact Hin|right]. split; [exact Eb|].
        intros b' Hb'. apply Hlt. cbn. right. exact Hb'.
      * right. cbn [fst snd]. split; [reflexivity|]. intros b' Hb'.
        cbn [bridges_of_events flat_map app map] in Hsorted. inversion Hsorted as [|? ? _ Hall]; subst.
        rewrite Forall_forall in Hall. apply Hall. apply in_map. exact Hb'.
    + discriminate.
    + rewrite app_length. cbn [length]. pose proof (tx_len _ _ _ _ _ HI). cbn [length] in *. lia.
    + exact (tx_blocks _ _ _ _ _ HI).
  - destruct (hits f (x_cnt x) TClaim); [discriminate|]. destruct (row_key_exists _ _ _); [discriminate|]. inversion E; subst x'.
    destruct HI as [H1 H2 H3 H4 H5 H6]. constructor; cbn [x_db x_mem x_added d_tree d_bridges d_blocks]; try assumption.
    cbn [length] in H5. lia.
  - destruct (hits f (x_cnt x) TTm); [discriminate|]. destruct (row_key_exists _ _ _); [discriminate|]. inversion E; subst x'.
    destruct HI as [H1 H2 H3 H4 H5 H6]. constructor; cbn [x_db x_mem x_added d_tree d_bridges d_blocks]; try assumption.
    cbn [length] in H5. lia.
  - destruct (hits f (x_cnt x) TLegacy); [discriminate|]. destruct (row_key_exists _ _ _); [discriminate|]. inversion E; subst x'.
    destruct HI as [H1 H2 H3 H4 H5 H6]. constructor; cbn [x_db x_mem x_added d_tree d_bridges d_blocks]; try assumption.
    cbn [length] in H5. lia.
  - destruct (hits f (x_cnt x) TLegacyDel); [discriminate|]. inversion E; subst x'.
    destruct HI as [H1 H2 H3 H4 H5 H6]. constructor; cbn [x_db x_mem x_added d_tree d_bridges d_blocks]; try assumption.
    cbn [length] in H5. lia.
Qed.

(* a failing event leaves a memory that is consistent with the database the rollback returns to *)
Lemma event_fail d0 mem0 blk f x e rest err :
  TxInv d0 mem0 blk x (e :: rest) ->
  (forall r, In r (d_bridges d0) -> (fst r < blk)%N) ->
  Reach (d_tree d0) mem0 (hist_of d0) ->
  pevent f blk x e = inl err ->
  let '(mem1, added) := afail f blk x e in
  Reach (d_tree d0) (rollback_mem mem1 added) (hist_of d0).
Proof.
  intros HI Hold HR0 E.
  assert (Hinval : forall m n, 0 < n -> Reach (d_tree d0) (rollback_mem m n) (hist_of d0)).
  { intros m n Hn. destruct n; [lia|]. cbn. apply (R_inval HT node zhf _ _ _ _ HR0). }
  assert (Hkeep : x_added x = 0 -> Reach (d_tree d0) (rollback_mem (x_mem x) (x_added x)) (hist_of d0)).
  { intros Hz. rewrite Hz. cbn. destruct (tx_zero _ _ _ _ _ HI Hz) as (_ & _ & ->). exact HR0. }
  destruct e as [b|pos tag|pos tag|pos addr tag|addr]; cbn [BridgeStore.Gen.after_failed_event].
  2-5: destruct (x_added x) eqn:Ea; [apply Hkeep; reflexivity|apply Hinval; lia].
  cbn [BridgeStore.Gen.process_event] in E.
  pose proof (tx_reach _ _ _ _ _ HI) as HR.
  destruct (addl (d_tree (x_db x)) (x_mem x) blk (b_pos b) (b_dc b) (leafh b)) as [mem' [e|t']] eqn:Eadd.
  - (* AddLeaf itself failed *)
    destruct (x_added x) eqn:Ea; [|apply Hinval; lia]. cbn [rollback_mem TreeStore.Gen.rollback_mem].
    destruct (tx_zero _ _ _ _ _ HI Ea) as (Et & Eb & Em).
    assert (Eh : hist_of (x_db x) = hist_of d0) by (unfold hist_of; rewrite Eb; reflexivity).
    rewrite Et, Eh in HR. rewrite Et in Eadd.
    destruct (N.eq_dec (b_dc b) (N.of_nat (length (hist_of d0)))) as [Eq|Ne].
    + (* the next index cannot fail *)
      exfalso. rewrite Eq in Eadd.
      assert (Hlen : length (hist_of d0) < 2 ^ HT).
      { rewrite hist_len, <- Eb. pose proof (tx_len _ _ _ _ _ HI). cbn [length] in *. lia. }
      assert (Hfresh : fresh_pos (d_tree d0) blk (b_pos b)) by (rewrite <- Et; exact (fresh_from_tx _ _ _ _ _ _ HI Hold)).
      destruct (store_add_succeeds HT node node_inj zhf Hzh _ _ _ blk (b_pos b) (leafh b) HR Hfresh (Hleaf b) Hlen) as (m2 & db2 & E2).
      rewrite Eadd in E2. discriminate.
    + exact (R_wrong HT node zhf _ _ _ blk (b_pos b) (b_dc b) (leafh b) mem' _ HR Ne Eadd).
  - (* AddLeaf succeeded; the failure came later *)
    destruct (hits f (x_cnt x) TRoot || hits_rht f (x_cnt x) _) eqn:Ef; [|apply Hinval; lia].
    destruct (x_added x) eqn:Ea; [|apply Hinval; lia]. cbn [rollback_mem TreeStore.Gen.rollback_mem].
    destruct (tx_zero _ _ _ _ _ HI Ea) as (Et & Eb & Em).
    assert (Eh : hist_of (x_db x) = hist_of d0) by (unfold hist_of; rewrite Eb; reflexivity).
    assert (Edc : b_dc b = N.of_nat (length (hist_of (x_db x)))).
    { destruct (N.eq_dec (b_dc b) (N.of_nat (length (hist_of (x_db x))))) as [Eq|Ne]; [exact Eq|].
      destruct (store_wrong_index_refused HT node node_inj zhf Hzh _ _ _ blk (b_pos b) (b_dc b) (leafh b) HR Ne) as (m2 & E2).
      rewrite Eadd in E2. discriminate. }
    assert (Hlen : length (hist_of (x_db x)) < 2 ^ HT).
    { rewrite hist_len. pose proof (tx_len _ _ _ _ _ HI). cbn [length] in *. lia. }
    rewrite Edc in Eadd.
    pose proof (R_abort HT node zhf _ _ _ blk (b_pos b) (leafh b) mem' t' HR (fresh_from_tx _ _ _ _ _ _ HI Hold) (Hleaf b) Hlen Eadd) as HRa.
    rewrite Et, Eh in HRa. exact HRa.
Qed.

(* ---------- the whole event list ---------- *)
Lemma events_run d0 mem0 blk f : forall es x,
  TxInv d0 mem0 blk x es ->
  (forall r, In r (d_bridges d0) -> (fst r < blk)%N) ->
  Reach (d_tree d0) mem0 (hist_of d0) ->
  StronglySorted N.lt (map b_pos (bridges_of_events es)) ->
  match pevents f blk x es with
  | inr x' => TxInv d0 mem0 blk x' []
  | inl (err, xf, Some e) => let '(mem1, added) := afail f blk xf e in Reach (d_tree d0) (rollback_mem mem1 added) (hist_of d0)
  | inl (_, _, None) => False
  end.
Proof.
  induction es as [|e es IH]; intros x HI Hold HR0 Hs; cbn [BridgeStore.Gen.process_events].
  - exact HI.
  - destruct (pevent f blk x e) as [err|x'] eqn:Ee.
    + exact (event_fail _ _ _ _ _ _ _ _ HI Hold HR0 Ee).
    + apply IH; [exact (event_step _ _ _ _ _ _ _ HI Hold Hs x' Ee)|exact Hold|exact HR0|].
      destruct e; cbn [bridges_of_events flat_map app map] in Hs |- *; try exact Hs. inversion Hs; assumption.
Qed.

(* ---------- ProcessBlock, Reorg, restart preserve BInv ---------- *)
Theorem process_block_inv f st k : BInv st -> wf_block (st_db st) k -> BInv (snd (pblock f st k)).
Proof.
  intros HB (Hnew & Hsorted & Hlen). unfold BridgeStore.Gen.process_block.
  destruct (st_halted st); [exact HB|].
  destruct (hits f _ TBlock); [exact HB|].
  destruct (existsb _ _); [exact HB|].
  set (d := st_db st). set (blk := k_num k).
  set (x0 := mkTx (mkBdb (d_blocks d ++ [blk]) (d_bridges d) (d_claims d) (d_tm d) (d_legacy d) (d_tree d)) (st_mem st) _ 0).
  assert (Hold : forall r, In r (d_bridges d) -> (fst r < blk)%N).
  { intros r Hr. apply Hnew. exact (bi_blocks st HB r Hr). }
  assert (HI0 : TxInv d (st_mem st) blk x0 (k_events k)).
  { constructor; cbn [x0 x_db x_mem x_added d_tree d_bridges d_blocks].
    - exact (bi_reach st HB).
    - exact (bi_dcs st HB).
    - intros r Hr. left. exact Hr.
    - intros _. repeat split.
    - exact Hlen.
    - reflexivity. }
  pose proof (events_run d (st_mem st) blk f (k_events k) x0 HI0 Hold (bi_reach st HB) Hsorted) as Hrun.
  destruct (pevents f blk x0 (k_events k)) as [[[err xf] oe]|x'].
  - destruct oe as [e|]; [|destruct Hrun].
    destruct (afail f blk xf e) as [mem1 added]. cbn [snd].
    constructor; cbn [st_db st_mem]; [exact Hrun|exact (bi_dcs st HB)|exact (bi_blocks st HB)].
  - destruct (hits f (x_cnt x') TCommit); cbn [snd].
    + constructor; cbn [st_db st_mem]; [|exact (bi_dcs st HB)|exact (bi_blocks st HB)].
      destruct (x_added x') eqn:Ea.
      * cbn. destruct (tx_zero _ _ _ _ _ Hrun Ea) as (_ & _ & ->). exact (bi_reach st HB).
      * cbn. apply (R_inval HT node zhf _ _ _ _ (bi_reach st HB)).
    + constructor; cbn [st_db st_mem].
      * exact (tx_reach _ _ _ _ _ Hrun).
      * exact (tx_dcs _ _ _ _ _ Hrun).
      * intros r Hr. rewrite (tx_blocks _ _ _ _ _ Hrun). apply in_or_app.
        destruct (tx_lab _ _ _ _ _ Hrun r Hr) as [Hin|[Eb _]]; [left; exact (bi_blocks st HB r Hin)|right; left; symmetry; exact Eb].
Qed.

Theorem restart_inv st : BInv st -> BInv (restart st).
Proof.
  intros HB. constructor; cbn [restart st_db st_mem]; [|exact (bi_dcs st HB)|exact (bi_blocks st HB)].
  apply (R_inval HT node zhf _ _ _ _ (bi_reach st HB)).
Qed.

(* ---------- Reorg ---------- *)
Lemma filter_len_key {A B} (k1 : A -> N) (k2 : B -> N) (p : N -> bool) : forall (l1 : list A) (l2 : list B),
  map k1 l1 = map k2 l2 -> length (filter (fun x => p (k1 x)) l1) = length (filter (fun x => p (k2 x)) l2).
Proof.
  induction l1 as [|a l1 IH]; intros [|b l2] E; try discriminate; [reflexivity|].
  cbn [map] in E. inversion E as [[Ea El]]. cbn [filter]. rewrite Ea. destruct (p (k2 b)); cbn [length]; rewrite (IH l2 El); reflexivity.
Qed.
Lemma filter_prefix_le {A} (key : A -> N) (b : N) : forall l : list A,
  StronglySorted N.le (map key l) ->
  filter (fun x => (key x <? b)%N) l = firstn (length (filter (fun x => (key x <? b)%N) l)) l.
Proof.
  induction l as [|x l IH]; intros Hs; [reflexivity|]. cbn [map] in Hs. inversion Hs as [|? ? Hs' Hx]; subst.
  cbn [filter]. destruct (N.ltb_spec (key x) b) as [Hlt|Hge].
  - cbn [length firstn]. f_equal. apply IH. exact Hs'.
  - assert (E : filter (fun y => (key y <? b)%N) l = []).
    { clear IH Hs Hs'. induction l as [|y l IH]; [reflexivity|]. cbn [map] in Hx. inversion Hx; subst. cbn [filter].
      assert (Hy : (key y <? b)%N = false) by (apply N.ltb_ge; lia). rewrite Hy. apply IH. assumption. }
    rewrite E. reflexivity.
Qed.
Lemma sorted_blocks (rs : list root_row) : StronglySorted row_lt rs -> StronglySorted N.le (map r_block rs).
Proof.
  induction rs as [|r rs IH]; intros Hs; [constructor|]. inversion Hs as [|? ? Hs' Hr]; subst. cbn [map]. constructor; [apply IH; exact Hs'|].
  apply Forall_forall. intros n Hn. apply in_map_iff in Hn as (y & <- & Hy). rewrite Forall_forall in Hr. specialize (Hr y Hy).
  unfold row_lt in Hr. destruct Hr as [H|[H _]]; lia.
Qed.

Theorem reorg_inv st b : BInv st -> BInv (reorg st b).
Proof.
  intros HB. pose proof (bi_reach st HB) as HR.
  destruct (Reach_inv HT node node_inj zhf Hzh _ _ _ HR) as ([_ Hs _ _ _] & _ & _ & Hlab).
  set (d := st_db st) in *. unfold labels_ok in Hlab.
  assert (Ekeys : map r_block (t_roots (d_tree d)) = map fst (d_bridges d)).
  { apply (f_equal (map fst)) in Hlab. rewrite !map_map in Hlab. unfold hist_of in Hlab. rewrite map_map in Hlab. exact Hlab. }
  set (k := length (t_roots (tree_reorg (d_tree d) b))).
  assert (Ek : length (filter (fun r : N * bridge_ev => (fst r <? b)%N) (d_bridges d)) = k).
  { unfold k, tree_reorg. cbn [t_roots]. symmetry. apply (filter_len_key r_block fst (fun n => (n <? b)%N)). exact Ekeys. }
  assert (Epre : filter (fun r : N * bridge_ev => (fst r <? b)%N) (d_bridges d) = firstn k (d_bridges d)).
  { rewrite <- Ek. apply (filter_prefix_le fst). rewrite <- Ekeys. apply sorted_blocks. exact Hs. }
  constructor; cbn [reorg st_db st_mem d_tree d_bridges d_blocks].
  - unfold hist_of at 1. cbn [d_bridges]. fold d. rewrite Epre, <- firstn_map. fold (hist_of d).
    exact (R_reorg HT node zhf _ _ _ b (m_cache (st_mem st)) HR).
  - unfold dcs_ok. cbn [d_bridges]. fold d. rewrite Epre, <- firstn_map.
    pose proof (bi_dcs st HB) as Hd. unfold dcs_ok in Hd. fold d in Hd. rewrite Hd.
    assert (Hk : k <= length (d_bridges d)) by (rewrite <- Ek; apply filter_len_le).
    rewrite firstn_map, (firstn_seq_le k 0 _ Hk), firstn_length, Nat.min_l by exact Hk. reflexivity.
  - intros r Hr. fold d in Hr. apply filter_In in Hr as [Hr Hb]. apply filter_In. split; [exact (bi_blocks st HB r Hr)|exact Hb].
Qed.

(* every state reachable from the empty processor by well-formed blocks (with any storage fault), reorgs and restarts *)
Inductive BReach : bstate -> Prop :=
| BR_init : BReach bstate_new
| BR_block st f k : BReach st -> wf_block (st_db st) k -> BReach (snd (pblock f st k))
| BR_reorg st b : BReach st -> BReach (reorg st b)
| BR_restart st : BReach st -> BReach (restart st).

Theorem BReach_inv st : BReach st -> BInv st.
Proof.
  induction 1 as [|st f k _ IH Hwf|st b _ IH|st _ IH].
  - constructor; cbn; [apply R_init|reflexivity|intros r []].
  - apply process_block_inv; assumption.
  - apply reorg_inv; assumption.
  - apply restart_inv; assumption.
Qed.
End BR.

(* the surviving history after a reorg is exactly the part of the history recorded below the reorg point *)
Lemma map_filter_comm {A B} (g : A -> B) (p : B -> bool) (l : list A) : map g (filter (fun x => p (g x)) l) = filter p (map g l).
Proof. induction l as [|x l IH]; [reflexivity|]. cbn [filter map]. destruct (p (g x)); cbn [map]; rewrite IH; reflexivity. Qed.
Theorem reorg_history leafh st b :
  hist_of leafh (st_db (reorg st b)) = filter (fun x => (fst (snd x) <? b)%N) (hist_of leafh (st_db st)).
Proof.
  unfold hist_of, reorg. cbn [st_db d_bridges].
  exact (map_filter_comm (fun r => (leafh (snd r), (fst r, b_pos (snd r)))) (fun x => (fst (snd x) <? b)%N) (d_bridges (st_db st))).
Qed.

(* ---------- consequences for the processor model ---------- *)
Section BRCor.
Variable HT : nat.
Variable node : N -> N -> N.
Hypothesis node_inj : forall a b c d, node a b = node c d -> a = c /\ b = d.
Variable zhf : nat -> N.
Hypothesis Hzh : forall h, h <= HT -> zhf h = zero node 0%N h.
Variable leafh : bridge_ev -> N.
Hypothesis Hleaf : forall b, leafh b <> 0%N.
Notation BReach := (BReach HT node zhf leafh).
Notation hist_of := (hist_of leafh).
Notation pblock := (BridgeStore.Gen.process_block HT node zhf leafh).

(* C01: in every reachable processor state the exit root reported for deposit count i is the Merkle root of the first i+1
   bridge leaves currently recorded *)
Theorem processor_exit_roots st i : BReach st -> i < length (d_bridges (st_db st)) ->
  exit_root_by_index (st_db st) (N.of_nat i) = Some (mroot node 0%N (lf (hist_of (st_db st))) HT (S i)).
Proof.
  intros HR Hi. pose proof (BReach_inv HT node node_inj zhf Hzh leafh Hleaf st HR) as HB.
  destruct (store_root_by_index HT node node_inj zhf Hzh _ _ _ i (bi_reach _ _ _ _ _ HB)) as (r & Er & Eh & _).
  { rewrite hist_len. exact Hi. }
  unfold exit_root_by_index. rewrite Er. cbn [option_map]. rewrite Eh. reflexivity.
Qed.

(* C07: a failed ProcessBlock (any fault position) returns to the same database and to a reachable state; so the retry starts
   from a state that answers like one in which the failure never happened *)
Theorem processor_failed_block_clean st f k e st' : BReach st -> wf_block HT (st_db st) k ->
  pblock f st k = (Some e, st') -> st_db st' = st_db st /\ BReach st'.
Proof.
  intros HR Hwf E. split.
  - unfold BridgeStore.Gen.process_block in E.
    destruct (st_halted st); [inversion E; reflexivity|].
    destruct (hits f _ TBlock); [inversion E; reflexivity|].
    destruct (existsb _ _); [inversion E; reflexivity|].
    destruct (BridgeStore.Gen.process_events _ _ _ _ _ _ _ _) as [[[err x] oe]|x].
    + destruct (match oe with Some e0 => _ | None => _ end) as [mem1 added]. inversion E; reflexivity.
    + destruct (hits f (x_cnt x) TCommit); inversion E; reflexivity.
  - replace st' with (snd (pblock f st k)) by (rewrite E; reflexivity). apply BR_block; assumption.
Qed.

(* C04 / C07 / restarts: two reachable processor states whose bridge tables hold the same surviving deposits (same leaves at
   the same blocks and positions) answer every exit-tree query identically, however they got there *)
Theorem processor_same_history_same_answers st1 st2 : BReach st1 -> BReach st2 ->
  hist_of (st_db st1) = hist_of (st_db st2) ->
  t_roots (d_tree (st_db st1)) = t_roots (d_tree (st_db st2)) /\
  (forall i, exit_root_by_index (st_db st1) i = exit_root_by_index (st_db st2) i) /\
  (forall h, root_by_ler (st_db st1) h = root_by_ler (st_db st2) h) /\
  (forall j k, j < k -> k <= length (d_bridges (st_db st1)) ->
     let root := mroot node 0%N (lf (hist_of (st_db st1))) HT k in
     Gen.get_proof HT zhf (d_tree (st_db st1)) (N.of_nat j) root = Gen.get_proof HT zhf (d_tree (st_db st2)) (N.of_nat j) root).
Proof.
  intros H1 H2 Eh.
  pose proof (bi_reach _ _ _ _ _ (BReach_inv HT node node_inj zhf Hzh leafh Hleaf st1 H1)) as R1.
  pose proof (bi_reach _ _ _ _ _ (BReach_inv HT node node_inj zhf Hzh leafh Hleaf st2 H2)) as R2.
  rewrite <- Eh in R2.
  destruct (same_history_same_answers HT node node_inj zhf Hzh _ _ _ _ _ R1 R2) as (A1 & A2 & _ & A4).
  split; [exact (same_history_same_roots HT node node_inj zhf Hzh _ _ _ _ _ R1 R2)|].
  split; [intros i; unfold exit_root_by_index; rewrite A1; reflexivity|].
  split; [intros h; unfold root_by_ler; apply A2|].
  intros j k Hj Hk root. apply A4; [exact Hj|]. rewrite hist_len. exact Hk.
Qed.
End BRCor.
