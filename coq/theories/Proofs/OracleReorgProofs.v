(* C15 under L1 reorgs: the safety clauses for runs in which the L1 info tree history changes between ticks
   (Model/C15Reorg.v). The one-tick theorems of OracleProofs.v do not mention the history at all (they speak about the
   dependencies of that tick), so they apply unchanged; here they are lifted to runs over a changing history. *)
From Coq Require Import NArith ZArith List Bool Lia.
From Verif Require Import Model.Oracle Model.C15Cases Model.C15Reorg Proofs.OracleProofs.
Import ListNotations.
Open Scope N_scope.

(* a history that never changes: run_r is run *)
Lemma run_r_const tk hist : forall sched st,
  run_r tk st (map (fun i => (hist, i)) sched) = run tk hist st sched.
Proof.
  induction sched as [|i r IH]; intros st; [reflexivity|].
  cbn [map run_r run]. now rewrite IH.
Qed.

Lemma sel_all_gen (pre pool : list row) :
  sel (pre ++ pool) (seq (length pre) (length pool)) = pool.
Proof.
  revert pre. induction pool as [|l r IH]; intros pre; [reflexivity|].
  cbn [length seq sel flat_map]. rewrite nth_error_app2 by lia. rewrite PeanoNat.Nat.sub_diag. cbn [nth_error app].
  f_equal. specialize (IH (pre ++ [l])). rewrite <- app_assoc in IH. cbn [app] in IH.
  rewrite app_length in IH. cbn [length] in IH. rewrite PeanoNat.Nat.add_1_r in IH. exact IH.
Qed.

Lemma sel_all pool : sel pool (seq 0 (length pool)) = pool.
Proof. exact (sel_all_gen [] pool). Qed.

Section RunsR.
Variable fx : bool.

Lemma tbr_cons st h i r :
  targets_before_r (tick_with fx) st ((h, i) :: r) =
  fst st :: targets_before_r (tick_with fx) (fst (step (tick_with fx) h st i)) r.
Proof. reflexivity. Qed.

(* Every injection made at tick t is the most recent root, at or below a block F, of the history that is canonical AT
   TICK t; F was obtained from the L1 client (configured finality) at some tick s <= t at which the oracle had no
   remembered block, F stayed remembered from s to t, the syncer had reached F at t, and the root was not on L2. *)
Lemma run_r_inj_gen : forall sched st t o g,
  Forall (fun hi => sorted_hist (fst hi)) sched ->
  nth_error (run_r (tick_with fx) st sched) t = Some (o, AInject g) ->
  exists F h_t i_t, F <> 0 /\ ref_latest h_t F = Some g /\ nth_error sched t = Some (h_t, i_t) /\ F <= i_lpb i_t /\
    ((fst st = F /\ forall u, (u <= t)%nat -> nth_error (targets_before_r (tick_with fx) st sched) u = Some F)
     \/ (exists s h_s i_s, (s <= t)%nat /\ nth_error sched s = Some (h_s, i_s) /\ i_l1err i_s = false /\ i_F i_s = F /\
           nth_error (targets_before_r (tick_with fx) st sched) s = Some 0 /\
           forall u, (s < u <= t)%nat -> nth_error (targets_before_r (tick_with fx) st sched) u = Some F)).
Proof.
  induction sched as [|[h i] r IH]; intros st t o g Hs H.
  - destruct t; discriminate.
  - inversion Hs as [|x y Hsh Hsr]; subst x y. cbn [fst] in Hsh.
    destruct t as [|t].
    + cbn [run_r nth_error] in H.
      assert (Ho : tick_with fx (fst st) (mkdeps h (l2_before h st i) i) = (o, AInject g)) by (rewrite <- step_obs; congruence).
      clear H.
      apply tick_inject_inv in Ho. destruct Ho as [T [HT [Hnz [Hle [[l [Hl Hg]] _]]]]].
      cbn [d_lpb d_table mkdeps] in Hle, Hl.
      assert (Href : ref_latest h T = Some g).
      { rewrite <- (table_latest_is_ref h (i_lpb i) T Hsh Hle). rewrite Hl. simpl. now rewrite Hg. }
      exists T, h, i. split; [assumption|]. split; [assumption|]. split; [reflexivity|]. split; [assumption|].
      destruct (fst st =? 0) eqn:E.
      * right. apply mkdeps_l1 in HT. destruct HT as [H1 H2]. exists 0%nat, h, i.
        split; [lia|]. split; [reflexivity|]. split; [assumption|]. split; [assumption|].
        split; [rewrite tbr_cons; simpl; apply N.eqb_eq in E; now rewrite E|]. intros u Hu. lia.
      * left. split; [now symmetry|]. intros u Hu. assert (u = 0%nat) by lia. subst u.
        rewrite tbr_cons. simpl. now rewrite HT.
    + cbn [run_r nth_error] in H. apply IH in H; [|assumption].
      destruct H as [F [h_t [i_t [Hnz [Href [Hit [Hle Hcase]]]]]]].
      exists F, h_t, i_t. split; [assumption|]. split; [assumption|]. split; [exact Hit|]. split; [assumption|].
      rewrite tbr_cons.
      destruct Hcase as [[Hst' Hall]|[s [h_s [i_s [Hs1 [Hs2 [Hs3 [Hs4 [Hs5 Hs6]]]]]]]]].
      * assert (Hne : fst (tick_with fx (fst st) (mkdeps h (l2_before h st i) i)) <> 0).
        { rewrite <- step_obs, <- step_target. now rewrite Hst'. }
        destruct (tick_target_nonzero _ _ _ Hne) as [Hsame|[_ [H0 [Hl1 _]]]].
        -- left. rewrite <- step_obs, <- step_target, Hst' in Hsame. split; [now symmetry|].
           intros u Hu. destruct u as [|u]; [simpl; now rewrite Hsame|]. simpl. apply Hall. lia.
        -- right. rewrite <- step_obs, <- step_target, Hst' in Hl1. apply mkdeps_l1 in Hl1. destruct Hl1 as [H1 H2].
           exists 0%nat, h, i. split; [lia|]. split; [reflexivity|]. split; [assumption|]. split; [assumption|].
           split; [simpl; now rewrite H0|]. intros u Hu. destruct u as [|u]; [lia|]. simpl. apply Hall. lia.
      * right. exists (S s), h_s, i_s. split; [lia|]. split; [exact Hs2|]. split; [assumption|]. split; [assumption|].
        split; [exact Hs5|]. intros u Hu. destruct u as [|u]; [lia|]. simpl. apply Hs6. lia.
Qed.

(* no root is injected twice, whatever the reorgs, and no root L2 had at the start is injected *)
Lemma run_r_nodup : forall sched st,
  NoDup (injections (run_r (tick_with fx) st sched)) /\
  forall g, In g (injections (run_r (tick_with fx) st sched)) -> ~ In g (snd st).
Proof.
  induction sched as [|[h i] r IH]; intros st.
  - split; [constructor | intros g []].
  - cbn [run_r]. unfold injections. cbn [flat_map]. fold (injections (run_r (tick_with fx) (fst (step (tick_with fx) h st i)) r)).
    destruct (IH (fst (step (tick_with fx) h st i))) as [Hnd Hnot].
    pose proof (step_l2_incl h fx st i) as Hincl. pose proof (step_l2 h fx st i) as Hl2.
    destruct (snd (step (tick_with fx) h st i)) as [t' a] eqn:Ho. cbn [snd] in *.
    destruct a as [| g0 | e | g0]; cbn [app]; try (split; [assumption | intros g Hg Hin; apply (Hnot g Hg); now apply Hincl]).
    rewrite step_obs in Ho. apply tick_inject_inv in Ho.
    destruct Ho as [T [_ [_ [_ [_ [Hmem _]]]]]]. cbn [d_l2 mkdeps] in Hmem. apply mem_false in Hmem.
    split.
    + constructor; [|assumption]. intros Hin. apply (Hnot g0 Hin). rewrite Hl2. now left.
    + intros g [Hg|Hg].
      * subst g. intros Hin. apply Hmem. unfold l2_before. apply in_or_app. now right.
      * intros Hin. apply (Hnot g Hg). now apply Hincl.
Qed.

End RunsR.

Theorem injected_is_current_latest_run_reorg : forall fx sched l2 t o g,
  Forall (fun hi => sorted_hist (fst hi)) sched ->
  nth_error (run_r (tick_with fx) (0, l2) sched) t = Some (o, AInject g) ->
  exists F h_t i_t s h_s i_s,
    (s <= t)%nat /\ nth_error sched s = Some (h_s, i_s) /\ i_l1err i_s = false /\ i_F i_s = F /\
    nth_error (targets_before_r (tick_with fx) (0, l2) sched) s = Some 0 /\
    (forall u, (s < u <= t)%nat -> nth_error (targets_before_r (tick_with fx) (0, l2) sched) u = Some F) /\
    F <> 0 /\ nth_error sched t = Some (h_t, i_t) /\ F <= i_lpb i_t /\
    ref_latest h_t F = Some g.
Proof.
  intros fx sched l2 t o g Hs H.
  destruct (run_r_inj_gen fx sched (0, l2) t o g Hs H) as [F [h_t [i_t [Hnz [Href [Hit [Hle Hcase]]]]]]].
  destruct Hcase as [[H0 _]|[s [h_s [i_s [H1 [H2 [H3 [H4 [H5 H6]]]]]]]]].
  - simpl in H0. congruence.
  - exists F, h_t, i_t, s, h_s, i_s. repeat split; assumption.
Qed.

Theorem no_duplicate_injection_run_reorg : forall fx sched st,
  NoDup (injections (run_r (tick_with fx) st sched)) /\
  forall g, In g (injections (run_r (tick_with fx) st sched)) -> ~ In g (snd st).
Proof. intros. apply run_r_nodup. Qed.

(* progress on a changing history: at any tick of a run in which the oracle samples (no remembered block), nothing fails, the
   syncer has reached the sampled block and the history CANONICAL AT THAT TICK has a root at or below it, that root is on L2 after
   the tick (injected now or there already) - whatever reorgs happened before and whatever happens afterwards *)
Fixpoint final_r (tk : tickfn) (st : state) (sched : list (list row * tin)) : state :=
  match sched with
  | [] => st
  | (h, i) :: r => final_r tk (fst (step tk h st i)) r
  end.

Lemma final_r_app tk st a b : final_r tk st (a ++ b) = final_r tk (final_r tk st a) b.
Proof. revert st; induction a as [|[h i] a IH]; intros st; [reflexivity|]. cbn [app final_r]. apply IH. Qed.

Theorem progress_when_caught_up_run_reorg : forall fx pre h i l2 g,
  sorted_hist h -> fst (final_r (tick_with fx) (0, l2) pre) = 0 ->
  errfree i -> i_F i <> 0 -> i_F i <= i_lpb i -> ref_latest h (i_F i) = Some g ->
  let st' := final_r (tick_with fx) (0, l2) (pre ++ [(h, i)]) in
  fst st' = 0 /\ In g (snd st').
Proof.
  intros fx pre h i l2 g Hs H0 Herr Hnz Hle Href st'.
  subst st'. rewrite final_r_app. cbn [final_r].
  destruct (final_r (tick_with fx) (0, l2) pre) as [tg l2'] eqn:E. cbn [fst] in H0. subst tg.
  destruct (progress_when_caught_up_world h fx Hs l2' i g Herr Hnz Hle Href) as [H1 [H2 _]].
  split; assumption.
Qed.
