(* The definitions GENERATED from the tree package by tools/go2coq (regenerated on every run):
     Gen/GenTree.v             CalculateRoot                      (tree/tree.go)
     Gen/GenAppendOnlyTree.v   the hashing loop of AddLeaf        (tree/appendonlytree.go)
   compute what the hand-written generic algorithms of Model/Merkle.v compute (calc, climb3), for every hash function,
   every index and every cache / proof of the right length. Through these equalities the frontier theorem of C01/C07 and
   the proof theorems of C08 are theorems about the translated Go code. *)
From Coq Require Import Arith NArith List Bool Lia.
From Verif Require Import Base.GoNum Model.Merkle Gen.GenTree Gen.GenAppendOnlyTree.
Import ListNotations.

(* ---- bit tests as the Go code writes them ---- *)
Lemma shr_and1 (a n : N) : N.eqb (N.land (N.shiftr a n) 1) 1 = N.testbit a n.
Proof.
  change 1%N with (N.ones 1) at 1. rewrite N.land_ones. change (2 ^ 1)%N with 2%N.
  rewrite <- N.bit0_eqb. rewrite N.shiftr_spec by apply N.le_0_l. rewrite N.add_0_l. reflexivity.
Qed.

Lemma land_pow2_pos (a n : N) : N.ltb 0 (N.land a (2 ^ n)) = N.testbit a n.
Proof.
  destruct (N.testbit a n) eqn:E.
  - apply N.ltb_lt. destruct (N.eq_dec (N.land a (2 ^ n)) 0) as [H|H]; [|lia].
    exfalso. assert (Hb : N.testbit (N.land a (2 ^ n)) n = true) by (rewrite N.land_spec, E, N.pow2_bits_true; reflexivity).
    rewrite H, N.bits_0 in Hb. discriminate.
  - apply N.ltb_ge. assert (H : N.land a (2 ^ n) = 0%N); [|lia].
    apply N.bits_inj. intros m. rewrite N.land_spec, N.bits_0, N.pow2_bits_eqb.
    destruct (N.eqb_spec n m) as [->|Hne]; [rewrite E; reflexivity | apply andb_false_r].
Qed.

Lemma shl1_small (h : nat) : (h < 64)%nat -> u64_shl 1 (N.of_nat h) = (2 ^ N.of_nat h)%N.
Proof.
  intros Hh. unfold u64_shl. rewrite N.shiftl_1_l. apply N.mod_small.
  change U64 with (2 ^ 64)%N. apply N.pow_lt_mono_r; lia.
Qed.

Section Agree.
Variable hash : Type.
Variable hash2 : hash -> hash -> hash.
Variable hash0 : hash.

(* ================= CalculateRoot ================= *)
Definition cr_step (proof : list hash) (index : N) (node : hash) (height : N) : hash :=
  if N.eqb (N.land (N.shiftr index height) 1) 1
  then hash2 (list_get hash0 proof height) node else hash2 node (list_get hash0 proof height).

Lemma cr_fold proof index : forall n k cur, (k + n <= length proof)%nat ->
  fold_left (cr_step proof index) (map N.of_nat (seq k n)) cur =
  calc hash2 k (firstn n (skipn k proof)) cur (fun h => N.testbit index (N.of_nat h)).
Proof.
  induction n as [|n IH]; intros k cur Hk; [reflexivity|].
  cbn [seq map fold_left].
  assert (Hs : firstn (S n) (skipn k proof) = nth k proof hash0 :: firstn n (skipn (S k) proof)).
  { assert (Hlt : (k < length proof)%nat) by lia. clear -Hlt. revert k Hlt.
    induction proof as [|x l IHl]; intros k Hlt; [cbn in Hlt; lia|].
    destruct k as [|k]; [reflexivity|]. cbn [skipn nth]. cbn [length] in Hlt. apply IHl. lia. }
  rewrite Hs. cbn [calc]. rewrite IH by lia. f_equal.
  unfold cr_step, list_get. rewrite shr_and1, Nat2N.id. reflexivity.
Qed.

Lemma calc_bit_ext : forall sibs lvl cur (b1 b2 : nat -> bool), (forall k, b1 k = b2 k) ->
  calc hash2 lvl sibs cur b1 = calc hash2 lvl sibs cur b2.
Proof. induction sibs as [|x t IH]; intros lvl cur b1 b2 E; [reflexivity|]. cbn [calc]. rewrite (E lvl). apply IH, E. Qed.

Theorem CalculateRoot_agree : forall leaf proof index, length proof = 32%nat ->
  CalculateRoot hash hash2 hash0 leaf proof index = calc hash2 0 proof leaf (fun h => N.testbit index (N.of_nat h)).
Proof.
  intros leaf proof index Hlen. unfold CalculateRoot.
  change (go_range (0 mod 256) 32) with (map N.of_nat (seq 0 32)).
  change (fold_left _ (map N.of_nat (seq 0 32)) leaf) with (fold_left (cr_step proof index) (map N.of_nat (seq 0 32)) leaf).
  rewrite (cr_fold proof index 32 0 leaf) by lia. cbn [skipn]. rewrite <- Hlen, firstn_all. reflexivity.
Qed.

(* ================= the hashing loop of AddLeaf ================= *)
Notation TN := (GenAppendOnlyTree.TreeNode hash).
Definition to_node (n : hash * (hash * hash)) : TN := GenAppendOnlyTree.mkTreeNode hash (fst n) (fst (snd n)) (snd (snd n)).

Definition al_step (idx : N) (zeroes : list hash) (st : hash * list TN * list hash) (h : N) : hash * list TN * list hash :=
  let '(cur, nodes, cl) := st in
  let '(parent, cl) :=
    if N.ltb 0 (N.land idx (u64_shl 1 h))
    then (GenAppendOnlyTree.mkTreeNode hash (hash2 (list_get hash0 cl h) cur) (list_get hash0 cl h) cur, cl)
    else (GenAppendOnlyTree.mkTreeNode hash (hash2 cur (list_get hash0 zeroes h)) cur (list_get hash0 zeroes h), list_set cl h cur) in
  (GenAppendOnlyTree.TreeNode_Hash hash parent, nodes ++ [parent], cl).

Lemma nth_list_set_nat : forall (l : list hash) i v j, (i < length l)%nat ->
  nth j (list_set_nat l i v) hash0 = if Nat.eqb j i then v else nth j l hash0.
Proof.
  induction l as [|x l IH]; intros i v j Hi; [cbn in Hi; lia|].
  destruct i as [|i]; cbn [list_set_nat].
  - destruct j; reflexivity.
  - destruct j as [|j]; [reflexivity|]. cbn [nth Nat.eqb]. apply IH. cbn in Hi. lia.
Qed.
Lemma list_set_nat_length : forall (l : list hash) i v, length (list_set_nat l i v) = length l.
Proof. induction l as [|x l IH]; intros [|i] v; cbn; auto. Qed.

(* the fold over heights h .. h+fuel-1 = climb3, for a model cache that agrees pointwise with the cache list *)
Lemma al_fold idx zeroes : forall fuel h cur cl nodes (c : nat -> hash),
  (forall j, c j = nth j cl hash0) -> (h + fuel <= length cl)%nat -> (h + fuel <= 64)%nat ->
  let '(r, c', ns) := climb3 hash2 (fun k => nth k zeroes hash0) fuel h (fun k => N.testbit idx (N.of_nat k)) cur c in
  exists cl', fold_left (al_step idx zeroes) (map N.of_nat (seq h fuel)) (cur, nodes, cl) = (r, nodes ++ map to_node ns, cl') /\
              (forall j, c' j = nth j cl' hash0) /\ length cl' = length cl.
Proof.
  induction fuel as [|fuel IH]; intros h cur cl nodes c Hc Hlen H64.
  - cbn [climb3 seq map fold_left]. exists cl. rewrite app_nil_r. auto.
  - cbn [climb3 seq map fold_left]. unfold al_step at 2.
    rewrite shl1_small by lia. rewrite land_pow2_pos. unfold list_get. rewrite Nat2N.id.
    destruct (N.testbit idx (N.of_nat h)) eqn:Eb.
    + specialize (IH (S h) (hash2 (c h) cur) cl (nodes ++ [GenAppendOnlyTree.mkTreeNode hash (hash2 (nth h cl hash0) cur) (nth h cl hash0) cur]) c Hc ltac:(lia) ltac:(lia)).
      destruct (climb3 hash2 _ fuel (S h) _ (hash2 (c h) cur) c) as [[r c'] ns].
      destruct IH as (cl' & E & Hc' & Hl). exists cl'. cbn [GenAppendOnlyTree.TreeNode_Hash].
      rewrite <- (Hc h). rewrite <- (Hc h) in E. rewrite E. split; [|split; assumption].
      f_equal. cbn [map to_node fst snd]. rewrite <- app_assoc. reflexivity.
    + assert (Hc2 : forall j, upd c h cur j = nth j (list_set cl (N.of_nat h) cur) hash0).
      { intros j. unfold upd, list_set. rewrite Nat2N.id, nth_list_set_nat by lia. now rewrite Hc. }
      specialize (IH (S h) (hash2 cur (nth h zeroes hash0)) (list_set cl (N.of_nat h) cur)
                     (nodes ++ [GenAppendOnlyTree.mkTreeNode hash (hash2 cur (nth h zeroes hash0)) cur (nth h zeroes hash0)]) (upd c h cur) Hc2).
      assert (Hl2 : length (list_set cl (N.of_nat h) cur) = length cl) by (unfold list_set; apply list_set_nat_length).
      specialize (IH ltac:(rewrite Hl2; lia) ltac:(lia)).
      destruct (climb3 hash2 _ fuel (S h) _ (hash2 cur (nth h zeroes hash0)) (upd c h cur)) as [[r c'] ns].
      destruct IH as (cl' & E & Hc' & Hl). exists cl'. cbn [GenAppendOnlyTree.TreeNode_Hash].
      rewrite E. split; [|split; [assumption | congruence]].
      f_equal. cbn [map to_node fst snd]. rewrite <- app_assoc. reflexivity.
Qed.

Lemma fold_left_ext_pw {A B} (f g : A -> B -> A) : (forall a b, f a b = g a b) -> forall l a, fold_left f l a = fold_left g l a.
Proof. intros H l. induction l as [|x l IH]; intros a; [reflexivity|]. cbn [fold_left]. rewrite H. apply IH. Qed.

Lemma AddLeaf_loop_is_fold idx cur cl zeroes nodes :
  AddLeaf_loop hash hash2 hash0 idx cur cl zeroes nodes = fold_left (al_step idx zeroes) (map N.of_nat (seq 0 32)) (cur, nodes, cl).
Proof.
  unfold AddLeaf_loop. change (go_range (0 mod 256) 32) with (map N.of_nat (seq 0 32)).
  apply fold_left_ext_pw. intros [[c n] l] h. unfold al_step.
  destruct (N.ltb 0 (N.land idx (u64_shl 1 h))); reflexivity.
Qed.

(* THE AGREEMENT for the whole loop (32 levels, empty node list): root, cache and new nodes are those of the model *)
Theorem AddLeaf_loop_agree : forall idx leaf cl zeroes (c : nat -> hash),
  (forall j, c j = nth j cl hash0) -> length cl = 32%nat ->
  let '(r, c', ns) := climb3 hash2 (fun k => nth k zeroes hash0) 32 0 (fun k => N.testbit idx (N.of_nat k)) leaf c in
  exists cl', AddLeaf_loop hash hash2 hash0 idx leaf cl zeroes [] = (r, map to_node ns, cl') /\
              (forall j, c' j = nth j cl' hash0) /\ length cl' = 32%nat.
Proof.
  intros idx leaf cl zeroes c Hc Hlen. rewrite AddLeaf_loop_is_fold.
  pose proof (al_fold idx zeroes 32 0 leaf cl [] c Hc ltac:(lia) ltac:(lia)) as H.
  destruct (climb3 hash2 _ 32 0 _ leaf c) as [[r c'] ns]. destruct H as (cl' & E & H1 & H2).
  exists cl'. rewrite E. cbn [app]. split; [reflexivity | split; [assumption | congruence]].
Qed.
End Agree.

(* ================= C01 on the translated loop =================
   With ANY cache list of length 32 that satisfies the frontier invariant for i leaves and a zero table that holds the zero
   hashes, the generated hashing loop of AddLeaf returns, for the leaf with deposit count i < 2^32: the reference Merkle root
   of the first i+1 leaves, and a cache list that satisfies the invariant for i+1 leaves. *)
From Verif Require Import Model.MerkleSpec Proofs.Frontier Proofs.C01Proofs Proofs.BitFacts Proofs.TreeStoreProofs.

Local Close Scope N_scope.
Local Open Scope nat_scope.

Section C01OnGenerated.
Variable hash : Type.
Variable hash2 : hash -> hash -> hash.
Variable hash0 z0 : hash.
Variable f : nat -> hash.

Lemma climb_zh_ext_gen z1 z2 fuel : forall h b cur c, (forall k, h <= k < fuel + h -> z1 k = z2 k) ->
  climb hash2 z1 fuel h b cur c = climb hash2 z2 fuel h b cur c.
Proof.
  induction fuel as [|fuel IH]; intros h b cur c E; cbn [climb]; [reflexivity|].
  destruct (b h).
  - apply IH. intros k Hk. apply E. lia.
  - rewrite (E h) by lia. apply IH. intros k Hk. apply E. lia.
Qed.

Theorem generated_AddLeaf_loop_root_is_merkle_root : forall i cl zeroes,
  i < 2 ^ 32 -> length cl = 32 -> (forall h, h < 32 -> nth h zeroes hash0 = zero hash2 z0 h) ->
  CacheInv hash2 z0 f 32 i (fun j => nth j cl hash0) ->
  exists nodes cl',
    AddLeaf_loop hash hash2 hash0 (N.of_nat i) (f i) cl zeroes [] = (mroot hash2 z0 f 32 (S i), nodes, cl') /\
    CacheInv hash2 z0 f 32 (S i) (fun j => nth j cl' hash0) /\ length cl' = 32.
Proof.
  intros i cl zeroes Hi Hlen Hz Hinv.
  pose proof (AddLeaf_loop_agree hash hash2 hash0 (N.of_nat i) (f i) cl zeroes (fun j => nth j cl hash0) (fun j => eq_refl) Hlen) as H.
  pose proof (climb3_climb hash2 (fun k => nth k zeroes hash0) 32 0 (fun k => N.testbit (N.of_nat i) (N.of_nat k)) (f i) (fun j => nth j cl hash0)) as Hc.
  destruct (climb3 hash2 _ 32 0 _ (f i) _) as [[r c'] ns]. destruct Hc as [Hc _]. destruct H as (cl' & E & Hc' & Hl').
  (* the model run with the theory's bit function and zero function *)
  assert (Hm : (r, c') = add_leaf hash2 (zero hash2 z0) 32 (Nat.testbit i) (f i) (fun j => nth j cl hash0)).
  { rewrite Hc. unfold add_leaf.
    rewrite (climb_ext hash2 _ 32 0 _ (Nat.testbit i) (f i) _ (fun k => bitN_of_nat i k)).
    apply climb_zh_ext_gen. intros k Hk. apply Hz. lia. }
  exists (map (to_node hash) ns), cl'. split; [|split; [|exact Hl']].
  - rewrite E. f_equal. f_equal.
    change r with (fst (r, c')). rewrite Hm. apply (go_root_any_cache hash2 z0 f 32 i _ Hi Hinv).
  - intros h Hh Hb. rewrite <- Hc'. change c' with (snd (r, c')). rewrite Hm.
    apply (add_leaf_preserves hash2 z0 f 32 i _ Hinv (high_bits_zero hash2 f 32 i Hi) h Hh Hb).
Qed.
End C01OnGenerated.
