(* C02 / C03 proofs over Model/AggsenderProtocol.v: the send protocol keeps an inductive invariant for every
   schedule of {new block, epoch tick, status tick, Agglayer move, Agglayer failure}; consequences. *)
From Coq Require Import NArith PeanoNat List Bool Lia Sorted.
From Coq Require Import ZifyN ZifyNat ZifyBool.
From Verif Require Import Base.Bytes Base.FastBytes Base.Hash Model.Merkle Model.MerkleSpec Model.TreeStore Model.BridgeStore
  Model.Commitment Model.Reconcile Model.AggsenderProtocol
  Proofs.Frontier Proofs.C01Proofs Proofs.HashFacts Proofs.CommitmentProofs Proofs.ReconcileProofs.
Import ListNotations.
Open Scope N_scope.

(* ------------------------------------------------------------------------------------------ *)
(* list facts                                                                                   *)
(* ------------------------------------------------------------------------------------------ *)
Lemma last_opt_none {A} (l : list A) : last_opt l = None -> l = [].
Proof.
  induction l as [|x l IH]; [reflexivity|]. cbn [last_opt]. destruct l as [|y l]; [discriminate|].
  intros H. specialize (IH H). discriminate.
Qed.
Lemma last_opt_some {A} (l : list A) b : last_opt l = Some b -> exists l', l = l' ++ [b].
Proof.
  induction l as [|x l IH]; [discriminate|]. cbn [last_opt]. destruct l as [|y l].
  - intros H; inversion H; subst. exists []. reflexivity.
  - intros H. destruct (IH H) as (l' & E). exists (x :: l'). rewrite E. reflexivity.
Qed.
Lemma is_nil_true {A} (l : list A) : is_nil l = true <-> l = [].
Proof. destruct l; cbn; split; congruence. Qed.

Lemma firstn_app_exact {A} (a b : list A) : firstn (length a) (a ++ b) = a.
Proof. rewrite firstn_app, Nat.sub_diag, firstn_all. cbn. apply app_nil_r. Qed.
Lemma firstn_app_le {A} (a b : list A) n : (n <= length a)%nat -> firstn n (a ++ b) = firstn n a.
Proof. intros H. rewrite firstn_app. replace (n - length a)%nat with 0%nat by lia. cbn. apply app_nil_r. Qed.

Lemma nth_error_seq s n k : (k < n)%nat -> nth_error (seq s n) k = Some (s + k)%nat.
Proof.
  revert s k; induction n as [|n IH]; intros s k Hk; [lia|]. destruct k as [|k]; cbn [seq nth_error].
  - f_equal. lia.
  - rewrite IH by lia. f_equal. lia.
Qed.

Lemma strongly_sorted_snoc {A} (R : A -> A -> Prop) l x :
  StronglySorted R l -> Forall (fun y => R y x) l -> StronglySorted R (l ++ [x]).
Proof.
  induction 1 as [|y l Hs IH Hy]; intros Hall; cbn [app].
  - constructor; constructor.
  - inversion Hall; subst. constructor; [apply IH; assumption|]. apply Forall_app; split; [assumption|constructor; [assumption|constructor]].
Qed.

Lemma nodup_same_id a c1 c2 : NoDup (map a_id a) -> In c1 a -> In c2 a -> a_id c1 = a_id c2 -> c1 = c2.
Proof.
  induction a as [|x a IH]; intros Hnd H1 H2 Heq; [destruct H1|].
  inversion Hnd as [|? ? Hnotin Hnd']; subst.
  destruct H1 as [<-|H1], H2 as [<-|H2]; try reflexivity.
  - exfalso. apply Hnotin. rewrite Heq. apply in_map. exact H2.
  - exfalso. apply Hnotin. rewrite <- Heq. apply in_map. exact H1.
  - apply IH; assumption.
Qed.

Lemma agg_status_in a id x : agg_status a id = Some x -> exists c, In c a /\ a_id c = id /\ a_st c = x.
Proof.
  unfold agg_status. destruct (find (fun c => a_id c =? id) a) as [c|] eqn:E; [|discriminate].
  intros H; inversion H; subst. apply find_some in E as [Hin Heq]. apply N.eqb_eq in Heq. eauto.
Qed.
Lemma agg_set_ids a id x : map a_id (agg_set a id x) = map a_id a.
Proof. unfold agg_set. rewrite map_map. apply map_ext. intros c. destruct (a_id c =? id); reflexivity. Qed.
Lemma valid_move_open a b : valid_move a b = true -> is_open a = true.
Proof. destruct a, b; cbn; intros; try reflexivity; discriminate. Qed.

(* ------------------------------------------------------------------------------------------ *)
(* block-range queries on a sorted history                                                      *)
(* ------------------------------------------------------------------------------------------ *)
Section Ranges.
Variables bev cev : Type.
Notation blkT := (blk bev cev).
Definition num_lt (a b : blkT) : Prop := k_num a < k_num b.
Definition sorted (l : list blkT) : Prop := StronglySorted num_lt l.

Lemma filter_none_above (l : list blkT) f m : Forall (fun b => m < k_num b) l -> filter (in_rng f m) l = [].
Proof.
  induction 1 as [|b l Hb _ IH]; [reflexivity|]. cbn [filter]. unfold in_rng at 1.
  replace (k_num b <=? m) with false by (symmetry; apply N.leb_gt; exact Hb). rewrite andb_false_r. exact IH.
Qed.
Lemma filter_same_above (l : list blkT) f m t : f <= m + 1 -> Forall (fun b => m < k_num b) l ->
  filter (in_rng f t) l = filter (in_rng (m + 1) t) l.
Proof.
  intros Hf. induction 1 as [|b l Hb _ IH]; [reflexivity|]. cbn [filter]. rewrite IH. unfold in_rng.
  replace (f <=? k_num b) with true by (symmetry; apply N.leb_le; lia).
  replace (m + 1 <=? k_num b) with true by (symmetry; apply N.leb_le; lia). reflexivity.
Qed.

(* a range splits at any block: [f,t] = [f,m] ++ [m+1,t] *)
Lemma filter_split (l : list blkT) f m t : sorted l -> f <= m + 1 -> m <= t ->
  filter (in_rng f t) l = filter (in_rng f m) l ++ filter (in_rng (m + 1) t) l.
Proof.
  intros Hs Hf Hm. induction Hs as [|b l Hs IH Hb]; [reflexivity|].
  destruct (N.le_gt_cases (k_num b) m) as [Hle|Hgt].
  - cbn [filter]. rewrite IH. unfold in_rng.
    replace (k_num b <=? t) with true by (symmetry; apply N.leb_le; lia).
    replace (k_num b <=? m) with true by (symmetry; apply N.leb_le; lia).
    replace (m + 1 <=? k_num b) with false by (symmetry; apply N.leb_gt; lia).
    cbn [andb]. destruct (f <=? k_num b); reflexivity.
  - assert (Hall : Forall (fun y => m < k_num y) (b :: l)).
    { constructor; [exact Hgt|]. eapply Forall_impl; [|exact Hb]. intros y Hy. unfold num_lt in Hy. lia. }
    rewrite (filter_none_above (b :: l) f m Hall). cbn [app]. apply filter_same_above; assumption.
Qed.

Lemma filter_all (l : list blkT) sy : Forall (fun b => k_num b <= sy) l -> filter (in_rng 0 sy) l = l.
Proof.
  induction 1 as [|b l Hb _ IH]; [reflexivity|]. cbn [filter]. rewrite IH. unfold in_rng.
  replace (0 <=? k_num b) with true by (symmetry; apply N.leb_le; lia).
  replace (k_num b <=? sy) with true by (symmetry; apply N.leb_le; exact Hb). reflexivity.
Qed.

(* a later block does not change any query that ends at or before the previous tip *)
Lemma filter_snoc_above (l : list blkT) b f t : t < k_num b -> filter (in_rng f t) (l ++ [b]) = filter (in_rng f t) l.
Proof.
  intros Ht. rewrite filter_app. cbn [filter]. unfold in_rng at 2.
  replace (k_num b <=? t) with false by (symmetry; apply N.leb_gt; exact Ht). rewrite andb_false_r. apply app_nil_r.
Qed.

Lemma bridges_split (l : list blkT) f m t : sorted l -> f <= m + 1 -> m <= t ->
  bridges_in l f t = bridges_in l f m ++ bridges_in l (m + 1) t.
Proof. intros. unfold bridges_in. rewrite (filter_split l f m t) by assumption. apply flat_map_app. Qed.
Lemma claims_split (l : list blkT) f m t : sorted l -> f <= m + 1 -> m <= t ->
  claims_in l f t = claims_in l f m ++ claims_in l (m + 1) t.
Proof. intros. unfold claims_in. rewrite (filter_split l f m t) by assumption. apply flat_map_app. Qed.
Lemma bridges_snoc (l : list blkT) b f t : t < k_num b -> bridges_in (l ++ [b]) f t = bridges_in l f t.
Proof. intros. unfold bridges_in. rewrite filter_snoc_above by assumption. reflexivity. Qed.
Lemma claims_snoc (l : list blkT) b f t : t < k_num b -> claims_in (l ++ [b]) f t = claims_in l f t.
Proof. intros. unfold claims_in. rewrite filter_snoc_above by assumption. reflexivity. Qed.
Lemma bridges_empty_range (l : list blkT) f t : t < f -> bridges_in l f t = [].
Proof.
  intros H. unfold bridges_in. replace (filter (in_rng f t) l) with (@nil blkT); [reflexivity|].
  symmetry. induction l as [|b l IH]; [reflexivity|]. cbn [filter]. rewrite IH. unfold in_rng.
  destruct (N.leb_spec f (k_num b)); destruct (N.leb_spec (k_num b) t); cbn; try reflexivity. lia.
Qed.
Lemma claims_empty_range (l : list blkT) f t : t < f -> claims_in l f t = [].
Proof.
  intros H. unfold claims_in. replace (filter (in_rng f t) l) with (@nil blkT); [reflexivity|].
  symmetry. induction l as [|b l IH]; [reflexivity|]. cbn [filter]. rewrite IH. unfold in_rng.
  destruct (N.leb_spec f (k_num b)); destruct (N.leb_spec (k_num b) t); cbn; try reflexivity. lia.
Qed.
Definition all_bridges (l : list blkT) : list bev := flat_map k_bridges l.
Lemma all_bridges_upto (l : list blkT) sy : Forall (fun b => k_num b <= sy) l -> bridges_in l 0 sy = all_bridges l.
Proof. intros H. unfold bridges_in. rewrite (filter_all l sy H). reflexivity. Qed.
End Ranges.
Arguments sorted {bev cev}. Arguments all_bridges {bev cev}.

(* ------------------------------------------------------------------------------------------ *)
(* the protocol                                                                                 *)
(* ------------------------------------------------------------------------------------------ *)
Section Theory.
Variable hash : Type.
Variables bev cev : Type.
Variable b_leaf : bev -> hash.
Variable b_dc : bev -> N.
Variable tree : Type.
Variable t_add : tree -> hash -> tree * hash.
Variable retry_immediately : bool.
Variable start_block : N.
Variable start_ler : hash.
Variable require_events : bool.
Variable cert_type : N.
(* what is assumed of the exit tree: it is SOME function of the leaves appended so far (C01 proves that the tree of
   tree/appendonlytree.go is one: the reference Merkle root) *)
Variable repr : tree -> list hash.
Variable root_of : list hash -> hash.
Hypothesis t_add_repr : forall t x, repr (fst (t_add t x)) = repr t ++ [x].
Hypothesis t_add_root : forall t x, snd (t_add t x) = root_of (repr t ++ [x]).

Notation blkT := (blk bev cev).
Notation rowT := (row hash bev cev).
Notation stateT := (state hash bev cev tree).
Notation subT := (submission hash bev cev).
Notation eventT := (event bev cev).
Notation build_range := (build_range hash bev cev b_dc tree start_ler require_events cert_type).
Notation build := (build hash bev cev b_dc tree start_block start_ler require_events cert_type).
Notation step_gen := (step_gen hash bev cev b_leaf b_dc tree t_add retry_immediately).
Notation step := (step hash bev cev b_leaf b_dc tree t_add retry_immediately start_block start_ler require_events cert_type).
Notation run := (run hash bev cev b_leaf b_dc tree t_add retry_immediately start_block start_ler require_events cert_type).
Notation add_leaves := (add_leaves hash bev b_leaf tree t_add).
Notation new_ler := (new_ler hash bev b_dc).
Notation last_sent_block := (last_sent_block hash bev cev start_block).
Notation next_height_ler := (next_height_ler hash bev cev start_ler).
Notation valid_dcs := (valid_dcs bev b_dc).

(* exit-tree leaves of all blocks <= b, in chain order *)
Definition leaves_upto (l : list blkT) (b : N) : list hash := map b_leaf (bridges_in l 0 b).
(* the root table a tree holding leaves ls must have: entry k = root of the first k+1 leaves *)
Definition prefix_roots (ls : list hash) : list hash := map (fun k => root_of (firstn (S k) ls)) (seq 0 (length ls)).

Lemma nth_prefix_roots ls k : (k < length ls)%nat -> nth_error (prefix_roots ls) k = Some (root_of (firstn (S k) ls)).
Proof. intros H. unfold prefix_roots. rewrite nth_error_map, nth_error_seq by exact H. reflexivity. Qed.
Lemma prefix_roots_length ls : length (prefix_roots ls) = length ls.
Proof. unfold prefix_roots. rewrite map_length, seq_length. reflexivity. Qed.
Lemma prefix_roots_snoc ls x : prefix_roots (ls ++ [x]) = prefix_roots ls ++ [root_of (ls ++ [x])].
Proof.
  unfold prefix_roots. rewrite app_length. cbn [length]. rewrite Nat.add_1_r, seq_S, map_app. cbn [map Nat.add]. f_equal.
  - apply map_ext_in. intros k Hk. apply in_seq in Hk. rewrite firstn_app_le by lia. reflexivity.
  - rewrite <- (Nat.add_1_r (length ls)). replace (length ls + 1)%nat with (length (ls ++ [x])) by (rewrite app_length; reflexivity).
    rewrite firstn_all. reflexivity.
Qed.

(* the history is what the bridge syncer can hold: increasing block numbers up to the tip, a tree and a root table
   that belong to exactly the deposits of these blocks, deposit counts 0,1,2,... *)
Record hist_ok (s : stateT) : Prop := {
  h_sorted : sorted (l2 s);
  h_le : Forall (fun b => k_num b <= synced s) (l2 s);
  h_repr : repr (tr s) = map b_leaf (all_bridges (l2 s));
  h_roots : roots s = prefix_roots (map b_leaf (all_bridges (l2 s)));
  h_dcs : map b_dc (all_bridges (l2 s)) = map N.of_nat (seq 0 (length (all_bridges (l2 s))))
}.
(* configuration consistency: StartL2Block and the start LER describe the same point of the L2 chain, already synced *)
Definition cfg_ok (s : stateT) : Prop :=
  start_block <= synced s /\ start_ler = root_of (leaves_upto (l2 s) start_block).

Definition row_ok (l : list blkT) (sy : N) (r : rowT) : Prop :=
  start_block + 1 <= from r /\ from r <= to r /\ to r <= sy /\
  prev r = root_of (leaves_upto l (from r - 1)) /\ new r = root_of (leaves_upto l (to r)) /\
  r_exits r = bridges_in l (from r) (to r) /\ r_imported r = claims_in l (from r) (to r).

(* the local table: heights without holes, everything below the top row Settled, every row continues the previous one
   in block range and exit root. The lowest row either is the first certificate (height 0: starts right after
   StartL2Block from the start LER) or the base of a table rebuilt after a lost database (rows below it absent). *)
Inductive chain_ok (l : list blkT) (sy : N) : list rowT -> Prop :=
| ok_nil : chain_ok l sy []
| ok_first r : (height r = 0 -> from r = start_block + 1 /\ prev r = start_ler) -> row_ok l sy r -> chain_ok l sy [r]
| ok_next r r' t : chain_ok l sy (r' :: t) -> st r' = Settled -> height r = height r' + 1 ->
    from r = to r' + 1 -> prev r = new r' -> row_ok l sy r -> chain_ok l sy (r :: r' :: t).

(* a locally closed status is the Agglayer's (an open one may lag) *)
Definition lag (loc a : status) : Prop := is_open loc = false -> loc = a.

Record agg_ok (s : stateT) : Prop := {
  ag_rows : forall r, In r (rows s) -> exists c, In c (agg s) /\ a_id c = cid r /\ a_height c = height r /\ lag (st r) (a_st c);
  ag_open : forall c, In c (agg s) -> is_open (a_st c) = true -> exists top, hd_error (rows s) = Some top /\ cid top = a_id c;
  ag_fresh : forall c, In c (agg s) -> a_id c < next_id s;
  ag_nodup : NoDup (map a_id (agg s))
}.

Definition Inv (s : stateT) : Prop := hist_ok s /\ cfg_ok s /\ chain_ok (l2 s) (synced s) (rows s) /\ agg_ok s.
(* initial states: any synced history consistent with the configuration, nothing sent yet *)
Definition Init (s : stateT) : Prop := hist_ok s /\ cfg_ok s /\ rows s = [] /\ agg s = [].

Definition all_closed (a : list acert) : Prop := forall c, In c a -> is_open (a_st c) = false.

Definition set_st (r : rowT) (x : status) : rowT :=
  Row (height r) (cid r) x (from r) (to r) (prev r) (new r) (retry r) (r_exits r) (r_imported r) (r_hasprev r).

(* ---------------- history ---------------- *)
Lemma leaves_upto_split l f t : sorted l -> 1 <= f -> f <= t + 1 ->
  leaves_upto l t = leaves_upto l (f - 1) ++ map b_leaf (bridges_in l f t).
Proof.
  intros Hs Hf Hft. unfold leaves_upto. rewrite (bridges_split bev cev l 0 (f - 1) t Hs) by lia.
  replace (f - 1 + 1) with f by lia. apply map_app.
Qed.

Lemma valid_dcs_spec bs : forall k, valid_dcs (N.of_nat k) bs = true -> map b_dc bs = map N.of_nat (seq k (length bs)).
Proof.
  induction bs as [|b bs IH]; intros k H; [reflexivity|]. cbn [AggsenderProtocol.valid_dcs] in H.
  apply andb_true_iff in H as [H1 H2]. apply N.eqb_eq in H1.
  cbn [map length seq]. f_equal; [exact H1|]. apply IH. replace (N.of_nat (S k)) with (N.of_nat k + 1) by lia. exact H2.
Qed.

Lemma add_leaves_spec bs : forall t rs t' rs', add_leaves t rs bs = (t', rs') -> rs = prefix_roots (repr t) ->
  repr t' = repr t ++ map b_leaf bs /\ rs' = prefix_roots (repr t').
Proof.
  unfold AggsenderProtocol.add_leaves.
  induction bs as [|b bs IH]; intros t rs t' rs' H Hrs; cbn [fold_left map] in *.
  - inversion H; subst. rewrite app_nil_r. split; [reflexivity|reflexivity].
  - cbn [fst snd] in H. destruct (t_add t (b_leaf b)) as [t1 r1] eqn:E.
    pose proof (t_add_repr t (b_leaf b)) as H1. pose proof (t_add_root t (b_leaf b)) as H2. rewrite E in H1, H2. cbn [fst snd] in H1, H2.
    destruct (IH t1 (rs ++ [r1]) t' rs' H) as [Ha Hb].
    + rewrite H1, prefix_roots_snoc, Hrs, H2. reflexivity.
    + split; [|exact Hb]. rewrite Ha, H1, <- app_assoc. reflexivity.
Qed.

Lemma all_bridges_snoc (l : list blkT) b : all_bridges (l ++ [b]) = all_bridges l ++ k_bridges b.
Proof. unfold all_bridges. rewrite flat_map_app. cbn. rewrite app_nil_r. reflexivity. Qed.

Lemma hist_ok_newblock s skip bs cs t' rs' :
  hist_ok s -> valid_dcs (N.of_nat (length (roots s))) bs = true -> add_leaves (tr s) (roots s) bs = (t', rs') ->
  hist_ok (State (l2 s ++ [Blk (synced s + skip + 1) bs cs]) (synced s + skip + 1) t' rs' (rows s) (agg s) (next_id s) (fail_next s)).
Proof.
  intros [H1 H2 H3 H4 H5] Hv Ha.
  destruct (add_leaves_spec bs (tr s) (roots s) t' rs' Ha) as [Hr Hroots]; [rewrite H4, H3; reflexivity|].
  constructor; cbn [l2 synced tr roots].
  - apply strongly_sorted_snoc; [exact H1|]. eapply Forall_impl; [|exact H2]. intros y Hy. unfold num_lt. cbn [k_num]. cbn beta in Hy. lia.
  - apply Forall_app; split; [eapply Forall_impl; [|exact H2]; intros y Hy; cbn beta in Hy; lia|]. constructor; [cbn [k_num]; lia|constructor].
  - rewrite all_bridges_snoc, map_app. cbn [k_bridges]. rewrite Hr, H3. reflexivity.
  - rewrite all_bridges_snoc, map_app. cbn [k_bridges]. rewrite Hroots, Hr, H3. reflexivity.
  - rewrite all_bridges_snoc, map_app, app_length, seq_app, map_app. cbn [k_bridges]. f_equal; [exact H5|].
    rewrite H4, prefix_roots_length, map_length in Hv. apply valid_dcs_spec in Hv. exact Hv.
Qed.

Lemma row_ok_newblock l sy r b : Forall (fun y => k_num y <= sy) l -> start_block <= sy -> sy < k_num b ->
  row_ok l sy r -> row_ok (l ++ [b]) (k_num b) r.
Proof.
  intros Hle Hsb Hb (H1 & H2 & H3 & H4 & H5 & H6 & H7). unfold row_ok, leaves_upto in *.
  rewrite !bridges_snoc, claims_snoc by lia. repeat split; try assumption. lia.
Qed.
Lemma chain_ok_newblock l sy rs b : Forall (fun y => k_num y <= sy) l -> start_block <= sy -> sy < k_num b ->
  chain_ok l sy rs -> chain_ok (l ++ [b]) (k_num b) rs.
Proof.
  intros Hle Hsb Hb. induction 1.
  - constructor.
  - apply ok_first; try assumption. apply row_ok_newblock with sy; assumption.
  - apply ok_next; try assumption. apply row_ok_newblock with sy; assumption.
Qed.

(* getNewLocalExitRoot returns the root of the tree after the last block of the range *)
Lemma dc_of_position (A R : list bev) b n :
  map b_dc (A ++ b :: R) = map N.of_nat (seq 0 n) -> b_dc b = N.of_nat (length A).
Proof.
  intros H. assert (Hn : n = length (A ++ b :: R)) by (apply (f_equal (@length N)) in H; rewrite !map_length, seq_length in H; symmetry; exact H).
  apply (f_equal (fun l => nth_error l (length A))) in H.
  rewrite nth_error_map, nth_error_app2, Nat.sub_diag in H by lia. cbn [nth_error option_map] in H.
  rewrite nth_error_map, nth_error_seq in H by (rewrite Hn, app_length; cbn; lia). cbn in H. inversion H. reflexivity.
Qed.

Lemma new_root s p f t : hist_ok s -> 1 <= f -> f <= t -> t <= synced s -> p = root_of (leaves_upto (l2 s) (f - 1)) ->
  new_ler (roots s) (bridges_in (l2 s) f t) p = Some (root_of (leaves_upto (l2 s) t)).
Proof.
  intros [H1 H2 H3 H4 H5] Hf Hft Hts ->. unfold AggsenderProtocol.new_ler.
  rewrite (leaves_upto_split (l2 s) f t H1) by lia.
  destruct (last_opt (bridges_in (l2 s) f t)) as [b|] eqn:El.
  - apply last_opt_some in El as (bs' & Ebs).
    (* all bridges = (those up to f-1) ++ bs' ++ [b] ++ (those after t) *)
    assert (Eall : all_bridges (l2 s) = (bridges_in (l2 s) 0 (f - 1) ++ bs') ++ b :: bridges_in (l2 s) (t + 1) (synced s)).
    { rewrite <- (all_bridges_upto bev cev (l2 s) (synced s) H2).
      rewrite (bridges_split bev cev (l2 s) 0 t (synced s) H1) by lia.
      rewrite (bridges_split bev cev (l2 s) 0 (f - 1) t H1) by lia. replace (f - 1 + 1) with f by lia.
      rewrite Ebs, <- !app_assoc. reflexivity. }
    rewrite Eall in H5. rewrite (dc_of_position _ _ _ _ H5), Nat2N.id.
    rewrite H4, nth_prefix_roots by (rewrite Eall, map_length, !app_length; cbn [length]; lia).
    f_equal. f_equal. rewrite Eall, Ebs. unfold leaves_upto. rewrite <- map_app, app_assoc.
    set (A := (bridges_in (l2 s) 0 (f - 1) ++ bs') ++ [b]).
    replace ((bridges_in (l2 s) 0 (f - 1) ++ bs') ++ b :: bridges_in (l2 s) (t + 1) (synced s))
      with (A ++ bridges_in (l2 s) (t + 1) (synced s)) by (unfold A; rewrite <- app_assoc; reflexivity).
    replace (S (length (bridges_in (l2 s) 0 (f - 1) ++ bs'))) with (length (map b_leaf A))
      by (unfold A; rewrite map_length, !app_length; cbn [length]; lia).
    rewrite map_app. apply firstn_app_exact.
  - apply last_opt_none in El. rewrite El. cbn [map]. rewrite app_nil_r. reflexivity.
Qed.

(* ---------------- the local table ---------------- *)
Lemma set_st_same (r : rowT) : set_st r (st r) = r.
Proof. destruct r; reflexivity. Qed.
Lemma chain_ok_tail l sy r t : chain_ok l sy (r :: t) -> chain_ok l sy t.
Proof. inversion 1; subst; [constructor|assumption]. Qed.
Lemma chain_ok_head_st l sy r t x : chain_ok l sy (r :: t) -> chain_ok l sy (set_st r x :: t).
Proof. inversion 1; subst; [apply ok_first; assumption|apply ok_next; assumption]. Qed.
Lemma chain_ok_head_row l sy r t : chain_ok l sy (r :: t) -> row_ok l sy r.
Proof. inversion 1; subst; assumption. Qed.
Lemma chain_ok_below_settled l sy r t : chain_ok l sy (r :: t) -> forall r', In r' t -> st r' = Settled.
Proof.
  revert r. induction t as [|r1 t IH]; intros r H r' Hin; [destruct Hin|].
  inversion H; subst. destruct Hin as [<-|Hin]; [assumption|]. eapply IH; eassumption.
Qed.

(* CheckPendingCertificatesStatus touches only open rows; below the top row everything is Settled *)
Lemma poll_closed_rows failing a (t : list rowT) :
  (forall r, In r t -> is_open (st r) = false) -> poll_pending failing a t = (t, CpOk false false false).
Proof.
  induction t as [|r t IH]; intros H; [reflexivity|]. cbn [poll_pending].
  rewrite IH by (intros r' Hr'; apply H; right; exact Hr'). rewrite (H r (or_introl eq_refl)). reflexivity.
Qed.

Lemma poll_shape failing a l sy r t : chain_ok l sy (r :: t) ->
  exists x res, poll_pending failing a (r :: t) = (set_st r x :: t, res) /\
    (x = st r \/ (is_open (st r) = true /\ failing = false /\ agg_status a (cid r) = Some x)) /\
    (cp_pending res = false -> is_open x = false) /\
    (cp_pending res = false -> is_open (st r) = true -> failing = false /\ agg_status a (cid r) = Some x) /\
    (cp_called res = false -> is_open (st r) = false).
Proof.
  intros Hc. cbn [poll_pending]. rewrite poll_closed_rows.
  2:{ intros r' Hr'. rewrite (chain_ok_below_settled l sy r t Hc r' Hr'). reflexivity. }
  destruct (is_open (st r)) eqn:Ho.
  - destruct failing; cbn [negb andb].
    + exists (st r), CpAbort. rewrite set_st_same. split; [reflexivity|]. split; [left; reflexivity|]. repeat split; cbn; intros; discriminate.
    + destruct (agg_status a (cid r)) as [x|] eqn:Ea.
      * exists x, (CpOk (false || is_open x) (false || (negb (is_in_error (st r)) && is_in_error x)) true).
        split; [reflexivity|]. split; [right; auto|]. cbn [cp_pending cp_called orb]. repeat split; auto; intros; discriminate.
      * exists (st r), CpAbort. rewrite set_st_same. split; [reflexivity|]. split; [left; reflexivity|]. repeat split; cbn; intros; discriminate.
  - exists (st r), (CpOk false false false). rewrite set_st_same. split; [reflexivity|]. split; [left; reflexivity|].
    cbn [cp_pending cp_called]. repeat split; auto; intros; congruence.
Qed.

(* getNextHeightAndPreviousLER on a certificate in error: whether or not the row stores its previous LER (a row rebuilt
   at start-up from an Agglayer header may not), the answer is that previous LER: the fallback (start LER at height 0,
   else the new LER of the settled row below) gives the same value on a gap-free chain *)
Lemma inerror_prev_ler l sy (top : rowT) rest : chain_ok l sy (top :: rest) -> st top = InError ->
  r_hasprev top = true \/ height top = 0 \/ rest <> [] ->
  next_height_ler (top :: rest) (Some top) = Some (height top, prev top).
Proof.
  intros Hc Est Hcase. unfold AggsenderProtocol.next_height_ler. rewrite Est. cbn [is_closed is_open negb is_settled is_in_error].
  destruct (r_hasprev top) eqn:Ehp; [reflexivity|]. inversion Hc as [|r Hbase Hr|r r' t Hc' Hst Hh Hf Hp Hr]; subst.
  - destruct Hcase as [H|[H|H]]; [discriminate| |congruence]. destruct (Hbase H) as [_ Hp]. rewrite H, Hp. reflexivity.
  - replace (height top =? 0) with false by (symmetry; apply N.eqb_neq; lia). cbn [find].
    replace (height top =? height top - 1) with false by (symmetry; apply N.eqb_neq; lia).
    replace (height r' =? height top - 1) with true by (symmetry; apply N.eqb_eq; lia).
    rewrite Hst, Hp. reflexivity.
Qed.
(* in every case the answer is that previous LER or a refusal (base of a rebuilt table, in error, previous LER unknown) *)
Lemma inerror_prev_ler_or_none l sy (top : rowT) rest : chain_ok l sy (top :: rest) -> st top = InError ->
  next_height_ler (top :: rest) (Some top) = Some (height top, prev top) \/ next_height_ler (top :: rest) (Some top) = None.
Proof.
  intros Hc Est. destruct (r_hasprev top) eqn:Ehp; [left; apply (inerror_prev_ler l sy); auto|].
  destruct rest as [|r' t]; [|left; apply (inerror_prev_ler l sy); auto; right; right; discriminate].
  destruct (N.eq_dec (height top) 0) as [E|E]; [left; apply (inerror_prev_ler l sy); auto|].
  right. unfold AggsenderProtocol.next_height_ler. rewrite Est, Ehp. cbn [is_closed is_open negb is_settled is_in_error find].
  replace (height top =? 0) with false by (symmetry; apply N.eqb_neq; exact E).
  replace (height top =? height top - 1) with false by (symmetry; apply N.eqb_neq; lia). reflexivity.
Qed.

(* what C02 demands of a submission, relative to the local records at the time it is built *)
Definition sub_ok (rs : list rowT) (sb : subT) : Prop :=
  match rs with
  | [] => s_height sb = 0 /\ s_prev sb = start_ler /\ s_from sb = start_block + 1
  | top :: _ =>
      (st top = Settled /\ s_height sb = height top + 1 /\ s_prev sb = new top /\ s_from sb = to top + 1) \/
      (st top = InError /\ s_height sb = height top /\ s_prev sb = prev top /\ s_from sb = from top /\ 0 < s_retry sb)
  end.

(* where a new range must start, and with which retry count *)
Definition range_start (rs : list rowT) (f rc : N) : Prop :=
  match rs with
  | [] => f = start_block + 1
  | top :: _ => (st top = InError -> f = from top /\ 0 < rc) /\ (st top <> InError -> f = to top + 1 /\ rc = 0)
  end.

Lemma build_range_ok s rc f t sb rc' :
  hist_ok s -> cfg_ok s -> chain_ok (l2 s) (synced s) (rows s) -> f <= t -> t <= synced s -> range_start (rows s) f rc ->
  build_range s (hd_error (rows s)) rc f t = Some (sb, rc') ->
  sub_ok (rows s) sb /\ chain_ok (l2 s) (synced s) (replace_top (rows s) (sub_row sb rc')) /\
  s_id sb = next_id s /\ s_to sb = t /\ s_from sb = f /\ rc' = rc /\
  s_exits sb = bridges_in (l2 s) f t /\ s_imported sb = claims_in (l2 s) f t /\
  s_prev sb = root_of (leaves_upto (l2 s) (f - 1)) /\ s_new sb = root_of (leaves_upto (l2 s) t) /\
  s_meta sb = (f, u64_sub t f mod 2^32, cert_type).
Proof.
  intros Hh [Hsb Hler] Hc Hft Hts Hst Hb. unfold AggsenderProtocol.build_range in Hb.
  destruct (synced s <? t); [discriminate|].
  destruct (require_events && is_nil (bridges_in (l2 s) f t) && is_nil (claims_in (l2 s) f t)); [discriminate|].
  destruct (rows s) as [|top rest] eqn:Er; cbn [hd_error] in Hb.
  - (* first certificate *)
    cbn [range_start] in Hst. subst f. rewrite andb_false_r in Hb. cbn [AggsenderProtocol.next_height_ler] in Hb.
    rewrite (new_root s start_ler (start_block + 1) t Hh) in Hb; try lia.
    2:{ replace (start_block + 1 - 1) with start_block by lia. exact Hler. }
    inversion Hb; subst sb rc'; clear Hb. cbn [sub_ok s_height s_prev s_from s_id s_to s_exits s_imported s_new s_meta].
    repeat split; try reflexivity.
    + cbn [replace_top]. apply ok_first; cbn [sub_row height from prev s_height s_from s_prev]; [intros _; split; reflexivity|].
      unfold row_ok, sub_row; cbn [from to prev new r_exits r_imported r_hasprev s_height s_prev s_new s_from s_to s_id s_exits s_imported].
      repeat split; try lia; try reflexivity. replace (start_block + 1 - 1) with start_block by lia. exact Hler.
    + replace (start_block + 1 - 1) with start_block by lia. exact Hler.
  - pose proof (chain_ok_head_row _ _ _ _ Hc) as (Hr1 & Hr2 & Hr3 & Hr4 & Hr5 & Hr6 & Hr7).
    pose proof (inerror_prev_ler_or_none _ _ _ _ Hc) as Hfb.
    cbn [range_start] in Hst. destruct Hst as [Herr Hnerr].
    destruct (st top) eqn:Est; [| | |destruct (Hfb eq_refl) as [Hfb'|Hfb']; rewrite Hfb' in Hb; [|destruct ((0 <? rc) && negb (f =? from top)); discriminate]|];
      cbn [AggsenderProtocol.next_height_ler] in Hb; rewrite ?Est in Hb; cbn [is_closed is_open negb is_settled is_in_error] in Hb;
      try (destruct ((0 <? rc) && negb (f =? from top)); discriminate).
    + (* replacement of the certificate in error *)
      destruct (Herr eq_refl) as [-> Hrc].
      rewrite N.eqb_refl in Hb. cbn [negb] in Hb. rewrite andb_false_r in Hb.
      rewrite (new_root s (prev top) (from top) t Hh) in Hb; try lia; try exact Hr4.
      inversion Hb; subst sb rc'; clear Hb. cbn [sub_ok s_height s_prev s_from s_id s_to s_exits s_imported s_new s_meta s_retry].
      repeat split; try reflexivity; try exact Hr4.
      * right. repeat split; assumption.
      * unfold sub_row; cbn [replace_top s_height height]. rewrite N.eqb_refl.
        assert (Hrow : row_ok (l2 s) (synced s)
                  (Row (height top) (next_id s) Pending (from top) t (prev top) (root_of (leaves_upto (l2 s) t)) rc
                       (bridges_in (l2 s) (from top) t) (claims_in (l2 s) (from top) t) true)).
        { unfold row_ok; cbn [from to prev new r_exits r_imported]. repeat split; try lia; try reflexivity; exact Hr4. }
        cbn [s_id s_from s_to s_prev s_new s_exits s_imported].
        inversion Hc; subst.
        -- apply ok_first; cbn [height from prev]; assumption.
        -- apply ok_next; cbn [height from prev]; assumption.
    + (* after a settled certificate *)
      destruct Hnerr as [-> ->]; [discriminate|].
      cbn [N.ltb N.compare andb] in Hb.
      rewrite (new_root s (new top) (to top + 1) t Hh) in Hb; try lia.
      2:{ replace (to top + 1 - 1) with (to top) by lia. exact Hr5. }
      inversion Hb; subst sb rc'; clear Hb. cbn [sub_ok s_height s_prev s_from s_id s_to s_exits s_imported s_new s_meta s_retry].
      repeat split; try reflexivity.
      * left. repeat split; assumption.
      * unfold sub_row; cbn [replace_top s_height height].
        replace (height top =? height top + 1) with false by (symmetry; apply N.eqb_neq; lia).
        cbn [s_id s_from s_to s_prev s_new s_exits s_imported].
        apply ok_next; cbn [height from prev]; try assumption; try reflexivity.
        unfold row_ok; cbn [from to prev new r_exits r_imported r_hasprev]. repeat split; try lia; try reflexivity.
        replace (to top + 1 - 1) with (to top) by lia. exact Hr5.
      * replace (to top + 1 - 1) with (to top) by lia. exact Hr5.
Qed.

Lemma last_sent_block_start l sy (rs : list rowT) prev_to rc0 : chain_ok l sy rs ->
  last_sent_block (hd_error rs) = (prev_to, rc0) -> range_start rs (prev_to + 1) rc0.
Proof.
  intros Hc El. destruct rs as [|top rest]; cbn [hd_error AggsenderProtocol.last_sent_block] in El.
  - inversion El; subst. reflexivity.
  - pose proof (chain_ok_head_row _ _ _ _ Hc) as (Hr1 & _).
    cbn [range_start]. destruct (is_in_error (st top)) eqn:Ee.
    + replace (0 <? from top) with true in El by (symmetry; apply N.ltb_lt; lia). inversion El; subst.
      split; [intros _; split; lia|]. intros Hne. destruct (st top); cbn in Ee; congruence.
    + inversion El; subst. split; [intros E; rewrite E in Ee; discriminate|]. intros _. split; reflexivity.
Qed.

(* the PP flow's builder *)
Theorem build_ok s cut sb rc :
  hist_ok s -> cfg_ok s -> chain_ok (l2 s) (synced s) (rows s) -> build s cut = Some (sb, rc) ->
  sub_ok (rows s) sb /\ chain_ok (l2 s) (synced s) (replace_top (rows s) (sub_row sb rc)) /\
  s_id sb = next_id s /\ s_to sb <= synced s /\ s_from sb <= s_to sb /\
  s_exits sb = bridges_in (l2 s) (s_from sb) (s_to sb) /\ s_imported sb = claims_in (l2 s) (s_from sb) (s_to sb) /\
  s_prev sb = root_of (leaves_upto (l2 s) (s_from sb - 1)) /\ s_new sb = root_of (leaves_upto (l2 s) (s_to sb)) /\
  s_meta sb = (s_from sb, u64_sub (s_to sb) (s_from sb) mod 2^32, cert_type).
Proof.
  intros Hh Hcfg Hc Hb. unfold AggsenderProtocol.build in Hb.
  destruct (last_sent_block (hd_error (rows s))) as [prev_to rc0] eqn:El.
  destruct (synced s <=? prev_to) eqn:Hs; [discriminate|]. apply N.leb_gt in Hs.
  pose proof (last_sent_block_start _ _ _ _ _ Hc El) as Hst.
  destruct (build_range_ok s rc0 (prev_to + 1) (N.max (prev_to + 1) (synced s - cut)) sb rc Hh Hcfg Hc) as
    (H1 & H2 & H3 & H4 & H5 & H6 & H7 & H8 & H9 & H10 & H11); try lia; try assumption.
  rewrite H4, H5. repeat split; try assumption; lia.
Qed.

(* everything the checks need to know about a certificate a builder returns *)
Definition built_ok (s : stateT) (sb : subT) (rc : N) : Prop :=
  sub_ok (rows s) sb /\ chain_ok (l2 s) (synced s) (replace_top (rows s) (sub_row sb rc)) /\
  s_id sb = next_id s /\ s_to sb <= synced s /\ s_from sb <= s_to sb /\
  s_exits sb = bridges_in (l2 s) (s_from sb) (s_to sb) /\ s_imported sb = claims_in (l2 s) (s_from sb) (s_to sb) /\
  s_prev sb = root_of (leaves_upto (l2 s) (s_from sb - 1)) /\ s_new sb = root_of (leaves_upto (l2 s) (s_to sb)) /\
  s_meta sb = (s_from sb, u64_sub (s_to sb) (s_from sb) mod 2^32, cert_type).
Definition builder_ok (bld : stateT -> N -> option (subT * N)) : Prop :=
  forall s cut sb rc, hist_ok s -> cfg_ok s -> chain_ok (l2 s) (synced s) (rows s) -> bld s cut = Some (sb, rc) -> built_ok s sb rc.

Lemma build_builder_ok : builder_ok build.
Proof. intros s cut sb rc Hh Hcfg Hc Hb. exact (build_ok s cut sb rc Hh Hcfg Hc Hb). Qed.

(* ---------------- Agglayer-side bookkeeping ---------------- *)
Lemma hist_ok_frame s rs a nid fl : hist_ok s -> hist_ok (State (l2 s) (synced s) (tr s) (roots s) rs a nid fl).
Proof. intros [H1 H2 H3 H4 H5]. constructor; assumption. Qed.

Lemma inv_frame s fl : Inv s -> Inv (set_rows_fail s (rows s) fl).
Proof.
  intros (Hh & Hcfg & Hc & [H1 H2 H3 H4]). unfold set_rows_fail.
  split; [apply hist_ok_frame; exact Hh|]. split; [exact Hcfg|]. split; [exact Hc|]. constructor; assumption.
Qed.

Lemma inv_aggmove s id cur x : Inv s -> agg_status (agg s) id = Some cur -> valid_move cur x = true ->
  Inv (State (l2 s) (synced s) (tr s) (roots s) (rows s) (agg_set (agg s) id x) (next_id s) (fail_next s)).
Proof.
  intros (Hh & Hcfg & Hc & [H1 H2 H3 H4]) Hst Hvm. pose proof (valid_move_open _ _ Hvm) as Hcur.
  apply agg_status_in in Hst as (c0 & Hin0 & Hid0 & Hst0).
  split; [apply hist_ok_frame; exact Hh|]. split; [exact Hcfg|]. split; [exact Hc|]. constructor; cbn [rows agg next_id].
  - intros r Hr. destruct (H1 r Hr) as (c & Hin & Hid & Hhh & Hlag).
    exists (if a_id c =? id then AC (a_id c) (a_height c) x else c). split.
    + unfold agg_set. apply in_map_iff. exists c. split; [reflexivity|exact Hin].
    + destruct (N.eqb_spec (a_id c) id) as [E|E]; cbn [a_id a_height a_st]; repeat split; try assumption.
      intros Hcl. exfalso.
      assert (c = c0) by (apply (nodup_same_id (agg s)); try assumption; congruence). subst c.
      rewrite (Hlag Hcl) in Hcl. congruence.
  - intros c' Hin' Ho'. unfold agg_set in Hin'. apply in_map_iff in Hin' as (c & Heq & Hin).
    destruct (N.eqb_spec (a_id c) id) as [E|E]; subst c'; cbn [a_id a_st] in *.
    + assert (c = c0) by (apply (nodup_same_id (agg s)); try assumption; congruence). subst c.
      apply H2; [exact Hin|congruence].
    + apply H2; assumption.
  - intros c' Hin'. unfold agg_set in Hin'. apply in_map_iff in Hin' as (c & Heq & Hin).
    destruct (a_id c =? id); subst c'; cbn [a_id]; apply H3; exact Hin.
  - rewrite agg_set_ids. exact H4.
Qed.

(* after a status check that reports "nothing pending", every certificate at the Agglayer is decided *)
Lemma pending_false_all_closed s rs' res :
  Inv s -> poll_pending (fail_next s) (agg s) (rows s) = (rs', res) -> cp_pending res = false -> all_closed (agg s).
Proof.
  intros (Hh & Hcfg & Hc & Ha) Hcp Hp c Hin. destruct (is_open (a_st c)) eqn:Ho; [|reflexivity]. exfalso.
  destruct (ag_open s Ha c Hin Ho) as (top & Htop & Hid).
  destruct (rows s) as [|r t] eqn:Er; [discriminate|]. cbn [hd_error] in Htop. inversion Htop; subst top.
  destruct (poll_shape (fail_next s) (agg s) _ _ r t Hc) as (x & res' & Heq & Hx & Hp1 & Hp2 & _).
  rewrite Heq in Hcp. inversion Hcp; subst rs' res'.
  specialize (Hp1 Hp).
  destruct (ag_rows s Ha r) as (c' & Hin' & Hid' & Hh' & Hlag); [rewrite Er; left; reflexivity|].
  assert (c' = c) by (apply (nodup_same_id (agg s)); [apply (ag_nodup s Ha)|assumption|assumption|congruence]). subst c'.
  destruct (is_open (st r)) eqn:Hor.
  - destruct (Hp2 Hp eq_refl) as [_ Hst]. apply agg_status_in in Hst as (c2 & Hin2 & Hid2 & Hst2).
    assert (c2 = c) by (apply (nodup_same_id (agg s)); [apply (ag_nodup s Ha)|assumption|assumption|congruence]). subst c2.
    congruence.
  - destruct Hx as [->|[Hopen _]]; [|congruence]. rewrite <- (Hlag Hor) in Ho. congruence.
Qed.

Lemma inv_poll s rs' res fl : Inv s -> poll_pending (fail_next s) (agg s) (rows s) = (rs', res) -> Inv (set_rows_fail s rs' fl).
Proof.
  intros (Hh & Hcfg & Hc & [H1 H2 H3 H4]) Hcp. unfold set_rows_fail.
  destruct (rows s) as [|r t] eqn:Er.
  - cbn in Hcp. inversion Hcp; subst. split; [apply hist_ok_frame; exact Hh|]. split; [exact Hcfg|]. split; [constructor|].
    constructor; cbn [rows agg next_id]; try assumption; try (intros r []).
  - destruct (poll_shape (fail_next s) (agg s) _ _ r t Hc) as (x & res' & Heq & Hx & _).
    rewrite Heq in Hcp. inversion Hcp; subst rs' res'.
    split; [apply hist_ok_frame; exact Hh|]. split; [exact Hcfg|].
    split; [cbn [l2 synced rows]; apply chain_ok_head_st; exact Hc|]. constructor; cbn [rows agg next_id]; try assumption.
    + intros r' [<-|Hr'].
      * destruct (H1 r (or_introl eq_refl)) as (c & Hin & Hid & Hhh & Hlag).
        exists c. repeat split; try assumption. cbn [st set_st].
        destruct Hx as [->|(_ & _ & Hst)]; [exact Hlag|].
        apply agg_status_in in Hst as (c2 & Hin2 & Hid2 & Hst2).
        assert (c2 = c) by (apply (nodup_same_id (agg s)); try assumption; congruence). subst c2.
        intros _. symmetry. exact Hst2.
      * apply H1. right. exact Hr'.
    + intros c Hin Ho. destruct (H2 c Hin Ho) as (top & Ht & Hid). cbn [hd_error] in *.
      inversion Ht; subst top. exists (set_st r x). split; [reflexivity|exact Hid].
Qed.

Lemma in_replace_top (rs : list rowT) r x : In x (replace_top rs r) -> x = r \/ In x rs.
Proof.
  destruct rs as [|y t]; cbn [replace_top].
  - intros [<-|[]]. left; reflexivity.
  - destruct (height y =? height r).
    + intros [<-|H]; [left; reflexivity|right; right; exact H].
    + intros [<-|H]; [left; reflexivity|right; exact H].
Qed.
Lemma hd_replace_top (rs : list rowT) r : hd_error (replace_top rs r) = Some r.
Proof. destruct rs as [|y t]; cbn [replace_top]; [reflexivity|]. destruct (height y =? height r); reflexivity. Qed.

Lemma inv_send s b : Inv s -> all_closed (agg s) -> (forall sb rc, b = Some (sb, rc) -> built_ok s sb rc) ->
  Inv (fst (send_with s b)).
Proof.
  intros HI Hcl Hb. unfold send_with. destruct b as [[sb rc]|]; [|exact HI].
  destruct (fail_next s); [apply inv_frame; exact HI|].
  destruct HI as (Hh & Hcfg & Hc & [H1 H2 H3 H4]).
  destruct (Hb sb rc eq_refl) as (_ & Hchain & Hid & _).
  cbn [fst]. split; [apply hist_ok_frame; exact Hh|]. split; [exact Hcfg|]. split; [exact Hchain|]. constructor; cbn [rows agg next_id].
  - intros r Hr. apply in_replace_top in Hr as [->|Hr].
    + exists (AC (s_id sb) (s_height sb) Pending). split; [left; reflexivity|]. cbn. repeat split; try (intros H; discriminate).
    + destruct (H1 r Hr) as (c & Hin & Hrest). exists c. split; [right; exact Hin|exact Hrest].
  - intros c [<-|Hin] Ho.
    + exists (sub_row sb rc). split; [apply hd_replace_top|reflexivity].
    + rewrite (Hcl c Hin) in Ho. discriminate.
  - intros c [<-|Hin]; cbn [a_id]; [lia|]. specialize (H3 c Hin). lia.
  - cbn [map a_id]. constructor; [|exact H4]. intros Hin. apply in_map_iff in Hin as (c & Hidc & Hin).
    specialize (H3 c Hin). lia.
Qed.

Lemma inv_newblock s skip bs cs t' rs' : Inv s ->
  valid_dcs (N.of_nat (length (roots s))) bs = true -> add_leaves (tr s) (roots s) bs = (t', rs') ->
  Inv (State (l2 s ++ [Blk (synced s + skip + 1) bs cs]) (synced s + skip + 1) t' rs' (rows s) (agg s) (next_id s) (fail_next s)).
Proof.
  intros (Hh & [Hsb Hler] & Hc & [H1 H2 H3 H4]) Hv Ha.
  split; [apply hist_ok_newblock; assumption|]. split; [|split].
  - split; cbn [l2 synced]; [lia|]. unfold leaves_upto. rewrite bridges_snoc by (cbn [k_num]; lia). exact Hler.
  - cbn [l2 synced rows].
    change (synced s + skip + 1) with (k_num (Blk (synced s + skip + 1) bs cs)) at 2.
    apply chain_ok_newblock with (synced s); try assumption; [apply (h_le s Hh)|cbn [k_num]; lia].
  - constructor; cbn [rows agg next_id]; assumption.
Qed.

(* ---------------- the invariant is inductive, for every builder that is builder_ok ---------------- *)
Section AnyBuilder.
Variable bld : stateT -> N -> option (subT * N).
Hypothesis bld_ok : builder_ok bld.

Theorem step_gen_preserves_Inv s e : Inv s -> Inv (fst (step_gen bld s e)).
Proof.
  intros HI. destruct e as [skip bs cs|cut|cut|id x|]; cbn [AggsenderProtocol.step_gen].
  - destruct (valid_dcs (N.of_nat (length (roots s))) bs) eqn:Hv; [|exact HI].
    destruct (add_leaves (tr s) (roots s) bs) as [t' rs'] eqn:Ha. cbn [fst]. apply inv_newblock; assumption.
  - destruct (poll_pending (fail_next s) (agg s) (rows s)) as [rs res] eqn:Hcp.
    pose proof (inv_poll s rs res (if cp_called res then false else fail_next s) HI Hcp) as HI1.
    destruct (cp_pending res) eqn:Hp; [exact HI1|]. apply inv_send; [exact HI1| |].
    + unfold set_rows_fail; cbn [agg]. eapply pending_false_all_closed; eauto.
    + intros sb rc Hb. destruct HI1 as (Hh1 & Hcfg1 & Hc1 & _). exact (bld_ok _ _ _ _ Hh1 Hcfg1 Hc1 Hb).
  - destruct (poll_pending (fail_next s) (agg s) (rows s)) as [rs res] eqn:Hcp.
    pose proof (inv_poll s rs res (if cp_called res then false else fail_next s) HI Hcp) as HI1.
    destruct (cp_pending res) eqn:Hp; cbn [negb andb]; [exact HI1|].
    destruct (cp_newerr res && retry_immediately); [|exact HI1]. apply inv_send; [exact HI1| |].
    + unfold set_rows_fail; cbn [agg]. eapply pending_false_all_closed; eauto.
    + intros sb rc Hb. destruct HI1 as (Hh1 & Hcfg1 & Hc1 & _). exact (bld_ok _ _ _ _ Hh1 Hcfg1 Hc1 Hb).
  - destruct (agg_status (agg s) id) as [cur|] eqn:Hst; [|exact HI].
    destruct (valid_move cur x) eqn:Hvm; [|exact HI]. cbn [fst]. eapply inv_aggmove; eauto.
  - apply (inv_frame s _ HI).
Qed.

(* C02: "No certificate is submitted while an earlier one is still undecided" *)
Theorem no_submission_while_undecided_gen s e s' subs :
  Inv s -> step_gen bld s e = (s', subs) -> subs <> [] -> all_closed (agg s).
Proof.
  intros HI Hstep Hne. destruct e as [skip bs cs|cut|cut|id x|]; cbn [AggsenderProtocol.step_gen] in Hstep.
  - destruct (valid_dcs (N.of_nat (length (roots s))) bs); [destruct (add_leaves (tr s) (roots s) bs)|]; inversion Hstep; subst; congruence.
  - destruct (poll_pending (fail_next s) (agg s) (rows s)) as [rs res] eqn:Hcp.
    destruct (cp_pending res) eqn:Hp; [inversion Hstep; subst; congruence|]. eapply pending_false_all_closed; eauto.
  - destruct (poll_pending (fail_next s) (agg s) (rows s)) as [rs res] eqn:Hcp.
    destruct (cp_pending res) eqn:Hp; [cbn in Hstep; inversion Hstep; subst; congruence|]. eapply pending_false_all_closed; eauto.
  - destruct (agg_status (agg s) id) as [cur|]; [destruct (valid_move cur x)|]; inversion Hstep; subst; congruence.
  - inversion Hstep; subst; congruence.
Qed.

(* the rows as they are after the status refresh of a tick: what the builder sees *)
Definition refreshed (s : stateT) : list rowT := fst (poll_pending (fail_next s) (agg s) (rows s)).

End AnyBuilder.

(* ---------------- what a step submits (any builder that is builder_ok) ---------------- *)
Section AnyBuilder2.
Variable bld : stateT -> N -> option (subT * N).
Hypothesis bld_ok : builder_ok bld.

(* the state in which a tick builds: statuses refreshed from the Agglayer *)
Definition tick_state (s : stateT) : stateT :=
  let '(rs, res) := poll_pending (fail_next s) (agg s) (rows s) in
  set_rows_fail s rs (if cp_called res then false else fail_next s).

Lemma tick_state_inv s : Inv s -> Inv (tick_state s).
Proof.
  intros HI. unfold tick_state. destruct (poll_pending (fail_next s) (agg s) (rows s)) as [rs res] eqn:Hcp.
  eapply inv_poll; eauto.
Qed.

Theorem step_gen_submissions s e s' subs : Inv s -> step_gen bld s e = (s', subs) ->
  subs = [] \/ exists sb rc, subs = [sb] /\ built_ok (tick_state s) sb rc /\
                            rows s' = replace_top (rows (tick_state s)) (sub_row sb rc).
Proof.
  intros HI Hstep. pose proof (tick_state_inv s HI) as HI1. unfold tick_state in *.
  destruct e as [skip bs cs|cut|cut|id x|]; cbn [AggsenderProtocol.step_gen] in Hstep.
  - left. destruct (valid_dcs (N.of_nat (length (roots s))) bs); [destruct (add_leaves (tr s) (roots s) bs)|]; inversion Hstep; reflexivity.
  - destruct (poll_pending (fail_next s) (agg s) (rows s)) as [rs res] eqn:Hcp.
    destruct (cp_pending res); [left; inversion Hstep; reflexivity|].
    set (s1 := set_rows_fail s rs (if cp_called res then false else fail_next s)) in *.
    destruct (bld s1 cut) as [[sb rc]|] eqn:Hb; cbn [send_with] in Hstep; [|left; inversion Hstep; reflexivity].
    destruct (fail_next s1); [left; inversion Hstep; reflexivity|]. right. exists sb, rc.
    inversion Hstep; subst s' subs. split; [reflexivity|]. split; [|reflexivity].
    destruct HI1 as (Hh1 & Hcfg1 & Hc1 & _). exact (bld_ok _ _ _ _ Hh1 Hcfg1 Hc1 Hb).
  - destruct (poll_pending (fail_next s) (agg s) (rows s)) as [rs res] eqn:Hcp.
    destruct (negb (cp_pending res) && cp_newerr res && retry_immediately); [|left; inversion Hstep; reflexivity].
    set (s1 := set_rows_fail s rs (if cp_called res then false else fail_next s)) in *.
    destruct (bld s1 cut) as [[sb rc]|] eqn:Hb; cbn [send_with] in Hstep; [|left; inversion Hstep; reflexivity].
    destruct (fail_next s1); [left; inversion Hstep; reflexivity|]. right. exists sb, rc.
    inversion Hstep; subst s' subs. split; [reflexivity|]. split; [|reflexivity].
    destruct HI1 as (Hh1 & Hcfg1 & Hc1 & _). exact (bld_ok _ _ _ _ Hh1 Hcfg1 Hc1 Hb).
  - left. destruct (agg_status (agg s) id) as [cur|]; [destruct (valid_move cur x)|]; inversion Hstep; reflexivity.
  - left. inversion Hstep; reflexivity.
Qed.

Definition run_gen (s : stateT) (evs : list eventT) : stateT := fold_left (fun s e => fst (step_gen bld s e)) evs s.
Theorem reachable_Inv_gen s0 evs : Inv s0 -> Inv (run_gen s0 evs).
Proof.
  unfold run_gen. revert s0. induction evs as [|e evs IH]; intros s Hs; cbn [fold_left]; [exact Hs|].
  apply IH, step_gen_preserves_Inv; assumption.
Qed.
End AnyBuilder2.

Lemma Inv_init s : Init s -> Inv s.
Proof.
  intros (Hh & Hcfg & Hr & Ha). split; [exact Hh|]. split; [exact Hcfg|]. rewrite Hr. split; [constructor|].
  constructor; rewrite ?Hr, ?Ha; cbn; try (intros ? []); constructor.
Qed.

(* ---------------- PP flow ---------------- *)
Theorem step_preserves_Inv s e : Inv s -> Inv (fst (step s e)).
Proof. apply step_gen_preserves_Inv, build_builder_ok. Qed.
Theorem reachable_Inv s0 evs : Init s0 -> Inv (run s0 evs).
Proof. intros H. apply (reachable_Inv_gen build build_builder_ok), Inv_init, H. Qed.
Theorem no_submission_while_undecided s e s' subs : Inv s -> step s e = (s', subs) -> subs <> [] -> all_closed (agg s).
Proof. apply no_submission_while_undecided_gen. Qed.
Theorem submissions_well_formed s e s' subs : Inv s -> step s e = (s', subs) ->
  subs = [] \/ exists sb rc, subs = [sb] /\ built_ok (tick_state s) sb rc /\
                            rows s' = replace_top (rows (tick_state s)) (sub_row sb rc).
Proof. apply step_gen_submissions, build_builder_ok. Qed.

(* when a tick goes on to build, the local table it builds from agrees with the Agglayer on every certificate's status:
   "last settled" / "in error" in sub_ok are the Agglayer's verdicts, not stale local ones *)
Theorem local_view_is_agglayer_view s sb rc : Inv s -> built_ok s sb rc ->
  forall r, In r (rows s) -> exists c, In c (agg s) /\ a_id c = cid r /\ a_height c = height r /\ a_st c = st r.
Proof.
  intros (Hh & Hcfg & Hc & Ha) (Hso & _) r Hr.
  destruct (ag_rows s Ha r Hr) as (c & Hin & Hid & Hhh & Hlag). exists c. repeat split; try assumption.
  symmetry. apply Hlag. destruct (rows s) as [|top rest] eqn:Er; [destruct Hr|].
  destruct Hr as [<-|Hr].
  - cbn [sub_ok] in Hso. destruct Hso as [(E & _)|(E & _)]; rewrite E; reflexivity.
  - rewrite (chain_ok_below_settled _ _ _ _ Hc r Hr). reflexivity.
Qed.

(* ---------------- the settled certificates cover every exit exactly once, in chain order ---------------- *)
Definition top_to (rs : list rowT) : N := match rs with [] => start_block | r :: _ => to r end.

Lemma concat_map_snoc {A B} (f : A -> list B) l x : concat (map f (l ++ [x])) = concat (map f l) ++ f x.
Proof. rewrite map_app, concat_app. cbn. rewrite app_nil_r. reflexivity. Qed.

(* first block the table accounts for: the lowest row's (StartL2Block+1 for the empty table) *)
Definition base_from (rs : list rowT) : N := match last_opt rs with Some r => from r | None => start_block + 1 end.

Lemma chain_concat l sy rs : sorted l -> chain_ok l sy rs ->
  concat (map r_exits (rev rs)) = bridges_in l (base_from rs) (top_to rs) /\
  concat (map r_imported (rev rs)) = claims_in l (base_from rs) (top_to rs) /\
  base_from rs <= top_to rs + 1.
Proof.
  intros Hs. induction 1 as [|r Hbase (H1 & H2 & H3 & H4 & H5 & H6 & H7)|r r' t Hc IH Hst Hh Hf Hp (H1 & H2 & H3 & H4 & H5 & H6 & H7)].
  - unfold base_from. cbn [rev map concat top_to last_opt]. rewrite bridges_empty_range, claims_empty_range by lia. repeat split; lia.
  - unfold base_from. cbn [rev map concat top_to app last_opt]. rewrite !app_nil_r, H6, H7. repeat split; lia.
  - destruct IH as (IH1 & IH2 & IH3).
    assert (Eb : base_from (r :: r' :: t) = base_from (r' :: t)) by reflexivity. rewrite Eb. cbn [top_to] in *.
    change (rev (r :: r' :: t)) with (rev (r' :: t) ++ [r]). rewrite !concat_map_snoc, IH1, IH2, H6, H7.
    rewrite (bridges_split bev cev l (base_from (r' :: t)) (to r') (to r) Hs) by lia.
    rewrite (claims_split bev cev l (base_from (r' :: t)) (to r') (to r) Hs) by lia. rewrite Hf. repeat split; lia.
Qed.

Lemma filter_all_true {A} (p : A -> bool) l : (forall x, In x l -> p x = true) -> filter p l = l.
Proof.
  induction l as [|x l IH]; intros H; [reflexivity|]. cbn [filter]. rewrite (H x (or_introl eq_refl)), IH; [reflexivity|].
  intros y Hy. apply H. right. exact Hy.
Qed.

(* block up to which certificates are settled (locally recorded) *)
Definition settled_to (rs : list rowT) : N := top_to (filter (fun r => is_settled (st r)) rs).

(* the table reaches down to the first certificate (always, unless the database was lost) *)
Definition origin (rs : list rowT) : Prop := match last_opt rs with Some r => height r = 0 | None => True end.
Lemma base_from_origin l sy rs : chain_ok l sy rs -> origin rs -> base_from rs = start_block + 1.
Proof.
  unfold origin, base_from. induction 1 as [|r Hbase Hr|r r' t Hc IH Hst Hh Hf Hp Hr]; cbn [last_opt]; intros Ho; [reflexivity| |].
  - apply Hbase, Ho.
  - apply IH. exact Ho.
Qed.

Theorem settled_exactly_once s : Inv s ->
  concat (map r_exits (settled_rows (rows s))) = bridges_in (l2 s) (base_from (rows s)) (settled_to (rows s)) /\
  concat (map r_imported (settled_rows (rows s))) = claims_in (l2 s) (base_from (rows s)) (settled_to (rows s)).
Proof.
  intros (Hh & Hcfg & Hc & _). unfold settled_rows, settled_to. pose proof (h_sorted s Hh) as Hs.
  destruct (rows s) as [|top rest] eqn:Er.
  - cbn [filter]. destruct (chain_concat (l2 s) (synced s) [] Hs (ok_nil _ _)) as (A & B & _). split; assumption.
  - assert (Hrest : filter (fun r => is_settled (st r)) rest = rest).
    { apply filter_all_true. intros x Hx. rewrite (chain_ok_below_settled _ _ _ _ Hc x Hx). reflexivity. }
    cbn [filter]. rewrite Hrest. destruct (is_settled (st top)).
    + destruct (chain_concat (l2 s) (synced s) _ Hs Hc) as (A & B & _). split; assumption.
    + destruct rest as [|r' t].
      * pose proof (chain_ok_head_row _ _ _ _ Hc) as (G1 & _). unfold base_from. cbn [rev map concat top_to last_opt].
        rewrite bridges_empty_range, claims_empty_range by lia. split; reflexivity.
      * destruct (chain_concat (l2 s) (synced s) _ Hs (chain_ok_tail _ _ _ _ Hc)) as (A & B & _). split; assumption.
Qed.

(* [origin] is kept by every event (any builder that is builder_ok): only a lost database removes the lower rows *)
Lemma last_opt_map {A B} (f : A -> B) l : last_opt (map f l) = option_map f (last_opt l).
Proof. induction l as [|x l IH]; [reflexivity|]. cbn [map last_opt]. destruct l as [|y l]; [reflexivity|]. exact IH. Qed.
Lemma poll_heights failing a (rs : list rowT) : map height (fst (poll_pending failing a rs)) = map height rs.
Proof.
  induction rs as [|r t IH]; [reflexivity|]. cbn [poll_pending]. destruct (poll_pending failing a t) as [t' res]. cbn [fst] in IH.
  destruct res as [|p e called]; [cbn [fst map]; rewrite IH; reflexivity|].
  destruct (is_open (st r)); [|cbn [fst map]; rewrite IH; reflexivity].
  destruct (failing && negb called); [cbn [fst map]; rewrite IH; reflexivity|].
  destruct (agg_status a (cid r)); cbn [fst map height]; rewrite IH; reflexivity.
Qed.
Definition origin_h (hs : list N) : Prop := match last_opt hs with Some h => h = 0 | None => True end.
Lemma origin_heights rs : origin rs <-> origin_h (map height rs).
Proof. unfold origin, origin_h. rewrite last_opt_map. destruct (last_opt rs); cbn; tauto. Qed.

Lemma origin_step_gen bld s e : builder_ok bld -> Inv s -> origin (rows s) -> origin (rows (fst (step_gen bld s e))).
Proof.
  intros Hb HI Ho. destruct (step_gen bld s e) as [s' subs] eqn:Hs. cbn [fst].
  assert (Ht : origin (rows (tick_state s))).
  { apply origin_heights. unfold tick_state. destruct (poll_pending (fail_next s) (agg s) (rows s)) as [rs res] eqn:Hp.
    cbn [set_rows_fail rows]. replace rs with (fst (poll_pending (fail_next s) (agg s) (rows s))) by (rewrite Hp; reflexivity).
    rewrite poll_heights. apply origin_heights, Ho. }
  destruct (step_gen_submissions bld Hb s e s' subs HI Hs) as [He|(sb & rc & _ & Hk & Hr)].
  - (* nothing submitted: the table is the old one or the refreshed one *)
    destruct e as [skip bs cs|cut|cut|id x|]; cbn [AggsenderProtocol.step_gen] in Hs.
    + destruct (valid_dcs (N.of_nat (length (roots s))) bs); [destruct (add_leaves (tr s) (roots s) bs)|]; inversion Hs; subst; exact Ho.
    + unfold tick_state in Ht. destruct (poll_pending (fail_next s) (agg s) (rows s)) as [rs res].
      destruct (cp_pending res); [inversion Hs; subst; exact Ht|].
      unfold send_with in Hs. destruct (bld _ cut) as [[sb rc]|]; [|inversion Hs; subst; exact Ht].
      destruct (fail_next _); inversion Hs; subst; [exact Ht|discriminate].
    + unfold tick_state in Ht. destruct (poll_pending (fail_next s) (agg s) (rows s)) as [rs res].
      destruct (negb (cp_pending res) && cp_newerr res && retry_immediately); [|inversion Hs; subst; exact Ht].
      unfold send_with in Hs. destruct (bld _ cut) as [[sb rc]|]; [|inversion Hs; subst; exact Ht].
      destruct (fail_next _); inversion Hs; subst; [exact Ht|discriminate].
    + destruct (agg_status (agg s) id) as [cur|]; [destruct (valid_move cur x)|]; inversion Hs; subst; exact Ho.
    + inversion Hs; subst; exact Ho.
  - rewrite Hr. destruct Hk as (Hso & _). unfold origin in *.
    destruct (rows (tick_state s)) as [|top rest]; cbn [replace_top sub_ok] in *.
    + cbn [last_opt sub_row height]. apply Hso.
    + destruct (height top =? height (sub_row sb rc)) eqn:E.
      * destruct rest as [|r' t]; cbn [last_opt] in *; [|exact Ht]. apply N.eqb_eq in E. cbn [sub_row height] in *. lia.
      * cbn [last_opt] in *. exact Ht.
Qed.

Lemma origin_run s0 evs : Init s0 -> origin (rows (run s0 evs)).
Proof.
  intros Hi. assert (H : Inv s0 /\ origin (rows s0)).
  { split; [apply Inv_init, Hi|]. destruct Hi as (_ & _ & Hr & _). rewrite Hr. exact I. }
  clear Hi. unfold AggsenderProtocol.run. revert s0 H. induction evs as [|e evs IH]; intros s [HI Ho]; cbn [fold_left]; [exact Ho|].
  apply IH. split; [apply step_preserves_Inv; exact HI|]. apply (origin_step_gen build s e build_builder_ok HI Ho).
Qed.

(* C03, abstract tree form: previous LER = root of the tree before the first deposit of the range,
   new LER = root of that tree with the certificate's exits appended in order *)
Lemma built_roots s sb rc : Inv s -> built_ok s sb rc ->
  let pre := leaves_upto (l2 s) (s_from sb - 1) in
  s_prev sb = root_of pre /\ s_new sb = root_of (pre ++ map b_leaf (s_exits sb)).
Proof.
  intros (Hh & Hcfg & Hc & _) (Hso & _ & _ & H4 & H5 & H6 & _ & H8 & H9 & _).
  split; [exact H8|]. rewrite H9, H6. f_equal. apply leaves_upto_split; [apply (h_sorted s Hh)| |lia].
  destruct (rows s) as [|top rest]; cbn [sub_ok] in Hso; [lia|].
  pose proof (chain_ok_head_row _ _ _ _ Hc) as (G1 & G2 & _). destruct Hso as [(_ & _ & _ & ->)|(_ & _ & _ & -> & _)]; lia.
Qed.
Theorem cert_root_consistent s cut sb rc : Inv s -> build s cut = Some (sb, rc) ->
  let pre := leaves_upto (l2 s) (s_from sb - 1) in
  s_prev sb = root_of pre /\ s_new sb = root_of (pre ++ map b_leaf (s_exits sb)).
Proof.
  intros HI Hb. apply (built_roots s sb rc HI). destruct HI as (Hh & Hcfg & Hc & _). exact (build_ok s cut sb rc Hh Hcfg Hc Hb).
Qed.

(* C03: the exits are exactly the events of the range, in chain order (no invariant needed) *)
Theorem exits_are_range_events s cut sb rc : build s cut = Some (sb, rc) ->
  s_exits sb = bridges_in (l2 s) (s_from sb) (s_to sb) /\ s_imported sb = claims_in (l2 s) (s_from sb) (s_to sb) /\
  s_meta sb = (s_from sb, u64_sub (s_to sb) (s_from sb) mod 2^32, cert_type).
Proof.
  unfold AggsenderProtocol.build. destruct (last_sent_block (hd_error (rows s))) as [prev_to rc0].
  destruct (synced s <=? prev_to); [discriminate|]. unfold AggsenderProtocol.build_range.
  destruct (synced s <? _); [discriminate|].
  destruct (require_events && _ && _); [discriminate|]. destruct (_ && _); [discriminate|].
  destruct (next_height_ler _) as [[h p]|]; [|discriminate]. destruct (new_ler _ _ _); [|discriminate].
  intros H; inversion H; subst. cbn. repeat split; reflexivity.
Qed.

(* ---------------- aggchain-prover (FEP) flow: the prover is an arbitrary oracle ---------------- *)
(* The end block the prover answers with is used only if it lies inside the requested range (adjustBlockRange ->
   Range refuses anything else), so no assumption on the oracle is needed. *)
Section Fep.
Variable prover : N -> N -> option N.
Variable has_proof : bool.
Notation build_fep := (build_fep hash bev cev b_dc tree start_block start_ler require_events cert_type prover has_proof).

Lemma via_prover_ok s rc f t sb rc' :
  hist_ok s -> cfg_ok s -> chain_ok (l2 s) (synced s) (rows s) -> t <= synced s -> range_start (rows s) f rc ->
  match prover (f - 1) t with
  | None => None
  | Some e => if (f <=? e) && (e <=? t) then build_range s (hd_error (rows s)) rc f e else None
  end = Some (sb, rc') -> built_ok s sb rc'.
Proof.
  intros Hh Hcfg Hc Hts Hst Hb. destruct (prover (f - 1) t) as [e|]; [|discriminate].
  destruct ((f <=? e) && (e <=? t)) eqn:He; [|discriminate]. apply andb_true_iff in He as [He1 He2].
  apply N.leb_le in He1, He2.
  destruct (build_range_ok s rc f e sb rc' Hh Hcfg Hc) as (H1 & H2 & H3 & H4 & H5 & H6 & H7 & H8 & H9 & H10 & H11); try lia; try assumption.
  unfold built_ok. rewrite H4, H5. repeat split; try assumption; lia.
Qed.

Theorem build_fep_builder_ok : builder_ok build_fep.
Proof.
  intros s cut sb rc Hh Hcfg Hc Hb. unfold AggsenderProtocol.build_fep in Hb.
  destruct (rows s) as [|top rest] eqn:Er; cbn [hd_error] in Hb.
  - destruct (last_sent_block None) as [prev_to rc0] eqn:El.
    destruct (synced s <=? prev_to) eqn:Hs; [discriminate|]. apply N.leb_gt in Hs.
    assert (Hst : range_start (rows s) (prev_to + 1) rc0).
    { rewrite Er. apply (last_sent_block_start (l2 s) (synced s) []); [constructor|exact El]. }
    apply (via_prover_ok s rc0 (prev_to + 1) (N.max (prev_to + 1) (synced s - cut)) sb rc Hh Hcfg); rewrite ?Er; try assumption; try lia.
    rewrite Er in Hst. exact Hst.
  - pose proof (chain_ok_head_row _ _ _ _ Hc) as (Hr1 & Hr2 & Hr3 & _).
    destruct (is_in_error (st top)) eqn:Ee.
    + assert (Hst : range_start (top :: rest) (from top) (retry top + 1)).
      { cbn [range_start]. split; [intros _; split; [reflexivity|lia]|]. intros Hne. destruct (st top); cbn in Ee; congruence. }
      destruct has_proof.
      * rewrite <- Er in Hc.
        destruct (build_range_ok s (retry top + 1) (from top) (to top) sb rc Hh Hcfg Hc) as
          (H1 & H2 & H3 & H4 & H5 & H6 & H7 & H8 & H9 & H10 & H11); rewrite ?Er; try assumption; try lia.
        unfold built_ok. rewrite H4, H5, Er in *. repeat split; try assumption; lia.
      * rewrite <- Er in Hc. apply (via_prover_ok s (retry top + 1) (from top) (to top) sb rc Hh Hcfg Hc); rewrite ?Er; assumption.
    + destruct (last_sent_block (Some top)) as [prev_to rc0] eqn:El.
      destruct (synced s <=? prev_to) eqn:Hs; [discriminate|]. apply N.leb_gt in Hs.
      pose proof (last_sent_block_start (l2 s) (synced s) (top :: rest) prev_to rc0 Hc El) as Hst.
      rewrite <- Er in Hc.
      apply (via_prover_ok s rc0 (prev_to + 1) (N.max (prev_to + 1) (synced s - cut)) sb rc Hh Hcfg Hc); rewrite ?Er; try assumption; lia.
Qed.

Notation step_fep := (step_gen build_fep).
Theorem step_preserves_Inv_fep_partial s e : Inv s -> Inv (fst (step_fep s e)).
Proof. apply step_gen_preserves_Inv, build_fep_builder_ok. Qed.
Theorem reachable_Inv_fep_partial s0 evs : Init s0 -> Inv (run_gen build_fep s0 evs).
Proof. intros H. apply (reachable_Inv_gen build_fep build_fep_builder_ok), Inv_init, H. Qed.
Theorem no_submission_while_undecided_fep_partial s e s' subs : Inv s -> step_fep s e = (s', subs) -> subs <> [] -> all_closed (agg s).
Proof. apply no_submission_while_undecided_gen. Qed.
Theorem submissions_well_formed_fep_partial s e s' subs : Inv s -> step_fep s e = (s', subs) ->
  subs = [] \/ exists sb rc, subs = [sb] /\ built_ok (tick_state s) sb rc /\
                            rows s' = replace_top (rows (tick_state s)) (sub_row sb rc).
Proof. apply step_gen_submissions, build_fep_builder_ok. Qed.
(* C03 for the aggchain-prover flow's builder *)
Theorem cert_root_consistent_fep_partial s cut sb rc : Inv s -> build_fep s cut = Some (sb, rc) ->
  let pre := leaves_upto (l2 s) (s_from sb - 1) in
  (s_prev sb = root_of pre /\ s_new sb = root_of (pre ++ map b_leaf (s_exits sb))) /\
  s_exits sb = bridges_in (l2 s) (s_from sb) (s_to sb) /\ s_imported sb = claims_in (l2 s) (s_from sb) (s_to sb) /\
  s_meta sb = (s_from sb, u64_sub (s_to sb) (s_from sb) mod 2^32, cert_type).
Proof.
  intros HI Hb. pose proof HI as (Hh & Hcfg & Hc & _).
  pose proof (build_fep_builder_ok s cut sb rc Hh Hcfg Hc Hb) as Hk. split; [exact (built_roots s sb rc HI Hk)|].
  destruct Hk as (_ & _ & _ & _ & _ & H6 & H7 & _ & _ & H10). auto.
Qed.
End Fep.
End Theory.

(* ------------------------------------------------------------------------------------------ *)
(* instances of the tree hypotheses                                                             *)
(* ------------------------------------------------------------------------------------------ *)
(* the reference tree (the list of leaves itself) meets them, for every root function: the theory is not vacuous *)
Lemma ref_tree_repr {hash} (root_of : list hash -> hash) t x : (fun l : list hash => l) (fst (ref_add hash root_of t x)) = t ++ [x].
Proof. reflexivity. Qed.
Lemma ref_tree_root {hash} (root_of : list hash -> hash) t x : snd (ref_add hash root_of t x) = root_of (t ++ [x]).
Proof. reflexivity. Qed.

(* ------------------------------------------------------------------------------------------ *)
(* C03 with the frontier algorithm: appending the exits' hashes to ANY frontier that represents     *)
(* the tree with root prevLER yields newLER (generic hash; C01's L-frontier)                        *)
(* ------------------------------------------------------------------------------------------ *)
Local Close Scope N_scope.
Section FrontierForm.
Context {hash : Type}.
Variable node : hash -> hash -> hash.
Variable z0 : hash.
Variable H : nat.                       (* tree height, 32 in the code *)

Lemma sub_ext f g : (forall h k n, (forall i, i < n -> f i = g i) -> sub node z0 f h k n = sub node z0 g h k n).
Proof.
  induction h as [|h IH]; intros k n E; cbn [sub].
  - destruct (k <? n) eqn:Hk; [apply E; apply Nat.ltb_lt; exact Hk|reflexivity].
  - rewrite (IH (2 * k) n E), (IH (2 * k + 1) n E). reflexivity.
Qed.

(* root of the depth-H tree holding exactly the leaves ls *)
Definition mroot_of (ls : list hash) : hash := mroot node z0 (fun i => nth i ls z0) H (length ls).

(* AddLeaf for each leaf in turn, starting at index n; returns the last root and the frontier *)
Fixpoint append_all (n : nat) (c : cache) (ls : list hash) (last : hash) : hash * cache :=
  match ls with
  | [] => (last, c)
  | x :: t => let '(r, c') := add_leaf node (zero node z0) H (Nat.testbit n) x c in append_all (S n) c' t r
  end.

Lemma append_all_root f : forall ls n c last, CacheInv node z0 f H n c -> n + length ls <= 2 ^ H ->
  (forall i, i < length ls -> nth i ls z0 = f (n + i)) -> ls <> [] ->
  fst (append_all n c ls last) = mroot node z0 f H (n + length ls).
Proof.
  induction ls as [|x t IH]; intros n c last Hinv Hn Hf Hne; [congruence|]. cbn [append_all length] in *.
  assert (Ex : x = f n) by (specialize (Hf 0 ltac:(lia)); cbn in Hf; rewrite Nat.add_0_r in Hf; exact Hf).
  destruct (add_leaf node (zero node z0) H (Nat.testbit n) x c) as [r c'] eqn:Ea.
  assert (Er : r = mroot node z0 f H (S n)).
  { pose proof (go_root_any_cache node z0 f H n c ltac:(lia) Hinv) as G. cbn beta in G. rewrite <- Ex, Ea in G. exact G. }
  assert (Hinv' : CacheInv node z0 f H (S n) c').
  { pose proof (add_leaf_preserves node z0 f H n c Hinv (high_bits_zero node f H n ltac:(lia))) as G.
    cbn beta in G. rewrite <- Ex, Ea in G. exact G. }
  destruct t as [|y t'].
  - cbn [append_all fst length]. rewrite Er. f_equal. lia.
  - rewrite (IH (S n) c' r Hinv'); [f_equal; cbn [length]; lia|cbn [length] in *; lia| |discriminate].
    intros i Hi. specialize (Hf (S i) ltac:(cbn [length] in *; lia)). change (nth (S i) (x :: y :: t') z0) with (nth i (y :: t') z0) in Hf. rewrite Hf. f_equal. lia.
Qed.

Lemma mroot_of_app_prefix pre ex : mroot node z0 (fun i => nth i (pre ++ ex) z0) H (length pre) = mroot_of pre.
Proof. unfold mroot_of, mroot. apply sub_ext. intros i Hi. apply app_nth1. exact Hi. Qed.

(* the tree "with root prevLER" is any frontier c satisfying the frontier invariant at the number of leaves before
   the range (one exists: the C01 frontier-invariant theorems); appending the exits' leaf hashes gives newLER *)
Theorem frontier_append_is_new_root pre ex c :
  CacheInv node z0 (fun i => nth i (pre ++ ex) z0) H (length pre) c -> length pre + length ex <= 2 ^ H ->
  fst (append_all (length pre) c ex (mroot_of pre)) = mroot_of (pre ++ ex).
Proof.
  intros Hinv Hn. destruct ex as [|x t].
  - cbn [append_all fst]. rewrite app_nil_r. reflexivity.
  - rewrite (append_all_root (fun i => nth i (pre ++ x :: t) z0)); try assumption; [|intros i Hi; symmetry; apply app_nth2_plus|discriminate].
    unfold mroot_of. rewrite app_length. reflexivity.
Qed.
End FrontierForm.
Open Scope N_scope.

Section FrontierCert.
Variable hash : Type.
Variables bev cev : Type.
Variable b_leaf : bev -> hash.
Variable b_dc : bev -> N.
Variable tree : Type.
Variable t_add : tree -> hash -> tree * hash.
Variable retry_immediately : bool.
Variable start_block : N.
Variable start_ler : hash.
Variable require_events : bool.
Variable cert_type : N.
Variable repr : tree -> list hash.
Variable node : hash -> hash -> hash.
Variable z0 : hash.
Variable H : nat.
Notation root_of := (mroot_of node z0 H).
Hypothesis t_add_repr : forall t x, repr (fst (t_add t x)) = repr t ++ [x].
Hypothesis t_add_root : forall t x, snd (t_add t x) = root_of (repr t ++ [x]).

(* C03, first sentence, algorithmic form *)
Theorem cert_root_consistent_frontier s cut sb rc :
  Inv hash bev cev b_leaf b_dc tree start_block start_ler repr root_of s ->
  build hash bev cev b_dc tree start_block start_ler require_events cert_type s cut = Some (sb, rc) ->
  let pre := leaves_upto hash bev cev b_leaf (l2 s) (s_from sb - 1) in
  let ex := map b_leaf (s_exits sb) in
  forall c, CacheInv node z0 (fun i => nth i (pre ++ ex) z0) H (length pre) c -> (length pre + length ex <= 2 ^ H)%nat ->
  s_prev sb = root_of pre /\ fst (append_all node z0 H (length pre) c ex (s_prev sb)) = s_new sb.
Proof.
  intros HI Hb pre ex c Hinv Hn.
  destruct (cert_root_consistent hash bev cev b_leaf b_dc tree t_add start_block start_ler require_events cert_type
              repr root_of t_add_repr t_add_root s cut sb rc HI Hb) as [Hp Hnew].
  fold pre in Hp, Hnew. fold ex in Hnew. split; [exact Hp|]. rewrite Hp, Hnew.
  apply frontier_append_is_new_root; assumption.
Qed.
End FrontierCert.

(* ------------------------------------------------------------------------------------------ *)
(* C03: the Agglayer-side leaf hash of a converted exit is the bridge syncer's leaf (byte level)  *)
(* ------------------------------------------------------------------------------------------ *)
Lemma conv_meta_eff m : meta_eff keccakN (conv_meta m) = keccak_bytes m.
Proof.
  destruct m as [|x m]; unfold conv_meta, meta_eff.
  - unfold empty_bytes_hash, Commitment.H. rewrite fbe_be. apply keccakN_bytes.
  - destruct (keccak_bytes (x :: m)) as [|y l] eqn:E; [|reflexivity].
    pose proof (keccak_bytes_length (x :: m)) as Hl. rewrite E in Hl. discriminate.
Qed.

(* BridgeExit.Hash() of getBridgeExits(bridge) = Bridge.Hash(): same preimage, byte for byte.
   (Amount: BigToHash and FillBytes agree below 2^256, the range of the contract's uint256; the model writes both
   as the 32-byte big-endian encoding.) *)
Theorem exit_hash_eq_bridge_hash b : exit_preimage keccakN (to_exit b) = bridge_leaf_preimage b /\
  exit_hash keccakN (to_exit b) = be 32 (bridge_leaf b).
Proof.
  assert (E : exit_preimage keccakN (to_exit b) = bridge_leaf_preimage b).
  { unfold exit_preimage, bridge_leaf_preimage, to_exit.
    cbn [x_leaf_type x_orig_net x_orig_addr x_dest_net x_dest_addr x_amount x_metadata amount_val].
    rewrite !fbe_be, !be_fast_eq, conv_meta_eff. reflexivity. }
  split; [exact E|]. unfold exit_hash, Commitment.H, bridge_leaf. rewrite E, fbe_be. reflexivity.
Qed.

(* the imported exit built from a claim keeps every field; its global index is the decoded on-chain number *)
Lemma to_imported_fields c :
  let '(x, gi) := to_imported c in
  x_orig_net x = c_onet c /\ x_orig_addr x = c_oaddr c /\ x_dest_net x = c_dnet c /\ x_dest_addr x = c_daddr c /\
  x_amount x = Some (c_amount c) /\ x_leaf_type x = (if c_is_msg c then 1 else 0) /\
  meta_eff keccakN (x_metadata x) = keccak_bytes (c_meta c) /\ gi = GlobalIndex.decode (c_gi c).
Proof. unfold to_imported. cbn [x_orig_net x_orig_addr x_dest_net x_dest_addr x_amount x_leaf_type x_metadata]. repeat split. apply conv_meta_eff. Qed.

(* ------------------------------------------------------------------------------------------ *)
(* C03: the metadata encodes the block range                                                     *)
(* ------------------------------------------------------------------------------------------ *)
Theorem metadata_roundtrip from to created ty :
  from <= to -> to < 2^64 -> to - from < 2^32 -> created < 2^32 -> ty < 256 ->
  meta_of ty from to = (m_from (new_metadata from to created ty), m_offset (new_metadata from to created ty), m_ctype (new_metadata from to created ty)) /\
  exists m, meta_decode (meta_encode (new_metadata from to created ty)) = Some m /\
            m_from m = from /\ m_from m + m_offset m = to /\ m_created m = created /\ m_ctype m = ty.
Proof.
  intros H1 H2 H3 H4 H5. split; [reflexivity|]. unfold new_metadata.
  rewrite (u64_sub_small from to H1 H2), (N.mod_small _ _ H3).
  rewrite meta_roundtrip_l; auto; [|lia]. eexists. split; [reflexivity|].
  cbn [m_from m_offset m_created m_ctype N.eqb Pos.eqb]. repeat split. lia.
Qed.

(* ------------------------------------------------------------------------------------------ *)
(* a concrete instance for the non-vacuity examples: reference tree with a toy root function,     *)
(* events = (deposit count, leaf), claims = tags                                                *)
(* ------------------------------------------------------------------------------------------ *)
Definition demo_root (l : list N) : N := fold_left (fun a x => a * 31 + x + 1) l 7.
Definition demo_state := state N (N * N) N (list N).
Definition demo_empty : demo_state := State [] 0 [] [] [] [] 0 false.
Definition demo_step (retry : bool) : demo_state -> event (N * N) N -> demo_state * list (submission N (N * N) N) :=
  step N (N * N) N snd fst (list N) (ref_add N demo_root) retry 0 (demo_root []) true 1.
Definition demo_run_from (retry : bool) := run_from N (N * N) N snd fst (list N) (ref_add N demo_root) retry 0 (demo_root []) true 1.
Definition demo_run (retry : bool) := run N (N * N) N snd fst (list N) (ref_add N demo_root) retry 0 (demo_root []) true 1.
(* two deposits and a claim; certificate 0 goes InError and is replaced at once; the replacement settles; a second
   block; the next epoch submits height 1 *)
Definition demo_schedule : list (event (N * N) N) :=
  [NewBlock 0 [(0, 11); (1, 12)] [7]; EpochTick 0; AggMove 0 InError; StatusTick 0;
   AggMove 1 Proven; AggMove 1 Candidate; AggMove 1 Settled; NewBlock 1 [(2, 13)] []; EpochTick 0].

Lemma demo_init : Init N (N * N) N snd fst (list N) 0 (demo_root []) (fun l => l) demo_root demo_empty.
Proof.
  split; [|split; [|split]]; try reflexivity.
  - constructor; cbn; try reflexivity; constructor.
  - split; [cbn; lia|reflexivity].
Qed.

(* ------------------------------------------------------------------------------------------ *)
(* Restarts in the theorems (exit roots = numbers, as in Reconcile.v; payloads and tree generic).  *)
(* The start-up reconciliation is Model/Reconcile.v's [recover]; its behaviour on the store shapes  *)
(* that occur is taken from Proofs/ReconcileProofs.v (C13), not re-proved.                          *)
(* ------------------------------------------------------------------------------------------ *)
Section RestartTheory.
Variables bev cev : Type.
Variable b_leaf : bev -> N.
Variable b_dc : bev -> N.
Variable tree : Type.
Variable t_add : tree -> N -> tree * N.
Variable retry_immediately : bool.
Variable start_block : N.
Variable start_ler : N.
Variable require_events : bool.
Variable cert_type : N.
Variable repr : tree -> list N.
Variable root_of : list N -> N.
Hypothesis t_add_repr : forall t x, repr (fst (t_add t x)) = repr t ++ [x].
Hypothesis t_add_root : forall t x, snd (t_add t x) = root_of (repr t ++ [x]).

Notation rstateT := (rstate bev cev tree).
Notation rowT := (row N bev cev).
Notation InvN := (Inv N bev cev b_leaf b_dc tree start_block start_ler repr root_of).
Notation chainN := (chain_ok N bev cev b_leaf start_block start_ler root_of).
Notation rowokN := (row_ok N bev cev b_leaf start_block root_of).
(* Agglayer headers carrying prev_local_exit_root *)
Notation recover_x := (recover_x bev cev tree cert_type true).
Notation view_of := (view_of cert_type true).
Notation hdr_of := (hdr_of cert_type true).

(* what the restart theorems need beyond Inv: the Agglayer's record of every local certificate has the row's range
   and exit roots; the newest certificate at the Agglayer is the top row's (no crash in flight); numbers fit the
   database and the metadata; every row stores its previous LER *)
Definition info_ok (rs : rstateT) : Prop := forall r, In r (rows (xr_core rs)) ->
  exists i, find (fun i => xi_id i =? cid r) (xr_info rs) = Some i /\
            xi_from i = from r /\ xi_to i = to r /\ xi_prev i = prev r /\ xi_new i = new r.
Definition head_ok (rs : rstateT) : Prop :=
  match agg (xr_core rs), rows (xr_core rs) with
  | c :: _, r :: _ => a_id c = cid r
  | [], [] => True
  | _, _ => False
  end.
Definition bounded (rs : rstateT) : Prop :=
  synced (xr_core rs) < 2^63 /\ cert_type < 256 /\
  forall r, In r (rows (xr_core rs)) -> height r < 2^63 /\ to r - from r < 2^32 /\ r_hasprev r = true.
Definition RInv (rs : rstateT) : Prop := InvN (xr_core rs) /\ info_ok rs /\ head_ok rs /\ bounded rs.

Lemma chain_base0 l sy (top : rowT) t : chainN l sy (top :: t) -> height top = 0 -> from top = start_block + 1 /\ prev top = start_ler.
Proof. inversion 1 as [|r Hb Hr|r r' t' Hc Hst Hh Hf Hp Hr]; subst; intros H0; [apply Hb, H0|lia]. Qed.

Lemma latest_view info c rest : latest (view_of info (c :: rest)) = Some (hdr_of info c).
Proof.
  unfold latest, latest_of, AggsenderProtocol.view_of. cbn [a_settled a_pending find].
  destruct (is_settled (a_st c)); reflexivity.
Qed.

(* the Agglayer's header of the top row's certificate decodes to the row's fields *)
Lemma header_of_top rs top t c rest : RInv rs -> rows (xr_core rs) = top :: t -> agg (xr_core rs) = c :: rest ->
  exists r', row_of_header (hdr_of (xr_info rs) c) = Ok r' /\ sql_u64_ok r' = true /\
    r_height r' = height top /\ r_id r' = cid top /\ r_status r' = a_st c /\ r_prev_ler r' = Some (prev top) /\
    r_new_ler r' = new top /\ r_from r' = from top /\ r_to r' = to top.
Proof.
  intros ((Hh & Hcfg & Hc & Ha) & Hi & Hhd & (Hsy & Hct & Hb)) Er Ea.
  unfold head_ok in Hhd. rewrite Er, Ea in Hhd. rewrite Er in Hc.
  destruct (Hi top) as (i & Hf & I1 & I2 & I3 & I4); [rewrite Er; left; reflexivity|].
  destruct (Hb top) as (B1 & B2 & B3); [rewrite Er; left; reflexivity|].
  pose proof (chain_ok_head_row _ _ _ _ _ _ _ _ _ _ _ Hc) as (G1 & G2 & G3 & _).
  destruct (ag_rows _ _ _ _ _ Ha top) as (c' & Hin & Hid & Hhh & _); [rewrite Er; left; reflexivity|].
  assert (c' = c).
  { apply (nodup_same_id (agg (xr_core rs))); [apply (ag_nodup _ _ _ _ _ Ha)|exact Hin|rewrite Ea; left; reflexivity|congruence]. }
  subst c'.
  set (l := hdr_of (xr_info rs) c).
  assert (Hm : h_meta l = meta_encode (new_metadata (from top) (to top) 0 cert_type)).
  { unfold l, AggsenderProtocol.hdr_of. rewrite Hhd, Hf. cbn [h_meta]. rewrite I1, I2. reflexivity. }
  destruct (row_of_header_range_l l (from top) (to top) 0 cert_type Hm) as (r' & Hr' & F1 & F2 & _); try lia.
  destruct (row_of_header_fields l r' Hr') as (R1 & R2 & R3 & R4 & R5 & _).
  exists r'. split; [exact Hr'|].
  assert (Hl : h_height l = a_height c /\ h_id l = cid top /\ h_status l = a_st c /\ h_prev_ler l = Some (prev top) /\ h_new_ler l = new top).
  { unfold l, AggsenderProtocol.hdr_of. rewrite Hhd, Hf. cbn. rewrite I3, I4. auto. }
  destruct Hl as (L1 & L2 & L3 & L4 & L5).
  split.
  - unfold sql_u64_ok. rewrite R1, L1, Hhh, F1, F2. apply andb_true_iff; split; [apply andb_true_iff; split|]; apply N.ltb_lt; lia.
  - rewrite R1, R2, R3, R4, R5, L1, L2, L3, L4, L5, Hhh. auto 10.
Qed.

(* RESTART WITH THE DATABASE LOST (Agglayer headers carrying prev_local_exit_root): the reconciliation rebuilds the
   latest certificate's row from the Agglayer's header and the rebuilt one-row table satisfies Inv again (a table
   whose base is not the first certificate), the node is not refused. Hypothesis [Hview]: the Agglayer's view is
   well-formed in the sense of C13 (latest pending above latest settled); deriving it from the protocol needs an
   Agglayer-side height invariant that Inv does not carry (the missing lemma, see Properties/C02.v). *)
Theorem restart_lost_preserves_Inv rs : RInv rs -> Reconcile.agg_ok (view_of (xr_info rs) (agg (xr_core rs))) ->
  InvN (xr_core (recover_x true rs)) /\ xr_recovering (recover_x true rs) = false.
Proof.
  intros HR Hview. pose proof HR as ((Hh & Hcfg & Hc & Ha) & Hi & Hhd & Hb).
  unfold AggsenderProtocol.recover_x. cbn match.
  destruct (agg (xr_core rs)) as [|c rest] eqn:Ea.
  - (* nothing at the Agglayer: nothing local either *)
    unfold head_ok in Hhd. rewrite Ea in Hhd. destruct (rows (xr_core rs)) as [|r t] eqn:Er; [|contradiction].
    rewrite (recover_nothing false _ [] Hview) by reflexivity. cbn [s_info sort_by_height fold_right rev map refused xr_core xr_recovering].
    split; [|reflexivity]. split; [apply hist_ok_frame; exact Hh|]. split; [exact Hcfg|]. split; [constructor|].
    destruct Ha as [H1 H2 H3 H4]. constructor; cbn [rows agg next_id]; rewrite ?Ea in *; try assumption; intros ? [].
  - unfold head_ok in Hhd. rewrite Ea in Hhd. destruct (rows (xr_core rs)) as [|top t] eqn:Er; [contradiction|].
    destruct (header_of_top rs top t c rest HR Er Ea) as (r' & Hr' & Hsql & R1 & R2 & R3 & R4 & R5 & R6 & R7).
    rewrite (recover_insert_empty false _ [] (hdr_of (xr_info rs) c) r' Hview (latest_view _ _ _) Hr' Hsql).
    cbn [s_info sort_by_height fold_right insert_by_height rev app map refused xr_core xr_recovering]. split; [|reflexivity].
    set (nr := of_rrow bev cev (l2 (xr_core rs)) (norm_row r')).
    pose proof (chain_ok_head_row _ _ _ _ _ _ _ _ _ _ _ Hc) as (G1 & G2 & G3 & G4 & G5 & G6 & G7).
    assert (N1 : height nr = height top /\ cid nr = cid top /\ st nr = a_st c /\ from nr = from top /\ to nr = to top /\
                 prev nr = prev top /\ new nr = new top /\ r_exits nr = r_exits top /\ r_imported nr = r_imported top).
    { unfold nr, of_rrow, norm_row. cbn. rewrite R1, R2, R3, R4, R5, R6, R7, G6, G7. auto 10. }
    destruct N1 as (N1 & N2 & N3 & N4 & N5 & N6 & N7 & N8 & N9).
    split; [apply hist_ok_frame; exact Hh|]. split; [exact Hcfg|]. split.
    + cbn [l2 synced rows]. apply ok_first.
      * rewrite N1, N4, N6. apply (chain_base0 _ _ _ _ Hc).
      * unfold row_ok. rewrite N4, N5, N6, N7, N8, N9. repeat split; assumption.
    + destruct Ha as [H1 H2 H3 H4]. constructor; cbn [rows agg next_id]; rewrite ?Ea in *; try assumption.
      * intros r [<-|[]]. destruct (H1 top) as (c' & Hin & Hid & Hhh & _); [rewrite Er; left; reflexivity|].
        assert (c' = c) by (apply (nodup_same_id (c :: rest)); [exact H4|exact Hin|left; reflexivity|congruence]). subst c'.
        exists c. split; [left; reflexivity|]. rewrite N1, N2, N3. repeat split; try assumption.
      * intros c2 Hin Ho. destruct (H2 c2 Hin Ho) as (top' & Ht & Hid). rewrite Er in Ht. cbn in Ht. inversion Ht; subst top'.
        exists nr. split; [reflexivity|]. rewrite N2. exact Hid.
Qed.
(* ---- restart on the SAME database ---- *)
Fixpoint desc (l : list Reconcile.row) : Prop :=
  match l with [] => True | x :: t => Forall (fun y => r_height y < r_height x) t /\ desc t end.
Lemma insert_last r l : Forall (fun x => r_height x < r_height r) l -> insert_by_height r l = l ++ [r].
Proof.
  induction 1 as [|x l Hx _ IH]; [reflexivity|]. cbn [insert_by_height app].
  replace (r_height r <=? r_height x) with false by (symmetry; apply N.leb_gt; exact Hx). rewrite IH. reflexivity.
Qed.
Lemma sort_desc l : desc l -> rev (sort_by_height l) = l.
Proof.
  intros H. assert (E : sort_by_height l = rev l); [|rewrite E; apply rev_involutive].
  induction l as [|x t IH]; [reflexivity|]. destruct H as [Hx Ht]. unfold sort_by_height in *. cbn [fold_right rev].
  rewrite (IH Ht). apply insert_last. apply Forall_rev. exact Hx.
Qed.
Lemma chain_heights l sy (r : rowT) t : chainN l sy (r :: t) -> Forall (fun y => height y < height r) t.
Proof.
  revert r. induction t as [|r' t IH]; intros r Hc; [constructor|].
  inversion Hc as [| |? ? ? Hc' Hst Hh Hf Hp Hr]; subst. constructor; [lia|].
  eapply Forall_impl; [|exact (IH r' Hc')]. intros y Hy. cbn beta in *. lia.
Qed.
Lemma chain_desc l sy (rs : list rowT) : chainN l sy rs -> desc (map (to_rrow bev cev cert_type) rs).
Proof.
  induction rs as [|r t IH]; intros Hc; [exact I|]. cbn [map desc]. split.
  - pose proof (chain_heights _ _ _ _ Hc) as H. apply Forall_map. eapply Forall_impl; [|exact H]. intros y Hy. exact Hy.
  - apply IH. eapply chain_ok_tail. exact Hc.
Qed.
Lemma of_to_rrow l (r : rowT) : r_hasprev r = true -> r_exits r = bridges_in l (from r) (to r) ->
  r_imported r = claims_in l (from r) (to r) -> of_rrow bev cev l (to_rrow bev cev cert_type r) = r.
Proof. destruct r; cbn. intros -> -> ->. reflexivity. Qed.

(* RESTART ON THE SAME DATABASE (no crash in flight, headers carrying prev_local_exit_root): the reconciliation only
   refreshes the top row's status from the Agglayer; the table satisfies Inv again and the node is not refused.
   Same hypothesis [Hview] as for the lost database. *)
Theorem restart_kept_preserves_Inv rs : RInv rs -> Reconcile.agg_ok (view_of (xr_info rs) (agg (xr_core rs))) ->
  InvN (xr_core (recover_x false rs)) /\ xr_recovering (recover_x false rs) = false.
Proof.
  intros HR Hview. pose proof HR as ((Hh & Hcfg & Hc & Ha) & Hi & Hhd & (Hsy & Hct & Hb)).
  unfold AggsenderProtocol.recover_x. cbn match.
  destruct (agg (xr_core rs)) as [|c rest] eqn:Ea.
  - unfold head_ok in Hhd. rewrite Ea in Hhd. destruct (rows (xr_core rs)) as [|r t] eqn:Er; [|contradiction].
    cbn [map]. rewrite (recover_nothing false _ [] Hview) by reflexivity.
    cbn [s_info sort_by_height fold_right rev map refused xr_core xr_recovering].
    split; [|reflexivity]. split; [apply hist_ok_frame; exact Hh|]. split; [exact Hcfg|]. split; [constructor|].
    destruct Ha as [H1 H2 H3 H4]. constructor; cbn [rows agg next_id]; rewrite ?Ea in *; try assumption; intros ? [].
  - unfold head_ok in Hhd. rewrite Ea in Hhd. destruct (rows (xr_core rs)) as [|top t] eqn:Er; [contradiction|].
    destruct (header_of_top rs top t c rest HR Er Ea) as (r' & Hr' & Hsql & R1 & R2 & R3 & R4 & R5 & R6 & R7).
    set (a := view_of (xr_info rs) (c :: rest)) in *. set (l := hdr_of (xr_info rs) c) in *.
    set (c0 := to_rrow bev cev cert_type top). set (rest0 := map (to_rrow bev cev cert_type) t).
    destruct Ha as [H1 H2 H3 H4]. rewrite Ea in *. rewrite Er in H1, H2.
    destruct (H1 top (or_introl eq_refl)) as (ct & Hin & Hid & Hhh & Hlag).
    assert (ct = c) by (apply (nodup_same_id (c :: rest)); [exact H4|exact Hin|left; reflexivity|congruence]). subst ct.
    destruct (Hb top (or_introl eq_refl)) as (B1 & B2 & B3).
    pose proof (chain_ok_head_row _ _ _ _ _ _ _ _ _ _ _ Hc) as (G1 & G2 & G3 & G4 & G5 & G6 & G7).
    assert (Hbelow : Forall (below c0) rest0).
    { unfold rest0. apply Forall_map. apply Forall_forall. intros y Hy. unfold below, c0. cbn [to_rrow r_status r_height r_id].
      split; [exact (chain_ok_below_settled _ _ _ _ _ _ _ _ _ _ _ Hc y Hy)|]. split.
      - pose proof (chain_heights _ _ _ _ Hc) as Hl. rewrite Forall_forall in Hl. exact (Hl y Hy).
      - intros E. destruct (H1 y (or_intror Hy)) as (cy & Hiny & Hidy & Hhy & _).
        assert (cy = c) by (apply (nodup_same_id (c :: rest)); [exact H4|exact Hiny|left; reflexivity|congruence]). subst cy.
        pose proof (chain_heights _ _ _ _ Hc) as Hl. rewrite Forall_forall in Hl. specialize (Hl y Hy). cbn beta in Hl. lia. }
    assert (Hlook : Reconcile.lookup a (r_id c0) = Some l).
    { unfold Reconcile.lookup, a, AggsenderProtocol.view_of, c0. cbn [a_known map find to_rrow r_id].
      fold l. replace (h_id l =? cid top) with true; [reflexivity|]. symmetry. apply N.eqb_eq.
      unfold l, AggsenderProtocol.hdr_of. cbn [h_id]. exact Hhd. }
    assert (Hl : h_height l = a_height c /\ h_id l = a_id c /\ h_status l = a_st c) by (unfold l, AggsenderProtocol.hdr_of; cbn; auto).
    destruct Hl as (L1 & L2 & L3).
    destruct (row_of_header_fields l r' Hr') as (F1 & F2 & F3 & F4 & F5 & _).
    assert (Hm : matches a c0 l).
    { unfold matches, c0. cbn [to_rrow r_height r_id r_new_ler r_prev_ler r_from r_to r_status]. rewrite B3.
      split; [congruence|]. split; [congruence|]. split; [congruence|]. split; [exists (prev top); split; [reflexivity|congruence]|].
      split; [exists r'; auto|]. split; [intros Hcl; rewrite L3; apply Hlag; unfold is_closed in Hcl; destruct (is_open (st top)); [discriminate|reflexivity]|].
      split; [exact Hlook|]. unfold sql_u64_ok. cbn [to_rrow r_height r_from r_to].
      apply andb_true_iff; split; [apply andb_true_iff; split|]; apply N.ltb_lt; lia. }
    cbn [map]. fold c0 rest0.
    rewrite (recover_consistent false a c0 rest0 [] l Hview Hbelow (latest_view _ _ _) Hm), (check_pending_shape a c0 rest0 [] Hbelow).
    cbn [s_info refused xr_core xr_recovering]. split; [|reflexivity].
    (* the refreshed top row *)
    assert (Hsync : exists x, sync_row a c0 = to_rrow bev cev cert_type (set_st N bev cev top x) /\ (x = st top \/ x = a_st c)).
    { unfold sync_row. cbn [r_status c0 to_rrow]. fold c0. destruct (is_open (st top)); [|exists (st top); split; [destruct top; reflexivity|left; reflexivity]].
      rewrite Hlook. cbn [to_rrow r_status]. destruct (status_eqb (st top) (h_status l)); [exists (st top); split; [destruct top; reflexivity|left; reflexivity]|].
      exists (a_st c). split; [rewrite L3; destruct top; reflexivity|right; reflexivity]. }
    destruct Hsync as (x & Esync & Hx). rewrite Esync.
    assert (Hd : desc (to_rrow bev cev cert_type (set_st N bev cev top x) :: rest0)).
    { pose proof (chain_desc _ _ _ (chain_ok_head_st N bev cev b_leaf start_block start_ler root_of _ _ top t x Hc)) as D. exact D. }
    rewrite (sort_desc _ Hd). cbn [map].
    rewrite (of_to_rrow _ (set_st N bev cev top x)) by (cbn; assumption).
    assert (Et : map (of_rrow bev cev (l2 (xr_core rs))) rest0 = t).
    { unfold rest0. rewrite map_map. rewrite <- (map_id t) at 2. apply map_ext_in. intros y Hy.
      destruct (Hb y (or_intror Hy)) as (_ & _ & Y3).
      assert (Hy' : rowokN (l2 (xr_core rs)) (synced (xr_core rs)) y).
      { clear - Hc Hy. revert top Hc. induction t as [|r2 t2 IH]; intros top Hc; [destruct Hy|].
        destruct Hy as [<-|Hy]; [exact (chain_ok_head_row _ _ _ _ _ _ _ _ _ _ _ (chain_ok_tail _ _ _ _ _ _ _ _ _ _ _ Hc))|].
        apply (IH Hy r2). exact (chain_ok_tail _ _ _ _ _ _ _ _ _ _ _ Hc). }
      destruct Hy' as (_ & _ & _ & _ & _ & Y6 & Y7). apply of_to_rrow; assumption. }
    rewrite Et.
    split; [apply hist_ok_frame; exact Hh|]. split; [exact Hcfg|].
    split; [cbn [l2 synced rows]; apply chain_ok_head_st; exact Hc|].
    constructor; cbn [rows agg next_id]; try assumption.
    + intros r [<-|Hr].
      * exists c. split; [left; reflexivity|]. cbn [set_st cid height st]. repeat split; try assumption.
        destruct Hx as [->| ->]; [exact Hlag|intros _; reflexivity].
      * apply H1. right. exact Hr.
    + intros c2 Hin2 Ho. destruct (H2 c2 Hin2 Ho) as (top' & Ht & Hid2). cbn in Ht. inversion Ht; subst top'.
      exists (set_st N bev cev top x). split; [reflexivity|exact Hid2].
Qed.
End RestartTheory.
