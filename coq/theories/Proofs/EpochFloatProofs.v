(* C18 — the float64 threshold test of the Go code decides exactly what the rational test of Model/Epoch.v decides,
   for NumBlockPerEpoch < 2^45 (Flocq binary64; the Reals axioms of the standard library are used here and only here).

   Shape of the argument: float64(x) is exact for x < 2^53; a correctly rounded quotient q of a value in [0,1] is within
   2^-53 of the exact one; rounding is monotone; two distinct quotients a/b < c/d that occur in the code differ by at
   least 1/(b*d) (or 1/n when b = d = n), which exceeds 2^-52 = twice the rounding error, so they cannot round to the
   same or to swapped floats. *)
From Coq Require Import ZArith NArith Reals Lia Lra Bool.
From Flocq Require Import Core BinarySingleNaN.
From Verif Require Import Base.GoNum Model.Epoch Model.EpochFloat Proofs.EpochProofs.
Open Scope R_scope.

Definition fexp64 := SpecFloat.fexp 53 1024.
Local Instance fexp64_valid : Valid_exp fexp64 := fexp_correct 53 1024 f64_prec.
Local Instance fexp64_mono : Monotone_exp fexp64 := fexp_monotone 53 1024.
Definition rnd (x : R) : R := round radix2 fexp64 ZnearestE x.

Lemma rnd_le x y : x <= y -> rnd x <= rnd y.
Proof. intros H. apply round_le; auto with typeclass_instances. Qed.

Lemma rnd_0 : rnd 0 = 0.
Proof. apply round_0. auto with typeclass_instances. Qed.

Lemma rnd_err x : Rabs x <= 1 -> Rabs (rnd x - x) <= bpow radix2 (-53).
Proof.
  intros Hx. unfold rnd.
  eapply Rle_trans. apply error_le_half_ulp; auto with typeclass_instances.
  assert (Hu : ulp radix2 fexp64 x <= bpow radix2 (-52)).
  { replace (bpow radix2 (-52)) with (ulp radix2 fexp64 (bpow radix2 0)).
    - apply ulp_le; auto with typeclass_instances. simpl (bpow radix2 0). rewrite (Rabs_pos_eq 1) by lra. exact Hx.
    - rewrite ulp_bpow. reflexivity. }
  replace (bpow radix2 (-53)) with (/2 * bpow radix2 (-52)).
  - apply Rmult_le_compat_l; [lra|exact Hu].
  - change (-53)%Z with (-1 + -52)%Z. rewrite bpow_plus. f_equal.
Qed.

Lemma rnd_int z : (Z.abs z < 2^53)%Z -> rnd (IZR z) = IZR z.
Proof.
  intros Hz. unfold rnd. apply round_generic; auto with typeclass_instances.
  apply generic_format_FLT. exists (Float radix2 z 0).
  - unfold F2R. simpl. ring.
  - exact Hz.
  - simpl. unfold SpecFloat.emin. lia.
Qed.

Lemma rnd_strict x y : 0 <= x -> x <= y -> y <= 1 -> bpow radix2 (-52) < y - x -> rnd x < rnd y.
Proof.
  intros H0 Hxy H1 Hgap.
  destruct (Rlt_or_le (rnd x) (rnd y)) as [Hlt|Hge]; [exact Hlt|exfalso].
  pose proof (rnd_le x y Hxy) as Hle.
  assert (Heq : rnd x = rnd y) by lra.
  pose proof (rnd_err x ltac:(rewrite Rabs_pos_eq; lra)) as Ex.
  pose proof (rnd_err y ltac:(rewrite Rabs_pos_eq; lra)) as Ey.
  apply Rabs_le_inv in Ex. apply Rabs_le_inv in Ey.
  assert (bpow radix2 (-52) = 2 * bpow radix2 (-53)).
  { change (-52)%Z with (1 + -53)%Z. rewrite bpow_plus. f_equal. }
  lra.
Qed.


Lemma bpow53 : bpow radix2 53 = IZR (2^53).
Proof. reflexivity. Qed.

Lemma IZR_lt_emax z : (Z.abs z < 2^53)%Z -> Rabs (IZR z) < bpow radix2 1024.
Proof.
  intros Hz. rewrite <- abs_IZR. apply Rlt_trans with (bpow radix2 53).
  - rewrite bpow53. apply IZR_lt. exact Hz.
  - apply bpow_lt. lia.
Qed.

Lemma f64_of_N_correct a : (a < 2^53)%N ->
  B2R (f64_of_N a) = IZR (Z.of_N a) /\ is_finite (f64_of_N a) = true.
Proof.
  intros Ha. unfold f64_of_N.
  assert (Hz : (Z.abs (Z.of_N a) < 2^53)%Z) by lia.
  pose proof (binary_normalize_correct 53 1024 f64_prec f64_prec_emax mode_NE (Z.of_N a) 0 false) as H.
  cbv zeta in H. 
  replace (F2R (Float radix2 (Z.of_N a) 0)) with (IZR (Z.of_N a)) in H by (unfold F2R; simpl; ring).
  change (round radix2 (SpecFloat.fexp 53 1024) (round_mode mode_NE)) with rnd in H.
  rewrite rnd_int in H by exact Hz.
  rewrite Rlt_bool_true in H by (apply IZR_lt_emax; exact Hz).
  destruct H as (H1 & H2 & _). split; assumption.
Qed.

Lemma rnd_1 : rnd 1 = 1.
Proof. apply (rnd_int 1). lia. Qed.

Lemma quot_bounds a b : (a <= b)%N -> (0 < b)%N ->
  0 <= IZR (Z.of_N a) / IZR (Z.of_N b) <= 1.
Proof.
  intros Hab Hb.
  assert (H0 : 0 <= IZR (Z.of_N a)) by (apply IZR_le; lia).
  assert (H1 : 0 < IZR (Z.of_N b)) by (apply IZR_lt; lia).
  assert (H2 : IZR (Z.of_N a) <= IZR (Z.of_N b)) by (apply IZR_le; lia).
  split.
  - apply Rmult_le_pos; [assumption|]. left. apply Rinv_0_lt_compat. assumption.
  - apply Rmult_le_reg_r with (IZR (Z.of_N b)); [assumption|].
    unfold Rdiv. rewrite Rmult_assoc, Rinv_l by lra. lra.
Qed.

Lemma f64_div_correct a b : (a <= b)%N -> (0 < b)%N -> (b < 2^53)%N ->
  B2R (f64_div (f64_of_N a) (f64_of_N b)) = rnd (IZR (Z.of_N a) / IZR (Z.of_N b)) /\
  is_finite (f64_div (f64_of_N a) (f64_of_N b)) = true.
Proof.
  intros Hab Hb Hb53.
  destruct (f64_of_N_correct a ltac:(lia)) as [Ra Fa].
  destruct (f64_of_N_correct b ltac:(lia)) as [Rb Fb].
  pose proof (quot_bounds a b Hab Hb) as [Hq0 Hq1].
  unfold f64_div.
  pose proof (Bdiv_correct 53 1024 f64_prec f64_prec_emax mode_NE (f64_of_N a) (f64_of_N b)) as H.
  rewrite Ra, Rb in H.
  assert (Hnz : IZR (Z.of_N b) <> 0) by (apply not_0_IZR; lia).
  specialize (H Hnz).
  change (round radix2 (SpecFloat.fexp 53 1024) (round_mode mode_NE)) with rnd in H.
  assert (Hr0 : 0 <= rnd (IZR (Z.of_N a) / IZR (Z.of_N b))) by (rewrite <- rnd_0; apply rnd_le; assumption).
  assert (Hr1 : rnd (IZR (Z.of_N a) / IZR (Z.of_N b)) <= 1) by (rewrite <- rnd_1; apply rnd_le; assumption).
  rewrite Rlt_bool_true in H.
  - destruct H as (H1 & H2 & _). split; [assumption|]. rewrite H2. assumption.
  - rewrite Rabs_pos_eq by assumption. apply Rle_lt_trans with 1; [assumption|].
    change 1 with (bpow radix2 0). apply bpow_lt. lia.
Qed.

Lemma bpow_m52 : bpow radix2 (-52) = / IZR (2^52).
Proof. reflexivity. Qed.

Lemma quot_gap a b c d : (0 < b)%N -> (0 < d)%N -> (a * d < c * b)%N ->
  (b * d < 2^52 * (c * b - a * d))%N ->
  bpow radix2 (-52) < IZR (Z.of_N c) / IZR (Z.of_N d) - IZR (Z.of_N a) / IZR (Z.of_N b).
Proof.
  intros Hb Hd Hlt Hbd.
  set (A := IZR (Z.of_N a)). set (B := IZR (Z.of_N b)). set (C := IZR (Z.of_N c)). set (D := IZR (Z.of_N d)).
  assert (HB : 0 < B) by (apply IZR_lt; lia).
  assert (HD : 0 < D) by (apply IZR_lt; lia).
  assert (Hden : B * D < IZR (2^52) * (C * B - A * D)).
  { unfold A, B, C, D. rewrite <- !mult_IZR, <- minus_IZR, <- mult_IZR. apply IZR_lt. lia. }
  assert (HBD : 0 < B * D) by (apply Rmult_lt_0_compat; assumption).
  assert (H52 : 0 < IZR (2^52)) by (apply IZR_lt; lia).
  replace (C / D - A / B) with ((C * B - A * D) / (B * D)) by (field; lra).
  rewrite bpow_m52.
  apply Rmult_lt_reg_r with (B * D); [assumption|].
  replace ((C * B - A * D) / (B * D) * (B * D)) with (C * B - A * D) by (field; lra).
  apply Rmult_lt_reg_l with (IZR (2^52)); [assumption|].
  rewrite <- Rmult_assoc, Rinv_r by lra. lra.
Qed.

Lemma quot_ge a b c d : (0 < b)%N -> (0 < d)%N -> (c * b <= a * d)%N ->
  IZR (Z.of_N c) / IZR (Z.of_N d) <= IZR (Z.of_N a) / IZR (Z.of_N b).
Proof.
  intros Hb Hd Hle.
  set (A := IZR (Z.of_N a)). set (B := IZR (Z.of_N b)). set (C := IZR (Z.of_N c)). set (D := IZR (Z.of_N d)).
  assert (HB : 0 < B) by (apply IZR_lt; lia).
  assert (HD : 0 < D) by (apply IZR_lt; lia).
  assert (Hnum : C * B <= A * D).
  { unfold A, B, C, D. rewrite <- !mult_IZR. apply IZR_le. lia. }
  apply Rmult_le_reg_r with (B * D); [apply Rmult_lt_0_compat; assumption|].
  replace (C / D * (B * D)) with (C * B) by (field; lra).
  replace (A / B * (B * D)) with (A * D) by (field; lra).
  assumption.
Qed.

(* the float comparison of two correctly rounded quotients of integers decides the exact comparison *)
Lemma f64_lt_div a b c d : (a <= b)%N -> (c <= d)%N -> (0 < b)%N -> (0 < d)%N ->
  (b < 2^53)%N -> (d < 2^53)%N -> ((a * d < c * b)%N -> (b * d < 2^52 * (c * b - a * d))%N) ->
  f64_lt (f64_div (f64_of_N a) (f64_of_N b)) (f64_div (f64_of_N c) (f64_of_N d)) = (a * d <? c * b)%N.
Proof.
  intros Hab Hcd Hb Hd Hb53 Hd53 Hbd.
  destruct (f64_div_correct a b Hab Hb Hb53) as [Rx Fx].
  destruct (f64_div_correct c d Hcd Hd Hd53) as [Ry Fy].
  unfold f64_lt. rewrite Bltb_correct by assumption. rewrite Rx, Ry.
  pose proof (quot_bounds a b Hab Hb) as [Hx0 Hx1].
  pose proof (quot_bounds c d Hcd Hd) as [Hy0 Hy1].
  destruct (N.ltb_spec (a * d) (c * b)) as [Hlt|Hge].
  - apply Rlt_bool_true. pose proof (quot_gap a b c d Hb Hd Hlt (Hbd Hlt)) as Hgap.
    assert (0 < bpow radix2 (-52)) by apply bpow_gt_0.
    apply rnd_strict; lra.
  - apply Rlt_bool_false. apply rnd_le. apply quot_ge; assumption.
Qed.


Open Scope N_scope.
(* FLOAT = EXACT: isNotificationRequired on float64 quotients = isNotificationRequired on exact rationals *)
Theorem float_threshold_agrees S0 n P b w : 1 <= n -> n < 2^45 -> P < 100 -> S0 <= b ->
  is_notification_required_f S0 n P b w = is_notification_required S0 n P b w.
Proof.
  intros Hn Hn40 HP Hb.
  unfold is_notification_required_f, is_notification_required, percent_epoch_f, percent_epoch.
  rewrite (starting_block_ref S0 n Hn b Hb).
  pose proof (ref_first_le S0 n Hn b Hb) as Hpos.
  set (a := b - ref_first_block S0 n (ref_epoch S0 n b)) in *.
  assert (Ha : a <= n - 1) by lia. clearbody a.
  assert (H1 : f64_lt (f64_div (f64_of_N (n - 1)) (f64_of_N n)) (f64_div (f64_of_N P) (f64_of_N 100)) =
               qlt (n - 1, n) (P, 100)).
  { unfold qlt. cbn [fst snd]. apply f64_lt_div. all: try (timeout 10 lia). }
  rewrite H1.
  destruct (qlt (n - 1, n) (P, 100)).
  - assert (H2 : f64_lt (f64_div (f64_of_N a) (f64_of_N n)) (f64_div (f64_of_N (n - 1)) (f64_of_N n)) =
                 qlt (a, n) (n - 1, n)).
    { unfold qlt. cbn [fst snd]. apply f64_lt_div; try (timeout 10 lia). intros Hlt.
      assert (Hk : a < n - 1) by (apply N.mul_lt_mono_pos_r with n; lia).
      replace ((n - 1) * n - a * n) with ((n - 1 - a) * n) by (rewrite !N.mul_sub_distr_r; reflexivity).
      apply N.lt_le_trans with (2 ^ 52 * n).
      - apply N.mul_lt_mono_pos_r; lia.
      - apply N.mul_le_mono_l. rewrite <- (N.mul_1_l n) at 1. apply N.mul_le_mono_r. lia. }
    rewrite H2. reflexivity.
  - assert (H2 : f64_lt (f64_div (f64_of_N a) (f64_of_N n)) (f64_div (f64_of_N P) (f64_of_N 100)) =
                 qlt (a, n) (P, 100)).
    { unfold qlt. cbn [fst snd]. apply f64_lt_div; try (timeout 10 lia). }
    rewrite H2. reflexivity.
Qed.

Lemma step_f_agrees S0 n P s b : 1 <= n -> n < 2^45 -> P < 100 -> step_f S0 n P s b = step S0 n P s b.
Proof.
  intros Hn Hn45 HP. unfold step_f, step.
  destruct (N.ltb_spec b S0) as [Hlt|Hge]; [reflexivity|].
  destruct (b <=? last_block_seen s); [reflexivity|].
  rewrite float_threshold_agrees by assumption. reflexivity.
Qed.

(* the whole loop: on float64 and on exact rationals the same events are published *)
Theorem run_ix_f_agrees S0 n P : 1 <= n -> n < 2^45 -> P < 100 ->
  forall bs i s, run_ix_f S0 n P i s bs = run_ix S0 n P i s bs.
Proof.
  intros Hn Hn45 HP. induction bs as [|b t IH]; intros i s; [reflexivity|].
  cbn [run_ix_f run_ix]. rewrite step_f_agrees by assumption.
  destruct (step S0 n P s b) as [s' [e|]]; rewrite IH; reflexivity.
Qed.

(* the bound is not an artefact: at N ~ 2^46.6 the float test lets a block qualify one block before the exact
   57% position (elapsed/N < 57/100 exactly, but the two quotients round to the same float64) *)
Lemma float_threshold_differs_beyond :
  let n := 109313241698193 in let P := 57 in let b := 62308547767970 in
  2^46 < n /\ n < 2^47 /\
  fst (is_notification_required 0 n P b 1) = false /\ fst (is_notification_required_f 0 n P b 1) = true.
Proof. vm_compute. repeat split; reflexivity. Qed.
