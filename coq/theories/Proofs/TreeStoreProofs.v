(* Store-level theorems for the (generic) executable tree store of Model/TreeStore.v:
   the AVL-backed node table refines the function-level theory (Proofs/Rht.v), the frontier cache list
   refines the function cache, and the invariant TInv / MemInv is preserved by AddLeaf (with or without
   cache re-initialisation), by cache invalidation (restart, rollback, reorg) and by Tree.Reorg. *)
From Coq Require Import Arith NArith ZArith List Bool Lia FMapFacts Sorted.
From Verif Require Import Model.Merkle Model.MerkleSpec Model.TreeStore
  Proofs.Frontier Proofs.Rht Proofs.InitCache Proofs.BitFacts Proofs.ClimbNodes.
Import ListNotations.
Local Close Scope N_scope.

Module NMF := FMapFacts.Facts NM.

(* ---------- the AVL node table as a lookup function ---------- *)
Definition meq (m m' : @rht N) : Prop := forall x, m x = m' x.
Definition lk (m : NM.t (N * N)) : @rht N := fun k => NM.find k m.

Lemma lookup_lk db : lookup db = lk (t_rht db).
Proof. reflexivity. Qed.

Lemma ins_meq m m' k v : meq m m' -> meq (ins N.eq_dec m k v) (ins N.eq_dec m' k v).
Proof. intros E x. unfold ins. rewrite (E k), (E x). reflexivity. Qed.

Lemma lk_store_node m n : meq (lk (store_node m n)) (ins N.eq_dec (lk m) (fst n) (snd n)).
Proof.
  intros x. unfold store_node, ins, lk. destruct n as [k v]. cbn [fst snd].
  destruct (NM.find k m) as [v'|] eqn:Ek.
  - destruct (N.eq_dec x k) as [->|Hne]; [exact Ek|reflexivity].
  - destruct (N.eq_dec x k) as [->|Hne].
    + apply NMF.add_eq_o. reflexivity.
    + apply NMF.add_neq_o. intros E. apply Hne. symmetry. exact E.
Qed.

Lemma ins_all_meq ns : forall m m', meq m m' -> meq (ins_all N.eq_dec m ns) (ins_all N.eq_dec m' ns).
Proof.
  unfold ins_all. induction ns as [|n ns IH]; intros m m' E; cbn [fold_left]; [exact E|].
  apply IH. apply ins_meq. exact E.
Qed.

Lemma lk_store_nodes ns : forall m, meq (lk (store_nodes m ns)) (ins_all N.eq_dec (lk m) ns).
Proof.
  unfold store_nodes, ins_all. induction ns as [|n ns IH]; intros m; cbn [fold_left]; [intros x; reflexivity|].
  intros x. rewrite (IH (store_node m n) x).
  apply (ins_all_meq ns _ _ (lk_store_node m n)).
Qed.

(* ---------- cache list <-> cache function ---------- *)
Lemma cache_roundtrip (z : N) H (c : @cache N) h : h < H -> cache_of_list z (cache_to_list H c) h = c h.
Proof.
  intros Hh. unfold cache_of_list, cache_to_list.
  rewrite nth_indep with (d' := c 0) by (rewrite map_length, seq_length; exact Hh).
  rewrite map_nth with (d := 0). rewrite seq_nth by exact Hh. reflexivity.
Qed.

(* ---------- extensionality in the bit function ---------- *)
Section Ext.
Variable node : N -> N -> N.
Variable zhf : nat -> N.
Lemma walk_ext (m : @rht N) h : forall x b1 b2, (forall k, b1 k = b2 k) -> walk m h x b1 = walk m h x b2.
Proof.
  induction h as [|h IH]; intros x b1 b2 E; cbn [walk]; [reflexivity|].
  destruct (m x) as [[l r]|]; [|reflexivity]. rewrite (E h).
  destruct (b2 h); rewrite (IH _ b1 b2 E); reflexivity.
Qed.
Lemma swalk_ext (m : @rht N) h : forall x b1 b2, (forall k, b1 k = b2 k) -> swalk zhf m h x b1 = swalk zhf m h x b2.
Proof.
  induction h as [|h IH]; intros x b1 b2 E; cbn [swalk]; [reflexivity|].
  destruct (m x) as [[l r]|]; [|reflexivity]. rewrite (E h).
  destruct (b2 h); rewrite (IH _ b1 b2 E); reflexivity.
Qed.
Lemma calc_ext sibs : forall lvl cur b1 b2, (forall k, b1 k = b2 k) -> calc node lvl sibs cur b1 = calc node lvl sibs cur b2.
Proof.
  induction sibs as [|s t IH]; intros lvl cur b1 b2 E; cbn [calc]; [reflexivity|].
  rewrite (E lvl). apply IH. exact E.
Qed.
Lemma init_walk_ext (m : @rht N) h : forall x b1 b2 c, (forall k, b1 k = b2 k) -> init_walk m h x b1 c = init_walk m h x b2 c.
Proof.
  induction h as [|h IH]; intros x b1 b2 c E; cbn [init_walk]; [reflexivity|].
  destruct (m x) as [[l r]|]; [|reflexivity]. rewrite (E h). apply IH. exact E.
Qed.
Lemma climb_nodes_ext fuel : forall h b1 b2 cur c, (forall k, b1 k = b2 k) ->
  climb_nodes node zhf fuel h b1 cur c = climb_nodes node zhf fuel h b2 cur c.
Proof.
  induction fuel as [|fuel IH]; intros h b1 b2 cur c E; cbn [climb_nodes]; [reflexivity|].
  rewrite (E h). destruct (b2 h); cbv zeta; f_equal; apply IH; exact E.
Qed.
(* the algorithms are also extensional in the node table and in the zero-hash table below the height used *)
Lemma walk_meq (m m' : @rht N) : meq m m' -> forall h x b, walk m h x b = walk m' h x b.
Proof.
  intros E. induction h as [|h IH]; intros x b; cbn [walk]; [reflexivity|].
  rewrite (E x). destruct (m' x) as [[l r]|]; [|reflexivity]. destruct (b h); rewrite IH; reflexivity.
Qed.
Lemma init_walk_meq (m m' : @rht N) : meq m m' -> forall h x b c, init_walk m h x b c = init_walk m' h x b c.
Proof.
  intros E. induction h as [|h IH]; intros x b c; cbn [init_walk]; [reflexivity|].
  rewrite (E x). destruct (m' x) as [[l r]|]; [|reflexivity]. apply IH.
Qed.
Lemma climb_zh_ext z1 z2 fuel : forall h b cur c, (forall k, h <= k < fuel + h -> z1 k = z2 k) ->
  climb node z1 fuel h b cur c = climb node z2 fuel h b cur c.
Proof.
  induction fuel as [|fuel IH]; intros h b cur c E; cbn [climb]; [reflexivity|].
  destruct (b h).
  - apply IH. intros k Hk. apply E. lia.
  - rewrite (E h) by lia. apply IH. intros k Hk. apply E. lia.
Qed.
Lemma climb_nodes_zh_ext z1 z2 fuel : forall h b cur c, (forall k, h <= k < fuel + h -> z1 k = z2 k) ->
  climb_nodes node z1 fuel h b cur c = climb_nodes node z2 fuel h b cur c.
Proof.
  induction fuel as [|fuel IH]; intros h b cur c E; cbn [climb_nodes]; [reflexivity|].
  destruct (b h); cbv zeta.
  - f_equal. apply IH. intros k Hk. apply E. lia.
  - rewrite (E h) by lia. f_equal. apply IH. intros k Hk. apply E. lia.
Qed.
End Ext.

(* ---------- last_root of a table sorted by (block, position) is its last row ---------- *)
Definition row_lt (a b : root_row) : Prop :=
  (r_block a < r_block b)%N \/ (r_block a = r_block b /\ (r_bpos a < r_bpos b)%N).
Lemma root_after_iff a b : root_after a b = true <-> row_lt b a.
Proof.
  unfold root_after, row_lt. rewrite orb_true_iff, andb_true_iff, !N.ltb_lt, N.eqb_eq.
  split; intros [H|[H1 H2]]; [left; exact H|right; split; [symmetry|]; assumption|left; exact H|right; split; [symmetry|]; assumption].
Qed.
Lemma row_lt_trans a b c : row_lt a b -> row_lt b c -> row_lt a c.
Proof. unfold row_lt. intros [H1|[H1 H1']] [H2|[H2 H2']]; [left|left|left|right]; try lia. Qed.
Lemma row_lt_irrefl a : ~ row_lt a a.
Proof. unfold row_lt. lia. Qed.

Lemma last_root_fold rs : forall acc,
  StronglySorted row_lt rs -> (forall a, acc = Some a -> Forall (row_lt a) rs) ->
  fold_left (fun acc r => match acc with None => Some r | Some a => if root_after r a then Some r else Some a end) rs acc
  = match rs with [] => acc | _ => Some (last rs (mkRoot 0 0 0 0)) end.
Proof.
  induction rs as [|r rs IH]; intros acc Hs Hacc; cbn [fold_left]; [reflexivity|].
  inversion Hs as [|? ? Hs' Hr]; subst.
  assert (Estep : match acc with None => Some r | Some a => if root_after r a then Some r else Some a end = Some r).
  { destruct acc as [a|]; [|reflexivity].
    specialize (Hacc a eq_refl). inversion Hacc; subst.
    assert (E : root_after r a = true) by (apply root_after_iff; assumption). rewrite E. reflexivity. }
  rewrite Estep. rewrite IH; [|exact Hs'|intros a Ea; inversion Ea; subst; exact Hr].
  destruct rs as [|r2 rs']; reflexivity.
Qed.
Lemma last_root_sorted db : StronglySorted row_lt (t_roots db) ->
  last_root db = match t_roots db with [] => None | _ => Some (last (t_roots db) (mkRoot 0 0 0 0)) end.
Proof. intros Hs. unfold last_root. rewrite last_root_fold; [reflexivity|exact Hs|discriminate]. Qed.

(* ---------- list helpers ---------- *)
Lemma last_map {A B} (g : A -> B) l d : l <> [] -> last (map g l) (g d) = g (last l d).
Proof.
  induction l as [|x l IH]; intros Hne; [congruence|]. destruct l as [|y l]; [reflexivity|].
  cbn [map last] in *. apply IH. discriminate.
Qed.
Lemma SSorted_snoc {A} (R : A -> A -> Prop) l x :
  StronglySorted R l -> Forall (fun y => R y x) l -> StronglySorted R (l ++ [x]).
Proof.
  induction l as [|y l IH]; intros Hs Hf; cbn [app]; [repeat constructor|].
  inversion Hs; subst. inversion Hf; subst. constructor; [apply IH; assumption|].
  apply Forall_app. split; [assumption|]. constructor; [assumption|constructor].
Qed.

(* ---------- the invariant ---------- *)
Section Store.
Variable HT : nat.
Variable node : N -> N -> N.
Hypothesis node_inj : forall a b c d, node a b = node c d -> a = c /\ b = d.
Variable zhf : nat -> N.
Hypothesis Hzh : forall h, h <= HT -> zhf h = zero node 0%N h.
Variable f : nat -> N.                (* f i = leaf of index i in the current history *)
Notation sub := (sub node 0%N f).
Notation CacheInv := (CacheInv node 0%N f).
Notation Closed := (Closed node 0%N f).

Definition roots_ok (rs : list root_row) (n : nat) : Prop :=
  map r_hash rs = map (fun i => sub HT 0 (S i)) (seq 0 n) /\ map r_pos rs = map N.of_nat (seq 0 n).

Record TInv (db : tdb) (n : nat) : Prop := {
  ti_roots : roots_ok (t_roots db) n;
  ti_sorted : StronglySorted row_lt (t_roots db);
  ti_wf : WF node (lookup db);
  ti_closed : forall k, k <= n -> Closed HT (lookup db) k;
  ti_bound : n <= 2 ^ HT }.

(* memory: either marked invalid (-2: next AddLeaf re-initialises) or a valid frontier for version n *)
Definition MemInv (mem : tmem) (n : nat) : Prop :=
  m_last mem = (-2)%Z \/
  (m_last mem = (Z.of_nat n - 1)%Z /\ CacheInv HT n (cache_of_list 0%N (m_cache mem))).

Lemma TInv_empty : TInv tdb_empty 0.
Proof.
  constructor.
  - split; reflexivity.
  - constructor.
  - intros k l r H. unfold lookup, tdb_empty in H. cbn [t_rht] in H. rewrite NMF.empty_o in H. discriminate.
  - intros k Hk. replace k with 0 by lia. apply Closed_0.
  - apply Nat.le_0_l.
Qed.
Lemma MemInv_new n : MemInv tmem_new n.
Proof. left. reflexivity. Qed.
(* restart, rollback of appended leaves, reorg: the memory is invalidated; always consistent *)
Lemma MemInv_invalidate c n : MemInv (mkTmem (-2)%Z c) n.
Proof. left. reflexivity. Qed.

Lemma roots_len db n : TInv db n -> length (t_roots db) = n.
Proof. intros [[H _] _ _ _ _]. apply (f_equal (@length _)) in H. rewrite !map_length, seq_length in H. exact H. Qed.

(* ---------- initCache ---------- *)
Lemma CacheInv_roundtrip n c : CacheInv HT n c -> CacheInv HT n (cache_of_list 0%N (cache_to_list HT c)).
Proof. intros H h Hh Hb. rewrite cache_roundtrip by exact Hh. apply H; assumption. Qed.

Lemma init_cache_ok db n : TInv db n ->
  exists mem', Gen.init_cache HT db = inr mem' /\ m_last mem' = (Z.of_nat n - 1)%Z /\
               CacheInv HT n (cache_of_list 0%N (m_cache mem')).
Proof.
  intros Hi. pose proof (roots_len db n Hi) as Hlen. destruct Hi as [[Hh Hp] Hs Hw Hc Hb].
  unfold Gen.init_cache. rewrite (last_root_sorted db Hs).
  destruct (t_roots db) as [|r0 rs] eqn:Ers.
  - cbn in Hlen. subst n. eexists. split; [reflexivity|]. split; [reflexivity|]. apply CacheInv_0.
  - set (lr := last (r0 :: rs) (mkRoot 0 0 0 0)).
    assert (Hn : 0 < n) by (rewrite <- Hlen; cbn; lia).
    assert (Ehash : r_hash lr = sub HT 0 n).
    { unfold lr. change (r_hash (last (r0 :: rs) (mkRoot 0 0 0 0))) with (r_hash (last (r0 :: rs) (mkRoot 0 0 0 0))).
      rewrite <- (last_map r_hash (r0 :: rs) (mkRoot 0 0 0 0)) by discriminate. rewrite Hh.
      replace n with (S (n - 1)) at 1 by lia. rewrite seq_S, map_app. cbn [map Nat.add].
      rewrite last_last. f_equal. lia. }
    assert (Epos : r_pos lr = N.of_nat (n - 1)).
    { unfold lr. rewrite <- (last_map r_pos (r0 :: rs) (mkRoot 0 0 0 0)) by discriminate. rewrite Hp.
      replace n with (S (n - 1)) at 1 by lia. rewrite seq_S, map_app. cbn [map Nat.add]. rewrite last_last. reflexivity. }
    rewrite Ehash, Epos.
    destruct (init_cache_inv node 0%N f (lookup db) n HT (cache_of_list 0%N (repeat 0%N HT)) (Hc n (le_n _)) Hn Hb)
      as (c' & Hw' & Hinv).
    rewrite (init_walk_ext (lookup db) HT _ (bitN (N.of_nat (n - 1))) (Nat.testbit (n - 1)) _ (bitN_of_nat (n - 1))).
    unfold mroot in *. rewrite Hw'. eexists. split; [reflexivity|]. cbn [m_last m_cache]. split.
    + rewrite nat_N_Z. lia.
    + apply CacheInv_roundtrip. exact Hinv.
Qed.

(* ---------- the hashing loop of AddLeaf, on the executable representation ---------- *)
Lemma high_bits n : n < 2 ^ HT -> forall h, HT <= h -> Nat.testbit n h = false.
Proof.
  intros Hn h Hh. rewrite (testbit_div n h). rewrite Nat.div_small; [reflexivity|].
  apply Nat.lt_le_trans with (2 ^ HT); [exact Hn|]. apply Nat.pow_le_mono_r; lia.
Qed.

Lemma climb3_exec n c r c' ns : n < 2 ^ HT -> CacheInv HT n c ->
  climb3 node zhf HT 0 (bitN (N.of_nat n)) (f n) c = (r, c', ns) ->
  r = sub HT 0 (S n) /\ CacheInv HT (S n) c' /\
  (forall m, ins_all N.eq_dec m ns = ins_path node 0%N f N.eq_dec m n HT).
Proof.
  intros Hn Hinv E.
  pose proof (climb3_climb node zhf HT 0 (bitN (N.of_nat n)) (f n) c) as H3. rewrite E in H3. destruct H3 as [Ec Ens].
  assert (Ec' : (r, c') = climb node (zero node 0%N) HT 0 (Nat.testbit n) (f n) c).
  { rewrite Ec. rewrite (climb_ext node zhf HT 0 _ (Nat.testbit n) _ _ (bitN_of_nat n)).
    apply (climb_zh_ext node zhf zhf (zero node 0%N)). intros k Hk. apply Hzh. lia. }
  assert (Ens' : ns = climb_nodes node (zero node 0%N) HT 0 (Nat.testbit n) (f n) c).
  { rewrite Ens. rewrite (climb_nodes_ext node zhf HT 0 _ (Nat.testbit n) _ _ (bitN_of_nat n)).
    apply (climb_nodes_zh_ext node zhf zhf (zero node 0%N)). intros k Hk. apply Hzh. lia. }
  pose proof (add_leaf_root node 0%N f HT n c Hinv (high_bits n Hn)) as Hr.
  pose proof (add_leaf_preserves node 0%N f HT n c Hinv (high_bits n Hn)) as Hp.
  unfold add_leaf in Hr, Hp. rewrite <- Ec' in Hr, Hp. cbn [fst snd] in Hr, Hp.
  split; [|split].
  - rewrite Hr. rewrite Nat.div_small by exact Hn. reflexivity.
  - exact Hp.
  - intros m. rewrite Ens'. exact (add_leaf_nodes_are_path node 0%N f N.eq_dec HT n c Hinv (high_bits n Hn) m).
Qed.

(* meq-compatibility of the theory's predicates *)
Lemma WF_meq m m' : meq m m' -> WF node m' -> WF node m.
Proof. intros E H k l r Hk. apply H. rewrite <- (E k). exact Hk. Qed.
Lemma Closed_meq H m m' k : meq m m' -> Closed H m' k -> Closed H m k.
Proof. intros E Hc h j Hh Hj. rewrite (E _). apply Hc; assumption. Qed.

(* ---------- AddLeaf of the next index on a store satisfying the invariant ---------- *)
Definition fresh_pos (db : tdb) (blk bpos : N) : Prop := Forall (fun r => row_lt r (mkRoot 0 0 blk bpos)) (t_roots db).
Definition root_new (db : tdb) (n : nat) : Prop := forall r, In r (t_roots db) -> r_hash r <> sub HT 0 (S n).

Lemma row_lt_pos r h p blk bpos : row_lt r (mkRoot 0 0 blk bpos) -> row_lt r (mkRoot h p blk bpos).
Proof. unfold row_lt. cbn. tauto. Qed.

Lemma chk_ok db mem n blk bpos : TInv db n -> n < 2 ^ HT ->
  m_last mem = (Z.of_nat n - 1)%Z -> CacheInv HT n (cache_of_list 0%N (m_cache mem)) ->
  fresh_pos db blk bpos -> root_new db n ->
  exists mem' db', Gen.add_leaf_exec HT node zhf db mem blk bpos (N.of_nat n) (f n) = (mem', inr db') /\
    TInv db' (S n) /\ MemInv (Gen.mem_commit_leaf mem') (S n) /\
    t_roots db' = t_roots db ++ [mkRoot (sub HT 0 (S n)) (N.of_nat n) blk bpos].
Proof.
  intros Hi Hn Hlast Hcache Hfresh Hnew.
  unfold Gen.add_leaf_exec.
  assert (Eidx : Z.eqb (Z.of_N (N.of_nat n)) (m_last mem + 1)%Z = true).
  { apply Z.eqb_eq. rewrite Hlast, nat_N_Z. lia. }
  rewrite Eidx.
  destruct (climb3 node zhf HT 0 (bitN (N.of_nat n)) (f n) (cache_of_list 0%N (m_cache mem))) as [[r c'] ns] eqn:E3.
  destruct (climb3_exec n _ r c' ns Hn Hcache E3) as (Er & Hc' & Hns). subst r.
  unfold store_root. cbn [r_hash].
  assert (Eex : existsb (fun x => N.eqb (r_hash x) (sub HT 0 (S n))) (t_roots db) = false).
  { apply not_true_iff_false. intros Ht. apply existsb_exists in Ht as (x & Hx & Ex).
    apply N.eqb_eq in Ex. exact (Hnew x Hx Ex). }
  rewrite Eex. cbn [t_roots t_rht].
  destruct Hi as [[Hh Hp] Hs Hw Hc Hb].
  eexists. eexists. split; [reflexivity|]. split; [|split; [|reflexivity]].
  - assert (Emeq : meq (lookup (mkTdb (t_roots db ++ [mkRoot (sub HT 0 (S n)) (N.of_nat n) blk bpos]) (store_nodes (t_rht db) ns)))
                       (ins_path node 0%N f N.eq_dec (lookup db) n HT)).
    { intros x. rewrite lookup_lk. cbn [t_rht]. rewrite (lk_store_nodes ns (t_rht db) x). rewrite Hns. reflexivity. }
    constructor.
    + split; cbn [t_roots]; rewrite map_app, seq_S, map_app; cbn [map Nat.add r_hash r_pos]; [rewrite Hh|rewrite Hp]; reflexivity.
    + cbn [t_roots]. apply SSorted_snoc; [exact Hs|].
      eapply Forall_impl; [|exact Hfresh]. intros a Ha. apply row_lt_pos. exact Ha.
    + eapply WF_meq; [exact Emeq|]. apply ins_path_WF. exact Hw.
    + intros k Hk. eapply Closed_meq; [exact Emeq|].
      destruct (Nat.eq_dec k (S n)) as [->|Hne].
      * apply append_keeps_closed; [exact node_inj|exact Hw|apply Hc; lia|exact Hn].
      * apply Closed_ins_path. apply Hc. lia.
    + lia.
  - right. cbn [Gen.mem_commit_leaf m_last m_cache]. split.
    + rewrite Hlast. lia.
    + apply CacheInv_roundtrip. exact Hc'.
Qed.

Theorem add_leaf_ok db mem n blk bpos : TInv db n -> MemInv mem n -> n < 2 ^ HT ->
  fresh_pos db blk bpos -> root_new db n ->
  exists mem' db', Gen.add_leaf_exec HT node zhf db mem blk bpos (N.of_nat n) (f n) = (mem', inr db') /\
    TInv db' (S n) /\ MemInv (Gen.mem_commit_leaf mem') (S n) /\
    t_roots db' = t_roots db ++ [mkRoot (sub HT 0 (S n)) (N.of_nat n) blk bpos].
Proof.
  intros Hi Hm Hn Hfresh Hnew. destruct Hm as [Hinv|[Hlast Hcache]].
  - (* invalid cache: initCache first *)
    destruct (init_cache_ok db n Hi) as (mem0 & E0 & Hl0 & Hc0).
    destruct (chk_ok db mem0 n blk bpos Hi Hn Hl0 Hc0 Hfresh Hnew) as (mem' & db' & E & R).
    exists mem', db'. split; [|exact R].
    unfold Gen.add_leaf_exec in *. rewrite Hinv.
    assert (E1 : Z.eqb (Z.of_N (N.of_nat n)) (-2 + 1)%Z = false) by (apply Z.eqb_neq; lia). rewrite E1.
    rewrite E0.
    assert (E2 : Z.eqb (Z.of_N (N.of_nat n)) (m_last mem0 + 1)%Z = true) by (apply Z.eqb_eq; rewrite Hl0, nat_N_Z; lia).
    rewrite E2 in *. exact E.
  - apply chk_ok; assumption.
Qed.

(* a leaf whose index is not the next one is rejected (ErrInvalidIndex), whatever the memory, and the store is untouched *)
Theorem add_leaf_wrong_index db mem n idx blk bpos leaf : TInv db n -> MemInv mem n -> idx <> N.of_nat n ->
  exists mem', Gen.add_leaf_exec HT node zhf db mem blk bpos idx leaf = (mem', inl EInvalidIndex) /\ MemInv mem' n.
Proof.
  intros Hi Hm Hne.
  destruct (init_cache_ok db n Hi) as (mem0 & E0 & Hl0 & Hc0).
  assert (Eneq : forall m, m_last m = (Z.of_nat n - 1)%Z -> Z.eqb (Z.of_N idx) (m_last m + 1)%Z = false).
  { intros m Hl. apply Z.eqb_neq. rewrite Hl. intros E. apply Hne. apply N2Z.inj. rewrite nat_N_Z. lia. }
  unfold Gen.add_leaf_exec. destruct Hm as [Hinv|[Hlast Hcache]].
  - rewrite Hinv. assert (E1 : Z.eqb (Z.of_N idx) (-2 + 1)%Z = false) by (apply Z.eqb_neq; lia). rewrite E1, E0.
    rewrite (Eneq mem0 Hl0). exists mem0. split; [reflexivity|]. right. split; assumption.
  - rewrite (Eneq mem Hlast), E0, (Eneq mem0 Hl0). exists mem0. split; [reflexivity|]. right. split; assumption.
Qed.
End Store.

(* ---------- dependence on the leaf function only below the version; distinct versions have distinct roots ---------- *)
Section LeafFun.
Variable node : N -> N -> N.
Hypothesis node_inj : forall a b c d, node a b = node c d -> a = c /\ b = d.

Lemma sub_ext f g h : forall k n, (forall i, i < n -> f i = g i) -> sub node 0%N f h k n = sub node 0%N g h k n.
Proof.
  induction h as [|h IH]; intros k n E; cbn [sub].
  - destruct (Nat.ltb_spec k n); [apply E; assumption|reflexivity].
  - f_equal; apply IH; exact E.
Qed.

(* equal subtree hashes of two versions => the two versions cover the same positions of that subtree
   (leaves below nmax are not the zero leaf: a leaf hash is never 0) *)
Lemma sub_inj_cover f nmax (Hnz : forall i, i < nmax -> f i <> 0%N) h : forall k n1 n2, n1 <= nmax -> n2 <= nmax ->
  sub node 0%N f h k n1 = sub node 0%N f h k n2 ->
  forall j, k * 2 ^ h <= j < (k + 1) * 2 ^ h -> (j < n1 <-> j < n2).
Proof.
  induction h as [|h IH]; intros k n1 n2 Hn1 Hn2 E j Hj.
  - cbn [sub] in E. rewrite Nat.pow_0_r in Hj. assert (j = k) by lia. subst j.
    destruct (Nat.ltb_spec k n1), (Nat.ltb_spec k n2); try tauto; try lia.
    + exfalso. apply (Hnz k); [lia|exact E].
    + exfalso. symmetry in E. apply (Hnz k); [lia|exact E].
  - cbn [sub] in E. apply node_inj in E as [E1 E2].
    assert (Hp : 0 < 2 ^ h) by (apply Nat.neq_0_lt_0, Nat.pow_nonzero; lia).
    rewrite Nat.pow_succ_r' in Hj.
    destruct (Nat.lt_ge_cases j ((2 * k + 1) * 2 ^ h)).
    + apply (IH _ _ _ Hn1 Hn2 E1). nia.
    + apply (IH _ _ _ Hn1 Hn2 E2). nia.
Qed.
Lemma roots_distinct f H i n (Hnz : forall j, j < S n -> f j <> 0%N) : i < n -> n < 2 ^ H ->
  sub node 0%N f H 0 (S i) <> sub node 0%N f H 0 (S n).
Proof.
  intros Hi Hn E. pose proof (sub_inj_cover f (S n) Hnz H 0 (S i) (S n) ltac:(lia) ltac:(lia) E n ltac:(lia)) as [_ Hc]. lia.
Qed.
End LeafFun.

(* ---------- invariants only look at the leaves below the version ---------- *)
Section ExtInv.
Variable HT : nat.
Variable node : N -> N -> N.
Lemma CacheInv_ext f g n c : (forall i, i < n -> f i = g i) -> CacheInv node 0%N f HT n c -> CacheInv node 0%N g HT n c.
Proof. intros E Hc h Hh Hb. rewrite (Hc h Hh Hb). apply sub_ext. exact E. Qed.
Lemma Closed_ext f g m k : (forall i, i < k -> f i = g i) -> Closed node 0%N f HT m k -> Closed node 0%N g HT m k.
Proof.
  intros E Hc h j Hh Hj. rewrite <- !(sub_ext node f g _ _ k E). apply Hc; assumption.
Qed.
Lemma TInv_ext f g db n : (forall i, i < n -> f i = g i) -> TInv HT node f db n -> TInv HT node g db n.
Proof.
  intros E [[Hh Hp] Hs Hw Hc Hb]. constructor; try assumption.
  - split; [|exact Hp]. rewrite Hh. apply map_ext_in. intros i Hi. apply in_seq in Hi.
    apply sub_ext. intros x Hx. apply E. lia.
  - intros k Hk. apply (Closed_ext f g). { intros i Hi. apply E. lia. } apply Hc. exact Hk.
Qed.
Lemma MemInv_ext f g mem n : (forall i, i < n -> f i = g i) -> MemInv HT node f mem n -> MemInv HT node g mem n.
Proof. intros E [H|[H1 H2]]; [left; exact H|right; split; [exact H1|apply (CacheInv_ext f g); assumption]]. Qed.
End ExtInv.

(* ---------- Tree.Reorg on a sorted root table keeps a prefix ---------- *)
Lemma filter_sorted_prefix (rs : list root_row) b : StronglySorted row_lt rs ->
  filter (fun r => (r_block r <? b)%N) rs = firstn (length (filter (fun r => (r_block r <? b)%N) rs)) rs.
Proof.
  induction rs as [|r rs IH]; intros Hs; [reflexivity|]. inversion Hs as [|? ? Hs' Hr]; subst.
  cbn [filter]. destruct (N.ltb_spec (r_block r) b) as [Hlt|Hge].
  - cbn [length firstn]. f_equal. apply IH. exact Hs'.
  - (* every later row has a block >= r's, so nothing survives *)
    assert (E : filter (fun r0 => (r_block r0 <? b)%N) rs = []).
    { clear IH Hs Hs'. induction rs as [|x rs IH]; [reflexivity|]. inversion Hr; subst. cbn [filter].
      assert (Hx : (r_block x <? b)%N = false).
      { apply N.ltb_ge. unfold row_lt in *. destruct H1 as [H1|[H1 _]]; lia. }
      rewrite Hx. apply IH. assumption. }
    rewrite E. reflexivity.
Qed.
Lemma firstn_seq_le k : forall s n, k <= n -> firstn k (seq s n) = seq s k.
Proof.
  induction k as [|k IH]; intros s n H; [reflexivity|]. destruct n as [|n]; [lia|]. cbn [seq firstn]. f_equal. apply IH. lia.
Qed.
Lemma filter_len_le {A} (p : A -> bool) l : length (filter p l) <= length l.
Proof. induction l as [|x l IH]; [apply le_n|]. cbn [filter]. destruct (p x); cbn [length]; lia. Qed.
Lemma In_firstn {A} k : forall (l : list A) y, In y (firstn k l) -> In y l.
Proof.
  induction k as [|k IH]; intros l y Hy; [destruct Hy|]. destruct l as [|x l]; [destruct Hy|].
  cbn [firstn] in Hy. destruct Hy as [->|Hy]; [left; reflexivity|right; apply IH; exact Hy].
Qed.
Lemma SSorted_firstn {A} (R : A -> A -> Prop) k l : StronglySorted R l -> StronglySorted R (firstn k l).
Proof.
  revert l. induction k as [|k IH]; intros l Hs; [constructor|]. destruct l as [|x l]; [constructor|].
  inversion Hs; subst. cbn [firstn]. constructor; [apply IH; assumption|].
  apply Forall_forall. intros y Hy. rewrite Forall_forall in H2. apply H2. apply (In_firstn k). exact Hy.
Qed.

(* ---------- every reachable state of the tree store satisfies the invariant ---------- *)
Section Reach.
Variable HT : nat.
Variable node : N -> N -> N.
Hypothesis node_inj : forall a b c d, node a b = node c d -> a = c /\ b = d.
Variable zhf : nat -> N.
Hypothesis Hzh : forall h, h <= HT -> zhf h = zero node 0%N h.

(* the current history: the appended leaves in order, each with the (block, position) it was recorded at;
   `lf` reads it as a leaf function (0 beyond the end; never looked at) *)
Definition hist := list (N * (N * N)).
Definition lf (L : hist) : nat -> N := fun i => fst (nth i L (0%N, (0%N, 0%N))).
Lemma lf_app_below L x i : i < length L -> lf L i = lf (L ++ [x]) i.
Proof. intros H. unfold lf. rewrite app_nth1 by exact H. reflexivity. Qed.
Lemma lf_app_last L x : lf (L ++ [x]) (length L) = fst x.
Proof. unfold lf. rewrite app_nth2 by lia. rewrite Nat.sub_diag. reflexivity. Qed.
Lemma lf_firstn L k i : i < k -> lf (firstn k L) i = lf L i.
Proof.
  unfold lf. revert L i. induction k as [|k IH]; intros L i Hi; [lia|]. destruct L as [|x L]; [destruct i; reflexivity|].
  cbn [firstn]. destruct i as [|i]; [reflexivity|]. cbn [nth]. apply IH. lia.
Qed.
Definition labels_ok (rs : list root_row) (L : hist) : Prop := map (fun r => (r_block r, r_bpos r)) rs = map snd L.

(* Operations as seen by the tree: a successful AddLeaf of the next index; an AddLeaf with another index; an AddLeaf of the
   next index whose transaction is abandoned after the hashing loop (storage fault: db unchanged, memory written);
   invalidation of the memory with arbitrary cache content (process restart, rollback callback, reorg);
   Tree.Reorg. A rollback returns to an earlier reachable database, i.e. it is `R_inval`/`R_abort` applied to that state. *)
Inductive Reach : tdb -> tmem -> hist -> Prop :=
| R_init : Reach tdb_empty tmem_new []
| R_add db mem L blk bpos leaf mem' db' :
    Reach db mem L -> fresh_pos db blk bpos -> leaf <> 0%N -> length L < 2 ^ HT ->
    Gen.add_leaf_exec HT node zhf db mem blk bpos (N.of_nat (length L)) leaf = (mem', inr db') ->
    Reach db' (Gen.mem_commit_leaf mem') (L ++ [(leaf, (blk, bpos))])
| R_abort db mem L blk bpos leaf mem' db' :
    Reach db mem L -> fresh_pos db blk bpos -> leaf <> 0%N -> length L < 2 ^ HT ->
    Gen.add_leaf_exec HT node zhf db mem blk bpos (N.of_nat (length L)) leaf = (mem', inr db') ->
    Reach db mem' L
| R_wrong db mem L blk bpos idx leaf mem' r :
    Reach db mem L -> idx <> N.of_nat (length L) ->
    Gen.add_leaf_exec HT node zhf db mem blk bpos idx leaf = (mem', r) ->
    Reach db mem' L
| R_inval db mem L c : Reach db mem L -> Reach db (mkTmem (-2)%Z c) L
| R_reorg db mem L b c : Reach db mem L ->
    Reach (tree_reorg db b) (mkTmem (-2)%Z c) (firstn (length (t_roots (tree_reorg db b))) L).

Definition nonzero (L : hist) : Prop := Forall (fun x => fst x <> 0%N) L.
Lemma nonzero_lf L : nonzero L -> forall i, i < length L -> lf L i <> 0%N.
Proof. intros H i Hi. unfold lf. unfold nonzero in H. rewrite Forall_forall in H. apply H. apply nth_In. exact Hi. Qed.

Lemma root_new_ok L db : TInv HT node (lf L) db (length L) -> length L < 2 ^ HT -> forall x, nonzero (L ++ [x]) ->
  root_new HT node (lf (L ++ [x])) db (length L).
Proof.
  intros Hi Hn x Hnz r Hr E.
  destruct Hi as [[Hh _] _ _ _ _].
  apply (in_map r_hash) in Hr. rewrite Hh in Hr. apply in_map_iff in Hr as (i & Ei & Hi). apply in_seq in Hi.
  rewrite E in Ei.
  assert (Hsub : sub node 0%N (lf L) HT 0 (S i) = sub node 0%N (lf (L ++ [x])) HT 0 (S i)).
  { apply sub_ext. intros j Hj. apply lf_app_below. lia. }
  rewrite Hsub in Ei.
  refine (roots_distinct node node_inj (lf (L ++ [x])) HT i (length L) _ ltac:(lia) Hn Ei).
  intros j Hj. apply nonzero_lf; [exact Hnz|]. rewrite app_length. cbn. lia.
Qed.

(* the aborted AddLeaf leaves a memory that is still valid for the unchanged version *)
Lemma abort_mem_ok f db mem n blk bpos mem' db' : TInv HT node f db n -> MemInv HT node f mem n -> n < 2 ^ HT ->
  Gen.add_leaf_exec HT node zhf db mem blk bpos (N.of_nat n) (f n) = (mem', inr db') -> MemInv HT node f mem' n.
Proof.
  intros Hi Hm Hn E.
  assert (Hkey : forall m0, m_last m0 = (Z.of_nat n - 1)%Z -> CacheInv node 0%N f HT n (cache_of_list 0%N (m_cache m0)) ->
     forall r c' ns, climb3 node zhf HT 0 (bitN (N.of_nat n)) (f n) (cache_of_list 0%N (m_cache m0)) = (r, c', ns) ->
     MemInv HT node f (mkTmem (m_last m0) (cache_to_list HT c')) n).
  { intros m0 Hl Hc r c' ns E3. right. cbn [m_last m_cache]. split; [exact Hl|].
    apply CacheInv_roundtrip.
    pose proof (climb3_climb node zhf HT 0 (bitN (N.of_nat n)) (f n) (cache_of_list 0%N (m_cache m0))) as H3.
    rewrite E3 in H3. destruct H3 as [Ec _].
    intros h Hh Hb.
    assert (Ec' : c' h = cache_of_list 0%N (m_cache m0) h).
    { change c' with (snd (r, c')). rewrite Ec.
      rewrite (climb_ext node zhf HT 0 _ (Nat.testbit n) _ _ (bitN_of_nat n)).
      rewrite (climb_zh_ext node zhf zhf (zero node 0%N) HT 0 (Nat.testbit n) (f n) _).
      - apply (climb_cache_kept node 0%N). right. right. exact Hb.
      - intros k Hk. apply Hzh. lia. }
    rewrite Ec'. apply Hc; assumption. }
  unfold Gen.add_leaf_exec in E.
  destruct Hm as [Hinv|[Hlast Hcache]].
  - rewrite Hinv in E. assert (E1 : Z.eqb (Z.of_N (N.of_nat n)) (-2 + 1)%Z = false) by (apply Z.eqb_neq; lia).
    rewrite E1 in E. destruct (init_cache_ok HT node zhf Hzh f db n Hi) as (mem0 & E0 & Hl0 & Hc0). rewrite E0 in E.
    assert (E2 : Z.eqb (Z.of_N (N.of_nat n)) (m_last mem0 + 1)%Z = true) by (apply Z.eqb_eq; rewrite Hl0, nat_N_Z; lia).
    rewrite E2 in E.
    destruct (climb3 node zhf HT 0 (bitN (N.of_nat n)) (f n) (cache_of_list 0%N (m_cache mem0))) as [[r c'] ns] eqn:E3.
    destruct (store_root db _) as [db1|]; inversion E; subst. eapply Hkey; eassumption.
  - assert (E2 : Z.eqb (Z.of_N (N.of_nat n)) (m_last mem + 1)%Z = true) by (apply Z.eqb_eq; rewrite Hlast, nat_N_Z; lia).
    rewrite E2 in E.
    destruct (climb3 node zhf HT 0 (bitN (N.of_nat n)) (f n) (cache_of_list 0%N (m_cache mem))) as [[r c'] ns] eqn:E3.
    destruct (store_root db _) as [db1|]; inversion E; subst. eapply Hkey; eassumption.
Qed.

Theorem Reach_inv db mem L : Reach db mem L ->
  TInv HT node (lf L) db (length L) /\ MemInv HT node (lf L) mem (length L) /\ nonzero L /\ labels_ok (t_roots db) L.
Proof.
  induction 1 as [ | db mem L blk bpos leaf mem' db' HR IH Hfresh Hleaf Hlen E
                   | db mem L blk bpos leaf mem' db' HR IH Hfresh Hleaf Hlen E
                   | db mem L blk bpos idx leaf mem' r HR IH Hidx E
                   | db mem L c HR IH | db mem L b c HR IH ].
  - split; [apply (TInv_empty HT node node_inj zhf Hzh)|split; [apply MemInv_new|split; [constructor|reflexivity]]].
  - destruct IH as (Hi & Hm & Hnz & Hlab).
    assert (Hnz' : nonzero (L ++ [(leaf, (blk, bpos))])) by (apply Forall_app; split; [exact Hnz|repeat constructor; exact Hleaf]).
    set (g := lf (L ++ [(leaf, (blk, bpos))])).
    assert (Eg : forall i, i < length L -> lf L i = g i) by (intros i Hi'; apply lf_app_below; exact Hi').
    pose proof (TInv_ext HT node (lf L) g db _ Eg Hi) as Hi'.
    pose proof (MemInv_ext HT node (lf L) g mem _ Eg Hm) as Hm'.
    pose proof (root_new_ok L db Hi Hlen (leaf, (blk, bpos)) Hnz') as Hnew.
    destruct (add_leaf_ok HT node node_inj zhf Hzh g db mem (length L) blk bpos Hi' Hm' Hlen Hfresh Hnew)
      as (mem2 & db2 & E2 & Hi2 & Hm2 & Hroots).
    unfold g in E2. rewrite lf_app_last in E2. cbn [fst] in E2. rewrite E in E2. inversion E2; subst.
    rewrite app_length. cbn [length]. rewrite Nat.add_1_r. split; [exact Hi2|split; [exact Hm2|split; [exact Hnz'|]]].
    unfold labels_ok. rewrite Hroots, !map_app. cbn [map r_block r_bpos snd]. rewrite Hlab. reflexivity.
  - destruct IH as (Hi & Hm & Hnz & Hlab). split; [exact Hi|split; [|split; [exact Hnz|exact Hlab]]].
    (* run the aborted add in the extended leaf function, then come back *)
    set (g := lf (L ++ [(leaf, (blk, bpos))])).
    assert (Eg : forall i, i < length L -> lf L i = g i) by (intros i Hi'; apply lf_app_below; exact Hi').
    assert (Eg' : forall i, i < length L -> g i = lf L i) by (intros i Hi'; symmetry; apply Eg; exact Hi').
    apply (MemInv_ext HT node g (lf L) mem' _ Eg').
    apply (abort_mem_ok g db mem (length L) blk bpos mem' db').
    + apply (TInv_ext HT node (lf L) g); assumption.
    + apply (MemInv_ext HT node (lf L) g); assumption.
    + exact Hlen.
    + unfold g. rewrite lf_app_last. exact E.
  - destruct IH as (Hi & Hm & Hnz & Hlab). split; [exact Hi|split; [|split; [exact Hnz|exact Hlab]]].
    destruct (add_leaf_wrong_index HT node node_inj zhf Hzh (lf L) db mem (length L) idx blk bpos leaf Hi Hm Hidx) as (mem2 & E2 & Hm2).
    rewrite E in E2. inversion E2; subst. exact Hm2.
  - destruct IH as (Hi & _ & Hnz & Hlab). split; [exact Hi|split; [apply MemInv_invalidate|split; [exact Hnz|exact Hlab]]].
  - destruct IH as (Hi & _ & Hnz & Hlab).
    set (k := length (t_roots (tree_reorg db b))).
    assert (Hk : k <= length L).
    { unfold k, tree_reorg. cbn [t_roots]. rewrite <- (roots_len HT node (lf L) db _ Hi). apply filter_len_le. }
    assert (Elen : length (firstn k L) = k) by (rewrite firstn_length; lia).
    rewrite Elen.
    assert (Eg : forall i, i < k -> lf L i = lf (firstn k L) i) by (intros i Hi'; symmetry; apply lf_firstn; exact Hi').
    assert (Epre : t_roots (tree_reorg db b) = firstn k (t_roots db)).
    { unfold k, tree_reorg. cbn [t_roots]. apply filter_sorted_prefix. destruct Hi. assumption. }
    split; [|split; [apply MemInv_invalidate|split; [apply Forall_forall; intros x Hx; unfold nonzero in Hnz; rewrite Forall_forall in Hnz; apply Hnz; apply (In_firstn k); exact Hx|]]].
    2:{ unfold labels_ok in *. rewrite Epre, <- !firstn_map, Hlab. reflexivity. }
    apply (TInv_ext HT node (lf L) (lf (firstn k L)) _ k Eg).
    destruct Hi as [[Hh Hp] Hs Hw Hc Hb].
    constructor.
    + split; rewrite Epre, <- firstn_map; [rewrite Hh|rewrite Hp]; rewrite firstn_map, (firstn_seq_le k 0 (length L) Hk); reflexivity.
    + rewrite Epre. apply SSorted_firstn. exact Hs.
    + exact Hw.
    + intros j Hj. apply Hc. lia.
    + lia.
Qed.
End Reach.
