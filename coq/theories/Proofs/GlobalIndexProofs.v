From Coq Require Import NArith List Lia Bool ZArith.
From Coq Require Import ZifyN ZifyNat ZifyBool.
From Verif Require Import Base.Bytes Model.GlobalIndex.
Import ListNotations.
Open Scope N_scope.

Lemma p32 : 256 ^ N.of_nat 4 = 2 ^ 32. Proof. reflexivity. Qed.
Lemma p64 : 256 ^ N.of_nat 8 = 2 ^ 64. Proof. reflexivity. Qed.

Lemma big_bytes_1 : big_bytes 1 = [1].
Proof. vm_compute. reflexivity. Qed.

Lemma encode_layout m r l : r < 2^32 -> l < 2^32 -> encode m r l = (if m then 2^64 else r * 2^32) + l.
Proof.
  intros Hr Hl. unfold encode, gi_part_size. destruct m.
  - rewrite big_bytes_1. rewrite !of_be_app, !app_length, !be_length, !of_be_be by (cbn; lia).
    rewrite of_be_single. change (256 ^ N.of_nat (4+4)) with (2^64). lia.
  - rewrite of_be_app, be_length, !of_be_be by (cbn; lia). change (256 ^ N.of_nat 4) with (2^32). lia.
Qed.

Lemma big_bytes_ok v : bytes_ok (big_bytes v).
Proof. apply strip_ok, be_ok. Qed.
Lemma big_bytes_val v : v < 2^256 -> of_be (big_bytes v) = v.
Proof. intros H. unfold big_bytes. rewrite strip_val. apply of_be_be. exact H. Qed.
Lemma big_bytes_len_le v : (length (big_bytes v) <= 32)%nat.
Proof. unfold big_bytes. pose proof (strip_length_le (be 32 v)). rewrite be_length in *. lia. Qed.

(* length of the minimal encoding brackets the value *)
Lemma big_bytes_bounds v : v < 2^256 ->
  let l := length (big_bytes v) in
  v < 256 ^ N.of_nat l /\ (l <> 0%nat -> 256 ^ N.of_nat (l - 1) <= v).
Proof.
  intros Hv l. subst l. unfold big_bytes. split.
  - pose proof (strip_len_upper (be 32 v) (be_ok 32 v)) as H. rewrite of_be_be in H by exact Hv. exact H.
  - intros Hne. pose proof (strip_len_lower (be 32 v) (be_ok 32 v)) as H.
    rewrite of_be_be in H by exact Hv. apply H. intros E. rewrite E in Hne. cbn in Hne. congruence.
Qed.
Lemma big_bytes_zero_len v : v < 2^256 -> length (big_bytes v) = 0%nat -> v = 0.
Proof. intros Hv Hl. pose proof (big_bytes_bounds v Hv) as [H _]. rewrite Hl in H. change (256 ^ N.of_nat 0) with 1 in H. lia. Qed.

Lemma pow256_mono a b : (a <= b)%nat -> 256 ^ N.of_nat a <= 256 ^ N.of_nat b.
Proof. intros H. apply N.pow_le_mono_r; lia. Qed.

(* length = 9  <->  2^64 <= v < 2^72 *)
Lemma len9_iff v : v < 2^256 -> (length (big_bytes v) = 9%nat <-> 2^64 <= v /\ v < 2^72).
Proof.
  intros Hv. pose proof (big_bytes_bounds v Hv) as [Hu Hl]. cbv zeta in Hu, Hl.
  set (l := length (big_bytes v)) in *. split.
  - intros E. rewrite E in *. specialize (Hl ltac:(lia)).
    change (256 ^ N.of_nat 9) with (2^72) in Hu. change (256 ^ N.of_nat (9-1)) with (2^64) in Hl. lia.
  - intros [H1 H2]. destruct (Nat.lt_trichotomy l 9) as [Hlt|[E|Hgt]]; [|exact E|].
    + pose proof (pow256_mono l 8 ltac:(lia)) as Hm. change (256 ^ N.of_nat 8) with (2^64) in Hm. lia.
    + specialize (Hl ltac:(lia)). pose proof (pow256_mono 9 (l-1) ltac:(lia)) as Hm.
      change (256 ^ N.of_nat 9) with (2^72) in Hm. lia.
Qed.

Lemma div_mod_split v j k : (k <= j)%nat ->
  (v mod 256 ^ N.of_nat j) / 256 ^ N.of_nat k = (v / 256 ^ N.of_nat k) mod 256 ^ N.of_nat (j - k).
Proof.
  intros Hkj.
  replace (256 ^ N.of_nat j) with (256 ^ N.of_nat k * 256 ^ N.of_nat (j - k)).
  2:{ rewrite <- N.pow_add_r. f_equal. lia. }
  pose proof (pow256_pos (N.of_nat k)). pose proof (pow256_pos (N.of_nat (j-k))).
  set (b := 256 ^ N.of_nat k) in *. set (c := 256 ^ N.of_nat (j-k)) in *. clearbody b c.
  rewrite N.mod_mul_r by lia.
  pose proof (N.mod_lt v b ltac:(lia)).
  symmetry. apply N.div_unique with (v mod b); lia.
Qed.

Theorem decode_closed v : v < 2^256 ->
  decode v = ((2^64 <=? v) && (v <? 2^72), (v / 2^32) mod 2^32, v mod 2^32).
Proof.
  intros Hv. unfold decode, gi_part_size, gi_max_size, bytes_to_u32.
  pose proof (big_bytes_ok v) as Hok. pose proof (big_bytes_val v Hv) as Hval.
  pose proof (big_bytes_bounds v Hv) as [Hu Hl]. cbv zeta in Hu, Hl.
  pose proof (len9_iff v Hv) as H9.
  set (bs := big_bytes v) in *. set (l := length bs) in *.
  destruct (Nat.eqb_spec l 0) as [E0|N0].
  - assert (v = 0) by (apply big_bytes_zero_len; [exact Hv|exact E0]). subst l bs. subst v. reflexivity.
  - f_equal; [f_equal|].
    + destruct (Nat.eqb_spec l 9) as [E|NE].
      * apply H9 in E. destruct E. symmetry. apply andb_true_iff. split; [apply N.leb_le|apply N.ltb_lt]; assumption.
      * symmetry. apply not_true_iff_false. rewrite andb_true_iff, N.leb_le, N.ltb_lt. tauto.
    + (* rollup part *)
      destruct (Nat.le_gt_cases 8 l) as [H8|H8].
      * replace (l - 4 - 4)%nat with (l - 8)%nat by lia.
        replace (l - 4 - (l - 8))%nat with 4%nat by lia.
        pose proof (split_last bs 8 Hok H8) as [Hlo _]. fold l in Hlo.
        assert (Hlen : length (skipn (l - 8) bs) = 8%nat) by (rewrite skipn_length; fold l; lia).
        assert (Hok' : bytes_ok (skipn (l - 8) bs)).
        { unfold bytes_ok in *. rewrite <- (firstn_skipn (l-8) bs) in Hok. apply Forall_app in Hok. tauto. }
        pose proof (split_last (skipn (l-8) bs) 4 Hok' ltac:(lia)) as [_ Hhi].
        rewrite Hlen in Hhi. change (8-4)%nat with 4%nat in Hhi. rewrite Hhi, Hlo, Hval.
        rewrite div_mod_split by lia. reflexivity.
      * destruct (Nat.le_gt_cases 4 l) as [H4|H4].
        -- replace (l - 4 - 4)%nat with 0%nat by lia. cbn [skipn]. rewrite Nat.sub_0_r.
           pose proof (split_last bs 4 Hok H4) as [_ Hhi]. fold l in Hhi. rewrite Hhi, Hval.
           symmetry. apply N.mod_small.
           pose proof (pow256_mono l 8 ltac:(lia)) as Hm. change (256 ^ N.of_nat 8) with (2^64) in Hm.
           change (256 ^ N.of_nat 4) with (2^32). apply N.div_lt_upper_bound; [lia|].
           change (2^32 * 2^32) with (2^64). lia.
        -- replace (l - 4)%nat with 0%nat by lia. cbn [skipn firstn Nat.sub]. rewrite of_be_nil.
           pose proof (pow256_mono l 4 ltac:(lia)) as Hm. change (256 ^ N.of_nat 4) with (2^32) in Hm.
           rewrite N.div_small by lia. reflexivity.
    + (* leaf part *)
      destruct (Nat.le_gt_cases 4 l) as [H4|H4].
      * pose proof (split_last bs 4 Hok H4) as [Hlo _]. fold l in Hlo. rewrite Hlo, Hval. reflexivity.
      * replace (l - 4)%nat with 0%nat by lia. cbn [skipn]. rewrite Hval.
        pose proof (pow256_mono l 4 ltac:(lia)) as Hm. change (256 ^ N.of_nat 4) with (2^32) in Hm.
        symmetry. apply N.mod_small. lia.
Qed.

Theorem decode_encode m r l : r < 2^32 -> l < 2^32 -> decode (encode m r l) = canon (m, r, l).
Proof.
  intros Hr Hl. rewrite decode_closed.
  2:{ rewrite encode_layout by assumption. destruct m; change (2^256) with (2^64 * 2^192); change (2^64) with (2^32*2^32); nia. }
  rewrite encode_layout by assumption. unfold canon. destruct m.
  - assert (H1 : (2^64 <=? 2^64 + l) && (2^64 + l <? 2^72) = true).
    { apply andb_true_iff. split; [apply N.leb_le|apply N.ltb_lt]; change (2^72) with (2^64 * 256); lia. }
    rewrite H1. f_equal; [f_equal|].
    + change (2^64) with (2^32 * 2^32).
      replace ((2^32*2^32 + l) / 2^32) with (2^32) by (apply N.div_unique with l; lia).
      apply N.mod_same. lia.
    + change (2^64) with (2^32 * 2^32). apply eq_sym, N.mod_unique with (2^32); lia.
  - assert (H1 : (2^64 <=? r*2^32 + l) && (r*2^32 + l <? 2^72) = false).
    { apply andb_false_iff. left. apply N.leb_gt. change (2^64) with (2^32 * 2^32). nia. }
    rewrite H1. f_equal; [f_equal|].
    + replace ((r*2^32 + l) / 2^32) with r by (apply N.div_unique with l; lia).
      apply N.mod_small, Hr.
    + apply eq_sym, N.mod_unique with r; lia.
Qed.

Lemma canonical_lt v : canonical v -> v < 2^256.
Proof. intros [H|[_ H]]; change (2^256) with (2^64 * 2^192); lia. Qed.

Theorem encode_decode_canonical v : canonical v -> enc3 (decode v) = v.
Proof.
  intros Hc. pose proof (canonical_lt v Hc) as Hv. rewrite decode_closed by exact Hv. unfold enc3.
  assert (Hm : v mod 2^32 < 2^32) by (apply N.mod_lt; lia).
  assert (Hd : (v / 2^32) mod 2^32 < 2^32) by (apply N.mod_lt; lia).
  rewrite encode_layout by assumption.
  pose proof (N.div_mod v (2^32) ltac:(lia)) as Hdm.
  destruct Hc as [H|[H1 H2]].
  - assert (E : (2^64 <=? v) && (v <? 2^72) = false) by (apply andb_false_iff; left; apply N.leb_gt; exact H).
    rewrite E. rewrite (N.mod_small (v / 2^32)).
    + lia.
    + apply N.div_lt_upper_bound; [lia|]. change (2^32*2^32) with (2^64). exact H.
  - assert (E : (2^64 <=? v) && (v <? 2^72) = true).
    { apply andb_true_iff. split; [apply N.leb_le|apply N.ltb_lt]; change (2^72) with (2^64 * 256); lia. }
    rewrite E. assert (v / 2^32 = 2^32).
    { symmetry. apply N.div_unique with (v - 2^64); change (2^64) with (2^32 * 2^32) in *; lia. }
    change (2^64) with (2^32 * 2^32) in *. lia.
Qed.

Theorem decode_canonical_range v : canonical v ->
  let '(m, r, l) := decode v in r < 2^32 /\ l < 2^32 /\ (m = true -> r = 0).
Proof.
  intros Hc. pose proof (canonical_lt v Hc) as Hv. rewrite decode_closed by exact Hv.
  split; [apply N.mod_lt; lia|]. split; [apply N.mod_lt; lia|].
  intros Hm. apply andb_true_iff in Hm as [H1 _]. apply N.leb_le in H1.
  destruct Hc as [H|[_ H2]]; [lia|].
  assert (v / 2^32 = 2^32).
  { symmetry. apply N.div_unique with (v - 2^64); change (2^64) with (2^32 * 2^32) in *; lia. }
  rewrite H. apply N.mod_same. lia.
Qed.

(* ---- consumers ---- *)
Lemma strip_decomp bs : bs = repeat 0 (length bs - length (strip bs)) ++ strip bs.
Proof.
  induction bs as [|b bs IH]; [reflexivity|]. cbn [strip]. destruct b.
  - pose proof (strip_length_le bs). cbn [length].
    replace (S (length bs) - length (strip bs))%nat with (S (length bs - length (strip bs))) by lia.
    cbn [repeat app]. f_equal. exact IH.
  - rewrite Nat.sub_diag. reflexivity.
Qed.

Lemma rev_repeat {A} (x : A) n : rev (repeat x n) = repeat x n.
Proof.
  induction n as [|n IH]; [reflexivity|]. cbn [repeat rev]. rewrite IH.
  clear IH. induction n as [|n IH]; [reflexivity|]. cbn [repeat app]. f_equal. exact IH.
Qed.

Theorem big_le32_is_le v : big_le32 v = le 32 v.
Proof.
  unfold big_le32, big_bytes.
  pose proof (strip_decomp (be 32 v)) as Hd. pose proof (strip_length_le (be 32 v)) as Hle.
  rewrite be_length in *.
  set (s := strip (be 32 v)) in *.
  rewrite firstn_all2 by (rewrite rev_length; lia).
  rewrite rev_length.
  clearbody s. rewrite <- rev_be. rewrite Hd. rewrite rev_app_distr, rev_repeat. reflexivity.
Qed.

Theorem le_be_rev v : rev (le 32 v) = be 32 v.
Proof. apply rev_le. Qed.

(* all four consumers carry the same number *)
Theorem consumers_agree v : canonical v ->
  let t := cert_gi v in
  wire_gi t = be 32 v /\ prover_gi t = be 32 v /\ commit_gi t = le 32 v /\ optimistic_gi v = le 32 v /\
  of_be (wire_gi t) = v /\ of_le (commit_gi t) = v /\ of_le (optimistic_gi v) = v /\ of_be (prover_gi t) = v.
Proof.
  intros Hc t. subst t. unfold cert_gi, wire_gi, prover_gi, commit_gi, optimistic_gi, big_to_hash.
  rewrite encode_decode_canonical by exact Hc. rewrite !big_le32_is_le.
  pose proof (canonical_lt v Hc) as Hv.
  repeat split; try reflexivity; try (apply of_be_be; exact Hv); try (apply of_le_le; exact Hv).
Qed.

(* consumers as functions of a triple: the same number in both byte orders *)
Theorem consumers_of_triple (m : bool) r l : r < 2^32 -> l < 2^32 ->
  let v := (if m then 2^64 else r * 2^32) + l in
  wire_gi (m, r, l) = be 32 v /\ prover_gi (m, r, l) = be 32 v /\ commit_gi (m, r, l) = le 32 v.
Proof.
  intros Hr Hl v. unfold wire_gi, prover_gi, commit_gi, enc3, big_to_hash.
  rewrite big_le32_is_le, encode_layout by assumption. auto.
Qed.

(* certificate level: with any number of claims, position i of every carrier holds the number of claim i *)
Definition wf_triple (t : bool * N * N) : Prop := let '(_, r, l) := t in r < 2^32 /\ l < 2^32.
Definition layout_of (t : bool * N * N) : N := let '(m, r, l) := t in (if m then 2^64 else r * 2^32) + l.
Theorem consumers_of_claim_list (ts : list (bool * N * N)) : Forall wf_triple ts ->
  map wire_gi ts = map (fun t => be 32 (layout_of t)) ts /\
  map prover_gi ts = map (fun t => be 32 (layout_of t)) ts /\
  map commit_gi ts = map (fun t => le 32 (layout_of t)) ts /\
  map (fun t => optimistic_gi (enc3 t)) ts = map (fun t => le 32 (layout_of t)) ts /\
  map (fun t => of_be (wire_gi t)) ts = map layout_of ts /\
  map (fun t => of_be (prover_gi t)) ts = map layout_of ts /\
  map (fun t => of_le (commit_gi t)) ts = map layout_of ts.
Proof.
  intros Hwf.
  assert (Hlt : forall t, wf_triple t -> layout_of t < 2^256).
  { intros [[m r] l] [Hr Hl]. cbn [layout_of]. destruct m.
    - apply N.lt_trans with (2^64 + 2^32); [lia|]. vm_compute. reflexivity.
    - apply N.lt_trans with (2^32 * 2^32 + 2^32); [nia|]. vm_compute. reflexivity. }
  repeat split; apply map_ext_in; intros t Ht; rewrite Forall_forall in Hwf; specialize (Hwf t Ht);
    pose proof (Hlt t Hwf) as Hv; destruct t as [[m r] l]; destruct Hwf as [Hr Hl];
    destruct (consumers_of_triple m r l Hr Hl) as (Hw & Hp & Hc); cbn [layout_of] in *.
  - exact Hw.
  - exact Hp.
  - exact Hc.
  - unfold optimistic_gi, enc3. rewrite big_le32_is_le, encode_layout by assumption. reflexivity.
  - rewrite Hw. apply of_be_be. exact Hv.
  - rewrite Hp. apply of_be_be. exact Hv.
  - rewrite Hc. apply of_le_le. exact Hv.
Qed.

(* non-canonical on-chain values: the decoder is lossy, characterised exactly *)
Theorem noncanonical_lossy v : v < 2^256 -> ~ canonical v -> enc3 (decode v) <> v.
Proof.
  intros Hv Hn. rewrite decode_closed by exact Hv. unfold enc3.
  assert (Hm : v mod 2^32 < 2^32) by (apply N.mod_lt; lia).
  assert (Hd : (v / 2^32) mod 2^32 < 2^32) by (apply N.mod_lt; lia).
  rewrite encode_layout by assumption. unfold canonical in Hn.
  destruct ((2^64 <=? v) && (v <? 2^72)) eqn:E.
  - apply andb_true_iff in E as [E1 E2]. apply N.leb_le in E1. lia.
  - apply andb_false_iff in E. assert (2^64 <= v) by lia.
    assert ((v / 2^32) mod 2^32 * 2^32 + v mod 2^32 < 2^64); [|lia].
    change (2^64) with (2^32 * 2^32). nia.
Qed.

(* two well-formed triples with the same global index are the same claim position: same flag, same leaf index and,
   off mainnet, the same rollup index (on mainnet the rollup index is not part of the value) *)
Lemma encode_injective m1 r1 l1 m2 r2 l2 :
  r1 < 2^32 -> l1 < 2^32 -> r2 < 2^32 -> l2 < 2^32 ->
  encode m1 r1 l1 = encode m2 r2 l2 ->
  m1 = m2 /\ l1 = l2 /\ (m1 = false -> r1 = r2).
Proof.
  intros Hr1 Hl1 Hr2 Hl2 E.
  pose proof (decode_encode m1 r1 l1 Hr1 Hl1) as D1.
  pose proof (decode_encode m2 r2 l2 Hr2 Hl2) as D2.
  rewrite E in D1. rewrite D1 in D2. unfold canon in D2.
  destruct m1, m2; inversion D2; subst; repeat split; auto; discriminate.
Qed.
