(* C16, FEP mode — proofs about Model/GerFep.v: an invariant of (chain, store) kept by every downloaded block, every
   reorg and every restart; soundness and completeness of the query follow. *)
From Coq Require Import NArith List Bool Lia Sorted.
From Verif Require Import Model.GerIndex Model.GerFep Proofs.GerIndexProofs.
Import ListNotations.
Open Scope N_scope.

(* ------------------------------------------------------------------------------------------------ *)
(* listing the leaves                                                                                *)
(* ------------------------------------------------------------------------------------------------ *)

Lemma In_gers_from_aux : forall lv k next l1 i g,
  In (i, g) (gers_from_aux lv k next l1) <->
  k <= i /\ nth_error lv (N.to_nat (i - k)) = Some g /\ next <= i /\ i < l1.
Proof.
  induction lv as [|g0 t IH]; intros k next l1 i g; cbn [gers_from_aux].
  - split; [intros [] | intros (_ & H & _)]. destruct (N.to_nat (i - k)); discriminate.
  - rewrite in_app_iff, IH. split.
    + intros [H | (H1 & H2 & H3 & H4)].
      * destruct ((next <=? k) && (k <? l1)) eqn:E; [|destruct H].
        destruct H as [H|[]]. injection H as <- <-. apply andb_true_iff in E as [E1 E2].
        apply N.leb_le in E1. apply N.ltb_lt in E2. rewrite N.sub_diag. cbn. repeat split; [lia | assumption | assumption].
      * repeat split; try lia.
        assert (E : N.to_nat (i - k) = S (N.to_nat (i - N.succ k))) by lia. rewrite E. exact H2.
    + intros (H1 & H2 & H3 & H4). destruct (N.eq_dec i k) as [->|Hne].
      * left. rewrite N.sub_diag in H2. cbn in H2. injection H2 as ->.
        replace ((next <=? k) && (k <? l1)) with true; [now left|].
        symmetry. apply andb_true_iff. split; [now apply N.leb_le | now apply N.ltb_lt].
      * right. repeat split; try lia.
        assert (E : N.to_nat (i - k) = S (N.to_nat (i - N.succ k))) by lia. rewrite E in H2. exact H2.
Qed.

Lemma In_gers_from : forall lv next l1 i g,
  In (i, g) (gers_from lv next l1) <-> nth_error lv (N.to_nat i) = Some g /\ next <= i /\ i < l1.
Proof.
  intros. unfold gers_from. rewrite In_gers_from_aux, N.sub_0_r. split; [intros (_ & H); exact H | intros H; split; [lia | exact H]].
Qed.

Definition lt_fst (a b : N * N) : Prop := fst a < fst b.

Lemma gers_from_aux_sorted : forall lv k next l1, StronglySorted lt_fst (gers_from_aux lv k next l1).
Proof.
  induction lv as [|g0 t IH]; intros k next l1; cbn [gers_from_aux]; [constructor|].
  destruct ((next <=? k) && (k <? l1)); cbn [app]; [|apply IH].
  constructor; [apply IH|]. apply Forall_forall. intros [i g] H. apply In_gers_from_aux in H as (H & _).
  unfold lt_fst. cbn. lia.
Qed.

Lemma ss_app_inv : forall {X} (R : X -> X -> Prop) l x,
  StronglySorted R (l ++ [x]) -> StronglySorted R l /\ Forall (fun y => R y x) l.
Proof.
  induction l as [|a l IH]; intros x H; cbn [app] in H; [split; constructor|].
  inversion H as [|? ? H1 H2]; subst. apply IH in H1 as [H1 H3]. split.
  - constructor; [exact H1|]. apply Forall_forall. intros y Hy. rewrite Forall_forall in H2. apply H2, in_or_app. now left.
  - constructor; [|exact H3]. rewrite Forall_forall in H2. apply H2, in_or_app. right. now left.
Qed.

(* ------------------------------------------------------------------------------------------------ *)
(* the greatest injected leaf                                                                        *)
(* ------------------------------------------------------------------------------------------------ *)

Definition gi_step (fc : fchain) (tip : N) (evs : list event) (ig : N * N) : list event :=
  if injected_by fc tip (snd ig) then [ins (snd ig) (fst ig)] else evs.

Lemma greatest_unfold : forall fc tip gers, greatest_injected fc tip gers = fold_left (gi_step fc tip) gers [].
Proof. reflexivity. Qed.

Lemma gi_fold_last : forall fc tip l x acc,
  fold_left (gi_step fc tip) (l ++ [x]) acc =
  if injected_by fc tip (snd x) then [ins (snd x) (fst x)] else fold_left (gi_step fc tip) l acc.
Proof. intros. rewrite fold_left_app. reflexivity. Qed.

(* what the fold returns: the accumulator, or the event of one injected element of the list *)
Lemma gi_fold_cases : forall fc tip gers acc,
  fold_left (gi_step fc tip) gers acc = acc \/
  exists i g, In (i, g) gers /\ injected_by fc tip g = true /\ fold_left (gi_step fc tip) gers acc = [ins g i].
Proof.
  intros fc tip gers. induction gers as [|x l IH] using rev_ind; intros acc; [now left|].
  rewrite gi_fold_last. destruct (injected_by fc tip (snd x)) eqn:E.
  - right. exists (fst x), (snd x). split; [apply in_or_app; right; left; now destruct x | split; [exact E | reflexivity]].
  - destruct (IH acc) as [H | (i & g & H1 & H2 & H3)]; [now left|].
    right. exists i, g. split; [apply in_or_app; now left | split; assumption].
Qed.

(* an injected element of an ascending list is dominated by the result *)
Lemma gi_fold_ge : forall fc tip gers acc i g, StronglySorted lt_fst gers ->
  In (i, g) gers -> injected_by fc tip g = true ->
  exists i' g', In (i', g') gers /\ injected_by fc tip g' = true /\ i <= i' /\
                fold_left (gi_step fc tip) gers acc = [ins g' i'].
Proof.
  intros fc tip gers. induction gers as [|x l IH] using rev_ind; intros acc i g Hs Hin Hinj; [destruct Hin|].
  apply ss_app_inv in Hs as [Hs Hall]. rewrite gi_fold_last.
  destruct (injected_by fc tip (snd x)) eqn:E.
  - exists (fst x), (snd x). split; [apply in_or_app; right; left; now destruct x|]. split; [exact E|]. split; [|reflexivity].
    apply in_app_or in Hin as [Hin|[Ex|[]]]; [|subst x; cbn; lia].
    rewrite Forall_forall in Hall. specialize (Hall _ Hin). unfold lt_fst in Hall. cbn in Hall. lia.
  - apply in_app_or in Hin as [Hin|[Ex|[]]]; [|subst x; cbn in E; congruence].
    destruct (IH acc i g Hs Hin Hinj) as (i' & g' & H1 & H2 & H3 & H4).
    exists i', g'. split; [apply in_or_app; now left|]. repeat split; assumption.
Qed.

Lemma injected_by_spec : forall fc tip g, injected_by fc tip g = true <-> exists b, In (b, g) fc /\ b <= tip.
Proof.
  intros. unfold injected_by. rewrite existsb_exists. split.
  - intros ([b g'] & H1 & H2). cbn in H2. apply andb_true_iff in H2 as [H2 H3]. apply N.eqb_eq in H2. apply N.leb_le in H3.
    subst. now exists b.
  - intros (b & H1 & H2). exists (b, g). split; [exact H1|]. cbn. apply andb_true_iff. split; [apply N.eqb_refl | now apply N.leb_le].
Qed.

(* ------------------------------------------------------------------------------------------------ *)
(* one downloaded block                                                                              *)
(* ------------------------------------------------------------------------------------------------ *)

(* the events of a FEP block: none, or one insertion of an injected leaf at or after `next` *)
Lemma fep_block_cases : forall lv fc next tip l1,
  snd (fep_block lv fc next tip l1) = [] \/
  exists i g, snd (fep_block lv fc next tip l1) = [ins g i] /\
              nth_error lv (N.to_nat i) = Some g /\ next <= i /\ i < l1 /\ injected_by fc tip g = true.
Proof.
  intros. unfold fep_block. cbn [snd]. rewrite greatest_unfold.
  destruct (gi_fold_cases fc tip (gers_from lv next l1) []) as [H | (i & g & H1 & H2 & H3)]; [now left|].
  right. exists i, g. apply In_gers_from in H1 as (H1 & H4 & H5). repeat split; assumption.
Qed.

Lemma fep_block_ge : forall lv fc next tip l1 i g,
  nth_error lv (N.to_nat i) = Some g -> next <= i -> i < l1 -> injected_by fc tip g = true ->
  exists i' g', snd (fep_block lv fc next tip l1) = [ins g' i'] /\ i <= i'.
Proof.
  intros lv fc next tip l1 i g H1 H2 H3 H4. unfold fep_block. cbn [snd]. rewrite greatest_unfold.
  assert (Hin : In (i, g) (gers_from lv next l1)) by (apply In_gers_from; repeat split; assumption).
  destruct (gi_fold_ge fc tip _ [] i g (gers_from_aux_sorted _ _ _ _) Hin H4) as (i' & g' & _ & _ & H5 & H6).
  exists i', g'. split; assumption.
Qed.

(* ------------------------------------------------------------------------------------------------ *)
(* the invariant                                                                                     *)
(* ------------------------------------------------------------------------------------------------ *)

Lemma finjected_mono : forall lv fc L L' g i, finjected lv fc L g i -> L <= L' -> finjected lv fc L' g i.
Proof. intros lv fc L L' g i (H1 & b & H2 & H3) H. split; [exact H1|]. exists b. split; [exact H2 | lia]. Qed.

(* every row sits in a processed block and names a leaf injected by then *)
Definition FInvA (lv : leaves) (fc : fchain) (st : store) : Prop :=
  forall r, In r (s_rows st) -> In (r_blk r) (s_blocks st) /\ finjected lv fc (r_blk r) (r_ger r) (r_idx r).
(* every leaf injected by a processed block is dominated by a row of that block or of an earlier one *)
Definition FInvB (lv : leaves) (fc : fchain) (st : store) : Prop :=
  forall p g i, In p (s_blocks st) -> finjected lv fc p g i -> exists r, In r (s_rows st) /\ r_blk r <= p /\ i <= r_idx r.

Lemma last_ge : forall st n, In n (s_blocks st) -> n <= last_processed st.
Proof. intros st n H. unfold last_processed. now apply fold_max_in. Qed.

(* ProcessBlock of a FEP block above everything stored: never fails, appends the block and at most one row *)
Lemma process_fep_block : forall lv fc st next t l1, FInvA lv fc st -> last_processed st < t ->
  process_block st (fep_block lv fc next t l1) =
  Some {| s_blocks := s_blocks st ++ [t];
          s_rows := s_rows st ++ map (mkrow t) (snd (fep_block lv fc next t l1)) |}.
Proof.
  intros lv fc st next t l1 HA Hlt.
  assert (Hnb : existsb (N.eqb t) (s_blocks st) = false).
  { apply existsb_false. intros n Hn. apply N.eqb_neq. apply last_ge in Hn. lia. }
  assert (Hnr : existsb (fun r => r_blk r =? t) (s_rows st) = false).
  { apply existsb_false. intros r Hr. apply N.eqb_neq. destruct (HA r Hr) as [Hb _]. apply last_ge in Hb. lia. }
  unfold process_block. destruct (fep_block lv fc next t l1) as [b evs] eqn:E.
  assert (Eb : b = t) by (unfold fep_block in E; now injection E as <- _). subst b.
  rewrite Hnb.
  destruct (fep_block_cases lv fc next t l1) as [H | (i & g & H & _)]; rewrite E in H; cbn [snd] in H; subst evs.
  - cbn [apply_events map]. now rewrite app_nil_r.
  - cbn [apply_events apply_event ins l_rm map]. rewrite Hnr. reflexivity.
Qed.

(* the state reached by a Download call: rows only grow, blocks only grow *)
Definition grows (st st' : store) : Prop := incl (s_rows st) (s_rows st') /\ incl (s_blocks st) (s_blocks st').

Lemma grows_refl : forall st, grows st st.
Proof. intros; split; apply incl_refl. Qed.
Lemma grows_trans : forall a b c, grows a b -> grows b c -> grows a c.
Proof. intros a b c [H1 H2] [H3 H4]. split; eapply incl_tran; eassumption. Qed.

(* rows at the start of the Download call dominate every index below `next` *)
Definition next_ok (st0 : store) (next : N) : Prop :=
  forall i, i < next -> exists r, In r (s_rows st0) /\ i <= r_idx r.

Lemma fep_init_ok : forall st, next_ok st (fep_init st).
Proof.
  intros st i Hi. unfold fep_init, latest_index in Hi. destruct (s_rows st) as [|x l] eqn:E; [lia|].
  rewrite <- E in Hi. destruct (N.ltb_spec 0 (fold_left N.max (map r_idx (s_rows st)) 0)) as [Hpos|Hz]; [|lia].
  destruct (fold_max_mem (map r_idx (s_rows st)) 0) as [H|H]; [lia|].
  apply in_map_iff in H as (r & H1 & H2). exists r. split; [rewrite <- E; exact H2 | lia].
Qed.

(* one Download call *)
Lemma fep_download_inv : forall lv fc next st0 polls st from,
  FInvA lv fc st -> FInvB lv fc st -> grows st0 st -> next_ok st0 next -> last_processed st <= from ->
  (forall p, In p polls -> poll_sees lv fc p) ->
  exists st', process_all st (fep_download lv fc next from polls) = Some st' /\
              FInvA lv fc st' /\ FInvB lv fc st' /\ grows st0 st'.
Proof.
  intros lv fc next st0 polls. induction polls as [|[t l1] ps IH]; intros st from HA HB Hg Hn Hlt Hsee; cbn [fep_download].
  - exists st. cbn. split; [reflexivity | split; [assumption | split; assumption]].
  - destruct (N.ltb_spec from t) as [Hft|Hft].
    2:{ apply IH; try assumption. intros p Hp. apply Hsee. now right. }
    cbn [process_all]. rewrite (process_fep_block lv fc st next t l1 HA) by lia.
    set (st1 := {| s_blocks := s_blocks st ++ [t]; s_rows := s_rows st ++ map (mkrow t) (snd (fep_block lv fc next t l1)) |}).
    assert (Hg1 : grows st st1) by (split; unfold st1; cbn [s_rows s_blocks]; apply incl_appl, incl_refl).
    assert (HA1 : FInvA lv fc st1).
    { intros r Hr. unfold st1 in Hr. cbn [s_rows] in Hr. apply in_app_or in Hr as [Hr|Hr].
      - destruct (HA r Hr) as [H1 H2]. split; [unfold st1; cbn [s_blocks]; apply in_or_app; now left | exact H2].
      - destruct (fep_block_cases lv fc next t l1) as [E | (i & g & E & H1 & _ & _ & H2)]; rewrite E in Hr; [destruct Hr|].
        destruct Hr as [<-|[]]. unfold st1. cbn [s_blocks mkrow r_blk r_ger r_idx ins l_ger l_idx map]. split; [apply in_or_app; right; now left|].
        split; [exact H1|]. now apply injected_by_spec. }
    assert (HB1 : FInvB lv fc st1).
    { intros p g i Hp Hinj. unfold st1 in Hp. cbn [s_blocks] in Hp. apply in_app_or in Hp as [Hp|[<-|[]]].
      - destruct (HB p g i Hp Hinj) as (r & H1 & H2 & H3). exists r. split; [unfold st1; cbn [s_rows]; apply in_or_app; now left | split; assumption].
      - assert (Hvis : i < l1) by (apply (Hsee (t, l1) (or_introl eq_refl) i g Hinj)).
        destruct Hinj as (Hnth & b & Hb1 & Hb2).
        destruct (N.lt_ge_cases i next) as [Hlo|Hhi].
        + destruct (Hn i Hlo) as (r & H1 & H2). destruct Hg as [Hg _]. specialize (Hg r H1).
          exists r. split; [unfold st1; cbn [s_rows]; apply in_or_app; now left|]. split; [|exact H2].
          destruct (HA r Hg) as [H3 _]. apply last_ge in H3. lia.
        + assert (Hi : injected_by fc t g = true) by (apply injected_by_spec; now exists b).
          destruct (fep_block_ge lv fc next t l1 i g Hnth Hhi Hvis Hi) as (i' & g' & E & Hle).
          exists (mkrow t (ins g' i')). split; [unfold st1; cbn [s_rows]; apply in_or_app; right; rewrite E; now left|]. cbn. split; [lia | exact Hle]. }
    assert (Hlast : last_processed st1 <= t).
    { unfold last_processed, st1. cbn [s_blocks]. rewrite fold_left_app. cbn [fold_left]. fold (last_processed st). lia. }
    destruct (IH st1 t HA1 HB1 (grows_trans _ _ _ Hg Hg1) Hn Hlast) as (st' & H1 & H2 & H3 & H4).
    + intros p Hp. apply Hsee. now right.
    + exists st'. split; [assumption | split; [assumption | split; assumption]].
Qed.

(* reorg: rows and blocks below b stay, the chain below b stays *)
Lemma finjected_splice_lt : forall lv fc b fc' L g i, L < b ->
  (finjected lv (fsplice fc b fc') L g i <-> finjected lv fc L g i).
Proof.
  intros lv fc b fc' L g i HL. unfold finjected, fsplice. split; intros (H1 & b0 & H2 & H3); (split; [exact H1|]); exists b0; (split; [|exact H3]).
  - apply in_app_or in H2 as [H2|H2]; apply filter_In in H2 as [H2 H4]; [exact H2|]. cbn in H4. apply N.leb_le in H4. lia.
  - apply in_or_app. left. apply filter_In. split; [exact H2|]. cbn. apply N.ltb_lt. lia.
Qed.

Lemma reorg_inv : forall lv fc st b fc', FInvA lv fc st -> FInvB lv fc st ->
  FInvA lv (fsplice fc b fc') (reorg b st) /\ FInvB lv (fsplice fc b fc') (reorg b st).
Proof.
  intros lv fc st b fc' HA HB. split.
  - intros r Hr. cbn in Hr. apply filter_In in Hr as [Hr Hlt]. apply N.ltb_lt in Hlt. destruct (HA r Hr) as [H1 H2]. split.
    + cbn. apply filter_In. split; [exact H1 | now apply N.ltb_lt].
    + now apply finjected_splice_lt.
  - intros p g i Hp Hinj. cbn in Hp. apply filter_In in Hp as [Hp Hlt]. apply N.ltb_lt in Hlt.
    apply finjected_splice_lt in Hinj; [|exact Hlt].
    destruct (HB p g i Hp Hinj) as (r & H1 & H2 & H3). exists r. split; [|split; assumption].
    cbn. apply filter_In. split; [exact H1|]. apply N.ltb_lt. lia.
Qed.

(* one segment *)
Lemma fseg_inv : forall lv fc st s, FInvA lv fc st -> FInvB lv fc st ->
  (forall p, In p (snd s) -> poll_sees lv (fst (fseg_begin fc st (fst s))) p) ->
  exists fc1 st1 bs, frun_seg lv fc st s = (fc1, Some st1, bs) /\ FInvA lv fc1 st1 /\ FInvB lv fc1 st1.
Proof.
  intros lv fc st [ro polls] HA HB Hsee. unfold frun_seg. cbn [fst snd] in *.
  destruct (fseg_begin fc st ro) as [fc1 st1] eqn:E. cbn [fst] in Hsee.
  assert (H : FInvA lv fc1 st1 /\ FInvB lv fc1 st1).
  { destruct ro as [[b fc']|]; cbn [fseg_begin] in E; injection E as <- <-; [now apply reorg_inv | now split]. }
  destruct H as [HA1 HB1].
  destruct (fep_download_inv lv fc1 (fep_init st1) st1 polls st1 (last_processed st1 + 1) HA1 HB1 (grows_refl _)
              (fep_init_ok st1)) as (st' & H1 & H2 & H3 & _); [lia | exact Hsee|].
  exists fc1, st', (fep_download lv fc1 (fep_init st1) (last_processed st1 + 1) polls). now rewrite H1.
Qed.

(* soundness needs no visibility hypothesis: redo the download step for FInvA alone *)
Lemma fep_download_invA : forall lv fc next polls st from,
  FInvA lv fc st -> last_processed st <= from ->
  exists st', process_all st (fep_download lv fc next from polls) = Some st' /\ FInvA lv fc st'.
Proof.
  intros lv fc next polls. induction polls as [|[t l1] ps IH]; intros st from HA Hlt; cbn [fep_download].
  - exists st. cbn. split; [reflexivity | assumption].
  - destruct (N.ltb_spec from t) as [Hft|Hft]; [|now apply IH].
    cbn [process_all]. rewrite (process_fep_block lv fc st next t l1 HA) by lia.
    set (st1 := {| s_blocks := s_blocks st ++ [t]; s_rows := s_rows st ++ map (mkrow t) (snd (fep_block lv fc next t l1)) |}).
    assert (HA1 : FInvA lv fc st1).
    { intros r Hr. unfold st1 in Hr. cbn [s_rows] in Hr. apply in_app_or in Hr as [Hr|Hr].
      - destruct (HA r Hr) as [H1 H2]. split; [unfold st1; cbn [s_blocks]; apply in_or_app; now left | exact H2].
      - destruct (fep_block_cases lv fc next t l1) as [E | (i & g & E & H1 & _ & _ & H2)]; rewrite E in Hr; [destruct Hr|].
        destruct Hr as [<-|[]]. unfold st1. cbn [s_blocks mkrow r_blk r_ger r_idx ins l_ger l_idx map]. split; [apply in_or_app; right; now left|].
        split; [exact H1|]. now apply injected_by_spec. }
    apply IH; [exact HA1|].
    unfold last_processed, st1. cbn [s_blocks]. rewrite fold_left_app. cbn [fold_left]. fold (last_processed st). lia.
Qed.

Lemma fseg_invA : forall lv fc st s, FInvA lv fc st ->
  exists fc1 st1 bs, frun_seg lv fc st s = (fc1, Some st1, bs) /\ FInvA lv fc1 st1.
Proof.
  intros lv fc st [ro polls] HA. unfold frun_seg. cbn [fst snd].
  destruct (fseg_begin fc st ro) as [fc1 st1] eqn:E.
  assert (HA1 : FInvA lv fc1 st1).
  { destruct ro as [[b fc']|]; cbn [fseg_begin] in E; injection E as <- <-; [|exact HA].
    intros r Hr. cbn in Hr. apply filter_In in Hr as [Hr Hlt]. apply N.ltb_lt in Hlt. destruct (HA r Hr) as [H1 H2]. split.
    - cbn. apply filter_In. split; [exact H1 | now apply N.ltb_lt].
    - now apply finjected_splice_lt. }
  destruct (fep_download_invA lv fc1 (fep_init st1) polls st1 (last_processed st1 + 1) HA1) as (st' & H1 & H2); [lia|].
  exists fc1, st', (fep_download lv fc1 (fep_init st1) (last_processed st1 + 1) polls). now rewrite H1.
Qed.

Lemma fnode_invA : forall lv segs fc st, FInvA lv fc st ->
  exists fc' st' bs, frun_node lv fc st segs = (fc', Some st', bs) /\ FInvA lv fc' st'.
Proof.
  intros lv segs. induction segs as [|s t IH]; intros fc st HA; cbn [frun_node].
  - now exists fc, st, [].
  - destruct (fseg_invA lv fc st s HA) as (fc1 & st1 & bs & E & HA1). rewrite E.
    destruct (IH fc1 st1 HA1) as (fc2 & st2 & bs2 & E2 & HA2). rewrite E2. now exists fc2, st2, (bs ++ bs2).
Qed.

Lemma fnode_inv : forall lv segs fc st, FInvA lv fc st -> FInvB lv fc st -> fvisible lv fc st segs ->
  exists fc' st' bs, frun_node lv fc st segs = (fc', Some st', bs) /\ FInvA lv fc' st' /\ FInvB lv fc' st'.
Proof.
  intros lv segs. induction segs as [|s t IH]; intros fc st HA HB Hv; cbn [frun_node].
  - now exists fc, st, [].
  - cbn [fvisible] in Hv. destruct Hv as [Hsee Hv].
    destruct (fseg_inv lv fc st s HA HB Hsee) as (fc1 & st1 & bs & E & HA1 & HB1). rewrite E in *.
    destruct (IH fc1 st1 HA1 HB1 Hv) as (fc2 & st2 & bs2 & E2 & HA2 & HB2). rewrite E2. now exists fc2, st2, (bs ++ bs2).
Qed.

Lemma empty_FInvA : forall lv fc, FInvA lv fc empty_store.
Proof. intros lv fc r []. Qed.
Lemma empty_FInvB : forall lv fc, FInvB lv fc empty_store.
Proof. intros lv fc p g i []. Qed.

(* ------------------------------------------------------------------------------------------------ *)
(* the theorems                                                                                      *)
(* ------------------------------------------------------------------------------------------------ *)

Theorem fep_never_stuck : forall lv segs fc0, exists fc st bs, frun_node lv fc0 empty_store segs = (fc, Some st, bs).
Proof. intros. destruct (fnode_invA lv segs fc0 empty_store (empty_FInvA _ _)) as (fc & st & bs & E & _). now exists fc, st, bs. Qed.

Theorem fep_index_sound : forall lv segs fc0 fc st bs x i g,
  frun_node lv fc0 empty_store segs = (fc, Some st, bs) ->
  first_ger_after st x = Some (i, g) ->
  (exists p, In p (s_blocks st) /\ finjected lv fc p g i) /\ finjected lv fc (last_processed st) g i /\ x <= i.
Proof.
  intros lv segs fc0 fc st bs x i g E Hq.
  destruct (fnode_invA lv segs fc0 empty_store (empty_FInvA _ _)) as (fc' & st' & bs' & E' & HA). rewrite E in E'. injection E' as <- <- <-.
  apply query_sound in Hq as (r & H1 & <- & <- & H4). destruct (HA r H1) as [H5 H6].
  split; [now exists (r_blk r)|]. split; [|exact H4]. apply (finjected_mono _ _ _ _ _ _ H6). now apply last_ge.
Qed.

Theorem fep_index_complete : forall lv segs fc0 fc st bs x p g i,
  frun_node lv fc0 empty_store segs = (fc, Some st, bs) -> fvisible lv fc0 empty_store segs ->
  In p (s_blocks st) -> finjected lv fc p g i -> x <= i ->
  first_ger_after st x <> None.
Proof.
  intros lv segs fc0 fc st bs x p g i E Hv Hp Hinj Hx.
  destruct (fnode_inv lv segs fc0 empty_store (empty_FInvA _ _) (empty_FInvB _ _) Hv) as (fc' & st' & bs' & E' & _ & HB).
  rewrite E in E'. injection E' as <- <- <-.
  destruct (HB p g i Hp Hinj) as (r & H1 & _ & H3). apply (query_complete st x r H1). lia.
Qed.

(* the last processed block is a processed block as soon as one exists *)
Lemma last_in_blocks : forall st, s_blocks st <> [] -> In (last_processed st) (s_blocks st).
Proof.
  intros st H. unfold last_processed. destruct (fold_max_mem (s_blocks st) 0) as [E|E]; [|exact E].
  destruct (s_blocks st) as [|a l] eqn:Eb; [congruence|]. rewrite E.
  assert (Ha : a <= fold_left N.max (a :: l) 0) by (apply fold_max_in; now left). rewrite E in Ha.
  assert (a = 0) by lia. subst a. now left.
Qed.

Corollary fep_index_complete_last : forall lv segs fc0 fc st bs x g i,
  frun_node lv fc0 empty_store segs = (fc, Some st, bs) -> fvisible lv fc0 empty_store segs ->
  s_blocks st <> [] -> finjected lv fc (last_processed st) g i -> x <= i ->
  first_ger_after st x <> None.
Proof.
  intros lv segs fc0 fc st bs x g i E Hv Hne Hinj Hx.
  apply (fep_index_complete lv segs fc0 fc st bs x (last_processed st) g i E Hv); [now apply last_in_blocks | exact Hinj | exact Hx].
Qed.
