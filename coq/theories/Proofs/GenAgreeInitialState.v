(* The start-up reconciliation decision of the aggsender, GENERATED from aggsender/statuschecker/initial_state.go by tools/go2coq
   on every run (initialStatus.process with checkAgglayerConsistenceCerts and getLatestAggLayerCert, plus the CertificateStatus
   predicates), decides what Model/Reconcile.v `reconcile` decides, for every settled / pending header the Agglayer may report and
   every local row: same action (none / update / insert) with the same header, an error in exactly the same cases.
   The receiver's three pointers are Section variables of the generated code; a pointer that the Go code dereferences without a
   test in sight gives the generated function a parameter `panic_process` standing for the panic: the equality below holds for EVERY
   value of it, i.e. no reachable path dereferences nil. Bound: the local height is below 2^64 - 1 (uint64 `Height+1`). *)
From Coq Require Import NArith List Bool Lia.
From Verif Require Import Base.GoNum Model.Reconcile Gen.GenInitialState.
Import ListNotations.
Open Scope N_scope.

Definition agg_of (h : hdr) : AggHeader N := mkAggHeader N (h_height h) (h_id h) (status_code (h_status h)).
Definition loc_of (r : row) : LocalHeader N := mkLocalHeader N (r_height r) (r_id r).

Lemma IsInError_code s : CertificateStatus_IsInError (status_code s) = is_in_error s.
Proof. destruct s; reflexivity. Qed.

Theorem getLatestAggLayerCert_agree (s p : option hdr) :
  getLatestAggLayerCert N (option_map agg_of p) (option_map agg_of s) = option_map agg_of (latest_of s p).
Proof. destruct p; reflexivity. Qed.

Theorem checkAgglayerConsistenceCerts_agree (s p : option hdr) :
  checkAgglayerConsistenceCerts N (option_map agg_of p) (option_map agg_of s) = if check_agg_consistency s p then EOK else EFail.
Proof.
  destruct p as [p|]; [|reflexivity]. destruct s as [s|]; cbn [option_map checkAgglayerConsistenceCerts check_agg_consistency];
    unfold agg_of; cbn [AggHeader_Height AggHeader_Status]; rewrite !IsInError_code.
  - destruct (_ && _); [reflexivity|]. destruct (_ && _); reflexivity.
  - destruct (_ && _); reflexivity.
Qed.

Definition result_of (r : result action) : option (initialStatusResult N) * gerr :=
  match r with
  | Ok ANone => (Some (mkinitialStatusResult N 0 None), EOK)
  | Ok (AUpdate h) => (Some (mkinitialStatusResult N 1 (Some (agg_of h))), EOK)
  | Ok (AInsert h) => (Some (mkinitialStatusResult N 2 (Some (agg_of h))), EOK)
  | Err _ => (None, EFail)
  end.

Theorem process_agree (s p : option hdr) (l : option row) (panic : option (initialStatusResult N) * gerr) :
  match l with Some r => r_height r + 1 < U64 | None => True end ->
  process N N.eqb (option_map agg_of p) (option_map agg_of s) (option_map loc_of l) panic = result_of (reconcile s p l).
Proof.
  intros Hh. unfold process, reconcile. rewrite checkAgglayerConsistenceCerts_agree.
  destruct (check_agg_consistency s p); cbn [negb err_eqb]; [|reflexivity].
  rewrite getLatestAggLayerCert_agree.
  assert (Hmain : forall agg,
    (let aggLayerLastCert := option_map agg_of agg in
     let localLastCert := option_map loc_of l in
     if negb (is_some localLastCert) && negb (is_some aggLayerLastCert) then (Some (mkinitialStatusResult N 0 None), EOK)
     else if negb (is_some localLastCert) && is_some aggLayerLastCert then (Some (mkinitialStatusResult N 2 aggLayerLastCert), EOK)
     else if match localLastCert with None => false | Some _ => negb (is_some aggLayerLastCert) end then (None, EFail)
     else match aggLayerLastCert with
          | None => panic
          | Some a => match localLastCert with
                      | None => panic
                      | Some lc =>
                        if AggHeader_Height N a <? LocalHeader_Height N lc then (None, EFail)
                        else if AggHeader_Height N a =? u64_add (LocalHeader_Height N lc) 1 then (Some (mkinitialStatusResult N 2 (Some a)), EOK)
                        else if negb (LocalHeader_CertificateID N lc =? AggHeader_CertificateID N a) then (None, EFail)
                        else (Some (mkinitialStatusResult N 1 (Some a)), EOK)
                      end
          end) =
    result_of match l, agg with
              | None, None => Ok ANone
              | None, Some a => Ok (AInsert a)
              | Some _, None => Err ELocalOnly
              | Some l, Some a =>
                  if h_height a <? r_height l then Err EAggLower
                  else if h_height a =? r_height l + 1 then Ok (AInsert a)
                  else if negb (r_id l =? h_id a) then Err EDifferentId
                  else Ok (AUpdate a)
              end).
  { intros agg. cbv zeta. destruct l as [r|], agg as [a|]; cbn [option_map is_some negb andb]; try reflexivity.
    unfold agg_of, loc_of; cbn [AggHeader_Height LocalHeader_Height LocalHeader_CertificateID AggHeader_CertificateID].
    unfold u64_add. rewrite N.mod_small by exact Hh.
    destruct (h_height a <? r_height r); [reflexivity|]. destruct (h_height a =? r_height r + 1); [reflexivity|].
    destruct (r_id r =? h_id a); reflexivity. }
  destruct l as [r|]; [exact (Hmain (latest_of s p))|].
  destruct s as [s|]; [exact (Hmain (latest_of (Some s) p))|].
  destruct p as [p|]; [|exact (Hmain (latest_of None None))].
  cbn [option_map is_some negb andb]. unfold agg_of at 1 2 3 4 5 6. cbn [AggHeader_Height AggHeader_Status].
  rewrite !IsInError_code.
  destruct (h_height p =? 0) eqn:E0; [reflexivity|].
  destruct (negb (is_in_error (h_status p)) && (0 <? h_height p)) eqn:E1; [reflexivity|].
  destruct (is_in_error (h_status p) && (0 <? h_height p)) eqn:E2; [reflexivity|].
  exact (Hmain (latest_of None (Some p))).
Qed.
