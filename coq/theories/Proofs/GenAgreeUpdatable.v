(* The hashing loop of UpdatableTree.UpsertLeaf, GENERATED from tree/updatabletree.go by tools/go2coq on every run
   (Gen/GenUpdatableTree.v), computes the model's `upsert_climb` (Model/Merkle.v): new root and new nodes, for every hash
   function, index, leaf and 32 siblings. *)
From Coq Require Import Arith NArith List Bool Lia.
From Verif Require Import Base.GoNum Model.Merkle Gen.GenUpdatableTree Proofs.GenAgreeTree.
Import ListNotations.

Section Agree.
Variable hash : Type.
Variable hash2 : hash -> hash -> hash.
Variable hash0 : hash.
Notation TN := (GenUpdatableTree.TreeNode hash).
Definition to_unode (n : hash * (hash * hash)) : TN := GenUpdatableTree.mkTreeNode hash (fst n) (fst (snd n)) (snd (snd n)).

Definition ul_step (idx : N) (sibs : list hash) (st : hash * list TN) (h : N) : hash * list TN :=
  let '(cur, nodes) := st in
  let parent :=
    if N.ltb 0 (N.land idx (u64_shl 1 h))
    then GenUpdatableTree.mkTreeNode hash (hash2 (list_get hash0 sibs h) cur) (list_get hash0 sibs h) cur
    else GenUpdatableTree.mkTreeNode hash (hash2 cur (list_get hash0 sibs h)) cur (list_get hash0 sibs h) in
  (GenUpdatableTree.TreeNode_Hash hash parent, nodes ++ [parent]).

Lemma ul_fold idx sibs : forall n k cur nodes, (k + n <= length sibs)%nat -> (k + n <= 64)%nat ->
  let '(r, ns) := upsert_climb hash2 k (firstn n (skipn k sibs)) cur (fun j => N.testbit idx (N.of_nat j)) in
  fold_left (ul_step idx sibs) (map N.of_nat (seq k n)) (cur, nodes) = (r, nodes ++ map to_unode ns).
Proof.
  induction n as [|n IH]; intros k cur nodes Hk H64.
  - cbn. now rewrite app_nil_r.
  - assert (Hs : firstn (S n) (skipn k sibs) = nth k sibs hash0 :: firstn n (skipn (S k) sibs)).
    { assert (Hlt : (k < length sibs)%nat) by lia. clear -Hlt. revert k Hlt.
      induction sibs as [|x l IHl]; intros k Hlt; [cbn in Hlt; lia|].
      destruct k as [|k]; [reflexivity|]. cbn [skipn nth]. cbn [length] in Hlt. apply IHl. lia. }
    rewrite Hs. cbn [upsert_climb seq map fold_left]. unfold ul_step at 2.
    rewrite shl1_small by lia. rewrite land_pow2_pos. unfold list_get. rewrite Nat2N.id.
    destruct (N.testbit idx (N.of_nat k)) eqn:Eb.
    + specialize (IH (S k) (hash2 (nth k sibs hash0) cur)
                     (nodes ++ [GenUpdatableTree.mkTreeNode hash (hash2 (nth k sibs hash0) cur) (nth k sibs hash0) cur]) ltac:(lia) ltac:(lia)).
      destruct (upsert_climb hash2 (S k) _ (hash2 (nth k sibs hash0) cur) _) as [r ns].
      cbn [GenUpdatableTree.TreeNode_Hash]. rewrite IH. f_equal. cbn [map to_unode fst snd]. now rewrite <- app_assoc.
    + specialize (IH (S k) (hash2 cur (nth k sibs hash0))
                     (nodes ++ [GenUpdatableTree.mkTreeNode hash (hash2 cur (nth k sibs hash0)) cur (nth k sibs hash0)]) ltac:(lia) ltac:(lia)).
      destruct (upsert_climb hash2 (S k) _ (hash2 cur (nth k sibs hash0)) _) as [r ns].
      cbn [GenUpdatableTree.TreeNode_Hash]. rewrite IH. f_equal. cbn [map to_unode fst snd]. now rewrite <- app_assoc.
Qed.

Theorem UpsertLeaf_loop_agree : forall idx leaf sibs, length sibs = 32%nat ->
  let '(r, ns) := upsert_climb hash2 0 sibs leaf (fun j => N.testbit idx (N.of_nat j)) in
  UpsertLeaf_loop hash hash2 hash0 idx leaf sibs [] = (r, map to_unode ns).
Proof.
  intros idx leaf sibs Hlen.
  assert (E : UpsertLeaf_loop hash hash2 hash0 idx leaf sibs [] = fold_left (ul_step idx sibs) (map N.of_nat (seq 0 32)) (leaf, [])).
  { unfold UpsertLeaf_loop. change (go_range (0 mod 256) 32) with (map N.of_nat (seq 0 32)).
    apply fold_left_ext_pw. intros [c n] h. unfold ul_step. destruct (N.ltb 0 (N.land idx (u64_shl 1 h))); reflexivity. }
  rewrite E. pose proof (ul_fold idx sibs 32 0 leaf [] ltac:(lia) ltac:(lia)) as H.
  cbn [skipn] in H. rewrite <- Hlen, firstn_all in H.
  destruct (upsert_climb hash2 0 sibs leaf _) as [r ns]. rewrite Hlen in H. exact H.
Qed.
End Agree.
