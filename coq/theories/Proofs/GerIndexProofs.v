(* C16 — proofs about the model in Model/GerIndex.v. *)
From Coq Require Import NArith List Bool Lia Sorted.
From Verif Require Import Model.GerIndex.
Import ListNotations.
Open Scope N_scope.

Notation gebr := get_events_by_block_range.
Notation A := asif_store.

(* ------------------------------------------------------------------------------------------------ *)
(* generic list facts                                                                                *)
(* ------------------------------------------------------------------------------------------------ *)

Lemma flat_map_nil : forall {X Y} (f : X -> list Y) l, (forall x, In x l -> f x = []) -> flat_map f l = [].
Proof.
  induction l as [|x l IH]; intros H; [reflexivity|]. cbn [flat_map].
  rewrite (H x (or_introl eq_refl)), IH; [reflexivity|]. intros; apply H; now right.
Qed.

Lemma flat_map_ext_in' : forall {X Y} (f g : X -> list Y) l, (forall x, In x l -> f x = g x) -> flat_map f l = flat_map g l.
Proof.
  induction l as [|x l IH]; intros H; [reflexivity|]. cbn [flat_map].
  rewrite (H x (or_introl eq_refl)), IH; [reflexivity|]. intros; apply H; now right.
Qed.

Lemma filter_all : forall {X} (f : X -> bool) l, (forall x, In x l -> f x = true) -> filter f l = l.
Proof.
  induction l as [|x l IH]; intros H; [reflexivity|]. cbn [filter].
  rewrite (H x (or_introl eq_refl)), IH; [reflexivity|]. intros; apply H; now right.
Qed.

Lemma filter_none : forall {X} (f : X -> bool) l, (forall x, In x l -> f x = false) -> filter f l = [].
Proof.
  induction l as [|x l IH]; intros H; [reflexivity|]. cbn [filter].
  rewrite (H x (or_introl eq_refl)), IH; [reflexivity|]. intros; apply H; now right.
Qed.

Lemma existsb_false : forall {X} (f : X -> bool) l, (forall x, In x l -> f x = false) -> existsb f l = false.
Proof.
  intros X f l H. destruct (existsb f l) eqn:E; [|reflexivity].
  apply existsb_exists in E as (x & Hx & Hf). rewrite (H x Hx) in Hf. discriminate.
Qed.

Lemma fold_max_ge : forall l a, a <= fold_left N.max l a.
Proof. induction l as [|x l IH]; intros a; cbn [fold_left]; [lia|]. specialize (IH (N.max a x)). lia. Qed.

Lemma fold_max_in : forall l a x, In x l -> x <= fold_left N.max l a.
Proof.
  induction l as [|y l IH]; intros a x H; [destruct H|]. cbn [fold_left]. destruct H as [->|H].
  - pose proof (fold_max_ge l (N.max a x)). lia.
  - now apply IH.
Qed.

Lemma fold_max_le : forall l a h, a <= h -> (forall x, In x l -> x <= h) -> fold_left N.max l a <= h.
Proof.
  induction l as [|y l IH]; intros a h Ha H; cbn [fold_left]; [exact Ha|].
  apply IH; [|intros; apply H; now right]. specialize (H y (or_introl eq_refl)). lia.
Qed.

Lemma fold_max_mem : forall l a, fold_left N.max l a = a \/ In (fold_left N.max l a) l.
Proof.
  induction l as [|y l IH]; intros a; cbn [fold_left]; [now left|].
  destruct (IH (N.max a y)) as [E|E]; [|right; now right].
  rewrite E. destruct (N.max_spec a y) as [[_ ->]|[_ ->]]; [right; now left | now left].
Qed.

Lemma fold_max_0 : forall l a, fold_left N.max l a = N.max a (fold_left N.max l 0).
Proof.
  induction l as [|y l IH]; intros a; cbn [fold_left]; [lia|].
  rewrite (IH (N.max a y)), (IH (N.max 0 y)). lia.
Qed.

(* ------------------------------------------------------------------------------------------------ *)
(* block ranges and GetEventsByBlockRange                                                            *)
(* ------------------------------------------------------------------------------------------------ *)

Lemma In_nseq : forall len a x, In x (nseq a len) <-> a <= x /\ x < a + N.of_nat len.
Proof.
  induction len as [|k IH]; intros a x.
  - cbn. lia.
  - cbn [nseq In]. rewrite IH, Nat2N.inj_succ. split; intros; lia.
Qed.

Lemma nseq_app : forall n m a, nseq a (n + m) = nseq a n ++ nseq (a + N.of_nat n) m.
Proof.
  induction n as [|n IH]; intros m a.
  - cbn. now rewrite N.add_0_r.
  - cbn [nseq Nat.add app]. rewrite IH. do 3 f_equal. rewrite Nat2N.inj_succ. lia.
Qed.

Lemma In_nrange : forall a b x, In x (nrange a b) <-> a <= x /\ x <= b.
Proof. intros. unfold nrange. rewrite In_nseq. lia. Qed.

Lemma nrange_empty : forall a b, b < a -> nrange a b = [].
Proof. intros a b H. unfold nrange. replace (N.succ b - a) with 0 by lia. reflexivity. Qed.

Lemma nrange_one : forall a, nrange a a = [a].
Proof. intros a. unfold nrange. replace (N.succ a - a) with 1 by lia. reflexivity. Qed.

Lemma nrange_split : forall a m b, a <= m + 1 -> m <= b -> nrange a b = nrange a m ++ nrange (m + 1) b.
Proof.
  intros a m b H1 H2. unfold nrange.
  replace (N.to_nat (N.succ b - a)) with (N.to_nat (N.succ m - a) + N.to_nat (N.succ b - (m + 1)))%nat by lia.
  rewrite nseq_app. do 2 f_equal. rewrite N2Nat.id. lia.
Qed.

(* the blocks GetEventsByBlockRange builds for block n *)
Definition blk_of (ch : chain) (n : N) : list block := match ch n with [] => [] | ls => [(n, appender ls)] end.

Lemma gebr_unfold : forall ch a b, gebr ch a b = flat_map (blk_of ch) (nrange a b).
Proof. reflexivity. Qed.

Lemma gebr_split : forall ch a m b, a <= m + 1 -> m <= b -> gebr ch a b = gebr ch a m ++ gebr ch (m + 1) b.
Proof. intros. rewrite !gebr_unfold, (nrange_split a m b), flat_map_app by assumption. reflexivity. Qed.

Lemma gebr_empty : forall ch a b, b < a -> gebr ch a b = [].
Proof. intros. rewrite gebr_unfold, nrange_empty by assumption. reflexivity. Qed.

Lemma gebr_nil : forall ch a b, (forall n, a <= n -> n <= b -> ch n = []) -> gebr ch a b = [].
Proof.
  intros ch a b H. rewrite gebr_unfold. apply flat_map_nil. intros n Hn. apply In_nrange in Hn.
  unfold blk_of. now rewrite H.
Qed.

Lemma gebr_ext : forall ch ch' a b, (forall n, a <= n -> n <= b -> ch n = ch' n) -> gebr ch a b = gebr ch' a b.
Proof.
  intros ch ch' a b H. rewrite !gebr_unfold. apply flat_map_ext_in'. intros n Hn. apply In_nrange in Hn.
  unfold blk_of. now rewrite H.
Qed.

Lemma gebr_one : forall ch n, gebr ch n n = blk_of ch n.
Proof. intros. rewrite gebr_unfold, nrange_one. cbn. apply app_nil_r. Qed.

(* appender: only the last log of a block survives *)
Definition norm (l : log) : event := if l_rm l then {| l_rm := true; l_ger := l_ger l; l_idx := 0 |} else l.

Lemma appender_last : forall ls l, appender (ls ++ [l]) = [norm l].
Proof. intros. unfold appender. rewrite fold_left_app. reflexivity. Qed.

Lemma appender_cases : forall ls, ls <> [] -> exists l, In l ls /\ appender ls = [norm l].
Proof.
  intros ls H. destruct (exists_last H) as (ls' & l & ->). exists l. split.
  - apply in_or_app. right. now left.
  - apply appender_last.
Qed.

Lemma blk_of_cases : forall ch n,
  (ch n = [] /\ blk_of ch n = []) \/ (exists l, In l (ch n) /\ blk_of ch n = [(n, [norm l])]).
Proof.
  intros ch n. unfold blk_of. destruct (ch n) as [|l0 ls] eqn:E; [now left|]. right.
  destruct (appender_cases (l0 :: ls)) as (l & Hin & Hap); [discriminate|]. exists l. now rewrite Hap.
Qed.

Lemma In_gebr : forall ch a b blk, In blk (gebr ch a b) <->
  a <= fst blk /\ fst blk <= b /\ ch (fst blk) <> [] /\ snd blk = appender (ch (fst blk)).
Proof.
  intros ch a b blk. rewrite gebr_unfold, in_flat_map. split.
  - intros (n & Hn & Hb). apply In_nrange in Hn. unfold blk_of in Hb. destruct (ch n) as [|l0 ls] eqn:E; [destruct Hb|].
    destruct Hb as [<-|[]]. cbn [fst snd]. rewrite E. repeat split; try lia. discriminate.
  - intros (H1 & H2 & H3 & H4). exists (fst blk). split; [apply In_nrange; lia|]. unfold blk_of.
    destruct (ch (fst blk)) as [|l0 ls] eqn:E; [congruence|]. left. destruct blk as [n evs]. cbn [fst snd] in *. now subst.
Qed.

(* each event block of the range exactly once, in increasing order *)
Lemma gebr_sorted_aux : forall ch len a,
  StronglySorted N.lt (map fst (flat_map (blk_of ch) (nseq a len))) /\
  Forall (fun n => a <= n) (map fst (flat_map (blk_of ch) (nseq a len))).
Proof.
  induction len as [|k IH]; intros a; [split; constructor|].
  cbn [nseq flat_map]. destruct (IH (N.succ a)) as [S1 F1].
  assert (F2 : Forall (fun n => a < n) (map fst (flat_map (blk_of ch) (nseq (N.succ a) k)))).
  { eapply Forall_impl; [|exact F1]. cbn. intros; lia. }
  destruct (blk_of_cases ch a) as [[_ ->]|(l & _ & ->)]; cbn [app map fst].
  - split; [exact S1|]. eapply Forall_impl; [|exact F2]. cbn. intros; lia.
  - split; [constructor; assumption|]. constructor; [lia|]. eapply Forall_impl; [|exact F2]. cbn. intros; lia.
Qed.

Lemma gebr_sorted : forall ch a b, StronglySorted N.lt (map fst (gebr ch a b)).
Proof. intros. rewrite gebr_unfold. apply gebr_sorted_aux. Qed.

Lemma sorted_lt_nodup : forall l, StronglySorted N.lt l -> NoDup l.
Proof.
  induction 1 as [|x l S IH F]; constructor; [|exact IH].
  intros Hin. rewrite Forall_forall in F. specialize (F x Hin). lia.
Qed.

Lemma gebr_nodup : forall ch a b, NoDup (map fst (gebr ch a b)).
Proof. intros. apply sorted_lt_nodup, gebr_sorted. Qed.

(* ------------------------------------------------------------------------------------------------ *)
(* the repaired Download loop                                                                        *)
(* ------------------------------------------------------------------------------------------------ *)

Lemma download_fixed_spec : forall ch polls x,
  download dl_fixed ch (x + 1) polls =
  (gebr ch (x + 1) (fold_left N.max polls x), fold_left N.max polls x + 1).
Proof.
  intros ch. induction polls as [|t ps IH]; intros x.
  - cbn [download fold_left]. rewrite gebr_empty by lia. reflexivity.
  - cbn [download fold_left dl_fixed dl_wait dl_step]. unfold pp_wait_fixed, u64_pred, pp_step_fixed.
    replace (x + 1 =? 0) with false by (symmetry; apply N.eqb_neq; lia).
    replace (x + 1 - 1) with x by lia.
    destruct (x <? t) eqn:E.
    + apply N.ltb_lt in E. rewrite (IH t). replace (N.max x t) with t by lia.
      pose proof (fold_max_ge ps t). rewrite (gebr_split ch (x + 1) t (fold_left N.max ps t)) by lia. reflexivity.
    + apply N.ltb_ge in E. replace (N.max x t) with x by lia. apply IH.
Qed.

(* the loop as written today *)
Lemma download_current_spec : forall ch polls x,
  download dl_current ch x polls =
  (flat_map (fun t => gebr ch t t) (snd (fold_left (fun acc t => if fst acc <? t then (t, snd acc ++ [t]) else acc) polls (x, []))),
   fst (fold_left (fun acc t => if fst acc <? t then (t, snd acc ++ [t]) else acc) polls (x, []))).
Proof.
  intros ch polls x.
  assert (G : forall polls x pre,
    (flat_map (fun t => gebr ch t t) pre ++ fst (download dl_current ch x polls), snd (download dl_current ch x polls)) =
    (flat_map (fun t => gebr ch t t) (snd (fold_left (fun acc t => if fst acc <? t then (t, snd acc ++ [t]) else acc) polls (x, pre))),
     fst (fold_left (fun acc t => if fst acc <? t then (t, snd acc ++ [t]) else acc) polls (x, pre)))).
  { clear. induction polls as [|t ps IH]; intros x pre.
    - cbn. now rewrite app_nil_r.
    - cbn [download fold_left dl_current dl_wait dl_step fst snd]. unfold pp_wait, pp_step.
      destruct (x <? t) eqn:E.
      + rewrite <- (IH t (pre ++ [t])). destruct (download dl_current ch t ps) as [rest f]. cbn [fst snd].
        rewrite flat_map_app. cbn [flat_map]. rewrite app_nil_r, app_assoc. reflexivity.
      + apply IH. }
  specialize (G polls x []). cbn [flat_map app] in G. rewrite <- G. now destruct (download dl_current ch x polls).
Qed.
(* ------------------------------------------------------------------------------------------------ *)
(* processor                                                                                         *)
(* ------------------------------------------------------------------------------------------------ *)

Definition mkrow (b : N) (e : event) : row := {| r_blk := b; r_ger := l_ger e; r_idx := l_idx e |}.
Definition apply_rows (b : N) (rows : list row) (e : event) : list row :=
  if l_rm e then filter (fun r => negb (r_ger r =? l_ger e)) rows else rows ++ [mkrow b e].

(* every block number and every row of the store is at most m *)
Definition bounded (st : store) (m : N) : Prop :=
  (forall n, In n (s_blocks st) -> n <= m) /\ (forall r, In r (s_rows st) -> r_blk r <= m).

(* same block table, rows included *)
Definition sub (st sa : store) : Prop := s_blocks st = s_blocks sa /\ incl (s_rows st) (s_rows sa).

Lemma sub_refl : forall st, sub st st.
Proof. intros; split; [reflexivity | apply incl_refl]. Qed.

Lemma sub_trans : forall a b c, sub a b -> sub b c -> sub a c.
Proof. intros a b c [H1 H2] [H3 H4]. split; [congruence | eapply incl_tran; eassumption]. Qed.

Lemma bounded_le : forall st m m', bounded st m -> m <= m' -> bounded st m'.
Proof. intros st m m' [H1 H2] H. split; intros x Hx; [specialize (H1 x Hx) | specialize (H2 x Hx)]; lia. Qed.

Lemma bounded_sub : forall st sa m, sub st sa -> bounded sa m -> bounded st m.
Proof. intros st sa m [H1 H2] [H3 H4]. split; [rewrite H1; exact H3 | intros r Hr; apply H4, H2, Hr]. Qed.

Lemma process_block_single : forall st b e m, bounded st m -> m < b ->
  process_block st (b, [e]) = Some {| s_blocks := s_blocks st ++ [b]; s_rows := apply_rows b (s_rows st) e |}.
Proof.
  intros st b e m [Hb Hr] Hlt. unfold process_block.
  rewrite existsb_false.
  2:{ intros x Hx. apply N.eqb_neq. specialize (Hb x Hx). lia. }
  cbn [apply_events]. unfold apply_event, apply_rows. destruct (l_rm e); [reflexivity|].
  rewrite existsb_false; [reflexivity|].
  intros r Hx. apply N.eqb_neq. specialize (Hr r Hx). lia.
Qed.

Lemma apply_block_single : forall st b e m, bounded st m -> m < b ->
  apply_block st (b, [e]) = {| s_blocks := s_blocks st ++ [b]; s_rows := apply_rows b (s_rows st) e |}.
Proof. intros. unfold apply_block. now erewrite process_block_single by eassumption. Qed.

Lemma apply_rows_incl : forall b rows rows' e, incl rows rows' -> incl (apply_rows b rows e) (apply_rows b rows' e).
Proof.
  intros b rows rows' e H. unfold apply_rows. destruct (l_rm e).
  - intros r Hr. apply filter_In in Hr as [H1 H2]. apply filter_In. split; [apply H, H1 | exact H2].
  - apply incl_app; [apply incl_appl, H | apply incl_appr, incl_refl].
Qed.

Lemma single_bounded : forall st b e m, bounded st m -> m < b ->
  bounded {| s_blocks := s_blocks st ++ [b]; s_rows := apply_rows b (s_rows st) e |} b.
Proof.
  intros st b e m [Hb Hr] Hlt. split; cbn [s_blocks s_rows].
  - intros n Hn. apply in_app_or in Hn as [Hn|[<-|[]]]; [specialize (Hb n Hn)|]; lia.
  - intros r Hn. unfold apply_rows in Hn. destruct (l_rm e).
    + apply filter_In in Hn as [Hn _]. specialize (Hr r Hn). lia.
    + apply in_app_or in Hn as [Hn|[<-|[]]]; [specialize (Hr r Hn); lia | cbn; lia].
Qed.

Lemma process_all_apply : forall bs st st', process_all st bs = Some st' -> fold_left apply_block bs st = st'.
Proof.
  induction bs as [|b bs IH]; intros st st' H; cbn [process_all fold_left] in *; [congruence|].
  unfold apply_block at 2. destruct (process_block st b) as [st1|]; [now apply IH | discriminate].
Qed.

(* processing a block range on two related stores *)
Lemma process_range_mono : forall (ch : chain) len a st sa m,
  sub st sa -> bounded sa m -> m < a ->
  exists st', process_all st (flat_map (blk_of ch) (nseq a len)) = Some st' /\
              sub st' (fold_left apply_block (flat_map (blk_of ch) (nseq a len)) sa) /\
              bounded (fold_left apply_block (flat_map (blk_of ch) (nseq a len)) sa) (a + N.of_nat len - 1) /\
              s_blocks (fold_left apply_block (flat_map (blk_of ch) (nseq a len)) sa) =
                s_blocks sa ++ map fst (flat_map (blk_of ch) (nseq a len)).
Proof.
  intros ch. induction len as [|k IH]; intros a st sa m Hs Hb Hlt.
  - exists st. cbn. repeat split; try apply Hs.
    + destruct (bounded_le sa m (a + 0 - 1) Hb ltac:(lia)) as [H _]. exact H.
    + destruct (bounded_le sa m (a + 0 - 1) Hb ltac:(lia)) as [_ H]. exact H.
    + now rewrite app_nil_r.
  - cbn [nseq flat_map]. replace (a + N.of_nat (S k) - 1) with (N.succ a + N.of_nat k - 1) by lia.
    destruct (blk_of_cases ch a) as [[_ ->]|(l & _ & ->)]; cbn [app].
    + apply (IH (N.succ a) st sa m); [assumption..|lia].
    + cbn [process_all fold_left].
      pose proof (bounded_sub _ _ _ Hs Hb) as Hbst.
      rewrite (process_block_single st a (norm l) m Hbst Hlt).
      rewrite (apply_block_single sa a (norm l) m Hb Hlt).
      set (st1 := {| s_blocks := s_blocks st ++ [a]; s_rows := apply_rows a (s_rows st) (norm l) |}).
      set (sa1 := {| s_blocks := s_blocks sa ++ [a]; s_rows := apply_rows a (s_rows sa) (norm l) |}).
      assert (Hs1 : sub st1 sa1).
      { destruct Hs as [H1 H2]. split; cbn [s_blocks s_rows st1 sa1]; [now rewrite H1 | now apply apply_rows_incl]. }
      destruct (IH (N.succ a) st1 sa1 a Hs1 (single_bounded sa a (norm l) m Hb Hlt) ltac:(lia)) as (st' & P1 & P2 & P3 & P4).
      exists st'. repeat split; try assumption; try apply P2; try apply P3.
      rewrite P4. cbn [s_blocks sa1 map fst]. now rewrite <- app_assoc.
Qed.

Lemma process_gebr_mono : forall ch a b st sa m,
  sub st sa -> bounded sa m -> m < a ->
  exists st', process_all st (gebr ch a b) = Some st' /\
              sub st' (fold_left apply_block (gebr ch a b) sa) /\
              bounded (fold_left apply_block (gebr ch a b) sa) (N.max m b) /\
              s_blocks (fold_left apply_block (gebr ch a b) sa) = s_blocks sa ++ map fst (gebr ch a b).
Proof.
  intros ch a b st sa m Hs Hb Hlt. destruct (N.ltb_spec b a) as [E|E].
  - rewrite gebr_empty by assumption. exists st. cbn. repeat split; try apply Hs.
    + apply (bounded_le sa m (N.max m b) Hb). lia.
    + apply (bounded_le sa m (N.max m b) Hb). lia.
    + now rewrite app_nil_r.
  - rewrite gebr_unfold. unfold nrange.
    destruct (process_range_mono ch (N.to_nat (N.succ b - a)) a st sa m Hs Hb Hlt) as (st' & P1 & P2 & P3 & P4).
    exists st'. repeat split; try assumption; try apply P2.
    + apply (bounded_le _ _ _ P3). lia.
    + apply (bounded_le _ _ _ P3). lia.
Qed.

(* ------------------------------------------------------------------------------------------------ *)
(* the as-if store                                                                                   *)
(* ------------------------------------------------------------------------------------------------ *)

Lemma asif_0 : forall ch, A ch 0 = empty_store.
Proof. reflexivity. Qed.

Lemma empty_bounded : bounded empty_store 0.
Proof. split; intros x []. Qed.

Lemma asif_bounded : forall ch h, bounded (A ch h) h.
Proof.
  intros ch h. destruct (process_gebr_mono ch 1 h empty_store empty_store 0 (sub_refl _) empty_bounded ltac:(lia))
    as (_ & _ & _ & P3 & _).
  unfold asif_store. apply (bounded_le _ _ _ P3). lia.
Qed.

Lemma asif_split : forall ch a b, 1 <= a -> a <= b + 1 -> A ch b = fold_left apply_block (gebr ch a b) (A ch (a - 1)).
Proof.
  intros ch a b H1 H2. unfold asif_store.
  rewrite (gebr_split ch 1 (a - 1) b) by lia. rewrite fold_left_app. replace (a - 1 + 1) with a by lia. reflexivity.
Qed.

Lemma asif_blocks_eq : forall ch h, s_blocks (A ch h) = map fst (gebr ch 1 h).
Proof.
  intros ch h. destruct (process_gebr_mono ch 1 h empty_store empty_store 0 (sub_refl _) empty_bounded ltac:(lia))
    as (_ & _ & _ & _ & P4). exact P4.
Qed.

Lemma asif_blocks : forall ch h n, In n (s_blocks (A ch h)) <-> 1 <= n /\ n <= h /\ ch n <> [].
Proof.
  intros ch h n. rewrite asif_blocks_eq, in_map_iff. split.
  - intros (blk & <- & Hin). apply In_gebr in Hin. tauto.
  - intros (H1 & H2 & H3). exists (n, appender (ch n)). split; [reflexivity|]. apply In_gebr. cbn [fst snd]. tauto.
Qed.

Lemma asif_last : forall ch h,
  last_processed (A ch h) <= h /\ forall n, last_processed (A ch h) < n -> n <= h -> ch n = [].
Proof.
  intros ch h. unfold last_processed. split.
  - apply fold_max_le; [lia|]. intros x Hx. apply asif_blocks in Hx. lia.
  - intros n H1 H2. destruct (ch n) as [|l0 ls] eqn:E; [reflexivity|]. exfalso.
    assert (Hin : In n (s_blocks (A ch h))) by (apply asif_blocks; repeat split; [lia | lia | congruence]).
    pose proof (fold_max_in _ 0 _ Hin). lia.
Qed.

Lemma asif_same : forall ch k h, k <= h -> (forall n, k < n -> n <= h -> ch n = []) -> A ch h = A ch k.
Proof.
  intros ch k h H1 H2. rewrite (asif_split ch (k + 1) h) by lia.
  rewrite gebr_nil; [|intros; apply H2; lia]. replace (k + 1 - 1) with k by lia. reflexivity.
Qed.

Lemma asif_idem : forall ch h, A ch h = A ch (last_processed (A ch h)).
Proof. intros ch h. destruct (asif_last ch h) as [H1 H2]. now apply asif_same. Qed.

Lemma asif_succ_nil : forall ch h, ch (N.succ h) = [] -> A ch (N.succ h) = A ch h.
Proof. intros ch h E. apply asif_same; [lia|]. intros n H1 H2. replace n with (N.succ h) by lia. exact E. Qed.

Lemma asif_succ_one : forall ch h l, ch (N.succ h) = [l] ->
  A ch (N.succ h) = {| s_blocks := s_blocks (A ch h) ++ [N.succ h];
                       s_rows := apply_rows (N.succ h) (s_rows (A ch h)) (norm l) |}.
Proof.
  intros ch h l E. rewrite (asif_split ch (N.succ h) (N.succ h)) by lia.
  rewrite gebr_one. unfold blk_of. rewrite E. cbn [fold_left]. replace (N.succ h - 1) with h by lia.
  change (appender [l]) with [norm l].
  apply (apply_block_single _ _ _ h (asif_bounded ch h)). lia.
Qed.

(* rows of the as-if store = roots injected and not removed since *)
Definition live_row (ch : chain) (h : N) (r : row) : Prop :=
  1 <= r_blk r /\ r_blk r <= h /\ injected_at ch (r_blk r) (r_ger r) (r_idx r) /\
  forall m, r_blk r < m -> m <= h -> ~ removed_at ch m (r_ger r).

Lemma one_per_block_cases : forall ch n, one_per_block ch -> ch n = [] \/ exists l, ch n = [l].
Proof.
  intros ch n H. specialize (H n). destruct (ch n) as [|l [|l' ls]]; [now left | right; now exists l | cbn in H; lia].
Qed.

Lemma asif_rows : forall ch, one_per_block ch -> forall h r, In r (s_rows (A ch h)) <-> live_row ch h r.
Proof.
  intros ch Hone. induction h as [|h IH] using N.peano_ind; intros r.
  - rewrite asif_0. cbn. unfold live_row. split; [tauto | lia].
  - destruct (one_per_block_cases ch (N.succ h) Hone) as [E|(l & E)].
    + rewrite (asif_succ_nil ch h E), IH. unfold live_row. split.
      * intros (H1 & H2 & H3 & H4). repeat split; try assumption; try lia.
        intros m Hm1 Hm2. destruct (N.eq_dec m (N.succ h)) as [->|Hne]; [|apply H4; lia].
        intros (l & Hl & _). rewrite E in Hl. destruct Hl.
      * intros (H1 & H2 & H3 & H4).
        assert (r_blk r <> N.succ h) by (intros Heq; unfold injected_at in H3; rewrite Heq, E in H3; discriminate).
        repeat split; try assumption; try lia. intros m Hm1 Hm2. apply H4; lia.
    + rewrite (asif_succ_one ch h l E). cbn [s_rows]. unfold apply_rows.
      destruct l as [rm g i]. destruct rm; cbn [norm l_rm l_ger l_idx].
      * (* removal of g *)
        rewrite filter_In, IH. unfold live_row. split.
        -- intros ((H1 & H2 & H3 & H4) & Hg). apply negb_true_iff, N.eqb_neq in Hg.
           repeat split; try assumption; try lia.
           intros m Hm1 Hm2. destruct (N.eq_dec m (N.succ h)) as [->|Hne]; [|apply H4; lia].
           intros (l & Hl & _ & Hl2). rewrite E in Hl. destruct Hl as [<-|[]]. cbn in Hl2. congruence.
        -- intros (H1 & H2 & H3 & H4).
           assert (r_blk r <> N.succ h) by (intros Heq; unfold injected_at in H3; rewrite Heq, E in H3; discriminate).
           split.
           ++ repeat split; try assumption; try lia. intros m Hm1 Hm2. apply H4; lia.
           ++ apply negb_true_iff, N.eqb_neq. intros Heq. apply (H4 (N.succ h)); [lia | lia|].
              exists {| l_rm := true; l_ger := g; l_idx := i |}. rewrite E. cbn. auto.
      * (* insertion of (g, i) *)
        rewrite in_app_iff, IH. unfold live_row. split.
        -- intros [(H1 & H2 & H3 & H4)|[<-|[]]].
           ++ repeat split; try assumption; try lia.
              intros m Hm1 Hm2. destruct (N.eq_dec m (N.succ h)) as [->|Hne]; [|apply H4; lia].
              intros (l & Hl & Hl1 & _). rewrite E in Hl. destruct Hl as [<-|[]]. discriminate.
           ++ unfold mkrow. cbn [r_blk r_ger r_idx l_ger l_idx]. repeat split; try lia.
              unfold injected_at. exact E.
        -- intros (H1 & H2 & H3 & H4). destruct (N.eq_dec (r_blk r) (N.succ h)) as [Heq|Hne].
           ++ right. left. unfold injected_at in H3. rewrite Heq, E in H3. injection H3 as -> ->.
              destruct r as [rb rg ri]. cbn in *. unfold mkrow. cbn. now subst.
           ++ left. repeat split; try assumption; try lia. intros m Hm1 Hm2. apply H4; lia.
Qed.
(* ------------------------------------------------------------------------------------------------ *)
(* the query                                                                                         *)
(* ------------------------------------------------------------------------------------------------ *)

Lemma fold_better_spec : forall l acc r, fold_left better l acc = Some r ->
  (acc = Some r \/ In r l) /\
  (forall r', In r' l -> r_idx r <= r_idx r') /\
  (forall a, acc = Some a -> r_idx r <= r_idx a).
Proof.
  induction l as [|x l IH]; intros acc r H; cbn [fold_left] in H.
  - subst acc. repeat split; [now left | intros r' [] | intros a Ha; injection Ha as ->; lia].
  - destruct acc as [b|]; cbn [better] in H.
    + destruct (N.ltb_spec (r_idx x) (r_idx b)) as [E|E]; destruct (IH _ _ H) as (H1 & H2 & H3).
      * repeat split.
        -- destruct H1 as [H1|H1]; [injection H1 as ->; right; now left | right; now right].
        -- intros r' [<-|Hr']; [apply (H3 x eq_refl) | now apply H2].
        -- intros a Ha. injection Ha as ->. specialize (H3 x eq_refl). lia.
      * repeat split.
        -- destruct H1 as [H1|H1]; [now left | right; now right].
        -- intros r' [<-|Hr']; [specialize (H3 b eq_refl); lia | now apply H2].
        -- intros a Ha. injection Ha as <-. apply (H3 b eq_refl).
    + destruct (IH _ _ H) as (H1 & H2 & H3). repeat split.
      * destruct H1 as [H1|H1]; [injection H1 as ->; right; now left | right; now right].
      * intros r' [<-|Hr']; [apply (H3 x eq_refl) | now apply H2].
      * intros a Ha. discriminate.
Qed.

Lemma fold_better_none : forall l acc, fold_left better l acc = None -> acc = None /\ l = [].
Proof.
  induction l as [|x l IH]; intros acc H; cbn [fold_left] in H; [now split|].
  apply IH in H as [H _]. unfold better in H. destruct acc as [b|]; [destruct (r_idx x <? r_idx b)|]; discriminate.
Qed.

Lemma query_sound : forall st x i g, first_ger_after st x = Some (i, g) ->
  exists r, In r (s_rows st) /\ r_idx r = i /\ r_ger r = g /\ x <= i.
Proof.
  intros st x i g H. unfold first_ger_after in H.
  destruct (fold_left better _ None) as [r|] eqn:E; [|discriminate]. injection H as <- <-.
  apply fold_better_spec in E as ([E|E] & _ & _); [discriminate|].
  apply filter_In in E as [E1 E2]. apply N.leb_le in E2. now exists r.
Qed.

Lemma query_complete : forall st x r, In r (s_rows st) -> x <= r_idx r -> first_ger_after st x <> None.
Proof.
  intros st x r H1 H2 H. unfold first_ger_after in H.
  destruct (fold_left better _ None) as [r0|] eqn:E; [discriminate|].
  apply fold_better_none in E as [_ E].
  assert (Hin : In r (filter (fun r => x <=? r_idx r) (s_rows st))) by (apply filter_In; split; [assumption | now apply N.leb_le]).
  rewrite E in Hin. destruct Hin.
Qed.

Lemma query_min : forall st x i g r, first_ger_after st x = Some (i, g) -> In r (s_rows st) -> x <= r_idx r -> i <= r_idx r.
Proof.
  intros st x i g r H H1 H2. unfold first_ger_after in H.
  destruct (fold_left better _ None) as [r0|] eqn:E; [|discriminate]. injection H as <- <-.
  apply fold_better_spec in E as (_ & E & _). apply E. apply filter_In. split; [assumption | now apply N.leb_le].
Qed.

(* ------------------------------------------------------------------------------------------------ *)
(* reorg                                                                                             *)
(* ------------------------------------------------------------------------------------------------ *)

Lemma reorg_sub_mono : forall b st sa, sub st sa -> sub (reorg b st) (reorg b sa).
Proof.
  intros b st sa [H1 H2]. split; cbn [reorg s_blocks s_rows]; [now rewrite H1|].
  intros r Hr. apply filter_In in Hr as [Hr1 Hr2]. apply filter_In. split; [apply H2, Hr1 | exact Hr2].
Qed.

Lemma reorg_id : forall b st m, bounded st m -> m < b -> reorg b st = st.
Proof.
  intros b st m [H1 H2] Hlt. destruct st as [bl rw]. unfold reorg. cbn [s_blocks s_rows] in *. f_equal.
  - apply filter_all. intros n Hn. apply N.ltb_lt. specialize (H1 n Hn). lia.
  - apply filter_all. intros r Hr. apply N.ltb_lt. specialize (H2 r Hr). lia.
Qed.

Lemma reorg_single : forall b a st e, b <= a ->
  let st1 := {| s_blocks := s_blocks st ++ [a]; s_rows := apply_rows a (s_rows st) e |} in
  sub (reorg b st1) (reorg b st) /\ (l_rm e = false -> reorg b st1 = reorg b st).
Proof.
  intros b a st e Hle st1. unfold reorg, st1. cbn [s_blocks s_rows].
  assert (Hb : filter (fun n => n <? b) (s_blocks st ++ [a]) = filter (fun n => n <? b) (s_blocks st)).
  { rewrite filter_app. cbn [filter]. replace (a <? b) with false by (symmetry; apply N.ltb_ge; lia). apply app_nil_r. }
  rewrite Hb. unfold apply_rows. destruct (l_rm e).
  - split; [|discriminate]. split; cbn [s_blocks s_rows]; [reflexivity|].
    intros r Hr. apply filter_In in Hr as [Hr1 Hr2]. apply filter_In in Hr1 as [Hr1 _]. apply filter_In. now split.
  - assert (Hr : filter (fun r => r_blk r <? b) (s_rows st ++ [mkrow a e]) = filter (fun r => r_blk r <? b) (s_rows st)).
    { rewrite filter_app. cbn [filter mkrow r_blk]. replace (a <? b) with false by (symmetry; apply N.ltb_ge; lia). apply app_nil_r. }
    rewrite Hr. split; [apply sub_refl | reflexivity].
Qed.

Lemma reorg_range : forall (ch : chain) b len a st m, bounded st m -> m < a -> b <= a ->
  sub (reorg b (fold_left apply_block (flat_map (blk_of ch) (nseq a len)) st)) (reorg b st) /\
  ((forall n l, In n (nseq a len) -> In l (ch n) -> l_rm l = false) ->
   reorg b (fold_left apply_block (flat_map (blk_of ch) (nseq a len)) st) = reorg b st).
Proof.
  intros ch b. induction len as [|k IH]; intros a st m Hb Hlt Hle.
  - cbn. split; [apply sub_refl | reflexivity].
  - cbn [nseq flat_map]. destruct (blk_of_cases ch a) as [[_ ->]|(l & Hl & ->)]; cbn [app].
    + destruct (IH (N.succ a) st m Hb ltac:(lia) ltac:(lia)) as [I1 I2]. split; [exact I1|].
      intros H. apply I2. intros n l0 Hn. apply H. now right.
    + cbn [fold_left]. rewrite (apply_block_single st a (norm l) m Hb Hlt).
      destruct (reorg_single b a st (norm l) Hle) as [S1 S2].
      destruct (IH (N.succ a) _ a (single_bounded st a (norm l) m Hb Hlt) ltac:(lia) ltac:(lia)) as [I1 I2].
      split; [eapply sub_trans; eassumption|].
      intros H. rewrite I2 by (intros n l0 Hn; apply H; now right). apply S2.
      assert (Hrm : l_rm l = false) by (apply (H a l); [now left | exact Hl]).
      unfold norm. now rewrite Hrm.
Qed.

Lemma reorg_asif : forall ch b h,
  sub (reorg b (A ch h)) (A ch (N.min h (b - 1))) /\
  (no_removal_in ch b h -> reorg b (A ch h) = A ch (N.min h (b - 1))).
Proof.
  intros ch b h. destruct (N.eq_dec b 0) as [->|Hb0].
  - replace (N.min h (0 - 1)) with 0 by lia. rewrite asif_0.
    assert (E : reorg 0 (A ch h) = empty_store).
    { unfold reorg, empty_store. f_equal; apply filter_none; intros; apply N.ltb_ge; lia. }
    rewrite E. split; [apply sub_refl | reflexivity].
  - destruct (N.ltb_spec h b) as [E|E].
    + replace (N.min h (b - 1)) with h by lia. rewrite (reorg_id b (A ch h) h (asif_bounded ch h) E).
      split; [apply sub_refl | reflexivity].
    + replace (N.min h (b - 1)) with (b - 1) by lia.
      rewrite (asif_split ch b h) by lia. rewrite gebr_unfold. unfold nrange.
      destruct (reorg_range ch b (N.to_nat (N.succ h - b)) b (A ch (b - 1)) (b - 1) (asif_bounded ch (b - 1)) ltac:(lia) ltac:(lia))
        as [R1 R2].
      rewrite (reorg_id b (A ch (b - 1)) (b - 1) (asif_bounded ch (b - 1)) ltac:(lia)) in R1, R2.
      split; [exact R1|]. intros Hno. apply R2. intros n l Hn Hl. apply In_nseq in Hn. apply (Hno n l); try assumption; lia.
Qed.

Lemma asif_splice : forall ch b ch' k, k <= b - 1 -> A (splice ch b ch') k = A ch k.
Proof.
  intros ch b ch' k H. unfold asif_store. f_equal. apply gebr_ext. intros n H1 H2. unfold splice.
  replace (n <? b) with true by (symmetry; apply N.ltb_lt; lia). reflexivity.
Qed.

Lemma last_processed_sub : forall st sa, sub st sa -> last_processed st = last_processed sa.
Proof. intros st sa [H _]. unfold last_processed. now rewrite H. Qed.

(* ------------------------------------------------------------------------------------------------ *)
(* one segment of the repaired node                                                                  *)
(* ------------------------------------------------------------------------------------------------ *)

Definition seg_ok (ch : chain) (st : store) (ro : option (N * chain)) : Prop :=
  match ro with None => True | Some (b, _) => no_removal_in ch b (last_processed st) end.

(* beginning of a segment: restart or reorg *)
Lemma seg_begin_inv : forall ch st h ro, sub st (A ch h) ->
  exists h0, sub (snd (seg_begin ch st ro)) (A (fst (seg_begin ch st ro)) h0) /\
             (st = A ch h -> seg_ok ch st ro -> snd (seg_begin ch st ro) = A (fst (seg_begin ch st ro)) h0).
Proof.
  intros ch st h ro Hs. destruct ro as [[b ch']|]; cbn [seg_begin fst snd seg_ok].
  - exists (N.min h (b - 1)). destruct (reorg_asif ch b h) as [R1 R2].
    rewrite (asif_splice ch b ch') by lia. split.
    + eapply sub_trans; [apply reorg_sub_mono, Hs | exact R1].
    + intros -> Hno. apply R2. destruct (asif_last ch h) as [L1 L2].
      intros m l H1 H2 Hl. destruct (N.leb_spec m (last_processed (A ch h))) as [E|E].
      * now apply (Hno m l).
      * rewrite (L2 m E H2) in Hl. destruct Hl.
  - exists h. split; [exact Hs | tauto].
Qed.

(* downloading and processing from lastProcessed+1 with a poll schedule *)
Lemma seg_run_inv : forall ch st h polls, sub st (A ch h) ->
  let L := last_processed st in
  let T := fold_left N.max polls L in
  exists st1, fst (download dl_fixed ch (L + 1) polls) = gebr ch (L + 1) T /\
              process_all st (gebr ch (L + 1) T) = Some st1 /\
              sub st1 (A ch T) /\
              (st = A ch h -> st1 = A ch T).
Proof.
  intros ch st h polls Hs L T.
  assert (HL : L = last_processed (A ch h)) by (apply last_processed_sub, Hs).
  assert (Hidem : A ch h = A ch L) by (rewrite HL; apply asif_idem).
  rewrite Hidem in Hs.
  assert (HT : L <= T) by apply fold_max_ge.
  destruct (process_gebr_mono ch (L + 1) T st (A ch L) L Hs (asif_bounded ch L) ltac:(lia)) as (st1 & P1 & P2 & _ & _).
  assert (HA : A ch T = fold_left apply_block (gebr ch (L + 1) T) (A ch L)).
  { rewrite (asif_split ch (L + 1) T) by lia. now replace (L + 1 - 1) with L by lia. }
  rewrite <- HA in P2.
  exists st1. repeat split; try assumption.
  - rewrite download_fixed_spec. reflexivity.
  - apply P2.
  - apply P2.
  - intros E. rewrite E, Hidem in P1. apply process_all_apply in P1. now rewrite <- P1.
Qed.
Lemma seg_fixed : forall ch st h ro polls, sub st (A ch h) ->
  exists ch1 st1 h1 bs,
    run_seg dl_fixed ch st (ro, polls) = (ch1, Some st1, bs) /\
    sub st1 (A ch1 h1) /\
    (forall t, In t polls -> t <= h1) /\
    (st = A ch h -> seg_ok ch st ro -> st1 = A ch1 h1).
Proof.
  intros ch st h ro polls Hs.
  destruct (seg_begin_inv ch st h ro Hs) as (h0 & B1 & B2).
  unfold run_seg. cbn [fst snd].
  destruct (seg_begin ch st ro) as [ch1 st0] eqn:Eb. cbn [fst snd] in *.
  destruct (seg_run_inv ch1 st0 h0 polls B1) as (st1 & D1 & D2 & D3 & D4).
  exists ch1, st1, (fold_left N.max polls (last_processed st0)),
         (gebr ch1 (last_processed st0 + 1) (fold_left N.max polls (last_processed st0))).
  rewrite D1, D2. repeat split; try apply D3.
  - intros t Ht. now apply fold_max_in.
  - intros E Hok. apply D4. now apply B2.
Qed.

Lemma node_fixed : forall segs ch st h, sub st (A ch h) ->
  exists ch2 st2 h2 bs,
    run_node dl_fixed ch st segs = (ch2, Some st2, bs) /\
    sub st2 (A ch2 h2) /\
    (st = A ch h -> benign dl_fixed ch st segs -> st2 = A ch2 h2) /\
    (forall t, In t (last_polls segs) -> t <= h2).
Proof.
  induction segs as [|[ro polls] segs IH]; intros ch st h Hs.
  - exists ch, st, h, []. cbn. repeat split; try apply Hs; tauto.
  - destruct (seg_fixed ch st h ro polls Hs) as (ch1 & st1 & h1 & bs & S1 & S2 & S3 & S4).
    cbn [run_node benign]. rewrite S1. destruct segs as [|s' segs'].
    + exists ch1, st1, h1, (bs ++ []). cbn [run_node]. repeat split; try apply S2.
      * intros E [Hok _]. now apply S4.
      * exact S3.
    + destruct (IH ch1 st1 h1 S2) as (ch2 & st2 & h2 & bs2 & I1 & I2 & I3 & I4).
      rewrite I1. exists ch2, st2, h2, (bs ++ bs2). repeat split; try apply I2.
      * intros E [Hok Hb]. apply I3; [now apply S4 | exact Hb].
      * exact I4.
Qed.

(* ------------------------------------------------------------------------------------------------ *)
(* main theorems (repaired downloader)                                                               *)
(* ------------------------------------------------------------------------------------------------ *)

Lemma node_from_empty : forall segs ch0, 
  exists ch st h bs,
    run_node dl_fixed ch0 empty_store segs = (ch, Some st, bs) /\
    sub st (A ch h) /\
    (benign dl_fixed ch0 empty_store segs -> st = A ch h) /\
    (forall t, In t (last_polls segs) -> t <= h).
Proof.
  intros segs ch0. destruct (node_fixed segs ch0 empty_store 0) as (ch & st & h & bs & H1 & H2 & H3 & H4).
  - rewrite asif_0. apply sub_refl.
  - exists ch, st, h, bs. repeat split; try assumption; try apply H2. intros Hb. apply H3; [now rewrite asif_0 | exact Hb].
Qed.

Theorem node_never_stuck : forall segs ch0, exists ch st bs, run_node dl_fixed ch0 empty_store segs = (ch, Some st, bs).
Proof. intros. destruct (node_from_empty segs ch0) as (ch & st & h & bs & H & _). now exists ch, st, bs. Qed.

Lemma rows_live : forall ch st h r, one_per_block ch -> sub st (A ch h) -> In r (s_rows st) ->
  live_row ch (last_processed st) r.
Proof.
  intros ch st h r Hone Hs Hr. rewrite (last_processed_sub _ _ Hs).
  apply (asif_rows ch Hone). rewrite <- asif_idem. now apply Hs.
Qed.

Theorem ger_index_sound : forall segs ch0 ch st bs x i g,
  run_node dl_fixed ch0 empty_store segs = (ch, Some st, bs) -> one_per_block ch ->
  first_ger_after st x = Some (i, g) ->
  live ch (last_processed st) g i /\ x <= i.
Proof.
  intros segs ch0 ch st bs x i g Hrun Hone Hq.
  destruct (node_from_empty segs ch0) as (ch' & st' & h & bs' & H1 & H2 & _). rewrite Hrun in H1. injection H1 as <- <- <-.
  destruct (query_sound st x i g Hq) as (r & Hr & <- & <- & Hx). split; [|exact Hx].
  destruct (rows_live ch st h r Hone H2 Hr) as (L1 & L2 & L3 & L4). now exists (r_blk r).
Qed.

Lemma live_has_row : forall ch st h g i, one_per_block ch -> st = A ch h -> live ch (last_processed st) g i ->
  exists r, In r (s_rows st) /\ r_ger r = g /\ r_idx r = i.
Proof.
  intros ch st h g i Hone -> (b & L1 & L2 & L3 & L4).
  exists {| r_blk := b; r_ger := g; r_idx := i |}. split; [|split; reflexivity].
  rewrite asif_idem. apply (asif_rows ch Hone). unfold live_row. cbn [r_blk r_ger r_idx]. tauto.
Qed.

Theorem ger_index_complete : forall segs ch0 ch st bs x g i,
  run_node dl_fixed ch0 empty_store segs = (ch, Some st, bs) -> one_per_block ch ->
  benign dl_fixed ch0 empty_store segs ->
  live ch (last_processed st) g i -> x <= i ->
  first_ger_after st x <> None.
Proof.
  intros segs ch0 ch st bs x g i Hrun Hone Hben Hlive Hx.
  destruct (node_from_empty segs ch0) as (ch' & st' & h & bs' & H1 & _ & H3 & _). rewrite Hrun in H1. injection H1 as <- <- <-.
  destruct (live_has_row ch st h g i Hone (H3 Hben) Hlive) as (r & Hr & <- & <-).
  now apply (query_complete st x r).
Qed.

Theorem ger_index_minimal : forall segs ch0 ch st bs x i g g' i',
  run_node dl_fixed ch0 empty_store segs = (ch, Some st, bs) -> one_per_block ch ->
  benign dl_fixed ch0 empty_store segs ->
  first_ger_after st x = Some (i, g) ->
  live ch (last_processed st) g' i' -> x <= i' -> i <= i'.
Proof.
  intros segs ch0 ch st bs x i g g' i' Hrun Hone Hben Hq Hlive Hx.
  destruct (node_from_empty segs ch0) as (ch' & st' & h & bs' & H1 & _ & H3 & _). rewrite Hrun in H1. injection H1 as <- <- <-.
  destruct (live_has_row ch st h g' i' Hone (H3 Hben) Hlive) as (r & Hr & <- & <-).
  now apply (query_min st x i g r).
Qed.

(* everything the last segment's polls have shown is processed *)
Theorem node_progress : forall segs ch0 ch st bs t n,
  run_node dl_fixed ch0 empty_store segs = (ch, Some st, bs) ->
  In t (last_polls segs) -> 1 <= n -> n <= t -> ch n <> [] ->
  In n (s_blocks st) /\ n <= last_processed st.
Proof.
  intros segs ch0 ch st bs t n Hrun Ht H1 H2 H3.
  destruct (node_from_empty segs ch0) as (ch' & st' & h & bs' & R1 & R2 & _ & R4). rewrite Hrun in R1. injection R1 as <- <- <-.
  specialize (R4 t Ht).
  assert (Hin : In n (s_blocks st)) by (destruct R2 as [-> _]; apply asif_blocks; repeat split; [assumption | lia | assumption]).
  split; [exact Hin|]. unfold last_processed. now apply fold_max_in.
Qed.

(* the as-if store itself, when no reorg undoes a processed removal *)
Theorem node_asif : forall segs ch0 ch st bs,
  run_node dl_fixed ch0 empty_store segs = (ch, Some st, bs) ->
  benign dl_fixed ch0 empty_store segs ->
  st = A ch (last_processed st).
Proof.
  intros segs ch0 ch st bs Hrun Hben.
  destruct (node_from_empty segs ch0) as (ch' & st' & h & bs' & R1 & _ & R3 & _). rewrite Hrun in R1. injection R1 as <- <- <-.
  rewrite (R3 Hben) at 1 2. apply asif_idem.
Qed.

(* ------------------------------------------------------------------------------------------------ *)
(* restarts only: what is delivered                                                                  *)
(* ------------------------------------------------------------------------------------------------ *)

Lemma seg_restart : forall ch h polls,
  run_seg dl_fixed ch (A ch h) (None, polls) =
  (ch, Some (A ch (fold_left N.max polls h)), gebr ch (h + 1) (fold_left N.max polls h)).
Proof.
  intros ch h polls. unfold run_seg. cbn [fst snd seg_begin].
  destruct (seg_run_inv ch (A ch h) h polls (sub_refl _)) as (st1 & D1 & D2 & _ & D4).
  rewrite D1, D2, (D4 eq_refl). clear st1 D1 D2 D4.
  destruct (asif_last ch h) as [L1 L2]. set (L := last_processed (A ch h)) in *.
  rewrite (fold_max_0 polls L), (fold_max_0 polls h). set (M := fold_left N.max polls 0).
  destruct (N.leb_spec M h) as [E|E].
  - replace (N.max h M) with h by lia. rewrite (gebr_empty ch (h + 1) h) by lia.
    rewrite (gebr_nil ch (L + 1) (N.max L M)) by (intros; apply L2; lia).
    rewrite (asif_same ch (N.max L M) h) by (try lia; intros; apply L2; lia). reflexivity.
  - replace (N.max h M) with M by lia. replace (N.max L M) with M by lia.
    rewrite (gebr_split ch (L + 1) h M) by lia.
    rewrite (gebr_nil ch (L + 1) h) by (intros; apply L2; lia). reflexivity.
Qed.

Theorem node_restarts_deliver : forall segs ch h, (forall s, In s segs -> fst s = None) ->
  let H := fold_left N.max (concat (map snd segs)) h in
  run_node dl_fixed ch (A ch h) segs = (ch, Some (A ch H), gebr ch (h + 1) H).
Proof.
  induction segs as [|[ro polls] segs IH]; intros ch h Hno; cbn [map concat snd].
  - cbn. rewrite gebr_empty by lia. reflexivity.
  - assert (ro = None) by (apply (Hno (ro, polls)); now left). subst ro.
    cbn [run_node]. rewrite seg_restart. rewrite fold_left_app.
    set (H1 := fold_left N.max polls h).
    rewrite (IH ch H1) by (intros; apply Hno; now right).
    set (H2 := fold_left N.max (concat (map snd segs)) H1).
    assert (h <= H1) by apply fold_max_ge. assert (H1 <= H2) by apply fold_max_ge.
    rewrite (gebr_split ch (h + 1) H1 H2) by lia. reflexivity.
Qed.

(* ------------------------------------------------------------------------------------------------ *)
(* refutations                                                                                       *)
(* ------------------------------------------------------------------------------------------------ *)

Lemma chain_of_notin : forall h n, ~ In n (map fst h) -> chain_of h n = [].
Proof.
  induction h as [|[b l] h IH]; intros n Hn; [reflexivity|]. unfold chain_of in *. cbn [filter fst map] in *.
  destruct (N.eqb_spec b n) as [->|Hne]; [exfalso; apply Hn; now left|]. apply IH. intros H. apply Hn. now right.
Qed.

Lemma one_per_block_chain_of : forall h, NoDup (map fst h) -> one_per_block (chain_of h).
Proof.
  induction h as [|[b l] h IH]; intros Hnd n; [cbn; lia|]. cbn [map fst] in Hnd. inversion Hnd as [|x xs Hx Hnd']; subst.
  unfold chain_of. cbn [filter fst]. destruct (N.eqb_spec b n) as [->|Hne].
  - cbn [map snd length]. fold (chain_of h n). rewrite chain_of_notin by assumption. cbn. lia.
  - apply (IH Hnd' n).
Qed.

Lemma one_per_block_splice : forall ch b ch', one_per_block ch -> one_per_block ch' -> one_per_block (splice ch b ch').
Proof. intros ch b ch' H1 H2 n. unfold splice. destruct (n <? b); [apply H1 | apply H2]. Qed.

Ltac nodup_tac := cbn [map fst]; repeat (constructor; [cbn [In]; intuition discriminate|]); constructor.

(* the loop as written today loses event blocks: GER injected at L2 block 6, next poll sees tip 8 *)
Theorem pp_download_refuted_current : exists ch x polls n,
  one_per_block ch /\ x + 1 <= n /\ n <= fold_left N.max polls x /\ ch n <> [] /\
  ~ In n (map fst (fst (download dl_current ch (x + 1) polls))).
Proof.
  exists (chain_of [(6, ins 100 7)]), 0, [8], 6. repeat split.
  - apply one_per_block_chain_of. nodup_tac.
  - vm_compute. discriminate.
  - vm_compute. discriminate.
  - vm_compute. discriminate.
  - vm_compute. tauto.
Qed.

(* ... and with it the index: root 10 (index 5) injected at block 2 and never removed, block 4 processed,
   yet the query for index >= 4 says not found *)
Theorem ger_index_complete_refuted_current : exists segs ch0 ch st bs x g i,
  run_node dl_current ch0 empty_store segs = (ch, Some st, bs) /\ one_per_block ch /\
  benign dl_current ch0 empty_store segs /\
  live ch (last_processed st) g i /\ x <= i /\ first_ger_after st x = None.
Proof.
  exists [(None, [4])], (chain_of [(2, ins 10 5); (4, ins 11 3)]), (chain_of [(2, ins 10 5); (4, ins 11 3)]),
         {| s_blocks := [4]; s_rows := [{| r_blk := 4; r_ger := 11; r_idx := 3 |}] |},
         [(4, [ins 11 3])], 4, 10, 5.
  repeat split.
  - apply one_per_block_chain_of. nodup_tac.
  - exists 2. repeat split; try (vm_compute; discriminate).
    intros m _ _ (l & Hl & Hrm & _). unfold chain_of in Hl. cbn [map filter fst snd] in Hl.
    destruct (2 =? m), (4 =? m); cbn [map filter fst snd app] in Hl; repeat (destruct Hl as [<-|Hl]; try discriminate); contradiction.
  - vm_compute. discriminate.
Qed.

(* ... and soundness: root 10 injected at block 2, removed at block 3 (skipped), block 5 processed: the query
   still returns root 10 *)
Theorem ger_index_sound_refuted_current : exists segs ch0 ch st bs x g i,
  run_node dl_current ch0 empty_store segs = (ch, Some st, bs) /\ one_per_block ch /\
  first_ger_after st x = Some (i, g) /\ ~ live ch (last_processed st) g i.
Proof.
  exists [(None, [2; 5])], (chain_of [(2, ins 10 1); (3, rmv 10); (5, ins 11 2)]),
         (chain_of [(2, ins 10 1); (3, rmv 10); (5, ins 11 2)]),
         {| s_blocks := [2; 5]; s_rows := [{| r_blk := 2; r_ger := 10; r_idx := 1 |}; {| r_blk := 5; r_ger := 11; r_idx := 2 |}] |},
         [(2, [ins 10 1]); (5, [ins 11 2])], 0, 10, 1.
  repeat split.
  - apply one_per_block_chain_of. nodup_tac.
  - intros (b & H1 & H2 & Hinj & Hno).
    assert (b = 2).
    { unfold injected_at, chain_of in Hinj. cbn [map filter fst snd] in Hinj. destruct (2 =? b) eqn:E2; [now apply N.eqb_eq in E2|].
      destruct (3 =? b), (5 =? b); cbn [map filter fst snd] in Hinj; discriminate. }
    subst b. apply (Hno 3); [lia | vm_compute; discriminate|].
    exists (rmv 10). repeat split. vm_compute. now left.
Qed.

(* independent of the downloader: a reorg that undoes an already processed removal does not bring the removed
   row back (DELETE is destructive). Root 77 injected at block 5, removed at block 8, both processed; the chain is
   reorged from block 7 on (the new fork has no removal): root 77 is injected, not removed, in a processed block,
   and the query says not found. Finding F5 (property C04) seen through C16. *)
Theorem ger_index_complete_refuted_destructive : exists segs ch0 ch st bs x g i,
  run_node dl_fixed ch0 empty_store segs = (ch, Some st, bs) /\ one_per_block ch /\
  live ch (last_processed st) g i /\ x <= i /\ first_ger_after st x = None /\
  ~ benign dl_fixed ch0 empty_store segs.
Proof.
  exists [(None, [9]); (Some (7, fun _ => []), [9])], (chain_of [(5, ins 77 1); (8, rmv 77)]),
         (splice (chain_of [(5, ins 77 1); (8, rmv 77)]) 7 (fun _ => [])),
         {| s_blocks := [5]; s_rows := [] |}, [(5, [ins 77 1]); (8, [rmv 77])], 0, 77, 1.
  repeat split.
  - apply one_per_block_splice; [apply one_per_block_chain_of; nodup_tac | intros n; cbn; lia].
  - exists 5. repeat split; try (vm_compute; discriminate). intros m H1 H2. unfold last_processed in H2. cbn [s_blocks fold_left] in H2. lia.
  - vm_compute. discriminate.
  - intros (_ & Hb). cbn in Hb. destruct Hb as [Hno _]. 
    specialize (Hno 8 (rmv 77)). vm_compute in Hno. 
    assert (true = false) by (apply Hno; try discriminate; now left). discriminate.
Qed.

(* ------------------------------------------------------------------------------------------------ *)
(* helpers for examples                                                                              *)
(* ------------------------------------------------------------------------------------------------ *)

Lemma benign_cons : forall d ch st s t,
  seg_ok ch st (fst s) ->
  (forall ch1 st1 bs, run_seg d ch st s = (ch1, Some st1, bs) -> benign d ch1 st1 t) ->
  benign d ch st (s :: t).
Proof.
  intros d ch st s t H1 H2. cbn [benign]. split; [exact H1|].
  destruct (run_seg d ch st s) as [[ch1 [st1|]] bs] eqn:E; [|exact I]. now apply (H2 ch1 st1 bs).
Qed.

Lemma gebr_once_in_order : forall ch a b,
  StronglySorted N.lt (map fst (gebr ch a b)) /\ NoDup (map fst (gebr ch a b)).
Proof. intros; split; [apply gebr_sorted | apply gebr_nodup]. Qed.

(* ------------------------------------------------------------------------------------------------ *)
(* ProcessBlock under storage faults                                                                 *)
(* ------------------------------------------------------------------------------------------------ *)

(* a failed ProcessBlock leaves the store (both tables, hence the last processed block and every query) unchanged,
   for every fault position and every block *)
Theorem ger_fault_atomic : forall f st blk e st', process_block_f f st blk = (Some e, st') -> st' = st.
Proof.
  intros f st [b evs] e st' H. unfold process_block_f in H.
  destruct (hits_at f GBlockIns 0 1); [now inversion H|].
  destruct (existsb (N.eqb b) (s_blocks st)); [now inversion H|].
  destruct (process_events_f f b _ evs); [now inversion H | discriminate].
Qed.

Corollary ger_fault_atomic_queries : forall f st blk e st' x, process_block_f f st blk = (Some e, st') ->
  last_processed st' = last_processed st /\ s_rows st' = s_rows st /\ first_ger_after st' x = first_ger_after st x.
Proof. intros f st blk e st' x H. apply ger_fault_atomic in H. now subst. Qed.

Lemma process_events_f_ok : forall f b evs x x', process_events_f f b x evs = inr x' ->
  apply_events b (g_rows x) evs = Some (g_rows x').
Proof.
  intros f b. induction evs as [|e evs IH]; intros x x' H; cbn [process_events_f apply_events] in *.
  - now inversion H.
  - destruct (process_event_f f b x e) as [err|x1] eqn:E; [discriminate|].
    unfold process_event_f in E. unfold apply_event. destruct (l_rm e).
    + destruct (hits_at f GGerDel _ _); [discriminate|]. inversion E; subst. cbn [g_rows] in IH.
      now apply (IH _ _ H).
    + destruct (hits_at f GGerIns _ _); [discriminate|].
      destruct (existsb _ (g_rows x)); [discriminate|]. inversion E; subst. now apply (IH _ _ H).
Qed.

(* when ProcessBlock reports success the WHOLE block was recorded: the new store is the one of the fault-free
   transaction (so no event was lost and the injected fault did not fire) *)
Theorem ger_ok_records_whole_block : forall f st blk st',
  process_block_f f st blk = (None, st') -> process_block st blk = Some st'.
Proof.
  intros f st [b evs] st' H. unfold process_block_f in H. unfold process_block.
  destruct (hits_at f GBlockIns 0 1); [discriminate|].
  destruct (existsb (N.eqb b) (s_blocks st)); [discriminate|].
  destruct (process_events_f f b _ evs) as [err|x] eqn:E; [discriminate|].
  apply process_events_f_ok in E. cbn [g_rows] in E. rewrite E. now inversion H.
Qed.

Lemma process_events_f_none : forall b evs x,
  match process_events_f None b x evs with
  | inl _ => apply_events b (g_rows x) evs = None
  | inr x' => apply_events b (g_rows x) evs = Some (g_rows x')
  end.
Proof.
  intros b. induction evs as [|e evs IH]; intros x; cbn [process_events_f apply_events]; [reflexivity|].
  unfold process_event_f, apply_event, hits_at. destruct (l_rm e).
  - apply (IH (mkGtx _ _ _)).
  - destruct (existsb _ (g_rows x)); [reflexivity|]. apply (IH (mkGtx _ _ _)).
Qed.

Lemma process_events_f_none_no_fault : forall b evs x, process_events_f None b x evs <> inl GFault.
Proof.
  intros b. induction evs as [|e evs IH]; intros x; cbn [process_events_f]; [discriminate|].
  unfold process_event_f, hits_at. destruct (l_rm e); [apply IH|].
  destruct (existsb _ (g_rows x)); [discriminate | apply IH].
Qed.

(* without a fault the faulty model is the plain model *)
Theorem ger_no_fault : forall st blk,
  process_block_f None st blk =
  match process_block st blk with Some st' => (None, st') | None => (Some GConstraint, st) end.
Proof.
  intros st [b evs]. unfold process_block_f, process_block, hits_at.
  destruct (existsb (N.eqb b) (s_blocks st)); [reflexivity|].
  pose proof (process_events_f_none b evs (mkGtx (s_rows st) 0 0)) as H. cbn [g_rows] in H.
  pose proof (process_events_f_none_no_fault b evs (mkGtx (s_rows st) 0 0)) as G.
  destruct (process_events_f None b _ evs) as [err|x]; rewrite H; [|reflexivity].
  destruct err; [congruence | reflexivity].
Qed.

(* retry after a failure = the fault-free run on the state before the failure *)
Theorem ger_retry_clean : forall f st blk e st1,
  process_block_f f st blk = (Some e, st1) -> process_block_f None st1 blk = process_block_f None st blk.
Proof. intros f st blk e st1 H. apply ger_fault_atomic in H. now subst. Qed.
