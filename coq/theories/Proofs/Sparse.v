(* Updatable (sparse) tree: every proof served for a closed version verifies, for every position. *)
From Coq Require Import Arith Lia List Bool PeanoNat.
From Verif Require Import Model.Merkle Model.MerkleSpec Proofs.Frontier Proofs.Rht.
Import ListNotations.

Section Sparse.
Context {hash : Type}.
Variable node : hash -> hash -> hash.
Variable z0 : hash.
Hypothesis node_inj : forall a b c d, node a b = node c d -> a = c /\ b = d.
Notation zero := (zero node z0).
Notation zeros := (zeros zero).
Notation ssub := (fun h k g => ssub node g h k).
Notation rht := (@rht hash).
Notation WF := (WF node).
Notation swalk := (fun m h x idx => swalk zero m h x (Nat.testbit idx)).
Notation calc := (fun lvl sibs cur idx => calc node lvl sibs cur (Nat.testbit idx)).

Lemma ssub_ext h : forall k g g', (forall j, k * 2^h <= j < (k+1) * 2^h -> g j = g' j) -> ssub h k g = ssub h k g'.
Proof.
  induction h as [|h IH]; intros k g g' H; cbn [MerkleSpec.ssub].
  - apply H. cbn. lia.
  - f_equal; apply IH; intros j Hj; apply H; cbn [Nat.pow] in *; nia.
Qed.
Lemma ssub_zero_inv h : forall k g, ssub h k g = zero h -> forall j, k * 2^h <= j < (k+1) * 2^h -> g j = z0.
Proof.
  induction h as [|h IH]; intros k g H j Hj; cbn [MerkleSpec.ssub Merkle.zero] in H.
  - cbn in Hj. replace j with k by lia. exact H.
  - apply node_inj in H as [H1 H2].
    assert (Hp : 0 < 2^h) by (apply Nat.neq_0_lt_0, Nat.pow_nonzero; lia).
    destruct (Nat.lt_ge_cases j ((2*k+1) * 2^h)).
    + apply (IH _ _ H1). cbn [Nat.pow] in Hj. nia.
    + apply (IH _ _ H2). cbn [Nat.pow] in Hj. nia.
Qed.


Lemma zeros_length h : length (zeros h) = h.
Proof. induction h; cbn [Merkle.zeros]; [reflexivity|]. rewrite app_length, IHh. cbn. lia. Qed.



(* present, or genuinely a zero subtree *)
Definition SClosed (m : rht) (g : nat -> hash) := forall h k,
  m (ssub (S h) k g) = Some (ssub h (2*k) g, ssub h (2*k+1) g) \/
  (m (ssub (S h) k g) = None /\ ssub (S h) k g = zero (S h)).

Lemma swalk_length m h : forall x idx, length (swalk m h x idx) = h.
Proof.
  induction h as [|h IH]; intros x idx; cbn [Merkle.swalk]; [reflexivity|].
  destruct (m x) as [[l r]|]; [|apply zeros_length].
  destruct (Nat.testbit idx h); rewrite app_length, IH; cbn; lia.
Qed.

Lemma calc_zeros h idx : calc 0 (zeros h) z0 idx = zero h.
Proof.
  induction h as [|h IH]; [reflexivity|]. cbn [Merkle.zeros]. rewrite (calc_app node), IH, zeros_length. cbn [Merkle.calc Nat.add Merkle.zero].
  destruct (Nat.testbit idx h); reflexivity.
Qed.

(* C08 for the updatable tree: the proof for ANY position under a closed version verifies with the leaf at that position *)
Theorem sverify m g : SClosed m g -> forall h j,
  calc 0 (swalk m h (ssub h (j / 2^h) g) j) (g j) j = ssub h (j / 2^h) g.
Proof.
  intros Hc. induction h as [|h IH]; intros j; cbn [Merkle.swalk].
  - cbn [Merkle.calc MerkleSpec.ssub]. rewrite Nat.pow_0_r, Nat.div_1_r. reflexivity.
  - pose proof (div_pow_bounds j (S h)) as Hb.
    assert (Hchild : (if Nat.testbit j h then ssub h (2 * (j / 2^(S h)) + 1) g else ssub h (2 * (j / 2^(S h))) g) = ssub h (j / 2^h) g).
    { rewrite testbit_div, div_succ_pow. destruct (Nat.odd (j / 2^h)) eqn:Ho.
      - rewrite <- (odd_div2 _ Ho). reflexivity.
      - rewrite <- (even_div2 _ Ho). reflexivity. }
    destruct (Hc h (j / 2^(S h))) as [Hs|[Hn Hz]].
    + rewrite Hs. destruct (Nat.testbit j h) eqn:Hbit; rewrite Hchild.
      * rewrite (calc_app node), IH, swalk_length. cbn [Merkle.calc Nat.add]. rewrite Hbit. rewrite <- Hchild.
        cbn [MerkleSpec.ssub]. reflexivity.
      * rewrite (calc_app node), IH, swalk_length. cbn [Merkle.calc Nat.add]. rewrite Hbit. rewrite <- Hchild.
        cbn [MerkleSpec.ssub]. reflexivity.
    + rewrite Hn, Hz. rewrite (ssub_zero_inv _ _ _ Hz j) by lia. apply calc_zeros.
Qed.
End Sparse.
