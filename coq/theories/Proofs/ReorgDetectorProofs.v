(* C06 proofs: the detector scan, the tracked-covers-processed invariant of the composed system, rewind bounds,
   restart, convergence on a chain that no longer forks. *)
From Coq Require Import NArith Arith List Lia Bool Sorted.
From Coq Require Import ZifyN ZifyNat ZifyBool.
From Verif Require Import Model.Downloader Proofs.DownloaderProofs Model.ReorgDetector.
Import ListNotations.
Open Scope N_scope.

(* ------------------------------------------------------------------------------------------ *)
(* headersList as a sorted association list *)

Definition hsorted (l : list header) : Prop := StronglySorted N.lt (map fst l).

Lemma hsorted_nil : hsorted [].
Proof. constructor. Qed.

Lemma hsorted_cons_inv x l : hsorted (x :: l) -> hsorted l /\ forall y, In y l -> fst x < fst y.
Proof.
  unfold hsorted. cbn [map]. intros H. inversion H as [|? ? Hs Hall]; subst. split; [exact Hs|].
  rewrite Forall_forall in Hall. intros y Hy. apply Hall, in_map, Hy.
Qed.

Lemma hsorted_cons x l : hsorted l -> (forall y, In y l -> fst x < fst y) -> hsorted (x :: l).
Proof.
  unfold hsorted. cbn [map]. intros Hs Hlt. constructor; [exact Hs|]. rewrite Forall_forall.
  intros k Hk. apply in_map_iff in Hk as (y & <- & Hy). auto.
Qed.

Lemma hsorted_unique l : hsorted l -> forall x y, In x l -> In y l -> fst x = fst y -> x = y.
Proof.
  induction l as [|a l IH]; intros Hs x y Hx Hy Hk; [destruct Hx|].
  apply hsorted_cons_inv in Hs as [Hs Hlt].
  destruct Hx as [<-|Hx], Hy as [<-|Hy].
  - reflexivity.
  - specialize (Hlt _ Hy). lia.
  - specialize (Hlt _ Hx). lia.
  - apply IH; assumption.
Qed.

Lemma tr_add_in x l : hsorted l ->
  forall y, In y (tr_add x l) <-> y = x \/ (In y l /\ fst y <> fst x).
Proof.
  induction l as [|a l IH]; intros Hs y; cbn [tr_add].
  - cbn [In]. split; [intros [<-|[]]; left; reflexivity|intros [->|[[] _]]; left; reflexivity].
  - pose proof (hsorted_cons_inv _ _ Hs) as [Hs' Hlt].
    destruct (N.ltb_spec (fst x) (fst a)) as [H1|H1].
    + cbn [In]. split.
      * intros [<-|[<-|Hy]]; [left; reflexivity|right; split; [left; reflexivity|lia]|].
        right. split; [right; exact Hy|]. specialize (Hlt _ Hy). lia.
      * intros [->|[[<-|Hy] Hne]]; [left; reflexivity|right; left; reflexivity|right; right; exact Hy].
    + destruct (N.eqb_spec (fst x) (fst a)) as [H2|H2].
      * cbn [In]. split.
        -- intros [<-|Hy]; [left; reflexivity|]. right. split; [right; exact Hy|]. specialize (Hlt _ Hy). lia.
        -- intros [->|[[<-|Hy] Hne]]; [left; reflexivity|congruence|right; exact Hy].
      * cbn [In]. rewrite (IH Hs' y). split.
        -- intros [<-|[->|[Hy Hne]]]; [right; split; [left; reflexivity|congruence]|left; reflexivity|].
           right. split; [right; exact Hy|exact Hne].
        -- intros [->|[[<-|Hy] Hne]]; [right; left; reflexivity|left; reflexivity|right; right; split; assumption].
Qed.

Lemma tr_add_sorted x l : hsorted l -> hsorted (tr_add x l).
Proof.
  induction l as [|a l IH]; intros Hs; cbn [tr_add].
  - apply hsorted_cons; [constructor|intros y []].
  - pose proof (hsorted_cons_inv _ _ Hs) as [Hs' Hlt].
    destruct (N.ltb_spec (fst x) (fst a)) as [H1|H1].
    + apply hsorted_cons; [exact Hs|]. intros y [<-|Hy]; [exact H1|]. specialize (Hlt _ Hy). lia.
    + destruct (N.eqb_spec (fst x) (fst a)) as [H2|H2].
      * apply hsorted_cons; [exact Hs'|]. intros y Hy. specialize (Hlt _ Hy). lia.
      * apply hsorted_cons; [apply IH, Hs'|]. intros y Hy. apply (tr_add_in x l Hs') in Hy as [->|[Hy _]]; [lia|auto].
Qed.

Lemma tr_get_in l : hsorted l -> forall n h, tr_get l n = Some h <-> In (n, h) l.
Proof.
  induction l as [|a l IH]; intros Hs n h; cbn [tr_get In]; [split; [discriminate|tauto]|].
  pose proof (hsorted_cons_inv _ _ Hs) as [Hs' Hlt].
  destruct (N.eqb_spec (fst a) n) as [E|E].
  - split.
    + intros [= <-]. left. destruct a; cbn in *; subst; reflexivity.
    + intros [->|Hin]; [reflexivity|]. specialize (Hlt _ Hin). cbn [fst] in Hlt. lia.
  - rewrite (IH Hs'). split; [tauto|]. intros [->|Hin]; [cbn [fst] in E; congruence|exact Hin].
Qed.

Lemma remove_range_in a b l y : In y (remove_range a b l) <-> In y l /\ ~ (a <= fst y <= b).
Proof.
  unfold remove_range. rewrite filter_In. unfold in_range.
  destruct (N.leb_spec a (fst y)), (N.leb_spec (fst y) b); cbn [andb negb]; intuition (try lia; try discriminate).
Qed.

Lemma filter_sorted (f : header -> bool) l : hsorted l -> hsorted (filter f l).
Proof.
  induction l as [|a l IH]; intros Hs; cbn [filter]; [exact Hs|].
  pose proof (hsorted_cons_inv _ _ Hs) as [Hs' Hlt]. destruct (f a); [|apply IH, Hs'].
  apply hsorted_cons; [apply IH, Hs'|]. intros y Hy. apply filter_In in Hy as [Hy _]. auto.
Qed.

Lemma remove_range_sorted a b l : hsorted l -> hsorted (remove_range a b l).
Proof. apply filter_sorted. Qed.

(* a filter that only looks at the key commutes with tr_add *)
Lemma tr_add_small x l : hsorted l -> (forall y, In y l -> fst x < fst y) -> tr_add x l = x :: l.
Proof.
  destruct l as [|a l]; intros Hs Hlt; [reflexivity|]. cbn [tr_add].
  specialize (Hlt a (or_introl eq_refl)). apply N.ltb_lt in Hlt. rewrite Hlt. reflexivity.
Qed.

Lemma tr_add_filter (g : N -> bool) x l : hsorted l ->
  filter (fun y => g (fst y)) (tr_add x l) =
  if g (fst x) then tr_add x (filter (fun y => g (fst y)) l) else filter (fun y => g (fst y)) l.
Proof.
  induction l as [|a l IH]; intros Hs.
  - cbn [tr_add filter]. destruct (g (fst x)); reflexivity.
  - pose proof (hsorted_cons_inv _ _ Hs) as [Hs' Hlt]. cbn [tr_add].
    destruct (N.ltb_spec (fst x) (fst a)) as [H1|H1].
    + cbn [filter]. destruct (g (fst x)) eqn:Gx.
      * symmetry. apply tr_add_small.
        -- apply (filter_sorted (fun y => g (fst y)) (a :: l)), Hs.
        -- intros y Hy. change (In y (filter (fun y => g (fst y)) (a :: l))) in Hy.
           apply filter_In in Hy as [[<-|Hy] _]; [exact H1|]. specialize (Hlt _ Hy). lia.
      * reflexivity.
    + destruct (N.eqb_spec (fst x) (fst a)) as [H2|H2].
      * cbn [filter]. rewrite <- H2. destruct (g (fst x)) eqn:Gx.
        -- cbn [tr_add].
           replace (fst x <? fst a) with false by (symmetry; apply N.ltb_ge; lia).
           replace (fst x =? fst a) with true by (symmetry; apply N.eqb_eq; exact H2). reflexivity.
        -- reflexivity.
      * cbn [filter]. rewrite (IH Hs'). destruct (g (fst a)) eqn:Ga; destruct (g (fst x)) eqn:Gx; try reflexivity.
        cbn [tr_add]. apply N.ltb_ge in H1. rewrite H1. apply N.eqb_neq in H2. rewrite H2. reflexivity.
Qed.

Lemma reload_mem_sorted_gen rows : forall m, hsorted m -> hsorted (fold_left (fun m x => tr_add x m) rows m).
Proof. induction rows as [|x rows IH]; intros m Hm; cbn [fold_left]; [exact Hm|]. apply IH, tr_add_sorted, Hm. Qed.
Lemma reload_mem_sorted rows : hsorted (reload_mem rows).
Proof. apply reload_mem_sorted_gen, hsorted_nil. Qed.

Lemma reload_mem_snoc rows x : reload_mem (rows ++ [x]) = tr_add x (reload_mem rows).
Proof. unfold reload_mem. rewrite fold_left_app. reflexivity. Qed.

Lemma reload_filter_gen (g : N -> bool) rows : forall m, hsorted m ->
  fold_left (fun m x => tr_add x m) (filter (fun y => g (fst y)) rows) (filter (fun y => g (fst y)) m) =
  filter (fun y => g (fst y)) (fold_left (fun m x => tr_add x m) rows m).
Proof.
  induction rows as [|x rows IH]; intros m Hm; cbn [filter fold_left]; [reflexivity|].
  rewrite <- (IH (tr_add x m) (tr_add_sorted x m Hm)). rewrite (tr_add_filter g x m Hm).
  destruct (g (fst x)); reflexivity.
Qed.
Lemma reload_remove_range a b rows : reload_mem (remove_range a b rows) = remove_range a b (reload_mem rows).
Proof.
  unfold reload_mem, remove_range.
  exact (reload_filter_gen (fun k => negb (in_range a b k)) rows [] hsorted_nil).
Qed.

(* ------------------------------------------------------------------------------------------ *)
(* the detector's two images stay in step *)

Definition det_ok (d : detector) : Prop := hsorted (t_mem d) /\ t_mem d = reload_mem (t_db d).

Lemma det_ok_empty : det_ok det_empty.
Proof. split; [constructor|reflexivity]. Qed.

Lemma det_ok_remove a b d : det_ok d -> det_ok (det_remove a b d).
Proof.
  intros [Hs He]. split; cbn [det_remove t_mem t_db].
  - apply remove_range_sorted, Hs.
  - rewrite reload_remove_range, <- He. reflexivity.
Qed.

Lemma det_ok_add n h d : det_ok d -> det_ok (add_block_to_track n h d).
Proof.
  intros [Hs He]. unfold add_block_to_track.
  assert (Hsave : det_ok {| t_mem := tr_add (n, h) (t_mem d); t_db := t_db d ++ [(n, h)] |}).
  { split; cbn [t_mem t_db]; [apply tr_add_sorted, Hs|]. rewrite reload_mem_snoc, <- He. reflexivity. }
  destruct (tr_get (t_mem d) n) as [h'|]; [|exact Hsave]. destruct (h' =? h); [split; assumption|exact Hsave].
Qed.

Lemma det_ok_reload d : det_ok d -> det_ok (reload d) /\ reload d = d.
Proof.
  intros [Hs He]. unfold reload. rewrite <- He. split; [split; [exact Hs|exact He]|]. destruct d; reflexivity.
Qed.

(* what AddBlockToTrack leaves in memory *)
Lemma add_mem_in n h d : det_ok d ->
  forall y, In y (t_mem (add_block_to_track n h d)) <-> y = (n, h) \/ (In y (t_mem d) /\ fst y <> n).
Proof.
  intros [Hs He] y. unfold add_block_to_track.
  destruct (tr_get (t_mem d) n) as [h'|] eqn:G.
  - destruct (N.eqb_spec h' h) as [->|Hne].
    + apply (tr_get_in _ Hs) in G. split.
      * intros Hy. destruct (N.eq_dec (fst y) n) as [E|E]; [|right; split; assumption].
        left. apply (hsorted_unique _ Hs); assumption.
      * intros [->|[Hy _]]; assumption.
    + cbn [t_mem]. rewrite (tr_add_in (n, h) _ Hs). cbn [fst]. tauto.
  - cbn [t_mem]. rewrite (tr_add_in (n, h) _ Hs). cbn [fst]. tauto.
Qed.

(* ------------------------------------------------------------------------------------------ *)
(* the scan *)

Section Scan.
Variable e : tick_env.
Variables fnum fhash lastnum : N.
(* the header used for block n *)
Definition lk (n : N) : option N := if n =? fnum then Some fhash else e_hdr e n.
Definition matches (x : header) : Prop := lk (fst x) = Some (snd x).

Lemma scan_spec hs : forall errat d d' r,
  scan e fnum fhash lastnum errat hs d = (d', r) ->
  (det_ok d -> det_ok d') /\
  (forall y, In y (t_mem d') -> In y (t_mem d)) /\
  (forall y, In y (t_mem d) -> ~ In y (t_mem d') ->
     (exists x, In x hs /\ fst x = fst y /\ matches x /\ fst x <= fnum) \/
     (exists b, r = TReorg b /\ b <= fst y <= lastnum)) /\
  (forall b, r = TReorg b ->
     exists pre x post, hs = pre ++ x :: post /\ fst x = b /\ (exists c, lk b = Some c /\ snd x <> c) /\
       (forall z, In z pre -> matches z) /\
       (forall y, In y (t_mem d') -> ~ (b <= fst y <= lastnum))) /\
  (r = TNone -> forall x, In x hs -> matches x).
Proof.
  induction hs as [|x rest IH]; intros errat d d' r Hscan.
  - cbn [scan] in Hscan. inversion Hscan; subst.
    split; [tauto|]. split; [tauto|]. split; [intros y Hy Hn; contradiction|]. split; [intros b Hb; discriminate|].
    intros _ z [].
  - cbn [scan] in Hscan.
    set (cached := fst x =? fnum) in *.
    set (fails := if cached then false else match errat with Some O => true | _ => false end) in *.
    set (errat' := if cached then errat else match errat with Some (S k) => Some k | o => o end) in *.
    assert (Hlk : (if cached then Some fhash else e_hdr e (fst x)) = lk (fst x)) by reflexivity.
    rewrite Hlk in Hscan.
    destruct fails.
    { inversion Hscan; subst.
      split; [tauto|]. split; [tauto|]. split; [intros y Hy Hn; contradiction|]. split; [intros b Hb; discriminate|].
      discriminate. }
    destruct (lk (fst x)) as [c|] eqn:Elk.
    2:{ inversion Hscan; subst.
        split; [tauto|]. split; [tauto|]. split; [intros y Hy Hn; contradiction|]. split; [intros b Hb; discriminate|].
        discriminate. }
    destruct (N.eqb_spec (snd x) c) as [Eh|Eh].
    + (* match *)
      assert (Hm : matches x) by (unfold matches; rewrite Elk, Eh; reflexivity).
      destruct (N.leb_spec (fst x) fnum) as [Hf|Hf].
      * (* untrack x, go on *)
        specialize (IH _ _ _ _ Hscan) as (I1 & I2 & I3 & I4 & I5).
        split; [intros Hd; apply I1, det_ok_remove, Hd|].
        split; [intros y Hy; specialize (I2 y Hy); cbn [det_remove t_mem] in I2; apply remove_range_in in I2; tauto|].
        split.
        { intros y Hy Hn. destruct (N.eq_dec (fst y) (fst x)) as [E|E].
          - left. exists x. repeat split; [left; reflexivity|congruence|exact Hm|exact Hf].
          - assert (Hy' : In y (t_mem (det_remove (fst x) (fst x) d))).
            { cbn [det_remove t_mem]. apply remove_range_in. split; [exact Hy|lia]. }
            destruct (I3 y Hy' Hn) as [(x' & Hx' & Hk & Hm' & Hf')|Hb]; [left|right; exact Hb].
            exists x'. repeat split; try assumption. right. exact Hx'. }
        split.
        { intros b Hb. destruct (I4 b Hb) as (pre & x0 & post & -> & Hx0 & Hc & Hpre & Hrange).
          exists (x :: pre), x0, post. split; [reflexivity|]. split; [exact Hx0|]. split; [exact Hc|].
          split; [|exact Hrange]. intros z [<-|Hz]; [exact Hm|auto]. }
        { intros Hr z [<-|Hz]; [exact Hm|auto]. }
      * specialize (IH _ _ _ _ Hscan) as (I1 & I2 & I3 & I4 & I5).
        split; [exact I1|]. split; [exact I2|]. split.
        { intros y Hy Hn. destruct (I3 y Hy Hn) as [(x' & Hx' & Hk & Hm' & Hf')|Hb]; [left|right; exact Hb].
          exists x'. repeat split; try assumption. right. exact Hx'. }
        split.
        { intros b Hb. destruct (I4 b Hb) as (pre & x0 & post & -> & Hx0 & Hc & Hpre & Hrange).
          exists (x :: pre), x0, post. split; [reflexivity|]. split; [exact Hx0|]. split; [exact Hc|].
          split; [|exact Hrange]. intros z [<-|Hz]; [exact Hm|auto]. }
        { intros Hr z [<-|Hz]; [exact Hm|auto]. }
    + (* first mismatch *)
      inversion Hscan; subst. split; [apply det_ok_remove|].
      split; [intros y Hy; cbn [det_remove t_mem] in Hy; apply remove_range_in in Hy; tauto|].
      split.
      { intros y Hy Hn. right. exists (fst x). split; [reflexivity|].
        destruct (N.le_gt_cases (fst x) (fst y)) as [H1|H1]; [destruct (N.le_gt_cases (fst y) lastnum) as [H2|H2]; [lia|]|];
          exfalso; apply Hn; cbn [det_remove t_mem]; apply remove_range_in; split; try exact Hy; lia. }
      split.
      { intros b [= <-]. exists [], x, rest. repeat split; [exists c; split; [exact Elk|exact Eh]|intros z []|].
        intros y Hy. cbn [det_remove t_mem] in Hy. apply remove_range_in in Hy. tauto. }
      { discriminate. }
Qed.
Lemma scan_pre_spec hs : forall errat d d1 r,
  scan_pre e fnum fhash errat hs d = (d1, r) ->
  (det_ok d -> det_ok d1) /\
  (forall y, In y (t_mem d1) -> In y (t_mem d)) /\
  (forall y, In y (t_mem d) -> ~ In y (t_mem d1) ->
     exists x, In x hs /\ fst x = fst y /\ matches x /\ fst x <= fnum).
Proof.
  induction hs as [|x rest IH]; intros errat d d1 r Hscan.
  - cbn [scan_pre] in Hscan. inversion Hscan; subst. split; [tauto|]. split; [tauto|]. intros y Hy Hn. contradiction.
  - cbn [scan_pre] in Hscan.
    set (cached := fst x =? fnum) in *.
    set (fails := if cached then false else match errat with Some O => true | _ => false end) in *.
    set (errat' := if cached then errat else match errat with Some (S k) => Some k | o => o end) in *.
    assert (Hlk : (if cached then Some fhash else e_hdr e (fst x)) = lk (fst x)) by reflexivity.
    rewrite Hlk in Hscan.
    destruct fails.
    { inversion Hscan; subst. split; [tauto|]. split; [tauto|]. intros y Hy Hn. contradiction. }
    destruct (lk (fst x)) as [c|] eqn:Elk.
    2:{ inversion Hscan; subst. split; [tauto|]. split; [tauto|]. intros y Hy Hn. contradiction. }
    destruct (N.eqb_spec (snd x) c) as [Eh|Eh].
    + assert (Hm : matches x) by (unfold matches; rewrite Elk, Eh; reflexivity).
      destruct (N.leb_spec (fst x) fnum) as [Hf|Hf].
      * specialize (IH _ _ _ _ Hscan) as (I1 & I2 & I3).
        split; [intros Hd; apply I1, det_ok_remove, Hd|].
        split; [intros y Hy; specialize (I2 y Hy); cbn [det_remove t_mem] in I2; apply remove_range_in in I2; tauto|].
        intros y Hy Hn. destruct (N.eq_dec (fst y) (fst x)) as [E|E].
        -- exists x. repeat split; [left; reflexivity|congruence|exact Hm|exact Hf].
        -- assert (Hy' : In y (t_mem (det_remove (fst x) (fst x) d))).
           { cbn [det_remove t_mem]. apply remove_range_in. split; [exact Hy|lia]. }
           destruct (I3 y Hy' Hn) as (x' & Hx' & Hk & Hm' & Hf'). exists x'. repeat split; try assumption. right. exact Hx'.
      * specialize (IH _ _ _ _ Hscan) as (I1 & I2 & I3).
        split; [exact I1|]. split; [exact I2|].
        intros y Hy Hn. destruct (I3 y Hy Hn) as (x' & Hx' & Hk & Hm' & Hf'). exists x'. repeat split; try assumption. right. exact Hx'.
    + inversion Hscan; subst. split; [tauto|]. split; [tauto|]. intros y Hy Hn. contradiction.
Qed.
End Scan.

(* keys of a sorted list are at most the last key *)
Lemma hsorted_le_last l : hsorted l -> forall y, In y l -> fst y <= last (map fst l) 0.
Proof. intros Hs y Hy. apply sorted_last_max; [exact Hs|apply in_map, Hy]. Qed.

Lemma sorted_split_lt (pre : list header) x post : hsorted (pre ++ x :: post) ->
  (forall z, In z pre -> fst z < fst x) /\ (forall z, In z post -> fst x < fst z).
Proof.
  unfold hsorted. rewrite map_app. cbn [map]. intros H. apply sorted_app_inv in H as (_ & H2 & H3). split.
  - intros z Hz. apply H3; [apply in_map, Hz|left; reflexivity].
  - inversion H2 as [|? ? _ Hall]; subst. rewrite Forall_forall in Hall. intros z Hz. apply Hall, in_map, Hz.
Qed.

(* ---- the pure statements about one tick ---- *)
Section Tick.
Variable e : tick_env.
Variable d : detector.
Hypothesis Hd : det_ok d.

Lemma look_lk fnum fhash : e_fin e = Some (fnum, fhash) -> forall n, look e n = lk e fnum fhash n.
Proof. intros E n. unfold look, lk. rewrite E. reflexivity. Qed.

(* soundness, for every RPC behaviour: a reported block is tracked, its header was obtained and differs, and every
   tracked block below it was obtained and matches *)
Lemma detect_sound b : snd (detect_tick e d) = TReorg b ->
  exists h c, In (b, h) (t_mem d) /\ look e b = Some c /\ h <> c /\
    forall n h', In (n, h') (t_mem d) -> n < b -> look e n = Some h'.
Proof.
  unfold detect_tick. destruct (e_fin e) as [[fnum fhash]|] eqn:Ef; [|discriminate].
  destruct (scan e fnum fhash (last (map fst (t_mem d)) 0) (e_errat e) (t_mem d) d) as [d' r] eqn:Es. cbn [snd].
  intros ->. destruct (scan_spec e fnum fhash _ _ _ _ _ _ Es) as (_ & _ & _ & I4 & _).
  destruct (I4 b eq_refl) as (pre & x & post & Hsplit & Hx & (c & Hc & Hne) & Hpre & _).
  destruct Hd as [Hs _]. rewrite Hsplit in Hs. destruct (sorted_split_lt _ _ _ Hs) as [Hlt Hgt].
  exists (snd x), c. rewrite !(look_lk _ _ Ef). split; [|split; [exact Hc|split; [exact Hne|]]].
  - rewrite Hsplit, <- Hx. apply in_or_app. right. left. destruct x; reflexivity.
  - intros n h' Hin Hnb. rewrite Hsplit in Hin. rewrite (look_lk _ _ Ef).
    apply in_app_or in Hin as [Hin|[Hin|Hin]].
    + exact (Hpre _ Hin).
    + subst x. cbn [fst] in Hx. lia.
    + specialize (Hgt _ Hin). cbn [fst] in Hgt. lia.
Qed.

(* completeness: when no RPC of the tick fails *)
Lemma detect_complete b h :
  e_fin e <> None -> e_errat e = None ->
  In (b, h) (t_mem d) -> look e b <> Some h -> look e b <> None ->
  (forall n h', In (n, h') (t_mem d) -> n < b -> look e n = Some h') ->
  snd (detect_tick e d) = TReorg b.
Proof.
  intros Hfin Herr Hin Hne Hsome Hbelow. unfold detect_tick.
  destruct (e_fin e) as [[fnum fhash]|] eqn:Ef; [|congruence]. rewrite Herr.
  rewrite (look_lk _ _ Ef) in Hne, Hsome.
  assert (Hbelow' : forall n h', In (n, h') (t_mem d) -> n < b -> lk e fnum fhash n = Some h').
  { intros n h' H1 H2. rewrite <- (look_lk _ _ Ef). auto. }
  clear Hbelow. destruct Hd as [Hs _].
  generalize (last (map fst (t_mem d)) 0). intros lastnum.
  (* generalise over the suffix still to scan and the current detector *)
  assert (G : forall hs d0, hsorted hs -> In (b, h) hs -> (forall n h', In (n, h') hs -> n < b -> lk e fnum fhash n = Some h') ->
              snd (scan e fnum fhash lastnum None hs d0) = TReorg b).
  { induction hs as [|x rest IH]; intros d0 Hs0 Hin0 Hb0; [destruct Hin0|].
    pose proof (hsorted_cons_inv _ _ Hs0) as [Hs1 Hlt]. cbn [scan].
    assert (Hlkx : (if fst x =? fnum then Some fhash else e_hdr e (fst x)) = lk e fnum fhash (fst x)) by reflexivity.
    rewrite Hlkx.
    assert (Hnf : (if fst x =? fnum then false else false) = false) by (destruct (fst x =? fnum); reflexivity).
    rewrite Hnf.
    assert (Herr' : (if fst x =? fnum then @None nat else None) = None) by (destruct (fst x =? fnum); reflexivity).
    rewrite Herr'.
    destruct Hin0 as [->|Hin0].
    - cbn [fst snd] in *. destruct (lk e fnum fhash b) as [c|]; [|congruence].
      destruct (N.eqb_spec h c) as [->|Hc]; [congruence|reflexivity].
    - assert (Hxb : fst x < b) by (specialize (Hlt _ Hin0); exact Hlt).
      rewrite (Hb0 (fst x) (snd x)) by (try exact Hxb; left; destruct x; reflexivity).
      rewrite N.eqb_refl.
      assert (Hb1 : forall n h', In (n, h') rest -> n < b -> lk e fnum fhash n = Some h')
        by (intros n h' H1 H2; apply Hb0; [right; exact H1|exact H2]).
      destruct (fst x <=? fnum); apply IH; assumption. }
  apply G; assumption.
Qed.

(* detect_tick reports b iff b is the least tracked block whose hash differs from the chain's (no failing RPC) *)
Lemma detect_sound_complete_proof b :
  e_fin e <> None -> e_errat e = None -> (forall x, In x (t_mem d) -> look e (fst x) <> None) ->
  (snd (detect_tick e d) = TReorg b <->
   exists h, In (b, h) (t_mem d) /\ look e b <> Some h /\
             forall n h', In (n, h') (t_mem d) -> n < b -> look e n = Some h').
Proof.
  intros Hfin Herr Hav. split.
  - intros H. destruct (detect_sound b H) as (h & c & Hin & Hc & Hne & Hbelow).
    exists h. split; [exact Hin|]. split; [rewrite Hc; congruence|exact Hbelow].
  - intros (h & Hin & Hne & Hbelow). apply (detect_complete b h); try assumption. apply (Hav (b, h) Hin).
Qed.

(* no mismatch among the headers that could be obtained => no rewind *)
Lemma no_false_rewind_proof :
  (forall x, In x (t_mem d) -> look e (fst x) = Some (snd x) \/ look e (fst x) = None) ->
  forall b, snd (detect_tick e d) <> TReorg b.
Proof.
  intros Hall b H. destruct (detect_sound b H) as (h & c & Hin & Hc & Hne & _).
  destruct (Hall (b, h) Hin) as [H1|H1]; cbn [fst snd] in H1; congruence.
Qed.

(* what a tick does to the tracked set *)
Lemma detect_effect d' r : detect_tick e d = (d', r) ->
  det_ok d' /\
  (forall y, In y (t_mem d') -> In y (t_mem d)) /\
  (forall y, In y (t_mem d) -> ~ In y (t_mem d') ->
     (look e (fst y) = Some (snd y) /\ exists fnum fhash, e_fin e = Some (fnum, fhash) /\ fst y <= fnum) \/
     (exists b, r = TReorg b /\ b <= fst y)) /\
  (forall b, r = TReorg b -> forall y, In y (t_mem d') -> fst y < b) /\
  (r = TNone -> forall x, In x (t_mem d) -> look e (fst x) = Some (snd x)).
Proof.
  unfold detect_tick. destruct (e_fin e) as [[fnum fhash]|] eqn:Ef.
  2:{ intros [= <- <-]. split; [exact Hd|]. split; [tauto|]. split; [intros y Hy Hn; contradiction|].
      split; intros; discriminate. }
  intros Es. destruct (scan_spec e fnum fhash _ _ _ _ _ _ Es) as (I1 & I2 & I3 & I4 & I5).
  split; [apply I1, Hd|]. split; [exact I2|]. split; [|split].
  - intros y Hy Hn. destruct (I3 y Hy Hn) as [(x & Hx & Hk & Hm & Hf)|(b & Hb & Hr)].
    + left. assert (x = y) by (apply (hsorted_unique _ (proj1 Hd)); assumption). subst x.
      split; [rewrite (look_lk _ _ Ef); exact Hm|]. exists fnum, fhash. split; [reflexivity|exact Hf].
    + right. exists b. split; [exact Hb|lia].
  - intros b Hb y Hy. destruct (I4 b Hb) as (pre & x & post & Hsplit & Hx & _ & _ & Hrange).
    specialize (Hrange y Hy). pose proof (hsorted_le_last _ (proj1 Hd) y (I2 y Hy)) as Hle. lia.
  - intros Hr x Hx. rewrite (look_lk _ _ Ef). exact (I5 Hr x Hx).
Qed.
(* the tracked set at the moment the subscriber is notified: only headers that matched at or below the finalized block
   have been removed *)
Lemma detect_pre_effect d1 r : detect_pre e d = (d1, r) ->
  det_ok d1 /\
  (forall y, In y (t_mem d1) -> In y (t_mem d)) /\
  (forall y, In y (t_mem d) -> ~ In y (t_mem d1) ->
     look e (fst y) = Some (snd y) /\ exists fnum fhash, e_fin e = Some (fnum, fhash) /\ fst y <= fnum).
Proof.
  unfold detect_pre. destruct (e_fin e) as [[fnum fhash]|] eqn:Ef.
  2:{ intros [= <- <-]. split; [exact Hd|]. split; [tauto|]. intros y Hy Hn. contradiction. }
  intros Es. destruct (scan_pre_spec e fnum fhash _ _ _ _ _ Es) as (I1 & I2 & I3).
  split; [apply I1, Hd|]. split; [exact I2|].
  intros y Hy Hn. destruct (I3 y Hy Hn) as (x & Hx & Hk & Hm & Hf).
  assert (x = y) by (apply (hsorted_unique _ (proj1 Hd)); assumption). subst x.
  split; [rewrite (look_lk _ _ Ef); exact Hm|]. exists fnum, fhash. split; [reflexivity|exact Hf].
Qed.
End Tick.

(* ------------------------------------------------------------------------------------------ *)
(* one step of the downloader, for whatever chain it is served at that step (C05's lemmas, re-entered with an empty
   accumulator at every step, plus the facts C06 needs on top) *)

Lemma range_nil a b : b < a -> range a b = [].
Proof. intros H. unfold range. replace (b + 1 - a) with 0 by lia. reflexivity. Qed.

(* the pure loop body of C05 (every numbered RPC call succeeds) is what dl_body computes on the empty call list *)
Lemma dl_body_nil cfg ch from to lb fin :
  dl_body cfg ch from to lb fin [] =
  (loop_top (fst (fst (fst (dl_body0 cfg ch from to lb fin)))) (snd (fst (fst (dl_body0 cfg ch from to lb fin)))) lb
            (snd (fst (dl_body0 cfg ch from to lb fin))) [],
   snd (dl_body0 cfg ch from to lb fin)).
Proof.
  destruct (dl_body_pure cfg ch from to lb fin []) as (c' & [Hsub _] & E).
  { split; [intros []|cbn [mismatches max_retry_hash_mismatch]; apply Nat.le_0_l]. }
  destruct c' as [|r c']; [exact E|]. destruct (Hsub r (or_introl eq_refl)).
Qed.

Section DlStep.
Variable cfg : config.
Variable ch : chain.
Notation chunk := (c_chunk cfg).
Notation W := (watched_events cfg ch).
Hypothesis Hchunk : 1 <= chunk.
Variable B : N.
Variable LIM : N.
Hypothesis HLIM : LIM < M64.

(* the download is behind the node: lb < from.  Nothing is sent, the cursor stays *)
Lemma dl_body_behind from to lb fin :
  lb < from -> fin < lb -> from + chunk <= to -> to + chunk < M64 ->
  dl_body0 cfg ch from to lb fin = ((from, to + chunk, true), []).
Proof.
  intros H1 H2 H3 H4. unfold dl_body0.
  assert (Hreach : (lb <=? to) = true) by (apply N.leb_le; lia). rewrite Hreach.
  rewrite get_events_ref, range_nil by lia. cbn [ref_blocks flat_map].
  assert (Hsafe : (lb <=? N.min lb fin) = false) by (apply N.leb_gt; lia). rewrite Hsafe.
  assert (Hlf : (from <=? N.min lb fin) = false) by (apply N.leb_gt; lia). rewrite Hlf.
  rewrite u64_small by lia. reflexivity.
Qed.

(* extra facts about the normal regime from <= lb *)
Lemma dl_body_facts from to lb fin :
  from <= lb -> from + chunk <= to -> lb + 1 + chunk < M64 -> to + chunk < M64 ->
  let r := dl_body0 cfg ch from to lb fin in
  let lf := N.min lb fin in
  (forall b, In b (snd r) -> (b_fin b = true -> b_num b <= lf) /\ (b_events b = [] -> b_num b <= lf)) /\
  (snd r = [] -> fst (fst (fst r)) = from) /\
  (snd r <> [] -> fst (fst (fst r)) = List.last (map b_num (snd r)) 0 + 1).
Proof.
  intros Hfl Hft Hb1 Hb2. cbv zeta. unfold dl_body0.
  set (lf := N.min lb fin).
  set (reach := lb <=? to).
  set (req := if reach then lb else to).
  assert (Hreq : from <= req <= lb) by (unfold req, reach; destruct (N.leb_spec lb to); lia).
  rewrite get_events_ref.
  pose proof (ref_blocks_in cfg ch (range from req)) as Hspec.
  pose proof (ref_blocks_sorted cfg ch (range from req) (range_sorted from req)) as Hsort.
  set (blocks := ref_blocks cfg ch (range from req)) in *.
  assert (HinR : forall k ev0, In (k, ev0) blocks -> from <= k <= req /\ ev0 <> []).
  { intros k ev0 Hin. apply Hspec in Hin as (Hk & He & Hne). apply range_in in Hk. tauto. }
  assert (Hmk : forall b, In b (map (mk_block cfg lf) blocks) ->
            (b_fin b = true -> b_num b <= lf) /\ b_events b <> [] /\ from <= b_num b <= req).
  { intros b Hb. apply in_map_iff in Hb as ([k ev0] & <- & Hin). cbn [mk_block b_fin b_num b_events fst snd].
    destruct (HinR _ _ Hin) as [Hk Hne]. split; [|split; assumption].
    intros Hf. apply andb_true_iff in Hf as [_ Hf]. apply N.leb_le in Hf. exact Hf. }
  assert (Hem : forall n, n <= lf -> forall b, b = empty_block cfg lf n ->
            (b_fin b = true -> b_num b <= lf) /\ (b_events b = [] -> b_num b <= lf)).
  { intros n Hn b ->. cbn [empty_block b_fin b_num b_events]. split; intros _; exact Hn. }
  assert (Hlastmk : forall bs, bs <> [] -> List.last (map b_num (map (mk_block cfg lf) bs)) 0 = last_num bs).
  { intros bs Hne. rewrite map_num_mk. unfold last_num. rewrite <- (last_map fst bs (0, [])). cbn [fst].
    reflexivity. }
  assert (Hlastin : blocks <> [] -> from <= last_num blocks <= req).
  { intros Hne. assert (In (List.last blocks (0, [])) blocks) by (apply last_in, Hne).
    destruct (List.last blocks (0, [])) as [k ev0] eqn:El. unfold last_num. rewrite El. cbn [fst].
    apply (HinR k ev0). exact H. }
  destruct (N.leb_spec req lf) as [Hsafe|Hunsafe].
  - (* safe zone *)
    cbn [fst snd]. rewrite (u64_small (req + 1)) by lia.
    destruct blocks as [|b0 bl] eqn:Eb.
    + cbn [map app]. split; [|split; [discriminate|intros _; cbn [map List.last empty_block b_num]; reflexivity]].
      intros b [<-|[]]. apply (Hem req Hsafe). reflexivity.
    + set (bs := b0 :: bl) in *. assert (Hne : bs <> []) by discriminate. specialize (Hlastin Hne).
      destruct (N.ltb_spec (last_num bs) req) as [Hlt|Hge].
      * split; [|split].
        -- intros b Hb. apply in_app_or in Hb as [Hb|[<-|[]]].
           ++ destruct (Hmk b Hb) as (H1 & H2 & _). split; [exact H1|intros E; congruence].
           ++ apply (Hem req Hsafe). reflexivity.
        -- intros E. apply app_eq_nil in E as [_ E]. discriminate.
        -- intros _. rewrite map_app. cbn [map empty_block b_num]. rewrite last_last. reflexivity.
      * rewrite app_nil_r. split; [|split].
        -- intros b Hb. destruct (Hmk b Hb) as (H1 & H2 & _). split; [exact H1|intros E; congruence].
        -- intros E. apply map_eq_nil in E. congruence.
        -- intros _. rewrite (Hlastmk bs Hne). lia.
  - destruct blocks as [|b0 bl] eqn:Eb.
    + destruct (N.leb_spec from lf) as [Hge|Hlt]; cbn [fst snd].
      * rewrite (u64_small (lf + 1)) by (unfold lf; lia). split; [|split; [discriminate|intros _; reflexivity]].
        intros b [<-|[]]. apply (Hem lf (N.le_refl lf)). reflexivity.
      * split; [intros b []|split; [reflexivity|congruence]].
    + set (bs := b0 :: bl) in *. assert (Hne : bs <> []) by discriminate. specialize (Hlastin Hne).
      cbn [fst snd]. rewrite (u64_small (last_num bs + 1)) by lia. split; [|split].
      * intros b Hb. destruct (Hmk b Hb) as (H1 & H2 & _). split; [exact H1|intros E; congruence].
      * intros E. apply map_eq_nil in E. congruence.
      * intros _. rewrite (Hlastmk bs Hne). reflexivity.
Qed.

(* arithmetic part of the loop state that C06 carries (C05's Core without `from <= last + 1`, which a fork shorter than
   the store breaks); the call-outcome list stays empty *)
Definition DArith (r : nat) (s : dl_state) : Prop :=
  s_from s <= B + 1 /\ s_calls s = [] /\
  (s_phase s <> PInit -> s_from s + chunk <= s_to s /\ s_last s <= B /\ s_to s + N.of_nat r * chunk <= LIM).

Lemma DArith_mono r s : DArith (S r) s -> DArith r s.
Proof. intros (H1 & Hc & H2). split; [exact H1|]. split; [exact Hc|]. intros Hp. specialize (H2 Hp). lia. Qed.

Lemma loop_top_phase f t l rc c : s_phase (loop_top f t l rc c) <> PInit.
Proof. unfold loop_top. destruct ((l <? f) || (rc && (l <=? t))); cbn [s_phase]; discriminate. Qed.
Lemma loop_top_to f t l rc c : s_to (loop_top f t l rc c) = t.
Proof. unfold loop_top. destruct ((l <? f) || (rc && (l <=? t))); reflexivity. Qed.

(* the contract of one step *)
Record StepOut (s s' : dl_state) (t : tick) (out : list dblock) : Prop := {
  so_sorted : StronglySorted N.lt (map b_num out);
  so_range : forall b, In b out -> s_from s <= b_num b < s_from s';
  so_genuine : forall b, In b out -> b_events b = W (b_num b);
  so_fin : forall b, In b out -> b_fin b = true -> b_num b <= t_fin t;
  so_marker : forall b, In b out -> b_events b = [] -> b_num b <= t_fin t;
  so_complete : forall k, s_from s <= k < s_from s' -> W k <> [] -> exists b, In b out /\ b_num b = k;
  so_none : out = [] -> s_from s' = s_from s;
  so_some : out <> [] -> s_from s' = last (map b_num out) 0 + 1
}.

Lemma StepOut_nil s s' t : s_from s' = s_from s -> StepOut s s' t [].
Proof.
  intros E. constructor; try (intros b []); try (intros; lia); try congruence. constructor.
Qed.

Definition poll_ok (s : dl_state) (t : tick) : Prop :=
  t_err t = false -> t_tip t <= B /\ (s_phase s = PFin -> s_last s < s_from s -> t_fin t < s_last s).

Lemma dl_step_contract r s t :
  DArith (S r) s -> poll_ok s t -> B + 1 + (N.of_nat r + 1) * chunk <= LIM ->
  DArith r (fst (dl_step cfg ch s t)) /\ StepOut s (fst (dl_step cfg ch s t)) t (snd (dl_step cfg ch s t)).
Proof.
  intros (Hf & Hcalls & HA) Hok Hbud. unfold dl_step. rewrite Hcalls.
  assert (Hbig : B + 1 + chunk <= LIM) by lia.
  destruct (s_phase s) eqn:Eph.
  - (* PInit *)
    destruct (t_err t) eqn:Eerr; cbn [orb fst snd].
    { split; [split; [exact Hf|split; [exact Hcalls|rewrite Eph; congruence]]|apply StepOut_nil; reflexivity]. }
    destruct (N.ltb_spec 0 (t_tip t)) as [Hpos|Hz]; cbn [negb fst snd].
    2:{ split; [split; [exact Hf|split; [exact Hcalls|rewrite Eph; congruence]]|apply StepOut_nil; reflexivity]. }
    destruct (Hok Eerr) as [HB _].
    rewrite (u64_small (s_from s + chunk)) by lia.
    split; [|apply StepOut_nil; apply loop_top_from].
    split; [rewrite loop_top_from; exact Hf|]. split; [apply loop_top_calls|].
    intros _. rewrite loop_top_from, loop_top_to, loop_top_last. lia.
  - (* PWait *)
    assert (Hp : PWait <> PInit) by discriminate. specialize (HA Hp) as (H1 & H2 & H3).
    destruct (t_err t) eqn:Eerr; cbn [orb fst snd].
    { split; [split; [exact Hf|split; [exact Hcalls|intros _; lia]]|apply StepOut_nil; reflexivity]. }
    destruct (N.ltb_spec (s_last s) (t_tip t)) as [Hgt|Hle]; cbn [negb fst snd].
    2:{ split; [split; [exact Hf|split; [exact Hcalls|intros _; lia]]|apply StepOut_nil; reflexivity]. }
    destruct (Hok Eerr) as [HB _].
    assert (Hdead : u64_sub (s_from s) (s_to s) <? chunk = false).
    { apply N.ltb_ge. unfold u64_sub. rewrite N.mod_small by lia. lia. }
    rewrite Hdead. split; [|apply StepOut_nil; reflexivity].
    split; [exact Hf|]. split; [reflexivity|]. intros _. cbn [s_from s_to s_last]. lia.
  - (* PFin *)
    assert (Hp : PFin <> PInit) by discriminate. specialize (HA Hp) as (H1 & H2 & H3).
    destruct (t_err t) eqn:Eerr; cbn [fst snd].
    { split; [|apply StepOut_nil; apply loop_top_from].
      split; [rewrite loop_top_from; exact Hf|]. split; [apply loop_top_calls|].
      intros _. rewrite loop_top_from, loop_top_to, loop_top_last. lia. }
    destruct (Hok Eerr) as [HB Hbeh]. specialize (Hbeh Eph).
    rewrite dl_body_nil. cbn [fst snd].
    destruct (N.lt_ge_cases (s_last s) (s_from s)) as [Hbehind|Hnormal].
    + (* behind *)
      rewrite dl_body_behind by (try apply Hbeh; lia). cbn [fst snd].
      split; [|apply StepOut_nil; apply loop_top_from].
      split; [rewrite loop_top_from; exact Hf|]. split; [apply loop_top_calls|].
      intros _. rewrite loop_top_from, loop_top_to, loop_top_last. lia.
    + (* normal regime: C05's body_shape with an empty accumulator and from0 := from *)
      assert (HC : Core cfg ch (s_from s) B LIM (S r) (s_from s) (s_to s) (s_last s) []).
      { constructor; try lia; try (intros b []); try (intros k Hk; lia); constructor. }
      destruct (body_shape cfg ch Hchunk (s_from s) B LIM HLIM r (s_from s) (s_to s) (s_last s) (t_fin t) [] HC Hnormal Hbud)
        as (f' & t' & rc & Efst & HC' & Hmono & _).
      destruct (dl_body_facts (s_from s) (s_to s) (s_last s) (t_fin t) Hnormal H1 ltac:(lia) ltac:(lia))
        as (F1 & F2 & F3).
      cbn [app] in HC'. destruct HC' as [C1 C2 C3 C4 C5 C6 C7 C8 C9].
      rewrite Efst in F2, F3 |- *. cbn [fst snd] in F2, F3 |- *.
      split.
      * split; [rewrite loop_top_from; lia|]. split; [apply loop_top_calls|].
        intros _. rewrite loop_top_from, loop_top_to, loop_top_last. lia.
      * constructor; rewrite ?loop_top_from.
        -- exact C7.
        -- intros b Hb. specialize (C6 b Hb). destruct (C9 b Hb). lia.
        -- intros b Hb. apply (C9 b Hb).
        -- intros b Hb Hfin. destruct (F1 b Hb) as [G _]. specialize (G Hfin). lia.
        -- intros b Hb He. destruct (F1 b Hb) as [_ G]. specialize (G He). lia.
        -- intros k Hk Hne. specialize (C8 k Hk Hne). apply in_map_iff in C8 as (b & Hb & Hin).
           exists b. split; [exact Hin|]. unfold blk in Hb. congruence.
        -- exact F2.
        -- exact F3.
Qed.
End DlStep.

(* ------------------------------------------------------------------------------------------ *)
(* generic facts on last / lp *)

Lemma last_app2 {A} (l1 l2 : list A) d : last (l1 ++ l2) d = last l2 (last l1 d).
Proof.
  induction l1 as [|x l1 IH]; [reflexivity|]. destruct l1 as [|y l1].
  - cbn [app]. destruct l2 as [|z l2]; [reflexivity|]. rewrite last_cons. cbn [last].
    change (last (z :: l2) x = last (z :: l2) x). reflexivity.
  - change (last (y :: l1 ++ l2) d = last l2 (last (y :: l1) d)). exact IH.
Qed.

Lemma header_eq_dec (a b : header) : {a = b} + {a <> b}.
Proof. decide equality; apply N.eq_dec. Qed.

Lemma filter_none {A} (f : A -> bool) l : (forall x, In x l -> f x = false) -> filter f l = [].
Proof.
  induction l as [|x l IH]; intros H; [reflexivity|]. cbn [filter]. rewrite (H x (or_introl eq_refl)).
  apply IH. intros y Hy. apply H. right. exact Hy.
Qed.

Lemma lp_app l1 l2 : lp (l1 ++ l2) = last (map p_num l2) (lp l1).
Proof. unfold lp. rewrite map_app, last_app2. reflexivity. Qed.

Lemma watched_node_logs cfg w k :
  watched_events cfg (node_logs w) k = if k <=? w_head w then watched_events cfg (v_logs (w_ver w)) k else [].
Proof. unfold watched_events, node_logs. destruct (k <=? w_head w); reflexivity. Qed.

Lemma look_env w ferr errat n h : look (env_of w ferr errat) n = Some h ->
  v_hash (w_ver w) n = h /\ (n <= w_head w \/ n = w_fin w).
Proof.
  unfold look, env_of. cbn [e_fin e_hdr]. destruct ferr; [discriminate|].
  destruct (N.eqb_spec n (w_fin w)) as [->|Hne].
  - intros [= <-]. split; [reflexivity|right; reflexivity].
  - unfold node_header. destruct (N.leb_spec n (w_head w)); [|discriminate]. intros [= <-]. split; [reflexivity|left; assumption].
Qed.

Lemma env_fin w ferr errat fnum fhash : e_fin (env_of w ferr errat) = Some (fnum, fhash) -> fnum = w_fin w.
Proof. unfold env_of. cbn [e_fin]. destruct ferr; [discriminate|]. intros [= <- _]. reflexivity. Qed.

(* ------------------------------------------------------------------------------------------ *)
(* the composed system *)

Section Sys.
Variable cfg : config.
Hypothesis Hchunk : 1 <= c_chunk cfg.
Variable U : version -> Prop.                      (* the chain versions that ever occur *)
Hypothesis Hlinked : forall u v, U u -> U v -> linked u v.
Variables B LIM : N.
Hypothesis HLIM : LIM < M64.

Notation wev v := (watched_events cfg (v_logs v)).

(* provenance of a block: some version gives it this (non-zero) hash and these events, and had no watched events
   strictly between lo and the block *)
Definition prov (lo n h : N) (evs : list ev) : Prop :=
  exists v, U v /\ v_hash v n = h /\ h <> 0 /\ evs = wev v n /\ forall k, lo < k < n -> wev v k = [].

Fixpoint seq_ok (lo : N) (l : list pblock) : Prop :=
  match l with
  | [] => True
  | p :: t => lo < p_num p /\ p_num p <= B /\ prov lo (p_num p) (p_hash p) (p_evs p) /\ seq_ok (p_num p) t
  end.

Lemma seq_ok_app l1 : forall lo l2, seq_ok lo (l1 ++ l2) <-> seq_ok lo l1 /\ seq_ok (last (map p_num l1) lo) l2.
Proof.
  induction l1 as [|p l1 IH]; intros lo l2; cbn [app seq_ok map].
  - cbn [last]. tauto.
  - rewrite IH. rewrite last_cons. tauto.
Qed.

Lemma seq_ok_bounds l : forall lo, seq_ok lo l -> forall p, In p l -> lo < p_num p <= B.
Proof.
  induction l as [|q l IH]; intros lo H p Hp; [destruct Hp|]. cbn [seq_ok] in H. destruct H as (H1 & H2 & _ & H4).
  destruct Hp as [<-|Hp]; [lia|]. specialize (IH _ H4 p Hp). lia.
Qed.

Lemma seq_ok_le_last l : forall lo, seq_ok lo l -> forall p, In p l -> p_num p <= last (map p_num l) lo.
Proof.
  induction l as [|q l IH]; intros lo H p Hp; [destruct Hp|]. cbn [seq_ok] in H. destruct H as (H1 & _ & _ & H4).
  cbn [map]. rewrite last_cons. destruct Hp as [<-|Hp]; [|apply IH; assumption].
  destruct l as [|q' l']; [cbn; lia|].
  pose proof (IH _ H4 q' (or_introl eq_refl)) as H5. pose proof (seq_ok_bounds _ _ H4 q' (or_introl eq_refl)). lia.
Qed.

Lemma seq_ok_last_bounds l : forall lo, seq_ok lo l -> lo <= B -> lo <= last (map p_num l) lo <= B.
Proof.
  intros lo H HB. destruct l as [|q l]; [cbn; lia|].
  assert (Hin : In (last (map p_num (q :: l)) lo) (map p_num (q :: l))) by (apply last_in; discriminate).
  apply in_map_iff in Hin as (p & Hp & Hin). rewrite <- Hp. pose proof (seq_ok_bounds _ _ H p Hin). lia.
Qed.

Lemma seq_ok_reorg b l : forall lo, seq_ok lo l -> seq_ok lo (store_reorg b l).
Proof.
  induction l as [|q l IH]; intros lo H; [exact I|]. cbn [seq_ok] in H. destruct H as (H1 & H2 & H3 & H4).
  unfold store_reorg. cbn [filter]. fold (store_reorg b l).
  destruct (N.ltb_spec (p_num q) b) as [Hlt|Hge].
  - cbn [seq_ok]. repeat split; try assumption. apply IH, H4.
  - assert (E : store_reorg b l = []).
    { unfold store_reorg. apply filter_none. intros p Hp. pose proof (seq_ok_bounds _ _ H4 p Hp).
      apply N.ltb_ge. lia. }
    rewrite E. exact I.
Qed.

Lemma store_reorg_in b l p : In p (store_reorg b l) <-> In p l /\ p_num p < b.
Proof. unfold store_reorg. rewrite filter_In, N.ltb_lt. tauto. Qed.

(* ---- the invariant ---- *)
Definition all_blocks (s : sys) : list pblock := y_store s ++ map pb_of (y_chan s).
Definition cur (s : sys) : version := w_ver (y_world s).

Definition world_wf (s : sys) : Prop :=
  let w := y_world s in
  U (w_ver w) /\ w_fin w <= y_final s /\ y_final s <= w_head w /\ w_head w <= B /\
  (forall n, n <= w_head w -> v_hash (w_ver w) n <> 0).

(* tracked_covers_processed: every processed block is tracked with its delivered hash, or is final and canonical *)
Definition covers (s : sys) : Prop :=
  forall p, In p (y_store s) ->
    In (p_num p, p_hash p) (t_mem (y_det s)) \/ (p_num p <= y_final s /\ v_hash (cur s) (p_num p) = p_hash p).

Definition chan_fin (s : sys) : Prop :=
  forall c, In c (y_chan s) -> c_fin c = true -> c_num c <= y_final s /\ v_hash (cur s) (c_num c) = c_hash c.

Record SInv (r : nat) (s : sys) : Prop := {
  i_world : world_wf s;
  i_det : det_ok (y_det s);
  i_seq : seq_ok 0 (all_blocks s);
  i_covers : covers s;
  i_chanfin : chan_fin s;
  i_cursor : s_from (y_dl s) = lp (all_blocks s) + 1;
  i_arith : DArith cfg B LIM r (y_dl s);
  i_budget : B + 1 + (N.of_nat r + 1) * c_chunk cfg <= LIM
}.

(* what the environment may do (hypotheses of the theorems) *)
Definition ev_ok (s : sys) (e : event) : Prop :=
  match e with
  | EWorld w =>
      U (w_ver w) /\
      v_hash (w_ver w) (y_final s) = v_hash (cur s) (y_final s) /\      (* a finalized block is never replaced *)
      N.max (y_final s) (w_fin w) <= w_head w /\ w_head w <= B /\
      (forall n, n <= w_head w -> v_hash (w_ver w) n <> 0)
  | EPoll err =>                                                         (* (H1') *)
      err = false -> s_phase (y_dl s) = PFin -> s_last (y_dl s) < s_from (y_dl s) ->
      w_fin (y_world s) < s_last (y_dl s)
  | _ => True
  end.

Lemma SInv_mono r s : SInv (S r) s -> SInv r s.
Proof.
  intros [H1 H2 H3 H4 H5 H6 H7 H8]. constructor; try assumption.
  - apply DArith_mono; assumption.
  - lia.
Qed.

Lemma lp_all_le_B r s : SInv r s -> lp (all_blocks s) <= B.
Proof. intros H. pose proof (seq_ok_last_bounds _ _ (i_seq _ _ H)). unfold lp. lia. Qed.

Lemma store_seq r s : SInv r s -> seq_ok 0 (y_store s) /\ seq_ok (lp (y_store s)) (map pb_of (y_chan s)).
Proof. intros H. apply seq_ok_app. exact (i_seq _ _ H). Qed.

Lemma lp_store_le_B r s : SInv r s -> lp (y_store s) <= B.
Proof. intros H. destruct (store_seq _ _ H) as [H1 _]. pose proof (seq_ok_last_bounds _ _ H1). unfold lp. lia. Qed.

Lemma sync_from_small l : l <= B -> B + 1 < M64 -> sync_from l = l + 1.
Proof. intros H1 H2. unfold sync_from. apply u64_small. lia. Qed.

Lemma B_small r s : SInv r s -> B + 1 < M64.
Proof. intros H. pose proof (i_budget _ _ H). nia. Qed.

(* a freshly (re)started download *)
Lemma DArith_init r l : l <= B -> B + 1 < M64 -> DArith cfg B LIM r (dl_init (sync_from l) []).
Proof.
  intros H1 H2. split; cbn [dl_init s_from s_phase s_calls]; [rewrite sync_from_small by assumption; lia|].
  split; [reflexivity|congruence].
Qed.

(* ---- world moves ---- *)
Lemma agree_below s w : world_wf s -> ev_ok s (EWorld w) ->
  forall n, n <= y_final s -> v_hash (w_ver w) n = v_hash (cur s) n.
Proof.
  intros (HU & Hf & Hfh & HB & Hnz) (HU' & Hag & _) n Hn.
  assert (Hl : linked (cur s) (w_ver w)) by (apply Hlinked; assumption).
  symmetry. apply (Hl (y_final s)); [apply Hnz; exact Hfh|symmetry; exact Hag|exact Hn].
Qed.

Lemma step_world r s w : SInv r s -> ev_ok s (EWorld w) -> SInv r (set_world s w).
Proof.
  intros H Hok. pose proof (agree_below s w (i_world _ _ H) Hok) as Hag.
  destruct Hok as (HU & _ & Hmax & HB & Hnz). destruct H as [H1 H2 H3 H4 H5 H6 H7 H8].
  constructor; try assumption.
  - unfold world_wf. cbn [set_world y_world y_final]. repeat split; try assumption; lia.
  - intros p Hp. destruct (H4 p Hp) as [Ht|[Hf Hh]]; [left; exact Ht|right].
    cbn [set_world y_final cur y_world]. split; [lia|]. rewrite Hag by exact Hf. exact Hh.
  - intros c Hc Hfin. destruct (H5 c Hc Hfin) as [Hf Hh]. cbn [set_world y_final cur y_world].
    split; [lia|]. rewrite Hag by exact Hf. exact Hh.
Qed.

(* ---- the downloader polls ---- *)
Lemma last_out_nums w out d :
  last (map p_num (map pb_of (map (cb_of w) out))) d = last (map b_num out) d.
Proof. rewrite !map_map. reflexivity. Qed.

Lemma out_seq_ok w out : forall lo f',
  StronglySorted N.lt (map b_num out) ->
  (forall b, In b out -> lo < b_num b < f' /\ b_num b <= w_head w /\ b_events b = wev (w_ver w) (b_num b)) ->
  (forall k, lo < k < f' -> k <= w_head w -> wev (w_ver w) k <> [] -> exists b, In b out /\ b_num b = k) ->
  U (w_ver w) -> (forall n, n <= w_head w -> v_hash (w_ver w) n <> 0) -> w_head w <= B ->
  seq_ok lo (map pb_of (map (cb_of w) out)).
Proof.
  induction out as [|b0 out IH]; intros lo f' Hs Hin Hc HU Hnz HB; [exact I|].
  cbn [map] in Hs. inversion Hs as [|? ? Hs' Hall]; subst. rewrite Forall_forall in Hall.
  destruct (Hin b0 (or_introl eq_refl)) as (Hr0 & Hh0 & He0).
  cbn [map seq_ok pb_of cb_of p_num p_hash p_evs c_num c_hash c_evs].
  split; [lia|]. split; [lia|]. split.
  - exists (w_ver w). split; [exact HU|]. split; [reflexivity|]. split; [apply Hnz, Hh0|]. split; [exact He0|].
    intros k Hk. destruct (wev (w_ver w) k) as [|e0 et] eqn:E; [reflexivity|]. exfalso.
    destruct (Hc k ltac:(lia) ltac:(lia)) as (b & Hb & Hbk); [rewrite E; discriminate|].
    destruct Hb as [<-|Hb]; [lia|]. specialize (Hall (b_num b) (in_map b_num _ _ Hb)). lia.
  - apply (IH (b_num b0) f'); try assumption.
    + intros b Hb. destruct (Hin b (or_intror Hb)) as (H1 & H2 & H3).
      specialize (Hall (b_num b) (in_map b_num _ _ Hb)). repeat split; try assumption; lia.
    + intros k Hk Hkh Hne. destruct (Hc k ltac:(lia) Hkh Hne) as (b & [<-|Hb] & Hbk); [lia|].
      exists b. split; assumption.
Qed.

Lemma step_poll r s err : SInv (S r) s -> ev_ok s (EPoll err) -> SInv r (do_poll cfg s err).
Proof.
  intros H Hok. pose proof (B_small _ _ H) as HBs.
  unfold do_poll. unfold ev_ok in Hok.
  destruct H as [H1 H2 H3 H4 H5 H6 H7 H8].
  unfold world_wf, covers, chan_fin, cur in *. cbv zeta in H1.
  remember (y_world s) as w eqn:Ew.
  assert (Hpok : poll_ok B (y_dl s) (poll_tick w err)).
  { intros Herr. cbn [poll_tick t_err t_tip t_fin] in *. destruct H1 as (_ & _ & _ & HB & _). split; [exact HB|].
    intros Hp Hb. apply Hok; assumption. }
  destruct (dl_step_contract cfg (node_logs w) Hchunk B LIM HLIM r (y_dl s) (poll_tick w err) H7 Hpok ltac:(lia)) as [HA HO].
  remember (dl_step cfg (node_logs w) (y_dl s) (poll_tick w err)) as res eqn:Eres.
  destruct HO as [O1 O2 O3 O4 O5 O6 O7 O8]. cbn [poll_tick t_fin] in O4, O5.
  destruct H1 as (HU & Hfw & Hfh & HB & Hnz).
  assert (Hnum_head : forall b, In b (snd res) -> b_num b <= w_head w).
  { intros b Hb. destruct (b_events b) as [|e0 et] eqn:E.
    - specialize (O5 b Hb E). lia.
    - specialize (O3 b Hb). rewrite E, watched_node_logs in O3.
      destruct (N.leb_spec (b_num b) (w_head w)); [assumption|discriminate]. }
  assert (Hnew : seq_ok (lp (all_blocks s)) (map pb_of (map (cb_of w) (snd res)))).
  { apply (out_seq_ok w (snd res) (lp (all_blocks s)) (s_from (fst res))); try assumption.
    - intros b Hb. specialize (O2 b Hb). specialize (Hnum_head b Hb). specialize (O3 b Hb).
      rewrite watched_node_logs in O3. apply N.leb_le in Hnum_head as Hle. rewrite Hle in O3.
      repeat split; try assumption; lia.
    - intros k Hk Hkh Hne. apply (O6 k); [lia|]. rewrite watched_node_logs. apply N.leb_le in Hkh. rewrite Hkh. exact Hne. }
  constructor; cbn [y_world y_final y_store y_det y_dl y_chan]; try assumption.
  - unfold world_wf. cbn [y_world y_final]. repeat split; assumption.
  - unfold all_blocks. cbn [y_store y_chan]. rewrite map_app, app_assoc. apply seq_ok_app. split; [exact H3|exact Hnew].
  - intros c Hc Hfin. cbn [y_chan] in Hc. unfold cur. cbn [y_world y_final].
    apply in_app_or in Hc as [Hc|Hc]; [apply (H5 c Hc Hfin)|].
    apply in_map_iff in Hc as (b & <- & Hb). cbn [cb_of c_fin c_num c_hash] in *.
    split; [|reflexivity]. specialize (O4 b Hb Hfin). lia.
  - unfold all_blocks. cbn [y_store y_chan]. rewrite map_app, app_assoc, lp_app, last_out_nums.
    destruct (snd res) as [|b0 bl] eqn:Eo.
    + cbn [map last]. rewrite (O7 eq_refl). exact H6.
    + rewrite O8 by discriminate. f_equal. apply last_default. discriminate.
  - lia.
Qed.

(* ---- handleNewBlock ---- *)
Lemma track_ok c d : det_ok d -> det_ok (track c d).
Proof. intros H. unfold track. destruct (c_fin c); [exact H|apply det_ok_add, H]. Qed.

Lemma track_mem c d : det_ok d -> forall y, In y (t_mem (track c d)) <->
  (if c_fin c then In y (t_mem d) else y = (c_num c, c_hash c) \/ (In y (t_mem d) /\ fst y <> c_num c)).
Proof. intros H y. unfold track. destruct (c_fin c); [tauto|]. apply add_mem_in, H. Qed.

Lemma step_handle r s : SInv r s -> SInv r (do_handle s).
Proof.
  intros H. unfold do_handle. destruct (y_chan s) as [|c rest] eqn:Ec; [exact H|].
  pose proof (store_seq _ _ H) as [Hst Hch]. rewrite Ec in Hch. cbn [map seq_ok pb_of p_num] in Hch.
  destruct Hch as (Hlt & _).
  destruct H as [H1 H2 H3 H4 H5 H6 H7 H8].
  assert (Hall : all_blocks s = (y_store s ++ [pb_of c]) ++ map pb_of rest).
  { unfold all_blocks. rewrite Ec. cbn [map]. rewrite <- app_assoc. reflexivity. }
  constructor; cbn [y_world y_final y_store y_det y_dl y_chan]; try assumption.
  - apply track_ok, H2.
  - unfold all_blocks. cbn [y_store y_chan]. rewrite <- Hall. exact H3.
  - intros p Hp. cbn [y_store y_det y_final cur y_world] in *. apply in_app_or in Hp as [Hp|[<-|[]]].
    + destruct (H4 p Hp) as [Ht|Hf]; [left|right; exact Hf].
      apply (track_mem c _ H2). destruct (c_fin c); [exact Ht|]. right. split; [exact Ht|]. cbn [fst].
      pose proof (seq_ok_le_last _ _ Hst p Hp) as Hle. unfold lp in Hlt. lia.
    + cbn [pb_of p_num p_hash]. destruct (c_fin c) eqn:Ef.
      * right. apply (H5 c); [rewrite Ec; left; reflexivity|exact Ef].
      * left. apply (track_mem c _ H2). rewrite Ef. left. reflexivity.
  - intros c' Hc'. apply (H5 c'). rewrite Ec. right. exact Hc'.
  - unfold all_blocks in *. cbn [y_store y_chan]. rewrite <- Hall. unfold all_blocks in H6. exact H6.
Qed.

Lemma step_handle_n n : forall r s, SInv r s -> SInv r (do_handle_n n s).
Proof. induction n as [|n IH]; intros r s H; cbn [do_handle_n]; [exact H|]. apply IH, step_handle, H. Qed.

(* ---- restart ---- *)
Lemma reset_inv r s d st :
  SInv r s -> det_ok d -> seq_ok 0 st ->
  (forall p, In p st -> In p (y_store s)) ->
  (forall p, In p st -> In (p_num p, p_hash p) (t_mem d) \/ (p_num p <= y_final s /\ v_hash (cur s) (p_num p) = p_hash p)) ->
  forall rew,
  SInv r {| y_world := y_world s; y_final := y_final s; y_store := st; y_det := d;
            y_dl := dl_init (sync_from (lp st)) []; y_chan := []; y_rewinds := rew |}.
Proof.
  intros H Hd Hst Hsub Hcov rew. pose proof (B_small _ _ H) as HBs.
  assert (Hlp : lp st <= B) by (pose proof (seq_ok_last_bounds _ _ Hst); unfold lp; lia).
  destruct H as [H1 H2 H3 H4 H5 H6 H7 H8].
  constructor; cbn [y_world y_final y_store y_det y_dl y_chan]; try assumption.
  - unfold all_blocks. cbn [y_store y_chan map]. rewrite app_nil_r. exact Hst.
  - intros c [].
  - unfold all_blocks. cbn [y_store y_chan map dl_init s_from]. rewrite app_nil_r. apply sync_from_small; assumption.
  - apply DArith_init; assumption.
Qed.

Lemma step_restart r s : SInv r s -> SInv r (do_restart s).
Proof.
  intros H. unfold do_restart. destruct (det_ok_reload _ (i_det _ _ H)) as [Hd He]. rewrite He.
  apply (reset_inv r s (y_det s) (y_store s) H (i_det _ _ H)); [apply (store_seq _ _ H)|tauto|apply (i_covers _ _ H)].
Qed.

Lemma step_crash_mid r s : SInv r s -> SInv r (do_crash_mid s).
Proof.
  intros H. unfold do_crash_mid. destruct (y_chan s) as [|c rest] eqn:Ec; [apply step_restart, H|].
  unfold do_restart. cbn [set_det y_world y_final y_store y_det y_rewinds].
  pose proof (store_seq _ _ H) as [Hst Hch]. rewrite Ec in Hch. cbn [map seq_ok pb_of p_num] in Hch. destruct Hch as (Hlt & _).
  pose proof (track_ok c _ (i_det _ _ H)) as Hd.
  destruct (det_ok_reload _ Hd) as [_ He]. rewrite He.
  apply (reset_inv r s (track c (y_det s)) (y_store s) H Hd Hst); [tauto|].
  intros p Hp. destruct (i_covers _ _ H p Hp) as [Ht|Hf]; [left|right; exact Hf].
  apply (track_mem c _ (i_det _ _ H)). destruct (c_fin c); [exact Ht|]. right. split; [exact Ht|]. cbn [fst].
  pose proof (seq_ok_le_last _ _ Hst p Hp) as Hle. unfold lp in Hlt. lia.
Qed.

(* ---- the detector ticks ---- *)
Lemma untracked_is_final s ferr errat y :
  world_wf s ->
  look (env_of (y_world s) ferr errat) (fst y) = Some (snd y) ->
  (exists fnum fhash, e_fin (env_of (y_world s) ferr errat) = Some (fnum, fhash) /\ fst y <= fnum) ->
  fst y <= y_final s /\ v_hash (cur s) (fst y) = snd y.
Proof.
  intros (_ & Hfw & _) Hl (fnum & fhash & Ef & Hle). apply env_fin in Ef. subst fnum.
  apply look_env in Hl as [Hh _]. split; [lia|exact Hh].
Qed.

Lemma step_tick r s ferr errat : SInv r s -> SInv r (do_tick s ferr errat).
Proof.
  intros H. unfold do_tick.
  destruct (detect_tick (env_of (y_world s) ferr errat) (y_det s)) as [d' res] eqn:Et. cbn [fst snd].
  destruct (detect_effect _ _ (i_det _ _ H) d' res Et) as (Hd' & Hsub & Hrem & Hlow & _).
  assert (Hkeep : forall p, In p (y_store s) -> (forall b, res = TReorg b -> p_num p < b) ->
            In (p_num p, p_hash p) (t_mem d') \/ (p_num p <= y_final s /\ v_hash (cur s) (p_num p) = p_hash p)).
  { intros p Hp Hb. destruct (i_covers _ _ H p Hp) as [Ht|Hf]; [|right; exact Hf].
    destruct (in_dec header_eq_dec (p_num p, p_hash p) (t_mem d')) as [Hin|Hnin]; [left; exact Hin|right].
    destruct (Hrem _ Ht Hnin) as [[Hl Hf]|(b & Hr & Hle)].
    - apply (untracked_is_final s ferr errat (p_num p, p_hash p) (i_world _ _ H) Hl Hf).
    - specialize (Hb b Hr). cbn [fst] in Hle. lia. }
  destruct res as [|b|].
  - (* no reorg *)
    destruct H as [H1 H2 H3 H4 H5 H6 H7 H8]. constructor; cbn [set_det y_world y_final y_store y_det y_dl y_chan]; try assumption.
    intros p Hp. apply Hkeep; [exact Hp|discriminate].
  - (* reorg at b *)
    unfold handle_reorg, set_det. cbn [y_world y_final y_store y_det y_dl y_chan y_rewinds].
    apply (reset_inv r s d' (store_reorg b (y_store s)) H Hd').
    + apply seq_ok_reorg, (store_seq _ _ H).
    + intros p Hp. apply store_reorg_in in Hp. tauto.
    + intros p Hp. apply store_reorg_in in Hp as [Hp Hlt]. apply Hkeep; [exact Hp|]. intros b' [= <-]. exact Hlt.
  - destruct H as [H1 H2 H3 H4 H5 H6 H7 H8]. constructor; cbn [set_det y_world y_final y_store y_det y_dl y_chan]; try assumption.
    intros p Hp. apply Hkeep; [exact Hp|discriminate].
Qed.

(* the node is stopped while the subscriber is being notified: the tracked set is the one the notification was made
   from (nothing at or above the reported block has been deleted), the store has not been rewound; then a start *)
Lemma step_crash_notify r s ferr errat : SInv r s -> SInv r (do_crash_notify s ferr errat).
Proof.
  intros H. unfold do_crash_notify.
  destruct (detect_pre (env_of (y_world s) ferr errat) (y_det s)) as [d1 res] eqn:Et. cbn [fst].
  destruct (detect_pre_effect _ _ (i_det _ _ H) d1 res Et) as (Hd1 & Hsub & Hrem).
  unfold do_restart. cbn [set_det y_world y_final y_store y_det y_rewinds].
  destruct (det_ok_reload _ Hd1) as [_ He]. rewrite He.
  apply (reset_inv r s d1 (y_store s) H Hd1); [apply (store_seq _ _ H)|tauto|].
  intros p Hp. destruct (i_covers _ _ H p Hp) as [Ht|Hf]; [|right; exact Hf].
  destruct (in_dec header_eq_dec (p_num p, p_hash p) (t_mem d1)) as [Hin|Hnin]; [left; exact Hin|right].
  destruct (Hrem _ Ht Hnin) as [Hl Hfin].
  apply (untracked_is_final s ferr errat (p_num p, p_hash p) (i_world _ _ H) Hl Hfin).
Qed.

(* ---- every step, every run ---- *)
Definition polls_of (e : event) : nat := match e with EPoll _ => 1 | _ => 0 end.
Fixpoint polls (es : list event) : nat := match es with [] => 0 | e :: t => polls_of e + polls t end.

Lemma step_preserves r s e : SInv (polls_of e + r) s -> ev_ok s e -> SInv r (step cfg s e).
Proof.
  destruct e as [w|err| | |ferr errat| | |ferr errat]; cbn [polls_of Nat.add step]; intros H Hok.
  - apply step_world; assumption.
  - apply step_poll; assumption.
  - apply step_handle, H.
  - apply step_handle_n, H.
  - apply step_tick, H.
  - apply step_restart, H.
  - apply step_crash_mid, H.
  - apply step_crash_notify, H.
Qed.

(* every event of the trace is admissible in the state it meets *)
Fixpoint trace_ok (s : sys) (es : list event) : Prop :=
  match es with [] => True | e :: t => ev_ok s e /\ trace_ok (step cfg s e) t end.

Lemma run_preserves es : forall r s, SInv (polls es + r) s -> trace_ok s es -> SInv r (run cfg s es).
Proof.
  induction es as [|e es IH]; intros r s H Hok; cbn [run fold_left polls] in *; [exact H|].
  destruct Hok as [He Hrest]. apply IH; [|exact Hrest]. apply step_preserves; [|exact He].
  rewrite Nat.add_assoc. exact H.
Qed.

Lemma SInv_init r w :
  U (w_ver w) -> w_fin w <= w_head w -> w_head w <= B -> (forall n, n <= w_head w -> v_hash (w_ver w) n <> 0) ->
  B + 1 + (N.of_nat r + 1) * c_chunk cfg <= LIM ->
  SInv r (sys_init w).
Proof.
  intros HU Hf HB Hnz Hbud. assert (HBs : B + 1 < M64) by nia.
  constructor; cbn [sys_init y_world y_final y_store y_det y_dl y_chan]; try assumption.
  - unfold world_wf. cbn [sys_init y_world y_final]. repeat split; try assumption; lia.
  - apply det_ok_empty.
  - exact I.
  - intros p [].
  - intros c [].
  - cbn [dl_init s_from]. rewrite sync_from_small by lia. reflexivity.
  - apply DArith_init; lia.
Qed.

(* ------------------------------------------------------------------------------------------ *)
(* consequences of the invariant *)

Lemma final_is_canonical s p : world_wf s -> p_num p <= y_final s -> v_hash (cur s) (p_num p) = p_hash p ->
  canonical (y_world s) p.
Proof.
  intros (_ & _ & Hfh & _) Hf Hh. unfold canonical, node_header.
  assert (E : (p_num p <=? w_head (y_world s)) = true) by (apply N.leb_le; lia). rewrite E. unfold cur in Hh. congruence.
Qed.

Lemma look_canonical s ferr errat p : world_wf s ->
  look (env_of (y_world s) ferr errat) (p_num p) = Some (p_hash p) -> canonical (y_world s) p.
Proof.
  intros (_ & Hfw & Hfh & _) Hl. apply look_env in Hl as [Hh Hle]. unfold canonical, node_header.
  assert (E : (p_num p <=? w_head (y_world s)) = true) by (apply N.leb_le; lia). rewrite E. congruence.
Qed.

(* rewind_at_or_before_first_replaced *)
Lemma rewind_bound r s ferr errat b :
  SInv r s -> snd (detect_tick (env_of (y_world s) ferr errat) (y_det s)) = TReorg b ->
  forall p, In p (y_store s) -> ~ canonical (y_world s) p -> b <= p_num p.
Proof.
  intros H Hres p Hp Hnc. destruct (i_covers _ _ H p Hp) as [Ht|[Hf Hh]].
  - destruct (detect_sound _ _ (i_det _ _ H) b Hres) as (h & c & _ & _ & _ & Hbelow).
    destruct (N.le_gt_cases b (p_num p)) as [Hle|Hgt]; [exact Hle|]. exfalso. apply Hnc.
    apply (look_canonical s ferr errat p (i_world _ _ H)). apply (Hbelow _ _ Ht Hgt).
  - exfalso. apply Hnc. apply final_is_canonical; [apply (i_world _ _ H)|assumption|assumption].
Qed.

(* every tracked header belongs to a processed block (true as long as the node is never stopped between AddBlockToTrack
   and ProcessBlock) *)
Definition Tight (s : sys) : Prop :=
  forall y, In y (t_mem (y_det s)) -> exists p, In p (y_store s) /\ p_num p = fst y /\ p_hash p = snd y.

Lemma tight_handle r s : SInv r s -> Tight s -> Tight (do_handle s).
Proof.
  intros H HT. unfold do_handle. destruct (y_chan s) as [|c rest] eqn:Ec; [exact HT|].
  intros y Hy. cbn [y_det y_store] in *. apply (track_mem c _ (i_det _ _ H)) in Hy.
  assert (Hold : In y (t_mem (y_det s)) -> exists p, In p (y_store s ++ [pb_of c]) /\ p_num p = fst y /\ p_hash p = snd y).
  { intros Hy'. destruct (HT y Hy') as (p & Hp & Hn & Hh). exists p. split; [apply in_or_app; left; exact Hp|tauto]. }
  destruct (c_fin c); [apply Hold, Hy|]. destruct Hy as [->|[Hy _]]; [|apply Hold, Hy].
  exists (pb_of c). split; [apply in_or_app; right; left; reflexivity|split; reflexivity].
Qed.

Lemma tight_handle_n n : forall r s, SInv r s -> Tight s -> Tight (do_handle_n n s).
Proof.
  induction n as [|n IH]; intros r s H HT; cbn [do_handle_n]; [exact HT|].
  apply (IH r); [apply step_handle, H|apply (tight_handle r), HT; exact H].
Qed.

Lemma tight_tick r s ferr errat : SInv r s -> Tight s -> Tight (do_tick s ferr errat).
Proof.
  intros H HT. unfold do_tick.
  destruct (detect_tick (env_of (y_world s) ferr errat) (y_det s)) as [d' res] eqn:Et. cbn [fst snd].
  destruct (detect_effect _ _ (i_det _ _ H) d' res Et) as (_ & Hsub & _ & Hlow & _).
  destruct res as [|b|]; intros y Hy; cbn [set_det handle_reorg y_det y_store] in *;
    destruct (HT y (Hsub y Hy)) as (p & Hp & Hn & Hh); exists p; (split; [|tauto]); try exact Hp.
  apply store_reorg_in. split; [exact Hp|]. specialize (Hlow b eq_refl y Hy). lia.
Qed.

Lemma tight_step r s e : SInv (polls_of e + r) s -> Tight s -> e <> ECrashMid -> Tight (step cfg s e).
Proof.
  destruct e as [w|err| | |ferr errat| | |ferr errat]; cbn [polls_of Nat.add step]; intros H HT Hne.
  - exact HT.
  - exact HT.
  - apply (tight_handle r); assumption.
  - apply (tight_handle_n _ r); assumption.
  - apply (tight_tick r); assumption.
  - unfold do_restart. destruct (det_ok_reload _ (i_det _ _ H)) as [_ He]. rewrite He. exact HT.
  - congruence.
  - unfold do_crash_notify.
    destruct (detect_pre (env_of (y_world s) ferr errat) (y_det s)) as [d1 res] eqn:Et. cbn [fst].
    destruct (detect_pre_effect _ _ (i_det _ _ H) d1 res Et) as (Hd1 & Hsub & _).
    unfold do_restart. cbn [set_det y_det y_store]. destruct (det_ok_reload _ Hd1) as [_ He]. rewrite He.
    intros y Hy. cbn [y_det y_store] in *. apply HT, Hsub, Hy.
Qed.

(* the block has the hash the node's chain version has at that height (whether or not the head has reached it) *)
Definition hash_canon (s : sys) (p : pblock) : Prop := v_hash (cur s) (p_num p) = p_hash p.

Lemma canonical_hash_canon s p : canonical (y_world s) p -> hash_canon s p.
Proof.
  unfold canonical, node_header, hash_canon, cur. destruct (p_num p <=? w_head (y_world s)); [|discriminate]. congruence.
Qed.

(* no_false_rewind at system level: when no processed block has been replaced a tick drops nothing and leaves the
   download alone *)
Lemma no_false_rewind_sys_proof r s ferr errat :
  SInv r s -> Tight s -> (forall p, In p (y_store s) -> hash_canon s p) ->
  y_store (do_tick s ferr errat) = y_store s /\ y_rewinds (do_tick s ferr errat) = y_rewinds s /\
  y_dl (do_tick s ferr errat) = y_dl s /\ y_chan (do_tick s ferr errat) = y_chan s /\
  y_world (do_tick s ferr errat) = y_world s.
Proof.
  intros H HT Hcan. unfold do_tick.
  destruct (detect_tick (env_of (y_world s) ferr errat) (y_det s)) as [d' res] eqn:Et. cbn [fst snd].
  destruct res as [|b|]; [repeat split| |repeat split]. exfalso.
  apply (no_false_rewind_proof (env_of (y_world s) ferr errat) (y_det s) (i_det _ _ H)) with (b := b); [|rewrite Et; reflexivity].
  intros x Hx. destruct (HT x Hx) as (p & Hp & Hn & Hh). specialize (Hcan p Hp).
  unfold hash_canon, cur in Hcan. rewrite Hn, Hh in Hcan.
  unfold look, env_of. cbn [e_fin e_hdr]. destruct ferr; [right; reflexivity|].
  destruct (N.eqb_spec (fst x) (w_fin (y_world s))) as [E|E].
  - left. rewrite <- E, Hcan. reflexivity.
  - unfold node_header. destruct (fst x <=? w_head (y_world s)); [left; rewrite Hcan; reflexivity|right; reflexivity].
Qed.

(* ---- convergence on a chain that no longer forks ---- *)
Definition CanonChan (s : sys) : Prop := forall c, In c (y_chan s) -> v_hash (cur s) (c_num c) = c_hash c.
(* every processed or queued block carries the hash the node's chain version has at that height *)
Definition Settled (r : nat) (s : sys) : Prop := SInv r s /\ forall p, In p (all_blocks s) -> hash_canon s p.

(* one tick whose RPCs succeed, taken when nothing stale is queued, settles the node *)
Lemma settle_proof r s ferr errat :
  SInv r s -> CanonChan s ->
  snd (detect_tick (env_of (y_world s) ferr errat) (y_det s)) <> TErr ->
  Settled r (do_tick s ferr errat).
Proof.
  intros H HC Hne. split; [apply step_tick, H|].
  unfold do_tick. destruct (detect_tick (env_of (y_world s) ferr errat) (y_det s)) as [d' res] eqn:Et.
  cbn [fst snd] in *.
  assert (Hfinal : forall p, p_num p <= y_final s /\ v_hash (cur s) (p_num p) = p_hash p -> v_hash (cur s) (p_num p) = p_hash p) by tauto.
  destruct res as [|b|]; [| |congruence].
  - destruct (detect_effect _ _ (i_det _ _ H) d' TNone Et) as (_ & _ & _ & _ & Hall).
    intros p Hp. unfold all_blocks, hash_canon, cur in *. cbn [set_det y_store y_chan y_world] in *.
    apply in_app_or in Hp as [Hp|Hp].
    + destruct (i_covers _ _ H p Hp) as [Ht|Hf]; [|apply Hfinal, Hf].
      specialize (Hall eq_refl _ Ht). cbn [fst snd] in Hall. apply look_env in Hall. tauto.
    + apply in_map_iff in Hp as (c & <- & Hc). cbn [pb_of p_num p_hash]. apply HC, Hc.
  - assert (Hres : snd (detect_tick (env_of (y_world s) ferr errat) (y_det s)) = TReorg b) by (rewrite Et; reflexivity).
    destruct (detect_sound _ _ (i_det _ _ H) b Hres) as (h & c & _ & _ & _ & Hbelow).
    intros p Hp. unfold all_blocks, hash_canon, cur in *. cbn [set_det handle_reorg y_store y_chan y_world map] in *.
    rewrite app_nil_r in Hp. apply store_reorg_in in Hp as [Hp Hlt].
    destruct (i_covers _ _ H p Hp) as [Ht|Hf]; [|apply Hfinal, Hf].
    specialize (Hbelow _ _ Ht Hlt). apply look_env in Hbelow. tauto.
Qed.

(* events of the quiescent phase: the node stays on its chain version (the head may move, blocks may become final) *)
Definition quiet_ev (s : sys) (e : event) : Prop :=
  match e with EWorld w => w_ver w = cur s | _ => True end.

Lemma all_blocks_handle s : all_blocks (do_handle s) = all_blocks s.
Proof.
  unfold do_handle, all_blocks. destruct (y_chan s) as [|c rest] eqn:Ec; [rewrite Ec; reflexivity|].
  cbn [y_store y_chan map]. rewrite <- app_assoc. reflexivity.
Qed.
Lemma world_handle s : y_world (do_handle s) = y_world s.
Proof. unfold do_handle. destruct (y_chan s); reflexivity. Qed.
Lemma all_blocks_handle_n n : forall s, all_blocks (do_handle_n n s) = all_blocks s /\ y_world (do_handle_n n s) = y_world s.
Proof.
  induction n as [|n IH]; intros s; cbn [do_handle_n]; [split; reflexivity|].
  destruct (IH (do_handle s)) as [E1 E2]. rewrite E1, E2, all_blocks_handle, world_handle. split; reflexivity.
Qed.

Lemma settled_step r s e : Settled (polls_of e + r) s -> ev_ok s e -> quiet_ev s e -> Settled r (step cfg s e).
Proof.
  intros [H HS] Hok Hq. split; [apply step_preserves; assumption|].
  destruct e as [w|err| | |ferr errat| | |ferr errat]; cbn [step]; unfold hash_canon, cur in *.
  - cbn [quiet_ev] in Hq. unfold cur in Hq. intros p Hp. cbn [set_world y_world]. rewrite Hq. apply HS. exact Hp.
  - intros p Hp. unfold do_poll, all_blocks in *. cbn [y_store y_chan y_world] in *. rewrite map_app, app_assoc in Hp.
    apply in_app_or in Hp as [Hp|Hp]; [apply HS, Hp|].
    apply in_map_iff in Hp as (c & <- & Hc). apply in_map_iff in Hc as (b & <- & _). reflexivity.
  - intros p Hp. rewrite all_blocks_handle in Hp. rewrite world_handle. apply HS, Hp.
  - intros p Hp. unfold do_handle_all in *. destruct (all_blocks_handle_n (length (y_chan s)) s) as [E1 E2].
    rewrite E1 in Hp. rewrite E2. apply HS, Hp.
  - intros p Hp. unfold do_tick in *.
    destruct (detect_tick (env_of (y_world s) ferr errat) (y_det s)) as [d' res]. cbn [fst snd] in *.
    destruct res as [|b|]; unfold all_blocks in *; cbn [set_det handle_reorg y_store y_chan y_world map] in *;
      try (apply HS, Hp).
    rewrite app_nil_r in Hp. apply store_reorg_in in Hp as [Hp _]. apply HS, in_or_app. left. exact Hp.
  - intros p Hp. unfold do_restart, all_blocks in *. cbn [y_store y_chan y_world map] in *. rewrite app_nil_r in Hp.
    apply HS, in_or_app. left. exact Hp.
  - intros p Hp. unfold do_crash_mid in *. destruct (y_chan s) as [|c rest];
      unfold do_restart, all_blocks in *; cbn [set_det y_store y_chan y_world map] in *; rewrite app_nil_r in Hp;
      apply HS, in_or_app; left; exact Hp.
  - intros p Hp. unfold do_crash_notify, do_restart, all_blocks in *. cbn [set_det y_store y_chan y_world map] in *.
    rewrite app_nil_r in Hp. apply HS, in_or_app. left. exact Hp.
Qed.

Fixpoint quiet_trace (s : sys) (es : list event) : Prop :=
  match es with [] => True | e :: t => quiet_ev s e /\ quiet_trace (step cfg s e) t end.

Lemma settled_run es : forall r s, Settled (polls es + r) s -> trace_ok s es -> quiet_trace s es -> Settled r (run cfg s es).
Proof.
  induction es as [|e es IH]; intros r s H Hok Hq; cbn [run fold_left polls] in *; [exact H|].
  destruct Hok as [He Hrest]. destruct Hq as [Hq Hqrest]. apply IH; [|exact Hrest|exact Hqrest].
  apply settled_step; [|exact He|exact Hq]. rewrite Nat.add_assoc. exact H.
Qed.

(* ---- a settled store is the reference store of the node's chain ---- *)
Definition refblk (v : version) (k : N) : list pblock :=
  match wev v k with [] => [] | e => [{| p_num := k; p_hash := v_hash v k; p_evs := e |}] end.

Lemma ref_store_flat v l : ref_store cfg v l = flat_map (refblk v) (range 1 l).
Proof. reflexivity. Qed.

Lemma flat_map_nil {A C} (f : A -> list C) l : (forall x, In x l -> f x = []) -> flat_map f l = [].
Proof.
  induction l as [|x l IH]; intros H; [reflexivity|]. cbn [flat_map]. rewrite (H x (or_introl eq_refl)).
  apply IH. intros y Hy. apply H. right. exact Hy.
Qed.

Lemma nrange_app a x : forall y, nrange a (x + y) = nrange a x ++ nrange (a + N.of_nat x) y.
Proof.
  revert a. induction x as [|x IH]; intros a y.
  - cbn [Nat.add nrange app]. rewrite N.add_0_r. reflexivity.
  - cbn [Nat.add nrange app]. rewrite IH. f_equal. f_equal. f_equal. lia.
Qed.

Lemma range_split lo n c : lo < n -> n <= c -> range (lo + 1) c = range (lo + 1) (n - 1) ++ n :: range (n + 1) c.
Proof.
  intros H1 H2. unfold range.
  replace (N.to_nat (c + 1 - (lo + 1))) with (N.to_nat (n - 1 + 1 - (lo + 1)) + S (N.to_nat (c + 1 - (n + 1))))%nat by lia.
  rewrite nrange_app. cbn [nrange]. f_equal.
  replace (lo + 1 + N.of_nat (N.to_nat (n - 1 + 1 - (lo + 1)))) with n by lia. reflexivity.
Qed.

Lemma wev_same_logs u v k : v_logs u k = v_logs v k -> wev u k = wev v k.
Proof. unfold watched_events. intros ->. reflexivity. Qed.

Lemma canon_seq_ref v l : U v -> forall lo, seq_ok lo l -> (forall p, In p l -> v_hash v (p_num p) = p_hash p) ->
  filter has_events l = flat_map (refblk v) (range (lo + 1) (last (map p_num l) lo)).
Proof.
  intros HU. induction l as [|p l IH]; intros lo Hseq Hcan.
  - cbn [map last filter]. rewrite range_nil by lia. reflexivity.
  - cbn [seq_ok] in Hseq. destruct Hseq as (Hlo & HB & (u & Hu & Hh & Hnz & Hev & Hgap) & Hrest).
    pose proof (Hcan p (or_introl eq_refl)) as Hc.
    assert (Hl : linked u v) by (apply Hlinked; assumption).
    assert (Hagree : forall m, m <= p_num p -> v_hash u m = v_hash v m /\ v_logs u m = v_logs v m).
    { apply Hl; [rewrite Hh; exact Hnz|congruence]. }
    assert (Hevv : p_evs p = wev v (p_num p)).
    { rewrite Hev. apply wev_same_logs. apply (Hagree (p_num p)). lia. }
    assert (Hgapv : forall k, lo < k < p_num p -> wev v k = []).
    { intros k Hk. rewrite <- (wev_same_logs u v k); [apply Hgap, Hk|]. apply (Hagree k). lia. }
    cbn [map]. rewrite last_cons.
    pose proof (seq_ok_last_bounds _ _ Hrest HB) as [Hlast _].
    rewrite (range_split lo (p_num p) _ Hlo Hlast). rewrite flat_map_app. cbn [flat_map].
    rewrite flat_map_nil.
    2:{ intros k Hk. apply range_in in Hk. unfold refblk. rewrite Hgapv by lia. reflexivity. }
    cbn [app]. rewrite <- (IH (p_num p) Hrest) by (intros q Hq; apply Hcan; right; exact Hq).
    cbn [filter]. unfold refblk, has_events. rewrite <- Hevv. destruct p as [n h evs]. cbn [p_num p_hash p_evs] in *.
    destruct evs as [|e0 et]; [reflexivity|]. cbn [app]. rewrite Hc. reflexivity.
Qed.

Lemma settled_ref_proof r s : Settled r s ->
  filter has_events (y_store s) = ref_store cfg (cur s) (lp (y_store s)) /\
  (forall p, In p (y_store s) -> hash_canon s p) /\
  StronglySorted N.lt (map p_num (y_store s)).
Proof.
  intros [H HS]. destruct (store_seq _ _ H) as [Hst _].
  assert (Hcan : forall p, In p (y_store s) -> hash_canon s p).
  { intros p Hp. apply HS. unfold all_blocks. apply in_or_app. left. exact Hp. }
  split; [|split; [exact Hcan|]].
  - rewrite ref_store_flat. apply (canon_seq_ref (cur s) (y_store s) (proj1 (i_world _ _ H)) 0 Hst Hcan).
  - clear Hcan HS. revert Hst. generalize 0. induction (y_store s) as [|p l IH]; intros lo Hs; [constructor|].
    cbn [seq_ok] in Hs. destruct Hs as (_ & _ & _ & Hrest). cbn [map]. constructor; [apply (IH _ Hrest)|].
    rewrite Forall_forall. intros k Hk. apply in_map_iff in Hk as (q & <- & Hq).
    apply (seq_ok_bounds _ _ Hrest q Hq).
Qed.

(* ---- after the last rewind the node is a C05 run on the final chain ---- *)
Lemma flat_map_ext_in {A C} (f g : A -> list C) l : (forall x, In x l -> f x = g x) -> flat_map f l = flat_map g l.
Proof.
  induction l as [|x l IH]; intros H; [reflexivity|]. cbn [flat_map]. rewrite (H x (or_introl eq_refl)).
  f_equal. apply IH. intros y Hy. apply H. right. exact Hy.
Qed.

Lemma get_events_node_logs w a b : b <= w_head w ->
  get_events_by_block_range cfg (node_logs w) a b = get_events_by_block_range cfg (v_logs (w_ver w)) a b.
Proof.
  intros Hb. rewrite !get_events_ref. unfold ref_blocks. apply flat_map_ext_in. intros k Hk. apply range_in in Hk.
  unfold ref_block. rewrite watched_node_logs. assert (E : (k <=? w_head w) = true) by (apply N.leb_le; lia).
  rewrite E. reflexivity.
Qed.

Lemma dl_body0_node_logs w from to lb fin : lb <= w_head w ->
  dl_body0 cfg (node_logs w) from to lb fin = dl_body0 cfg (v_logs (w_ver w)) from to lb fin.
Proof.
  intros Hl. unfold dl_body0. rewrite get_events_node_logs; [reflexivity|]. destruct (N.leb_spec lb to); lia.
Qed.

Lemma dl_step_node_logs w d t : s_calls d = [] -> (s_phase d = PFin -> s_last d <= w_head w) ->
  dl_step cfg (node_logs w) d t = dl_step cfg (v_logs (w_ver w)) d t.
Proof.
  intros Hc Hl. unfold dl_step. rewrite Hc. destruct (s_phase d); try reflexivity. destruct (t_err t); [reflexivity|].
  specialize (Hl eq_refl). rewrite !dl_body_nil. rewrite dl_body0_node_logs by exact Hl. reflexivity.
Qed.

Lemma dl_step_last ch d t : s_calls d = [] ->
  s_last (fst (dl_step cfg ch d t)) = s_last d \/ s_last (fst (dl_step cfg ch d t)) = t_tip t.
Proof.
  intros Hc. unfold dl_step. rewrite Hc. destruct (s_phase d).
  - destruct (t_err t || negb (0 <? t_tip t)); cbn [fst]; [left; reflexivity|right; apply loop_top_last].
  - destruct (t_err t || negb (s_last d <? t_tip t)); cbn [fst s_last]; [left; reflexivity|right; reflexivity].
  - destruct (t_err t); cbn [fst]; [left; apply loop_top_last|]. left. rewrite dl_body_nil. cbn [fst]. apply loop_top_last.
Qed.

Definition pbv (v : version) (b : dblock) : pblock := {| p_num := b_num b; p_hash := v_hash v (b_num b); p_evs := b_events b |}.

(* events of the phase after the last rewind: no stop, the version stays, the head does not go back *)
Definition calm_ev (s : sys) (e : event) : Prop :=
  match e with
  | EWorld w => w_ver w = cur s /\ w_head (y_world s) <= w_head w
  | ERestart | ECrashMid | ECrashNotify _ _ => False
  | _ => True
  end.
Fixpoint calm_trace (s : sys) (es : list event) : Prop :=
  match es with [] => True | e :: t => calm_ev s e /\ calm_trace (step cfg s e) t end.
Fixpoint ticks_of (s : sys) (es : list event) : list tick :=
  match es with
  | [] => []
  | e :: t => (match e with EPoll err => [poll_tick (y_world s) err] | _ => [] end) ++ ticks_of (step cfg s e) t
  end.

Lemma calm_quiet s e : calm_ev s e -> quiet_ev s e.
Proof. destruct e; cbn; tauto. Qed.

Lemma dl_step_last_le ch d t H : s_calls d = [] -> (s_phase d <> PInit -> s_last d <= H) -> t_tip t <= H ->
  s_phase (fst (dl_step cfg ch d t)) <> PInit -> s_last (fst (dl_step cfg ch d t)) <= H.
Proof.
  intros Hc Hl Ht Hp. destruct (dl_step_last ch d t Hc) as [E|E]; [|rewrite E; exact Ht].
  destruct (s_phase d) eqn:Ep; [|rewrite E; apply Hl; congruence|rewrite E; apply Hl; congruence].
  unfold dl_step in *. rewrite Ep in *. destruct (t_err t || negb (0 <? t_tip t)); cbn [fst] in *; [congruence|].
  rewrite loop_top_last in *. lia.
Qed.

Lemma handle_same s : y_dl (do_handle s) = y_dl s /\ y_rewinds (do_handle s) = y_rewinds s.
Proof. unfold do_handle. destruct (y_chan s); split; reflexivity. Qed.
Lemma handle_n_same n : forall s, y_dl (do_handle_n n s) = y_dl s /\ y_rewinds (do_handle_n n s) = y_rewinds s.
Proof.
  induction n as [|n IH]; intros s; cbn [do_handle_n]; [split; reflexivity|].
  destruct (IH (do_handle s)) as [E1 E2]. destruct (handle_same s) as [E3 E4]. rewrite E1, E2, E3, E4. split; reflexivity.
Qed.

Lemma calm_run_gen V d0 st0 es : forall r s acc,
  Settled (polls es + r) s -> Tight s -> cur s = V ->
  (s_phase (y_dl s) <> PInit -> s_last (y_dl s) <= w_head (y_world s)) ->
  y_dl s = fst (dl_run cfg (v_logs V) d0 acc) ->
  all_blocks s = st0 ++ map (pbv V) (snd (dl_run cfg (v_logs V) d0 acc)) ->
  trace_ok s es -> calm_trace s es ->
  y_dl (run cfg s es) = fst (dl_run cfg (v_logs V) d0 (acc ++ ticks_of s es)) /\
  all_blocks (run cfg s es) = st0 ++ map (pbv V) (snd (dl_run cfg (v_logs V) d0 (acc ++ ticks_of s es))) /\
  y_rewinds (run cfg s es) = y_rewinds s /\ Settled r (run cfg s es) /\ Tight (run cfg s es) /\ cur (run cfg s es) = V.
Proof.
  induction es as [|e es IH]; intros r s acc HS HT HV Hlast Hdl Hall Hok Hcalm; cbn [run fold_left ticks_of polls] in *.
  - rewrite app_nil_r. split; [exact Hdl|]. split; [exact Hall|]. split; [reflexivity|]. split; [exact HS|]. split; [exact HT|exact HV].
  - destruct Hok as [He Hrest]. destruct Hcalm as [Hc Hcrest].
    assert (HS1 : Settled (polls es + r) (step cfg s e)).
    { apply settled_step; [rewrite Nat.add_assoc; exact HS|exact He|apply calm_quiet, Hc]. }
    assert (HSI : SInv (polls_of e + (polls es + r)) s) by (rewrite Nat.add_assoc; apply HS).
    assert (HT1 : Tight (step cfg s e)).
    { apply (tight_step (polls es + r)); [exact HSI|exact HT|]. destruct e; cbn in Hc; try discriminate; tauto. }
    rewrite app_assoc.
    assert (Hstore_can : forall p, In p (y_store s) -> hash_canon s p).
    { intros p Hp. apply HS. unfold all_blocks. apply in_or_app. left. exact Hp. }
    fold (run cfg (step cfg s e) es).
    destruct e as [w|err| | |ferr errat| | |ferr errat]; cbn [step] in *.
    + (* world: same version, head not lower *)
      destruct Hc as [Hv Hh]. rewrite app_nil_r.
      assert (G1 : cur (set_world s w) = V) by (unfold cur in *; cbn [set_world y_world]; congruence).
      assert (G2 : s_phase (y_dl (set_world s w)) <> PInit -> s_last (y_dl (set_world s w)) <= w_head (y_world (set_world s w))).
      { cbn [set_world y_dl y_world]. intros Hp. specialize (Hlast Hp). lia. }
      destruct (IH r (set_world s w) acc HS1 HT1 G1 G2 Hdl Hall Hrest Hcrest) as (R1 & R2 & R3 & R4).
      split; [exact R1|]. split; [exact R2|]. split; [exact R3|exact R4].
    + (* poll *)
      assert (HVw : w_ver (y_world s) = V) by exact HV.
      set (t := poll_tick (y_world s) err) in *.
      assert (Hstep : dl_step cfg (node_logs (y_world s)) (y_dl s) t = dl_step cfg (v_logs V) (y_dl s) t).
      { rewrite <- HVw. apply dl_step_node_logs; [apply (i_arith _ _ HSI)|]. intros Hp. apply Hlast. congruence. }
      assert (Hrun : dl_run cfg (v_logs V) d0 (acc ++ [t]) =
                     (fst (dl_step cfg (v_logs V) (y_dl s) t),
                      snd (dl_run cfg (v_logs V) d0 acc) ++ snd (dl_step cfg (v_logs V) (y_dl s) t))).
      { rewrite dl_run_app. rewrite <- Hdl. cbn [dl_run]. destruct (dl_step cfg (v_logs V) (y_dl s) t) as [s1 o1].
        cbn [fst snd]. rewrite app_nil_r. reflexivity. }
      assert (G1 : cur (do_poll cfg s err) = V) by exact HV.
      assert (G2 : s_phase (y_dl (do_poll cfg s err)) <> PInit ->
                   s_last (y_dl (do_poll cfg s err)) <= w_head (y_world (do_poll cfg s err))).
      { unfold do_poll. cbn [y_dl y_world]. apply dl_step_last_le; [apply (i_arith _ _ HSI)|exact Hlast|].
        unfold t. cbn [poll_tick t_tip]. lia. }
      assert (G3 : y_dl (do_poll cfg s err) = fst (dl_run cfg (v_logs V) d0 (acc ++ [t]))).
      { unfold do_poll. cbn [y_dl]. fold t. rewrite Hstep, Hrun. reflexivity. }
      assert (G4 : all_blocks (do_poll cfg s err) = st0 ++ map (pbv V) (snd (dl_run cfg (v_logs V) d0 (acc ++ [t])))).
      { unfold do_poll, all_blocks in *. cbn [y_store y_chan]. fold t. rewrite Hstep, Hrun. cbn [snd].
        rewrite map_app, app_assoc, Hall, map_app, <- app_assoc. f_equal. f_equal.
        rewrite !map_map. apply map_ext. intros b. unfold pb_of, cb_of, pbv. cbn. rewrite HVw. reflexivity. }
      destruct (IH r (do_poll cfg s err) (acc ++ [t]) HS1 HT1 G1 G2 G3 G4 Hrest Hcrest) as (R1 & R2 & R3 & R4).
      split; [exact R1|]. split; [exact R2|]. split; [exact R3|exact R4].
    + (* handle *)
      rewrite app_nil_r. destruct (handle_same s) as [E1 E2].
      assert (G1 : cur (do_handle s) = V) by (unfold cur; rewrite world_handle; exact HV).
      assert (G2 : s_phase (y_dl (do_handle s)) <> PInit -> s_last (y_dl (do_handle s)) <= w_head (y_world (do_handle s)))
        by (rewrite E1, world_handle; exact Hlast).
      assert (G3 : y_dl (do_handle s) = fst (dl_run cfg (v_logs V) d0 acc)) by (rewrite E1; exact Hdl).
      assert (G4 : all_blocks (do_handle s) = st0 ++ map (pbv V) (snd (dl_run cfg (v_logs V) d0 acc)))
        by (rewrite all_blocks_handle; exact Hall).
      destruct (IH r (do_handle s) acc HS1 HT1 G1 G2 G3 G4 Hrest Hcrest) as (R1 & R2 & R3 & R4).
      split; [exact R1|]. split; [exact R2|]. split; [congruence|exact R4].
    + (* handle all *)
      rewrite app_nil_r. unfold do_handle_all in *.
      destruct (handle_n_same (length (y_chan s)) s) as [E1 E2].
      destruct (all_blocks_handle_n (length (y_chan s)) s) as [E3 E4].
      set (s1 := do_handle_n (length (y_chan s)) s) in *.
      assert (G1 : cur s1 = V) by (unfold cur; rewrite E4; exact HV).
      assert (G2 : s_phase (y_dl s1) <> PInit -> s_last (y_dl s1) <= w_head (y_world s1)) by (rewrite E1, E4; exact Hlast).
      assert (G3 : y_dl s1 = fst (dl_run cfg (v_logs V) d0 acc)) by (rewrite E1; exact Hdl).
      assert (G4 : all_blocks s1 = st0 ++ map (pbv V) (snd (dl_run cfg (v_logs V) d0 acc))) by (rewrite E3; exact Hall).
      destruct (IH r s1 acc HS1 HT1 G1 G2 G3 G4 Hrest Hcrest) as (R1 & R2 & R3 & R4).
      split; [exact R1|]. split; [exact R2|]. split; [congruence|exact R4].
    + (* tick: nothing processed was replaced, so nothing is dropped *)
      rewrite app_nil_r.
      destruct (no_false_rewind_sys_proof _ s ferr errat HSI HT Hstore_can) as (E1 & E2 & E3 & E4 & E5).
      set (s1 := do_tick s ferr errat) in *.
      assert (G1 : cur s1 = V) by (unfold cur; rewrite E5; exact HV).
      assert (G2 : s_phase (y_dl s1) <> PInit -> s_last (y_dl s1) <= w_head (y_world s1)) by (rewrite E3, E5; exact Hlast).
      assert (G3 : y_dl s1 = fst (dl_run cfg (v_logs V) d0 acc)) by (rewrite E3; exact Hdl).
      assert (G4 : all_blocks s1 = st0 ++ map (pbv V) (snd (dl_run cfg (v_logs V) d0 acc)))
        by (unfold all_blocks in *; rewrite E1, E4; exact Hall).
      destruct (IH r s1 acc HS1 HT1 G1 G2 G3 G4 Hrest Hcrest) as (R1 & R2 & R3 & R4).
      split; [exact R1|]. split; [exact R2|]. split; [congruence|exact R4].
    + destruct Hc.
    + destruct Hc.
    + destruct Hc.
Qed.

(* the statement for a download that has just been (re)started *)
Lemma calm_run_proof r s es :
  Settled (polls es + r) s -> Tight s ->
  y_dl s = dl_init (sync_from (lp (y_store s))) [] -> y_chan s = [] ->
  trace_ok s es -> calm_trace s es ->
  let V := cur s in
  let out := dl_run cfg (v_logs V) (dl_init (sync_from (lp (y_store s))) []) (ticks_of s es) in
  y_dl (run cfg s es) = fst out /\
  all_blocks (run cfg s es) = y_store s ++ map (pbv V) (snd out) /\
  y_rewinds (run cfg s es) = y_rewinds s /\ Settled r (run cfg s es).
Proof.
  intros HS HT Hdl Hch Hok Hcalm V out.
  destruct (calm_run_gen V (dl_init (sync_from (lp (y_store s))) []) (y_store s) es r s [] HS HT eq_refl) as (R1 & R2 & R3 & R4 & _);
    try assumption.
  - rewrite Hdl. cbn [dl_init s_phase]. congruence.
  - unfold all_blocks. rewrite Hch. reflexivity.
  - cbn [app] in R1, R2. split; [exact R1|]. split; [exact R2|]. split; [exact R3|exact R4].
Qed.

(* ---- the statements in the form Properties/C06.v exports ---- *)
Lemma reachable_SInv es r w :
  U (w_ver w) -> w_fin w <= w_head w -> w_head w <= B -> (forall n, n <= w_head w -> v_hash (w_ver w) n <> 0) ->
  B + 1 + (N.of_nat (polls es + r) + 1) * c_chunk cfg <= LIM ->
  trace_ok (sys_init w) es -> SInv r (run cfg (sys_init w) es).
Proof. intros HU Hf HB Hnz Hbud Hok. apply run_preserves; [apply SInv_init; assumption|exact Hok]. Qed.

Lemma covers_canonical r s : SInv r s -> forall p, In p (y_store s) ->
  In (p_num p, p_hash p) (t_mem (y_det s)) \/ (p_num p <= y_final s /\ canonical (y_world s) p).
Proof.
  intros H p Hp. destruct (i_covers _ _ H p Hp) as [Ht|[Hf Hh]]; [left; exact Ht|right].
  split; [exact Hf|]. apply final_is_canonical; [apply (i_world _ _ H)|assumption|assumption].
Qed.

Lemma no_false_rewind_sys_canonical r s ferr errat :
  SInv r s -> Tight s -> (forall p, In p (y_store s) -> canonical (y_world s) p) ->
  y_store (do_tick s ferr errat) = y_store s /\ y_rewinds (do_tick s ferr errat) = y_rewinds s /\
  y_dl (do_tick s ferr errat) = y_dl s /\ y_chan (do_tick s ferr errat) = y_chan s.
Proof.
  intros H HT Hc. destruct (no_false_rewind_sys_proof r s ferr errat H HT) as (E1 & E2 & E3 & E4 & _).
  - intros p Hp. apply canonical_hash_canon, Hc, Hp.
  - repeat split; assumption.
Qed.

Lemma restart_proof r s : SInv r s ->
  SInv r (do_restart s) /\ y_det (do_restart s) = y_det s /\ y_store (do_restart s) = y_store s /\
  (Tight s -> Tight (do_restart s)).
Proof.
  intros H. split; [apply step_restart, H|]. unfold do_restart. cbn [y_det y_store].
  destruct (det_ok_reload _ (i_det _ _ H)) as [_ He]. rewrite He. repeat split. intros HT. exact HT.
Qed.

Lemma converge_proof r s ferr errat es :
  SInv (polls es + r) s -> CanonChan s ->
  snd (detect_tick (env_of (y_world s) ferr errat) (y_det s)) <> TErr ->
  let s1 := do_tick s ferr errat in
  trace_ok s1 es -> quiet_trace s1 es ->
  let s2 := run cfg s1 es in
  filter has_events (y_store s2) = ref_store cfg (cur s2) (lp (y_store s2)) /\
  (forall p, In p (y_store s2) -> hash_canon s2 p) /\
  StronglySorted N.lt (map p_num (y_store s2)).
Proof.
  intros H HC Hne s1 Hok Hq s2. apply (settled_ref_proof r). apply settled_run; [|exact Hok|exact Hq].
  apply settle_proof; assumption.
Qed.

Lemma converge_progress_proof r s es pre post k B0 :
  Settled (polls es + r) s -> Tight s ->
  y_dl s = dl_init (sync_from (lp (y_store s))) [] -> y_chan s = [] ->
  trace_ok s es -> calm_trace s es ->
  ticks_of s es = pre ++ post ->
  let from0 := sync_from (lp (y_store s)) in
  let ch := v_logs (cur s) in
  B0 + 1 + (N.of_nat (length (pre ++ post)) + 1) * c_chunk cfg < M64 ->
  tips_ok B0 from0 (pre ++ post) ->
  rising k (s_last (fst (dl_run cfg ch (dl_init from0 []) pre))) post ->
  2 * (k + 1 - s_from (fst (dl_run cfg ch (dl_init from0 []) pre))) + 3 <= N.of_nat (length post) ->
  k <= lp (all_blocks (run cfg s es)) /\ y_rewinds (run cfg s es) = y_rewinds s.
Proof.
  intros HS HT Hdl Hch Hok Hcalm Hticks from0 ch Hlim Htips Hrise Hlen.
  destruct (calm_run_proof r s es HS HT Hdl Hch Hok Hcalm) as (R1 & _ & R3 & R4). cbv zeta in R1.
  rewrite Hticks in R1. fold from0 in R1. fold ch in R1.
  assert (Hcok : calls_ok []) by (split; [intros []|cbn [mismatches max_retry_hash_mismatch]; apply Nat.le_0_l]).
  pose proof (download_progress_proof cfg ch from0 B0 [] pre post k Hchunk Hcok Hlim Htips Hrise Hlen) as Hp.
  rewrite <- R1 in Hp. rewrite (i_cursor _ _ (proj1 R4)) in Hp. split; [lia|exact R3].
Qed.
End Sys.
