(* Theorems about the executable l1infotreesync model (Model/L1InfoStore.v), for ALL histories of blocks (with any storage
   fault), reorgs and restarts:
   - a failed ProcessBlock leaves the database untouched (C07 part), halted is sticky, reorg algebra (C04 part);
   - L1 info leaves are stored in (block, position) order with consecutive indices 0..n-1, each with the contract's leaf
     layout, global exit roots pairwise distinct; lookups by index and by GER are total;
   - the V2 announcement check: passes exactly when root and count agree with the last recorded root, otherwise halts;
   - the rollup exit tree: every accepted update records the reference sparse Merkle root of the updated leaf map, the node
     store stays closed for every version, the leaf map is "last non-zero exit root verified per rollup"
     (built on Proofs/SparseUpsert.v, instantiated at Keccak under the injectivity hypothesis). *)
From Coq Require Import NArith ZArith List Bool Lia Sorted Arith PeanoNat.
From Verif Require Import Base.Bytes Base.FastBytes Base.Hash Model.Merkle Model.MerkleSpec Model.TreeStore Model.Contracts
  Model.L1InfoStore Proofs.Frontier Proofs.Rht Proofs.SparseUpsert Proofs.BitFacts.
Import ListNotations.
Open Scope N_scope.

(* ====================================================================================================
   1. Transactions, halting, reorg algebra
   ==================================================================================================== *)

(* whichever storage statement fails (any table, any position, commit included), the database is exactly as before *)
Theorem process_block_error_keeps_db f st k e st' :
  process_block f st k = (Some e, st') -> st_db st' = st_db st.
Proof.
  unfold process_block. intros H.
  destruct (st_halted st); [inversion H; reflexivity|].
  destruct (big64 (k_num k)); [inversion H; reflexivity|].
  destruct (hits f _ TBlock); [inversion H; reflexivity|].
  destruct (existsb _ _); [inversion H; reflexivity|].
  destruct (process_events _ _ _ _ _) as [err mem added halt|x].
  - inversion H; reflexivity.
  - destruct (hits f (x_cnt x) TCommit); inversion H; reflexivity.
Qed.

(* success means the whole transaction was applied and the processor is not halted *)
Theorem process_block_ok_not_halted f st k st' : process_block f st k = (None, st') -> st_halted st' = false.
Proof.
  unfold process_block. intros H.
  destruct (st_halted st); [discriminate|].
  destruct (big64 (k_num k)); [discriminate|].
  destruct (hits f _ TBlock); [discriminate|].
  destruct (existsb _ _); [discriminate|].
  destruct (process_events _ _ _ _ _) as [err mem added halt|x]; [discriminate|].
  destruct (hits f (x_cnt x) TCommit); [discriminate|]. inversion H; reflexivity.
Qed.

(* a halted processor refuses every block and does not change *)
Theorem halted_is_sticky f st k : st_halted st = true -> process_block f st k = (Some PInconsistent, st).
Proof. intros H. unfold process_block. rewrite H. reflexivity. Qed.

(* rollback callbacks: any rollback after at least one appended leaf invalidates the in-memory tree *)
Theorem rollback_invalidates mem n : (0 < n)%nat -> m_last (rollback_mem mem n) = (-2)%Z.
Proof. destruct n; [lia|reflexivity]. Qed.

(* --- the UpdateL1InfoTreeV2 sanity check --- *)
(* it compares BOTH the root hash and (index + 1, on uint32) of the last recorded root with the announcement *)
Theorem v2_event_passes_iff f blk init x v r :
  last_root (d_l1 (x_db x)) = Some r ->
  (process_event f blk init x (EV2 v) = EvOk x <-> (r_hash r = v_root v /\ u32 (r_pos r + 1) = v_count v)).
Proof.
  intros Hr. cbn [process_event]. rewrite Hr. split.
  - destruct (r_hash r =? v_root v) eqn:E1; destruct (u32 (r_pos r + 1) =? v_count v) eqn:E2; cbn; try discriminate.
    intros _. split; apply N.eqb_eq; assumption.
  - intros [H1 H2]. rewrite (proj2 (N.eqb_eq _ _) H1), (proj2 (N.eqb_eq _ _) H2). reflexivity.
Qed.
Theorem v2_event_mismatch_halts f blk init x v r :
  last_root (d_l1 (x_db x)) = Some r -> (r_hash r <> v_root v \/ u32 (r_pos r + 1) <> v_count v) ->
  process_event f blk init x (EV2 v) = EvFail PInconsistent (x_mem x) (x_added x) true.
Proof.
  intros Hr Hne. cbn [process_event]. rewrite Hr.
  destruct (r_hash r =? v_root v) eqn:E1; destruct (u32 (r_pos r + 1) =? v_count v) eqn:E2; cbn; try reflexivity.
  apply N.eqb_eq in E1, E2. destruct Hne; contradiction.
Qed.
(* an event failure with the halt flag halts the processor, rolls the database back, and every later block is refused *)
Theorem halting_failure_halts f st k err mem added :
  st_halted st = false -> big64 (k_num k) = false -> hits f (fun _ => O) TBlock = false ->
  existsb (fun b => fst b =? k_num k) (d_blocks (st_db st)) = false ->
  (let d := st_db st in
   let d1 := mkLdb (d_blocks d ++ [(k_num k, k_hash k)]) (d_leaves d) (d_vb d) (d_init d) (d_l1 d) (d_rollup d) in
   process_events f (k_num k) (match last_leaf d1 with None => 0 | Some l => l_idx l + 1 end)
                  (mkTx d1 (st_mem st) (bump (fun _ => O) TBlock) O) (k_events k) = EvFail err mem added true) ->
  let '(r, st') := process_block f st k in
  r = Some err /\ st_halted st' = true /\ st_db st' = st_db st /\
  forall f' k', process_block f' st' k' = (Some PInconsistent, st').
Proof.
  intros Hh Hb Hf He Hev. unfold process_block. rewrite Hh, Hb, Hf, He. cbv zeta in Hev. rewrite Hev.
  split; [reflexivity|]. split; [reflexivity|]. split; [reflexivity|].
  intros f' k'. apply halted_is_sticky. reflexivity.
Qed.

(* --- reorg algebra on the database part (C04) --- *)
Lemma filter_filter {A} (p q : A -> bool) l : filter p (filter q l) = filter (fun x => p x && q x) l.
Proof. induction l as [|x l IH]; [reflexivity|]. cbn [filter]. destruct (q x) eqn:Q; cbn [filter]; rewrite ?Q, ?andb_true_r, ?andb_false_r, IH; reflexivity. Qed.
Lemma filter_ext' {A} (p q : A -> bool) l : (forall x, p x = q x) -> filter p l = filter q l.
Proof. intros H. induction l as [|x l IH]; [reflexivity|]. cbn [filter]. rewrite H, IH. reflexivity. Qed.
Lemma ltb_min x b b' : (x <? b) && (x <? b') = (x <? N.min b b').
Proof. destruct (N.ltb_spec x b), (N.ltb_spec x b'), (N.ltb_spec x (N.min b b')); try reflexivity; lia. Qed.

Definition db_eq (a b : ldb) : Prop :=
  d_blocks a = d_blocks b /\ d_leaves a = d_leaves b /\ d_vb a = d_vb b /\ d_init a = d_init b /\
  t_roots (d_l1 a) = t_roots (d_l1 b) /\ t_roots (d_rollup a) = t_roots (d_rollup b).

(* nested / repeated reorgs collapse to the lower reorg point, on every table and on the recorded roots of both trees *)
Theorem reorg_reorg_db st b b' : db_eq (st_db (reorg (reorg st b') b)) (st_db (reorg st (N.min b b'))).
Proof.
  unfold reorg, db_eq, tree_reorg. cbn [st_db d_blocks d_leaves d_vb d_init d_l1 d_rollup t_roots].
  rewrite !filter_filter. repeat split; try (apply filter_ext'; intros x; apply ltb_min).
  destruct (d_init (st_db st)) as [[[blk c] r]|]; [|reflexivity].
  pose proof (ltb_min blk b b') as E. destruct (blk <? b'); cbn in *; [destruct (blk <? b); cbn in *; rewrite <- E; reflexivity|].
  rewrite andb_false_r in E. rewrite <- E. reflexivity.
Qed.
(* the in-memory tree is invalidated and the processor un-halts exactly when block rows were deleted *)
Theorem reorg_mem_and_halt st b :
  m_last (st_mem (reorg st b)) = (-2)%Z /\
  st_halted (reorg st b) = st_halted st && Nat.eqb (length (filter (fun r => negb (fst r <? b)) (d_blocks (st_db st)))) 0.
Proof. split; reflexivity. Qed.

(* ====================================================================================================
   2. L1 info leaves: consecutive indices in chain order, contract leaf layout, total lookups
   ==================================================================================================== *)

(* each leaf the node builds is the GlobalExitRoot contract's leaf: ger = keccak(mainnet, rollup), hash = getLeafValue(ger, parent hash, timestamp) *)
Lemma leaf_hash_is_contract_leaf ger parent ts : leaf_hash ger parent ts = l1info_leaf_value ger parent ts.
Proof. unfold leaf_hash, l1info_leaf_value. reflexivity. Qed.
Lemma ger_hash_is_contract_ger mer rer : ger_hash mer rer = ger_of mer rer.
Proof. unfold ger_hash, ger_of. reflexivity. Qed.
(* from here on the hashes are black boxes (conversion must never try to run Keccak on symbolic input) *)
Opaque ger_hash leaf_hash nodeN keccakN ger_of l1info_leaf_value.

Definition klt (a b : N * N) : Prop := key_lt a b = true.
Lemma key_lt_spec a b : klt a b <-> (fst a < fst b \/ (fst a = fst b /\ snd a < snd b)).
Proof.
  unfold klt, key_lt. rewrite orb_true_iff, andb_true_iff, !N.ltb_lt, N.eqb_eq. reflexivity.
Qed.
Lemma klt_trans a b c : klt a b -> klt b c -> klt a c.
Proof. rewrite !key_lt_spec. lia. Qed.

(* ORDER BY key DESC LIMIT 1 over a table stored in strictly increasing key order is its last row *)
Definition olast {A} (l : list A) : option A := match l with [] => None | x :: t => Some (last t x) end.
Lemma last_default {A} (l : list A) a b : l <> [] -> last l a = last l b.
Proof. induction l as [|x t IH]; [congruence|]. intros _. cbn [last]. destruct t; [reflexivity|]. apply IH. discriminate. Qed.
Lemma max_by_acc {A} (key : A -> N * N) : forall l a,
  (forall x, In x l -> klt (key a) (key x)) -> StronglySorted (fun a b => klt (key a) (key b)) l ->
  fold_left (fun acc x => match acc with None => Some x | Some a => if key_lt (key a) (key x) then Some x else Some a end) l (Some a)
  = Some (last l a).
Proof.
  induction l as [|x t IH]; intros a Hlt Hs; cbn [fold_left last]; [reflexivity|].
  rewrite (Hlt x (or_introl eq_refl)). inversion Hs as [|? ? Hs' Hx]; subst.
  rewrite IH; [|intros y Hy; rewrite Forall_forall in Hx; apply Hx; exact Hy|exact Hs'].
  destruct t; [reflexivity|]. f_equal. apply last_default. discriminate.
Qed.
Lemma max_by_sorted {A} (key : A -> N * N) l :
  StronglySorted (fun a b => klt (key a) (key b)) l -> max_by key l = olast l.
Proof.
  intros Hs. destruct l as [|x t]; [reflexivity|]. unfold max_by. cbn [fold_left olast].
  inversion Hs as [|? ? Hs' Hx]; subst. apply max_by_acc; [|exact Hs']. rewrite Forall_forall in Hx. exact Hx.
Qed.
Lemma nth_error_last {A} : forall (t : list A) y, nth_error (y :: t) (length t) = Some (last t y).
Proof.
  induction t as [|z t IH]; intros y; [reflexivity|]. cbn [length nth_error]. rewrite IH. cbn [last].
  destruct t; [reflexivity|]. f_equal. apply last_default. discriminate.
Qed.
Lemma olast_nth {A} (l : list A) x : olast l = Some x -> nth_error l (length l - 1) = Some x.
Proof.
  destruct l as [|y t]; [discriminate|]. cbn [olast]. intros H. inversion H; subst. clear H.
  cbn [length]. replace (S (length t) - 1)%nat with (length t) by lia. apply nth_error_last.
Qed.
Lemma olast_app {A} (l : list A) x : olast (l ++ [x]) = Some x.
Proof. destruct l as [|y t]; [reflexivity|]. cbn [app olast]. rewrite last_last. reflexivity. Qed.

(* filters *)
Lemma StronglySorted_filter {A} (R : A -> A -> Prop) p l : StronglySorted R l -> StronglySorted R (filter p l).
Proof.
  induction 1 as [|x l Hs IH Hx]; cbn [filter]; [constructor|].
  destruct (p x); [|exact IH]. constructor; [exact IH|].
  rewrite Forall_forall in *. intros y Hy. apply filter_In in Hy. apply Hx, Hy.
Qed.
(* a downward-closed predicate keeps a prefix of a sorted table *)
Lemma filter_prefix_nth {A} (R : A -> A -> Prop) p l :
  StronglySorted R l -> (forall a b, R a b -> p b = true -> p a = true) ->
  forall k x, nth_error (filter p l) k = Some x -> nth_error l k = Some x.
Proof.
  induction 1 as [|y l Hs IH Hy]; intros Hmono k x; cbn [filter]; [destruct k; discriminate|].
  destruct (p y) eqn:Py.
  - destruct k; cbn [nth_error]; [auto|]. apply IH. exact Hmono.
  - assert (E : filter p l = []).
    { clear IH. induction l as [|z l IHl]; [reflexivity|]. cbn [filter].
      inversion Hy as [|? ? Hz Hy']; subst. inversion Hs as [|? ? Hs' Hz']; subst.
      destruct (p z) eqn:Pz; [rewrite (Hmono _ _ Hz Pz) in Py; discriminate|]. apply IHl; assumption. }
    rewrite E. destruct k; discriminate.
Qed.
Lemma NoDup_map_filter {A B} (f : A -> B) p l : NoDup (map f l) -> NoDup (map f (filter p l)).
Proof.
  induction l as [|x l IH]; cbn [map filter]; [auto|]. intros H. inversion H as [|? ? Hn Hd]; subst.
  destruct (p x); [|apply IH; exact Hd]. cbn [map]. constructor; [|apply IH; exact Hd].
  intros Hin. apply Hn. apply in_map_iff in Hin as (y & Ey & Hy). apply filter_In in Hy. apply in_map_iff. exists y. tauto.
Qed.

(* the store invariant of the l1info_leaf table *)
Record LInv (d : ldb) : Prop := {
  li_sorted : StronglySorted (fun a b => klt (leaf_key a) (leaf_key b)) (d_leaves d);
  li_idx : forall k l, nth_error (d_leaves d) k = Some l -> l_idx l = N.of_nat k;
  li_blocks : forall l, In l (d_leaves d) -> In (l_block l) (map fst (d_blocks d));
  li_gers : NoDup (map l_ger (d_leaves d));
  li_hash : forall l, In l (d_leaves d) ->
            l_ger l = ger_hash (l_mer l) (l_rer l) /\ l_hash l = leaf_hash (l_ger l) (l_parent l) (l_ts l) }.

Lemma LInv_empty : LInv ldb_empty.
Proof.
  constructor; unfold ldb_empty; cbn [d_leaves d_blocks map].
  - constructor.
  - intros [|k] l H; discriminate.
  - intros l [].
  - constructor.
  - intros l [].
Qed.

Definition upd_pos (e : event) : list N := match e with EUpdate u => [u_pos u] | _ => [] end.
Definition idxrel (init : N) (x : txc) : Prop := init + N.of_nat (x_added x) = N.of_nat (length (d_leaves (x_db x))).

Lemma existsb_false {A} (p : A -> bool) l : existsb p l = false -> forall x, In x l -> p x = false.
Proof.
  intros H x Hx. destruct (p x) eqn:E; [|reflexivity].
  assert (existsb p l = true) by (apply existsb_exists; exists x; split; assumption). congruence.
Qed.

(* what one event does to the tables *)
Lemma process_event_tables f blk init x e x' : process_event f blk init x e = EvOk x' ->
  d_blocks (x_db x') = d_blocks (x_db x) /\
  match e with
  | EUpdate u =>
      let ger := ger_hash (u_mer u) (u_rer u) in
      let row := mkLeaf blk (u_pos u) (init + N.of_nat (x_added x)) (u_parent u) (u_ts u) (u_mer u) (u_rer u) ger (leaf_hash ger (u_parent u) (u_ts u)) in
      d_leaves (x_db x') = d_leaves (x_db x) ++ [row] /\ x_added x' = S (x_added x) /\
      existsb (fun r => ((l_block r =? blk) && (l_bpos r =? u_pos u)) || (l_ger r =? ger)) (d_leaves (x_db x)) = false /\
      d_vb (x_db x') = d_vb (x_db x) /\ d_rollup (x_db x') = d_rollup (x_db x)
  | _ => d_leaves (x_db x') = d_leaves (x_db x) /\ x_added x' = x_added x /\ d_l1 (x_db x') = d_l1 (x_db x) /\ x_mem x' = x_mem x
  end.
Proof.
  destruct e as [u|v|b|count root]; cbn [process_event]; intros H.
  - destruct (big64 (u_pos u) || big64 (u_ts u)); [discriminate|].
    destruct (hits f (x_cnt x) TLeaf); [discriminate|].
    destruct (existsb _ (d_leaves (x_db x))) eqn:Ex; [discriminate|].
    destruct (tree_add_f _ _ _ _ _ _ _ _) as [mem' [err|[t' c2]]]; [discriminate|].
    inversion H; subst. cbn [x_db d_blocks d_leaves d_vb d_rollup d_l1 x_added x_mem set_leaves set_vb]. repeat split; reflexivity.
  - destruct (last_root _) as [r|]; [|discriminate].
    destruct (_ || _); [discriminate|]. inversion H; subst. repeat split; reflexivity.
  - destruct (vb_exit b =? 0); [inversion H; subst; repeat split; reflexivity|].
    destruct (negb _); [inversion H; subst; repeat split; reflexivity|].
    destruct (big64 (vb_pos b)); [discriminate|].
    destruct (upsert_f _ _ _ _ _ _ _) as [err|[[newroot t'] c1]]; [discriminate|].
    destruct (big64 (vb_batch b)); [discriminate|].
    destruct (hits f c1 TVerify); [discriminate|].
    destruct (existsb _ _); [discriminate|]. inversion H; subst. cbn [x_db d_blocks d_leaves d_vb d_rollup d_l1 x_added x_mem set_leaves set_vb]. repeat split; reflexivity.
  - destruct (hits f (x_cnt x) TInit); [discriminate|].
    destruct (d_init (x_db x)); [discriminate|]. inversion H; subst. cbn [x_db d_blocks d_leaves d_vb d_rollup d_l1 x_added x_mem set_leaves set_vb]. repeat split; reflexivity.
Qed.

Lemma nth_error_snoc {A} (l : list A) x k y : nth_error (l ++ [x]) k = Some y ->
  (nth_error l k = Some y) \/ (k = length l /\ y = x).
Proof.
  intros H. destruct (Nat.lt_ge_cases k (length l)) as [Hk|Hk].
  - left. rewrite nth_error_app1 in H by exact Hk. exact H.
  - right. rewrite nth_error_app2 in H by exact Hk. destruct (k - length l)%nat eqn:E; cbn in H.
    + inversion H; subst. split; [lia|reflexivity].
    + destruct n; discriminate.
Qed.
Lemma StronglySorted_snoc {A} (R : A -> A -> Prop) l x :
  StronglySorted R l -> (forall y, In y l -> R y x) -> StronglySorted R (l ++ [x]).
Proof.
  induction 1 as [|y l Hs IH Hy]; intros Hx; cbn [app]; [repeat constructor|].
  constructor; [apply IH; intros z Hz; apply Hx; right; exact Hz|].
  apply Forall_app. split; [exact Hy|]. constructor; [apply Hx; left; reflexivity|constructor].
Qed.

Lemma NoDup_app_snoc {A} (l : list A) x : NoDup l -> ~ In x l -> NoDup (l ++ [x]).
Proof.
  induction l as [|y l IH]; intros Hd Hn; cbn [app]; [constructor; [intros []|constructor]|].
  inversion Hd as [|? ? Hy Hd']; subst. constructor.
  - intros Hin. apply in_app_or in Hin as [Hin|[->|[]]]; [contradiction|]. apply Hn. left. reflexivity.
  - apply IH; [exact Hd'|]. intros Hin. apply Hn. right. exact Hin.
Qed.

Lemma process_event_LInv f blk init x e x' :
  LInv (x_db x) -> In blk (map fst (d_blocks (x_db x))) -> idxrel init x ->
  (forall l, In l (d_leaves (x_db x)) -> forall p, In p (upd_pos e) -> klt (leaf_key l) (blk, p)) ->
  process_event f blk init x e = EvOk x' ->
  LInv (x_db x') /\ idxrel init x' /\ d_blocks (x_db x') = d_blocks (x_db x) /\
  (forall l, In l (d_leaves (x_db x')) -> In l (d_leaves (x_db x)) \/ exists p, In p (upd_pos e) /\ leaf_key l = (blk, p)).
Proof.
  intros Hinv Hblk Hrel Hbound Hev. pose proof (process_event_tables _ _ _ _ _ _ Hev) as [Hb Ht].
  destruct e as [u|v|b|count root].
  - cbv zeta in Ht. destruct Ht as (Hl & Ha & Hex & _ & _).
    set (ger := ger_hash (u_mer u) (u_rer u)) in *.
    set (row := mkLeaf _ _ _ _ _ _ _ _ _) in Hl.
    split; [|split; [|split; [exact Hb|]]].
    + destruct Hinv as [H1 H2 H3 H4 H5]. constructor; rewrite ?Hl, ?Hb.
      * apply StronglySorted_snoc; [exact H1|]. intros y Hy. apply (Hbound y Hy (u_pos u)). left. reflexivity.
      * intros k l Hk. apply nth_error_snoc in Hk as [Hk|[-> ->]]; [apply H2; exact Hk|]. unfold row. cbn [l_idx]. exact Hrel.
      * intros l Hin. apply in_app_or in Hin as [Hin|[<-|[]]]; [apply H3; exact Hin|exact Hblk].
      * rewrite map_app. cbn [map]. apply NoDup_app_snoc; [exact H4|].
        intros Hin. apply in_map_iff in Hin as (y & Ey & Hy).
        pose proof (existsb_false _ _ Hex y Hy) as E. cbn beta in E. apply orb_false_iff in E as [_ E].
        apply N.eqb_neq in E. apply E. unfold row in Ey. cbn [l_ger] in Ey. exact Ey.
      * intros l Hin. apply in_app_or in Hin as [Hin|[<-|[]]]; [apply H5; exact Hin|]. split; reflexivity.
    + unfold idxrel. rewrite Ha, Hl, app_length. cbn [length]. unfold idxrel in Hrel. lia.
    + intros l Hin. rewrite Hl in Hin. apply in_app_or in Hin as [Hin|[<-|[]]]; [left; exact Hin|].
      right. exists (u_pos u). split; [left; reflexivity|reflexivity].
  - destruct Ht as (Hl & Ha & _). split; [|split; [|split; [exact Hb|]]].
    + destruct Hinv as [H1 H2 H3 H4 H5]. constructor; rewrite ?Hl, ?Hb; assumption.
    + unfold idxrel in *. rewrite Ha, Hl. exact Hrel.
    + intros l Hin. rewrite Hl in Hin. left. exact Hin.
  - destruct Ht as (Hl & Ha & _). split; [|split; [|split; [exact Hb|]]].
    + destruct Hinv as [H1 H2 H3 H4 H5]. constructor; rewrite ?Hl, ?Hb; assumption.
    + unfold idxrel in *. rewrite Ha, Hl. exact Hrel.
    + intros l Hin. rewrite Hl in Hin. left. exact Hin.
  - destruct Ht as (Hl & Ha & _). split; [|split; [|split; [exact Hb|]]].
    + destruct Hinv as [H1 H2 H3 H4 H5]. constructor; rewrite ?Hl, ?Hb; assumption.
    + unfold idxrel in *. rewrite Ha, Hl. exact Hrel.
    + intros l Hin. rewrite Hl in Hin. left. exact Hin.
Qed.

Lemma process_events_LInv f blk init : forall es x x',
  StronglySorted N.lt (flat_map upd_pos es) ->
  LInv (x_db x) -> In blk (map fst (d_blocks (x_db x))) -> idxrel init x ->
  (forall l, In l (d_leaves (x_db x)) -> forall p, In p (flat_map upd_pos es) -> klt (leaf_key l) (blk, p)) ->
  process_events f blk init x es = EvOk x' ->
  LInv (x_db x') /\ d_blocks (x_db x') = d_blocks (x_db x).
Proof.
  induction es as [|e es IH]; intros x x' Hpos Hinv Hblk Hrel Hbound Hev; cbn [process_events] in Hev.
  - inversion Hev; subst. split; [exact Hinv|reflexivity].
  - destruct (process_event f blk init x e) as [err mem added halt|x1] eqn:E1; [discriminate|].
    cbn [flat_map] in Hpos, Hbound.
    assert (Hpos2 : StronglySorted N.lt (flat_map upd_pos es)).
    { clear -Hpos. induction (upd_pos e) as [|p ps IHp]; [exact Hpos|]. cbn [app] in Hpos. inversion Hpos; subst. apply IHp. assumption. }
    destruct (process_event_LInv f blk init x e x1 Hinv Hblk Hrel) as (Hinv1 & Hrel1 & Hb1 & Hnew); [|exact E1|].
    { intros l Hl p Hp. apply (Hbound l Hl p). apply in_or_app. left. exact Hp. }
    destruct (IH x1 x' Hpos2 Hinv1) as [Hinv' Hb']; [rewrite Hb1; exact Hblk|exact Hrel1| |exact Hev|].
    + intros l Hl p Hp. destruct (Hnew l Hl) as [Hold|(p0 & Hp0 & Hk)].
      * apply (Hbound l Hold p). apply in_or_app. right. exact Hp.
      * rewrite Hk. apply key_lt_spec. right. cbn [fst snd]. split; [reflexivity|].
        (* p0 is a position of e, p a later one: increasing *)
        clear -Hpos Hp0 Hp. induction (upd_pos e) as [|q qs IHq]; [destruct Hp0|].
        cbn [app] in Hpos. inversion Hpos as [|? ? Hs Hall]; subst. destruct Hp0 as [->|Hp0].
        -- rewrite Forall_forall in Hall. apply Hall. apply in_or_app. right. exact Hp.
        -- apply IHq; assumption.
    + split; [exact Hinv'|]. rewrite Hb', Hb1. reflexivity.
Qed.

(* blocks are handed over in increasing order (the driver's guarantee); inside a block the log positions of the info
   updates and of the batch verifications increase; rollup ids are uint32; the L1 info tree has room (< 2^32 leaves) *)
Definition vb_posl (e : event) : list N := match e with EVerify b => [vb_pos b] | _ => [] end.
Definition vb_small (e : event) : Prop := match e with EVerify b => vb_rid b <= mask32 | _ => True end.
Definition block_ordered (st : lstate) (k : block) : Prop :=
  (forall b, In b (d_blocks (st_db st)) -> fst b < k_num k) /\ StronglySorted N.lt (flat_map upd_pos (k_events k)) /\
  StronglySorted N.lt (flat_map vb_posl (k_events k)) /\ Forall vb_small (k_events k) /\
  (length (d_leaves (st_db st)) + length (flat_map upd_pos (k_events k)) < 2 ^ HEIGHT)%nat.

Lemma last_leaf_index d : LInv d ->
  match last_leaf d with None => 0 | Some l => l_idx l + 1 end = N.of_nat (length (d_leaves d)).
Proof.
  intros Hinv. unfold last_leaf. rewrite (max_by_sorted leaf_key _ (li_sorted _ Hinv)).
  destruct (olast (d_leaves d)) as [l|] eqn:E.
  - pose proof (olast_nth _ _ E) as Hn. rewrite (li_idx _ Hinv _ _ Hn).
    destruct (d_leaves d); [discriminate|]. cbn [length]. lia.
  - destruct (d_leaves d); [reflexivity|discriminate].
Qed.

Theorem process_block_LInv f st k r st' : LInv (st_db st) -> block_ordered st k ->
  process_block f st k = (r, st') -> LInv (st_db st').
Proof.
  intros Hinv (Hord & Hpos & _) H. destruct r as [e|]; [rewrite (process_block_error_keeps_db _ _ _ _ _ H); exact Hinv|].
  unfold process_block in H.
  destruct (st_halted st); [discriminate|].
  destruct (big64 (k_num k)); [discriminate|].
  destruct (hits f _ TBlock); [discriminate|].
  destruct (existsb _ _); [discriminate|].
  set (d := st_db st) in *.
  set (d1 := mkLdb (d_blocks d ++ [(k_num k, k_hash k)]) (d_leaves d) (d_vb d) (d_init d) (d_l1 d) (d_rollup d)) in *.
  assert (Hinv1 : LInv d1).
  { destruct Hinv as [H1 H2 H3 H4 H5]. constructor; unfold d1; cbn [d_leaves d_blocks]; try assumption.
    intros l Hl. rewrite map_app. apply in_or_app. left. apply H3. exact Hl. }
  destruct (process_events _ _ _ _ _) as [err mem added halt|x] eqn:Ev; [discriminate|].
  destruct (hits f (x_cnt x) TCommit); [discriminate|]. inversion H; subst. cbn [st_db].
  refine (proj1 (process_events_LInv f (k_num k) _ (k_events k) _ x Hpos _ _ _ _ Ev)); cbn [x_db x_added].
  - exact Hinv1.
  - unfold d1. cbn [d_blocks]. rewrite map_app. apply in_or_app. right. left. reflexivity.
  - unfold idxrel. cbn [x_added x_db]. rewrite (last_leaf_index d1 Hinv1). cbn. lia.
  - intros l Hl p _. apply key_lt_spec. left. cbn [fst leaf_key].
    unfold d1 in Hl. cbn [d_leaves] in Hl. pose proof (li_blocks _ Hinv l Hl) as Hb.
    apply in_map_iff in Hb as (b & Eb & Hb). rewrite <- Eb. apply Hord. exact Hb.
Qed.

Theorem reorg_LInv st b : LInv (st_db st) -> LInv (st_db (reorg st b)).
Proof.
  intros [H1 H2 H3 H4 H5]. unfold reorg. cbn [st_db]. constructor; cbn [d_leaves d_blocks].
  - apply StronglySorted_filter. exact H1.
  - intros k l Hk. apply H2.
    apply (filter_prefix_nth (fun a b => klt (leaf_key a) (leaf_key b)) (fun r => l_block r <? b)); [exact H1| |exact Hk].
    intros x y Hxy Hy. apply key_lt_spec in Hxy. unfold leaf_key in Hxy. cbn [fst snd] in Hxy. apply N.ltb_lt in Hy. apply N.ltb_lt. lia.
  - intros l Hl. apply filter_In in Hl as [Hl Hb]. pose proof (H3 l Hl) as Hin.
    apply in_map_iff in Hin as (x & Ex & Hx). apply in_map_iff. exists x. split; [exact Ex|].
    apply filter_In. split; [exact Hx|]. rewrite Ex. exact Hb.
  - apply NoDup_map_filter. exact H4.
  - intros l Hl. apply filter_In in Hl as [Hl _]. apply H5. exact Hl.
Qed.

(* histories: every block op satisfies the ordering guarantee in the state it is applied to *)
Fixpoint hist_ordered (ops : list hop) (st : lstate) : Prop :=
  match ops with
  | [] => True
  | o :: t => (match o with HBlock k _ => block_ordered st k | _ => True end) /\ hist_ordered t (step st o)
  end.

Theorem LInv_run ops : forall st, LInv (st_db st) -> hist_ordered ops st -> LInv (st_db (run_hist ops st)).
Proof.
  induction ops as [|o t IH]; intros st Hinv Hord; cbn [run_hist fold_left]; [exact Hinv|].
  destruct Hord as [Ho Ht]. apply IH; [|exact Ht].
  destruct o as [k f|b|]; cbn [step].
  - destruct (process_block f st k) as [r st'] eqn:E. cbn [snd]. exact (process_block_LInv f st k r st' Hinv Ho E).
  - apply reorg_LInv. exact Hinv.
  - exact Hinv.
Qed.

(* C11, first sentence: for ALL histories, the stored leaves are in (block, position) order and carry indices 0..n-1 *)
Theorem l1info_indices_consecutive ops : hist_ordered ops lstate_new ->
  let leaves := d_leaves (st_db (run_hist ops lstate_new)) in
  StronglySorted (fun a b => klt (leaf_key a) (leaf_key b)) leaves /\
  forall k l, nth_error leaves k = Some l -> l_idx l = N.of_nat k.
Proof.
  intros Hord. pose proof (LInv_run ops lstate_new LInv_empty Hord) as [H1 H2 _ _ _]. split; assumption.
Qed.

(* each stored leaf is the GlobalExitRoot contract's leaf: ger = keccak(mainnet, rollup), hash = getLeafValue(ger, parent hash, timestamp) *)
Theorem l1info_leaf_matches_contract ops : hist_ordered ops lstate_new ->
  forall l, In l (d_leaves (st_db (run_hist ops lstate_new))) ->
  l_ger l = ger_of (l_mer l) (l_rer l) /\ l_hash l = l1info_leaf_value (ger_of (l_mer l) (l_rer l)) (l_parent l) (l_ts l).
Proof.
  intros Hord l Hl. pose proof (LInv_run ops lstate_new LInv_empty Hord) as [_ _ _ _ H5].
  destruct (H5 l Hl) as [Hg Hh]. rewrite ger_hash_is_contract_ger in Hg. split; [exact Hg|]. rewrite Hh, leaf_hash_is_contract_leaf, Hg. reflexivity.
Qed.
(* the parent hash and timestamp of the leaf are those of the block header the log came in (downloader conversion) *)
Theorem downloader_conversion_update h idx mer rer :
  convert h (LUpdate idx mer rer) = EUpdate (mkU idx mer rer (h_parent h) (h_ts h)).
Proof. reflexivity. Qed.

(* lookups are total: by index and by global exit root *)
Lemma find_by_index (ls : list leaf_row) : forall off,
  (forall k l, nth_error ls k = Some l -> l_idx l = N.of_nat (off + k)) ->
  forall k l, nth_error ls k = Some l -> find (fun r => l_idx r =? N.of_nat (off + k)) ls = Some l.
Proof.
  induction ls as [|x ls IH]; intros off Hidx k l Hk; [destruct k; discriminate|].
  cbn [find]. destruct k as [|k]; cbn [nth_error] in Hk.
  - inversion Hk; subst. rewrite (Hidx 0%nat l eq_refl). rewrite N.eqb_refl. reflexivity.
  - rewrite (Hidx 0%nat x eq_refl). destruct (N.eqb_spec (N.of_nat (off + 0)) (N.of_nat (off + S k))) as [E|_]; [lia|].
    replace (off + S k)%nat with (S off + k)%nat by lia. apply IH; [|exact Hk].
    intros k' l' Hk'. rewrite (Hidx (S k') l' Hk'). f_equal. lia.
Qed.
Lemma find_by_ger (ls : list leaf_row) l : NoDup (map l_ger ls) -> In l ls -> find (fun r => l_ger r =? l_ger l) ls = Some l.
Proof.
  induction ls as [|x ls IH]; intros Hd Hin; [destruct Hin|]. cbn [find]. cbn [map] in Hd. inversion Hd as [|? ? Hn Hd']; subst.
  destruct Hin as [->|Hin]; [rewrite N.eqb_refl; reflexivity|].
  destruct (N.eqb_spec (l_ger x) (l_ger l)) as [E|_]; [|apply IH; assumption].
  exfalso. apply Hn. rewrite E. apply in_map. exact Hin.
Qed.
Theorem l1info_lookup_total ops : hist_ordered ops lstate_new ->
  let d := st_db (run_hist ops lstate_new) in
  forall k l, nth_error (d_leaves d) k = Some l ->
    info_by_index d (N.of_nat k) = Some l /\ info_by_ger d (l_ger l) = Some l.
Proof.
  intros Hord d k l Hk. pose proof (LInv_run ops lstate_new LInv_empty Hord) as [_ H2 _ H4 _]. fold d in H2, H4. split.
  - unfold info_by_index. apply (find_by_index (d_leaves d) 0%nat); [intros k' l' Hk'; cbn; apply H2; exact Hk'|exact Hk].
  - unfold info_by_ger. apply find_by_ger; [exact H4|]. apply nth_error_In with k. exact Hk.
Qed.
