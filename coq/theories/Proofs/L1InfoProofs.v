(* Theorems about the executable l1infotreesync model (Model/L1InfoStore.v), for ALL histories of blocks (with any storage
   fault), reorgs and restarts:
   - a failed ProcessBlock leaves the database untouched (C07 part), halted is sticky, reorg algebra (C04 part);
   - L1 info leaves are stored in (block, position) order with consecutive indices 0..n-1, each with the contract's leaf
     layout, global exit roots pairwise distinct; lookups by index and by GER are total;
   - the V2 announcement check: passes exactly when root and count agree with the last recorded root, otherwise halts;
   - the rollup exit tree: every accepted update records the reference sparse Merkle root of the updated leaf map, the node
     store stays closed for every version, the leaf map is "last non-zero exit root verified per rollup"
     (built on Proofs/SparseUpsert.v, instantiated at Keccak under the injectivity hypothesis). *)
From Coq Require Import NArith ZArith List Bool Lia Sorted Arith PeanoNat FMapFacts.
From Verif Require Import Base.Bytes Base.FastBytes Base.Hash Model.Merkle Model.MerkleSpec Model.TreeStore Model.Contracts
  Model.L1InfoStore Model.L1InfoCases Proofs.Frontier Proofs.Rht Proofs.SparseUpsert Proofs.BitFacts Proofs.ContractProofs
  Proofs.TreeStoreProofs Proofs.TreeStoreCorollaries.
Import ListNotations.
Open Scope N_scope.

(* ====================================================================================================
   1. Transactions, halting, reorg algebra
   ==================================================================================================== *)

(* whichever storage statement fails (any table, any position, commit included), the database is exactly as before *)
Theorem process_block_error_keeps_db f st k e st' :
  process_block f st k = (Some e, st') -> st_db st' = st_db st.
Proof.
  unfold process_block. intros H.
  destruct (st_halted st); [inversion H; reflexivity|].
  destruct (big64 (k_num k)); [inversion H; reflexivity|].
  destruct (hits f _ TBlock); [inversion H; reflexivity|].
  destruct (existsb _ _); [inversion H; reflexivity|].
  destruct (process_events _ _ _ _ _) as [err mem added halt|x].
  - inversion H; reflexivity.
  - destruct (hits f (x_cnt x) TCommit); inversion H; reflexivity.
Qed.

(* success means the whole transaction was applied and the processor is not halted *)
Theorem process_block_ok_not_halted f st k st' : process_block f st k = (None, st') -> st_halted st' = false.
Proof.
  unfold process_block. intros H.
  destruct (st_halted st); [discriminate|].
  destruct (big64 (k_num k)); [discriminate|].
  destruct (hits f _ TBlock); [discriminate|].
  destruct (existsb _ _); [discriminate|].
  destruct (process_events _ _ _ _ _) as [err mem added halt|x]; [discriminate|].
  destruct (hits f (x_cnt x) TCommit); [discriminate|]. inversion H; reflexivity.
Qed.

(* a halted processor refuses every block and does not change *)
Theorem halted_is_sticky f st k : st_halted st = true -> process_block f st k = (Some PInconsistent, st).
Proof. intros H. unfold process_block. rewrite H. reflexivity. Qed.

(* rollback callbacks: any rollback after at least one appended leaf invalidates the in-memory tree *)
Theorem rollback_invalidates mem n : (0 < n)%nat -> m_last (rollback_mem mem n) = (-2)%Z.
Proof. destruct n; [lia|reflexivity]. Qed.

(* --- the UpdateL1InfoTreeV2 sanity check --- *)
(* it compares BOTH the root hash and (index + 1, on uint32) of the last recorded root with the announcement *)
Theorem v2_event_passes_iff f blk init x v r :
  last_root (d_l1 (x_db x)) = Some r ->
  (process_event f blk init x (EV2 v) = EvOk x <-> (r_hash r = v_root v /\ u32 (r_pos r + 1) = v_count v)).
Proof.
  intros Hr. cbn [process_event]. rewrite Hr. split.
  - destruct (r_hash r =? v_root v) eqn:E1; destruct (u32 (r_pos r + 1) =? v_count v) eqn:E2; cbn; try discriminate.
    intros _. split; apply N.eqb_eq; assumption.
  - intros [H1 H2]. rewrite (proj2 (N.eqb_eq _ _) H1), (proj2 (N.eqb_eq _ _) H2). reflexivity.
Qed.
Theorem v2_event_mismatch_halts f blk init x v r :
  last_root (d_l1 (x_db x)) = Some r -> (r_hash r <> v_root v \/ u32 (r_pos r + 1) <> v_count v) ->
  process_event f blk init x (EV2 v) = EvFail PInconsistent (x_mem x) (x_added x) true.
Proof.
  intros Hr Hne. cbn [process_event]. rewrite Hr.
  destruct (r_hash r =? v_root v) eqn:E1; destruct (u32 (r_pos r + 1) =? v_count v) eqn:E2; cbn; try reflexivity.
  apply N.eqb_eq in E1, E2. destruct Hne; contradiction.
Qed.
(* an event failure with the halt flag halts the processor, rolls the database back, and every later block is refused *)
Theorem halting_failure_halts f st k err mem added :
  st_halted st = false -> big64 (k_num k) = false -> hits f (fun _ => O) TBlock = false ->
  existsb (fun b => fst b =? k_num k) (d_blocks (st_db st)) = false ->
  (let d := st_db st in
   let d1 := mkLdb (d_blocks d ++ [(k_num k, k_hash k)]) (d_leaves d) (d_vb d) (d_init d) (d_l1 d) (d_rollup d) in
   process_events f (k_num k) (match last_leaf d1 with None => 0 | Some l => l_idx l + 1 end)
                  (mkTx d1 (st_mem st) (bump (fun _ => O) TBlock) O) (k_events k) = EvFail err mem added true) ->
  let '(r, st') := process_block f st k in
  r = Some err /\ st_halted st' = true /\ st_db st' = st_db st /\
  forall f' k', process_block f' st' k' = (Some PInconsistent, st').
Proof.
  intros Hh Hb Hf He Hev. unfold process_block. rewrite Hh, Hb, Hf, He. cbv zeta in Hev. rewrite Hev.
  split; [reflexivity|]. split; [reflexivity|]. split; [reflexivity|].
  intros f' k'. apply halted_is_sticky. reflexivity.
Qed.

(* --- reorg algebra on the database part (C04) --- *)
Lemma filter_filter {A} (p q : A -> bool) l : filter p (filter q l) = filter (fun x => p x && q x) l.
Proof. induction l as [|x l IH]; [reflexivity|]. cbn [filter]. destruct (q x) eqn:Q; cbn [filter]; rewrite ?Q, ?andb_true_r, ?andb_false_r, IH; reflexivity. Qed.
Lemma filter_ext' {A} (p q : A -> bool) l : (forall x, p x = q x) -> filter p l = filter q l.
Proof. intros H. induction l as [|x l IH]; [reflexivity|]. cbn [filter]. rewrite H, IH. reflexivity. Qed.
Lemma ltb_min x b b' : (x <? b) && (x <? b') = (x <? N.min b b').
Proof. destruct (N.ltb_spec x b), (N.ltb_spec x b'), (N.ltb_spec x (N.min b b')); try reflexivity; lia. Qed.

Definition db_eq (a b : ldb) : Prop :=
  d_blocks a = d_blocks b /\ d_leaves a = d_leaves b /\ d_vb a = d_vb b /\ d_init a = d_init b /\
  t_roots (d_l1 a) = t_roots (d_l1 b) /\ t_roots (d_rollup a) = t_roots (d_rollup b).

(* nested / repeated reorgs collapse to the lower reorg point, on every table and on the recorded roots of both trees *)
Theorem reorg_reorg_db st b b' : db_eq (st_db (reorg (reorg st b') b)) (st_db (reorg st (N.min b b'))).
Proof.
  unfold reorg, db_eq, tree_reorg. cbn [st_db d_blocks d_leaves d_vb d_init d_l1 d_rollup t_roots].
  rewrite !filter_filter. repeat split; try (apply filter_ext'; intros x; apply ltb_min).
  destruct (d_init (st_db st)) as [[[blk c] r]|]; [|reflexivity].
  pose proof (ltb_min blk b b') as E. destruct (blk <? b'); cbn in *; [destruct (blk <? b); cbn in *; rewrite <- E; reflexivity|].
  rewrite andb_false_r in E. rewrite <- E. reflexivity.
Qed.
(* the in-memory tree is invalidated and the processor un-halts exactly when block rows were deleted *)
Theorem reorg_mem_and_halt st b :
  m_last (st_mem (reorg st b)) = (-2)%Z /\
  st_halted (reorg st b) = st_halted st && Nat.eqb (length (filter (fun r => negb (fst r <? b)) (d_blocks (st_db st)))) 0.
Proof. split; reflexivity. Qed.

(* ====================================================================================================
   2. L1 info leaves: consecutive indices in chain order, contract leaf layout, total lookups
   ==================================================================================================== *)

(* each leaf the node builds is the GlobalExitRoot contract's leaf: ger = keccak(mainnet, rollup), hash = getLeafValue(ger, parent hash, timestamp) *)
Lemma leaf_hash_is_contract_leaf ger parent ts : leaf_hash ger parent ts = l1info_leaf_value ger parent ts.
Proof. unfold leaf_hash, l1info_leaf_value. reflexivity. Qed.
Lemma ger_hash_is_contract_ger mer rer : ger_hash mer rer = ger_of mer rer.
Proof. unfold ger_hash, ger_of. reflexivity. Qed.
(* from here on the hashes are black boxes (conversion must never try to run Keccak on symbolic input) *)
Opaque ger_hash leaf_hash nodeN keccakN ger_of l1info_leaf_value.

Definition klt (a b : N * N) : Prop := key_lt a b = true.
Lemma key_lt_spec a b : klt a b <-> (fst a < fst b \/ (fst a = fst b /\ snd a < snd b)).
Proof.
  unfold klt, key_lt. rewrite orb_true_iff, andb_true_iff, !N.ltb_lt, N.eqb_eq. reflexivity.
Qed.
Lemma klt_trans a b c : klt a b -> klt b c -> klt a c.
Proof. rewrite !key_lt_spec. lia. Qed.

(* ORDER BY key DESC LIMIT 1 over a table stored in strictly increasing key order is its last row *)
Definition olast {A} (l : list A) : option A := match l with [] => None | x :: t => Some (last t x) end.
Lemma last_default {A} (l : list A) a b : l <> [] -> last l a = last l b.
Proof. induction l as [|x t IH]; [congruence|]. intros _. cbn [last]. destruct t; [reflexivity|]. apply IH. discriminate. Qed.
Lemma max_by_acc {A} (key : A -> N * N) : forall l a,
  (forall x, In x l -> klt (key a) (key x)) -> StronglySorted (fun a b => klt (key a) (key b)) l ->
  fold_left (fun acc x => match acc with None => Some x | Some a => if key_lt (key a) (key x) then Some x else Some a end) l (Some a)
  = Some (last l a).
Proof.
  induction l as [|x t IH]; intros a Hlt Hs; cbn [fold_left last]; [reflexivity|].
  rewrite (Hlt x (or_introl eq_refl)). inversion Hs as [|? ? Hs' Hx]; subst.
  rewrite IH; [|intros y Hy; rewrite Forall_forall in Hx; apply Hx; exact Hy|exact Hs'].
  destruct t; [reflexivity|]. f_equal. apply last_default. discriminate.
Qed.
Lemma max_by_sorted {A} (key : A -> N * N) l :
  StronglySorted (fun a b => klt (key a) (key b)) l -> max_by key l = olast l.
Proof.
  intros Hs. destruct l as [|x t]; [reflexivity|]. unfold max_by. cbn [fold_left olast].
  inversion Hs as [|? ? Hs' Hx]; subst. apply max_by_acc; [|exact Hs']. rewrite Forall_forall in Hx. exact Hx.
Qed.
Lemma nth_error_last {A} : forall (t : list A) y, nth_error (y :: t) (length t) = Some (last t y).
Proof.
  induction t as [|z t IH]; intros y; [reflexivity|]. cbn [length nth_error]. rewrite IH. cbn [last].
  destruct t; [reflexivity|]. f_equal. apply last_default. discriminate.
Qed.
Lemma olast_nth {A} (l : list A) x : olast l = Some x -> nth_error l (length l - 1) = Some x.
Proof.
  destruct l as [|y t]; [discriminate|]. cbn [olast]. intros H. inversion H; subst. clear H.
  cbn [length]. replace (S (length t) - 1)%nat with (length t) by lia. apply nth_error_last.
Qed.
Lemma olast_app {A} (l : list A) x : olast (l ++ [x]) = Some x.
Proof. destruct l as [|y t]; [reflexivity|]. cbn [app olast]. rewrite last_last. reflexivity. Qed.

(* filters *)
Lemma StronglySorted_filter {A} (R : A -> A -> Prop) p l : StronglySorted R l -> StronglySorted R (filter p l).
Proof.
  induction 1 as [|x l Hs IH Hx]; cbn [filter]; [constructor|].
  destruct (p x); [|exact IH]. constructor; [exact IH|].
  rewrite Forall_forall in *. intros y Hy. apply filter_In in Hy. apply Hx, Hy.
Qed.
(* a downward-closed predicate keeps a prefix of a sorted table *)
Lemma filter_prefix_nth {A} (R : A -> A -> Prop) p l :
  StronglySorted R l -> (forall a b, R a b -> p b = true -> p a = true) ->
  forall k x, nth_error (filter p l) k = Some x -> nth_error l k = Some x.
Proof.
  induction 1 as [|y l Hs IH Hy]; intros Hmono k x; cbn [filter]; [destruct k; discriminate|].
  destruct (p y) eqn:Py.
  - destruct k; cbn [nth_error]; [auto|]. apply IH. exact Hmono.
  - assert (E : filter p l = []).
    { clear IH. induction l as [|z l IHl]; [reflexivity|]. cbn [filter].
      inversion Hy as [|? ? Hz Hy']; subst. inversion Hs as [|? ? Hs' Hz']; subst.
      destruct (p z) eqn:Pz; [rewrite (Hmono _ _ Hz Pz) in Py; discriminate|]. apply IHl; assumption. }
    rewrite E. destruct k; discriminate.
Qed.
Lemma NoDup_map_filter {A B} (f : A -> B) p l : NoDup (map f l) -> NoDup (map f (filter p l)).
Proof.
  induction l as [|x l IH]; cbn [map filter]; [auto|]. intros H. inversion H as [|? ? Hn Hd]; subst.
  destruct (p x); [|apply IH; exact Hd]. cbn [map]. constructor; [|apply IH; exact Hd].
  intros Hin. apply Hn. apply in_map_iff in Hin as (y & Ey & Hy). apply filter_In in Hy. apply in_map_iff. exists y. tauto.
Qed.

(* the store invariant of the l1info_leaf table *)
Record LInv (d : ldb) : Prop := {
  li_sorted : StronglySorted (fun a b => klt (leaf_key a) (leaf_key b)) (d_leaves d);
  li_idx : forall k l, nth_error (d_leaves d) k = Some l -> l_idx l = N.of_nat k;
  li_blocks : forall l, In l (d_leaves d) -> In (l_block l) (map fst (d_blocks d));
  li_gers : NoDup (map l_ger (d_leaves d));
  li_hash : forall l, In l (d_leaves d) ->
            l_ger l = ger_hash (l_mer l) (l_rer l) /\ l_hash l = leaf_hash (l_ger l) (l_parent l) (l_ts l) }.

Lemma LInv_empty : LInv ldb_empty.
Proof.
  constructor; unfold ldb_empty; cbn [d_leaves d_blocks map].
  - constructor.
  - intros [|k] l H; discriminate.
  - intros l [].
  - constructor.
  - intros l [].
Qed.

Definition upd_pos (e : event) : list N := match e with EUpdate u => [u_pos u] | _ => [] end.
Definition idxrel (init : N) (x : txc) : Prop := init + N.of_nat (x_added x) = N.of_nat (length (d_leaves (x_db x))).

Lemma existsb_false {A} (p : A -> bool) l : existsb p l = false -> forall x, In x l -> p x = false.
Proof.
  intros H x Hx. destruct (p x) eqn:E; [|reflexivity].
  assert (existsb p l = true) by (apply existsb_exists; exists x; split; assumption). congruence.
Qed.

(* what one event does to the tables *)
Lemma process_event_tables f blk init x e x' : process_event f blk init x e = EvOk x' ->
  d_blocks (x_db x') = d_blocks (x_db x) /\
  match e with
  | EUpdate u =>
      let ger := ger_hash (u_mer u) (u_rer u) in
      let row := mkLeaf blk (u_pos u) (init + N.of_nat (x_added x)) (u_parent u) (u_ts u) (u_mer u) (u_rer u) ger (leaf_hash ger (u_parent u) (u_ts u)) in
      d_leaves (x_db x') = d_leaves (x_db x) ++ [row] /\ x_added x' = S (x_added x) /\
      existsb (fun r => ((l_block r =? blk) && (l_bpos r =? u_pos u)) || (l_ger r =? ger)) (d_leaves (x_db x)) = false /\
      d_vb (x_db x') = d_vb (x_db x) /\ d_rollup (x_db x') = d_rollup (x_db x)
  | _ => d_leaves (x_db x') = d_leaves (x_db x) /\ x_added x' = x_added x /\ d_l1 (x_db x') = d_l1 (x_db x) /\ x_mem x' = x_mem x
  end.
Proof.
  destruct e as [u|v|b|count root]; cbn [process_event]; intros H.
  - destruct (big64 (u_pos u) || big64 (u_ts u)); [discriminate|].
    destruct (hits f (x_cnt x) TLeaf); [discriminate|].
    destruct (existsb _ (d_leaves (x_db x))) eqn:Ex; [discriminate|].
    destruct (tree_add_f _ _ _ _ _ _ _ _) as [mem' [err|[t' c2]]]; [discriminate|].
    inversion H; subst. cbn [x_db d_blocks d_leaves d_vb d_rollup d_l1 x_added x_mem set_leaves set_vb]. repeat split; reflexivity.
  - destruct (last_root _) as [r|]; [|discriminate].
    destruct (_ || _); [discriminate|]. inversion H; subst. repeat split; reflexivity.
  - destruct (vb_exit b =? 0); [inversion H; subst; repeat split; reflexivity|].
    destruct (negb _); [inversion H; subst; repeat split; reflexivity|].
    destruct (big64 (vb_pos b)); [discriminate|].
    destruct (upsert_f _ _ _ _ _ _ _) as [err|[[newroot t'] c1]]; [discriminate|].
    destruct (big64 (vb_batch b)); [discriminate|].
    destruct (hits f c1 TVerify); [discriminate|].
    destruct (existsb _ _); [discriminate|]. inversion H; subst. cbn [x_db d_blocks d_leaves d_vb d_rollup d_l1 x_added x_mem set_leaves set_vb]. repeat split; reflexivity.
  - destruct (hits f (x_cnt x) TInit); [discriminate|].
    destruct (d_init (x_db x)); [discriminate|]. inversion H; subst. cbn [x_db d_blocks d_leaves d_vb d_rollup d_l1 x_added x_mem set_leaves set_vb]. repeat split; reflexivity.
Qed.

Lemma nth_error_snoc {A} (l : list A) x k y : nth_error (l ++ [x]) k = Some y ->
  (nth_error l k = Some y) \/ (k = length l /\ y = x).
Proof.
  intros H. destruct (Nat.lt_ge_cases k (length l)) as [Hk|Hk].
  - left. rewrite nth_error_app1 in H by exact Hk. exact H.
  - right. rewrite nth_error_app2 in H by exact Hk. destruct (k - length l)%nat eqn:E; cbn in H.
    + inversion H; subst. split; [lia|reflexivity].
    + destruct n; discriminate.
Qed.
Lemma StronglySorted_snoc {A} (R : A -> A -> Prop) l x :
  StronglySorted R l -> (forall y, In y l -> R y x) -> StronglySorted R (l ++ [x]).
Proof.
  induction 1 as [|y l Hs IH Hy]; intros Hx; cbn [app]; [repeat constructor|].
  constructor; [apply IH; intros z Hz; apply Hx; right; exact Hz|].
  apply Forall_app. split; [exact Hy|]. constructor; [apply Hx; left; reflexivity|constructor].
Qed.

Lemma NoDup_app_snoc {A} (l : list A) x : NoDup l -> ~ In x l -> NoDup (l ++ [x]).
Proof.
  induction l as [|y l IH]; intros Hd Hn; cbn [app]; [constructor; [intros []|constructor]|].
  inversion Hd as [|? ? Hy Hd']; subst. constructor.
  - intros Hin. apply in_app_or in Hin as [Hin|[->|[]]]; [contradiction|]. apply Hn. left. reflexivity.
  - apply IH; [exact Hd'|]. intros Hin. apply Hn. right. exact Hin.
Qed.

Lemma process_event_LInv f blk init x e x' :
  LInv (x_db x) -> In blk (map fst (d_blocks (x_db x))) -> idxrel init x ->
  (forall l, In l (d_leaves (x_db x)) -> forall p, In p (upd_pos e) -> klt (leaf_key l) (blk, p)) ->
  process_event f blk init x e = EvOk x' ->
  LInv (x_db x') /\ idxrel init x' /\ d_blocks (x_db x') = d_blocks (x_db x) /\
  (forall l, In l (d_leaves (x_db x')) -> In l (d_leaves (x_db x)) \/ exists p, In p (upd_pos e) /\ leaf_key l = (blk, p)).
Proof.
  intros Hinv Hblk Hrel Hbound Hev. pose proof (process_event_tables _ _ _ _ _ _ Hev) as [Hb Ht].
  destruct e as [u|v|b|count root].
  - cbv zeta in Ht. destruct Ht as (Hl & Ha & Hex & _ & _).
    set (ger := ger_hash (u_mer u) (u_rer u)) in *.
    set (row := mkLeaf _ _ _ _ _ _ _ _ _) in Hl.
    split; [|split; [|split; [exact Hb|]]].
    + destruct Hinv as [H1 H2 H3 H4 H5]. constructor; rewrite ?Hl, ?Hb.
      * apply StronglySorted_snoc; [exact H1|]. intros y Hy. apply (Hbound y Hy (u_pos u)). left. reflexivity.
      * intros k l Hk. apply nth_error_snoc in Hk as [Hk|[-> ->]]; [apply H2; exact Hk|]. unfold row. cbn [l_idx]. exact Hrel.
      * intros l Hin. apply in_app_or in Hin as [Hin|[<-|[]]]; [apply H3; exact Hin|exact Hblk].
      * rewrite map_app. cbn [map]. apply NoDup_app_snoc; [exact H4|].
        intros Hin. apply in_map_iff in Hin as (y & Ey & Hy).
        pose proof (existsb_false _ _ Hex y Hy) as E. cbn beta in E. apply orb_false_iff in E as [_ E].
        apply N.eqb_neq in E. apply E. unfold row in Ey. cbn [l_ger] in Ey. exact Ey.
      * intros l Hin. apply in_app_or in Hin as [Hin|[<-|[]]]; [apply H5; exact Hin|]. split; reflexivity.
    + unfold idxrel. rewrite Ha, Hl, app_length. cbn [length]. unfold idxrel in Hrel. lia.
    + intros l Hin. rewrite Hl in Hin. apply in_app_or in Hin as [Hin|[<-|[]]]; [left; exact Hin|].
      right. exists (u_pos u). split; [left; reflexivity|reflexivity].
  - destruct Ht as (Hl & Ha & _). split; [|split; [|split; [exact Hb|]]].
    + destruct Hinv as [H1 H2 H3 H4 H5]. constructor; rewrite ?Hl, ?Hb; assumption.
    + unfold idxrel in *. rewrite Ha, Hl. exact Hrel.
    + intros l Hin. rewrite Hl in Hin. left. exact Hin.
  - destruct Ht as (Hl & Ha & _). split; [|split; [|split; [exact Hb|]]].
    + destruct Hinv as [H1 H2 H3 H4 H5]. constructor; rewrite ?Hl, ?Hb; assumption.
    + unfold idxrel in *. rewrite Ha, Hl. exact Hrel.
    + intros l Hin. rewrite Hl in Hin. left. exact Hin.
  - destruct Ht as (Hl & Ha & _). split; [|split; [|split; [exact Hb|]]].
    + destruct Hinv as [H1 H2 H3 H4 H5]. constructor; rewrite ?Hl, ?Hb; assumption.
    + unfold idxrel in *. rewrite Ha, Hl. exact Hrel.
    + intros l Hin. rewrite Hl in Hin. left. exact Hin.
Qed.

Lemma process_events_LInv f blk init : forall es x x',
  StronglySorted N.lt (flat_map upd_pos es) ->
  LInv (x_db x) -> In blk (map fst (d_blocks (x_db x))) -> idxrel init x ->
  (forall l, In l (d_leaves (x_db x)) -> forall p, In p (flat_map upd_pos es) -> klt (leaf_key l) (blk, p)) ->
  process_events f blk init x es = EvOk x' ->
  LInv (x_db x') /\ d_blocks (x_db x') = d_blocks (x_db x).
Proof.
  induction es as [|e es IH]; intros x x' Hpos Hinv Hblk Hrel Hbound Hev; cbn [process_events] in Hev.
  - inversion Hev; subst. split; [exact Hinv|reflexivity].
  - destruct (process_event f blk init x e) as [err mem added halt|x1] eqn:E1; [discriminate|].
    cbn [flat_map] in Hpos, Hbound.
    assert (Hpos2 : StronglySorted N.lt (flat_map upd_pos es)).
    { clear -Hpos. induction (upd_pos e) as [|p ps IHp]; [exact Hpos|]. cbn [app] in Hpos. inversion Hpos; subst. apply IHp. assumption. }
    destruct (process_event_LInv f blk init x e x1 Hinv Hblk Hrel) as (Hinv1 & Hrel1 & Hb1 & Hnew); [|exact E1|].
    { intros l Hl p Hp. apply (Hbound l Hl p). apply in_or_app. left. exact Hp. }
    destruct (IH x1 x' Hpos2 Hinv1) as [Hinv' Hb']; [rewrite Hb1; exact Hblk|exact Hrel1| |exact Hev|].
    + intros l Hl p Hp. destruct (Hnew l Hl) as [Hold|(p0 & Hp0 & Hk)].
      * apply (Hbound l Hold p). apply in_or_app. right. exact Hp.
      * rewrite Hk. apply key_lt_spec. right. cbn [fst snd]. split; [reflexivity|].
        (* p0 is a position of e, p a later one: increasing *)
        clear -Hpos Hp0 Hp. induction (upd_pos e) as [|q qs IHq]; [destruct Hp0|].
        cbn [app] in Hpos. inversion Hpos as [|? ? Hs Hall]; subst. destruct Hp0 as [->|Hp0].
        -- rewrite Forall_forall in Hall. apply Hall. apply in_or_app. right. exact Hp.
        -- apply IHq; assumption.
    + split; [exact Hinv'|]. rewrite Hb', Hb1. reflexivity.
Qed.

(* blocks are handed over in increasing order (the driver's guarantee); inside a block the log positions of the info
   updates and of the batch verifications increase; rollup ids are uint32; the L1 info tree has room (< 2^32 leaves) *)
Definition vb_posl (e : event) : list N := match e with EVerify b => [vb_pos b] | _ => [] end.
Definition vb_small (e : event) : Prop := match e with EVerify b => vb_rid b <= mask32 | _ => True end.
Definition block_ordered (st : lstate) (k : block) : Prop :=
  (forall b, In b (d_blocks (st_db st)) -> fst b < k_num k) /\ StronglySorted N.lt (flat_map upd_pos (k_events k)) /\
  StronglySorted N.lt (flat_map vb_posl (k_events k)) /\ Forall vb_small (k_events k) /\
  (length (d_leaves (st_db st)) + length (flat_map upd_pos (k_events k)) < 2 ^ HEIGHT)%nat.

Lemma last_leaf_index d : LInv d ->
  match last_leaf d with None => 0 | Some l => l_idx l + 1 end = N.of_nat (length (d_leaves d)).
Proof.
  intros Hinv. unfold last_leaf. rewrite (max_by_sorted leaf_key _ (li_sorted _ Hinv)).
  destruct (olast (d_leaves d)) as [l|] eqn:E.
  - pose proof (olast_nth _ _ E) as Hn. rewrite (li_idx _ Hinv _ _ Hn).
    destruct (d_leaves d); [discriminate|]. cbn [length]. lia.
  - destruct (d_leaves d); [reflexivity|discriminate].
Qed.

Theorem process_block_LInv f st k r st' : LInv (st_db st) -> block_ordered st k ->
  process_block f st k = (r, st') -> LInv (st_db st').
Proof.
  intros Hinv (Hord & Hpos & _) H. destruct r as [e|]; [rewrite (process_block_error_keeps_db _ _ _ _ _ H); exact Hinv|].
  unfold process_block in H.
  destruct (st_halted st); [discriminate|].
  destruct (big64 (k_num k)); [discriminate|].
  destruct (hits f _ TBlock); [discriminate|].
  destruct (existsb _ _); [discriminate|].
  set (d := st_db st) in *.
  set (d1 := mkLdb (d_blocks d ++ [(k_num k, k_hash k)]) (d_leaves d) (d_vb d) (d_init d) (d_l1 d) (d_rollup d)) in *.
  assert (Hinv1 : LInv d1).
  { destruct Hinv as [H1 H2 H3 H4 H5]. constructor; unfold d1; cbn [d_leaves d_blocks]; try assumption.
    intros l Hl. rewrite map_app. apply in_or_app. left. apply H3. exact Hl. }
  destruct (process_events _ _ _ _ _) as [err mem added halt|x] eqn:Ev; [discriminate|].
  destruct (hits f (x_cnt x) TCommit); [discriminate|]. inversion H; subst. cbn [st_db].
  refine (proj1 (process_events_LInv f (k_num k) _ (k_events k) _ x Hpos _ _ _ _ Ev)); cbn [x_db x_added].
  - exact Hinv1.
  - unfold d1. cbn [d_blocks]. rewrite map_app. apply in_or_app. right. left. reflexivity.
  - unfold idxrel. cbn [x_added x_db]. rewrite (last_leaf_index d1 Hinv1). cbn. lia.
  - intros l Hl p _. apply key_lt_spec. left. cbn [fst leaf_key].
    unfold d1 in Hl. cbn [d_leaves] in Hl. pose proof (li_blocks _ Hinv l Hl) as Hb.
    apply in_map_iff in Hb as (b & Eb & Hb). rewrite <- Eb. apply Hord. exact Hb.
Qed.

Theorem reorg_LInv st b : LInv (st_db st) -> LInv (st_db (reorg st b)).
Proof.
  intros [H1 H2 H3 H4 H5]. unfold reorg. cbn [st_db]. constructor; cbn [d_leaves d_blocks].
  - apply StronglySorted_filter. exact H1.
  - intros k l Hk. apply H2.
    apply (filter_prefix_nth (fun a b => klt (leaf_key a) (leaf_key b)) (fun r => l_block r <? b)); [exact H1| |exact Hk].
    intros x y Hxy Hy. apply key_lt_spec in Hxy. unfold leaf_key in Hxy. cbn [fst snd] in Hxy. apply N.ltb_lt in Hy. apply N.ltb_lt. lia.
  - intros l Hl. apply filter_In in Hl as [Hl Hb]. pose proof (H3 l Hl) as Hin.
    apply in_map_iff in Hin as (x & Ex & Hx). apply in_map_iff. exists x. split; [exact Ex|].
    apply filter_In. split; [exact Hx|]. rewrite Ex. exact Hb.
  - apply NoDup_map_filter. exact H4.
  - intros l Hl. apply filter_In in Hl as [Hl _]. apply H5. exact Hl.
Qed.

(* histories: every block op satisfies the ordering guarantee in the state it is applied to *)
Fixpoint hist_ordered (ops : list hop) (st : lstate) : Prop :=
  match ops with
  | [] => True
  | o :: t => (match o with HBlock k _ => block_ordered st k | _ => True end) /\ hist_ordered t (step st o)
  end.

Theorem LInv_run ops : forall st, LInv (st_db st) -> hist_ordered ops st -> LInv (st_db (run_hist ops st)).
Proof.
  induction ops as [|o t IH]; intros st Hinv Hord; cbn [run_hist fold_left]; [exact Hinv|].
  destruct Hord as [Ho Ht]. apply IH; [|exact Ht].
  destruct o as [k f|b|]; cbn [step].
  - destruct (process_block f st k) as [r st'] eqn:E. cbn [snd]. exact (process_block_LInv f st k r st' Hinv Ho E).
  - apply reorg_LInv. exact Hinv.
  - exact Hinv.
Qed.

(* C11, first sentence: for ALL histories, the stored leaves are in (block, position) order and carry indices 0..n-1 *)
Theorem l1info_indices_consecutive ops : hist_ordered ops lstate_new ->
  let leaves := d_leaves (st_db (run_hist ops lstate_new)) in
  StronglySorted (fun a b => klt (leaf_key a) (leaf_key b)) leaves /\
  forall k l, nth_error leaves k = Some l -> l_idx l = N.of_nat k.
Proof.
  intros Hord. pose proof (LInv_run ops lstate_new LInv_empty Hord) as [H1 H2 _ _ _]. split; assumption.
Qed.

(* each stored leaf is the GlobalExitRoot contract's leaf: ger = keccak(mainnet, rollup), hash = getLeafValue(ger, parent hash, timestamp) *)
Theorem l1info_leaf_matches_contract ops : hist_ordered ops lstate_new ->
  forall l, In l (d_leaves (st_db (run_hist ops lstate_new))) ->
  l_ger l = ger_of (l_mer l) (l_rer l) /\ l_hash l = l1info_leaf_value (ger_of (l_mer l) (l_rer l)) (l_parent l) (l_ts l).
Proof.
  intros Hord l Hl. pose proof (LInv_run ops lstate_new LInv_empty Hord) as [_ _ _ _ H5].
  destruct (H5 l Hl) as [Hg Hh]. rewrite ger_hash_is_contract_ger in Hg. split; [exact Hg|]. rewrite Hh, leaf_hash_is_contract_leaf, Hg. reflexivity.
Qed.
(* the parent hash and timestamp of the leaf are those of the block header the log came in (downloader conversion) *)
Theorem downloader_conversion_update h idx mer rer :
  convert h (LUpdate idx mer rer) = EUpdate (mkU idx mer rer (h_parent h) (h_ts h)).
Proof. reflexivity. Qed.

(* lookups are total: by index and by global exit root *)
Lemma find_by_index (ls : list leaf_row) : forall off,
  (forall k l, nth_error ls k = Some l -> l_idx l = N.of_nat (off + k)) ->
  forall k l, nth_error ls k = Some l -> find (fun r => l_idx r =? N.of_nat (off + k)) ls = Some l.
Proof.
  induction ls as [|x ls IH]; intros off Hidx k l Hk; [destruct k; discriminate|].
  cbn [find]. destruct k as [|k]; cbn [nth_error] in Hk.
  - inversion Hk; subst. rewrite (Hidx 0%nat l eq_refl). rewrite N.eqb_refl. reflexivity.
  - rewrite (Hidx 0%nat x eq_refl). destruct (N.eqb_spec (N.of_nat (off + 0)) (N.of_nat (off + S k))) as [E|_]; [lia|].
    replace (off + S k)%nat with (S off + k)%nat by lia. apply IH; [|exact Hk].
    intros k' l' Hk'. rewrite (Hidx (S k') l' Hk'). f_equal. lia.
Qed.
Lemma find_by_ger (ls : list leaf_row) l : NoDup (map l_ger ls) -> In l ls -> find (fun r => l_ger r =? l_ger l) ls = Some l.
Proof.
  induction ls as [|x ls IH]; intros Hd Hin; [destruct Hin|]. cbn [find]. cbn [map] in Hd. inversion Hd as [|? ? Hn Hd']; subst.
  destruct Hin as [->|Hin]; [rewrite N.eqb_refl; reflexivity|].
  destruct (N.eqb_spec (l_ger x) (l_ger l)) as [E|_]; [|apply IH; assumption].
  exfalso. apply Hn. rewrite E. apply in_map. exact Hin.
Qed.
Theorem l1info_lookup_total ops : hist_ordered ops lstate_new ->
  let d := st_db (run_hist ops lstate_new) in
  forall k l, nth_error (d_leaves d) k = Some l ->
    info_by_index d (N.of_nat k) = Some l /\ info_by_ger d (l_ger l) = Some l.
Proof.
  intros Hord d k l Hk. pose proof (LInv_run ops lstate_new LInv_empty Hord) as [_ H2 _ H4 _]. fold d in H2, H4. split.
  - unfold info_by_index. apply (find_by_index (d_leaves d) 0%nat); [intros k' l' Hk'; cbn; apply H2; exact Hk'|exact Hk].
  - unfold info_by_ger. apply find_by_ger; [exact H4|]. apply nth_error_In with k. exact Hk.
Qed.

(* ====================================================================================================
   3. Executable tree store <-> the generic Merkle theory
   ==================================================================================================== *)

Lemma pow32_nat : N.to_nat 4294967296 = (2 ^ HEIGHT)%nat.
Proof. change 4294967296 with (2 ^ 32)%N. rewrite N2Nat.inj_pow. reflexivity. Qed.
Lemma u32_lt_pow x : x <= mask32 -> (N.to_nat x < 2 ^ HEIGHT)%nat.
Proof. intros H. rewrite <- pow32_nat. unfold mask32 in H. lia. Qed.

Section MapExt0.
Context {hash : Type}.
Lemma zeros_ext_zh (zh zh' : nat -> hash) : forall h, (forall l, (l < h)%nat -> zh l = zh' l) -> zeros zh h = zeros zh' h.
Proof.
  induction h as [|h IH]; intros E; cbn [zeros]; [reflexivity|]. rewrite IH by (intros l Hl; apply E; lia). rewrite E by lia. reflexivity.
Qed.
Lemma swalk_ext_zm (zh zh' : nat -> hash) (m m' : @Merkle.rht hash) : (forall x, m x = m' x) ->
  forall h, (forall l, (l < h)%nat -> zh l = zh' l) -> forall x bit, swalk zh m h x bit = swalk zh' m' h x bit.
Proof.
  intros E. induction h as [|h IH]; intros Ez x bit; cbn [swalk]; [reflexivity|].
  rewrite <- E. destruct (m x) as [[l r]|].
  - destruct (bit h); rewrite (IH (fun l Hl => Ez l (Nat.lt_lt_succ_r _ _ Hl))); reflexivity.
  - change (zeros zh h ++ [zh h] = zeros zh' h ++ [zh' h]). rewrite (zeros_ext_zh zh zh' h) by (intros l Hl; apply Ez; lia).
    rewrite Ez by lia. reflexivity.
Qed.
Lemma walk_ext_m (m m' : @Merkle.rht hash) : (forall x, m x = m' x) -> forall h x bit, walk m h x bit = walk m' h x bit.
Proof.
  intros E. induction h as [|h IH]; intros x bit; cbn [walk]; [reflexivity|].
  rewrite <- E. destruct (m x) as [[l r]|]; [|reflexivity]. destruct (bit h); rewrite IH; reflexivity.
Qed.
Lemma path_index_ext h : forall k (b b' : nat -> bool), (forall l, (l < h)%nat -> b l = b' l) -> path_index h k b = path_index h k b'.
Proof.
  induction h as [|h IH]; intros k b b' E; cbn [path_index]; [reflexivity|].
  rewrite (E h) by lia. apply IH. intros l Hl. apply E. lia.
Qed.
End MapExt0.
Section MapExt1.
Context {hash : Type}.
Variable heq_dec : forall a b : hash, {a = b} + {a <> b}.
Lemma ins_ext' (m m' : @Merkle.rht hash) k v : (forall x, m x = m' x) -> forall x, ins heq_dec m k v x = ins heq_dec m' k v x.
Proof. intros E x. unfold ins. rewrite !E. reflexivity. Qed.
Lemma ins_all_ext' ns : forall (m m' : @Merkle.rht hash), (forall x, m x = m' x) -> forall x, ins_all heq_dec m ns x = ins_all heq_dec m' ns x.
Proof.
  induction ns as [|n ns IH]; intros m m' E x; cbn [ins_all fold_left]; [apply E|].
  apply IH. apply ins_ext'. exact E.
Qed.
End MapExt1.
Section MapExt2.
Context {hash : Type}.
Variable node : hash -> hash -> hash.
Variable z0 : hash.
Lemma CL_ext_m (m m' : @Merkle.rht hash) g : (forall x, m x = m' x) -> forall h k, CL node z0 m g h k -> CL node z0 m' g h k.
Proof.
  intros E. induction h as [|h IH]; intros k Hc; cbn [CL] in *; [exact I|].
  rewrite <- E. destruct Hc as [(Hs & H1 & H2)|Hz]; [left|right; exact Hz]. split; [exact Hs|]. split; apply IH; assumption.
Qed.
Lemma WF_ext_m (m m' : @Merkle.rht hash) : (forall x, m x = m' x) -> WF node m -> WF node m'.
Proof. intros E Hw k l r H. apply Hw. rewrite E. exact H. Qed.
End MapExt2.

Lemma store_nodes_f_ok f t ns : forall c m m' c', store_nodes_f f t c m ns = Some (m', c') -> m' = store_nodes m ns.
Proof.
  unfold store_nodes_f, store_nodes.
  assert (Hnone : forall ns, fold_left (fun (acc : option (NM.t (N * N) * counters)) n => match acc with
                          | None => None
                          | Some (m, c) => if hits f c t then None else
                                           match NM.find (fst n) m with
                                           | Some _ => Some (m, c)
                                           | None => Some (NM.add (fst n) (snd n) m, bump c t) end
                          end) ns None = None) by (induction ns0 as [|? ? IHn]; [reflexivity|exact IHn]).
  induction ns as [|n ns IH]; intros c m m' c' H; cbn [fold_left] in *; [inversion H; reflexivity|].
  destruct (hits f c t); [rewrite Hnone in H; discriminate|].
  revert H. unfold store_node. change NM.key with N in *. destruct (NM.find (fst n) m); intros H; eapply IH; exact H.
Qed.

(* the precomputed zero table, the N-indexed bit test and the nat-indexed theory *)
Lemma height_le_32 : (HEIGHT <= 32)%nat.
Proof. unfold HEIGHT. lia. Qed.
Lemma height_ge_32 : (32 <= HEIGHT)%nat.
Proof. unfold HEIGHT. lia. Qed.
Lemma small_lt_pow n : (n <= 32)%nat -> (n < 2 ^ HEIGHT)%nat.
Proof.
  intros H. pose proof height_ge_32 as Hh. pose proof (Nat.pow_gt_lin_r 2 HEIGHT ltac:(lia)) as Hp.
  set (p := (2 ^ HEIGHT)%nat) in *. clearbody p. lia.
Qed.
Lemma swalk_exec (m : @Merkle.rht N) x bit : swalk zh m HEIGHT x bit = swalk (zero nodeN 0) m HEIGHT x bit.
Proof. apply (swalk_ext_zm zh (zero nodeN 0) m m (fun _ => eq_refl)). intros l Hl. apply zh_is_zero. unfold HEIGHT in Hl. lia. Qed.
Lemma path_index_exec idx : idx <= mask32 -> path_index HEIGHT 0 (bitN idx) = N.to_nat idx.
Proof.
  intros H. rewrite <- (path_index_root HEIGHT (N.to_nat idx) (u32_lt_pow idx H)).
  apply path_index_ext. intros l _. rewrite <- (N2Nat.id idx) at 1. apply bitN_of_nat.
Qed.

(* from here on the tree height is a black box: nothing may unfold a depth-32 recursion *)
Opaque HEIGHT.

(* TreeStore.last_root (ORDER BY block_num DESC, block_position DESC LIMIT 1) as max_by *)
Definition rkey (r : root_row) : N * N := (r_block r, r_bpos r).
Lemma last_root_max_by db : last_root db = max_by rkey (t_roots db).
Proof.
  unfold last_root, max_by. generalize (@None root_row). induction (t_roots db) as [|r l IH]; intros acc; cbn [fold_left]; [reflexivity|].
  rewrite IH. f_equal. destruct acc as [a|]; [|reflexivity].
  unfold root_after, key_lt, rkey. cbn [fst snd]. rewrite (N.eqb_sym (r_block r) (r_block a)). reflexivity.
Qed.
Lemma StronglySorted_map {A B} (R : B -> B -> Prop) (f : A -> B) l :
  StronglySorted (fun a b => R (f a) (f b)) l -> StronglySorted R (map f l).
Proof.
  induction 1 as [|x l Hs IH Hx]; cbn [map]; constructor; [exact IH|].
  rewrite Forall_forall in *. intros y Hy. apply in_map_iff in Hy as (z & <- & Hz). apply Hx. exact Hz.
Qed.
Lemma olast_map {A B} (f : A -> B) l : olast (map f l) = option_map f (olast l).
Proof.
  destruct l as [|x t]; [reflexivity|]. cbn [map olast option_map]. f_equal.
  revert x. induction t as [|y t IH]; intros x; [reflexivity|]. cbn [map last].
  destruct t; [reflexivity|]. apply IH.
Qed.

(* ====================================================================================================
   4. The rollup exit tree
   ==================================================================================================== *)
Section Rollup.
(* Keccak idealised as an injective node function (the hypothesis of Proofs/SparseUpsert.v) *)
Hypothesis nodeN_inj : forall a b c d, nodeN a b = nodeN c d -> a = c /\ b = d.

Notation CLN := (CL nodeN 0).
Notation SRoot g := (ssub nodeN g HEIGHT 0).

(* position and leaf function described by the verify_batches table *)
Definition ridx (rid : N) : nat := N.to_nat (u32_pred rid).
Definition gstep (g : nat -> N) (r : vb_row) : nat -> N := supd g (ridx (vr_rid r)) (vr_exit r).
Definition gmap (rows : list vb_row) : nat -> N := fold_left gstep rows (fun _ => 0).
Definition root_of_row (r : vb_row) : root_row := mkRoot (vr_rer r) (u32_pred (vr_rid r)) (vr_block r) (vr_pos r).

Record RInv (d : ldb) : Prop := {
  ri_wf : WF nodeN (lookup (d_rollup d));
  ri_roots : t_roots (d_rollup d) = map root_of_row (d_vb d);
  ri_cl : forall n, (n <= length (d_vb d))%nat -> CLN (lookup (d_rollup d)) (gmap (firstn n (d_vb d))) HEIGHT 0;
  ri_rer : forall n r, nth_error (d_vb d) n = Some r -> vr_rer r = SRoot (gmap (firstn (S n) (d_vb d)));
  ri_sorted : StronglySorted (fun a b => klt (vb_key a) (vb_key b)) (d_vb d);
  ri_blocks : forall r, In r (d_vb d) -> In (vr_block r) (map fst (d_blocks d));
  ri_small : forall r, In r (d_vb d) -> vr_rid r <= mask32 /\ vr_exit r <> 0 }.

Lemma lookup_empty_WF : WF nodeN (lookup tdb_empty).
Proof. intros k l r H. unfold lookup, tdb_empty in H. cbn [t_rht] in H. rewrite NMF.empty_o in H. discriminate. Qed.
Lemma RInv_empty : RInv ldb_empty.
Proof.
  constructor; unfold ldb_empty; cbn [d_vb d_rollup d_blocks length map t_roots tdb_empty].
  - apply lookup_empty_WF.
  - reflexivity.
  - intros n Hn. destruct n; [|lia]. cbn [firstn gmap fold_left]. apply (CL_empty nodeN 0 nodeN_inj). apply lookup_empty_WF.
  - intros [|n] r H; discriminate.
  - constructor.
  - intros r [].
  - intros r [].
Qed.

Lemma u32_pred_small rid : rid <= mask32 -> u32_pred rid <= mask32.
Proof. unfold u32_pred, mask32. destruct (N.eqb_spec rid 0); lia. Qed.

(* the root the next UpsertLeaf starts from is the root of the current leaf function *)
Lemma RInv_current_root d : RInv d ->
  match last_root (d_rollup d) with None => zh HEIGHT | Some r => r_hash r end = SRoot (gmap (d_vb d)) /\
  (last_root (d_rollup d) = None -> d_vb d = []).
Proof.
  intros Hi. rewrite last_root_max_by, (ri_roots _ Hi).
  rewrite (max_by_sorted rkey); [|apply StronglySorted_map; exact (ri_sorted _ Hi)].
  rewrite olast_map. destruct (olast (d_vb d)) as [r|] eqn:E; cbn [option_map].
  - split; [|discriminate]. cbn [root_of_row r_hash]. pose proof (olast_nth _ _ E) as Hn.
    rewrite (ri_rer _ Hi _ _ Hn). f_equal. f_equal.
    destruct (d_vb d) as [|x t]; [discriminate|]. cbn [length]. replace (S (S (length t) - 1))%nat with (length (x :: t)) by (cbn; lia).
    apply firstn_all.
  - destruct (d_vb d); [|discriminate]. split; [|reflexivity]. cbn [gmap fold_left].
    pose proof (ssub_empty nodeN 0 HEIGHT 0) as Ee. cbv beta in Ee. rewrite Ee. apply zh_is_zero. apply height_le_32.
Qed.

(* isNewValueForRollupExitTree answers "the stored leaf differs from the event's exit root" *)
Lemma is_new_value_spec d idx exit : RInv d -> idx <= mask32 -> exit <> 0 ->
  is_new_value (d_rollup d) idx exit = negb (gmap (d_vb d) (N.to_nat idx) =? exit).
Proof.
  intros Hi Hidx Hex. unfold is_new_value. destruct (RInv_current_root d Hi) as [Hroot Hnone].
  destruct (last_root (d_rollup d)) as [r|] eqn:El.
  - unfold get_leaf, Gen.get_leaf. rewrite Hroot.
    pose proof (walk_closed nodeN 0 nodeN_inj (lookup (d_rollup d)) (gmap (d_vb d)) HEIGHT 0 (bitN idx)) as Hw.
    rewrite (path_index_exec idx Hidx) in Hw. cbv beta in Hw.
    assert (Hc : CLN (lookup (d_rollup d)) (gmap (d_vb d)) HEIGHT 0).
    { rewrite <- (firstn_all (d_vb d)). apply (ri_cl _ Hi). lia. }
    specialize (Hw Hc). destruct (walk _ _ _ _) as [[s y]|]; [rewrite Hw; reflexivity|].
    rewrite Hw. symmetry. apply negb_true_iff. apply N.eqb_neq. congruence.
  - rewrite (Hnone eq_refl). cbn [gmap fold_left]. symmetry. apply negb_true_iff. apply N.eqb_neq. congruence.
Qed.

(* UpdatableTree.UpsertLeaf on a store satisfying the invariant: the root of the updated leaf function, store still closed *)
Lemma upsert_f_spec f c d blk pos idx exit newroot t' c1 :
  RInv d -> idx <= mask32 ->
  upsert_f f c (d_rollup d) blk pos idx exit = inr (newroot, t', c1) ->
  let g' := supd (gmap (d_vb d)) (N.to_nat idx) exit in
  newroot = SRoot g' /\ t_roots t' = t_roots (d_rollup d) ++ [mkRoot newroot idx blk pos] /\
  WF nodeN (lookup t') /\ CLN (lookup t') g' HEIGHT 0 /\
  (forall g0, CLN (lookup (d_rollup d)) g0 HEIGHT 0 -> CLN (lookup t') g0 HEIGHT 0).
Proof.
  intros Hi Hidx H. cbv zeta. unfold upsert_f in H.
  destruct (RInv_current_root d Hi) as [Hroot _]. rewrite Hroot in H. rewrite swalk_exec in H.
  assert (Hc := ri_cl _ Hi (length (d_vb d)) (Nat.le_refl _)). rewrite firstn_all in Hc.
  pose proof (upsert_correct nodeN 0 nodeN_inj N.eq_dec (lookup (d_rollup d)) (gmap (d_vb d)) HEIGHT 0 (bitN idx) exit
                (ri_wf _ Hi) Hc) as Hu.
  cbv zeta beta in Hu. rewrite (path_index_exec idx Hidx) in Hu.
  destruct (upsert_climb nodeN 0 _ exit (bitN idx)) as [nr nodes] eqn:Eu. cbn [fst snd] in Hu.
  destruct Hu as (Hr & Hw & Hcl & Hold).
  unfold store_root_f in H. destruct (hits f c TRollupRoot); [discriminate H|].
  unfold store_root in H. destruct (existsb _ _); [discriminate H|].
  cbn [t_rht t_roots] in H.
  destruct (store_nodes_f f TRollupRht _ (t_rht (d_rollup d)) nodes) as [[rht' c2]|] eqn:En; [|discriminate H].
  inversion H; subst. apply store_nodes_f_ok in En. subst rht'.
  assert (Em : forall y, lookup (mkTdb (t_roots (d_rollup d) ++ [mkRoot (SRoot (supd (gmap (d_vb d)) (N.to_nat idx) exit)) idx blk pos])
                                       (store_nodes (t_rht (d_rollup d)) nodes)) y
                         = ins_all N.eq_dec (lookup (d_rollup d)) nodes y).
  { intros y. exact (lk_store_nodes nodes (t_rht (d_rollup d)) y). }
  split; [reflexivity|]. split; [reflexivity|].
  split; [eapply WF_ext_m; [intros y; symmetry; apply Em|exact Hw]|].
  split; [eapply CL_ext_m; [intros y; symmetry; apply Em|exact Hcl]|].
  intros g0 H0. eapply CL_ext_m; [intros y; symmetry; apply Em|]. apply Hold. exact H0.
Qed.

(* what a verify event means for the leaf function: the last NON-ZERO exit root verified for the rollup *)
Definition apply_verify (g : nat -> N) (e : event) : nat -> N :=
  match e with EVerify b => if vb_exit b =? 0 then g else supd g (ridx (vb_rid b)) (vb_exit b) | _ => g end.

Lemma gmap_snoc rows r : gmap (rows ++ [r]) = gstep (gmap rows) r.
Proof. unfold gmap. rewrite fold_left_app. reflexivity. Qed.
Lemma firstn_snoc_le {A} (l : list A) x n : (n <= length l)%nat -> firstn n (l ++ [x]) = firstn n l.
Proof. intros H. rewrite firstn_app. replace (n - length l)%nat with 0%nat by lia. cbn [firstn]. apply app_nil_r. Qed.

Lemma process_event_rollup_tables f blk init x e x' : process_event f blk init x e = EvOk x' ->
  match e with EVerify _ => True | _ => d_vb (x_db x') = d_vb (x_db x) /\ d_rollup (x_db x') = d_rollup (x_db x) end.
Proof.
  destruct e as [u|v|b|count root]; cbn [process_event]; intros H; [| | exact I |].
  - destruct (big64 (u_pos u) || big64 (u_ts u)); [discriminate|].
    destruct (hits f (x_cnt x) TLeaf); [discriminate|].
    destruct (existsb _ (d_leaves (x_db x))); [discriminate|].
    destruct (tree_add_f _ _ _ _ _ _ _ _) as [mem' [err|[t' c2]]]; [discriminate|].
    inversion H; subst. split; reflexivity.
  - destruct (last_root _) as [r|]; [|discriminate].
    destruct (_ || _); [discriminate|]. inversion H; subst. split; reflexivity.
  - destruct (hits f (x_cnt x) TInit); [discriminate|].
    destruct (d_init (x_db x)); [discriminate|]. inversion H; subst. split; reflexivity.
Qed.

Lemma process_event_RInv f blk init x e x' :
  RInv (x_db x) -> In blk (map fst (d_blocks (x_db x))) -> vb_small e ->
  (forall r, In r (d_vb (x_db x)) -> forall p, In p (vb_posl e) -> klt (vb_key r) (blk, p)) ->
  process_event f blk init x e = EvOk x' ->
  RInv (x_db x') /\ (forall i, gmap (d_vb (x_db x')) i = apply_verify (gmap (d_vb (x_db x))) e i) /\
  (forall r, In r (d_vb (x_db x')) -> In r (d_vb (x_db x)) \/ exists p, In p (vb_posl e) /\ vb_key r = (blk, p)).
Proof.
  intros Hi Hblk Hsmall Hbound Hev.
  pose proof (process_event_tables _ _ _ _ _ _ Hev) as [Hb _].
  pose proof (process_event_rollup_tables _ _ _ _ _ _ Hev) as Hrt.
  assert (Hsame : d_vb (x_db x') = d_vb (x_db x) -> d_rollup (x_db x') = d_rollup (x_db x) ->
                  RInv (x_db x') /\ (forall i, gmap (d_vb (x_db x')) i = gmap (d_vb (x_db x)) i) /\
                  (forall r, In r (d_vb (x_db x')) -> In r (d_vb (x_db x)))).
  { intros E1 E2. split; [|split; [intros i; rewrite E1; reflexivity|intros r Hr; rewrite E1 in Hr; exact Hr]].
    destruct Hi as [H1 H2 H3 H4 H5 H6 H7]. constructor; rewrite ?E1, ?E2, ?Hb; assumption. }
  destruct e as [u|v|b|count root]; try (destruct (Hsame (proj1 Hrt) (proj2 Hrt)) as (R1 & R2 & R3);
    split; [exact R1|split; [exact R2|intros r Hr; left; apply R3; exact Hr]]).
  cbn [process_event] in Hev. cbn [apply_verify vb_small vb_posl] in *.
  destruct (vb_exit b =? 0) eqn:Ez.
  { inversion Hev; subst. destruct (Hsame eq_refl eq_refl) as (R1 & R2 & R3).
    split; [exact R1|split; [exact R2|intros r Hr; left; exact Hr]]. }
  apply N.eqb_neq in Ez.
  assert (Hidx : u32_pred (vb_rid b) <= mask32) by (apply u32_pred_small; exact Hsmall).
  rewrite (is_new_value_spec _ _ _ Hi Hidx Ez) in Hev. rewrite negb_involutive in Hev.
  destruct (gmap (d_vb (x_db x)) (N.to_nat (u32_pred (vb_rid b))) =? vb_exit b) eqn:Esame.
  { (* unchanged exit root: skipped, and writing it again would not change the leaf function *)
    inversion Hev; subst. destruct (Hsame eq_refl eq_refl) as (R1 & R2 & R3).
    split; [exact R1|split; [|intros r Hr; left; exact Hr]].
    intros i. unfold supd, ridx. apply N.eqb_eq in Esame. destruct (Nat.eqb_spec i (N.to_nat (u32_pred (vb_rid b)))); [subst i; exact Esame|reflexivity]. }
  destruct (big64 (vb_pos b)); [discriminate|].
  destruct (upsert_f f (x_cnt x) (d_rollup (x_db x)) blk (vb_pos b) (u32_pred (vb_rid b)) (vb_exit b)) as [err|[[newroot t'] c1]] eqn:Eu; [discriminate|].
  destruct (big64 (vb_batch b)); [discriminate|].
  destruct (hits f c1 TVerify); [discriminate|].
  destruct (existsb _ (d_vb (x_db x))); [discriminate|]. inversion Hev; subst. clear Hev.
  destruct (upsert_f_spec _ _ _ _ _ _ _ _ _ _ Hi Hidx Eu) as (Hnr & Hroots & Hw & Hcl & Hold). cbv zeta in Hnr, Hcl.
  set (row := mkVbRow blk (vb_pos b) (vb_rid b) (vb_batch b) (vb_sroot b) (vb_exit b) (vb_agg b) newroot) in *.
  cbn [x_db set_vb d_vb d_rollup d_blocks].
  assert (Eg : gmap (d_vb (x_db x) ++ [row]) = supd (gmap (d_vb (x_db x))) (N.to_nat (u32_pred (vb_rid b))) (vb_exit b)).
  { rewrite gmap_snoc. reflexivity. }
  destruct Hi as [H1 H2 H3 H4 H5 H6 H7].
  split; [|split].
  - constructor; cbn [d_vb d_rollup d_blocks set_vb].
    + exact Hw.
    + rewrite Hroots, H2, map_app. reflexivity.
    + intros n Hn. rewrite app_length in Hn. cbn [length] in Hn.
      destruct (Nat.eq_dec n (length (d_vb (x_db x)) + 1)) as [->|Hne].
      * rewrite firstn_all2 by (rewrite app_length; cbn; lia). rewrite Eg. exact Hcl.
      * rewrite firstn_snoc_le by lia. apply Hold. apply H3. lia.
    + intros n r Hn. apply nth_error_snoc in Hn as [Hn|[-> ->]].
      * assert (Hlt : (n < length (d_vb (x_db x)))%nat) by (apply nth_error_Some; congruence).
        rewrite firstn_snoc_le by lia. apply H4. exact Hn.
      * rewrite firstn_all2 by (rewrite app_length; cbn; lia). rewrite Eg. exact Hnr.
    + apply StronglySorted_snoc; [exact H5|]. intros y Hy. apply (Hbound y Hy (vb_pos b)). left. reflexivity.
    + intros r Hr. apply in_app_or in Hr as [Hr|[<-|[]]]; [apply H6; exact Hr|exact Hblk].
    + intros r Hr. apply in_app_or in Hr as [Hr|[<-|[]]]; [apply H7; exact Hr|]. split; [exact Hsmall|exact Ez].
  - intros i. rewrite Eg. reflexivity.
  - intros r Hr. apply in_app_or in Hr as [Hr|[<-|[]]]; [left; exact Hr|]. right. exists (vb_pos b). split; [left; reflexivity|reflexivity].
Qed.

Lemma sorted_tail_app {A} (R : A -> A -> Prop) (a b : list A) : StronglySorted R (a ++ b) -> StronglySorted R b.
Proof. induction a as [|x a IH]; [auto|]. cbn [app]. intros H. inversion H; subst. apply IH. assumption. Qed.
Lemma sorted_app_lt (a b : list N) p q : StronglySorted N.lt (a ++ b) -> In p a -> In q b -> p < q.
Proof.
  induction a as [|x a IH]; intros Hs Hp Hq; [destruct Hp|]. cbn [app] in Hs. inversion Hs as [|? ? Hs' Hall]; subst.
  destruct Hp as [->|Hp]; [|apply IH; assumption]. rewrite Forall_forall in Hall. apply Hall. apply in_or_app. right. exact Hq.
Qed.

Lemma process_events_RInv f blk init : forall es x x',
  StronglySorted N.lt (flat_map vb_posl es) -> Forall vb_small es ->
  RInv (x_db x) -> In blk (map fst (d_blocks (x_db x))) ->
  (forall r, In r (d_vb (x_db x)) -> forall p, In p (flat_map vb_posl es) -> klt (vb_key r) (blk, p)) ->
  process_events f blk init x es = EvOk x' ->
  RInv (x_db x') /\ (forall i, gmap (d_vb (x_db x')) i = fold_left apply_verify es (gmap (d_vb (x_db x))) i).
Proof.
  induction es as [|e es IH]; intros x x' Hpos Hsm Hinv Hblk Hbound Hev; cbn [process_events] in Hev.
  - inversion Hev; subst. split; [exact Hinv|reflexivity].
  - destruct (process_event f blk init x e) as [err mem added halt|x1] eqn:E1; [discriminate|].
    cbn [flat_map] in Hpos, Hbound. inversion Hsm as [|? ? Hs1 Hsm']; subst.
    pose proof (process_event_tables _ _ _ _ _ _ E1) as [Hb1 _].
    destruct (process_event_RInv f blk init x e x1 Hinv Hblk Hs1) as (Hinv1 & Hg1 & Hnew); [|exact E1|].
    { intros r Hr p Hp. apply (Hbound r Hr p). apply in_or_app. left. exact Hp. }
    destruct (IH x1 x' (sorted_tail_app _ _ _ Hpos) Hsm' Hinv1) as [Hinv' Hg']; [rewrite Hb1; exact Hblk| |exact Hev|].
    + intros r Hr p Hp. destruct (Hnew r Hr) as [Hold|(p0 & Hp0 & Hk)].
      * apply (Hbound r Hold p). apply in_or_app. right. exact Hp.
      * rewrite Hk. apply key_lt_spec. right. cbn [fst snd]. split; [reflexivity|]. exact (sorted_app_lt _ _ _ _ Hpos Hp0 Hp).
    + split; [exact Hinv'|]. intros i. rewrite Hg'. cbn [fold_left].
      (* fold_left respects pointwise equality of the starting leaf function *)
      clear -Hg1. revert i. generalize (gmap (d_vb (x_db x1))) (apply_verify (gmap (d_vb (x_db x))) e) Hg1.
      induction es as [|e2 es IHes]; intros g1 g2 Hg i; cbn [fold_left]; [apply Hg|].
      apply IHes. intros j. destruct e2 as [u|v|b|c r]; cbn [apply_verify]; try apply Hg.
      destruct (vb_exit b =? 0); [apply Hg|]. unfold supd. destruct (Nat.eqb j (ridx (vb_rid b))); [reflexivity|apply Hg].
Qed.

Theorem process_block_RInv f st k r st' : RInv (st_db st) -> block_ordered st k ->
  process_block f st k = (r, st') ->
  RInv (st_db st') /\
  (r = None -> forall i, gmap (d_vb (st_db st')) i = fold_left apply_verify (k_events k) (gmap (d_vb (st_db st))) i).
Proof.
  intros Hinv (Hord & _ & Hpos & Hsm & _) H. destruct r as [e|].
  { rewrite (process_block_error_keeps_db _ _ _ _ _ H). split; [exact Hinv|discriminate]. }
  unfold process_block in H.
  destruct (st_halted st); [discriminate|].
  destruct (big64 (k_num k)); [discriminate|].
  destruct (hits f _ TBlock); [discriminate|].
  destruct (existsb _ _); [discriminate|].
  set (d := st_db st) in *.
  set (d1 := mkLdb (d_blocks d ++ [(k_num k, k_hash k)]) (d_leaves d) (d_vb d) (d_init d) (d_l1 d) (d_rollup d)) in *.
  assert (Hinv1 : RInv d1).
  { destruct Hinv as [H1 H2 H3 H4 H5 H6 H7]. constructor; unfold d1; cbn [d_vb d_rollup d_blocks]; try assumption.
    intros r Hr. rewrite map_app. apply in_or_app. left. apply H6. exact Hr. }
  destruct (process_events _ _ _ _ _) as [err mem added halt|x] eqn:Ev; [discriminate|].
  destruct (hits f (x_cnt x) TCommit); [discriminate|]. inversion H; subst. cbn [st_db].
  pose proof (fun H1 H2 H3 => process_events_RInv f (k_num k) _ (k_events k) _ x Hpos Hsm H1 H2 H3 Ev) as HR.
  destruct HR as [R1 R2]; [exact Hinv1| | |].
  - unfold d1. cbn [x_db d_blocks]. rewrite map_app. apply in_or_app. right. left. reflexivity.
  - intros r Hr p _. apply key_lt_spec. left. cbn [fst vb_key].
    unfold d1 in Hr. cbn [x_db d_vb] in Hr. pose proof (ri_blocks _ Hinv r Hr) as Hb.
    apply in_map_iff in Hb as (b & Eb & Hb). rewrite <- Eb. apply Hord. exact Hb.
  - split; [exact R1|]. intros _ i. apply R2.
Qed.

(* a downward-closed filter of a sorted table is a prefix *)
Lemma filter_sorted_firstn {A} (R : A -> A -> Prop) p (l : list A) :
  StronglySorted R l -> (forall a b, R a b -> p b = true -> p a = true) ->
  filter p l = firstn (length (filter p l)) l.
Proof.
  induction 1 as [|y l Hs IH Hy]; intros Hmono; cbn [filter]; [reflexivity|].
  destruct (p y) eqn:Py.
  - cbn [length firstn]. f_equal. apply IH. exact Hmono.
  - assert (E : filter p l = []).
    { clear IH. induction l as [|z l IHl]; [reflexivity|]. cbn [filter].
      inversion Hy as [|? ? Hz Hy']; subst. inversion Hs as [|? ? Hs' Hz']; subst.
      destruct (p z) eqn:Pz; [rewrite (Hmono _ _ Hz Pz) in Py; discriminate|]. apply IHl; assumption. }
    rewrite E. reflexivity.
Qed.
Lemma filter_map_comm {A B} (f : A -> B) (p : B -> bool) l : filter p (map f l) = map f (filter (fun x => p (f x)) l).
Proof. induction l as [|x l IH]; [reflexivity|]. cbn [map filter]. destruct (p (f x)); cbn [map]; rewrite IH; reflexivity. Qed.

Lemma nth_error_firstn_some {A} k : forall (l : list A) n x, nth_error (firstn k l) n = Some x -> nth_error l n = Some x /\ (n < k)%nat.
Proof.
  induction k as [|k IH]; intros l n x H; [destruct n; discriminate|].
  destruct l as [|y l]; [destruct n; discriminate|]. cbn [firstn] in H. destruct n as [|n]; cbn [nth_error] in *.
  - split; [exact H|lia].
  - destruct (IH l n x H). split; [assumption|lia].
Qed.

Theorem reorg_RInv st b : RInv (st_db st) -> RInv (st_db (reorg st b)).
Proof.
  intros [H1 H2 H3 H4 H5 H6 H7]. unfold reorg. cbn [st_db].
  set (rows := d_vb (st_db st)) in *.
  set (keep := filter (fun r => vr_block r <? b) rows).
  assert (Epre : keep = firstn (length keep) rows).
  { apply (filter_sorted_firstn (fun a b => klt (vb_key a) (vb_key b))); [exact H5|].
    intros x y Hxy Hy. apply key_lt_spec in Hxy. unfold vb_key in Hxy. cbn [fst snd] in Hxy. apply N.ltb_lt in Hy. apply N.ltb_lt. lia. }
  assert (Hlen : (length keep <= length rows)%nat) by (rewrite Epre at 1; rewrite firstn_length; lia).
  constructor; cbn [d_vb d_rollup d_blocks]; fold keep.
  - exact H1.
  - unfold tree_reorg. cbn [t_roots]. rewrite H2, filter_map_comm. reflexivity.
  - intros n Hn. unfold tree_reorg, lookup. cbn [t_rht]. rewrite Epre, firstn_firstn.
    replace (Nat.min n (length keep)) with n by lia. apply H3. lia.
  - intros n r Hn. rewrite Epre in Hn. apply nth_error_firstn_some in Hn as [Hn Hlt].
    rewrite Epre, firstn_firstn. replace (Nat.min (S n) (length keep)) with (S n) by lia. apply H4. exact Hn.
  - apply StronglySorted_filter. exact H5.
  - intros r Hr. apply filter_In in Hr as [Hr Hb]. pose proof (H6 r Hr) as Hin.
    apply in_map_iff in Hin as (x & Ex & Hx). apply in_map_iff. exists x. split; [exact Ex|].
    apply filter_In. split; [exact Hx|]. rewrite Ex. exact Hb.
  - intros r Hr. apply filter_In in Hr as [Hr _]. apply H7. exact Hr.
Qed.

Theorem RInv_run ops : forall st, RInv (st_db st) -> hist_ordered ops st -> RInv (st_db (run_hist ops st)).
Proof.
  induction ops as [|o t IH]; intros st Hinv Hord; cbn [run_hist fold_left]; [exact Hinv|].
  destruct Hord as [Ho Ht]. apply IH; [|exact Ht].
  destruct o as [k f|b|]; cbn [step].
  - destruct (process_block f st k) as [r st'] eqn:E. cbn [snd]. exact (proj1 (process_block_RInv f st k r st' Hinv Ho E)).
  - apply reorg_RInv. exact Hinv.
  - exact Hinv.
Qed.

(* ---------- what every reachable store answers about the rollup exit tree ---------- *)
Theorem rollup_tree_invariant ops : hist_ordered ops lstate_new -> RInv (st_db (run_hist ops lstate_new)).
Proof. intros H. apply RInv_run; [apply RInv_empty|exact H]. Qed.

(* the root recorded with the n-th accepted update (verify_batches.rollup_exit_root and the tree's root row) is the reference
   sparse Merkle root of the leaf map after the first n+1 accepted updates *)
Theorem rollup_root_is_sparse_root ops : hist_ordered ops lstate_new ->
  let d := st_db (run_hist ops lstate_new) in
  forall n r, nth_error (d_vb d) n = Some r ->
    vr_rer r = sroot nodeN (gmap (firstn (S n) (d_vb d))) HEIGHT /\
    nth_error (t_roots (d_rollup d)) n = Some (mkRoot (vr_rer r) (u32_pred (vr_rid r)) (vr_block r) (vr_pos r)).
Proof.
  intros Hord d n r Hn. pose proof (rollup_tree_invariant ops Hord) as Hi. fold d in Hi. split.
  - exact (ri_rer _ Hi n r Hn).
  - rewrite (ri_roots _ Hi). apply (map_nth_error root_of_row). exact Hn.
Qed.

(* a successfully processed block moves the leaf map exactly by "last non-zero exit root verified per rollup":
   zero exit roots are ignored, unchanged ones change nothing, rollup id 0 lands on position 2^32-1 *)
Theorem rollup_tree_is_last_nonzero f st k st' : RInv (st_db st) -> block_ordered st k ->
  process_block f st k = (None, st') ->
  forall i, gmap (d_vb (st_db st')) i = fold_left apply_verify (k_events k) (gmap (d_vb (st_db st))) i.
Proof. intros Hi Ho H. exact (proj2 (process_block_RInv f st k None st' Hi Ho H) eq_refl). Qed.

(* GetLocalExitRoot(id, last recorded root): the stored leaf of rollup id; "not found" only for a rollup that has no exit root *)
Theorem rollup_leaf_lookup d id : RInv d -> 1 <= id -> id - 1 <= mask32 -> d_vb d <> [] ->
  match local_exit_root d id (SRoot (gmap (d_vb d))) with
  | inr v => v = gmap (d_vb d) (N.to_nat (id - 1))
  | inl QNotFound => gmap (d_vb d) (N.to_nat (id - 1)) = 0
  | inl _ => False
  end.
Proof.
  intros Hi H1 Hidx _. unfold local_exit_root. destruct (N.eqb_spec id 0) as [->|_]; [lia|].
  unfold get_leaf, Gen.get_leaf.
  pose proof (walk_closed nodeN 0 nodeN_inj (lookup (d_rollup d)) (gmap (d_vb d)) HEIGHT 0 (bitN (id - 1))) as Hw.
  rewrite (path_index_exec _ Hidx) in Hw. cbv beta in Hw.
  assert (Hc := ri_cl _ Hi (length (d_vb d)) (Nat.le_refl _)). rewrite firstn_all in Hc.
  specialize (Hw Hc). destruct (walk _ _ _ _) as [[s y]|]; exact Hw.
Qed.

(* GetRollupExitTreeMerkleProof(id, R) for every recorded version R: the proof verifies with that version's leaf of rollup id *)
Theorem rollup_proof_verifies d id n : RInv d -> 1 <= id -> id - 1 <= mask32 -> (n <= length (d_vb d))%nat ->
  let g := gmap (firstn n (d_vb d)) in
  calculate_root (g (N.to_nat (id - 1))) (rollup_merkle_proof d id (SRoot g)) (id - 1) = SRoot g.
Proof.
  intros Hi H1 Hidx Hn g. unfold rollup_merkle_proof. destruct (N.eqb_spec id 0) as [->|_]; [lia|].
  unfold get_proof, Gen.get_proof, calculate_root, Gen.calculate_root. rewrite swalk_exec.
  pose proof (proof_verifies_closed nodeN 0 nodeN_inj (lookup (d_rollup d)) g HEIGHT 0 (bitN (id - 1)) (ri_cl _ Hi n Hn)) as Hp.
  cbv beta in Hp. rewrite (path_index_exec _ Hidx) in Hp. exact Hp.
Qed.
End Rollup.

(* ====================================================================================================
   5. The L1 info tree: every reachable store is a reachable state of the generic tree store (Proofs/TreeStoreProofs.v)
   ==================================================================================================== *)
Lemma tree_add_f_ok f c db mem blk bpos idx leaf mem' db' c' :
  tree_add_f f c db mem blk bpos idx leaf = (mem', inr (db', c')) ->
  Gen.add_leaf_exec HEIGHT nodeN zh db mem blk bpos idx leaf = (mem', inr db').
Proof.
  unfold tree_add_f, Gen.add_leaf_exec, init_cache.
  assert (Hgo : forall m0,
    (let '(root, c'0, nodes) := climb3 nodeN zh HEIGHT 0 (bitN idx) leaf (cache_of_list 0 (m_cache m0)) in
     let mem1 := mkTmem (m_last m0) (cache_to_list HEIGHT c'0) in
     match store_root_f f TL1Root c db (mkRoot root idx blk bpos) with
     | inl e => (mem1, inl e)
     | inr (db1, c1) => match store_nodes_f f TL1Rht c1 (t_rht db1) nodes with
                        | None => (mem1, inl PFault)
                        | Some (rht', c2) => (mem1, inr (mkTdb (t_roots db1) rht', c2)) end
     end) = (mem', inr (db', c')) ->
    (let '(root, c'0, nodes) := climb3 nodeN zh HEIGHT 0 (bitN idx) leaf (cache_of_list 0 (m_cache m0)) in
     let mem1 := mkTmem (m_last m0) (cache_to_list HEIGHT c'0) in
     match store_root db (mkRoot root idx blk bpos) with
     | None => (mem1, inl EConstraint)
     | Some db1 => (mem1, inr (mkTdb (t_roots db1) (store_nodes (t_rht db1) nodes)))
     end) = (mem', inr db')).
  { intros m0. destruct (climb3 _ _ _ _ _ _ _) as [[root c0] nodes]. cbv zeta. unfold store_root_f.
    destruct (hits f c TL1Root); [discriminate|]. destruct (store_root db _) as [db1|]; [|discriminate].
    destruct (store_nodes_f _ _ _ _ _) as [[rht' c2]|] eqn:En; [|discriminate].
    intros H. inversion H; subst. apply store_nodes_f_ok in En. subst. reflexivity. }
  destruct (Z.eqb (Z.of_N idx) (m_last mem + 1)); [apply Hgo|].
  destruct (Gen.init_cache HEIGHT db) as [e|m1]; [discriminate|].
  destruct (Z.eqb (Z.of_N idx) (m_last m1 + 1)); [apply Hgo|discriminate].
Qed.
Lemma tree_add_f_fail f c db mem blk bpos idx leaf mem' e mem2 db2 :
  tree_add_f f c db mem blk bpos idx leaf = (mem', inl e) ->
  Gen.add_leaf_exec HEIGHT nodeN zh db mem blk bpos idx leaf = (mem2, inr db2) -> mem' = mem2.
Proof.
  unfold tree_add_f, Gen.add_leaf_exec, init_cache.
  assert (Hgo : forall m0,
    (let '(root, c'0, nodes) := climb3 nodeN zh HEIGHT 0 (bitN idx) leaf (cache_of_list 0 (m_cache m0)) in
     let mem1 := mkTmem (m_last m0) (cache_to_list HEIGHT c'0) in
     match store_root_f f TL1Root c db (mkRoot root idx blk bpos) with
     | inl e => (mem1, inl e)
     | inr (db1, c1) => match store_nodes_f f TL1Rht c1 (t_rht db1) nodes with
                        | None => (mem1, inl PFault)
                        | Some (rht', c2) => (mem1, inr (mkTdb (t_roots db1) rht', c2)) end
     end) = (mem', inl e) ->
    (let '(root, c'0, nodes) := climb3 nodeN zh HEIGHT 0 (bitN idx) leaf (cache_of_list 0 (m_cache m0)) in
     let mem1 := mkTmem (m_last m0) (cache_to_list HEIGHT c'0) in
     match store_root db (mkRoot root idx blk bpos) with
     | None => (mem1, inl EConstraint)
     | Some db1 => (mem1, inr (mkTdb (t_roots db1) (store_nodes (t_rht db1) nodes)))
     end) = (mem2, inr db2) -> mem' = mem2).
  { intros m0. destruct (climb3 _ _ _ _ _ _ _) as [[root c0] nodes]. cbv zeta. intros H1 H2.
    assert (E2 : mem2 = mkTmem (m_last m0) (cache_to_list HEIGHT c0)) by (destruct (store_root db _); inversion H2; reflexivity).
    assert (E1 : mem' = mkTmem (m_last m0) (cache_to_list HEIGHT c0)).
    { destruct (store_root_f _ _ _ _ _) as [e0|[db1 c1]]; [inversion H1; reflexivity|].
      destruct (store_nodes_f _ _ _ _ _) as [[rht' c2]|]; inversion H1; reflexivity. }
    congruence. }
  destruct (Z.eqb (Z.of_N idx) (m_last mem + 1)); [apply Hgo|].
  destruct (Gen.init_cache HEIGHT db) as [e0|m1]; [discriminate|].
  destruct (Z.eqb (Z.of_N idx) (m_last m1 + 1)); [apply Hgo|discriminate].
Qed.

Section L1Tree.
Hypothesis nodeN_inj : forall a b c d, nodeN a b = nodeN c d -> a = c /\ b = d.
(* the zero hash is not the digest of a leaf preimage (idealisation of Keccak, as in the generic tree-store theorems) *)
Hypothesis leaf_nonzero : forall ger parent ts, leaf_hash ger parent ts <> 0.

Notation ReachT := (Reach HEIGHT nodeN zh).
Lemma Hzh32 : forall h, (h <= HEIGHT)%nat -> zh h = zero nodeN 0 h.
Proof. intros h Hh. apply zh_is_zero. pose proof height_le_32. lia. Qed.

Definition hist_of (leaves : list leaf_row) : hist := map (fun l => (l_hash l, (l_block l, l_bpos l))) leaves.
Definition TreeReach (d : ldb) (mem : tmem) : Prop := ReachT (d_l1 d) mem (hist_of (d_leaves d)).

Lemma hist_of_length ls : length (hist_of ls) = length ls.
Proof. apply map_length. Qed.

(* the positions already used in the tree are those of the stored leaves *)
Lemma fresh_from_leaves d mem blk pos : TreeReach d mem ->
  (forall l, In l (d_leaves d) -> klt (leaf_key l) (blk, pos)) -> fresh_pos (d_l1 d) blk pos.
Proof.
  intros HR Hb. destruct (Reach_inv HEIGHT nodeN nodeN_inj zh Hzh32 _ _ _ HR) as (_ & _ & _ & Hlab).
  unfold fresh_pos. apply Forall_forall. intros r Hr.
  assert (Hin : In (r_block r, r_bpos r) (map snd (hist_of (d_leaves d)))).
  { unfold labels_ok in Hlab. rewrite <- Hlab. apply (in_map (fun r => (r_block r, r_bpos r))). exact Hr. }
  unfold hist_of in Hin. rewrite map_map in Hin. cbn [snd] in Hin. apply in_map_iff in Hin as (l & El & Hl).
  specialize (Hb l Hl). apply key_lt_spec in Hb. unfold leaf_key in Hb. cbn [fst snd] in Hb.
  inversion El as [[E1 E2]]. unfold row_lt. cbn [r_block r_bpos]. rewrite <- E1, <- E2. exact Hb.
Qed.

(* a successful info update, as the tree sees it *)
Lemma process_event_update_inv f blk init x u x' : process_event f blk init x (EUpdate u) = EvOk x' ->
  let ger := ger_hash (u_mer u) (u_rer u) in
  exists mem' c1 c2,
    tree_add_f f c1 (d_l1 (x_db x)) (x_mem x) blk (u_pos u) (init + N.of_nat (x_added x)) (leaf_hash ger (u_parent u) (u_ts u))
      = (mem', inr (d_l1 (x_db x'), c2)) /\ x_mem x' = mem_commit_leaf mem'.
Proof.
  cbn [process_event]. intros H.
  destruct (big64 (u_pos u) || big64 (u_ts u)); [discriminate|].
  destruct (hits f (x_cnt x) TLeaf); [discriminate|].
  destruct (existsb _ (d_leaves (x_db x))); [discriminate|].
  destruct (tree_add_f _ _ _ _ _ _ _ _) as [mem' [err|[t' c2]]] eqn:Et; [discriminate|].
  inversion H; subst. cbn [x_db x_mem set_leaves d_l1]. exists mem', (bump (x_cnt x) TLeaf), c2. split; [exact Et|reflexivity].
Qed.
(* events other than info updates never touch the in-memory tree, whether they succeed or fail *)
Lemma process_event_other_mem f blk init x e : (forall u, e <> EUpdate u) ->
  match process_event f blk init x e with
  | EvOk x' => True
  | EvFail _ mem added _ => mem = x_mem x /\ added = x_added x
  end.
Proof.
  intros Hne. destruct e as [u|v|b|count root]; [exfalso; exact (Hne u eq_refl)| | |]; cbn [process_event].
  - destruct (last_root _); [|split; reflexivity]. destruct (_ || _); [split; reflexivity|exact I].
  - destruct (vb_exit b =? 0); [exact I|]. destruct (negb _); [exact I|].
    destruct (big64 (vb_pos b)); [split; reflexivity|].
    destruct (upsert_f _ _ _ _ _ _ _) as [err|[[nr t'] c1]]; [split; reflexivity|].
    destruct (big64 (vb_batch b)); [split; reflexivity|]. destruct (hits f c1 TVerify); [split; reflexivity|].
    destruct (existsb _ _); [split; reflexivity|exact I].
  - destruct (hits f (x_cnt x) TInit); [split; reflexivity|]. destruct (d_init (x_db x)); [split; reflexivity|exact I].
Qed.

Lemma process_event_Reach f blk init x e :
  TreeReach (x_db x) (x_mem x) -> idxrel init x -> (length (d_leaves (x_db x)) < 2 ^ HEIGHT)%nat ->
  (forall l, In l (d_leaves (x_db x)) -> forall p, In p (upd_pos e) -> klt (leaf_key l) (blk, p)) ->
  match process_event f blk init x e with
  | EvOk x' => TreeReach (x_db x') (x_mem x')
  | EvFail _ mem added _ => TreeReach (x_db x) mem /\ added = x_added x
  end.
Proof.
  intros HR Hrel Hlen Hbound.
  destruct e as [u|v|b|count root].
  2,3,4: (match goal with |- match process_event _ _ _ _ ?e with _ => _ end =>
            pose proof (process_event_other_mem f blk init x e ltac:(intros u0; discriminate)) as Hm;
            pose proof (process_event_tables f blk init x e) as Ht end;
          destruct (process_event _ _ _ _ _) as [err mem added halt|x'];
          [destruct Hm as [-> ->]; split; [exact HR|reflexivity]
          |destruct (Ht x' eq_refl) as (_ & Hl & _ & Hd & Hmem); unfold TreeReach; rewrite Hl, Hd, Hmem; exact HR]).
  (* info update *)
  set (ger := ger_hash (u_mer u) (u_rer u)).
  set (lh := leaf_hash ger (u_parent u) (u_ts u)).
  assert (Hfresh : fresh_pos (d_l1 (x_db x)) blk (u_pos u)).
  { apply (fresh_from_leaves _ (x_mem x)); [exact HR|]. intros l Hl. apply (Hbound l Hl). left. reflexivity. }
  assert (Eidx : init + N.of_nat (x_added x) = N.of_nat (length (hist_of (d_leaves (x_db x))))).
  { rewrite hist_of_length. exact Hrel. }
  assert (Hlen' : (length (hist_of (d_leaves (x_db x))) < 2 ^ HEIGHT)%nat) by (rewrite hist_of_length; exact Hlen).
  destruct (process_event f blk init x (EUpdate u)) as [err mem added halt|x'] eqn:Ev.
  - (* failure: before AddLeaf the memory is untouched; inside AddLeaf it is the memory of an abandoned append *)
    cbn [process_event] in Ev.
    destruct (big64 (u_pos u) || big64 (u_ts u)); [inversion Ev; subst; split; [exact HR|reflexivity]|].
    destruct (hits f (x_cnt x) TLeaf); [inversion Ev; subst; split; [exact HR|reflexivity]|].
    destruct (existsb _ (d_leaves (x_db x))); [inversion Ev; subst; split; [exact HR|reflexivity]|].
    fold ger lh in Ev.
    destruct (tree_add_f _ _ _ _ _ _ _ _) as [mem' [e|[t' c2]]] eqn:Et; [|discriminate].
    inversion Ev; subst. split; [|reflexivity].
    destruct (store_add_succeeds HEIGHT nodeN nodeN_inj zh Hzh32 _ _ _ blk (u_pos u) lh HR Hfresh (leaf_nonzero _ _ _) Hlen') as (mem2 & db2 & E2).
    rewrite <- Eidx in E2. pose proof (tree_add_f_fail _ _ _ _ _ _ _ _ _ _ _ _ Et E2) as ->.
    unfold TreeReach. rewrite Eidx in E2.
    exact (R_abort HEIGHT nodeN zh _ _ _ blk (u_pos u) lh mem2 db2 HR Hfresh (leaf_nonzero _ _ _) Hlen' E2).
  - destruct (process_event_update_inv _ _ _ _ _ _ Ev) as (mem' & c1 & c2 & Et & Em). cbv zeta in Et. fold ger lh in Et.
    pose proof (process_event_tables _ _ _ _ _ _ Ev) as [_ Ht]. cbv zeta in Ht. destruct Ht as (Hl & _).
    apply tree_add_f_ok in Et. rewrite Eidx in Et.
    pose proof (R_add HEIGHT nodeN zh _ _ _ blk (u_pos u) lh mem' _ HR Hfresh (leaf_nonzero _ _ _) Hlen' Et) as HR'.
    unfold TreeReach. rewrite Em, Hl. unfold hist_of in *. rewrite map_app. cbn [map l_hash l_block l_bpos]. exact HR'.
Qed.

(* the events of a block, one after the other; `d0`/`mem0` = the committed state the transaction started from *)
Lemma process_events_Reach f blk init d0 mem0 : forall es x,
  StronglySorted N.lt (flat_map upd_pos es) ->
  LInv (x_db x) -> In blk (map fst (d_blocks (x_db x))) -> idxrel init x ->
  (forall l, In l (d_leaves (x_db x)) -> forall p, In p (flat_map upd_pos es) -> klt (leaf_key l) (blk, p)) ->
  (length (d_leaves (x_db x)) + length (flat_map upd_pos es) < 2 ^ HEIGHT)%nat ->
  TreeReach (x_db x) (x_mem x) -> TreeReach d0 mem0 ->
  (x_added x = O -> d_l1 (x_db x) = d_l1 d0 /\ d_leaves (x_db x) = d_leaves d0) ->
  match process_events f blk init x es with
  | EvOk x' => TreeReach (x_db x') (x_mem x') /\ (x_added x' = O -> d_l1 (x_db x') = d_l1 d0 /\ d_leaves (x_db x') = d_leaves d0)
  | EvFail _ mem added _ => TreeReach d0 (rollback_mem mem added)
  end.
Proof.
  induction es as [|e es IH]; intros x Hpos Hinv Hblk Hrel Hbound Hlen HR HR0 Hsame; cbn [process_events].
  - split; assumption.
  - cbn [flat_map] in Hpos, Hbound, Hlen. rewrite app_length in Hlen.
    pose proof (process_event_Reach f blk init x e HR Hrel ltac:(lia)
                 (fun l Hl p Hp => Hbound l Hl p (in_or_app _ _ _ (or_introl Hp)))) as Hev.
    destruct (process_event f blk init x e) as [err mem added halt|x1] eqn:E1.
    + (* the block fails here: rollback *)
      destruct Hev as [HRm ->]. unfold rollback_mem, Gen.rollback_mem.
      destruct (x_added x) eqn:Ea.
      * destruct (Hsame eq_refl) as [E2 E3]. unfold TreeReach in *. rewrite <- E2, <- E3. exact HRm.
      * unfold TreeReach. exact (R_inval HEIGHT nodeN zh _ _ _ _ HR0).
    + destruct (process_event_LInv f blk init x e x1 Hinv Hblk Hrel
                  (fun l Hl p Hp => Hbound l Hl p (in_or_app _ _ _ (or_introl Hp))) E1) as (Hinv1 & Hrel1 & Hb1 & Hnew).
      pose proof (process_event_tables _ _ _ _ _ _ E1) as [_ Ht].
      apply IH; try assumption.
      * exact (sorted_tail_app _ _ _ Hpos).
      * rewrite Hb1. exact Hblk.
      * intros l Hl p Hp. destruct (Hnew l Hl) as [Hold|(p0 & Hp0 & Hk)].
        -- apply (Hbound l Hold p). apply in_or_app. right. exact Hp.
        -- rewrite Hk. apply key_lt_spec. right. cbn [fst snd]. split; [reflexivity|]. exact (sorted_app_lt _ _ _ _ Hpos Hp0 Hp).
      * destruct e as [u|v|b|count root]; cbv zeta in Ht.
        -- destruct Ht as (Hl & _). rewrite Hl, app_length. cbn [length upd_pos] in *. lia.
        -- destruct Ht as (Hl & _). rewrite Hl. cbn [upd_pos length] in *. lia.
        -- destruct Ht as (Hl & _). rewrite Hl. cbn [upd_pos length] in *. lia.
        -- destruct Ht as (Hl & _). rewrite Hl. cbn [upd_pos length] in *. lia.
      * destruct e as [u|v|b|count root]; cbv zeta in Ht.
        -- destruct Ht as (_ & Ha & _). intros E0. rewrite Ha in E0. discriminate.
        -- destruct Ht as (Hl & Ha & Hd & _). intros E0. rewrite Ha in E0. rewrite Hl, Hd. apply Hsame. exact E0.
        -- destruct Ht as (Hl & Ha & Hd & _). intros E0. rewrite Ha in E0. rewrite Hl, Hd. apply Hsame. exact E0.
        -- destruct Ht as (Hl & Ha & Hd & _). intros E0. rewrite Ha in E0. rewrite Hl, Hd. apply Hsame. exact E0.
Qed.

Theorem process_block_Reach f st k r st' : LInv (st_db st) -> TreeReach (st_db st) (st_mem st) -> block_ordered st k ->
  process_block f st k = (r, st') -> TreeReach (st_db st') (st_mem st').
Proof.
  intros Hinv HR (Hord & Hpos & _ & _ & Hlen) H. unfold process_block in H.
  destruct (st_halted st); [inversion H; subst; exact HR|].
  destruct (big64 (k_num k)); [inversion H; subst; exact HR|].
  destruct (hits f _ TBlock); [inversion H; subst; exact HR|].
  destruct (existsb _ _); [inversion H; subst; exact HR|].
  set (d := st_db st) in *.
  set (d1 := mkLdb (d_blocks d ++ [(k_num k, k_hash k)]) (d_leaves d) (d_vb d) (d_init d) (d_l1 d) (d_rollup d)) in *.
  assert (Hinv1 : LInv d1).
  { destruct Hinv as [H1 H2 H3 H4 H5]. constructor; unfold d1; cbn [d_leaves d_blocks]; try assumption.
    intros l Hl. rewrite map_app. apply in_or_app. left. apply H3. exact Hl. }
  set (x0 := mkTx d1 (st_mem st) (bump (fun _ => O) TBlock) O) in *.
  assert (Hev := process_events_Reach f (k_num k) (match last_leaf d1 with None => 0 | Some l => l_idx l + 1 end) d (st_mem st)
                (k_events k) x0 Hpos Hinv1).
  assert (Hblk1 : In (k_num k) (map fst (d_blocks (x_db x0)))).
  { unfold x0, d1. cbn [x_db d_blocks]. rewrite map_app. apply in_or_app. right. left. reflexivity. }
  assert (Hrel1 : idxrel (match last_leaf d1 with None => 0 | Some l => l_idx l + 1 end) x0).
  { unfold idxrel, x0. cbn [x_added x_db]. rewrite (last_leaf_index d1 Hinv1). cbn [N.of_nat]. lia. }
  assert (Hb1 : forall l, In l (d_leaves (x_db x0)) -> forall p, In p (flat_map upd_pos (k_events k)) -> klt (leaf_key l) (k_num k, p)).
  { intros l Hl p _. apply key_lt_spec. left. cbn [fst leaf_key].
    unfold x0, d1 in Hl. cbn [x_db d_leaves] in Hl. pose proof (li_blocks _ Hinv l Hl) as Hb.
    apply in_map_iff in Hb as (b & Eb & Hb). rewrite <- Eb. apply Hord. exact Hb. }
  specialize (Hev Hblk1 Hrel1 Hb1 Hlen HR HR (fun _ => conj eq_refl eq_refl)).
  destruct (process_events _ _ _ _ _) as [err mem added halt|x] eqn:Ev.
  - inversion H; subst. cbn [st_db st_mem]. exact Hev.
  - destruct Hev as [HRx Hs]. destruct (hits f (x_cnt x) TCommit).
    + inversion H; subst. cbn [st_db st_mem]. unfold rollback_mem, Gen.rollback_mem. destruct (x_added x).
      * destruct (Hs eq_refl) as [E2 E3]. unfold TreeReach in *. rewrite <- E2, <- E3. exact HRx.
      * unfold TreeReach. exact (R_inval HEIGHT nodeN zh _ _ _ _ HR).
    + inversion H; subst. exact HRx.
Qed.

Lemma count_filter_map {A B} (f : A -> B) (p : B -> bool) l : length (filter p (map f l)) = length (filter (fun x => p (f x)) l).
Proof. rewrite filter_map_comm, map_length. reflexivity. Qed.

Theorem reorg_Reach st b : LInv (st_db st) -> TreeReach (st_db st) (st_mem st) -> TreeReach (st_db (reorg st b)) (st_mem (reorg st b)).
Proof.
  intros Hinv HR. unfold TreeReach, reorg. cbn [st_db st_mem d_l1 d_leaves].
  pose proof (R_reorg HEIGHT nodeN zh _ _ _ b (m_cache (st_mem st)) HR) as H.
  destruct (Reach_inv HEIGHT nodeN nodeN_inj zh Hzh32 _ _ _ HR) as (_ & _ & _ & Hlab).
  (* the surviving leaves are the same prefix as the surviving roots: both tables carry the same (block, position) labels *)
  set (leaves := d_leaves (st_db st)) in *.
  assert (Ecount : length (t_roots (tree_reorg (d_l1 (st_db st)) b)) = length (filter (fun r => l_block r <? b) leaves)).
  { unfold tree_reorg. cbn [t_roots]. unfold labels_ok in Hlab.
    transitivity (length (filter (fun q : N * N => fst q <? b) (map (fun r => (r_block r, r_bpos r)) (t_roots (d_l1 (st_db st)))))).
    - rewrite count_filter_map. reflexivity.
    - rewrite Hlab. unfold hist_of. rewrite map_map. cbn [snd]. rewrite count_filter_map. reflexivity. }
  assert (Epre : filter (fun r => l_block r <? b) leaves = firstn (length (filter (fun r => l_block r <? b) leaves)) leaves).
  { apply (filter_sorted_firstn (fun a b => klt (leaf_key a) (leaf_key b))); [exact (li_sorted _ Hinv)|].
    intros x y Hxy Hy. apply key_lt_spec in Hxy. unfold leaf_key in Hxy. cbn [fst snd] in Hxy. apply N.ltb_lt in Hy. apply N.ltb_lt. lia. }
  rewrite Ecount in H. rewrite Epre at 1. unfold hist_of in *. rewrite <- firstn_map. exact H.
Qed.

Theorem restart_Reach st : TreeReach (st_db st) (st_mem st) -> TreeReach (st_db (restart st)) (st_mem (restart st)).
Proof. intros HR. unfold restart, TreeReach. cbn [st_db st_mem]. exact (R_inval HEIGHT nodeN zh _ _ _ _ HR). Qed.

Theorem Reach_run ops : forall st, LInv (st_db st) -> TreeReach (st_db st) (st_mem st) -> hist_ordered ops st ->
  TreeReach (st_db (run_hist ops st)) (st_mem (run_hist ops st)).
Proof.
  induction ops as [|o t IH]; intros st Hinv HR Hord; cbn [run_hist fold_left]; [exact HR|].
  destruct Hord as [Ho Ht]. destruct o as [k f|b|]; cbn [step] in *.
  - destruct (process_block f st k) as [r st'] eqn:E. cbn [snd] in *.
    apply IH; [exact (process_block_LInv f st k r st' Hinv Ho E)|exact (process_block_Reach f st k r st' Hinv HR Ho E)|exact Ht].
  - apply IH; [apply reorg_LInv; exact Hinv|apply reorg_Reach; assumption|exact Ht].
  - apply IH; [exact Hinv|apply restart_Reach; exact HR|exact Ht].
Qed.
Lemma TreeReach_new : TreeReach ldb_empty tmem_new.
Proof. unfold TreeReach, ldb_empty. cbn [d_l1 d_leaves hist_of map]. apply R_init. Qed.

(* ---------- what every reachable store answers about the L1 info tree ---------- *)
Definition leaf0 : leaf_row := mkLeaf 0 0 0 0 0 0 0 0 0.
Definition leaf_fun (d : ldb) : nat -> N := fun i => l_hash (nth i (d_leaves d) leaf0).
Lemma lf_hist_of ls i : lf (hist_of ls) i = l_hash (nth i ls leaf0).
Proof.
  unfold lf, hist_of. change (0, (0, 0)) with ((fun l => (l_hash l, (l_block l, l_bpos l))) leaf0).
  rewrite map_nth. reflexivity.
Qed.
Lemma mroot_ext_lf d n : mroot nodeN 0 (lf (hist_of (d_leaves d))) HEIGHT n = mroot nodeN 0 (leaf_fun d) HEIGHT n.
Proof. unfold mroot. apply sub_ext. intros i _. apply lf_hist_of. Qed.

(* C11: the root recorded for leaf index i is the Merkle root of the first i+1 leaf hashes = what the DepositContract of the
   GlobalExitRoot contract holds after its (i+1)-th leaf (getRoot; any initial branch content) *)
Theorem l1info_root_matches_contract ops : hist_ordered ops lstate_new ->
  let d := st_db (run_hist ops lstate_new) in
  forall i, (i < length (d_leaves d))%nat ->
  exists r, l1_root_by_index d (N.of_nat i) = Some r /\
            r_hash r = mroot nodeN 0 (leaf_fun d) HEIGHT (S i) /\
            ((S i < 2 ^ HEIGHT)%nat -> forall b0,
               r_hash r = dc_root nodeN 0 HEIGHT (Nat.testbit (S i)) (dc_after nodeN (leaf_fun d) HEIGHT (S i) b0)) /\
            r_pos r = N.of_nat i /\
            (r_block r, r_bpos r) = leaf_key (nth i (d_leaves d) leaf0).
Proof.
  intros Hord d i Hi.
  pose proof (LInv_run ops lstate_new LInv_empty Hord) as Hinv.
  pose proof (Reach_run ops lstate_new LInv_empty TreeReach_new Hord) as HR. fold d in Hinv, HR. unfold TreeReach in HR.
  destruct (store_root_by_index HEIGHT nodeN nodeN_inj zh Hzh32 _ _ _ i HR ltac:(rewrite hist_of_length; exact Hi)) as (r & E1 & E2 & E3 & E4).
  exists r. split; [exact E1|]. rewrite mroot_ext_lf in E2. split; [exact E2|]. split; [|split; [exact E3|]].
  - intros Hlt b0. rewrite E2. symmetry. apply contract_root_is_merkle. exact Hlt.
  - rewrite E4. unfold hist_of. change (0, (0, 0)) with ((fun l => (l_hash l, (l_block l, l_bpos l))) leaf0).
    rewrite map_nth. reflexivity.
Qed.

(* every L1 info tree proof served for a recorded version k and a covered index j verifies with the j-th leaf hash *)
Theorem l1info_proof_verifies ops : hist_ordered ops lstate_new ->
  let d := st_db (run_hist ops lstate_new) in
  forall j k, (j < k)%nat -> (k <= length (d_leaves d))%nat ->
  let root := mroot nodeN 0 (leaf_fun d) HEIGHT k in
  let s := l1_merkle_proof_to_root d (N.of_nat j) root in
  length s = HEIGHT /\ calculate_root (leaf_fun d j) s (N.of_nat j) = root.
Proof.
  intros Hord d j k Hj Hk root s.
  pose proof (Reach_run ops lstate_new LInv_empty TreeReach_new Hord) as HR. fold d in HR. unfold TreeReach in HR.
  destruct (store_proof_verifies HEIGHT nodeN nodeN_inj zh Hzh32 _ _ _ k j HR Hj ltac:(rewrite hist_of_length; exact Hk))
    as (_ & Hlen & Hcalc & _).
  unfold s, root, l1_merkle_proof_to_root, get_proof, calculate_root. rewrite <- mroot_ext_lf.
  split; [exact Hlen|]. unfold leaf_fun. rewrite <- lf_hist_of. exact Hcalc.
Qed.

(* the announcement check on a reachable store: the last recorded root is (Merkle root of all leaves, count - 1) *)
Lemma reach_last_root d mem : TreeReach d mem -> d_leaves d <> [] ->
  exists r, last_root (d_l1 d) = Some r /\ r_hash r = mroot nodeN 0 (leaf_fun d) HEIGHT (length (d_leaves d)) /\
            r_pos r = N.of_nat (length (d_leaves d) - 1).
Proof.
  intros HR Hne. destruct (Reach_inv HEIGHT nodeN nodeN_inj zh Hzh32 _ _ _ HR) as ([[Hh Hp] Hs _ _ _] & _).
  rewrite hist_of_length in Hh, Hp.
  assert (Hlen : length (t_roots (d_l1 d)) = length (d_leaves d)).
  { apply (f_equal (@length _)) in Hp. rewrite !map_length, seq_length in Hp. exact Hp. }
  rewrite (last_root_sorted _ Hs).
  destruct (t_roots (d_l1 d)) as [|r0 rs] eqn:Er; [destruct (d_leaves d); [congruence|discriminate]|].
  rewrite <- Er in *. assert (Hrne : t_roots (d_l1 d) <> []) by (rewrite Er; discriminate).
  exists (last (t_roots (d_l1 d)) (mkRoot 0 0 0 0)). split; [rewrite Er; reflexivity|].
  destruct (length (d_leaves d)) as [|m] eqn:En; [destruct (d_leaves d); [congruence|discriminate]|].
  rewrite seq_S in Hh, Hp. cbn [Nat.add] in Hh, Hp. rewrite map_app in Hh, Hp. cbn [map] in Hh, Hp.
  split.
  - rewrite <- (last_map r_hash _ _ Hrne), Hh, last_last. rewrite <- mroot_ext_lf. reflexivity.
  - rewrite <- (last_map r_pos _ _ Hrne), Hp, last_last. f_equal. lia.
Qed.
(* a consistent L1 never halts the node: an announcement carrying the contract's root and leaf count passes the check *)
Theorem v2_consistent_never_halts f blk init x v : TreeReach (x_db x) (x_mem x) ->
  let n := length (d_leaves (x_db x)) in
  (0 < n)%nat -> (n < 2 ^ HEIGHT)%nat ->
  (forall b0, v_root v = dc_root nodeN 0 HEIGHT (Nat.testbit n) (dc_after nodeN (leaf_fun (x_db x)) HEIGHT n b0)) ->
  v_count v = N.of_nat n ->
  process_event f blk init x (EV2 v) = EvOk x.
Proof.
  intros HR n Hpos Hlt Hroot Hcount.
  destruct (reach_last_root _ _ HR) as (r & El & Eh & Ep); [intros E; unfold n in Hpos; rewrite E in Hpos; cbn in Hpos; lia|].
  apply (v2_event_passes_iff f blk init x v r El). fold n in Eh, Ep. split.
  - rewrite Eh, (Hroot (fun _ => 0)). symmetry. apply contract_root_is_merkle. exact Hlt.
  - rewrite Ep, Hcount. unfold u32.
    assert (Hn : N.of_nat n <= mask32).
    { assert (Hnn : (n < N.to_nat 4294967296)%nat) by (rewrite pow32_nat; exact Hlt). unfold mask32. lia. }
    replace (N.of_nat (n - 1) + 1) with (N.of_nat n) by lia.
    unfold mask32 in *. change 4294967295 with (N.ones 32). rewrite N.land_ones. apply N.mod_small. change (2 ^ 32) with 4294967296. lia.
Qed.
(* ... and any other announcement halts it (fail-stop; a reorg that deletes blocks un-halts, see reorg_mem_and_halt) *)
Theorem v2_mismatch_halts f blk init x v : TreeReach (x_db x) (x_mem x) -> d_leaves (x_db x) <> [] ->
  (v_root v <> mroot nodeN 0 (leaf_fun (x_db x)) HEIGHT (length (d_leaves (x_db x))) \/
   v_count v <> u32 (N.of_nat (length (d_leaves (x_db x))))) ->
  process_event f blk init x (EV2 v) = EvFail PInconsistent (x_mem x) (x_added x) true.
Proof.
  intros HR Hne Hmis. destruct (reach_last_root _ _ HR Hne) as (r & El & Eh & Ep).
  apply (v2_event_mismatch_halts f blk init x v r El).
  destruct Hmis as [H|H]; [left; rewrite Eh; congruence|right]. rewrite Ep. intros E. apply H. rewrite <- E. f_equal.
  destruct (d_leaves (x_db x)); [congruence|]. cbn [length]. lia.
Qed.
End L1Tree.

(* ====================================================================================================
   6. A boolean checker for the ordering guarantee (used by the concrete Examples)
   ==================================================================================================== *)
Fixpoint incrb (l : list N) : bool := match l with [] => true | x :: t => forallb (fun y => x <? y) t && incrb t end.
Lemma incrb_sound l : incrb l = true -> StronglySorted N.lt l.
Proof.
  induction l as [|x t IH]; intros H; [constructor|]. cbn [incrb] in H. apply andb_true_iff in H as [H1 H2].
  constructor; [apply IH; exact H2|]. apply Forall_forall. intros y Hy. rewrite forallb_forall in H1. apply N.ltb_lt. apply H1. exact Hy.
Qed.
Definition vb_smallb (e : event) : bool := match e with EVerify b => vb_rid b <=? mask32 | _ => true end.
Definition block_ordered_b (st : lstate) (k : block) : bool :=
  forallb (fun b => fst b <? k_num k) (d_blocks (st_db st)) && incrb (flat_map upd_pos (k_events k)) &&
  incrb (flat_map vb_posl (k_events k)) && forallb vb_smallb (k_events k) &&
  Nat.leb (length (d_leaves (st_db st)) + length (flat_map upd_pos (k_events k))) 32.
Lemma block_ordered_b_sound st k : block_ordered_b st k = true -> block_ordered st k.
Proof.
  unfold block_ordered_b, block_ordered. rewrite !andb_true_iff. intros [[[[H1 H2] H3] H4] H5].
  split; [|split; [apply incrb_sound; exact H2|split; [apply incrb_sound; exact H3|split]]].
  - intros b Hb. rewrite forallb_forall in H1. apply N.ltb_lt. apply H1. exact Hb.
  - apply Forall_forall. intros e He. rewrite forallb_forall in H4. specialize (H4 e He).
    destruct e; cbn [vb_smallb vb_small] in *; try exact I. apply N.leb_le. exact H4.
  - apply small_lt_pow. apply Nat.leb_le. exact H5.
Qed.
Fixpoint hist_ordered_b (ops : list hop) (st : lstate) : bool :=
  match ops with
  | [] => true
  | o :: t => (match o with HBlock k _ => block_ordered_b st k | _ => true end) && hist_ordered_b t (step st o)
  end.
Lemma hist_ordered_b_sound ops : forall st, hist_ordered_b ops st = true -> hist_ordered ops st.
Proof.
  induction ops as [|o t IH]; intros st H; cbn [hist_ordered hist_ordered_b] in *; [exact I|].
  apply andb_true_iff in H as [H1 H2]. split; [|apply IH; exact H2].
  destruct o; try exact I. apply block_ordered_b_sound. exact H1.
Qed.

(* ====================================================================================================
   7. The sparse evaluator of the run-time predicate (L1InfoCases.sroot_ref) is the reference sparse root (MerkleSpec.ssub)
   ==================================================================================================== *)
Definition lfm (m : list (N * N)) : nat -> N := fun j => map_get m (N.of_nat j).
Lemma find_filter_imp {A} (p q : A -> bool) l : (forall e, p e = true -> q e = true) -> find p (filter q l) = find p l.
Proof.
  intros H. induction l as [|x l IH]; [reflexivity|]. cbn [filter find]. destruct (q x) eqn:Q; cbn [find].
  - rewrite IH. reflexivity.
  - destruct (p x) eqn:P; [rewrite (H x P) in Q; discriminate|exact IH].
Qed.
Lemma testbit_range i h k : (2 * k * 2 ^ h <= i < (2 * k + 2) * 2 ^ h)%nat ->
  Nat.testbit i h = true <-> ((2 * k + 1) * 2 ^ h <= i)%nat.
Proof.
  intros Hr. rewrite testbit_div. pose proof (div_pow_bounds i h) as Hb.
  assert (Hp : (0 < 2 ^ h)%nat) by (apply Nat.neq_0_lt_0, Nat.pow_nonzero; lia).
  set (q := (i / 2 ^ h)%nat) in *. set (p := (2 ^ h)%nat) in *. clearbody q p.
  assert (Hq : q = (2 * k)%nat \/ q = (2 * k + 1)%nat) by nia.
  destruct Hq as [-> | ->].
  - rewrite Nat.odd_mul. cbn [Nat.odd negb andb]. split; [discriminate|nia].
  - rewrite Nat.add_1_r, Nat.odd_succ, Nat.even_mul. cbn. split; [nia|reflexivity].
Qed.
Lemma lfm_nil : forall j, lfm [] j = 0.
Proof. reflexivity. Qed.
Lemma ssub_lfm_nil h k : (h <= HEIGHT)%nat -> ssub nodeN (lfm []) h k = zh h.
Proof.
  intros Hh. pose proof (ssub_empty nodeN 0 h k) as Ee. cbv beta in Ee.
  rewrite (ssub_ext nodeN h k (lfm []) (fun _ => 0) (fun j _ => lfm_nil j)). rewrite Ee. symmetry. apply zh_is_zero.
  pose proof height_le_32. lia.
Qed.
Lemma testbitN_range (x : N) h k : (2 * k * 2 ^ h <= N.to_nat x < (2 * k + 2) * 2 ^ h)%nat ->
  N.testbit x (N.of_nat h) = true <-> ((2 * k + 1) * 2 ^ h <= N.to_nat x)%nat.
Proof.
  intros Hr. rewrite <- (N2Nat.id x) at 1. pose proof (bitN_of_nat (N.to_nat x) h) as E. unfold bitN in E. rewrite E.
  apply testbit_range. exact Hr.
Qed.
Lemma lfm_filter_left m h k j : (2 * k * 2 ^ h <= j < (2 * k + 1) * 2 ^ h)%nat ->
  lfm (filter (fun e : N * N => negb (N.testbit (fst e) (N.of_nat h))) m) j = lfm m j.
Proof.
  intros Hj. unfold lfm, map_get. rewrite find_filter_imp; [reflexivity|].
  intros e He. apply N.eqb_eq in He. apply negb_true_iff. apply not_true_iff_false. rewrite He. intros Hb.
  apply (testbitN_range (N.of_nat j) h k) in Hb; rewrite Nat2N.id in *; nia.
Qed.
Lemma lfm_filter_right m h k j : ((2 * k + 1) * 2 ^ h <= j < (2 * k + 2) * 2 ^ h)%nat ->
  lfm (filter (fun e : N * N => N.testbit (fst e) (N.of_nat h)) m) j = lfm m j.
Proof.
  intros Hj. unfold lfm, map_get. rewrite find_filter_imp; [reflexivity|].
  intros e He. apply N.eqb_eq in He. rewrite He.
  apply (testbitN_range (N.of_nat j) h k); rewrite Nat2N.id; nia.
Qed.
Theorem sroot_ref_is_ssub : forall h k m, (h <= HEIGHT)%nat ->
  (forall e, In e m -> (k * 2 ^ h <= N.to_nat (fst e) < (k + 1) * 2 ^ h)%nat) ->
  sroot_ref h m = ssub nodeN (lfm m) h k.
Proof.
  induction h as [|h IH]; intros k m Hh Hr.
  - cbn [sroot_ref ssub]. unfold lfm, map_get. destruct m as [|e t]; [reflexivity|]. cbn [find].
    specialize (Hr e (or_introl eq_refl)). rewrite Nat.pow_0_r in Hr.
    assert (E : fst e = N.of_nat k) by lia. rewrite E, N.eqb_refl. reflexivity.
  - destruct m as [|e0 t] eqn:Em.
    + rewrite ssub_lfm_nil by exact Hh. reflexivity.
    + assert (Hunf : sroot_ref (S h) m = nodeN (sroot_ref h (filter (fun e : N * N => negb (N.testbit (fst e) (N.of_nat h))) m))
                                            (sroot_ref h (filter (fun e : N * N => N.testbit (fst e) (N.of_nat h)) m))).
      { rewrite Em. reflexivity. }
      rewrite <- Em in *. rewrite Hunf. clear Hunf Em e0 t.
      assert (Hp : (0 < 2 ^ h)%nat) by (apply Nat.neq_0_lt_0, Nat.pow_nonzero; lia).
      assert (Hr' : forall e, In e m -> (2 * k * 2 ^ h <= N.to_nat (fst e) < (2 * k + 2) * 2 ^ h)%nat).
      { intros e He. specialize (Hr e He). cbn [Nat.pow] in Hr. nia. }
      assert (EL : sroot_ref h (filter (fun e : N * N => negb (N.testbit (fst e) (N.of_nat h))) m) = ssub nodeN (lfm m) h (2 * k)%nat).
      { rewrite (IH (2 * k)%nat); [|lia|].
        - apply ssub_ext. intros j Hj. apply (lfm_filter_left m h k j). nia.
        - intros e He. apply filter_In in He as [He Hb]. apply negb_true_iff in Hb. pose proof (Hr' e He) as Hre.
          pose proof (testbitN_range (fst e) h k Hre) as Hbe.
          assert (~ ((2 * k + 1) * 2 ^ h <= N.to_nat (fst e))%nat) by (intros Hc; apply Hbe in Hc; congruence). nia. }
      assert (ER : sroot_ref h (filter (fun e : N * N => N.testbit (fst e) (N.of_nat h)) m) = ssub nodeN (lfm m) h (2 * k + 1)%nat).
      { rewrite (IH (2 * k + 1)%nat); [|lia|].
        - apply ssub_ext. intros j Hj. apply (lfm_filter_right m h k j). nia.
        - intros e He. apply filter_In in He as [He Hb]. pose proof (Hr' e He) as Hre.
          apply (testbitN_range (fst e) h k Hre) in Hb. nia. }
      cbn [ssub]. rewrite EL, ER. reflexivity.
Qed.
(* at the root: every map whose keys are uint32 *)
Corollary sroot_ref_is_sroot m : (forall e, In e m -> fst e <= mask32) ->
  sroot_ref HEIGHT m = sroot nodeN (lfm m) HEIGHT.
Proof.
  intros H. unfold sroot. apply sroot_ref_is_ssub; [lia|]. intros e He. pose proof (u32_lt_pow _ (H e He)). lia.
Qed.
