(* Store-level facts about the executable bridge processor model (Model/BridgeStore.v):
   all-or-nothing block processing, what rollback does to the in-memory tree, reorg algebra. *)
From Coq Require Import NArith ZArith List Bool Lia.
From Verif Require Import Base.Bytes Base.Hash Model.Merkle Model.TreeStore Model.BridgeStore.
Import ListNotations.
Open Scope N_scope.

(* ---- C07: a failed ProcessBlock leaves the database exactly as it was, whichever statement failed ---- *)
Theorem process_block_error_keeps_db f st k e st' :
  process_block f st k = (Some e, st') -> st_db st' = st_db st.
Proof.
  unfold process_block, Gen.process_block. intros H.
  destruct (st_halted st); [inversion H; reflexivity|].
  destruct (hits f _ TBlock); [inversion H; reflexivity|].
  destruct (existsb _ _); [inversion H; reflexivity|].
  destruct (Gen.process_events _ _ _ _ _ _ _ _) as [[[err x] oe]|x].
  - destruct (match oe with Some e0 => _ | None => _ end) as [mem1 added]. inversion H; reflexivity.
  - destruct (hits f (x_cnt x) TCommit); inversion H; reflexivity.
Qed.

(* success means every event was applied: the block number is recorded *)
Theorem process_block_ok_records_block f st k st' :
  process_block f st k = (None, st') -> exists x, st_db st' = x_db x /\ st_halted st' = false.
Proof.
  unfold process_block, Gen.process_block. intros H.
  destruct (st_halted st); [discriminate|].
  destruct (hits f _ TBlock); [discriminate|].
  destruct (existsb _ _); [discriminate|].
  destruct (Gen.process_events _ _ _ _ _ _ _ _) as [[[err x] oe]|x].
  - destruct (match oe with Some e0 => _ | None => _ end) as [mem1 added]. discriminate.
  - destruct (hits f (x_cnt x) TCommit); [discriminate|]. inversion H; subst. exists x. split; reflexivity.
Qed.

(* a halted processor refuses every block and does not change *)
Theorem halted_is_sticky f st k : st_halted st = true -> process_block f st k = (Some PInconsistent, st).
Proof. intros H. unfold process_block, Gen.process_block. rewrite H. reflexivity. Qed.

(* after fix F1: a rollback that undoes at least one appended leaf leaves the cache marked invalid, so the
   next AddLeaf goes through initCache (index test can never succeed against lastIndex = -2) *)
Theorem rollback_invalidates mem n : (0 < n)%nat -> m_last (rollback_mem mem n) = (-2)%Z.
Proof. destruct n; [lia|reflexivity]. Qed.
Theorem invalid_cache_forces_init db mem blk bpos idx leaf : m_last mem = (-2)%Z ->
  add_leaf_exec db mem blk bpos idx leaf =
  match init_cache db with
  | inl e => (mem, inl e)
  | inr mem' =>
      if Z.eqb (Z.of_N idx) (m_last mem' + 1)%Z
      then add_leaf_exec db mem' blk bpos idx leaf
      else (mem', inl EInvalidIndex)
  end.
Proof.
  intros H. unfold add_leaf_exec, TreeStore.Gen.add_leaf_exec, init_cache. rewrite H.
  assert (E : Z.eqb (Z.of_N idx) (-2 + 1)%Z = false) by (apply Z.eqb_neq; lia). rewrite E.
  destruct (TreeStore.Gen.init_cache HEIGHT db) as [e|mem']; [reflexivity|].
  destruct (Z.eqb (Z.of_N idx) (m_last mem' + 1)%Z) eqn:E2; reflexivity.
Qed.
(* rollback of a transaction that appended nothing leaves the memory untouched *)
Theorem rollback_nothing mem : rollback_mem mem 0 = mem.
Proof. reflexivity. Qed.

(* ---- C04: reorg algebra on the database part ---- *)
Lemma filter_filter {A} (p q : A -> bool) l : filter p (filter q l) = filter (fun x => p x && q x) l.
Proof. induction l as [|x l IH]; [reflexivity|]. cbn [filter]. destruct (q x) eqn:Q; cbn [filter]; rewrite ?Q, ?andb_true_r, ?andb_false_r, IH; reflexivity. Qed.
Lemma filter_ext_in' {A} (p q : A -> bool) l : (forall x, p x = q x) -> filter p l = filter q l.
Proof. intros H. induction l as [|x l IH]; [reflexivity|]. cbn [filter]. rewrite H, IH. reflexivity. Qed.
Lemma ltb_min x b b' : (x <? b) && (x <? b') = (x <? N.min b b').
Proof. destruct (N.ltb_spec x b), (N.ltb_spec x b'), (N.ltb_spec x (N.min b b')); try reflexivity; lia. Qed.

Definition db_eq (a b : bdb) : Prop :=
  d_blocks a = d_blocks b /\ d_bridges a = d_bridges b /\ d_claims a = d_claims b /\ d_tm a = d_tm b /\
  d_legacy a = d_legacy b /\ t_roots (d_tree a) = t_roots (d_tree b).

(* nested / repeated reorgs collapse to the lower reorg point *)
Theorem reorg_reorg_db st b b' : db_eq (st_db (reorg (reorg st b') b)) (st_db (reorg st (N.min b b'))).
Proof.
  unfold reorg, db_eq, tree_reorg. cbn [st_db d_blocks d_bridges d_claims d_tm d_legacy d_tree t_roots].
  rewrite !filter_filter. repeat split; apply filter_ext_in'; intros x; apply ltb_min.
Qed.
(* a reorg point above every recorded block changes nothing in the database *)
Lemma filter_all {A} (p : A -> bool) l : (forall x, In x l -> p x = true) -> filter p l = l.
Proof. intros H. induction l as [|x l IH]; [reflexivity|]. cbn [filter]. rewrite H by (left; reflexivity). f_equal. apply IH. intros y Hy. apply H. right. exact Hy. Qed.
Theorem reorg_above_tip_identity st b :
  (forall n, In n (d_blocks (st_db st)) -> n < b) ->
  (forall r, In r (d_bridges (st_db st)) -> fst r < b) ->
  (forall r, In r (d_claims (st_db st)) -> w_block r < b) ->
  (forall r, In r (d_tm (st_db st)) -> w_block r < b) ->
  (forall r, In r (d_legacy (st_db st)) -> w_block r < b) ->
  (forall r, In r (t_roots (d_tree (st_db st))) -> r_block r < b) ->
  db_eq (st_db (reorg st b)) (st_db st) /\ st_halted (reorg st b) = st_halted st.
Proof.
  intros H1 H2 H3 H4 H5 H6. unfold reorg, db_eq, tree_reorg.
  cbn [st_db st_halted st_mem d_blocks d_bridges d_claims d_tm d_legacy d_tree t_roots].
  rewrite !filter_all by (intros x Hx; apply N.ltb_lt; auto).
  repeat split.
  assert (E : filter (fun n => negb (n <? b)) (d_blocks (st_db st)) = []).
  { induction (d_blocks (st_db st)) as [|x l IH]; [reflexivity|]. cbn [filter].
    assert (Hx : x <? b = true) by (apply N.ltb_lt, H1; left; reflexivity). rewrite Hx. cbn. apply IH.
    intros n Hn. apply H1. right. exact Hn. }
  rewrite E. cbn. apply andb_true_r.
Qed.
(* un-halt exactly when rows were deleted *)
Theorem reorg_unhalts_iff_deleted st b :
  st_halted (reorg st b) = st_halted st && Nat.eqb (length (filter (fun n => negb (n <? b)) (d_blocks (st_db st)))) 0.
Proof. reflexivity. Qed.
