(* C15 proofs: the oracle tick (Model/Oracle.v), for the code as written (tick) and for the repaired code (tick_fixed). *)
From Coq Require Import NArith List Bool Lia.
From Verif Require Import Model.Oracle.
Import ListNotations.
Open Scope N_scope.

(* ------------------------------------------------------------------------------------------- *)
(* small facts *)

Lemma mem_In g l : mem g l = true <-> In g l.
Proof.
  unfold mem. rewrite existsb_exists. split.
  - intros [x [Hx He]]. apply N.eqb_eq in He. now subst.
  - intros H. exists g. split; [assumption | apply N.eqb_refl].
Qed.

Lemma mem_false g l : mem g l = false <-> ~ In g l.
Proof.
  rewrite <- mem_In. destruct (mem g l); intuition congruence.
Qed.

(* ------------------------------------------------------------------------------------------- *)
(* the query of the syncer's table *)

Lemma latest_row_snoc b tbl l : latest_row b (tbl ++ [l]) = pick b (latest_row b tbl) l.
Proof. unfold latest_row. now rewrite fold_left_app. Qed.

(* the row returned is a row of the table at or below b with the largest block number *)
Lemma latest_row_some b tbl l : latest_row b tbl = Some l ->
  In l tbl /\ fst l <= b /\ forall l', In l' tbl -> fst l' <= b -> fst l' <= fst l.
Proof.
  revert l. induction tbl as [|x tbl IH] using rev_ind; intros l H.
  - discriminate.
  - rewrite latest_row_snoc in H. unfold pick in H.
    destruct (fst x <=? b) eqn:Hx.
    + apply N.leb_le in Hx. destruct (latest_row b tbl) as [p|] eqn:Hp.
      * destruct (IH p eq_refl) as [Hin [Hpb Hmax]].
        destruct (fst p <=? fst x) eqn:Hpx; inversion H; subst; clear H.
        -- apply N.leb_le in Hpx. split; [apply in_or_app; right; now left|]. split; [assumption|].
           intros l' Hl' Hb. apply in_app_or in Hl'. destruct Hl' as [Hl'|[Hl'|[]]].
           ++ specialize (Hmax l' Hl' Hb). lia.
           ++ subst. lia.
        -- apply N.leb_gt in Hpx. split; [apply in_or_app; now left|]. split; [assumption|].
           intros l' Hl' Hb. apply in_app_or in Hl'. destruct Hl' as [Hl'|[Hl'|[]]].
           ++ now apply Hmax.
           ++ subst. lia.
      * inversion H; subst; clear H. split; [apply in_or_app; right; now left|]. split; [assumption|].
        intros l' Hl' Hb. apply in_app_or in Hl'. destruct Hl' as [Hl'|[Hl'|[]]].
        -- exfalso. clear IH. revert Hp Hl' Hb. clear. revert l'.
           induction tbl as [|y tbl IH] using rev_ind; intros l' Hp Hl' Hb; [destruct Hl'|].
           rewrite latest_row_snoc in Hp. unfold pick in Hp. apply in_app_or in Hl'.
           destruct (fst y <=? b) eqn:Hy.
           ++ destruct (latest_row b tbl) as [p|]; [destruct (fst p <=? fst y)|]; discriminate.
           ++ destruct Hl' as [Hl'|[Hl'|[]]]; [now apply (IH l')|]. subst. apply N.leb_gt in Hy. lia.
        -- subst. lia.
    + destruct (IH l H) as [Hin [Hlb Hmax]]. apply N.leb_gt in Hx.
      split; [apply in_or_app; now left|]. split; [assumption|].
      intros l' Hl' Hb. apply in_app_or in Hl'. destruct Hl' as [Hl'|[Hl'|[]]]; [now apply Hmax|]. subst. lia.
Qed.

Lemma latest_row_none b tbl : latest_row b tbl = None -> forall l, In l tbl -> b < fst l.
Proof.
  induction tbl as [|y tbl IH] using rev_ind; intros Hp l Hl; [destruct Hl|].
  rewrite latest_row_snoc in Hp. unfold pick in Hp. apply in_app_or in Hl.
  destruct (fst y <=? b) eqn:Hy.
  - destruct (latest_row b tbl) as [p|]; [destruct (fst p <=? fst y)|]; discriminate.
  - destruct Hl as [Hl|[Hl|[]]]; [now apply IH|]. subst. now apply N.leb_gt in Hy.
Qed.

(* on a table in L1 order the row returned is the LAST row at or below b *)
Lemma fold_pick_sorted b tbl : sorted_hist tbl -> forall best,
  (forall p, best = Some p -> forall l, In l tbl -> fst p <= fst l) ->
  fold_left (pick b) tbl best =
  match rev (filter (fun l => fst l <=? b) tbl) with [] => best | l :: _ => Some l end.
Proof.
  induction tbl as [|x tbl IH]; intros Hs best Hb; [reflexivity|].
  destruct Hs as [Hx Hs]. cbn [fold_left filter].
  destruct (fst x <=? b) eqn:Hxb.
  - assert (Hpick : pick b best x = Some x).
    { unfold pick. rewrite Hxb. destruct best as [p|]; [|reflexivity].
      assert (H : fst p <= fst x) by (apply (Hb p eq_refl); now left).
      apply N.leb_le in H. now rewrite H. }
    rewrite Hpick. rewrite IH; [|assumption|].
    + cbn [rev]. destruct (rev (filter (fun l => fst l <=? b) tbl)); reflexivity.
    + intros p Hp l Hl. inversion Hp; subst. now apply Hx.
  - assert (Hpick : pick b best x = best) by (unfold pick; now rewrite Hxb).
    rewrite Hpick. apply IH; [assumption|]. intros p Hp l Hl. apply (Hb p Hp). now right.
Qed.

Lemma latest_row_sorted b tbl : sorted_hist tbl -> option_map snd (latest_row b tbl) = ref_latest tbl b.
Proof.
  intros Hs. unfold latest_row, ref_latest.
  assert (HH := fold_pick_sorted b tbl Hs None ltac:(discriminate)).
  apply (f_equal (option_map snd)) in HH. etransitivity; [exact HH|].
  destruct (rev (filter (fun l => fst l <=? b) tbl)); reflexivity.
Qed.

Lemma sorted_filter f hist : sorted_hist hist -> sorted_hist (filter f hist).
Proof.
  induction hist as [|x hist IH]; intros Hs; [exact I|]. destruct Hs as [Hx Hs]. simpl.
  destruct (f x); [|now apply IH]. split; [|now apply IH].
  intros l' Hl'. apply filter_In in Hl'. now apply Hx.
Qed.

Lemma filter_table_at hist lpb F : F <= lpb ->
  filter (fun l => fst l <=? F) (table_at hist lpb) = filter (fun l => fst l <=? F) hist.
Proof.
  intros HF. unfold table_at. induction hist as [|x hist IH]; [reflexivity|]. simpl.
  destruct (fst x <=? lpb) eqn:H1; simpl; rewrite IH; [reflexivity|].
  destruct (fst x <=? F) eqn:H2; [|reflexivity]. apply N.leb_le in H2. apply N.leb_gt in H1. lia.
Qed.

(* what the syncer answers once it has reached F is the most recent root of the L1 history at or below F *)
Lemma table_latest_is_ref hist lpb F : sorted_hist hist -> F <= lpb ->
  option_map snd (latest_row F (table_at hist lpb)) = ref_latest hist F.
Proof.
  intros Hs HF. rewrite latest_row_sorted by (now apply sorted_filter).
  unfold ref_latest. now rewrite filter_table_at.
Qed.

(* ------------------------------------------------------------------------------------------- *)
(* one tick *)

Ltac tick_cases H :=
  unfold tick_with, get_last_finalized_ger, get_latest_info_until, after_fetch, on_fetch_error in H;
  repeat match type of H with
         | context [if ?c then _ else _] => let E := fresh "E" in destruct c eqn:E
         | context [match ?c with _ => _ end] => let E := fresh "E" in destruct c eqn:E
         end; try discriminate.

(* T1: what an injection implies *)
Lemma tick_inject_inv fx target d t' g : tick_with fx target d = (t', AInject g) ->
  exists T, (if target =? 0 then d_l1 d = Some T else T = target) /\
            T <> 0 /\ T <= d_lpb d /\
            (exists l, latest_row T (d_table d) = Some l /\ snd l = g) /\
            mem g (d_l2 d) = false /\
            d_info_err d = false /\ d_isinj_err d = false /\ d_inject_err d = false /\ t' = 0.
Proof.
  intros H. unfold tick_with, get_last_finalized_ger in H.
  destruct (target =? 0) eqn:Ht.
  - destruct (d_l1 d) as [T|] eqn:Hl1; [|discriminate]. exists T.
    unfold get_latest_info_until in H.
    destruct (d_info_err d) eqn:E1; [discriminate|].
    destruct (T =? 0) eqn:E2; [discriminate|].
    destruct (d_lpb d <? T) eqn:E3; [discriminate|].
    destruct (latest_row T (d_table d)) as [l|] eqn:E4; [|discriminate].
    unfold after_fetch in H.
    destruct (d_isinj_err d) eqn:E5; [discriminate|].
    destruct (mem (snd l) (d_l2 d)) eqn:E6; [discriminate|].
    destruct (d_inject_err d) eqn:E7; [discriminate|].
    inversion H; subst. apply N.eqb_neq in E2. apply N.ltb_ge in E3.
    repeat split; try assumption; try reflexivity. exists l. now split.
  - exists target.
    unfold get_latest_info_until in H.
    destruct (d_info_err d) eqn:E1; [discriminate|].
    destruct (target =? 0) eqn:E2; [discriminate|].
    destruct (d_lpb d <? target) eqn:E3; [discriminate|].
    destruct (latest_row target (d_table d)) as [l|] eqn:E4; [|discriminate].
    unfold after_fetch in H.
    destruct (d_isinj_err d) eqn:E5; [discriminate|].
    destruct (mem (snd l) (d_l2 d)) eqn:E6; [discriminate|].
    destruct (d_inject_err d) eqn:E7; [discriminate|].
    inversion H; subst. apply N.eqb_neq in E2. apply N.ltb_ge in E3.
    repeat split; try assumption; try reflexivity. exists l. now split.
Qed.

(* T3: a failing dependency injects nothing *)
Lemma tick_error_no_inject fx target d :
  (target = 0 /\ d_l1 d = None) \/ d_info_err d = true \/ d_isinj_err d = true \/ d_inject_err d = true ->
  forall g, snd (tick_with fx target d) <> AInject g.
Proof.
  intros Hf g Hs. destruct (tick_with fx target d) as [t' a] eqn:Ht. simpl in Hs. subst a.
  apply tick_inject_inv in Ht. destruct Ht as [T [HT [_ [_ [_ [_ [H1 [H2 [H3 _]]]]]]]]].
  destruct Hf as [[H0 Hl]|[Hf|[Hf|Hf]]]; try congruence.
  subst target. simpl in HT. congruence.
Qed.

(* T4 (general form): when the block the tick works with has been reached by the syncer and nothing fails,
   the tick ends with the most recent root at or below that block on L2, and forgets the block *)
Lemma tick_reached fx target d T l :
  (if target =? 0 then d_l1 d = Some T else T = target) -> T <> 0 -> T <= d_lpb d ->
  d_info_err d = false -> d_isinj_err d = false -> d_inject_err d = false ->
  latest_row T (d_table d) = Some l ->
  tick_with fx target d = (0, if mem (snd l) (d_l2 d) then ANone else AInject (snd l)).
Proof.
  intros HT Hnz Hle E1 E5 E7 E4. unfold tick_with, get_last_finalized_ger.
  assert (Hsel : (if target =? 0 then d_l1 d else Some target) = Some T).
  { destruct (target =? 0); congruence. }
  rewrite Hsel. unfold get_latest_info_until. rewrite E1.
  apply N.eqb_neq in Hnz. rewrite Hnz. apply N.ltb_ge in Hle. rewrite Hle. rewrite E4.
  unfold after_fetch. rewrite E5, E7. destruct (mem (snd l) (d_l2 d)); reflexivity.
Qed.

(* where a non-zero remembered block comes from *)
Lemma tick_target_nonzero fx target d : fst (tick_with fx target d) <> 0 ->
  fst (tick_with fx target d) = target \/
  (fx = true /\ target = 0 /\ d_l1 d = Some (fst (tick_with fx target d)) /\ d_lpb d < fst (tick_with fx target d) /\
   snd (tick_with fx target d) = AErr ENotProcessed).
Proof.
  unfold tick_with, get_last_finalized_ger.
  destruct (target =? 0) eqn:Ht.
  - apply N.eqb_eq in Ht. subst target. destruct (d_l1 d) as [T|] eqn:Hl1.
    + unfold get_latest_info_until.
      destruct (d_info_err d); [destruct fx; simpl; intros H; now left|].
      destruct (T =? 0) eqn:E2; [destruct fx; simpl; intros H; now left|].
      destruct (d_lpb d <? T) eqn:E3.
      * destruct fx; simpl; intros H; [|now left]. right. apply N.ltb_lt in E3. repeat split; assumption.
      * destruct (latest_row T (d_table d)); [|destruct fx; simpl; intros H; now left].
        unfold after_fetch. intros H. exfalso. apply H.
        destruct (d_isinj_err d); [reflexivity|]. destruct (mem _ _); [reflexivity|]. destruct (d_inject_err d); reflexivity.
    + destruct fx; simpl; intros H; now left.
  - unfold get_latest_info_until.
    destruct (d_info_err d); [destruct fx; simpl; intros H; [congruence|now left]|].
    rewrite Ht.
    destruct (d_lpb d <? target) eqn:E3; [destruct fx; simpl; intros H; now left|].
    destruct (latest_row target (d_table d)); [|destruct fx; simpl; intros H; [congruence|now left]].
    unfold after_fetch. intros H. exfalso. apply H.
    destruct (d_isinj_err d); [reflexivity|]. destruct (mem _ _); [reflexivity|]. destruct (d_inject_err d); reflexivity.
Qed.

(* the code as written never remembers anything *)
Lemma tick_current_zero d : fst (tick 0 d) = 0.
Proof.
  destruct (N.eq_dec (fst (tick 0 d)) 0) as [H|H]; [assumption|].
  unfold tick in *. destruct (tick_target_nonzero false 0 d H) as [H1|[H1 _]]; [assumption|discriminate].
Qed.

(* ------------------------------------------------------------------------------------------- *)
(* runs: all schedules, both variants (fx = false: as written, fx = true: repaired) *)

Section Runs.
Variable hist : list row.
Variable fx : bool.

Lemma step_obs st i :
  snd (step (tick_with fx) hist st i) = tick_with fx (fst st) (mkdeps hist (l2_before hist st i) i).
Proof. reflexivity. Qed.

Lemma step_target st i : fst (fst (step (tick_with fx) hist st i)) = fst (snd (step (tick_with fx) hist st i)).
Proof. reflexivity. Qed.

Lemma step_l2 st i :
  snd (fst (step (tick_with fx) hist st i)) =
  match snd (snd (step (tick_with fx) hist st i)) with
  | AInject g => g :: l2_before hist st i
  | _ => l2_before hist st i
  end.
Proof. reflexivity. Qed.

Lemma step_l2_incl st i : incl (snd st) (snd (fst (step (tick_with fx) hist st i))).
Proof.
  rewrite step_l2. intros x Hx.
  assert (In x (l2_before hist st i)) by (unfold l2_before; apply in_or_app; now right).
  destruct (snd (snd (step (tick_with fx) hist st i))); try assumption. now right.
Qed.

Lemma tb_cons st i r :
  targets_before (tick_with fx) hist st (i :: r) =
  fst st :: targets_before (tick_with fx) hist (fst (step (tick_with fx) hist st i)) r.
Proof. reflexivity. Qed.

Lemma mkdeps_l1 l2 i T : d_l1 (mkdeps hist l2 i) = Some T -> i_l1err i = false /\ i_F i = T.
Proof. simpl. destruct (i_l1err i); [discriminate|]. intros H; inversion H; now split. Qed.

(* T1 for runs. Every injection made at tick t is the most recent root of the L1 history at or below a block F
   that was obtained from the L1 client (configured finality) at some tick s <= t at which the oracle had no
   remembered block (= it asked the client), F was remembered from s to t, and the syncer had reached F at t.
   (First disjunct: the run was started with a remembered block; impossible from the initial state 0.) *)
Lemma run_inj_gen : sorted_hist hist -> forall sched st t o g,
  nth_error (run (tick_with fx) hist st sched) t = Some (o, AInject g) ->
  exists F i_t, F <> 0 /\ ref_latest hist F = Some g /\ nth_error sched t = Some i_t /\ F <= i_lpb i_t /\
    ((fst st = F /\ forall u, (u <= t)%nat -> nth_error (targets_before (tick_with fx) hist st sched) u = Some F)
     \/ (exists s i_s, (s <= t)%nat /\ nth_error sched s = Some i_s /\ i_l1err i_s = false /\ i_F i_s = F /\
           nth_error (targets_before (tick_with fx) hist st sched) s = Some 0 /\
           forall u, (s < u <= t)%nat -> nth_error (targets_before (tick_with fx) hist st sched) u = Some F)).
Proof.
  intros Hs. induction sched as [|i r IH]; intros st t o g H.
  - destruct t; discriminate.
  - destruct t as [|t].
    + cbn [run nth_error] in H.
      assert (Ho : tick_with fx (fst st) (mkdeps hist (l2_before hist st i) i) = (o, AInject g)) by (rewrite <- step_obs; congruence).
      clear H.
      apply tick_inject_inv in Ho. destruct Ho as [T [HT [Hnz [Hle [[l [Hl Hg]] _]]]]].
      cbn [d_lpb d_table mkdeps] in Hle, Hl.
      assert (Href : ref_latest hist T = Some g).
      { rewrite <- (table_latest_is_ref hist (i_lpb i) T Hs Hle). rewrite Hl. simpl. now rewrite Hg. }
      exists T, i. split; [assumption|]. split; [assumption|]. split; [reflexivity|]. split; [assumption|].
      destruct (fst st =? 0) eqn:E.
      * right. apply mkdeps_l1 in HT. destruct HT as [H1 H2]. exists 0%nat, i.
        split; [lia|]. split; [reflexivity|]. split; [assumption|]. split; [assumption|].
        split; [rewrite tb_cons; simpl; apply N.eqb_eq in E; now rewrite E|]. intros u Hu. lia.
      * left. split; [now symmetry|]. intros u Hu. assert (u = 0%nat) by lia. subst u.
        rewrite tb_cons. simpl. now rewrite HT.
    + cbn [run nth_error] in H. apply IH in H.
      destruct H as [F [i_t [Hnz [Href [Hit [Hle Hcase]]]]]].
      exists F, i_t. split; [assumption|]. split; [assumption|]. split; [exact Hit|]. split; [assumption|].
      rewrite tb_cons.
      destruct Hcase as [[Hst' Hall]|[s [i_s [Hs1 [Hs2 [Hs3 [Hs4 [Hs5 Hs6]]]]]]]].
      * assert (Hne : fst (tick_with fx (fst st) (mkdeps hist (l2_before hist st i) i)) <> 0).
        { rewrite <- step_obs, <- step_target. now rewrite Hst'. }
        destruct (tick_target_nonzero _ _ _ Hne) as [Hsame|[_ [H0 [Hl1 _]]]].
        -- left. rewrite <- step_obs, <- step_target, Hst' in Hsame. split; [now symmetry|].
           intros u Hu. destruct u as [|u]; [simpl; now rewrite Hsame|]. simpl. apply Hall. lia.
        -- right. rewrite <- step_obs, <- step_target, Hst' in Hl1. apply mkdeps_l1 in Hl1. destruct Hl1 as [H1 H2].
           exists 0%nat, i. split; [lia|]. split; [reflexivity|]. split; [assumption|]. split; [assumption|].
           split; [simpl; now rewrite H0|]. intros u Hu. destruct u as [|u]; [lia|]. simpl. apply Hall. lia.
      * right. exists (S s), i_s. split; [lia|]. split; [exact Hs2|]. split; [assumption|]. split; [assumption|].
        split; [exact Hs5|]. intros u Hu. destruct u as [|u]; [lia|]. simpl. apply Hs6. lia.
Qed.

(* T2 for runs: no root is injected twice, and no root that was on L2 at the start is injected *)
Lemma run_nodup : forall sched st,
  NoDup (injections (run (tick_with fx) hist st sched)) /\
  forall g, In g (injections (run (tick_with fx) hist st sched)) -> ~ In g (snd st).
Proof.
  induction sched as [|i r IH]; intros st.
  - split; [constructor | intros g []].
  - cbn [run]. unfold injections. cbn [flat_map]. fold (injections (run (tick_with fx) hist (fst (step (tick_with fx) hist st i)) r)).
    destruct (IH (fst (step (tick_with fx) hist st i))) as [Hnd Hnot].
    pose proof (step_l2_incl st i) as Hincl. pose proof (step_l2 st i) as Hl2.
    destruct (snd (step (tick_with fx) hist st i)) as [t' a] eqn:Ho. cbn [snd] in *.
    destruct a as [| g0 | e | g0]; cbn [app]; try (split; [assumption | intros g Hg Hin; apply (Hnot g Hg); now apply Hincl]).
    rewrite step_obs in Ho. apply tick_inject_inv in Ho.
    destruct Ho as [T [_ [_ [_ [_ [Hmem _]]]]]]. cbn [d_l2 mkdeps] in Hmem. apply mem_false in Hmem.
    split.
    + constructor; [|assumption]. intros Hin. apply (Hnot g0 Hin). rewrite Hl2. now left.
    + intros g [Hg|Hg].
      * subst g. intros Hin. apply Hmem. unfold l2_before. apply in_or_app. now right.
      * intros Hin. apply (Hnot g Hg). now apply Hincl.
Qed.

End Runs.

(* ------------------------------------------------------------------------------------------- *)
(* the property's safety clauses, from the initial state of Start (blockNumToFetch = 0) *)

Theorem injected_is_finalized_latest_run : forall hist fx, sorted_hist hist -> forall sched l2 t o g,
  nth_error (run (tick_with fx) hist (0, l2) sched) t = Some (o, AInject g) ->
  exists F i_t s i_s,
    (s <= t)%nat /\ nth_error sched s = Some i_s /\ i_l1err i_s = false /\ i_F i_s = F /\      (* the L1 client answered F at tick s *)
    nth_error (targets_before (tick_with fx) hist (0, l2) sched) s = Some 0 /\             (* and the oracle asked it at tick s *)
    (forall u, (s < u <= t)%nat -> nth_error (targets_before (tick_with fx) hist (0, l2) sched) u = Some F) /\ (* no newer sample before t *)
    F <> 0 /\ nth_error sched t = Some i_t /\ F <= i_lpb i_t /\                              (* the syncer had reached F *)
    ref_latest hist F = Some g.                                                             (* g = most recent root at or below F *)
Proof.
  intros hist fx Hs sched l2 t o g H.
  destruct (run_inj_gen hist fx Hs sched (0, l2) t o g H) as [F [i_t [Hnz [Href [Hit [Hle Hcase]]]]]].
  destruct Hcase as [[H0 _]|[s [i_s [H1 [H2 [H3 [H4 [H5 H6]]]]]]]].
  - simpl in H0. congruence.
  - exists F, i_t, s, i_s. repeat split; assumption.
Qed.

Theorem no_duplicate_injection_run : forall hist fx sched st,
  NoDup (injections (run (tick_with fx) hist st sched)) /\
  forall g, In g (injections (run (tick_with fx) hist st sched)) -> ~ In g (snd st).
Proof. intros. apply run_nodup. Qed.

(* T4 at world level: syncer at or beyond the freshly sampled block, nothing fails => after this very tick the most
   recent root at or below the sampled block is on L2 (it was injected now or was there already) *)
Theorem progress_when_caught_up_world : forall hist fx, sorted_hist hist -> forall l2 i g,
  errfree i -> i_F i <> 0 -> i_F i <= i_lpb i -> ref_latest hist (i_F i) = Some g ->
  let s := step (tick_with fx) hist (0, l2) i in
  fst (fst s) = 0 /\ In g (snd (fst s)) /\
  (snd s = (0, AInject g) /\ ~ In g (l2_before hist (0, l2) i) \/ snd s = (0, ANone) /\ In g (l2_before hist (0, l2) i)).
Proof.
  intros hist fx Hs l2 i g [E1 [E2 [E3 E4]]] Hnz Hle Href s.
  pose proof (table_latest_is_ref hist (i_lpb i) (i_F i) Hs Hle) as Ht. rewrite Href in Ht.
  destruct (latest_row (i_F i) (table_at hist (i_lpb i))) as [l|] eqn:El; [|discriminate].
  simpl in Ht. injection Ht as Ht.
  assert (Hstep : snd s = (0, if mem g (l2_before hist (0, l2) i) then ANone else AInject g)).
  { subst s. rewrite step_obs. rewrite <- Ht.
    apply (tick_reached fx (fst (0, l2)) (mkdeps hist (l2_before hist (0, l2) i) i) (i_F i) l); simpl; try assumption.
    now rewrite E1. }
  pose proof (step_l2 hist fx (0, l2) i) as Hl2. pose proof (step_target hist fx (0, l2) i) as Htg.
  fold s in Hl2, Htg. rewrite Hstep in Hl2, Htg. cbn [fst snd] in Hl2, Htg.
  split; [assumption|].
  destruct (mem g (l2_before hist (0, l2) i)) eqn:Em.
  - apply mem_In in Em. split; [now rewrite Hl2|]. right. now split.
  - apply mem_false in Em. split; [rewrite Hl2; now left|]. left. now split.
Qed.

(* ------------------------------------------------------------------------------------------- *)
(* the code as written: the remembered block is dead code, and a lagging syncer starves the oracle *)

Lemma step_current_zero hist l2 i : fst (fst (step tick hist (0, l2) i)) = 0.
Proof. unfold tick. rewrite step_target, step_obs. apply tick_current_zero. Qed.

Theorem target_always_zero_current : forall hist sched l2,
  Forall (fun o => fst o = 0) (run tick hist (0, l2) sched).
Proof.
  intros hist. induction sched as [|i r IH]; intros l2; [constructor|].
  cbn [run]. pose proof (step_current_zero hist l2 i) as H0.
  constructor.
  - unfold tick in *. now rewrite <- step_target.
  - destruct (fst (step tick hist (0, l2) i)) as [t' l2'] eqn:E. simpl in H0. subst t'. apply IH.
Qed.

Lemma tick_current_lag d F : d_l1 d = Some F -> d_lpb d < F -> exists e, tick 0 d = (0, AErr e).
Proof.
  intros Hl1 Hlt. unfold tick, tick_with, get_last_finalized_ger. simpl. rewrite Hl1.
  unfold get_latest_info_until.
  destruct (d_info_err d); [eexists; reflexivity|].
  destruct (F =? 0); [eexists; reflexivity|].
  apply N.ltb_lt in Hlt. rewrite Hlt. eexists; reflexivity.
Qed.

(* whenever, at every tick, the syncer is behind the block the L1 client reports (or the client fails),
   the code as written never injects - however long the run, however far the syncer has come *)
Theorem starvation_current_general : forall hist sched l2,
  Forall (fun i => i_l1err i = true \/ i_lpb i < i_F i) sched ->
  injections (run tick hist (0, l2) sched) = [].
Proof.
  intros hist. induction sched as [|i r IH]; intros l2 Hall; [reflexivity|].
  inversion Hall as [|? ? Hi Hr]; subst.
  cbn [run]. unfold injections. cbn [flat_map]. fold (injections (run tick hist (fst (step tick hist (0, l2) i)) r)).
  assert (He : exists e, snd (step tick hist (0, l2) i) = (0, AErr e)).
  { unfold tick. rewrite step_obs. cbn [fst].
    destruct (i_l1err i) eqn:El1.
    - exists EL1. unfold tick_with, get_last_finalized_ger. simpl. now rewrite El1.
    - destruct Hi as [Hi|Hi]; [discriminate|].
      apply (tick_current_lag _ (i_F i)); simpl; [now rewrite El1 | assumption]. }
  destruct He as [e He].
  pose proof (step_current_zero hist l2 i) as H0.
  destruct (fst (step tick hist (0, l2) i)) as [t' l2'] eqn:E. simpl in H0. subst t'.
  rewrite He. cbn [snd app]. now apply IH.
Qed.

Lemma Forall_map_seq {A} (P : A -> Prop) (f : nat -> A) a n : (forall t, P (f t)) -> Forall P (map f (seq a n)).
Proof. intros H. apply Forall_forall. intros x Hx. apply in_map_iff in Hx. destruct Hx as [t [Ht _]]. subst. apply H. Qed.

(* F3: syncer k >= 1 blocks behind a finalized block that advances every tick *)
Theorem starvation_refuted_current : forall k n l2, (1 <= k)%nat ->
  injections (run tick (lag_hist k n) (0, l2) (lag_schedule k n)) = [].
Proof.
  intros k n l2 Hk. apply starvation_current_general. unfold lag_schedule.
  apply Forall_map_seq. intros t. right. simpl. lia.
Qed.

(* ... although the lag schedule is fair: the block sampled at tick t is reached by the syncer at tick t + k *)
Lemma lag_schedule_fair k t : i_lpb (lag_tin k (t + k)) = i_F (lag_tin k t).
Proof. simpl. lia. Qed.

(* ------------------------------------------------------------------------------------------- *)
(* the repaired code: progress under lag *)

Lemma tick_fixed_wait d F : F <> 0 -> d_info_err d = false -> d_lpb d < F ->
  tick_fixed F d = (F, AErr ENotProcessed).
Proof.
  intros Hnz E1 Hlt. unfold tick_fixed, tick_with, get_last_finalized_ger.
  apply N.eqb_neq in Hnz. rewrite Hnz. unfold get_latest_info_until. rewrite E1, Hnz.
  apply N.ltb_lt in Hlt. now rewrite Hlt.
Qed.

Lemma tick_fixed_sample_wait d F : F <> 0 -> d_l1 d = Some F -> d_info_err d = false -> d_lpb d < F ->
  tick_fixed 0 d = (F, AErr ENotProcessed).
Proof.
  intros Hnz Hl1 E1 Hlt. unfold tick_fixed, tick_with, get_last_finalized_ger. simpl. rewrite Hl1.
  unfold get_latest_info_until. rewrite E1. apply N.eqb_neq in Hnz. rewrite Hnz.
  apply N.ltb_lt in Hlt. now rewrite Hlt.
Qed.

(* while the syncer has not reached the remembered block, the block stays remembered and L2 only grows *)
Lemma wait_phase hist F : F <> 0 -> forall pre st, fst st = F ->
  Forall (fun i => errfree i /\ i_lpb i < F) pre ->
  fst (final tick_fixed hist st pre) = F /\ incl (snd st) (snd (final tick_fixed hist st pre)) /\
  injections (run tick_fixed hist st pre) = [].
Proof.
  intros Hnz. induction pre as [|i r IH]; intros st Hst Hall.
  - simpl. split; [assumption|]. split; [apply incl_refl | reflexivity].
  - inversion Hall as [|? ? [[E1 [E2 [E3 E4]]] Hlt] Hr]; subst.
    assert (Ho : snd (step tick_fixed hist st i) = (fst st, AErr ENotProcessed)).
    { unfold tick_fixed. rewrite step_obs. apply tick_fixed_wait; simpl; assumption. }
    cbn [final run]. unfold injections. cbn [flat_map].
    fold (injections (run tick_fixed hist (fst (step tick_fixed hist st i)) r)).
    rewrite Ho. cbn [snd app].
    assert (Htg : fst (fst (step tick_fixed hist st i)) = fst st).
    { unfold tick_fixed in *. rewrite step_target. now rewrite Ho. }
    destruct (IH (fst (step tick_fixed hist st i)) Htg Hr) as [H1 [H2 H3]].
    split; [assumption|]. split; [|assumption].
    eapply incl_tran; [|exact H2]. unfold tick_fixed. apply step_l2_incl.
Qed.

(* the tick at which the syncer has reached the remembered (or freshly sampled) block delivers *)
Lemma deliver_step hist : sorted_hist hist -> forall st i F g,
  F <> 0 -> (fst st = F \/ fst st = 0 /\ i_F i = F) -> errfree i -> F <= i_lpb i -> ref_latest hist F = Some g ->
  let s := step tick_fixed hist st i in
  fst (fst s) = 0 /\ In g (snd (fst s)) /\ (snd s = (0, AInject g) \/ snd s = (0, ANone)).
Proof.
  intros Hs st i F g Hnz Hst [E1 [E2 [E3 E4]]] Hle Href s.
  pose proof (table_latest_is_ref hist (i_lpb i) F Hs Hle) as Ht. rewrite Href in Ht.
  destruct (latest_row F (table_at hist (i_lpb i))) as [l|] eqn:El; [|discriminate].
  simpl in Ht. injection Ht as Ht.
  assert (Hstep : snd s = (0, if mem g (l2_before hist st i) then ANone else AInject g)).
  { subst s. unfold tick_fixed. rewrite step_obs. rewrite <- Ht.
    apply (tick_reached true (fst st) (mkdeps hist (l2_before hist st i) i) F l); simpl; try assumption.
    destruct Hst as [Hst|[Hst HF]].
    - rewrite Hst. apply N.eqb_neq in Hnz. now rewrite Hnz.
    - rewrite Hst. simpl. rewrite E1. now rewrite HF. }
  pose proof (step_l2 hist true st i) as Hl2. pose proof (step_target hist true st i) as Htg.
  fold tick_fixed in Hl2, Htg. fold s in Hl2, Htg. rewrite Hstep in Hl2, Htg. cbn [fst snd] in Hl2, Htg.
  split; [assumption|].
  destruct (mem g (l2_before hist st i)) eqn:Em.
  - apply mem_In in Em. split; [now rewrite Hl2|]. now right.
  - split; [rewrite Hl2; now left|]. now left.
Qed.

Lemma injections_cons o r :
  injections (o :: r) = match snd o with AInject g => [g] | _ => [] end ++ injections r.
Proof. reflexivity. Qed.

Lemma injections_app a b : injections (a ++ b) = injections a ++ injections b.
Proof. unfold injections. apply flat_map_app. Qed.

Lemma run_app tk hist st a b : run tk hist st (a ++ b) = run tk hist st a ++ run tk hist (final tk hist st a) b.
Proof. revert st. induction a as [|x a IH]; intros st; [reflexivity|]. simpl. f_equal. apply IH. Qed.

Lemma final_app tk hist st a b : final tk hist st (a ++ b) = final tk hist (final tk hist st a) b.
Proof. revert st. induction a as [|x a IH]; intros st; [reflexivity|]. simpl. apply IH. Qed.

(* progress under lag. The oracle has no remembered block; tick i0 samples F (<> 0, with a root at or below it);
   the syncer is behind F at i0 and during the ticks `pre`, and has reached F at tick i1; no dependency fails.
   Then after tick i1 - not later - the most recent root at or below F is on L2, the oracle made no other injection
   meanwhile, and it has forgotten F (so the next tick samples again: the theorem applies again, forever). *)
Theorem progress_under_lag : forall hist, sorted_hist hist -> forall l2 i0 pre i1 F g,
  F <> 0 -> ref_latest hist F = Some g -> i_F i0 = F ->
  Forall (fun i => errfree i /\ i_lpb i < F) (i0 :: pre) -> errfree i1 -> F <= i_lpb i1 ->
  let st' := final tick_fixed hist (0, l2) ((i0 :: pre) ++ [i1]) in
  fst st' = 0 /\ In g (snd st') /\
  (injections (run tick_fixed hist (0, l2) ((i0 :: pre) ++ [i1])) = [g] \/
   injections (run tick_fixed hist (0, l2) ((i0 :: pre) ++ [i1])) = []).
Proof.
  intros hist Hs l2 i0 pre i1 F g Hnz Href HF Hall He1 Hle st'.
  inversion Hall as [|? ? [[E1 [E2 [E3 E4]]] Hlt] Hpre]; subst x l.
  (* tick i0: sample, syncer not there, remember F *)
  assert (Ho0 : snd (step tick_fixed hist (0, l2) i0) = (F, AErr ENotProcessed)).
  { unfold tick_fixed. rewrite step_obs. apply tick_fixed_sample_wait; simpl; try assumption. rewrite E1. now rewrite HF. }
  assert (Htg0 : fst (fst (step tick_fixed hist (0, l2) i0)) = F).
  { unfold tick_fixed in *. rewrite step_target. now rewrite Ho0. }
  destruct (wait_phase hist F Hnz pre (fst (step tick_fixed hist (0, l2) i0)) Htg0 Hpre) as [W1 [W2 W3]].
  set (st1 := final tick_fixed hist (fst (step tick_fixed hist (0, l2) i0)) pre) in *.
  destruct (deliver_step hist Hs st1 i1 F g Hnz (or_introl W1) He1 Hle Href) as [D1 [D2 D3]].
  assert (Hfin : st' = fst (step tick_fixed hist st1 i1)).
  { subst st'. cbn [app final]. rewrite final_app. reflexivity. }
  rewrite Hfin. split; [assumption|]. split; [assumption|].
  replace (injections (run tick_fixed hist (0, l2) ((i0 :: pre) ++ [i1])))
    with (injections [snd (step tick_fixed hist st1 i1)]).
  { destruct D3 as [D3|D3]; rewrite D3; [left|right]; reflexivity. }
  symmetry. rewrite run_app, injections_app. cbn [run final]. rewrite injections_cons, Ho0. cbn [snd app].
  rewrite W3. reflexivity.
Qed.

(* fairness in the form "the syncer eventually reaches the sampled block": decomposition of a schedule at the first
   tick where it has *)
Lemma first_reach F : forall sched : list tin, Exists (fun i => F <= i_lpb i) sched ->
  exists pre i1 post, sched = pre ++ i1 :: post /\ Forall (fun i => i_lpb i < F) pre /\ F <= i_lpb i1.
Proof.
  induction sched as [|x r IH]; intros H; [inversion H|].
  destruct (F <=? i_lpb x) eqn:E.
  - apply N.leb_le in E. exists [], x, r. repeat split; [constructor | assumption].
  - apply N.leb_gt in E. inversion H as [? ? Hx|? ? Hr]; subst; [lia|].
    destruct (IH Hr) as [pre [i1 [post [H1 [H2 H3]]]]]. exists (x :: pre), i1, post.
    split; [now rewrite H1|]. split; [now constructor | assumption].
Qed.

Theorem progress_under_lag_fair : forall hist, sorted_hist hist -> forall l2 i0 rest F g,
  F <> 0 -> ref_latest hist F = Some g -> i_F i0 = F ->
  Forall errfree (i0 :: rest) ->
  Exists (fun i => F <= i_lpb i) (i0 :: rest) ->              (* fairness: the syncer reaches the sampled block *)
  exists n, (1 <= n <= length (i0 :: rest))%nat /\
    let st' := final tick_fixed hist (0, l2) (firstn n (i0 :: rest)) in
    fst st' = 0 /\ In g (snd st') /\
    Forall (fun i => i_lpb i < F) (firstn (n - 1) (i0 :: rest)).  (* n - 1 = the first tick at which the syncer has reached F *)
Proof.
  intros hist Hs l2 i0 rest F g Hnz Href HF Herr Hex.
  destruct (first_reach F _ Hex) as [pre [i1 [post [Hdec [Hpre Hle]]]]].
  assert (Hlen : length (i0 :: rest) = (length pre + S (length post))%nat).
  { rewrite Hdec, app_length. reflexivity. }
  exists (S (length pre)). split; [lia|].
  assert (Hfirst : firstn (S (length pre)) (i0 :: rest) = pre ++ [i1]).
  { rewrite Hdec. replace (S (length pre)) with (length pre + 1)%nat by lia.
    rewrite firstn_app_2. reflexivity. }
  assert (Hfirst' : firstn (S (length pre) - 1) (i0 :: rest) = pre).
  { rewrite Hdec. replace (S (length pre) - 1)%nat with (length pre + 0)%nat by lia.
    rewrite firstn_app_2. simpl. apply app_nil_r. }
  rewrite Hfirst, Hfirst'.
  assert (Herr' : Forall errfree (pre ++ i1 :: post)) by (now rewrite <- Hdec).
  assert (He1 : errfree i1) by (apply (proj1 (Forall_forall _ _) Herr'); apply in_or_app; right; now left).
  assert (Herr1 : Forall errfree pre).
  { apply Forall_forall. intros x Hx. apply (proj1 (Forall_forall _ _) Herr'). apply in_or_app. now left. }
  destruct pre as [|p0 pre].
  - (* the syncer is already there at the sampling tick *)
    simpl in Hdec. injection Hdec as Hi0 _. subst i1.
    destruct (deliver_step hist Hs (0, l2) i0 F g Hnz (or_intror (conj eq_refl HF)) He1 Hle Href) as [D1 [D2 _]].
    cbn [app final]. split; [assumption|]. split; [assumption|constructor].
  - simpl in Hdec. injection Hdec as Hp0 Hrest. subst p0.
    assert (Hall : Forall (fun i => errfree i /\ i_lpb i < F) (i0 :: pre)).
    { apply Forall_forall. intros x Hx. split.
      - now apply (proj1 (Forall_forall _ _) Herr1).
      - now apply (proj1 (Forall_forall _ _) Hpre). }
    destruct (progress_under_lag hist Hs l2 i0 pre i1 F g Hnz Href HF Hall He1 Hle) as [P1 [P2 _]].
    split; [assumption|]. split; assumption.
Qed.

(* ------------------------------------------------------------------------------------------- *)
(* per-tick statements in the form quoted by Properties/C15.v *)

Lemma sorted_histb_ok hist : sorted_histb hist = true -> sorted_hist hist.
Proof.
  induction hist as [|l r IH]; intros H; [exact I|]. simpl in H. apply andb_true_iff in H. destruct H as [H1 H2].
  split; [|now apply IH]. intros l' Hl'. rewrite forallb_forall in H1. apply N.leb_le. now apply H1.
Qed.

Theorem injected_is_finalized_latest : forall fx target d t' g, tick_with fx target d = (t', AInject g) ->
  exists T l,
    (if target =? 0 then d_l1 d = Some T else T = target) /\     (* T: just answered by the L1 client, or remembered *)
    T <> 0 /\ T <= d_lpb d /\                                    (* the syncer has processed block T *)
    In l (d_table d) /\ snd l = g /\ fst l <= T /\               (* g is the root of a row at or below T ... *)
    (forall l', In l' (d_table d) -> fst l' <= T -> fst l' <= fst l) /\   (* ... of the highest block at or below T *)
    mem g (d_l2 d) = false.                                      (* and L2 does not have it *)
Proof.
  intros fx target d t' g H. apply tick_inject_inv in H.
  destruct H as [T [HT [Hnz [Hle [[l [Hl Hg]] [Hm _]]]]]].
  destruct (latest_row_some T (d_table d) l Hl) as [Hin [Hb Hmax]].
  exists T, l. repeat split; assumption.
Qed.

Theorem no_duplicate_injection : forall fx target d t' g,
  tick_with fx target d = (t', AInject g) -> ~ In g (d_l2 d).
Proof.
  intros fx target d t' g H. apply tick_inject_inv in H.
  destruct H as [T [_ [_ [_ [_ [Hm _]]]]]]. now apply mem_false.
Qed.

Theorem errors_inject_nothing : forall fx target d,
  (target = 0 /\ d_l1 d = None) \/ d_info_err d = true \/ d_isinj_err d = true \/ d_inject_err d = true ->
  forall g, snd (tick_with fx target d) <> AInject g.
Proof. exact tick_error_no_inject. Qed.

Theorem progress_when_caught_up : forall fx d F l,
  d_l1 d = Some F -> F <> 0 -> F <= d_lpb d ->
  d_info_err d = false -> d_isinj_err d = false -> d_inject_err d = false ->
  latest_row F (d_table d) = Some l ->
  tick_with fx 0 d = (0, if mem (snd l) (d_l2 d) then ANone else AInject (snd l)).
Proof. intros fx d F l H. apply tick_reached. exact H. Qed.

(* ------------------------------------------------------------------------------------------- *)
(* the repaired code never gets stuck on an old block: two caught-up ticks *)

Lemma tick_fixed_zero_block d target : (if target =? 0 then d_l1 d = Some 0 else False) ->
  fst (tick_fixed target d) = 0.
Proof.
  intros H. unfold tick_fixed, tick_with, get_last_finalized_ger.
  destruct (target =? 0); [|destruct H]. rewrite H. unfold get_latest_info_until.
  destruct (d_info_err d); reflexivity.
Qed.

Lemma tick_fixed_notfound target d T :
  (if target =? 0 then d_l1 d = Some T else T = target) -> T <> 0 -> T <= d_lpb d ->
  d_info_err d = false -> latest_row T (d_table d) = None ->
  tick_fixed target d = (0, AErr ENotFound).
Proof.
  intros HT Hnz Hle E1 E4. unfold tick_fixed, tick_with, get_last_finalized_ger.
  assert (Hsel : (if target =? 0 then d_l1 d else Some target) = Some T).
  { destruct (target =? 0); congruence. }
  rewrite Hsel. unfold get_latest_info_until. rewrite E1.
  apply N.eqb_neq in Hnz. rewrite Hnz. apply N.ltb_ge in Hle. rewrite Hle. now rewrite E4.
Qed.

(* one tick with every dependency working and the syncer at or beyond the block the tick works with (the remembered
   block, or else the freshly sampled one): the block is forgotten and its most recent root (if any) is on L2 *)
Lemma one_tick_caught hist : sorted_hist hist -> forall st i,
  errfree i -> fst st <= i_lpb i -> i_F i <= i_lpb i ->
  let T := if fst st =? 0 then i_F i else fst st in
  fst (fst (step tick_fixed hist st i)) = 0 /\
  (T <> 0 -> forall g, ref_latest hist T = Some g -> In g (snd (fst (step tick_fixed hist st i)))).
Proof.
  intros Hs st i He Hst HF T.
  assert (HTle : T <= i_lpb i) by (subst T; destruct (fst st =? 0); assumption).
  destruct (N.eq_dec T 0) as [HT0|HTnz].
  - split; [|intros H; now elim H].
    unfold tick_fixed. rewrite step_target, step_obs. fold tick_fixed. apply tick_fixed_zero_block.
    subst T. destruct (fst st =? 0) eqn:E.
    + simpl. destruct He as [E1 _]. rewrite E1. now rewrite HT0.
    + apply N.eqb_neq in E. contradiction.
  - assert (Hsel : fst st = T \/ fst st = 0 /\ i_F i = T).
    { subst T. destruct (fst st =? 0) eqn:E; [right; apply N.eqb_eq in E; now split | now left]. }
    destruct (ref_latest hist T) as [g|] eqn:Href.
    + destruct (deliver_step hist Hs st i T g HTnz Hsel He HTle Href) as [D1 [D2 _]].
      split; [assumption|]. intros _ g' Hg'. inversion Hg'; now subst.
    + split; [|intros _ g' Hg'; discriminate].
      pose proof (table_latest_is_ref hist (i_lpb i) T Hs HTle) as Ht. rewrite Href in Ht.
      destruct (latest_row T (table_at hist (i_lpb i))) as [l|] eqn:El; [discriminate|].
      destruct He as [E1 [E2 _]].
      unfold tick_fixed. rewrite step_target, step_obs. fold tick_fixed.
      rewrite (tick_fixed_notfound (fst st) _ T); simpl; try assumption; try reflexivity.
      destruct Hsel as [Hsel|[Hsel HFT]].
      * rewrite Hsel. apply N.eqb_neq in HTnz. now rewrite HTnz.
      * rewrite Hsel. simpl. rewrite E1. now rewrite HFT.
Qed.

Theorem caught_up_two_ticks : forall hist, sorted_hist hist -> forall st ia ib g,
  errfree ia -> errfree ib ->
  fst st <= i_lpb ia -> i_F ia <= i_lpb ia -> i_F ib <= i_lpb ib ->       (* syncer at or beyond everything in play *)
  i_F ib <> 0 -> ref_latest hist (i_F ib) = Some g ->
  let st2 := final tick_fixed hist st [ia; ib] in
  fst st2 = 0 /\ In g (snd st2).
Proof.
  intros hist Hs st ia ib g Ha Hb Hst HFa HFb Hnz Href st2.
  destruct (one_tick_caught hist Hs st ia Ha Hst HFa) as [A1 _].
  set (st1 := fst (step tick_fixed hist st ia)) in *.
  assert (Hst1 : fst st1 <= i_lpb ib) by (rewrite A1; apply N.le_0_l).
  destruct (one_tick_caught hist Hs st1 ib Hb Hst1 HFb) as [B1 B2].
  rewrite A1 in B2. simpl in B2.
  subst st2. cbn [final]. fold st1. split; [assumption|]. now apply B2.
Qed.
