(* The last-block clamp of a certificate, GENERATED from aggsender/flows/max_l2blocknumber_limiter.go by tools/go2coq on every run
   (IsEnabled, IsAllowedBlockNumber, isUpcomingNextRange, AdaptCertificate, on top of the translated Range / IsEmpty / IsARetry / counts
   of Gen/GenBuildParams.v), computes what the model's adapt_certificate (Model/CertCut.v, the subject of the C17 adapt theorems)
   computes: the same certificate when it answers, an error in the same cases - for every limiter configuration and every
   certificate, nil included. The translator renders every error of that file as the class EFail; WHICH of the five errors is
   returned is compared by the correspondence of the C17 check. *)
From Coq Require Import ZArith NArith List Bool Lia.
From Verif Require Import Base.GoNum Model.CertCut Proofs.CertCutProofs Gen.GenBuildParams Gen.GenAdaptCert Proofs.GenAgreeBuildParams.
Import ListNotations.
Open Scope N_scope.

Section Agree.
Variable l : limiter.

Definition gen_adapt := AdaptCertificate (l_max l) (l_allow_resize_retry l) (l_require_bridge l).

Lemma IsEnabled_agree : IsEnabled (l_max l) = is_enabled l.
Proof. reflexivity. Qed.

Lemma IsAllowed_agree b : IsAllowedBlockNumber (l_max l) b = is_allowed_block l b.
Proof. unfold IsAllowedBlockNumber, is_allowed_block. rewrite IsEnabled_agree. destruct (is_enabled l); reflexivity. Qed.

Lemma add64_same a b : u64_add a b = add64 a b.
Proof. unfold u64_add, add64. rewrite U64_same. reflexivity. Qed.

Lemma isUpcoming_agree f t : isUpcomingNextRange (l_max l) f t = is_upcoming_next_range l f t.
Proof.
  unfold isUpcomingNextRange, is_upcoming_next_range. rewrite IsEnabled_agree, add64_same.
  destruct (is_enabled l); reflexivity.
Qed.

Lemma zero_count_b c : (CertificateBuildParams_NumberOfBridges (Some c) =? 0)%Z = (number_of_bridges (abs c) =? 0).
Proof. rewrite NumberOfBridges_agree. destruct (number_of_bridges (abs c)); reflexivity. Qed.

Lemma pos_count_c c : (0 <? CertificateBuildParams_NumberOfClaims (Some c))%Z = (0 <? number_of_claims (abs c)).
Proof. rewrite NumberOfClaims_agree. destruct (number_of_claims (abs c)); reflexivity. Qed.

Theorem AdaptCertificate_agree (oc : option CertificateBuildParams) :
  match adapt_certificate l (option_map abs oc) with
  | Ok None => gen_adapt oc = (None, EOK) /\ oc = None
  | Ok (Some p) => exists c', gen_adapt oc = (Some c', EOK) /\ abs c' = p
  | Err _ => gen_adapt oc = (None, EFail)
  end.
Proof.
  unfold gen_adapt, AdaptCertificate, adapt_certificate. rewrite IsEnabled_agree.
  destruct (is_enabled l) eqn:Een; cbn [negb].
  2:{ destruct oc as [c|]; cbn [option_map]; [exists c; split; reflexivity|split; reflexivity]. }
  destruct oc as [c|]; cbn [option_map]; [|reflexivity].
  rewrite IsAllowed_agree. change (p_to (abs c)) with (CertificateBuildParams_ToBlock c).
  change (p_from (abs c)) with (CertificateBuildParams_FromBlock c).
  destruct (is_allowed_block l (CertificateBuildParams_ToBlock c)); [exists c; split; reflexivity|].
  rewrite IsARetry_agree. destruct (is_retry (abs c) && negb (l_allow_resize_retry l))%bool; [reflexivity|].
  rewrite isUpcoming_agree.
  destruct (is_upcoming_next_range l (CertificateBuildParams_FromBlock c) (CertificateBuildParams_ToBlock c)); [reflexivity|].
  destruct (l_max l <? CertificateBuildParams_FromBlock c); [reflexivity|].
  pose proof (Range_agree c (CertificateBuildParams_FromBlock c) (l_max l)) as HR.
  destruct (range_cut (abs c) (CertificateBuildParams_FromBlock c) (l_max l)) as [p|e].
  - destruct HR as [c' [HR Habs]]. rewrite HR. cbn [err_eqb negb]. subst p.
    rewrite IsEmpty_agree.
    destruct (negb (l_require_bridge l) && is_empty_cert (abs c'))%bool; [exists c'; split; reflexivity|].
    rewrite zero_count_b, pos_count_c.
    destruct (l_require_bridge l && (number_of_bridges (abs c') =? 0))%bool.
    + destruct (0 <? number_of_claims (abs c')); reflexivity.
    + exists c'; split; reflexivity.
  - rewrite HR. reflexivity.
Qed.

(* the C17 clamp theorem, read on the translated function: what it returns keeps the first block, ends at the largest permitted
   block and, when it had to cut, is exactly the restriction of the certificate to the kept blocks *)
Theorem AdaptCertificate_clamps (c c' : CertificateBuildParams) : l_max l <> 0 -> CertificateBuildParams_ToBlock c < CertCut.U64 ->
  gen_adapt (Some c) = (Some c', EOK) ->
  p_from (abs c') = p_from (abs c) /\ p_to (abs c') = N.min (p_to (abs c)) (l_max l) /\
  (p_to (abs c) <= l_max l -> abs c' = abs c) /\
  (l_max l < p_to (abs c) -> abs c' = restrict (abs c) (p_from (abs c)) (l_max l)).
Proof.
  intros Hen Hto Hg. pose proof (AdaptCertificate_agree (Some c)) as H. cbn [option_map] in H.
  destruct (adapt_certificate l (Some (abs c))) as [[p|]|e] eqn:Ea.
  - destruct H as [c'' [H1 H2]]. rewrite Hg in H1. injection H1 as H1. subst c''. subst p.
    destruct (adapt_clamps l (abs c) (Some (abs c')) Hen Hto Ea) as [x [Hx [Hf [Ht [Hsame Hcut]]]]].
    injection Hx as Hx. subst x. split; [exact Hf|]. split; [exact Ht|]. split; [exact Hsame|].
    intros Hlt. exact (proj1 (Hcut Hlt)).
  - destruct H as [_ H]. discriminate H.
  - rewrite Hg in H. discriminate H.
Qed.

End Agree.
