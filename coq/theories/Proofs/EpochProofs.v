(* C18 — proofs about Model/Epoch.v (exact arithmetic; no axioms). *)
From Coq Require Import NArith List Lia Bool Sorted.
From Coq Require Import ZifyN ZifyBool.
From Verif Require Import Model.Epoch.
Import ListNotations.
Open Scope N_scope.

Section EpochProofs.
Variable S0 n P : N.
Hypothesis Hn : 1 <= n.

Notation epoch_number := (epoch_number S0 n).
Notation starting_block_epoch := (starting_block_epoch S0 n).
Notation ref_epoch := (ref_epoch S0 n).
Notation ref_first_block := (ref_first_block S0 n).
Notation ref_qualifies := (ref_qualifies S0 n P).
Notation step := (step S0 n P).
Notation run := (run S0 n P).
Notation run_ix := (run_ix S0 n P).
Notation init := (init S0 n).
Notation first_qualifying := (first_qualifying S0 n P).

(* ------------------------------------------------------------------------------------------ *)
(* arithmetic of epochs                                                                         *)
(* ------------------------------------------------------------------------------------------ *)

Lemma div_bounds a : n * (a / n) <= a < n * (a / n) + n.
Proof.
  pose proof (N.div_mod a n ltac:(lia)). pose proof (N.mod_lt a n ltac:(lia)). lia.
Qed.

Lemma epoch_number_ref b : S0 <= b -> epoch_number b = ref_epoch b.
Proof. intros H. unfold epoch_number, Epoch.ref_epoch. destruct (N.ltb_spec b S0); [lia|reflexivity]. Qed.

Lemma ref_epoch_ge1 b : 1 <= ref_epoch b.
Proof. unfold Epoch.ref_epoch. set (q := (b - S0) / n). lia. Qed.

Lemma ref_epoch_mono a b : a <= b -> ref_epoch a <= ref_epoch b.
Proof.
  intros H. unfold Epoch.ref_epoch. apply N.add_le_mono_l. apply N.div_le_mono; lia.
Qed.

(* the meaning of ref_epoch: epoch e >= 1 is the block interval [S0+(e-1)n, S0+e*n) *)
Lemma ref_epoch_spec b e : S0 <= b ->
  (ref_epoch b = e <-> 1 <= e /\ S0 + (e - 1) * n <= b < S0 + e * n).
Proof.
  intros Hb. unfold Epoch.ref_epoch. pose proof (div_bounds (b - S0)) as Hd.
  set (q := (b - S0) / n) in *. clearbody q. split.
  - intros <-. replace (1 + q - 1) with q by lia. nia.
  - intros [He [Hlo Hhi]].
    assert (Hq : q = e - 1).
    { assert (q < e) by nia. assert (e - 1 < q + 1) by nia. lia. }
    lia.
Qed.

Lemma ref_first_le b : S0 <= b -> ref_first_block (ref_epoch b) <= b < ref_first_block (ref_epoch b) + n.
Proof.
  intros Hb. unfold Epoch.ref_first_block, Epoch.ref_epoch. pose proof (div_bounds (b - S0)) as Hd.
  set (q := (b - S0) / n) in *. clearbody q.
  replace (1 + q - 1) with q by lia. nia.
Qed.

Lemma starting_block_ref b : S0 <= b -> starting_block_epoch (epoch_number b) = ref_first_block (ref_epoch b).
Proof.
  intros Hb. rewrite epoch_number_ref by assumption. unfold Epoch.starting_block_epoch, Epoch.ref_first_block.
  pose proof (ref_epoch_ge1 b). destruct (N.eqb_spec (ref_epoch b) 0); [lia|reflexivity].
Qed.

(* the position inside the epoch is (b - S0) mod n *)
Lemma position_is_mod b : S0 <= b -> b - ref_first_block (ref_epoch b) = (b - S0) mod n.
Proof.
  intros Hb. unfold Epoch.ref_first_block, Epoch.ref_epoch.
  pose proof (N.div_mod (b - S0) n ltac:(lia)) as Hdm. pose proof (div_bounds (b - S0)) as Hd.
  set (q := (b - S0) / n) in *. set (r := (b - S0) mod n) in *. clearbody q r.
  replace (1 + q - 1) with q by lia. nia.
Qed.

(* the clamp means: the last block of every epoch qualifies, whatever P *)
Lemma last_block_qualifies e : 1 <= e -> ref_qualifies (S0 + e * n - 1) = true.
Proof.
  intros He. unfold Epoch.ref_qualifies.
  assert (Hb : S0 <= S0 + e * n - 1) by nia.
  assert (Hep : ref_epoch (S0 + e * n - 1) = e) by (apply ref_epoch_spec; [assumption|nia]).
  rewrite Hep. unfold Epoch.ref_first_block. apply orb_true_iff. right. apply N.eqb_eq. nia.
Qed.

(* with P = 0 every block qualifies *)
Lemma percent0_all_qualify b : P = 0 -> ref_qualifies b = true.
Proof. intros ->. unfold Epoch.ref_qualifies. apply orb_true_iff. left. apply N.leb_le. lia. Qed.

(* ------------------------------------------------------------------------------------------ *)
(* isNotificationRequired / step in closed form                                                 *)
(* ------------------------------------------------------------------------------------------ *)

Lemma is_notification_required_spec b w : S0 <= b ->
  is_notification_required S0 n P b w = (ref_qualifies b && (w <=? ref_epoch b), ref_epoch b).
Proof.
  intros Hb. unfold is_notification_required, percent_epoch, Epoch.ref_qualifies.
  rewrite starting_block_ref by assumption. rewrite epoch_number_ref by assumption.
  pose proof (ref_first_le b Hb) as Hpos.
  set (pos := b - ref_first_block (ref_epoch b)) in *.
  assert (Hp : pos <= n - 1) by lia. clearbody pos.
  unfold qlt. cbn [fst snd].
  destruct (N.ltb_spec ((n - 1) * 100) (P * n)) as [Hclamp|Hclamp]; cbn [fst snd].
  - (* threshold clamped to (n-1)/n *)
    destruct (N.ltb_spec (pos * n) ((n - 1) * n)) as [Hlt|Hge].
    + assert (pos < n - 1) by nia.
      replace (P * n <=? 100 * pos) with false by (symmetry; apply N.leb_gt; nia).
      replace (pos =? n - 1) with false by (symmetry; apply N.eqb_neq; lia). reflexivity.
    + assert (pos = n - 1) by nia.
      replace (pos =? n - 1) with true by (symmetry; apply N.eqb_eq; lia).
      rewrite orb_true_r. cbn [andb]. f_equal.
      destruct (N.ltb_spec w (ref_epoch b + 1)), (N.leb_spec w (ref_epoch b)); try lia; reflexivity.
  - destruct (N.ltb_spec (pos * 100) (P * n)) as [Hlt|Hge].
    + replace (P * n <=? 100 * pos) with false by (symmetry; apply N.leb_gt; lia).
      replace (pos =? n - 1) with false by (symmetry; apply N.eqb_neq; nia). reflexivity.
    + replace (P * n <=? 100 * pos) with true by (symmetry; apply N.leb_le; lia).
      cbn [orb andb]. f_equal.
      destruct (N.ltb_spec w (ref_epoch b + 1)), (N.leb_spec w (ref_epoch b)); try lia; reflexivity.
Qed.

Lemma step_spec s b : S0 <= last_block_seen s ->
  step s b =
    if last_block_seen s <? b then
      if ref_qualifies b && (waiting_for_epoch s <=? ref_epoch b)
      then (St b (ref_epoch b + 1), Some (Ev (ref_epoch b) (pending_blocks S0 n b (ref_epoch b))))
      else (St b (waiting_for_epoch s), None)
    else (s, None).
Proof.
  intros Hl. unfold Epoch.step.
  destruct (N.ltb_spec b S0) as [Hlt|Hge].
  - replace (last_block_seen s <? b) with false by (symmetry; apply N.ltb_ge; lia). reflexivity.
  - destruct (N.leb_spec b (last_block_seen s)) as [Hle|Hgt].
    + replace (last_block_seen s <? b) with false by (symmetry; apply N.ltb_ge; lia). reflexivity.
    + replace (last_block_seen s <? b) with true by (symmetry; apply N.ltb_lt; lia).
      cbn [waiting_for_epoch]. rewrite is_notification_required_spec by assumption.
      destruct (ref_qualifies b && (waiting_for_epoch s <=? ref_epoch b)); reflexivity.
Qed.

(* a delivery of a block that is not above everything seen so far changes nothing (covers block S0 itself
   in the initial status, blocks below S0, duplicates, and decreasing deliveries) *)
Lemma step_not_new s b : S0 <= last_block_seen s -> b <= last_block_seen s -> step s b = (s, None).
Proof.
  intros Hl Hb. rewrite step_spec by assumption.
  replace (last_block_seen s <? b) with false by (symmetry; apply N.ltb_ge; lia). reflexivity.
Qed.

Lemma init_status : init = St S0 1.
Proof.
  unfold Epoch.init, Epoch.epoch_number. rewrite N.ltb_irrefl, N.sub_diag.
  rewrite N.div_0_l by lia. reflexivity.
Qed.

Lemma block_S_is_ignored bs : run init (S0 :: bs) = run init bs.
Proof.
  cbn [Epoch.run]. rewrite step_not_new; [reflexivity| |]; rewrite init_status; cbn; lia.
Qed.

Lemma run_ix_proj : forall bs i s,
  map (fun x : nat * N * event => (snd (fst x), ev_epoch (snd x))) (run_ix i s bs) = run s bs.
Proof.
  induction bs as [|b t IH]; intros i s; [reflexivity|].
  cbn [Epoch.run Epoch.run_ix]. destruct (step s b) as [s' [e|]]; cbn [map fst snd]; rewrite IH; reflexivity.
Qed.

(* ------------------------------------------------------------------------------------------ *)
(* main theorem: the loop publishes exactly the reference                                       *)
(* ------------------------------------------------------------------------------------------ *)

Definition same_epoch_qual (b b' : N) : bool := ref_qualifies b' && (ref_epoch b' =? ref_epoch b).

(* what the status remembers about the deliveries so far *)
Definition Inv (earlier : list N) (s : status) : Prop :=
  S0 <= last_block_seen s /\ 1 <= waiting_for_epoch s /\
  (forall b', In b' earlier -> S0 <= b' /\ b' <= last_block_seen s) /\
  (forall b', In b' earlier -> ref_qualifies b' = true -> ref_epoch b' + 1 <= waiting_for_epoch s) /\
  (waiting_for_epoch s = 1 \/
   exists b', In b' earlier /\ ref_qualifies b' = true /\ ref_epoch b' + 1 = waiting_for_epoch s).

Lemma Inv_init : Inv [] init.
Proof.
  rewrite init_status. unfold Inv. cbn [last_block_seen waiting_for_epoch In].
  repeat split; try lia; try (intros ? []).
Qed.

Lemma Inv_existsb earlier s b : Inv earlier s -> last_block_seen s < b ->
  existsb (same_epoch_qual b) earlier = negb (waiting_for_epoch s <=? ref_epoch b).
Proof.
  intros (Hl & Hw & Hin & Hall & Hex) Hb.
  destruct (N.leb_spec (waiting_for_epoch s) (ref_epoch b)) as [Hle|Hgt]; cbn [negb].
  - (* no earlier qualifying block in the epoch of b *)
    destruct (existsb (same_epoch_qual b) earlier) eqn:E; [|reflexivity].
    apply existsb_exists in E as (b' & Hb' & Hq). unfold same_epoch_qual in Hq.
    apply andb_prop in Hq as [Hq He]. apply N.eqb_eq in He.
    specialize (Hall b' Hb' Hq). lia.
  - apply existsb_exists.
    destruct Hex as [H1|(b' & Hb' & Hq & He)].
    + pose proof (ref_epoch_ge1 b). lia.
    + exists b'. split; [assumption|]. unfold same_epoch_qual. rewrite Hq. cbn [andb]. apply N.eqb_eq.
      destruct (Hin b' Hb') as [_ Hle]. pose proof (ref_epoch_mono b' b ltac:(lia)). lia.
Qed.

Lemma Inv_notify earlier s b : Inv earlier s -> last_block_seen s < b ->
  ref_qualifies b = true -> Inv (b :: earlier) (St b (ref_epoch b + 1)).
Proof.
  intros (Hl & Hw & Hin & Hall & Hex) Hb Hq. unfold Inv. cbn [last_block_seen waiting_for_epoch].
  split; [lia|]. split; [lia|]. split; [|split].
  - intros b' [<-|Hb']; [lia|]. destruct (Hin b' Hb'). lia.
  - intros b' [<-|Hb'] Hq'; [lia|].
    destruct (Hin b' Hb') as [_ Hle]. pose proof (ref_epoch_mono b' b ltac:(lia)). lia.
  - right. exists b. split; [left; reflexivity|]. split; [assumption|reflexivity].
Qed.

Lemma Inv_skip earlier s b : Inv earlier s -> last_block_seen s < b ->
  ref_qualifies b && (waiting_for_epoch s <=? ref_epoch b) = false ->
  Inv (b :: earlier) (St b (waiting_for_epoch s)).
Proof.
  intros (Hl & Hw & Hin & Hall & Hex) Hb Hc. unfold Inv. cbn [last_block_seen waiting_for_epoch].
  split; [lia|]. split; [lia|]. split; [|split].
  - intros b' [<-|Hb']; [lia|]. destruct (Hin b' Hb'). lia.
  - intros b' [<-|Hb'] Hq'; [|apply Hall; assumption].
    rewrite Hq' in Hc. cbn [andb] in Hc. apply N.leb_gt in Hc. lia.
  - destruct Hex as [H1|(b' & Hb' & Hq & He)]; [left; assumption|].
    right. exists b'. split; [right; assumption|]. split; assumption.
Qed.

Lemma first_qualifying_cons earlier b t :
  first_qualifying earlier (b :: t) =
    if ref_qualifies b && negb (existsb (same_epoch_qual b) earlier)
    then b :: first_qualifying (b :: earlier) t else first_qualifying (b :: earlier) t.
Proof. reflexivity. Qed.

Theorem run_is_reference : forall bs earlier s, Inv earlier s ->
  run s bs = map (fun b => (b, ref_epoch b)) (first_qualifying earlier (effective (last_block_seen s) bs)).
Proof.
  induction bs as [|b t IH]; intros earlier s HI; [reflexivity|].
  pose proof HI as (Hl & _).
  cbn [Epoch.run effective]. rewrite step_spec by assumption.
  destruct (N.ltb_spec (last_block_seen s) b) as [Hnew|Hold].
  - rewrite first_qualifying_cons, (Inv_existsb earlier s b HI Hnew), negb_involutive.
    destruct (ref_qualifies b && (waiting_for_epoch s <=? ref_epoch b)) eqn:Hc.
    + apply andb_prop in Hc as [Hq _]. cbn [ev_epoch map]. f_equal.
      exact (IH (b :: earlier) _ (Inv_notify earlier s b HI Hnew Hq)).
    + exact (IH (b :: earlier) _ (Inv_skip earlier s b HI Hnew Hc)).
  - exact (IH earlier s HI).
Qed.

Theorem outputs_characterised bs : run init bs = expected S0 n P bs.
Proof.
  unfold expected. rewrite (run_is_reference bs [] init Inv_init).
  rewrite init_status. reflexivity.
Qed.

(* ------------------------------------------------------------------------------------------ *)
(* the deliveries that count                                                                    *)
(* ------------------------------------------------------------------------------------------ *)

Lemma effective_sorted : forall bs seen,
  StronglySorted N.lt (effective seen bs) /\ Forall (fun b => seen < b) (effective seen bs).
Proof.
  induction bs as [|b t IH]; intros seen; cbn [effective]; [split; constructor|].
  destruct (N.ltb_spec seen b) as [Hlt|Hge]; [|apply IH].
  destruct (IH b) as [Hs Hf]. split.
  - constructor; assumption.
  - constructor; [assumption|]. eapply Forall_impl; [|exact Hf]. cbn. intros; lia.
Qed.

Lemma effective_In : forall bs seen b, In b (effective seen bs) -> In b bs /\ seen < b.
Proof.
  induction bs as [|x t IH]; intros seen b Hin; cbn [effective] in Hin; [destruct Hin|].
  destruct (N.ltb_spec seen x) as [Hlt|Hge].
  - destruct Hin as [<-|Hin]; [split; [left; reflexivity|assumption]|].
    destruct (IH _ _ Hin). split; [right; assumption|lia].
  - destruct (IH _ _ Hin). split; [right; assumption|assumption].
Qed.

(* an increasing sequence of blocks above the starting block is taken as it is *)
Lemma effective_increasing : forall bs seen,
  StronglySorted N.lt bs -> Forall (fun b => seen < b) bs -> effective seen bs = bs.
Proof.
  induction bs as [|b t IH]; intros seen Hs Hf; [reflexivity|].
  cbn [effective]. inversion Hs as [|? ? Hs' Hlt]; subst. inversion Hf as [|? ? Hb Hf']; subst.
  replace (seen <? b) with true by (symmetry; apply N.ltb_lt; assumption).
  f_equal. apply IH; assumption.
Qed.

(* ------------------------------------------------------------------------------------------ *)
(* consequences, stated on what the loop publishes                                              *)
(* ------------------------------------------------------------------------------------------ *)

Lemma run_epochs_sorted : forall bs s, S0 <= last_block_seen s ->
  StronglySorted N.lt (map snd (run s bs)) /\ Forall (fun e => waiting_for_epoch s <= e) (map snd (run s bs)).
Proof.
  induction bs as [|b t IH]; intros s Hl; [split; constructor|].
  cbn [Epoch.run]. rewrite step_spec by assumption.
  destruct (N.ltb_spec (last_block_seen s) b) as [Hnew|Hold]; [|apply IH; assumption].
  destruct (ref_qualifies b && (waiting_for_epoch s <=? ref_epoch b)) eqn:Hc.
  - apply andb_prop in Hc as [_ Hw]. apply N.leb_le in Hw.
    destruct (IH (St b (ref_epoch b + 1)) ltac:(cbn; lia)) as [Hs Hf]. cbn [waiting_for_epoch] in Hf.
    cbn [map snd ev_epoch]. split.
    + constructor; [assumption|]. eapply Forall_impl; [|exact Hf]. cbv beta. intros; lia.
    + constructor; [assumption|]. eapply Forall_impl; [|exact Hf]. cbv beta. intros; lia.
  - apply (IH (St b (waiting_for_epoch s))). cbn. lia.
Qed.

Theorem epochs_strictly_increase bs : StronglySorted N.lt (map snd (run init bs)).
Proof. apply run_epochs_sorted. rewrite init_status. cbn. lia. Qed.

Lemma sorted_lt_NoDup (l : list N) : StronglySorted N.lt l -> NoDup l.
Proof.
  induction 1 as [|a l Hs IH Hf]; constructor; [|assumption].
  intros Hin. rewrite Forall_forall in Hf. specialize (Hf a Hin). lia.
Qed.

Theorem at_most_once_per_epoch bs : NoDup (map snd (run init bs)).
Proof. apply sorted_lt_NoDup, epochs_strictly_increase. Qed.

(* membership in first_qualifying over a strictly increasing list *)
Lemma first_qualifying_In : forall l earlier b,
  StronglySorted N.lt l -> (forall x y, In x earlier -> In y l -> x < y) ->
  (In b (first_qualifying earlier l) <->
   In b l /\ ref_qualifies b = true /\
   forall b', In b' earlier \/ In b' l -> b' < b -> ref_epoch b' = ref_epoch b -> ref_qualifies b' = false).
Proof.
  induction l as [|x t IH]; intros earlier b Hs Hsep.
  - cbn. split; [intros []|intros [[] _]].
  - inversion Hs as [|? ? Hs' Hxt]; subst. rewrite Forall_forall in Hxt.
    assert (Hsep' : forall a y, In a (x :: earlier) -> In y t -> a < y).
    { intros a y [<-|Ha] Hy; [apply Hxt; assumption|apply Hsep; [assumption|right; assumption]]. }
    specialize (IH (x :: earlier) b Hs' Hsep').
    assert (Hrest : In b (first_qualifying (x :: earlier) t) <->
                    In b t /\ ref_qualifies b = true /\
                    forall b', In b' earlier \/ In b' (x :: t) -> b' < b -> ref_epoch b' = ref_epoch b ->
                               ref_qualifies b' = false).
    { rewrite IH. split; intros (H1 & H2 & H3); (split; [assumption|split; [assumption|]]);
        intros b' Hb'; apply H3; cbn [In] in *; tauto. }
    rewrite first_qualifying_cons.
    assert (Hhead : ref_qualifies x && negb (existsb (same_epoch_qual x) earlier) = true <->
                    ref_qualifies x = true /\
                    forall b', In b' earlier \/ In b' (x :: t) -> b' < x -> ref_epoch b' = ref_epoch x ->
                               ref_qualifies b' = false).
    { rewrite andb_true_iff, negb_true_iff. split.
      - intros [Hq Hne]. split; [assumption|]. intros b' [Hb'|[<-|Hb']] Hlt He.
        + destruct (ref_qualifies b') eqn:Hq'; [|reflexivity].
          assert (existsb (same_epoch_qual x) earlier = true); [|congruence].
          apply existsb_exists. exists b'. split; [assumption|]. unfold same_epoch_qual.
          rewrite Hq'. cbn [andb]. apply N.eqb_eq. assumption.
        + lia.
        + specialize (Hxt b' Hb'). lia.
      - intros [Hq Hall]. split; [assumption|].
        destruct (existsb (same_epoch_qual x) earlier) eqn:E; [|reflexivity].
        apply existsb_exists in E as (b' & Hb' & Hc). unfold same_epoch_qual in Hc.
        apply andb_prop in Hc as [Hq' He]. apply N.eqb_eq in He.
        rewrite (Hall b' (or_introl Hb') (Hsep b' x Hb' (or_introl eq_refl)) He) in Hq'. discriminate. }
    destruct (ref_qualifies x && negb (existsb (same_epoch_qual x) earlier)) eqn:Hc.
    + cbn [In]. rewrite Hrest. destruct Hhead as [Hh _]. specialize (Hh eq_refl). split.
      * intros [<-|H]; [split; [left; reflexivity|exact Hh]|].
        destruct H as (H1 & H2 & H3). split; [right; assumption|split; assumption].
      * intros ([<-|H1] & H2 & H3); [left; reflexivity|right; split; [assumption|split; assumption]].
    + rewrite Hrest. split.
      * intros (H1 & H2 & H3). split; [right; assumption|split; assumption].
      * intros ([<-|H1] & H2 & H3); [|split; [assumption|split; assumption]].
        destruct Hhead as [_ Hh]. assert (false = true) by (apply Hh; split; assumption). discriminate.
Qed.

(* every published event: its block was delivered as a new maximum above S0, it qualifies, the event names its
   epoch, and no earlier counted delivery qualified in that epoch ("at the first such block") *)
Theorem none_without_qualifying_block bs b e : In (b, e) (run init bs) ->
  In b (effective S0 bs) /\ ref_qualifies b = true /\ e = ref_epoch b /\
  forall b', In b' (effective S0 bs) -> b' < b -> ref_epoch b' = e -> ref_qualifies b' = false.
Proof.
  rewrite outputs_characterised. unfold expected. intros Hin.
  apply in_map_iff in Hin as (x & Hx & Hin). inversion Hx; subst x e. clear Hx.
  apply first_qualifying_In in Hin as (H1 & H2 & H3).
  - split; [assumption|]. split; [assumption|]. split; [reflexivity|].
    intros b' Hb'. apply H3. right. assumption.
  - apply effective_sorted.
  - intros x y [].
Qed.

(* whenever some counted delivery qualifies, its epoch is announced *)
Lemma first_qualifying_complete : forall l earlier b, In b l -> ref_qualifies b = true ->
  (exists b0, In b0 (first_qualifying earlier l) /\ ref_epoch b0 = ref_epoch b) \/
  (exists b', In b' earlier /\ ref_qualifies b' = true /\ ref_epoch b' = ref_epoch b).
Proof.
  induction l as [|x t IH]; intros earlier b Hin Hq; [destruct Hin|].
  rewrite first_qualifying_cons.
  assert (Hx : ref_qualifies x = true ->
          (exists b0, In b0 (if ref_qualifies x && negb (existsb (same_epoch_qual x) earlier)
                             then x :: first_qualifying (x :: earlier) t
                             else first_qualifying (x :: earlier) t) /\ ref_epoch b0 = ref_epoch x) \/
          (exists b', In b' earlier /\ ref_qualifies b' = true /\ ref_epoch b' = ref_epoch x)).
  { intros Hqx. rewrite Hqx. cbn [andb].
    destruct (existsb (same_epoch_qual x) earlier) eqn:E; cbn [negb].
    - right. apply existsb_exists in E as (b' & Hb' & Hc). unfold same_epoch_qual in Hc.
      apply andb_prop in Hc as [Hq' He]. apply N.eqb_eq in He. exists b'. repeat split; assumption.
    - left. exists x. split; [left; reflexivity|reflexivity]. }
  destruct Hin as [<-|Hin]; [apply Hx; assumption|].
  destruct (IH (x :: earlier) b Hin Hq) as [(b0 & Hb0 & He)|(b' & [<-|Hb'] & Hq' & He)].
  - left. exists b0. split; [|assumption].
    destruct (ref_qualifies x && negb (existsb (same_epoch_qual x) earlier)); [right|]; assumption.
  - rewrite <- He. apply Hx. assumption.
  - right. exists b'. repeat split; assumption.
Qed.

Theorem every_qualifying_epoch_announced bs b : In b (effective S0 bs) -> ref_qualifies b = true ->
  exists b0, In (b0, ref_epoch b) (run init bs).
Proof.
  intros Hin Hq. rewrite outputs_characterised. unfold expected.
  destruct (first_qualifying_complete _ [] b Hin Hq) as [(b0 & Hb0 & He)|(b' & [] & _)].
  exists b0. apply in_map_iff. exists b0. split; [rewrite He; reflexivity|assumption].
Qed.

(* the property as worded: an increasing sequence of blocks above the starting block *)
Theorem increasing_sequences bs : StronglySorted N.lt bs -> Forall (fun b => S0 < b) bs ->
  run init bs = map (fun b => (b, ref_epoch b)) (first_qualifying [] bs).
Proof.
  intros Hs Hf. rewrite outputs_characterised. unfold expected. rewrite effective_increasing by assumption.
  reflexivity.
Qed.

End EpochProofs.
